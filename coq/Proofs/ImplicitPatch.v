(* C17 proof library, part 4: the PATCH half of clause 4.

   1. [rpaths_last]: for every patch tree t related to a diff level D by [pt_rel] (the C02
      characterisation of make_patch: every item is the row of a non-UNCHANGED entry, the removal
      command of a REMOVED / %ordered-MOVED entry, or "commit" next to a %force_commit entry) and
      every command path q of t, the LAST element of q is an exit word of the formatter family or
      is explained, in that sense, by the entries of D below the parent path [removelast q].
   2. [patch_cmds_explained]: the same for cmd_paths of make_patch (make_pre D), any diff D.
   3. [no_spurious_patch]: under the hypotheses of the diff half (no_spurious_diff) every command
      below the parent is explained by an entry whose row is NOT the default row d - the entries
      of d are all UNCHANGED, make_patch never looks at them.  Hence a command `d` is there only as
      the removal command of another REMOVED line of that parent (or as an exit word / "commit",
      excluded for the shipped tables by computation), and its reverse form only as an explicit
      changed row or as such a removal command.
   4. the unconditional reading ("no command has d as its last element") is false, with witness.
   5. parents present on one side only: a REMOVED parent emits no command below itself
      (default logic), an ADDED parent carries its default children as commands (witness). *)
From Coq Require Import List String Ascii Bool Arith Lia.
From Annet Require Import Base.Str Base.Tree Model.Pattern Model.Rulebook Model.Diff Model.Order Model.Patch
     Model.Blocks Model.Pipeline Model.Device Model.Implicit
     Spec.C09Blocks Spec.P_C17 Gen.Src_implicit
     Proofs.DiffBasics Proofs.DiffProofsMoved Proofs.BlocksProofs Proofs.AclPipelineProofs
     Proofs.ImplicitLib Proofs.ImplicitSpec Proofs.ImplicitDiff Proofs.ImplicitProofs.
Import ListNotations.
Open Scope string_scope.
Open Scope list_scope.

(* ------------------------------------------------------------------------------------ *)
(* 1. the last element of a command path                                                  *)

Section Explained.
  Variable rreverse : string -> list string -> string.

  (* x, emitted below a parent whose diff entries are L, is accounted for by entries satisfying ok *)
  Definition explained_by (ok : dnode -> Prop) (L : list dnode) (x : string) : Prop :=
    (exists n, In n L /\ ok n /\ d_row n = x /\ d_op n <> Unchanged) \/
    (exists n n0, In n L /\ ok n /\ In n0 L /\ mi_raw (d_mi n0) = mi_raw (d_mi n) /\
        x = rreverse (a_pat (mi_attrs (d_mi n0))) (mi_key (d_mi n)) /\
        (d_op n = Removed \/ (d_op n = Moved /\ a_logic (mi_attrs (d_mi n0)) = LOrdered))) \/
    (x = "commit" /\ exists n0, In n0 L /\ a_force_commit (mi_attrs (d_mi n0)) = true).

  Definition any_entry (n : dnode) : Prop := True.

  Lemma explained_incl ok L L' x : incl L L' -> explained_by ok L x -> explained_by ok L' x.
  Proof.
    intros Hi [(n & Hn & Hok & Er & Ho)|[(n & n0 & Hn & Hok & Hn0 & Eraw & Ex & Hop)|(Ex & n0 & Hn0 & Ef)]].
    - left. exists n. repeat split; try assumption. apply Hi. exact Hn.
    - right. left. exists n, n0. repeat split; try assumption; apply Hi; assumption.
    - right. right. split; [exact Ex|]. exists n0. split; [apply Hi; exact Hn0 | exact Ef].
  Qed.

  Lemma item_explained D row child sk : item_rel rreverse D (row, child, sk) -> explained_by any_entry D row.
  Proof.
    intros [(n & Hn & Er & Ho & _)|[(_ & n & n0 & Hn & Hn0 & Eraw & Erow & Hop)|(_ & Erow & n0 & Hn0 & Ef)]].
    - left. exists n. repeat split; assumption.
    - right. left. exists n, n0. repeat split; assumption.
    - right. right. split; [exact Erow|]. exists n0. split; assumption.
  Qed.

  Lemma level_at_kids row p D n : In n D -> d_row n = row -> incl (level_at p (d_kids n)) (level_at (row :: p) D).
  Proof.
    intros Hn Er x Hx. cbn [level_at]. apply in_flat_map. exists n. split; [exact Hn|].
    rewrite Er, String.eqb_refl. exact Hx.
  Qed.

  Variable f : family.

  Theorem rpaths_last : forall t D parent,
    pt_rel rreverse t D ->
    forall q, In q (rpaths f parent t) ->
      q <> [] /\
      (In (last q "") (family_exits f) \/ explained_by any_entry (level_at (removelast q) D) (last q "")).
  Proof.
    induction t as [items IH] using ptree_ind2. intros D parent Hrel q Hq.
    rewrite rpaths_unfold in Hq. apply pt_rel_items in Hrel.
    revert Hrel Hq. induction IH as [|[[row child] sk] l Hit Hl IHl]; cbn [rpaths_items]; intros Hrel Hq; [destruct Hq|].
    inversion Hrel as [|x y Hrel1 Hrel2]; subst.
    destruct Hq as [Hq|Hq].
    { subst q. split; [discriminate|]. right. cbn [last removelast level_at]. eapply item_explained. exact Hrel1. }
    apply in_app_iff in Hq as [Hq|Hq]; [|apply IHl; assumption].
    destruct child as [ct|]; [|destruct Hq].
    unfold kidP in Hit. cbn [fst snd] in Hit.
    assert (Hn : exists n, In n D /\ d_row n = row /\ pt_rel rreverse ct (d_kids n)).
    { destruct Hrel1 as [(n & G1 & G2 & _ & G3)|[(G & _)|(G & _)]];
        [exists n; repeat split; assumption | discriminate | discriminate]. }
    destruct Hn as (n & Hn & Er & Hct).
    apply in_app_iff in Hq as [Hq|Hq].
    - apply in_map_iff in Hq as (q' & Eq & Hq'). subst q. split; [discriminate|].
      apply in_app_iff in Hq' as [Hq'|Hq'].
      + destruct (Hit (d_kids n) row Hct q' Hq') as [Hne Hlast].
        destruct q' as [|c rest]; [congruence|].
        change (last (row :: c :: rest) "") with (last (c :: rest) "").
        change (removelast (row :: c :: rest)) with (row :: removelast (c :: rest)).
        destruct Hlast as [Hlast|Hlast]; [left; exact Hlast | right].
        eapply explained_incl; [|exact Hlast]. apply level_at_kids; assumption.
      + apply in_map_iff in Hq' as (e & Ee & He). subst q'. left. cbn [last].
        eapply exit_words. apply exit_wrapped_in. exact He.
    - apply in_map_iff in Hq as (e & Ee & He). subst q. split; [discriminate|]. left. cbn [last].
      eapply exit_words. apply exit_inline_in. exact He.
  Qed.
End Explained.

(* the families whose command paths are the path stack of the block stream (all but the
   Juniper / Nokia flattening) *)
Definition stack_family (f : family) : bool := match f with FJuniper _ _ => false | _ => true end.

Lemma cmd_paths_rpaths' f t q : stack_family f = true -> In q (cmd_paths f t) -> In q (rpaths f "" t).
Proof.
  intros Hf H. rewrite <- raw_paths_top.
  assert (E : cmd_paths f t = path_stack (blocks f "" t) [] []) by (destruct f; try reflexivity; discriminate).
  rewrite E in H. destruct (path_stack_incl _ _ _ _ H) as [[]|G]. exact G.
Qed.

Lemma removelast_snoc' {A} (l : list A) x : removelast (l ++ [x]) = l.
Proof. apply removelast_last. Qed.
Lemma last_snoc' {A} (l : list A) x d : last (l ++ [x]) d = x.
Proof. apply last_last. Qed.

(* ------------------------------------------------------------------------------------ *)
(* 2. every command of make_patch (make_pre D) is explained by D, any diff D                *)
Section PatchCmds.
  Variable rmatch : string -> string -> option (list string).
  Variable rsrc : string -> string.
  Variable rrev : string -> string.
  Variable block_exit : string.
  Variable rreverse : string -> list string -> string.

  Theorem patch_cmds_explained f D ordering pt p x :
    stack_family f = true ->
    make_patch rmatch rsrc rrev block_exit rreverse (make_pre D) ordering = POk pt ->
    In (p ++ [x]) (cmd_paths f pt) ->
    In x (family_exits f) \/ explained_by rreverse any_entry (level_at p D) x.
  Proof.
    intros Hf Hp Hq. apply (cmd_paths_rpaths' f pt _ Hf) in Hq.
    pose proof (make_patch_rel rmatch rsrc rrev block_exit rreverse D ordering pt Hp) as Hrel.
    destruct (rpaths_last rreverse f pt D "" Hrel _ Hq) as [_ H].
    rewrite removelast_snoc', last_snoc' in H. exact H.
  Qed.
End PatchCmds.

(* ------------------------------------------------------------------------------------ *)
(* 3. entries at a path = the entries of the level below the parent carrying the row       *)
Lemma level_entries : forall p D n x, In n (level_at p D) -> d_row n = x -> In n (entries_at (p ++ [x]) D).
Proof.
  induction p as [|y p IH]; intros D n x Hn Er.
  - cbn [app level_at] in *. rewrite entries_at_one. apply filter_In. split; [exact Hn|].
    rewrite Er. apply String.eqb_refl.
  - cbn [level_at] in Hn. apply in_flat_map in Hn as (e & He & Hn).
    assert (E : entries_at ((y :: p) ++ [x]) D =
                flat_map (fun e => if String.eqb (d_row e) y then entries_at (p ++ [x]) (d_kids e) else []) D).
    { cbn [app]. destruct p as [|z p']; reflexivity. }
    rewrite E. apply in_flat_map. exists e. split; [exact He|].
    destruct (String.eqb (d_row e) y); [|destruct Hn]. apply IH; assumption.
Qed.

Section NoSpuriousPatch.
  Variable im : string -> string -> bool.                       (* implicit rule matcher *)
  Variable rm : string -> string -> option (list string).      (* patching rule matcher *)
  Variable rsrc : string -> string.
  Variable rrev : string -> string.
  Variable block_exit : string.
  Variable rreverse : string -> list string -> string.

  (* entries other than those of the default row d *)
  Definition other_than (d : string) (n : dnode) : Prop := d_row n <> d.

  Lemma explained_other d L x :
    (forall n, In n L -> d_row n = d -> d_op n = Unchanged) ->
    explained_by rreverse any_entry L x -> explained_by rreverse (other_than d) L x.
  Proof.
    intros HU [(n & Hn & _ & Er & Ho)|[(n & n0 & Hn & _ & Hn0 & Eraw & Ex & Hop)|H]].
    - left. exists n. repeat split; try assumption. intro E. apply Ho. apply HU; assumption.
    - right. left. exists n, n0. repeat split; try assumption. intro E.
      pose proof (HU n Hn E) as EU. destruct Hop as [Hop|[Hop _]]; rewrite Hop in EU; discriminate.
    - right. right. exact H.
  Qed.

  (* the patch half of clause 4 *)
  Theorem no_spurious_patch irs rs ordering f t u p rs' t' u' r pt :
    wfr irs -> okf t -> okf u ->
    rules_at im irs p = Some rs' -> sub_at p t = Some t' -> sub_at p u = Some u' ->
    In r rs' -> i_ign r = false ->
    has_match im (i_row r) t' = false -> has_match im (i_row r) u' = false ->
    ~ In (i_row r) (keys t') -> ~ In (i_row r) (keys u') ->
    path_ddefault rm rs (p ++ [i_row r]) = true ->
    stack_family f = true ->
    let mt := add_implicit im irs t in
    let mu := add_implicit im irs u in
    let D := make_diff rm rs mt mu in
    make_patch rm rsrc rrev block_exit rreverse (make_pre D) ordering = POk pt ->
    forall x, In (p ++ [x]) (cmd_paths f pt) ->
      In x (family_exits f) \/ explained_by rreverse (other_than (i_row r)) (level_at p D) x.
  Proof.
    intros Hw Ht Hu H1 H2 H3 Hin Hi Hmt Hmu Hkt Hku Hdl Hf mt mu D Hp x Hx.
    destruct (no_spurious_diff im rm irs rs t u p rs' t' u' r Hw Ht Hu H1 H2 H3 Hin Hi Hmt Hmu Hkt Hku Hdl)
      as (_ & HF & _).
    fold mt mu D in HF. rewrite Forall_forall in HF.
    destruct (patch_cmds_explained rm rsrc rrev block_exit rreverse f D ordering pt p x Hf Hp Hx) as [G|G];
      [left; exact G | right].
    apply explained_other; [|exact G].
    intros n Hn Er. apply HF. apply level_entries; assumption.
  Qed.

  (* ... read for the default row itself: the command `d` below the parent is an exit word,
     "commit" of a %force_commit rule, or the removal command of ANOTHER line of that parent
     which is REMOVED (or MOVED under an %ordered rule) *)
  Definition removal_of_other (d : string) (L : list dnode) (x : string) : Prop :=
    exists n n0, In n L /\ d_row n <> d /\ In n0 L /\ mi_raw (d_mi n0) = mi_raw (d_mi n) /\
      x = rreverse (a_pat (mi_attrs (d_mi n0))) (mi_key (d_mi n)) /\
      (d_op n = Removed \/ (d_op n = Moved /\ a_logic (mi_attrs (d_mi n0)) = LOrdered)).

  Corollary no_spurious_patch_row irs rs ordering f t u p rs' t' u' r pt :
    wfr irs -> okf t -> okf u ->
    rules_at im irs p = Some rs' -> sub_at p t = Some t' -> sub_at p u = Some u' ->
    In r rs' -> i_ign r = false ->
    has_match im (i_row r) t' = false -> has_match im (i_row r) u' = false ->
    ~ In (i_row r) (keys t') -> ~ In (i_row r) (keys u') ->
    path_ddefault rm rs (p ++ [i_row r]) = true ->
    stack_family f = true ->
    ~ In (i_row r) ("commit" :: family_exits f) ->
    let mt := add_implicit im irs t in
    let mu := add_implicit im irs u in
    let D := make_diff rm rs mt mu in
    make_patch rm rsrc rrev block_exit rreverse (make_pre D) ordering = POk pt ->
    In (p ++ [i_row r]) (cmd_paths f pt) -> removal_of_other (i_row r) (level_at p D) (i_row r).
  Proof.
    intros Hw Ht Hu H1 H2 H3 Hin Hi Hmt Hmu Hkt Hku Hdl Hf Hclean mt mu D Hp Hx.
    destruct (no_spurious_patch irs rs ordering f t u p rs' t' u' r pt Hw Ht Hu H1 H2 H3 Hin Hi Hmt Hmu Hkt Hku
                                Hdl Hf Hp (i_row r) Hx) as [G|[(n & _ & Hok & Er & _)|[(n & n0 & Hn & Hok & Hn0 & Eraw & Ex & Hop)|(Ex & _)]]].
    - exfalso. apply Hclean. right. exact G.
    - exfalso. apply Hok. exact Er.
    - exists n, n0. repeat split; assumption.
    - exfalso. apply Hclean. left. symmetry. exact Ex.
  Qed.

  (* ... and for any other word x (in particular the reverse form `undo d`): an exit word, "commit",
     an explicit changed row x of that parent, or the removal command of another line *)
  Corollary no_spurious_patch_word irs rs ordering f t u p rs' t' u' r pt x :
    wfr irs -> okf t -> okf u ->
    rules_at im irs p = Some rs' -> sub_at p t = Some t' -> sub_at p u = Some u' ->
    In r rs' -> i_ign r = false ->
    has_match im (i_row r) t' = false -> has_match im (i_row r) u' = false ->
    ~ In (i_row r) (keys t') -> ~ In (i_row r) (keys u') ->
    path_ddefault rm rs (p ++ [i_row r]) = true ->
    stack_family f = true ->
    ~ In x ("commit" :: family_exits f) ->
    let mt := add_implicit im irs t in
    let mu := add_implicit im irs u in
    let D := make_diff rm rs mt mu in
    make_patch rm rsrc rrev block_exit rreverse (make_pre D) ordering = POk pt ->
    In (p ++ [x]) (cmd_paths f pt) ->
    (exists n, In n (level_at p D) /\ d_row n = x /\ x <> i_row r /\ d_op n <> Unchanged) \/
    removal_of_other (i_row r) (level_at p D) x.
  Proof.
    intros Hw Ht Hu H1 H2 H3 Hin Hi Hmt Hmu Hkt Hku Hdl Hf Hclean mt mu D Hp Hx.
    destruct (no_spurious_patch irs rs ordering f t u p rs' t' u' r pt Hw Ht Hu H1 H2 H3 Hin Hi Hmt Hmu Hkt Hku
                                Hdl Hf Hp x Hx) as [G|[(n & Hn & Hok & Er & Ho)|[(n & n0 & Hn & Hok & Hn0 & Eraw & Ex & Hop)|(Ex & _)]]].
    - exfalso. apply Hclean. right. exact G.
    - left. exists n. repeat split; try assumption. intro E. apply Hok. congruence.
    - right. exists n, n0. repeat split; assumption.
    - exfalso. apply Hclean. left. symmetry. exact Ex.
  Qed.
End NoSpuriousPatch.

(* ------------------------------------------------------------------------------------ *)
(* 4. the same in terms of the diff that is SHOWN (strip_unchanged)                        *)

(* UNCHANGED at every depth *)
Fixpoint deep_unch (d : dnode) : bool :=
  match d with DN o _ _ k => op_eqb o Unchanged && forallb deep_unch k end.
(* an UNCHANGED entry has only UNCHANGED entries below it, at every depth *)
Fixpoint hered_n (d : dnode) : bool :=
  match d with DN o _ _ k => (negb (op_eqb o Unchanged) || forallb deep_unch k) && forallb hered_n k end.

Lemma nu_hered : forall d, no_unchanged_n d = true -> hered_n d = true.
Proof.
  induction d as [o row m kids IH] using dnode_ind2. cbn [no_unchanged_n hered_n]. intros H.
  apply andb_true_iff in H as [H1 H2]. rewrite H1. cbn [orb andb].
  apply forallb_forall. intros x Hx. rewrite Forall_forall in IH. rewrite forallb_forall in H2.
  apply IH; [exact Hx | apply H2; exact Hx].
Qed.

Lemma hered_unch_deep d : hered_n d = true -> d_op d = Unchanged -> deep_unch d = true.
Proof.
  destruct d as [o row m k]. cbn [hered_n d_op deep_unch]. intros H E. subst o.
  cbn [op_eqb negb orb] in H. apply andb_true_iff in H as [H _]. rewrite H. reflexivity.
Qed.

Lemma mark_hered : forall d, no_unchanged_n d = true -> hered_n (mark_unchanged_n d) = true.
Proof.
  induction d as [o row m kids IH] using dnode_ind2. intros H. pose proof H as H0.
  cbn [no_unchanged_n] in H. apply andb_true_iff in H as [H1 H2]. cbn [mark_unchanged_n].
  destruct (op_eqb o Affected) eqn:Eo; [|apply nu_hered; exact H0].
  assert (HK : forallb hered_n (map mark_unchanged_n kids) = true).
  { apply forallb_forall. intros x Hx. apply in_map_iff in Hx as (y & E & Hy). subst x.
    rewrite Forall_forall in IH. rewrite forallb_forall in H2. apply IH; [exact Hy | apply H2; exact Hy]. }
  destruct (forallb (fun x => op_eqb (d_op x) Unchanged) (map mark_unchanged_n kids)) eqn:Ea;
    cbn [hered_n op_eqb negb orb andb]; [|exact HK].
  rewrite HK, andb_true_r. apply forallb_forall. intros x Hx.
  rewrite forallb_forall in Ea, HK. apply hered_unch_deep; [apply HK; exact Hx|].
  apply op_eqb_eq. apply Ea. exact Hx.
Qed.

Lemma make_diff_hered rm rs old new : forallb hered_n (make_diff rm rs old new) = true.
Proof.
  unfold make_diff, mark_unchanged. apply forallb_forall. intros x Hx.
  apply in_map_iff in Hx as (y & E & Hy). subst x. apply mark_hered.
  unfold raw_diff in Hy. eapply diff_t_nu; [|exact Hy]. discriminate.
Qed.

Lemma deep_level : forall p K n, forallb deep_unch K = true -> In n (level_at p K) -> d_op n = Unchanged.
Proof.
  induction p as [|y p IH]; intros K n HK Hn; rewrite forallb_forall in HK.
  - cbn [level_at] in Hn. specialize (HK n Hn). destruct n as [o r m k]. cbn [deep_unch] in HK.
    apply andb_true_iff in HK as [HK _]. apply op_eqb_eq in HK. exact HK.
  - cbn [level_at] in Hn. apply in_flat_map in Hn as (e & He & Hn).
    destruct (String.eqb (d_row e) y); [|destruct Hn]. specialize (HK e He).
    destruct e as [o r m k]. cbn [deep_unch] in HK. apply andb_true_iff in HK as [_ HK].
    cbn [d_kids] in Hn. eapply IH; [exact HK | exact Hn].
Qed.

(* a changed entry of the full diff is in the shown diff, at the same place *)
Lemma level_strip : forall p D n, forallb hered_n D = true -> In n (level_at p D) -> d_op n <> Unchanged ->
  In (strip_node n) (level_at p (strip_unchanged D)).
Proof.
  induction p as [|y p IH]; intros D n HD Hn Ho.
  - cbn [level_at] in *. apply strip_In; assumption.
  - cbn [level_at] in *. apply in_flat_map in Hn as (e & He & Hn).
    destruct (String.eqb (d_row e) y) eqn:Ey; [|destruct Hn].
    rewrite forallb_forall in HD. pose proof (HD e He) as Hh.
    assert (Hoe : d_op e <> Unchanged).
    { intro E. apply Ho. pose proof (hered_unch_deep e Hh E) as Hd. destruct e as [o r m k].
      cbn [deep_unch] in Hd. apply andb_true_iff in Hd as [_ Hd]. cbn [d_kids] in Hn.
      eapply deep_level; [exact Hd | exact Hn]. }
    apply in_flat_map. exists (strip_node e). split; [apply strip_In; assumption|].
    cbn [strip_node d_row d_kids]. rewrite Ey. apply IH; [|exact Hn | exact Ho].
    destruct e as [o r m k]. cbn [hered_n] in Hh. apply andb_true_iff in Hh as [_ Hh]. exact Hh.
Qed.

Section Shown.
  Variable rreverse : string -> list string -> string.
  (* x is accounted for by a changed entry, other than d's, of the SHOWN diff level S; the pattern
     of a removal command is that of an entry (possibly UNCHANGED) of the same rule in the full level L *)
  Definition explained_shown (d : string) (S L : list dnode) (x : string) : Prop :=
    (exists n, In n S /\ d_row n <> d /\ d_row n = x) \/
    (exists n n0, In n S /\ d_row n <> d /\ In n0 L /\ mi_raw (d_mi n0) = mi_raw (d_mi n) /\
        x = rreverse (a_pat (mi_attrs (d_mi n0))) (mi_key (d_mi n)) /\
        (d_op n = Removed \/ (d_op n = Moved /\ a_logic (mi_attrs (d_mi n0)) = LOrdered))) \/
    (x = "commit" /\ exists n0, In n0 L /\ a_force_commit (mi_attrs (d_mi n0)) = true).

  Lemma explained_to_shown d p D x : forallb hered_n D = true ->
    explained_by rreverse (other_than d) (level_at p D) x ->
    explained_shown d (level_at p (strip_unchanged D)) (level_at p D) x.
  Proof.
    intros HD [(n & Hn & Hok & Er & Ho)|[(n & n0 & Hn & Hok & Hn0 & Eraw & Ex & Hop)|H]].
    - left. exists (strip_node n). split; [apply level_strip; assumption|]. cbn [strip_node d_row]. split; assumption.
    - right. left. exists (strip_node n), n0. cbn [strip_node d_row d_mi d_op].
      split; [|repeat split; assumption]. apply level_strip; [exact HD | exact Hn|].
      destruct Hop as [Hop|[Hop _]]; rewrite Hop; discriminate.
    - right. right. exact H.
  Qed.
End Shown.

(* ------------------------------------------------------------------------------------ *)
(* 5. the model pipeline (Model/Pipeline.v) and every hardware branch                       *)

(* the formatter families of the shipped block vendors (Model/Blocks.v; RouterOS' path stack has
   no exit words) and everything they can emit that is not a row or a removal command *)
Definition hw_families : list family := [FCommon; FBlockExit "exit"; FHuawei; FCisco; FAsr; FRos].
Definition hw_extra_words : list string := "commit" :: flat_map family_exits hw_families.

Lemma hw_families_stack f : In f hw_families -> stack_family f = true.
Proof. intros H. repeat (destruct H as [H|H]; [subst f; reflexivity|]). destruct H. Qed.

Lemma hw_extra_words_spec f x : In f hw_families -> In x ("commit" :: family_exits f) -> In x hw_extra_words.
Proof.
  intros Hf [H|H]; [left; exact H | right]. apply in_flat_map. exists f. split; assumption.
Qed.

(* neither the default row nor its reverse form is such a word *)
Definition clean_word (rev d : string) : bool :=
  forallb (fun x => negb (existsb (String.eqb x) hw_extra_words)) [d; reverse_row d rev].
Fixpoint clean_r (rev : string) (r : irule) : bool :=
  match r with IRule row ign ks => (ign || clean_word rev row) && forallb (clean_r rev) ks end.
Definition clean_rules (rev : string) (rs : list irule) : bool := forallb (clean_r rev) rs.

Lemma src_branches_clean : forallb (fun b => clean_rules (ib_reverse b) (branch_rules b)) Src_branches = true.
Proof. vm_compute. reflexivity. Qed.

Lemma clean_at rev : forall p rs rs', clean_rules rev rs = true -> rules_at imatch rs p = Some rs' ->
  clean_rules rev rs' = true.
Proof.
  induction p as [|x p IH]; intros rs rs' Hs H; cbn [rules_at] in H.
  - injection H as E. subst. exact Hs.
  - destruct (last_match imatch rs x) as [r|] eqn:El; [|discriminate].
    apply last_match_In in El as [Hr _]. apply (IH (i_kids r)); [|exact H].
    unfold clean_rules in Hs. rewrite forallb_forall in Hs. specialize (Hs r Hr).
    destruct r as [row ign ks]. cbn [clean_r] in Hs. apply andb_true_iff in Hs as [_ Hs]. exact Hs.
Qed.

Lemma clean_In rev rs r : clean_rules rev rs = true -> In r rs -> i_ign r = false ->
  ~ In (i_row r) hw_extra_words /\ ~ In (reverse_row (i_row r) rev) hw_extra_words.
Proof.
  unfold clean_rules. rewrite forallb_forall. intros Hs Hr Hi. specialize (Hs r Hr).
  destruct r as [row ign ks]. cbn [clean_r i_row i_ign] in *. subst ign.
  apply andb_true_iff in Hs as [Hs _]. cbn [orb] in Hs. unfold clean_word in Hs. cbn [forallb] in Hs.
  apply andb_true_iff in Hs as [H1 H2]. apply andb_true_iff in H2 as [H2 _].
  apply negb_true_iff in H1, H2. split; intro Hx.
  - apply existsb_eqb_In in Hx. congruence.
  - apply existsb_eqb_In in Hx. congruence.
Qed.

Lemma diff_and_patch_eq v rs ordering old new d pt :
  diff_and_patch v rs ordering old new = (d, POk pt) ->
  d = strip_unchanged (p_make_diff rs old new) /\
  make_patch pm psrc (prev v) (v_exit v) (prreverse v) (make_pre (p_make_diff rs old new)) ordering = POk pt.
Proof.
  unfold diff_and_patch, p_make_patch. intros E. injection E as E1 E2. split; [symmetry; exact E1 | exact E2].
Qed.

(* the conclusion of the patch half, for a default row d below parent p of the model pipeline's
   result: every command below p is explained by a changed line of the shown diff other than d *)
Definition patch_explained (v : vendor) (d : string) (p : list string) (full shown : list dnode)
           (paths : list (list string)) : Prop :=
  forall x, In (p ++ [x]) paths ->
    In x (family_exits (v_family v)) \/
    explained_shown (prreverse v) d (level_at p shown) (level_at p full) x.

Section PipelinePatch.
  Variable im : string -> string -> bool.

  Theorem pipeline_no_spurious_patch (v : vendor) irs rs ordering t u p rs' t' u' r d pt :
    wfr irs -> okf t -> okf u ->
    rules_at im irs p = Some rs' -> sub_at p t = Some t' -> sub_at p u = Some u' ->
    In r rs' -> i_ign r = false ->
    has_match im (i_row r) t' = false -> has_match im (i_row r) u' = false ->
    ~ In (i_row r) (keys t') -> ~ In (i_row r) (keys u') ->
    path_ddefault pm rs (p ++ [i_row r]) = true ->
    stack_family (v_family v) = true ->
    let mt := add_implicit im irs t in
    let mu := add_implicit im irs u in
    diff_and_patch v rs ordering mt mu = (d, POk pt) ->
    entries_at (p ++ [i_row r]) d = [] /\
    patch_explained v (i_row r) p (p_make_diff rs mt mu) d (cmd_paths (v_family v) pt).
  Proof.
    intros Hw Ht Hu H1 H2 H3 Hin Hi Hmt Hmu Hkt Hku Hdl Hf mt mu E.
    apply diff_and_patch_eq in E as [Ed Ep]. subst d. split.
    - destruct (no_spurious_diff im pm irs rs t u p rs' t' u' r Hw Ht Hu H1 H2 H3 Hin Hi Hmt Hmu Hkt Hku Hdl)
        as (_ & _ & G). exact G.
    - intros x Hx.
      destruct (no_spurious_patch im pm psrc (prev v) (v_exit v) (prreverse v) irs rs ordering (v_family v)
                                  t u p rs' t' u' r pt Hw Ht Hu H1 H2 H3 Hin Hi Hmt Hmu Hkt Hku Hdl Hf Ep x Hx) as [G|G];
        [left; exact G | right].
      apply explained_to_shown; [apply make_diff_hered | exact G].
  Qed.
End PipelinePatch.

(* the two words the property names: the default row and its reverse form *)
Definition removal_shown (v : vendor) (d : string) (S L : list dnode) (x : string) : Prop :=
  exists n n0, In n S /\ d_row n <> d /\ In n0 L /\ mi_raw (d_mi n0) = mi_raw (d_mi n) /\
    x = prreverse v (a_pat (mi_attrs (d_mi n0))) (mi_key (d_mi n)) /\
    (d_op n = Removed \/ (d_op n = Moved /\ a_logic (mi_attrs (d_mi n0)) = LOrdered)).

Lemma patch_explained_words v d p full shown paths :
  patch_explained v d p full shown paths ->
  forall x, ~ In x ("commit" :: family_exits (v_family v)) -> In (p ++ [x]) paths ->
    (x <> d /\ exists n, In n (level_at p shown) /\ d_row n = x) \/
    removal_shown v d (level_at p shown) (level_at p full) x.
Proof.
  intros H x Hc Hx. destruct (H x Hx) as [G|[(n & Hn & Hd & Er)|[(n & n0 & G)|(Ex & _)]]].
  - exfalso. apply Hc. right. exact G.
  - left. split; [congruence|]. exists n. split; assumption.
  - right. exists n, n0. exact G.
  - exfalso. apply Hc. left. symmetry. exact Ex.
Qed.

Section HardwarePatch.
  Variable b : ibranch.
  Hypothesis Hb : In b Src_branches.
  Let R := branch_rules b.

  (* every hardware branch, every vendor of a shipped block family, every patching rulebook that
     treats the path with the default diff logic (any patch logic, any ordering):
     - the shown diff has no entry for the absent default d;
     - a command `d` below the parent is the removal command of ANOTHER line of that parent which
       the shown diff marks REMOVED (or MOVED under %ordered);
     - a command `<reverse> d` is an explicit changed row of the shown diff or such a removal command *)
  Theorem hw_no_spurious_patch (v : vendor) rs ordering t u p rs' t' u' r d pt :
    okf t -> okf u ->
    rules_at imatch R p = Some rs' -> sub_at p t = Some t' -> sub_at p u = Some u' ->
    In r rs' -> i_ign r = false ->
    has_match imatch (i_row r) t' = false -> has_match imatch (i_row r) u' = false ->
    path_ddefault pm rs (p ++ [i_row r]) = true ->
    In (v_family v) hw_families -> v_reverse v = ib_reverse b ->
    let mt := add_implicit imatch R t in
    let mu := add_implicit imatch R u in
    let full := p_make_diff rs mt mu in
    diff_and_patch v rs ordering mt mu = (d, POk pt) ->
    entries_at (p ++ [i_row r]) d = [] /\
    (In (p ++ [i_row r]) (cmd_paths (v_family v) pt) ->
       removal_shown v (i_row r) (level_at p d) (level_at p full) (i_row r)) /\
    (In (p ++ [reverse_row (i_row r) (v_reverse v)]) (cmd_paths (v_family v) pt) ->
       (exists n, In n (level_at p d) /\ d_row n = reverse_row (i_row r) (v_reverse v)) \/
       removal_shown v (i_row r) (level_at p d) (level_at p full) (reverse_row (i_row r) (v_reverse v))).
  Proof.
    intros Ht Hu H1 H2 H3 Hin Hi Hmt Hmu Hdl Hf Hrev mt mu full E.
    assert (Hself : imatch (i_row r) (i_row r) = true).
    { apply (self_matching_In rs' r); [|exact Hin | exact Hi].
      apply (self_matching_at p R rs'); [|exact H1].
      pose proof src_branches_self_matching as H. rewrite forallb_forall in H. apply (H b Hb). }
    assert (Hk : forall g, has_match imatch (i_row r) g = false -> ~ In (i_row r) (keys g)).
    { intros g Hg Hk. apply in_map_iff in Hk as (kv & Ek & Hkv).
      assert (has_match imatch (i_row r) g = true).
      { apply has_match_exists. exists kv. split; [exact Hkv|]. rewrite Ek. exact Hself. }
      congruence. }
    assert (Hclean : ~ In (i_row r) hw_extra_words /\ ~ In (reverse_row (i_row r) (ib_reverse b)) hw_extra_words).
    { apply (clean_In (ib_reverse b) rs' r); [|exact Hin | exact Hi].
      apply (clean_at (ib_reverse b) p R rs'); [|exact H1].
      pose proof src_branches_clean as H. rewrite forallb_forall in H. apply (H b Hb). }
    destruct Hclean as [Hc1 Hc2].
    destruct (pipeline_no_spurious_patch imatch v R rs ordering t u p rs' t' u' r d pt
                (src_branches_wfr b Hb) Ht Hu H1 H2 H3 Hin Hi Hmt Hmu (Hk t' Hmt) (Hk u' Hmu) Hdl
                (hw_families_stack _ Hf) E) as [G1 G2].
    split; [exact G1|]. split.
    - intros Hx. destruct (patch_explained_words v _ _ _ _ _ G2 (i_row r)) as [[Hne _]|G]; [|exact Hx| |exact G].
      + intro Hw. apply Hc1. eapply hw_extra_words_spec; [exact Hf | exact Hw].
      + congruence.
    - intros Hx. rewrite Hrev in *.
      destruct (patch_explained_words v _ _ _ _ _ G2 (reverse_row (i_row r) (ib_reverse b))) as [[_ G]|G];
        [|exact Hx|left; exact G|right; exact G].
      intro Hw. apply Hc2. eapply hw_extra_words_spec; [exact Hf | exact Hw].
  Qed.
End HardwarePatch.

(* ------------------------------------------------------------------------------------ *)
(* 6. witnesses (each replayed on the real _diff_and_patch, see harness/props/c17.py)       *)

Definition dflt (pat : string) (parent : bool) (kids : list prule) : prule :=
  PRule pat false (Attrs pat LDefault DDefault parent false) kids [].
Definition w_rs : rset :=
  ([dflt "ntp ~" false []; dflt "undo ntp ~" false []; dflt "stp ~" false [];
    dflt "user-interface *" true [dflt "user ~" false []; dflt "idle-timeout *" false []]], []).
Definition w_huawei : vendor := Vendor "undo" "quit" FHuawei.

(* 6a. non-vacuity of hw_no_spurious_patch: Huawei CE, parent "user-interface con 0", default
   "user privilege level 3"; the guards hold, the pipeline answers with a patch, the patch has
   commands below that parent, none of them is the default or its reverse form *)
Definition w_t : forest := [("stp mode rstp x", T []); ("user-interface con 0", T [("idle-timeout 5", T [])])].
Definition w_u : forest := [("user-interface con 0", T [("idle-timeout 7", T [])])].

Lemma hw_patch_nonvacuous :
  let R := branch_rules br_huawei_ce in
  let p := ["user-interface con 0"] in
  exists rs' t' u' r d pt,
    rules_at imatch R p = Some rs' /\ sub_at p w_t = Some t' /\ sub_at p w_u = Some u' /\
    In r rs' /\ i_ign r = false /\ i_row r = "user privilege level 3" /\
    has_match imatch (i_row r) t' = false /\ has_match imatch (i_row r) u' = false /\
    path_ddefault pm w_rs (p ++ [i_row r]) = true /\
    In (v_family w_huawei) hw_families /\ v_reverse w_huawei = ib_reverse br_huawei_ce /\
    diff_and_patch w_huawei w_rs [] (add_implicit imatch R w_t) (add_implicit imatch R w_u) = (d, POk pt) /\
    In (p ++ ["idle-timeout 7"]) (cmd_paths (v_family w_huawei) pt) /\
    ~ In (p ++ [i_row r]) (cmd_paths (v_family w_huawei) pt) /\
    ~ In (p ++ [reverse_row (i_row r) "undo"]) (cmd_paths (v_family w_huawei) pt).
Proof.
  cbv zeta.
  exists [IRule "user privilege level 3" false []], [("idle-timeout 5", T [])], [("idle-timeout 7", T [])],
         (IRule "user privilege level 3" false []).
  eexists. eexists.
  repeat match goal with |- _ /\ _ => split end;
    try (vm_compute; reflexivity); try (vm_compute; tauto);
    try (vm_compute; intro H; repeat (destruct H as [H|H]; [discriminate|]); destruct H).
Qed.

(* 6b. the exception is needed: "no command has d as its last element" is false as it stands.
   Huawei CE, top level: the device has `ntp server disable`, the generator nothing; the default
   `undo ntp server disable` is absent from both and no row matches its pattern - and the patch
   consists of exactly that command, as the removal command of the REMOVED line. *)
Theorem no_spurious_patch_unconditional_refuted :
  exists b (v : vendor) rs t u r d pt,
    In b Src_branches /\ okf t /\ okf u /\
    In r (branch_rules b) /\ i_ign r = false /\
    has_match imatch (i_row r) t = false /\ has_match imatch (i_row r) u = false /\
    ~ In (i_row r) (keys t) /\ ~ In (i_row r) (keys u) /\
    path_ddefault pm rs [i_row r] = true /\
    In (v_family v) hw_families /\ v_reverse v = ib_reverse b /\
    diff_and_patch v rs [] (add_implicit imatch (branch_rules b) t) (add_implicit imatch (branch_rules b) u)
      = (d, POk pt) /\
    In [i_row r] (cmd_paths (v_family v) pt).
Proof.
  exists br_huawei_ce, w_huawei, w_rs, [("ntp server disable", T [])], [],
         (IRule "undo ntp server disable" false []).
  eexists. eexists.
  repeat match goal with |- _ /\ _ => split end;
    try (vm_compute; reflexivity); try (vm_compute; tauto);
    try (repeat constructor; cbn; intuition discriminate).
Qed.

(* 6c. the statement as Proofs/ImplicitProofs.v had written it (P_nospur: a command is "explained"
   by another changed line e only if it is e's row or reverse_row e) is false: the removal command
   of a line is formed from the RULE's pattern and the key, not from the whole line - rule `foo *`
   removes `foo bar baz` by `undo foo bar`, which may be a default row. *)
Definition w2_rs : rset := ([dflt "foo *" false []; dflt "undo foo *" false []], []).
Definition w2_irs : list irule := [IRule "undo foo bar" false []].

Theorem no_spurious_patch_statement_refuted : ~ no_spurious_patch_statement.
Proof.
  intro H.
  assert (Hw : wfr w2_irs) by (apply wfrb_wfr; vm_compute; reflexivity).
  assert (Ht : okf [("foo bar baz", T [])]) by (repeat constructor; cbn; intuition discriminate).
  assert (Hu : okf []) by constructor.
  specialize (H w_huawei w2_irs w2_rs [] [("foo bar baz", T [])] [] Hw Ht Hu). cbv zeta in H.
  assert (E : exists d pt,
             diff_and_patch w_huawei w2_rs [] (add_implicit imatch w2_irs [("foo bar baz", T [])])
                            (add_implicit imatch w2_irs []) = (d, POk pt) /\
             P_nospur imatch (path_ddefault pm w2_rs)
                      (C17Pipe (v_reverse w_huawei) w2_irs [("foo bar baz", T [])] []
                               (add_implicit imatch w2_irs [("foo bar baz", T [])]) (add_implicit imatch w2_irs [])
                               d (cmd_paths (v_family w_huawei) pt)) = false).
  { eexists. eexists. split; vm_compute; reflexivity. }
  destruct E as (d & pt & E1 & E2). rewrite (H d pt E1) in E2. discriminate.
Qed.

(* 6d. parents present on ONE side only.  A block the generator ADDS as a whole carries the
   defaults of its completion as commands although neither side has them: Huawei CE, a new
   `user-interface con 0` block is sent with `user privilege level 3` (open finding
   C17/no-spurious/default-below-a-block-added-as-a-whole). *)
Theorem no_spurious_added_parent_refuted :
  exists b (v : vendor) rs t u parent u' rs' r d pt,
    In b Src_branches /\ okf t /\ okf u /\
    sub_at [parent] t = None /\ sub_at [parent] u = Some u' /\
    rules_at imatch (branch_rules b) [parent] = Some rs' /\ In r rs' /\ i_ign r = false /\
    has_match imatch (i_row r) u' = false /\ ~ In (i_row r) (keys u') /\
    path_ddefault pm rs [parent; i_row r] = true /\
    In (v_family v) hw_families /\ v_reverse v = ib_reverse b /\
    diff_and_patch v rs [] (add_implicit imatch (branch_rules b) t) (add_implicit imatch (branch_rules b) u)
      = (d, POk pt) /\
    In [parent; i_row r] (cmd_paths (v_family v) pt) /\
    map d_op (entries_at [parent; i_row r] d) = [Added].
Proof.
  exists br_huawei_ce, w_huawei, w_rs, [], [("user-interface con 0", T [("idle-timeout 5", T [])])],
         "user-interface con 0", [("idle-timeout 5", T [])], [IRule "user privilege level 3" false []],
         (IRule "user privilege level 3" false []).
  eexists. eexists.
  repeat match goal with |- _ /\ _ => split end;
    try (vm_compute; reflexivity); try (vm_compute; tauto);
    try (repeat constructor; cbn; intuition discriminate).
Qed.

(* the same witness, through the predicate the check evaluates on the real pipeline's outputs *)
Theorem nospur_added_refuted :
  exists b (v : vendor) rs t u d pt,
    In b Src_branches /\ okf t /\ okf u /\ In (v_family v) hw_families /\ v_reverse v = ib_reverse b /\
    let mt := add_implicit imatch (branch_rules b) t in
    let mu := add_implicit imatch (branch_rules b) u in
    diff_and_patch v rs [] mt mu = (d, POk pt) /\
    P_nospur_added imatch (path_ddefault pm rs)
                   (C17Pipe (v_reverse v) (branch_rules b) t u mt mu d (cmd_paths (v_family v) pt)) = false.
Proof.
  exists br_huawei_ce, w_huawei, w_rs, [], [("user-interface con 0", T [("idle-timeout 5", T [])])].
  eexists. eexists.
  repeat match goal with |- _ /\ _ => split end;
    try (vm_compute; reflexivity); try (vm_compute; tauto);
    try (repeat constructor; cbn; intuition discriminate).
Qed.
