(* C01: inside the domain no logic raises - the patch is always computed. *)
From Coq Require Import List String Bool Arith ZArith Lia Permutation.
From Annet Require Import Base.Str Base.Tree Model.Rulebook Model.Diff Model.Order Model.Patch Model.Blocks
     Model.Device Spec.P_C03 Spec.P_C01
     Proofs.DiffBasics Proofs.DiffProofsLib Proofs.DiffProofsAnnot Proofs.DiffProofsLossless Proofs.SortProofs
     Proofs.ConvergeDevice Proofs.ConvergeRun Proofs.ConvergePre Proofs.ConvergeDiff
     Proofs.ConvergeSlot Proofs.ConvergeExpected Proofs.ConvergeSim Proofs.ConvergeNodes Proofs.ConvergeMain.
Import ListNotations.
Open Scope string_scope.
Open Scope list_scope.

Lemma all_some_exists {A B} (g : A -> option B) l : (forall x, In x l -> exists y, g x = Some y) ->
  exists ll, all_some (map g l) = Some ll.
Proof.
  induction l as [|x l IH]; intro H; [exists []; reflexivity|].
  destruct (H x (or_introl eq_refl)) as (y & Hy). destruct IH as (ll & Hll); [intros; apply H; now right|].
  exists (y :: ll). cbn. rewrite Hy, Hll. reflexivity.
Qed.

Lemma fsize_pos' f : 1 <= fsize f.
Proof. unfold fsize. cbn. lia. Qed.

Section NoErr.
  Variable rmatch : string -> string -> option (list string).
  Variable rsrc : string -> string.
  Variable rrev : string -> string.
  Variable block_exit : string.
  Variable rreverse : string -> list string -> string.
  Variable is_exit : string -> bool.

  Notation mkpatch := (make_patch rmatch rsrc rrev block_exit rreverse).
  Notation annot_f := (annot_f rmatch).
  Notation annot := (annot rmatch).
  Notation uok := (uok rmatch rreverse is_exit).
  Notation good := (good rmatch).
  Notation ldiff := (ldiff rmatch).
  Notation sfind := (sfind rmatch).
  Notation uslot := (uslot rmatch).
  Notation added_node := (added_node rmatch).
  Notation removed_node := (removed_node rmatch).

  (* the entries of a universe slot (ConvergeMain.slot_picks, without reference to a patch) *)
  Lemma slot_picks' rs U fo fn pop s : uok rs U -> good rs U fo -> good rs U fn -> popc pop fo fn -> uslot rs U s ->
    let ns := filter (nslot s) (ldiff rs fo fn pop) in
    exists A R F, pick Added ns = optl A /\ pick Removed ns = optl R /\ pick Affected ns = optl F /\
                  pick Moved ns = [] /\ (F <> None -> R = None /\ A = None) /\
                  slot_shape rmatch rs fo fn pop s ns A R F.
  Proof.
    intros HUok Hgo Hgn Hpop Hs ns.
    destruct (good_inv rmatch rs U fo Hgo) as (Hko & Huo & Hio & _ & _).
    destruct (good_inv rmatch rs U fn Hgn) as (Hkn & Hun & Hin & _ & _).
    pose proof (slot_case rmatch rs fo fn pop Huo Hun Hko
                  (annot_default rmatch rreverse is_exit rs U HUok fo Hio)
                  (annot_default rmatch rreverse is_exit rs U HUok fn Hin) s) as Hc.
    cbv zeta in Hc. fold (ldiff rs fo fn pop) in Hc. fold ns in Hc. unfold slot_shape.
    destruct (sfind rs s fo) as [[r t]|] eqn:Eo; destruct (sfind rs s fn) as [[r' t']|] eqn:En.
    - destruct Hc as (m & crs & m' & crs' & Hm & Hm' & Hc).
      destruct (sfind_uslot rmatch rs U fo s r t Hio Eo) as (m1 & crs1 & Hm1 & Hk1 & Hu1 & _).
      destruct (sfind_uslot rmatch rs U fn s r' t' Hin En) as (m2 & crs2 & Hm2 & Hk2 & Hu2 & _).
      rewrite Hm in Hm1. injection Hm1 as <- <-. rewrite Hm' in Hm2. injection Hm2 as <- <-.
      pose proof (uslot_eq rmatch rreverse is_exit rs U HUok s m Hs Hu1 Hk1) as E1.
      pose proof (uslot_eq rmatch rreverse is_exit rs U HUok s m' Hs Hu2 Hk2) as E2. subst m m'.
      assert (Hp : pop = Affected).
      { destruct Hpop as [Hp|[[_ Hp]|[_ Hp]]]; [exact Hp | |]; subst; discriminate. }
      destruct (String.eqb r r') eqn:Err.
      + rewrite Hc. rewrite !pick_one.
        assert (Hop : d_op (both_node rmatch pop r s crs crs' t t') = Affected \/ d_op (both_node rmatch pop r s crs crs' t t') = Unchanged).
        { unfold both_node. rewrite Hp. cbn [mark_unchanged_n op_eqb d_op]. destruct (forallb _ _); auto. }
        destruct Hop as [Hop|Hop]; rewrite Hop; cbn [op_eqb].
        * exists None, None, (Some (both_node rmatch pop r s crs crs' t t')). repeat split; auto.
          exists crs, crs'. repeat split; auto.
        * exists None, None, None. repeat split; auto; try congruence.
          exists crs, crs'. repeat split; auto.
      + exists (Some (added_node r' s crs' t')), (Some (removed_node r s crs t)), None.
        assert (HP : forall o, Permutation (pick o ns) (pick o [added_node r' s crs' t'; removed_node r s crs t])).
        { intro o. apply Permutation_filter. exact Hc. }
        repeat split; try (apply (perm_short _ (Some _)); apply HP); try (apply (perm_short _ None); apply HP);
          try congruence.
        exists crs, crs'. repeat split; auto.
    - destruct Hc as (m & crs & Hm & Hc).
      destruct (sfind_uslot rmatch rs U fo s r t Hio Eo) as (m1 & crs1 & Hm1 & Hk1 & Hu1 & _).
      rewrite Hm in Hm1. injection Hm1 as <- <-.
      pose proof (uslot_eq rmatch rreverse is_exit rs U HUok s m Hs Hu1 Hk1) as E1. subst m.
      rewrite Hc. exists None, (Some (removed_node r s crs t)), None. repeat split; auto; try congruence.
      exists crs. repeat split; auto.
    - destruct Hc as (m' & crs' & Hm' & Hc).
      destruct (sfind_uslot rmatch rs U fn s r' t' Hin En) as (m2 & crs2 & Hm2 & Hk2 & Hu2 & _).
      rewrite Hm' in Hm2. injection Hm2 as <- <-.
      pose proof (uslot_eq rmatch rreverse is_exit rs U HUok s m' Hs Hu2 Hk2) as E2. subst m'.
      rewrite Hc. exists (Some (added_node r' s crs' t')), None, None. repeat split; auto; try congruence.
      exists crs'. repeat split; auto.
    - rewrite Hc. exists None, None, None. repeat split; auto; congruence.
  Qed.

  Theorem no_error : forall n rs U fo fn pop ord, fsize fo + fsize fn < n ->
    uok rs U -> good rs U fo -> good rs U fn -> popc pop fo fn ->
    exists pt, mkpatch (make_pre (ldiff rs fo fn pop)) ord = POk pt.
  Proof.
    induction n as [|n IH]; intros rs U fo fn pop ord Hsz HUok Hgo Hgn Hpop; [lia|].
    rewrite make_pre_groups, make_patch_unfold.
    set (flat := flat_groups (group_all (map make_pre_n (ldiff rs fo fn pop)))).
    destruct (all_some_exists (slot_items rmatch rsrc rrev block_exit rreverse ord)
                              (map (conv_flat rmatch rsrc rrev block_exit rreverse) flat)) as (ll & Hll).
    2: { rewrite Hll. eexists. reflexivity. }
    intros x Hx. apply in_map_iff in Hx as (e & <- & He).
    destruct (entry_slot rmatch rsrc rrev block_exit rreverse is_exit rs U fo fn pop HUok Hgo Hgn e He)
      as (s & Hs & _ & Hconv & _).
    rewrite Hconv.
    destruct (slot_picks' rs U fo fn pop s HUok Hgo Hgn Hpop Hs) as (A & R & F & HA & HR & HF & HM & HFx & Hshape).
    destruct (allow_A_default s (uslot_allow rmatch rreverse is_exit rs U HUok s Hs)) as (_ & Hfc & HL).
    cbn [ConvergePre.slot_items].
    rewrite (run_logic_plan rmatch rsrc rrev block_exit rreverse (a_pat (mi_attrs s)) (mi_key s) (a_logic (mi_attrs s))
               _ A R F HA HR HF HM HFx HL).
    (* every direct entry has a children patch, by induction *)
    destruct (uok_inv rmatch rreverse is_exit rs U HUok) as (HUl & HUnd & HUk).
    destruct (good_inv rmatch rs U fo Hgo) as (Hko & Huo & Hio & _ & Hso).
    destruct (good_inv rmatch rs U fn Hgn) as (Hkn & Hun & Hin & _ & Hsn).
    assert (Hdir : forall x, onode (plan (a_logic (mi_attrs s)) A R F) = Some x ->
              exists l, yield_item rmatch rsrc rrev block_exit ord (mi_raw s) (mi_attrs s)
                                   (ydir rmatch rsrc rrev block_exit rreverse x) = Some l).
    { intros x Hx. apply plan_node in Hx. rewrite (yield_dir rmatch rsrc rrev block_exit rreverse) by exact Hfc.
      destruct (get_order rmatch rsrc rrev block_exit ord (d_row x) true (Some "patch")) as [[order odirect] ord'].
      assert (Hk : exists ct, mkpatch (make_pre (d_kids x)) ord' = POk ct).
      { unfold slot_shape in Hshape.
        destruct (sfind rs s fo) as [[r t]|] eqn:Eo; destruct (sfind rs s fn) as [[r' t']|] eqn:En.
        - destruct Hshape as (crs & crs' & Hmo & Hmn & Hshape).
          destruct (sfind_in rmatch rs s fo _ Eo) as [Hino _]. destruct (sfind_in rmatch rs s fn _ En) as [Hinn _].
          destruct (in_keys_tfind r U (Hio (r, t) Hino)) as (tu & Htu).
          destruct (in_keys_tfind r' U (Hin (r', t') Hinn)) as (tu' & Htu').
          destruct (HUk r tu s crs Htu Hmo) as (_ & Huc). destruct (HUk r' tu' s crs' Htu' Hmn) as (_ & Huc').
          pose proof (Hso r t tu s crs Hino Htu Hmo) as Hgco. pose proof (Hsn r' t' tu' s crs' Hinn Htu' Hmn) as Hgcn.
          destruct (String.eqb r r') eqn:Err.
          + apply String.eqb_eq in Err. subst r'. rewrite Hmo in Hmn. injection Hmn as <-.
            destruct Hshape as (-> & -> & Hp & [[_ ->]|[_ ->]]); [|destruct Hx as [Hx|[Hx|Hx]]; discriminate].
            destruct Hx as [Hx|[Hx|Hx]]; try discriminate. injection Hx as <-. rewrite Hp, kids_both.
            apply (IH crs (kids tu) (kids t) (kids t') Affected ord'); auto.
            * pose proof (fsize_in r t fo Hino). pose proof (fsize_in r t' fn Hinn). lia.
            * rewrite (nodup_entry U r tu' tu HUnd Htu' Htu) in Hgcn. exact Hgcn.
            * left. reflexivity.
          + destruct Hshape as (-> & -> & ->). destruct Hx as [Hx|[Hx|Hx]]; try discriminate; injection Hx as <-.
            * rewrite kids_added by (apply (annot_tier rmatch rreverse is_exit _ crs' (kids tu') Huc' Hgcn)).
              apply (IH crs' (kids tu') [] (kids t') Added ord'); auto.
              -- pose proof (fsize_in r' t' fn Hinn). pose proof (fsize_pos' fo). change (fsize []) with 1. lia.
              -- apply good_nil.
              -- right. left. auto.
            * rewrite kids_removed by (apply (annot_tier rmatch rreverse is_exit _ crs (kids tu) Huc Hgco)).
              apply (IH crs (kids tu) (kids t) [] Removed ord'); auto.
              -- pose proof (fsize_in r t fo Hino). pose proof (fsize_pos' fn). change (fsize []) with 1. lia.
              -- apply good_nil.
              -- right. right. auto.
        - destruct Hshape as (crs & Hmo & -> & -> & ->).
          destruct (sfind_in rmatch rs s fo _ Eo) as [Hino _].
          destruct (in_keys_tfind r U (Hio (r, t) Hino)) as (tu & Htu).
          destruct (HUk r tu s crs Htu Hmo) as (_ & Huc). pose proof (Hso r t tu s crs Hino Htu Hmo) as Hgco.
          destruct Hx as [Hx|[Hx|Hx]]; try discriminate; injection Hx as <-.
          rewrite kids_removed by (apply (annot_tier rmatch rreverse is_exit _ crs (kids tu) Huc Hgco)).
          apply (IH crs (kids tu) (kids t) [] Removed ord'); auto.
          + pose proof (fsize_in r t fo Hino). pose proof (fsize_pos' fn). change (fsize []) with 1. lia.
          + apply good_nil.
          + right. right. auto.
        - destruct Hshape as (crs' & Hmn & -> & -> & ->).
          destruct (sfind_in rmatch rs s fn _ En) as [Hinn _].
          destruct (in_keys_tfind r' U (Hin (r', t') Hinn)) as (tu' & Htu').
          destruct (HUk r' tu' s crs' Htu' Hmn) as (_ & Huc'). pose proof (Hsn r' t' tu' s crs' Hinn Htu' Hmn) as Hgcn.
          destruct Hx as [Hx|[Hx|Hx]]; try discriminate; injection Hx as <-.
          rewrite kids_added by (apply (annot_tier rmatch rreverse is_exit _ crs' (kids tu') Huc' Hgcn)).
          apply (IH crs' (kids tu') [] (kids t') Added ord'); auto.
          + pose proof (fsize_in r' t' fn Hinn). pose proof (fsize_pos' fo). change (fsize []) with 1. lia.
          + apply good_nil.
          + right. left. auto.
        - destruct Hshape as (-> & -> & -> & _). destruct Hx as [Hx|[Hx|Hx]]; discriminate. }
      destruct Hk as (ct & ->). eexists. reflexivity. }
    destruct (plan (a_logic (mi_attrs s)) A R F) as [|x| |x]; cbn [yields_of map all_some].
    - eexists. reflexivity.
    - destruct (Hdir x eq_refl) as (l & ->). eexists. reflexivity.
    - destruct (yield_rev rmatch rsrc rrev block_exit rreverse ord (mi_raw s) (mi_attrs s) (a_pat (mi_attrs s)) (mi_key s) Hfc)
        as (sk & ->). eexists. reflexivity.
    - destruct (yield_rev rmatch rsrc rrev block_exit rreverse ord (mi_raw s) (mi_attrs s) (a_pat (mi_attrs s)) (mi_key s) Hfc)
        as (sk & ->). destruct (Hdir x eq_refl) as (l & ->). eexists. reflexivity.
  Qed.
End NoErr.
