(* C11 lemma library, part 2: the Huawei global VLAN database (Model/VlanDb.v): `vlan batch`
   lines + `vlan N` blocks, vlan_diff.  Ends in the lemmas Properties/C11.v cites. *)
From Coq Require Import List String Ascii Bool Arith NArith Lia Sorted Permutation SetoidList.
From Coq Require Import MSets MSetAVL MSetFacts MSetProperties MSetDecide.
From Annet Require Import Base.Str Model.Vlan Model.VlanDb Spec.P_C11 Proofs.VlanProofs.
Import ListNotations.
Open Scope list_scope.
Open Scope N_scope.

(* ------------------------------------------------------------------------------------ *)
(* any list of Add/Remove commands whose removals avoid S_new, whose additions stay inside
   S_new, and which removes S_old \ S_new and adds S_new \ S_old: every permutation reaches
   S_new and no prefix drops a VLAN of S_old & S_new *)

Lemma removes_app l1 l2 v : removes (l1 ++ l2) v <-> removes l1 v \/ removes l2 v.
Proof.
  unfold removes. split.
  - intros (q & H & Hv). apply in_app_or in H as [H|H]; [left|right]; exists q; now split.
  - intros [(q & H & Hv)|(q & H & Hv)]; exists q; split; auto using in_or_app.
Qed.

Lemma adds_app l1 l2 v : adds (l1 ++ l2) v <-> adds l1 v \/ adds l2 v.
Proof.
  unfold adds. split.
  - intros (q & H & Hv). apply in_app_or in H as [H|H]; [left|right]; exists q; now split.
  - intros [(q & H & Hv)|(q & H & Hv)]; exists q; split; auto using in_or_app.
Qed.

Section Effect2.
  Variables (cs : list cmd) (So Sn : NS.t).
  Hypothesis Hs : Forall simple_cmd cs.
  Hypothesis F1 : forall v, removes cs v -> ~ NS.In v Sn.
  Hypothesis F2 : forall v, adds cs v -> NS.In v Sn.
  Hypothesis F3 : forall v, NS.In v So -> ~ NS.In v Sn -> removes cs v.
  Hypothesis F4 : forall v, NS.In v Sn -> ~ NS.In v So -> adds cs v.

  Lemma effect2_final cs' : Permutation cs' cs -> NS.Equal (simulate cs' So) Sn.
  Proof.
    intros P v.
    assert (Hs' : Forall simple_cmd cs') by (apply (Permutation_Forall (Permutation_sym P)); exact Hs).
    assert (R : forall w, removes cs' w <-> removes cs w).
    { intro w. split; apply removes_perm; [exact P|now apply Permutation_sym]. }
    assert (A : forall w, adds cs' w <-> adds cs w).
    { intro w. split; apply adds_perm; [exact P|now apply Permutation_sym]. }
    rewrite (simulate_spec cs' So Hs').
    - rewrite R, A. split.
      + intros [[Ho Hr]|Ha]; [|now apply F2].
        destruct (NSP.In_dec v Sn) as [I|I]; [exact I|]. exfalso. apply Hr. now apply F3.
      + intro Hn. destruct (NSP.In_dec v So) as [I|I].
        * left. split; [exact I|]. intro Hr. exact (F1 v Hr Hn).
        * right. now apply F4.
    - intros w Hr Ha. apply R in Hr. apply A in Ha. exact (F1 w Hr (F2 w Ha)).
  Qed.

  Lemma effect2_prefix cs' l1 l2 :
    Permutation cs' cs -> cs' = l1 ++ l2 ->
    forall v, NS.In v So -> NS.In v Sn -> NS.In v (simulate l1 So).
  Proof.
    intros P E v Ho Hn.
    assert (Hs' : Forall simple_cmd cs') by (apply (Permutation_Forall (Permutation_sym P)); exact Hs).
    assert (F : Forall simple_cmd l1) by (rewrite E in Hs'; now apply Forall_app in Hs' as [F _]).
    assert (R : forall w, removes l1 w -> removes cs w).
    { intros w H. apply (removes_perm cs' cs w P). rewrite E. now apply removes_app_l. }
    assert (A : forall w, adds l1 w -> adds cs w).
    { intros w H. apply (adds_perm cs' cs w P). rewrite E. now apply adds_app_l. }
    rewrite (simulate_spec l1 So F).
    - left. split; [exact Ho|]. intro Hr. exact (F1 v (R v Hr) Hn).
    - intros w Hr Ha. exact (F1 w (R w Hr) (F2 w (A w Ha))).
  Qed.
End Effect2.

(* ------------------------------------------------------------------------------------ *)
(* blocks *)

Lemma ids_of_spec bs v : NS.In v (ids_of bs) <-> exists b, In b bs /\ fst b = v.
Proof.
  induction bs as [|b bs IH]; cbn [ids_of].
  - split; [intro H; exfalso; revert H; apply NSF.empty_iff|intros (b & [] & _)].
  - rewrite NS.add_spec, IH. split.
    + intros [E|(c & Hc & E)]; [exists b; split; [now left|now symmetry]|exists c; split; [now right|exact E]].
    + intros (c & [Ec|Hc] & E); [subst c; left; now symmetry|right; exists c; now split].
Qed.

Lemma lookup_blk_some n bs ks : lookup_blk n bs = Some ks -> In (n, ks) bs.
Proof.
  induction bs as [|[m k] bs IH]; cbn [lookup_blk fst snd]; [discriminate|].
  destruct (N.eqb_spec m n) as [E|E].
  - intro H. injection H as H. subst. now left.
  - intro H. right. now apply IH.
Qed.

Lemma lookup_blk_none n bs : lookup_blk n bs = None <-> ~ NS.In n (ids_of bs).
Proof.
  induction bs as [|[m k] bs IH]; cbn [lookup_blk ids_of fst snd].
  - split; [intros _ H; revert H; apply NSF.empty_iff|reflexivity].
  - rewrite NS.add_spec. destruct (N.eqb_spec m n) as [E|E].
    + split; [discriminate|intro H; exfalso; apply H; left; now symmetry].
    + rewrite IH. split; [intros H [E'|H']; [now apply E|now apply H]|intros H H'; apply H; now right].
Qed.

Lemma has_blk_spec n bs : has_blk n bs = true <-> NS.In n (ids_of bs).
Proof.
  unfold has_blk. destruct (lookup_blk n bs) eqn:E.
  - split; [intros _|reflexivity]. apply lookup_blk_some in E. apply ids_of_spec. exists (n, l). now split.
  - apply lookup_blk_none in E. split; [discriminate|intro H; now exfalso].
Qed.

Lemma has_blk_false n bs : has_blk n bs = false <-> ~ NS.In n (ids_of bs).
Proof. rewrite <- has_blk_spec. destruct (has_blk n bs); split; try discriminate; try reflexivity; intro H; now exfalso. Qed.

Lemma opt_concat_in {A} : forall (l : list (option (list A))) r x,
  opt_concat l = Some r -> (In x r <-> exists y, In (Some y) l /\ In x y).
Proof.
  induction l as [|[y|] l IH]; intros r x; cbn [opt_concat].
  - intro E. injection E as E. subst r. split; [intros []|intros (y & [] & _)].
  - destruct (opt_concat l) as [z|] eqn:Ez; [|discriminate]. intro E. injection E as E. subst r.
    rewrite in_app_iff, (IH z x eq_refl). split.
    + intros [H|(w & Hw & H)]; [exists y; split; [now left|exact H]|exists w; split; [now right|exact H]].
    + intros (w & [Ew|Hw] & H); [injection Ew as Ew; subst w; now left|right; exists w; now split].
  - discriminate.
Qed.

Lemma opt_concat_some {A} (l : list (option (list A))) :
  (forall o, In o l -> exists y, o = Some y) -> exists r, opt_concat l = Some r.
Proof.
  induction l as [|o l IH]; intro H; cbn [opt_concat]; [eexists; reflexivity|].
  destruct (H o (or_introl eq_refl)) as (y & E). subst o.
  destruct IH as (r & Er); [intros o Ho; apply H; now right|]. rewrite Er. eexists; reflexivity.
Qed.

(* the commands one old / one new block gives *)
Lemma old_block_cmd_in bnew newb b l g :
  old_block_cmd bnew newb b = Some l -> In g l ->
  ~ NS.In (fst b) (ids_of newb) /\
  ((exists p, g = GEnter (fst b) p) /\ NS.In (fst b) bnew \/ g = GUndo (fst b) /\ ~ NS.In (fst b) bnew).
Proof.
  unfold old_block_cmd. destruct (has_blk (fst b) newb) eqn:Eh.
  - intro E. injection E as E. subst l. intros [].
  - apply has_blk_false in Eh. destruct (NS.mem (fst b) bnew) eqn:Em.
    + apply NS.mem_spec in Em. destruct (is_nil (snd b)).
      * intro E. injection E as E. subst l. intros [].
      * destruct (child_patch (snd b) []) as [p|]; cbn [option_map]; [|discriminate].
        intro E. injection E as E. subst l. intros [Eg|[]]. subst g.
        split; [exact Eh|]. left. split; [now exists p|exact Em].
    + intro E. injection E as E. subst l. intros [Eg|[]]. subst g.
      split; [exact Eh|]. right. split; [reflexivity|]. intro H. apply NS.mem_spec in H. rewrite H in Em. discriminate.
Qed.

Lemma new_block_cmd_in bnew oldb b l g :
  new_block_cmd bnew oldb b = Some l -> In g l -> exists p, g = GEnter (fst b) p.
Proof.
  unfold new_block_cmd. destruct (lookup_blk (fst b) oldb) as [ko|].
  - destruct (NS.mem (fst b) bnew && is_nil ko && is_nil (snd b)).
    + intro E. injection E as E. subst l. intros [].
    + destruct (child_patch ko (snd b)) as [[|x p]|]; [| |discriminate].
      * intro E. injection E as E. subst l. intros [].
      * intro E. injection E as E. subst l. intros [Eg|[]]. subst g. now eexists.
  - destruct (NS.mem (fst b) bnew && is_nil (snd b)).
    + intro E. injection E as E. subst l. intros [].
    + destruct (child_patch [] (snd b)) as [p|]; cbn [option_map]; [|discriminate].
      intro E. injection E as E. subst l. intros [Eg|[]]. subst g. now eexists.
Qed.

Section Blocks.
  Variables (bnew : NS.t) (oldb newb : list blk) (bs : list gcmd).
  Hypothesis HB : block_cmds bnew oldb newb = Some bs.

  Lemma block_cmds_in g :
    In g bs <->
    (exists b l, In b oldb /\ old_block_cmd bnew newb b = Some l /\ In g l) \/
    (exists b l, In b newb /\ new_block_cmd bnew oldb b = Some l /\ In g l).
  Proof.
    unfold block_cmds in HB. rewrite (opt_concat_in _ bs g HB). split.
    - intros (y & Hy & Hg). apply in_app_or in Hy as [Hy|Hy]; apply in_map_iff in Hy as (b & Eb & Hb).
      + left. exists b, y. repeat split; assumption.
      + right. exists b, y. repeat split; assumption.
    - intros [(b & l & Hb & El & Hg)|(b & l & Hb & El & Hg)]; exists l; split; try exact Hg;
        apply in_or_app; [left|right]; rewrite <- El; now apply in_map.
  Qed.

  Lemma undo_in n : In (GUndo n) bs -> NS.In n (ids_of oldb) /\ ~ NS.In n (ids_of newb) /\ ~ NS.In n bnew.
  Proof.
    intro H. apply block_cmds_in in H as [(b & l & Hb & El & Hg)|(b & l & Hb & El & Hg)].
    - destruct (old_block_cmd_in _ _ _ _ _ El Hg) as [Hn [[(p & Ep) _]|[Eg Hm]]]; [discriminate Ep|].
      injection Eg as Eg. subst n. repeat split; try assumption. apply ids_of_spec. exists b. now split.
    - destruct (new_block_cmd_in _ _ _ _ _ El Hg) as (p & Ep). discriminate Ep.
  Qed.

  Lemma enter_in n p : In (GEnter n p) bs -> NS.In n (ids_of newb) \/ NS.In n bnew.
  Proof.
    intro H. apply block_cmds_in in H as [(b & l & Hb & El & Hg)|(b & l & Hb & El & Hg)].
    - destruct (old_block_cmd_in _ _ _ _ _ El Hg) as [Hn [[(q & Eq) Hm]|[Eg _]]]; [|discriminate Eg].
      injection Eq as Eq _. subst n. now right.
    - destruct (new_block_cmd_in _ _ _ _ _ El Hg) as (q & Eq). injection Eq as Eq _. subst n.
      left. apply ids_of_spec. exists b. now split.
  Qed.

  Lemma undo_emitted n : NS.In n (ids_of oldb) -> ~ NS.In n (ids_of newb) -> ~ NS.In n bnew -> In (GUndo n) bs.
  Proof.
    intros Ho Hn Hm. apply ids_of_spec in Ho as (b & Hb & Eb). subst n.
    assert (E : old_block_cmd bnew newb b = Some [GUndo (fst b)]).
    { unfold old_block_cmd. apply has_blk_false in Hn. rewrite Hn.
      destruct (NS.mem (fst b) bnew) eqn:Em; [apply NS.mem_spec in Em; now exfalso|reflexivity]. }
    apply block_cmds_in. left. exists b, [GUndo (fst b)]. repeat split; [exact Hb|exact E|now left].
  Qed.

  Lemma enter_emitted n :
    NS.In n (ids_of newb) -> ~ NS.In n (ids_of oldb) -> ~ NS.In n bnew -> exists p, In (GEnter n p) bs.
  Proof.
    intros Hn Ho Hm. apply ids_of_spec in Hn as (b & Hb & Eb). subst n.
    assert (Hsome : exists l, new_block_cmd bnew oldb b = Some l).
    { unfold block_cmds in HB.
      destruct (new_block_cmd bnew oldb b) as [l|] eqn:E; [now exists l|exfalso].
      assert (Hin : In None (map (old_block_cmd bnew newb) oldb ++ map (new_block_cmd bnew oldb) newb)).
      { apply in_or_app. right. rewrite <- E. now apply in_map. }
      clear - HB Hin. revert bs HB Hin.
      generalize (map (old_block_cmd bnew newb) oldb ++ map (new_block_cmd bnew oldb) newb).
      induction l as [|[y|] l IH]; intros r HB Hin; cbn [opt_concat] in HB.
      - destruct Hin.
      - destruct Hin as [E|Hin]; [discriminate E|]. destruct (opt_concat l) eqn:Ez; [|discriminate].
        exact (IH l0 eq_refl Hin).
      - discriminate. }
    destruct Hsome as (l & El). assert (El' := El). unfold new_block_cmd in El.
    apply lookup_blk_none in Ho. rewrite Ho in El.
    assert (Em : NS.mem (fst b) bnew = false).
    { destruct (NS.mem (fst b) bnew) eqn:Em; [apply NS.mem_spec in Em; now exfalso|reflexivity]. }
    rewrite Em in El. cbn [andb] in El.
    destruct (child_patch [] (snd b)) as [p|]; cbn [option_map] in El; [|discriminate].
    injection El as El. exists p. apply block_cmds_in. right. exists b, l. repeat split; [exact Hb|exact El'|].
    subst l. now left.
  Qed.

  Lemma blocks_simple : Forall simple_cmd (map effect bs).
  Proof.
    apply Forall_forall. intros c H. apply in_map_iff in H as (g & E & Hg). subst c.
    apply block_cmds_in in Hg as [(b & l & Hb & El & Hg)|(b & l & Hb & El & Hg)].
    - destruct (old_block_cmd_in _ _ _ _ _ El Hg) as [_ [[(p & Ep) _]|[Eg _]]]; subst g; exact I.
    - destruct (new_block_cmd_in _ _ _ _ _ El Hg) as (p & Ep). subst g. exact I.
  Qed.

  Lemma in_single v n : in_ranges v [(n, n)] <-> v = n.
  Proof.
    unfold in_ranges, in_range. split.
    - intros (r & [E|[]] & H). subst r. cbn in H. lia.
    - intro E. subst v. exists (n, n). split; [now left|cbn; lia].
  Qed.

  Lemma removes_blocks v : removes (map effect bs) v <-> In (GUndo v) bs.
  Proof.
    unfold removes. split.
    - intros (rs & H & Hv). apply in_map_iff in H as (g & E & Hg).
      destruct g as [c|n p|n]; cbn [effect] in E.
      + exfalso. apply block_cmds_in in Hg as [(b & l & Hb & El & Hg)|(b & l & Hb & El & Hg)].
        * destruct (old_block_cmd_in _ _ _ _ _ El Hg) as [_ [[(p & Ep) _]|[Eg _]]]; discriminate.
        * destruct (new_block_cmd_in _ _ _ _ _ El Hg) as (p & Ep). discriminate Ep.
      + discriminate E.
      + injection E as E. subst rs. apply in_single in Hv. now subst v.
    - intro H. exists [(v, v)]. split; [|now apply in_single].
      apply in_map_iff. exists (GUndo v). now split.
  Qed.

  Lemma adds_blocks v : adds (map effect bs) v <-> exists p, In (GEnter v p) bs.
  Proof.
    unfold adds. split.
    - intros (rs & H & Hv). apply in_map_iff in H as (g & E & Hg).
      destruct g as [c|n p|n]; cbn [effect] in E.
      + exfalso. apply block_cmds_in in Hg as [(b & l & Hb & El & Hg)|(b & l & Hb & El & Hg)].
        * destruct (old_block_cmd_in _ _ _ _ _ El Hg) as [_ [[(p & Ep) _]|[Eg _]]]; discriminate.
        * destruct (new_block_cmd_in _ _ _ _ _ El Hg) as (p & Ep). discriminate Ep.
      + injection E as E. subst rs. apply in_single in Hv. subst v. now exists p.
      + discriminate E.
    - intros (p & H). exists [(v, v)]. split; [|now apply in_single].
      apply in_map_iff. exists (GEnter v p). now split.
  Qed.
End Blocks.

(* ------------------------------------------------------------------------------------ *)
(* the `vlan batch` slot: `multi` never takes a whole-list shortcut *)

Lemma batch_struct old new :
  model_struct k_batch old new =
  Some (cmds_of HwMulti true
          (NS.diff (set_of_lines (lines_removed old new)) (set_of_lines (lines_added old new)))
          (NS.diff (set_of_lines (lines_added old new)) (set_of_lines (lines_removed old new)))).
Proof.
  unfold model_struct, model_struct_g, process, hw_process, k_batch. cbn [rk_logic is_hw logic_eqb andb orb].
  rewrite !andb_false_r. reflexivity.
Qed.

(* ------------------------------------------------------------------------------------ *)
(* main theorems *)

Lemma config_ok_disjoint k ls : config_ok k ls = true -> pairwise_disjoint ls = true.
Proof.
  unfold config_ok. intro H. apply andb_true_iff in H as [H _]. apply andb_true_iff in H as [H _].
  now apply andb_true_iff in H as [_ H].
Qed.

Lemma map_effect_batch cs : map effect (map GBatch cs) = cs.
Proof. induction cs as [|c cs IH]; [reflexivity|]. cbn [map effect]. now rewrite IH. Qed.

Section DbMain.
  Variables (old new : dbcfg).
  Hypothesis WF : wf_db (old, new) = true.
  Hypothesis G : blocks_follow_batch (old, new) = true.

  Let ol := fst old. Let ob := snd old. Let nl := fst new. Let nb := snd new.
  Let U := set_of_lines (lines_unchanged ol nl).
  Let O := set_of_lines (lines_removed ol nl).
  Let A := set_of_lines (lines_added ol nl).
  Let Bo := set_of_lines ol.
  Let Bn := set_of_lines nl.

  Let Hpd : pairwise_disjoint ol = true.
  Proof.
    unfold wf_db in WF. apply andb_true_iff in WF as [W _]. unfold dbcfg_ok in W. cbn [fst] in W.
    apply andb_true_iff in W as [W _]. apply andb_true_iff in W as [W _].
    exact (config_ok_disjoint k_batch _ W).
  Qed.

  Let Guard : forall v, NS.In v (ids_of nb) -> NS.In v Bo -> NS.In v Bn.
  Proof.
    intros v Hv Ho. apply ids_of_spec in Hv as (b & Hb & Eb). subst v.
    unfold blocks_follow_batch in G. cbn [fst snd] in G. rewrite forallb_forall in G.
    specialize (G b Hb). apply orb_true_iff in G as [G|G].
    - apply negb_true_iff in G. apply NS.mem_spec in Ho. unfold Bo, ol in Ho.
      exfalso. exact (eq_true_false_abs _ Ho G).
    - now apply NS.mem_spec.
  Qed.

  Let So_spec : forall v, NS.In v (set_of_db old) <-> NS.In v Bo \/ NS.In v (ids_of ob).
  Proof. intro v. unfold set_of_db. apply NS.union_spec. Qed.
  Let Sn_spec : forall v, NS.In v (set_of_db new) <-> NS.In v Bn \/ NS.In v (ids_of nb).
  Proof. intro v. unfold set_of_db. apply NS.union_spec. Qed.

  Section WithCmds.
    Variables (bs : list gcmd).
    Hypothesis HB : block_cmds Bn ob nb = Some bs.
    Let bcs := cmds_of HwMulti true (NS.diff O A) (NS.diff A O).
    Let cs := bcs ++ map effect bs.

    Let R v : removes cs v <-> NS.In v (NS.diff O A) \/ In (GUndo v) bs.
    Proof. unfold cs. rewrite removes_app, (removes_blocks Bn ob nb bs HB). unfold bcs. now rewrite cmds_of_removes. Qed.
    Let Ad v : adds cs v <-> NS.In v (NS.diff A O) \/ exists p, In (GEnter v p) bs.
    Proof. unfold cs. rewrite adds_app, (adds_blocks Bn ob nb bs HB). unfold bcs. now rewrite cmds_of_adds. Qed.

    Let Simple : Forall simple_cmd cs.
    Proof. unfold cs. apply Forall_app. split; [apply cmds_of_simple|exact (blocks_simple Bn ob nb bs HB)]. Qed.

    Let F1 : forall v, removes cs v -> ~ NS.In v (set_of_db new).
    Proof.
      intros v Hr Hn. apply R in Hr. apply Sn_spec in Hn. destruct Hr as [Hr|Hr].
      - apply NS.diff_spec in Hr as [Io Ia].
        assert (Hbn : ~ NS.In v Bn).
        { intro Hb. apply (S_new_split ol nl) in Hb as [Hu|Ha]; [exact (U_O_disjoint ol nl v Hpd Hu Io)|exact (Ia Ha)]. }
        destruct Hn as [Hn|Hn]; [exact (Hbn Hn)|].
        apply Hbn. apply Guard; [exact Hn|]. apply (S_old_split ol nl). now right.
      - apply (undo_in Bn ob nb bs HB) in Hr as (_ & H1 & H2). destruct Hn as [Hn|Hn]; [exact (H2 Hn)|exact (H1 Hn)].
    Qed.

    Let F2 : forall v, adds cs v -> NS.In v (set_of_db new).
    Proof.
      intros v Ha. apply Ad in Ha. apply Sn_spec. destruct Ha as [Ha|(p & Ha)].
      - apply NS.diff_spec in Ha as [Ia _]. left. apply (S_new_split ol nl). now right.
      - apply (enter_in Bn ob nb bs HB) in Ha as [Ha|Ha]; [now right|now left].
    Qed.

    Let F3 : forall v, NS.In v (set_of_db old) -> ~ NS.In v (set_of_db new) -> removes cs v.
    Proof.
      intros v Ho Hn. apply R. apply So_spec in Ho. rewrite Sn_spec in Hn.
      destruct (NSP.In_dec v Bo) as [Ib|Ib].
      - left. apply (S_old_split ol nl) in Ib as [Hu|Hr].
        + exfalso. apply Hn. left. apply (S_new_split ol nl). now left.
        + apply NS.diff_spec. split; [exact Hr|]. intro Ha. apply Hn. left. apply (S_new_split ol nl). now right.
      - right. destruct Ho as [Ho|Ho]; [now exfalso|].
        apply (undo_emitted Bn ob nb bs HB); [exact Ho|intro H; apply Hn; now right|intro H; apply Hn; now left].
    Qed.

    Let F4 : forall v, NS.In v (set_of_db new) -> ~ NS.In v (set_of_db old) -> adds cs v.
    Proof.
      intros v Hn Ho. apply Ad. apply Sn_spec in Hn. rewrite So_spec in Ho.
      destruct (NSP.In_dec v Bn) as [Ib|Ib].
      - left. apply (S_new_split ol nl) in Ib as [Hu|Ha].
        + exfalso. apply Ho. left. apply (S_old_split ol nl). now left.
        + apply NS.diff_spec. split; [exact Ha|]. intro Hr. apply Ho. left. apply (S_old_split ol nl). now right.
      - right. destruct Hn as [Hn|Hn]; [now exfalso|].
        apply (enter_emitted Bn ob nb bs HB); [exact Hn|intro H; apply Ho; now right|exact Ib].
    Qed.

    Lemma db_final_cmds cs' :
      Permutation cs' cs -> NS.Equal (simulate cs' (set_of_db old)) (set_of_db new).
    Proof. exact (effect2_final cs (set_of_db old) (set_of_db new) Simple F1 F2 F3 F4 cs'). Qed.

    Lemma db_prefix_cmds cs' l1 l2 :
      Permutation cs' cs -> cs' = l1 ++ l2 ->
      forall v, NS.In v (set_of_db old) -> NS.In v (set_of_db new) -> NS.In v (simulate l1 (set_of_db old)).
    Proof. exact (effect2_prefix cs (set_of_db old) (set_of_db new) Simple F1 F2 cs' l1 l2). Qed.
  End WithCmds.

  Lemma db_struct_split gs :
    db_struct old new = Some gs ->
    exists bs, block_cmds Bn ob nb = Some bs /\
               map effect gs = cmds_of HwMulti true (NS.diff O A) (NS.diff A O) ++ map effect bs.
  Proof.
    unfold db_struct. rewrite batch_struct. fold ol nl ob nb Bn.
    destruct (block_cmds Bn ob nb) as [bs|]; [|discriminate].
    intro E. injection E as E. subst gs. exists bs. split; [reflexivity|].
    now rewrite map_app, map_effect_batch.
  Qed.

  Theorem db_final gs gs' :
    db_struct old new = Some gs -> Permutation gs' gs ->
    NS.Equal (gsimulate gs' (set_of_db old)) (set_of_db new).
  Proof.
    intros E P. apply db_struct_split in E as (bs & HB & E). unfold gsimulate.
    apply (db_final_cmds bs HB). rewrite <- E. now apply Permutation_map.
  Qed.

  Theorem db_prefix gs gs' l1 l2 :
    db_struct old new = Some gs -> Permutation gs' gs -> gs' = l1 ++ l2 ->
    NS.Subset (NS.inter (set_of_db old) (set_of_db new)) (gsimulate l1 (set_of_db old)).
  Proof.
    intros E P El v Hv. apply NS.inter_spec in Hv as [Ho Hn].
    apply db_struct_split in E as (bs & HB & E). unfold gsimulate.
    apply (db_prefix_cmds bs HB (map effect gs') (map effect l1) (map effect l2)); try assumption.
    - rewrite <- E. now apply Permutation_map.
    - rewrite El. apply map_app.
  Qed.
End DbMain.

(* ------------------------------------------------------------------------------------ *)
(* totality: inside the domain no assertion of common.default fires *)

Lemma filter_length_le {A} (f g : A -> bool) l :
  (forall x, f x = true -> g x = true) -> (List.length (filter f l) <= List.length (filter g l))%nat.
Proof.
  intro H. induction l as [|x l IH]; cbn [filter]; [lia|].
  destruct (f x) eqn:Ef.
  - rewrite (H x Ef). cbn [List.length]. lia.
  - destruct (g x); cbn [List.length]; lia.
Qed.

Lemma child_patch1_total neg c ko kn :
  (List.length (filter (is_rule c) ko) <= 1)%nat -> (List.length (filter (is_rule c) kn) <= 1)%nat ->
  exists p, child_patch1 neg c ko kn = Some p.
Proof.
  intros Ho Hn. unfold child_patch1.
  set (a := filter (fun r => is_rule c r && negb (mem_str r ko)) kn).
  set (r := filter (fun r => is_rule c r && negb (mem_str r kn)) ko).
  assert (La : (List.length a <= 1)%nat).
  { eapply Nat.le_trans; [|exact Hn]. apply filter_length_le. intros x H. now apply andb_true_iff in H as [H _]. }
  assert (Lr : (List.length r <= 1)%nat).
  { eapply Nat.le_trans; [|exact Ho]. apply filter_length_le. intros x H. now apply andb_true_iff in H as [H _]. }
  destruct (Nat.ltb 1 (List.length a)) eqn:Ea; [apply Nat.ltb_lt in Ea; lia|].
  destruct (Nat.ltb 1 (List.length r)) eqn:Er; [apply Nat.ltb_lt in Er; lia|].
  cbn [orb]. destruct a as [|x a']; [destruct r as [|y r']|]; eexists; reflexivity.
Qed.

Lemma blk_ok_counts b c : blk_ok b = true -> c <> COther -> (List.length (filter (is_rule c) (snd b)) <= 1)%nat.
Proof.
  unfold blk_ok. intros H Hc. apply andb_true_iff in H as [H H3]. apply andb_true_iff in H as [_ H2].
  apply Nat.leb_le in H2. apply Nat.leb_le in H3. destruct c; [exact H2|exact H3|now exfalso].
Qed.

Lemma child_patch_g_total neg ko kn :
  (forall c, c <> COther -> (List.length (filter (is_rule c) ko) <= 1)%nat) ->
  (forall c, c <> COther -> (List.length (filter (is_rule c) kn) <= 1)%nat) ->
  exists p, child_patch_g neg ko kn = Some p.
Proof.
  intros Ho Hn. unfold child_patch_g.
  destruct (child_patch1_total neg CName ko kn) as (a & Ea); [apply Ho; discriminate|apply Hn; discriminate|].
  destruct (child_patch1_total neg CDescr ko kn) as (b & Eb); [apply Ho; discriminate|apply Hn; discriminate|].
  rewrite Ea, Eb. eexists; reflexivity.
Qed.

Lemma child_patch_total ko kn :
  (forall c, c <> COther -> (List.length (filter (is_rule c) ko) <= 1)%nat) ->
  (forall c, c <> COther -> (List.length (filter (is_rule c) kn) <= 1)%nat) ->
  exists p, child_patch ko kn = Some p.
Proof. exact (child_patch_g_total "undo" ko kn). Qed.

Lemma nil_counts c : (List.length (filter (is_rule c) []) <= 1)%nat.
Proof. cbn. lia. Qed.

Theorem db_total old new : wf_db (old, new) = true -> exists gs, db_struct old new = Some gs.
Proof.
  intro WF. unfold wf_db in WF. cbn [fst snd] in WF. apply andb_true_iff in WF as [Wo Wn].
  unfold dbcfg_ok in Wo, Wn. apply andb_true_iff in Wo as [_ Wo]. apply andb_true_iff in Wn as [_ Wn].
  rewrite forallb_forall in Wo, Wn.
  unfold db_struct. rewrite batch_struct.
  destruct (opt_concat_some (map (old_block_cmd (set_of_lines (fst new)) (snd new)) (snd old) ++
                             map (new_block_cmd (set_of_lines (fst new)) (snd old)) (snd new))) as (bs & Eb).
  - intros o Ho. apply in_app_or in Ho as [Ho|Ho]; apply in_map_iff in Ho as (b & E & Hb); subst o.
    + unfold old_block_cmd. destruct (has_blk (fst b) (snd new)); [eexists; reflexivity|].
      destruct (NS.mem (fst b) (set_of_lines (fst new))); [|eexists; reflexivity].
      destruct (is_nil (snd b)); [eexists; reflexivity|].
      destruct (child_patch_total (snd b) []) as (p & Ep).
      * intros c Hc. exact (blk_ok_counts b c (Wo b Hb) Hc).
      * intros c _. apply nil_counts.
      * rewrite Ep. eexists; reflexivity.
    + unfold new_block_cmd. destruct (lookup_blk (fst b) (snd old)) as [ko|] eqn:El.
      * destruct (NS.mem (fst b) (set_of_lines (fst new)) && is_nil ko && is_nil (snd b)); [eexists; reflexivity|].
        apply lookup_blk_some in El.
        destruct (child_patch_total ko (snd b)) as (p & Ep).
        -- intros c Hc. exact (blk_ok_counts (fst b, ko) c (Wo _ El) Hc).
        -- intros c Hc. exact (blk_ok_counts b c (Wn b Hb) Hc).
        -- rewrite Ep. destruct p; eexists; reflexivity.
      * destruct (NS.mem (fst b) (set_of_lines (fst new)) && is_nil (snd b)); [eexists; reflexivity|].
        destruct (child_patch_total [] (snd b)) as (p & Ep).
        -- intros c _. apply nil_counts.
        -- intros c Hc. exact (blk_ok_counts b c (Wn b Hb) Hc).
        -- rewrite Ep. eexists; reflexivity.
  - unfold block_cmds. rewrite Eb. eexists; reflexivity.
Qed.

(* ------------------------------------------------------------------------------------ *)
(* the boolean predicate of Spec/P_C11.v on the model's own commands *)

Theorem holds_db_struct old new gs :
  wf_db (old, new) = true -> blocks_follow_batch (old, new) = true ->
  db_struct old new = Some gs -> gcmds_ok (old, new) gs = true.
Proof.
  intros WF G E. unfold gcmds_ok, reaches, keeps_common, Sdb_old, Sdb_new. cbn [fst snd].
  apply andb_true_iff. split.
  - apply NS.equal_spec. exact (db_final old new WF G gs gs E (Permutation_refl _)).
  - apply forallb_forall. intros t Ht. apply NS.subset_spec.
    apply states_prefix in Ht as (l1 & l2 & El & Et). subst t.
    intros v Hv. apply NS.inter_spec in Hv as [Ho Hn].
    destruct (db_struct_split old new gs E) as (bs & HB & Eg).
    apply (db_prefix_cmds old new WF G bs HB (map effect gs) l1 l2); try assumption.
    rewrite Eg. apply Permutation_refl.
Qed.

Lemma all3_db_eq c : all3_db c = (agree_db c && holds_db c && struct_is_text_db c).
Proof. reflexivity. Qed.
