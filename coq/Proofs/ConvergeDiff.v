(* C01, layer 4b: the diff of one level when every row is governed by the default diff
   logic (Tier A): one entry per row of new (ADDED, or AFFECTED/UNCHANGED when the row is
   on both sides) and one REMOVED entry per row of old that new does not have, in some
   order; the children of an entry are again such a diff. *)
From Coq Require Import List String Bool Arith Lia Permutation.
From Annet Require Import Base.Str Base.Tree Model.Rulebook Model.Diff Spec.P_C03
     Proofs.DiffBasics Proofs.DiffProofsLib Proofs.DiffProofsAnnot Proofs.DiffProofsLossless.
Import ListNotations.
Open Scope string_scope.
Open Scope list_scope.

(* every row, at every depth, is governed by the default diff logic *)
Fixpoint tier_default (t : atree) : Prop :=
  match t with
  | AT ks =>
    (fix go (l : aforest) : Prop :=
       match l with
       | [] => True
       | (_, m, c) :: l' => mi_dlogic m = DDefault /\ tier_default c /\ go l'
       end) ks
  end.
Definition tier_default_f (f : aforest) : Prop := tier_default (AT f).

Lemma tier_default_cons r m c f :
  tier_default_f ((r, m, c) :: f) <-> mi_dlogic m = DDefault /\ tier_default c /\ tier_default_f f.
Proof. reflexivity. Qed.

Lemma tier_default_in f k : tier_default_f f -> In k f -> mi_dlogic (ami k) = DDefault /\ tier_default (asub k).
Proof.
  induction f as [|[[r m] c] f IH]; intros H Hin; [destruct Hin|].
  apply tier_default_cons in H as (H1 & H2 & H3). destruct Hin as [<-|Hin]; [split; assumption | auto].
Qed.

Lemma tier_default_akids c : tier_default c <-> tier_default_f (akids c).
Proof. destruct c. reflexivity. Qed.

Lemma uniq_dl_const D : forall l seen, (forall x, In x l -> x = D) -> In D seen -> uniq_dl l seen = [].
Proof.
  induction l as [|x l IH]; intros seen H Hs; [reflexivity|]. cbn.
  rewrite (H x (or_introl eq_refl)). rewrite (proj2 (existsb_dl_In D seen) Hs).
  apply IH; [intros y Hy; apply H; now right | exact Hs].
Qed.

Lemma uniq_dl_const0 D l : (forall x, In x l -> x = D) -> l <> [] -> uniq_dl l [] = [D].
Proof.
  destruct l as [|x l]; intros H Hne; [congruence|]. cbn.
  rewrite (H x (or_introl eq_refl)). f_equal.
  apply (uniq_dl_const D); [intros y Hy; apply H; now right | now left].
Qed.

Lemma filter_all {A} (p : A -> bool) l : (forall x, In x l -> p x = true) -> filter p l = l.
Proof.
  induction l as [|x l IH]; intro H; [reflexivity|]. cbn. rewrite (H x (or_introl eq_refl)).
  f_equal. apply IH. intros y Hy. apply H. now right.
Qed.

Definition all_default (f : aforest) : Prop := forall k, In k f -> mi_dlogic (ami k) = DDefault.

Lemma diff_level_default og ng pop inrw : all_default og -> all_default ng ->
  diff_level og (cks ng) pop inrw = base_diff og pop inrw true (cks ng).
Proof.
  intros Ho Hn. rewrite diff_level_unfold.
  destruct og as [|ko og'] eqn:Eo; destruct ng as [|kn ng'] eqn:En; [reflexivity| | |].
  all: rewrite (uniq_dl_const0 DDefault);
    [ | intros x Hx; apply in_app_or in Hx as [Hx|Hx]; apply in_map_iff in Hx as (k & <- & Hk); auto
      | cbn; discriminate ].
  all: cbn [flat_map]; rewrite app_nil_r; unfold run_dlogic;
    rewrite !filter_all by (intros k Hk; unfold inL; rewrite ?(Ho k Hk), ?(Hn k Hk); reflexivity);
    reflexivity.
Qed.

(* the entry of a row of new *)
Definition newnode (og : aforest) (pop : op) (inrw : bool) (k : string * minfo * atree) : dnode :=
  match alookup (arow k) og with
  | None => DN Added (arow k) (ami k) (diff_t (asub k) [] Added inrw)
  | Some (_, so) => DN pop (arow k) (ami k) (diff_t (asub k) (akids so) pop inrw)
  end.

Lemma scan_default og pop inrw : forall l i dis,
  scan_new og pop inrw true (cks l) i dis = map (newnode og pop inrw) l.
Proof.
  induction l as [|[[r m] c] l IH]; intros i dis; [reflexivity|].
  change (cks ((r, m, c) :: l)) with ((r, m, diff_t c) :: cks l). cbn [scan_new map].
  unfold newnode at 1, arow, ami, asub. cbn [fst snd].
  destruct (afind r og 0) as [[j so]|] eqn:Ef.
  - apply afind_Some in Ef as (mo & El). rewrite El.
    destruct (dis || negb (Nat.eqb i j)); rewrite IH; reflexivity.
  - apply afind_None in Ef. rewrite Ef, IH. reflexivity.
Qed.

Lemma base_diff_default_perm og pop inrw ng :
  Permutation (base_diff og pop inrw true (cks ng))
              (map (newnode og pop inrw) ng ++ map mkrem (filter (notin (arows ng)) og)).
Proof. rewrite <- (scan_default og pop inrw ng 0 false). apply base_diff_perm. Qed.

(* ---------- marking ---------- *)
Fixpoint no_aff (d : dnode) : bool :=
  match d with DN o _ _ k => negb (op_eqb o Affected) && forallb no_aff k end.

Lemma mark_no_aff : forall d, no_aff d = true -> mark_unchanged_n d = d.
Proof.
  induction d as [o row m kids IH] using dnode_ind2. cbn. intro H.
  apply andb_true_iff in H as [H1 H2]. apply negb_true_iff in H1. rewrite H1. reflexivity.
Qed.

Lemma mark_no_aff_all d : forallb no_aff d = true -> mark_unchanged d = d.
Proof.
  intro H. unfold mark_unchanged. rewrite <- (map_id d) at 2. apply map_ext_in.
  intros x Hx. apply mark_no_aff. rewrite forallb_forall in H. auto.
Qed.

Lemma removed_t_no_aff : forall t, forallb no_aff (removed_t t) = true.
Proof.
  induction t as [ks IH] using atree_ind2. apply forallb_forall. intros x Hx.
  apply removed_t_In in Hx as (k & Hk & ->). cbn [akids] in Hk. unfold mkrem. cbn.
  rewrite Forall_forall in IH. apply (IH k Hk).
Qed.

Lemma removed_t_default ks : all_default ks -> removed_t (AT ks) = map mkrem ks.
Proof.
  intro H. cbn [removed_t].
  set (all := (fix go (l : aforest) : list (dlogic * dnode) :=
                 match l with
                 | [] => []
                 | (row, mi, sub) :: l' => (mi_dlogic mi, DN Removed row mi (removed_t sub)) :: go l'
                 end) ks).
  assert (Eall : all = map (fun k => (mi_dlogic (ami k), mkrem k)) ks).
  { subst all. clear H. induction ks as [|[[r m] c] ks IH]; [reflexivity|]. cbn [map]. f_equal. exact IH. }
  rewrite Eall. destruct ks as [|k0 ks']; [reflexivity|].
  rewrite map_map. cbn [fst].
  rewrite (uniq_dl_const0 DDefault); [| intros x Hx; apply in_map_iff in Hx as (k & <- & Hk); apply H; exact Hk | cbn; discriminate].
  cbn [flat_map]. rewrite app_nil_r.
  rewrite filter_all.
  - rewrite map_map. reflexivity.
  - intros x Hx. apply in_map_iff in Hx as (k & <- & Hk). cbn [fst]. rewrite (H k Hk). reflexivity.
Qed.

(* the diff of a level against nothing: everything removed *)
Lemma diff_level_removed og inrw : all_default og ->
  diff_level og (cks []) Removed inrw = map mkrem og.
Proof.
  intro H. rewrite diff_level_default by (auto; intros k []).
  unfold base_diff. cbn [cks map scan_new interleave]. rewrite removed_rows_spec.
  rewrite filter_all by reflexivity. reflexivity.
Qed.

Lemma diff_added_no_aff : forall t inrw, tier_default t -> forallb no_aff (diff_t t [] Added inrw) = true.
Proof.
  induction t as [ks IH] using atree_ind2. intros inrw Ht. rewrite diff_t_unfold.
  assert (Hd : all_default ks) by (intros k Hk; apply (tier_default_in ks k Ht Hk)).
  rewrite diff_level_default by (auto; intros k []).
  apply forallb_forall. intros x Hx. eapply Permutation_in in Hx; [|apply base_diff_default_perm].
  cbn [filter map] in Hx. rewrite app_nil_r in Hx. apply in_map_iff in Hx as (k & <- & Hk).
  unfold newnode. cbn [alookup no_aff op_eqb negb andb]. rewrite Forall_forall in IH.
  apply (IH k Hk). apply (tier_default_in ks k Ht Hk).
Qed.
