(* C10, layer 2: inside the computable guard wfx_prog the run without ACL succeeds and its tree is
   the ordered dict of the program's yielded paths, where blank and comment rows vanish and a block
   whose header vanishes hangs its body under the row yielded just before it. *)
From Coq Require Import List String Ascii Bool Arith Lia.
From Annet Require Import Base.Str Base.Tree Model.Offside Spec.P_C05 Proofs.OffsideProofs.
From Annet Require Import Model.GenProg Spec.P_C10 Proofs.GenProgProofs Spec.P_C10b Proofs.GenItemsProofs.
Import ListNotations.
Open Scope string_scope.
Open Scope list_scope.
Arguments Nat.ltb : simpl never.
Arguments Nat.leb : simpl never.

(* ---------- recent rows of a block, seen from inside the block and from the whole text ---------- *)

Definition lift (c : nat) (bp : list string) (l : hist) : hist :=
  map (fun e : nat * list string => (c + fst e, bp ++ snd e)) l.

(* the recent rows go down to a row that is not indented by itself *)
Definition good (l : hist) : Prop := exists l0 k, l = l0 ++ [(0, [k])].

Lemma good_cons e l : good l -> good (e :: l).
Proof. intros (l0 & k & ->). exists (e :: l0), k. reflexivity. Qed.

Lemma good_single k : good [(0, [k])].
Proof. exists [], k. reflexivity. Qed.

Lemma find_app {A} (f : A -> bool) a b :
  find f (a ++ b) = match find f a with Some x => Some x | None => find f b end.
Proof. induction a as [|x a IH]; [reflexivity|]. cbn. destruct (f x); [reflexivity|exact IH]. Qed.

Lemma ltb_add c a j : Nat.ltb (c + a) (c + j) = Nat.ltb a j.
Proof. destruct (Nat.ltb_spec a j), (Nat.ltb_spec (c + a) (c + j)); try reflexivity; lia. Qed.

Lemma leb_add c a j : Nat.leb (c + a) (c + j) = Nat.leb a j.
Proof. destruct (Nat.leb_spec a j), (Nat.leb_spec (c + a) (c + j)); try reflexivity; lia. Qed.

Lemma find_lift_lt c bp j l :
  find (fun e : nat * list string => Nat.ltb (fst e) (c + j)) (lift c bp l) =
  option_map (fun e : nat * list string => (c + fst e, bp ++ snd e))
             (find (fun e : nat * list string => Nat.ltb (fst e) j) l).
Proof.
  induction l as [|e l IH]; [reflexivity|]. cbn [lift map find fst]. rewrite ltb_add.
  destruct (Nat.ltb (fst e) j); [reflexivity|exact IH].
Qed.

Lemma find_lift_le c bp j l :
  find (fun e : nat * list string => Nat.leb (fst e) (c + j)) (lift c bp l) =
  option_map (fun e : nat * list string => (c + fst e, bp ++ snd e))
             (find (fun e : nat * list string => Nat.leb (fst e) j) l).
Proof.
  induction l as [|e l IH]; [reflexivity|]. cbn [lift map find fst]. rewrite leb_add.
  destruct (Nat.leb (fst e) j); [reflexivity|exact IH].
Qed.

Lemma good_find_le l j : good l -> exists e, find (fun e : nat * list string => Nat.leb (fst e) j) l = Some e.
Proof.
  intros (l0 & k & ->). induction l0 as [|x l0 IH]; cbn.
  - eexists. reflexivity.
  - destruct (Nat.leb (fst x) j); [eexists; reflexivity|exact IH].
Qed.

Lemma good_find_lt l j : good l -> 0 < j -> exists e, find (fun e : nat * list string => Nat.ltb (fst e) j) l = Some e.
Proof.
  intros (l0 & k & ->) Hj. induction l0 as [|x l0 IH]; cbn.
  - assert (E : Nat.ltb 0 j = true) by (apply Nat.ltb_lt; exact Hj). rewrite E. eexists. reflexivity.
  - destruct (Nat.ltb (fst x) j); [eexists; reflexivity|exact IH].
Qed.

Lemma find_lt_0 (l : hist) : find (fun e : nat * list string => Nat.ltb (fst e) 0) l = None.
Proof. induction l as [|e l IH]; [reflexivity|]. cbn. exact IH. Qed.

Lemma good_nonempty l : good l -> exists e l', l = e :: l'.
Proof. intros (l0 & k & ->). destruct l0; cbn; eexists; eexists; reflexivity. Qed.

(* (A) a column is acceptable after the recent rows iff it is acceptable among them *)
Lemma consistent_lift c bp l h0 j : good l ->
  ref_consistent (lift c bp l ++ h0) (c + j) = ref_consistent l j.
Proof.
  intros G. destruct (good_nonempty l G) as (e & l' & ->).
  destruct (good_find_le _ j G) as (e' & Ef).
  unfold ref_consistent. cbn [lift map app]. destruct e as [lp pp]. cbn [fst snd].
  rewrite ltb_add. f_equal.
  change ((c + lp, bp ++ pp) :: map (fun e : nat * list string => (c + fst e, bp ++ snd e)) l' ++ h0)
    with (lift c bp ((lp, pp) :: l') ++ h0).
  rewrite find_app, find_lift_le, Ef. cbn [option_map]. destruct e' as [lj pj]. cbn [fst].
  destruct (Nat.eqb_spec lj j), (Nat.eqb_spec (c + lj) (c + j)); try reflexivity; lia.
Qed.

(* (B) ... and it lands under the same row *)
Lemma parent_lift c bp l h0 j : good l -> parent h0 c = bp ->
  parent (lift c bp l ++ h0) (c + j) = bp ++ parent l j.
Proof.
  intros G Hp. unfold parent. rewrite find_app, find_lift_lt.
  destruct (find (fun e : nat * list string => Nat.ltb (fst e) j) l) as [[lj pj]|] eqn:Ef; [reflexivity|].
  cbn [option_map]. destruct j as [|j].
  - rewrite Nat.add_0_r, app_nil_r. exact Hp.
  - destruct (good_find_lt l (S j) G) as (e & Ee); [lia|]. congruence.
Qed.

Lemma good_consistent_0 l : good l -> ref_consistent l 0 = true.
Proof.
  intros G. destruct (good_nonempty l G) as ([lp pp] & l' & E). destruct (good_find_le l 0 G) as ([lj pj] & Ef).
  subst l. unfold ref_consistent. rewrite Ef.
  apply find_some in Ef as [_ Hle]. cbn [fst] in Hle. apply Nat.leb_le in Hle.
  replace lj with 0 by lia. apply orb_true_r.
Qed.

Lemma parent_0 (l : hist) : parent l 0 = [].
Proof. unfold parent. rewrite find_lt_0. reflexivity. Qed.

Lemma find_lift_le0 c bp l :
  find (fun e : nat * list string => Nat.leb (fst e) c) (lift c bp l) =
  option_map (fun e : nat * list string => (c + fst e, bp ++ snd e))
             (find (fun e : nat * list string => Nat.leb (fst e) 0) l).
Proof. pose proof (find_lift_le c bp 0 l) as H. rewrite Nat.add_0_r in H. exact H. Qed.

Lemma consistent_lift0 c bp l h0 : good l -> ref_consistent (lift c bp l ++ h0) c = true.
Proof.
  intros G. pose proof (consistent_lift c bp l h0 0 G) as H. rewrite Nat.add_0_r in H.
  rewrite H. apply good_consistent_0. exact G.
Qed.

Lemma parent_lift0 c bp l h0 : good l -> parent h0 c = bp -> parent (lift c bp l ++ h0) c = bp.
Proof.
  intros G Hp. pose proof (parent_lift c bp l h0 0 G Hp) as H. rewrite Nat.add_0_r in H.
  rewrite H, parent_0, app_nil_r. reflexivity.
Qed.

(* (D) back in the block's own column after deeper lines *)
Lemma ready_back_lift c bp l h0 new : good l -> parent h0 c = bp ->
  Forall (fun e : nat * list string => c < fst e) new ->
  Ready (new ++ lift c bp l ++ h0) c bp.
Proof.
  intros G Hp F. split.
  - destruct new as [|[lp pp] new'].
    + cbn [app]. apply consistent_lift0. exact G.
    + assert (Hf : exists pj, find (fun e : nat * list string => Nat.leb (fst e) c)
                                   (((lp, pp) :: new') ++ lift c bp l ++ h0) = Some (c, pj)).
      { rewrite find_skip.
        - destruct (good_find_le l 0 G) as ([lj pj] & Ef).
          rewrite find_app, find_lift_le0, Ef. cbn [option_map fst snd].
          apply find_some in Ef as [_ Hle]. cbn [fst] in Hle. apply Nat.leb_le in Hle.
          replace lj with 0 by lia. rewrite Nat.add_0_r. eexists. reflexivity.
        - eapply Forall_impl; [|exact F]. cbn. intros a Ha. apply Nat.leb_gt. exact Ha. }
      destruct Hf as (pj & Hf). unfold ref_consistent. cbn [app] in *. rewrite Hf.
      rewrite Nat.eqb_refl. apply orb_true_r.
  - unfold parent. rewrite find_skip.
    + apply parent_lift0; assumption.
    + eapply Forall_impl; [|exact F]. cbn. intros a Ha. apply Nat.ltb_ge. lia.
Qed.

(* the most recent lines of the history are the recent rows l of the current block *)
Definition Last (h : hist) (c : nat) (bp : list string) (cur : cursor) : Prop :=
  match cur with
  | Some l => good l /\ exists h0, h = lift c bp l ++ h0 /\ parent h0 c = bp
  | None => True
  end.

(* what a piece of program emitting the items `its` in column c under block path bp does to the
   reference parser *)
Definition KI (c : nat) (bp : list string) (cur : cursor) (its : list item)
           (ps : list (list string)) (cur' : cursor) : Prop :=
  (ps = [] -> 0 < c -> Forall (fun i => i = Skip) its) /\
  forall h acc n rest, Ready h c bp -> Last h c bp cur ->
    exists h', ref_items (its ++ rest) n h acc = ref_items rest (n + List.length its) h' (insall ps acc)
      /\ Ready h' c bp /\ Last h' c bp cur'
      /\ (0 < c -> exists new, h' = new ++ h /\ Forall (fun e : nat * list string => c <= fst e) new
                                /\ (ps = [] -> new = [])).

Lemma KI_nil c bp cur : KI c bp cur [] [] cur.
Proof.
  split; [constructor|]. intros h acc n rest R L. exists h. cbn. rewrite Nat.add_0_r.
  split; [reflexivity|]. split; [exact R|]. split; [exact L|].
  intros _. exists []. split; [reflexivity|]. split; [constructor|reflexivity].
Qed.

Lemma KI_app c bp cur i1 p1 cur1 i2 p2 cur2 :
  KI c bp cur i1 p1 cur1 -> KI c bp cur1 i2 p2 cur2 -> KI c bp cur (i1 ++ i2) (p1 ++ p2) cur2.
Proof.
  intros [S1 X1] [S2 X2]. split.
  - intros E Hc. apply app_eq_nil in E as [E1 E2]. apply Forall_app. split; auto.
  - intros h acc n rest R L.
    destruct (X1 h acc n (i2 ++ rest) R L) as (h1 & E1 & R1 & L1 & T1).
    destruct (X2 h1 (insall p1 acc) (n + List.length i1) rest R1 L1) as (h2 & E2 & R2 & L2 & T2).
    exists h2. rewrite <- app_assoc, E1, E2, app_length, insall_app, Nat.add_assoc.
    split; [reflexivity|]. split; [exact R2|]. split; [exact L2|].
    intros Hc. destruct (T1 Hc) as (n1 & -> & F1 & Z1). destruct (T2 Hc) as (n2 & -> & F2 & Z2).
    exists (n2 ++ n1). rewrite <- app_assoc. split; [reflexivity|]. split; [apply Forall_app; auto|].
    intros E. apply app_eq_nil in E as [E1' E2']. rewrite (Z1 E1'), (Z2 E2'). reflexivity.
Qed.

Lemma KI_skip c bp cur its ps cur' : KI c bp cur its ps cur' -> KI c bp cur (Skip :: its) ps cur'.
Proof.
  intros [SK X]. split.
  - intros E Hc. constructor; auto.
  - intros h acc n rest R L. destruct (X h acc (S n) rest R L) as (h' & E & R' & L' & T').
    exists h'. cbn [app ref_items List.length]. rewrite E, Nat.add_succ_r. auto.
Qed.

Lemma KI_reset cur its ps cur' : KI 0 [] None its ps cur' -> KI 0 [] cur (Reset :: its) ps cur'.
Proof.
  intros [SK X]. split.
  - intros _ Hc. inversion Hc.
  - intros h acc n rest R L.
    assert (R0 : Ready [] 0 []) by (split; reflexivity).
    destruct (X [] acc (S n) rest R0 I) as (h' & E & R' & L' & T').
    exists h'. cbn [app ref_items List.length]. rewrite E, Nat.add_succ_r.
    split; [reflexivity|]. split; [exact R'|]. split; [exact L'|]. intros Hc. inversion Hc.
Qed.

(* a visible row that is not indented by itself *)
Lemma KI_content0 c bp cur k its ps cur' :
  KI c bp (Some [(0, [k])]) its ps cur' -> KI c bp cur (Content c k :: its) ((bp ++ [k]) :: ps) cur'.
Proof.
  intros [SK X]. split; [discriminate|].
  intros h acc n rest R L. destruct R as [Rc Rp].
  assert (R1 : Ready ((c, bp ++ [k]) :: h) c bp) by (apply ready_same; split; assumption).
  assert (L1 : Last ((c, bp ++ [k]) :: h) c bp (Some [(0, [k])])).
  { split; [apply good_single|]. exists h. cbn [lift map fst snd app]. rewrite Nat.add_0_r. auto. }
  destruct (X _ (ins (bp ++ [k]) acc) (S n) rest R1 L1) as (h' & E & R' & L' & T').
  exists h'. cbn [app ref_items List.length]. rewrite Rc, ref_path_parent, Rp, E, Nat.add_succ_r, insall_cons.
  split; [reflexivity|]. split; [exact R'|]. split; [exact L'|].
  intros Hc. destruct (T' Hc) as (new & -> & F & _).
  exists (new ++ [(c, bp ++ [k])]). rewrite <- app_assoc. split; [reflexivity|].
  split; [|discriminate]. apply Forall_app. split; [exact F|]. constructor; [cbn; lia|constructor].
Qed.

(* a visible row indented by itself, placed among the recent rows of its block *)
Lemma KI_contentj c bp l j k its ps cur' :
  ref_consistent l j = true ->
  KI c bp (Some ((j, ref_path l j k) :: l)) its ps cur' ->
  KI c bp (Some l) (Content (c + j) k :: its) ((bp ++ ref_path l j k) :: ps) cur'.
Proof.
  intros Hc [SK X]. split; [discriminate|].
  intros h acc n rest R L. destruct L as (G & h0 & -> & Hp).
  set (q := ref_path l j k) in *.
  assert (Eh : (c + j, bp ++ q) :: lift c bp l ++ h0 = lift c bp ((j, q) :: l) ++ h0) by reflexivity.
  assert (G1 : good ((j, q) :: l)) by (apply good_cons; exact G).
  assert (R1 : Ready (lift c bp ((j, q) :: l) ++ h0) c bp).
  { apply (ready_back_lift c bp _ h0 []); [exact G1|exact Hp|constructor]. }
  assert (L1 : Last (lift c bp ((j, q) :: l) ++ h0) c bp (Some ((j, q) :: l))).
  { split; [exact G1|]. exists h0. auto. }
  destruct (X _ (ins (bp ++ q) acc) (S n) rest R1 L1) as (h' & E & R' & L' & T').
  exists h'. cbn [app ref_items List.length].
  rewrite consistent_lift by exact G. rewrite Hc.
  rewrite ref_path_parent, parent_lift by assumption.
  rewrite <- app_assoc. rewrite <- (ref_path_parent l j k). fold q.
  rewrite Eh, E, Nat.add_succ_r, insall_cons.
  split; [reflexivity|]. split; [exact R'|]. split; [exact L'|].
  intros Hc0. destruct (T' Hc0) as (new & -> & F & _).
  exists (new ++ [(c + j, bp ++ q)]). rewrite <- app_assoc. split; [reflexivity|].
  split; [|discriminate]. apply Forall_app. split; [exact F|]. constructor; [cbn; lia|constructor].
Qed.

(* ---------- items of rows ---------- *)

Lemma items_of_app a b : items_of (a ++ b) = items_of a ++ items_of b.
Proof. unfold items_of. rewrite filter_app, map_app. reflexivity. Qed.

Lemma items_of_cons cr rows :
  items_of (cr :: rows) = if line_empty cr then items_of rows else row_item cr :: items_of rows.
Proof. unfold items_of. cbn [filter]. destruct (line_empty cr); reflexivity. Qed.

Lemma startswith_hash_nonempty r : startswith "#" r = true -> is_empty r = false.
Proof. destruct r; [discriminate|reflexivity]. Qed.

Lemma dropped_empty r : is_empty r = true -> dropped r = true.
Proof. destruct r; [reflexivity|discriminate]. Qed.

Lemma hash_dropped r : startswith "#" r = true -> dropped r = true.
Proof.
  intros H. unfold dropped. rewrite (hash_prefix_strip r H). apply orb_true_r.
Qed.

(* the rows of one text *)
Lemma K_rows c bp : (c = 0 -> bp = []) -> forall rows cur ps cur',
  rows_okx rows = true -> rows_sem (Nat.eqb c 0) bp cur rows = (true, ps, cur') ->
  Forall (fun r => has_none_word r = false) rows /\
  KI c bp cur (items_of (map (fun r => (c, r)) rows)) ps cur'.
Proof.
  intros Hc0. induction rows as [|r rows IH]; intros cur ps cur' W E.
  - cbn in E. injection E as <- <-. split; [constructor|apply KI_nil].
  - cbn [rows_okx forallb] in W. apply andb_true_iff in W as [Wn W]. apply negb_true_iff in Wn.
    cbn [map]. rewrite items_of_cons. unfold line_empty, row_item. cbn [fst snd].
    cbn [rows_sem] in E.
    destruct (Nat.eqb c 0 && startswith "#" r) eqn:Top.
    + (* '#' in column 0: the section is closed *)
      apply andb_true_iff in Top as [C0 Hh]. apply Nat.eqb_eq in C0. subst c.
      rewrite (Hc0 eq_refl) in *. cbn [Nat.eqb andb].
      rewrite (startswith_hash_nonempty r Hh).
      destruct (IH None ps cur' W E) as [F K]. split; [constructor; assumption|].
      apply KI_reset. exact K.
    + destruct (dropped r) eqn:D.
      * destruct (IH cur ps cur' W E) as [F K]. split; [constructor; assumption|].
        destruct (Nat.eqb c 0 && is_empty r); [exact K|apply KI_skip; exact K].
      * assert (Ne : is_empty r = false).
        { destruct (is_empty r) eqn:Er; [|reflexivity]. rewrite (dropped_empty r Er) in D. discriminate. }
        rewrite Ne, andb_false_r. unfold place in E.
        destruct (Nat.eqb (parse_indent r) 0) eqn:Ej.
        -- apply Nat.eqb_eq in Ej. rewrite Ej, Nat.add_0_r.
           match type of E with context [rows_sem ?a ?b ?d ?e] =>
             destruct (rows_sem a b d e) as [[ok0 ps0] cur0] eqn:E0 end.
           injection E as -> <- <-.
           destruct (IH _ ps0 cur0 W E0) as [F K]. split; [constructor; assumption|].
           apply KI_content0. exact K.
        -- destruct cur as [l|]; [|discriminate].
           destruct (ref_consistent l (parse_indent r)) eqn:Ec; [|discriminate].
           match type of E with context [rows_sem ?a ?b ?d ?e] =>
             destruct (rows_sem a b d e) as [[ok0 ps0] cur0] eqn:E0 end.
           injection E as -> <- <-.
           destruct (IH _ ps0 cur0 W E0) as [F K]. split; [constructor; assumption|].
           apply KI_contentj; assumption.
Qed.

Lemma ref_items_skips its : Forall (fun i => i = Skip) its -> forall rest n h acc,
  ref_items (its ++ rest) n h acc = ref_items rest (n + List.length its) h acc.
Proof.
  induction 1 as [|i its -> _ IH]; intros rest n h acc.
  - cbn. rewrite Nat.add_0_r. reflexivity.
  - cbn [app ref_items List.length]. rewrite IH, Nat.add_succ_r. reflexivity.
Qed.

(* the body of a block, one indent deeper, under the most recent row of this block that is indented by
   less *)
Lemma K_under c i bp cur_h bp' its ps cb :
  0 < i -> KI (c + i) bp' None its ps cb ->
  (ps = [] \/ exists l, cur_h = Some l /\ ref_consistent l i = true /\ bp' = bp ++ parent l i) ->
  KI c bp cur_h its ps (if is_nil ps then cur_h else None).
Proof.
  intros Hi [SK X] Hcase. split.
  - intros E _. apply SK; [exact E|lia].
  - intros h acc n rest R L. destruct ps as [|p0 ps'].
    + assert (Sk : Forall (fun i => i = Skip) its) by (apply SK; [reflexivity|lia]).
      exists h. rewrite (ref_items_skips its Sk). cbn [is_nil insall fold_left].
      split; [reflexivity|]. split; [exact R|]. split; [exact L|].
      intros _. exists []. split; [reflexivity|]. split; [constructor|reflexivity].
    + destruct Hcase as [Hn|(l & -> & Hc & ->)]; [discriminate|].
      destruct L as (G & h0 & -> & Hp).
      assert (R1 : Ready (lift c bp l ++ h0) (c + i) (bp ++ parent l i)).
      { split; [rewrite consistent_lift by exact G; exact Hc|apply parent_lift; assumption]. }
      destruct (X _ acc n rest R1 I) as (h' & E & R' & _ & T').
      destruct T' as (new & -> & F & _); [lia|].
      exists (new ++ lift c bp l ++ h0). split; [exact E|]. cbn [is_nil].
      split; [|split; [exact I|]].
      * apply ready_back_lift; [exact G|exact Hp|]. eapply Forall_impl; [|exact F]. cbn. intros a Ha. lia.
      * intros _. exists new. split; [reflexivity|]. split; [|discriminate].
        eapply Forall_impl; [|exact F]. cbn. intros a Ha. lia.
Qed.

(* ---------- statements ---------- *)

Definition KS (c : nat) (bp : list string) (cur : cursor) (bad : bool) (rows : list crow) (v : vres) : Prop :=
  forall ps cur', v = (true, ps, cur') ->
    bad = false /\ Forall (fun cr : crow => has_none_word (snd cr) = false) rows /\
    KI c bp cur (items_of rows) ps cur'.

Lemma Forall_text_rows c rows :
  Forall (fun r => has_none_word r = false) rows ->
  Forall (fun cr : crow => has_none_word (snd cr) = false) (map (fun r => (c, r)) rows).
Proof. induction 1; cbn; constructor; auto. Qed.

Lemma eqb0_add c i : 0 < i -> Nat.eqb (c + i) 0 = false.
Proof. intros H. apply Nat.eqb_neq. lia. Qed.

Lemma K_block c bp cur toks i (ksem : bool -> list string -> cursor -> vres) (kb : bool)
      (krows : nat -> list crow) :
  (c = 0 -> bp = []) ->
  (forall c' bp' cur0, (c' = 0 -> bp' = []) -> KS c' bp' cur0 kb (krows c') (ksem (Nat.eqb c' 0) bp' cur0)) ->
  KS c bp cur (bad_toks toks || kb) (rows_block c toks i krows) (vblock (Nat.eqb c 0) bp cur toks i ksem).
Proof.
  intros Hc0 KB ps cur' E. unfold vblock in E. unfold bad_toks, rows_block.
  destruct (join_toks toks) as [e|b]; [discriminate|].
  destruct (rows_sem (Nat.eqb c 0) bp cur (split_and_strip b)) as [[ok_h ps_h] cur_h] eqn:Eh.
  destruct (Nat.eqb i 0) eqn:Ei.
  - (* zero-width indent: the body goes on in the same column *)
    apply Nat.eqb_eq in Ei. subst i. rewrite Nat.add_0_r.
    destruct (ksem (Nat.eqb c 0) bp cur_h) as [[ok_b ps_b] cb] eqn:Eb.
    injection E as Eok <- <-. rewrite !andb_true_iff in Eok. destruct Eok as [[Wr ->] ->].
    destruct (K_rows c bp Hc0 _ cur ps_h cur_h Wr Eh) as [Fh Kh].
    destruct (KB c bp cur_h Hc0 ps_b cb Eb) as (Hkb & Fb & Kb).
    cbn [orb]. split; [exact Hkb|]. split.
    + apply Forall_app. split; [apply Forall_text_rows; exact Fh|exact Fb].
    + rewrite items_of_app. unfold text_rows. eapply KI_app; eassumption.
  - apply Nat.eqb_neq in Ei. assert (Wi : 0 < i) by lia.
    set (bp' := match cur_h with Some l => bp ++ parent_of l i | None => bp end) in E.
    destruct (ksem false bp' None) as [[ok_b ps_b] cb] eqn:Eb.
    injection E as Eok <- <-.
    rewrite !andb_true_iff in Eok. destruct Eok as [[[Wr ->] Wb] Wc]. subst ok_b.
    destruct (K_rows c bp Hc0 _ cur ps_h cur_h Wr Eh) as [Fh Kh].
    assert (KBb : KS (c + i) bp' None kb (krows (c + i)) (ksem false bp' None)).
    { rewrite <- (eqb0_add c i Wi). apply KB. lia. }
    destruct (KBb ps_b cb Eb) as (Hkb & Fb & Kb).
    cbn [orb]. split; [exact Hkb|]. split.
    + apply Forall_app. split; [apply Forall_text_rows; exact Fh|exact Fb].
    + rewrite items_of_app. unfold text_rows. eapply KI_app; [exact Kh|].
      eapply K_under; [exact Wi|exact Kb|].
      destruct ps_b as [|p0 ps_b']; [left; reflexivity|right].
      cbn [is_nil orb] in Wc. destruct cur_h as [l|]; [|discriminate]. exists l. cbn [opens] in Wc.
      split; [reflexivity|]. split; [exact Wc|reflexivity].
Qed.

Lemma K_multi blocks : forall c bp cur (ksem : bool -> list string -> cursor -> vres) (kb : bool)
      (krows : nat -> list crow),
  (c = 0 -> bp = []) ->
  (forall c' bp' cur0, (c' = 0 -> bp' = []) -> KS c' bp' cur0 kb (krows c') (ksem (Nat.eqb c' 0) bp' cur0)) ->
  KS c bp cur (existsb (fun b => bad_toks (mblk_toks b)) blocks || kb) (rows_multiblock c blocks krows)
     (vmulti (Nat.eqb c 0) bp cur blocks ksem).
Proof.
  induction blocks as [|b blocks IH]; intros c bp cur ksem kb krows Hc0 KB.
  - cbn. apply KB. exact Hc0.
  - cbn [vmulti rows_multiblock existsb]. rewrite <- orb_assoc.
    apply (K_block c bp cur (mblk_toks b) default_indent
             (fun top' bp' cur' => vmulti top' bp' cur' blocks ksem)); [exact Hc0|].
    intros c' bp' cur0 Hc'. apply IH; assumption.
Qed.

Theorem K_stmt : forall s c bp cur, (c = 0 -> bp = []) ->
  KS c bp cur (invalid s) (srows c s) (vsem (Nat.eqb c 0) bp cur s).
Proof.
  apply (stmt_ind2
    (fun s => forall c bp cur, (c = 0 -> bp = []) ->
       KS c bp cur (invalid s) (srows c s) (vsem (Nat.eqb c 0) bp cur s))
    (fun ss => forall c bp cur, (c = 0 -> bp = []) ->
       KS c bp cur (existsb invalid ss) (flat_map (srows c) ss) (vseq (vsem (Nat.eqb c 0) bp) cur ss))).
  - intros v c bp cur Hc0 ps cur' E. cbn [vsem invalid srows] in *.
    destruct (ytext v) as [e|t]; [discriminate|].
    destruct (rows_sem (Nat.eqb c 0) bp cur (split_and_strip t)) as [[ok0 ps0] cur0] eqn:E0.
    injection E as W <- <-. apply andb_true_iff in W as [W ->].
    destruct (K_rows c bp Hc0 _ cur ps0 cur0 W E0) as [F K].
    split; [reflexivity|]. split; [apply Forall_text_rows; exact F|exact K].
  - intros toks ind body IH c bp cur Hc0. cbn [vsem invalid srows].
    apply (K_block c bp cur toks (ind_of ind) (fun top' bp' cur' => vseq (vsem top' bp') cur' body)); [exact Hc0|].
    intros c' bp' cur0 Hc'. apply IH. exact Hc'.
  - intros toks cond body IH c bp cur Hc0. cbn [vsem invalid srows].
    destruct (block_if_cond toks cond); cbn [andb orb].
    + apply (K_block c bp cur toks default_indent (fun top' bp' cur' => vseq (vsem top' bp') cur' body)); [exact Hc0|].
      intros c' bp' cur0 Hc'. apply IH. exact Hc'.
    + apply IH. exact Hc0.
  - intros blocks body IH c bp cur Hc0. cbn [vsem invalid srows].
    apply (K_multi blocks c bp cur (fun top' bp' cur' => vseq (vsem top' bp') cur' body)); [exact Hc0|].
    intros c' bp' cur0 Hc'. apply IH. exact Hc'.
  - intros blocks cond body IH c bp cur Hc0. cbn [vsem invalid srows].
    destruct (multiblock_if_cond blocks cond); cbn [andb orb].
    + apply (K_multi blocks c bp cur (fun top' bp' cur' => vseq (vsem top' bp') cur' body)); [exact Hc0|].
      intros c' bp' cur0 Hc'. apply IH. exact Hc'.
    + apply IH. exact Hc0.
  - intros c bp cur Hc0 ps cur' E. cbn in E. injection E as <- <-.
    split; [reflexivity|]. split; [constructor|apply KI_nil].
  - intros s ss IHs IHss c bp cur Hc0 ps cur' E. cbn [vseq] in E.
    destruct (vsem (Nat.eqb c 0) bp cur s) as [[o1 p1] c1] eqn:E1.
    destruct (vseq (vsem (Nat.eqb c 0) bp) c1 ss) as [[o2 p2] c2] eqn:E2.
    injection E as Eo <- <-. apply andb_true_iff in Eo as [-> ->].
    destruct (IHs c bp cur Hc0 p1 c1 E1) as (B1 & F1 & K1).
    destruct (IHss c bp c1 Hc0 p2 c2 E2) as (B2 & F2 & K2).
    cbn [existsb flat_map]. rewrite B1, B2. split; [reflexivity|].
    split; [apply Forall_app; auto|]. rewrite items_of_app. eapply KI_app; eassumption.
Qed.

Lemma K_prog p c bp cur : (c = 0 -> bp = []) ->
  KS c bp cur (existsb invalid p) (flat_map (srows c) p) (vseq (vsem (Nat.eqb c 0) bp) cur p).
Proof.
  revert cur. induction p as [|s ss IH]; intros cur Hc0 ps cur' E.
  - cbn in E. injection E as <- <-. split; [reflexivity|]. split; [constructor|apply KI_nil].
  - cbn [vseq] in E.
    destruct (vsem (Nat.eqb c 0) bp cur s) as [[o1 p1] c1] eqn:E1.
    destruct (vseq (vsem (Nat.eqb c 0) bp) c1 ss) as [[o2 p2] c2] eqn:E2.
    injection E as Eo <- <-. apply andb_true_iff in Eo as [-> ->].
    destruct (K_stmt s c bp cur Hc0 p1 c1 E1) as (B1 & F1 & K1).
    destruct (IH c1 Hc0 p2 c2 E2) as (B2 & F2 & K2).
    cbn [existsb flat_map]. rewrite B1, B2. split; [reflexivity|].
    split; [apply Forall_app; auto|]. rewrite items_of_app. eapply KI_app; eassumption.
Qed.

(* ---------- the general tree theorem ---------- *)

Lemma existsb_false_Forall {A} (f : A -> bool) l : Forall (fun x => f x = false) l -> existsb f l = false.
Proof. induction 1 as [|x l Hx _ IH]; [reflexivity|]. cbn. rewrite Hx, IH. reflexivity. Qed.

Theorem emit_parse_gen p : wfx_prog p = true -> run_noacl p = GOk (tree_of' p).
Proof.
  intros W. rewrite run_items. unfold spec_noacl, tree_of', prog_paths'.
  unfold wfx_prog in W. unfold vprog in *.
  destruct (vseq (vsem true []) None p) as [[ok ps] cur'] eqn:E. cbn [fst snd] in *. subst ok.
  destruct (K_prog p 0 [] None (fun _ => eq_refl) ps cur' E) as (B & F & [_ X]).
  unfold prog_rows. rewrite B.
  rewrite (existsb_false_Forall (fun cr : crow => has_none_word (snd cr)) _ F).
  assert (R0 : Ready [] 0 []) by (split; reflexivity).
  destruct (X [] [] 1 [] R0 I) as (h' & Eq & _).
  rewrite app_nil_r in Eq. rewrite Eq. reflexivity.
Qed.

Theorem tree'_holds p : P_C10_tree' p (run_noacl p) = true.
Proof.
  unfold P_C10_tree'. destruct (wfx_prog p) eqn:W; [|reflexivity].
  rewrite (emit_parse_gen p W). cbn. apply forest_eqb_refl.
Qed.

Theorem tree_of'_wf p : wf (tree_of' p).
Proof. apply wf_insall. constructor. Qed.

(* the tree holds exactly the yielded paths and the rows above them *)
Theorem tree_of'_paths p q : q <> [] ->
  (mem_path q (tree_of' p) = true <-> exists p0, In p0 (prog_paths' p) /\ prefixb q p0 = true).
Proof.
  intros Hq. unfold tree_of'. rewrite mem_path_insall, mem_path_nil_forest.
  destruct q as [|a q]; [contradiction|]. cbn [orb]. rewrite existsb_exists. reflexivity.
Qed.

Corollary tree_of'_yielded p q : In q (prog_paths' p) -> mem_path q (tree_of' p) = true.
Proof.
  intros Hin. destruct q as [|a q]; [reflexivity|].
  apply tree_of'_paths; [discriminate|]. exists (a :: q). split; [exact Hin|apply prefixb_refl].
Qed.
