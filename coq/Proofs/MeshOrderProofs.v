(* C15: handler-order independence lifted from merge_list (MergeProofs.merge_list_perm) to the three rule
   loops of MeshExecutor (_execute_direct, _execute_indirect, _execute_virtual): permuting the registration
   order of the rules gives an error in both orders, or results that hold the same sessions (one per key,
   pairwise equal modulo the order of Concat lists).

   Route: the keyed loops are factored into "what each work item contributes" (collect) and a keyed left
   fold of upsert (kfold).  kfold is characterised per key: the session found under q in the result is the
   left fold of merge over the contributions whose key equals q, in work order (kfold_find_ok), and the loop
   fails iff one of these per-key folds fails (kfold_find_err).  A permutation of the work permutes the
   contributions of every key, and merge_list_perm does the rest. *)
From Coq Require Import List String Ascii Bool Arith ZArith Lia Permutation.
From Annet Require Import Model.Merge Model.Mesh Model.MeshExec Spec.P_C15 Spec.P_C15_iface
     Proofs.MergeProofs Proofs.MeshExecProofs.
Import ListNotations.
Open Scope string_scope.
Open Scope list_scope.

(* ---- the work lists are permuted when the rules are ------------------------------------------------- *)

Lemma flat_map_perm_pointwise : forall (A B : Type) (f g : A -> list B) (l : list A),
  (forall x, Permutation (f x) (g x)) -> Permutation (flat_map f l) (flat_map g l).
Proof.
  intros A B f g l H. induction l as [|x r IH]; cbn; [constructor|].
  apply Permutation_app; [apply H|exact IH].
Qed.

Lemma lookup_direct_perm : forall matches rules rules' device nbs,
  Permutation rules rules' ->
  Permutation (lookup_direct matches rules device nbs) (lookup_direct matches rules' device nbs).
Proof.
  intros matches rules rules' device nbs HP. unfold lookup_direct.
  apply flat_map_perm_pointwise. intros nb. apply Permutation_flat_map. exact HP.
Qed.

Lemma direct_work_perm : forall connections device ms ms',
  Permutation ms ms' ->
  Permutation (direct_work connections device ms) (direct_work connections device ms').
Proof. intros connections device ms ms' HP. unfold direct_work. apply Permutation_flat_map. exact HP. Qed.

Lemma direct_work_rules_perm : forall matches connections rules rules' device nbs,
  Permutation rules rules' ->
  Permutation (direct_work connections device (lookup_direct matches rules device nbs))
              (direct_work connections device (lookup_direct matches rules' device nbs)).
Proof.
  intros matches connections rules rules' device nbs HP. apply direct_work_perm. apply lookup_direct_perm. exact HP.
Qed.

(* the work list of _execute_virtual *)
Definition virtual_work (vmatches : nat -> string -> bool) (vrules : list vrule) (device : string)
  : list (vrule * Z) :=
  flat_map (fun r => if vmatches (v_id r) device then map (fun n => (r, n)) (v_nums r) else []) vrules.

Lemma virtual_work_perm : forall vmatches vrules vrules' device,
  Permutation vrules vrules' ->
  Permutation (virtual_work vmatches vrules device) (virtual_work vmatches vrules' device).
Proof. intros vmatches vrules vrules' device HP. unfold virtual_work. apply Permutation_flat_map. exact HP. Qed.

(* ---- key_eqb is a partial equivalence ---------------------------------------------------------------- *)

Lemma key_eqb_sym : forall a b, key_eqb a b = true -> key_eqb b a = true.
Proof.
  intros a b H. unfold key_eqb in *. apply andb_true_iff in H. destruct H as [H H3].
  apply andb_true_iff in H. destruct H as [H1 H2]. apply String.eqb_eq in H1.
  rewrite H1, String.eqb_refl, (value_eqb_sym _ _ H2), (value_eqb_sym _ _ H3). reflexivity.
Qed.

Lemma key_eqb_trans : forall a b c, key_eqb a b = true -> key_eqb b c = true -> key_eqb a c = true.
Proof.
  intros a b c H H'. unfold key_eqb in *. apply andb_true_iff in H. destruct H as [H H3].
  apply andb_true_iff in H. destruct H as [H1 H2]. apply String.eqb_eq in H1.
  apply andb_true_iff in H'. destruct H' as [H' H3']. apply andb_true_iff in H'. destruct H' as [H1' H2'].
  apply String.eqb_eq in H1'.
  rewrite H1, H1', String.eqb_refl, (value_eqb_trans _ _ _ H2 H2'), (value_eqb_trans _ _ _ H3 H3'). reflexivity.
Qed.

Lemma key_eqb_false_sym : forall a b, key_eqb a b = false -> key_eqb b a = false.
Proof.
  intros a b H. destruct (key_eqb b a) eqn:E; [|reflexivity].
  apply key_eqb_sym in E. rewrite E in H. discriminate.
Qed.

Lemma key_eqb_cong : forall q k k', key_eqb q k = true -> key_eqb q k' = key_eqb k k'.
Proof.
  intros q k k' Q. destruct (key_eqb k k') eqn:K.
  - apply (key_eqb_trans _ _ _ Q K).
  - destruct (key_eqb q k') eqn:Q'; [|reflexivity].
    rewrite (key_eqb_trans _ _ _ (key_eqb_sym _ _ Q) Q') in K. discriminate.
Qed.

(* a key whose address and vrf are plain values (str, not a nested model) equals itself *)
Lemma key_eqb_refl_plain : forall (n : string) a v, plain a = true -> plain v = true -> key_eqb (n, a, v) (n, a, v) = true.
Proof.
  intros n a v Ha Hv. unfold key_eqb. cbn [fst snd].
  rewrite String.eqb_refl, (value_eqb_refl _ Ha), (value_eqb_refl _ Hv). reflexivity.
Qed.

(* ---- the keyed fold, per key --------------------------------------------------------------------------- *)

(* the two results hold the same sessions: as many, and each session of one has a session of the other under
   an equal key (key_eqb) that is equal to it, Concat lists compared as multisets *)
Definition sessions_same (sch_pair : schema) (a b : list (peer_key * entries)) : Prop :=
  List.length a = List.length b /\
  (forall k p, In (k, p) a -> exists k' p', In (k', p') b /\ key_eqb k k' = true /\
                                           veqb true (MMerge sch_pair) (VObj p) (VObj p') = true) /\
  (forall k p, In (k, p) b -> exists k' p', In (k', p') a /\ key_eqb k k' = true /\
                                           veqb true (MMerge sch_pair) (VObj p') (VObj p) = true).

Section KFold.
  Variable sch : schema.

  Fixpoint kfold (items : list (peer_key * entries)) (acc : list (peer_key * entries))
    : res (list (peer_key * entries)) :=
    match items with
    | [] => Ok acc
    | (k, p) :: rest =>
      match upsert sch k p acc with
      | Ok acc' => kfold rest acc'
      | Err e => Err e
      end
    end.

  (* neighbor_peers.get(q) *)
  Fixpoint find (q : peer_key) (acc : list (peer_key * entries)) : option entries :=
    match acc with
    | [] => None
    | (k, p) :: rest => if key_eqb q k then Some p else find q rest
    end.

  (* the contributions for key q, in work order *)
  Definition sel (q : peer_key) (items : list (peer_key * entries)) : list entries :=
    map snd (filter (fun kp => key_eqb q (fst kp)) items).

  Definition ostep (o : option entries) (p : entries) : res (option entries) :=
    match o with
    | None => Ok (Some p)
    | Some a => match merge sch a p with Ok r => Ok (Some r) | Err e => Err e end
    end.

  Fixpoint ofold (o : option entries) (ps : list entries) : res (option entries) :=
    match ps with
    | [] => Ok o
    | p :: r => match ostep o p with Ok o' => ofold o' r | Err e => Err e end
    end.

  Lemma sel_cons : forall q k p rest,
    sel q ((k, p) :: rest) = if key_eqb q k then p :: sel q rest else sel q rest.
  Proof. intros q k p rest. unfold sel. cbn. destruct (key_eqb q k); reflexivity. Qed.

  Lemma upsert_find_ok : forall k p acc acc',
    upsert sch k p acc = Ok acc' ->
    forall q, if key_eqb q k then ostep (find q acc) p = Ok (find q acc') else find q acc' = find q acc.
  Proof.
    intros k p. induction acc as [|[k' p'] rest IH]; intros acc' H q.
    - cbn in H. injection H as H. subst acc'. cbn [find]. destruct (key_eqb q k) eqn:Q; reflexivity.
    - cbn [upsert] in H. destruct (key_eqb k k') eqn:K.
      + destruct (merge sch p' p) as [pp|e] eqn:M; [|discriminate]. injection H as H. subst acc'. cbn [find].
        destruct (key_eqb q k) eqn:Q.
        * rewrite (key_eqb_cong _ _ k' Q), K. cbn [ostep]. rewrite M. reflexivity.
        * destruct (key_eqb q k') eqn:Q'; [|reflexivity]. exfalso.
          rewrite (key_eqb_trans _ _ _ Q' (key_eqb_sym _ _ K)) in Q. discriminate.
      + destruct (upsert sch k p rest) as [rest'|e] eqn:U; [|discriminate]. injection H as H. subst acc'. cbn [find].
        specialize (IH rest' eq_refl q). destruct (key_eqb q k) eqn:Q.
        * rewrite (key_eqb_cong _ _ k' Q), K. exact IH.
        * destruct (key_eqb q k'); [reflexivity|exact IH].
  Qed.

  Lemma upsert_err : forall k p acc e,
    upsert sch k p acc = Err e -> exists e', ostep (find k acc) p = Err e'.
  Proof.
    intros k p. induction acc as [|[k' p'] rest IH]; intros e H.
    - cbn in H. discriminate.
    - cbn [upsert] in H. cbn [find]. destruct (key_eqb k k') eqn:K.
      + destruct (merge sch p' p) as [pp|e1] eqn:M; [discriminate|]. exists e1. cbn [ostep]. rewrite M. reflexivity.
      + destruct (upsert sch k p rest) as [rest'|e1] eqn:U; [discriminate|]. apply (IH e1 eq_refl).
  Qed.

  Lemma kfold_find_ok : forall items acc r,
    kfold items acc = Ok r -> forall q, ofold (find q acc) (sel q items) = Ok (find q r).
  Proof.
    induction items as [|[k p] rest IH]; intros acc r H q.
    - cbn in H. injection H as H. subst r. reflexivity.
    - cbn [kfold] in H. destruct (upsert sch k p acc) as [acc1|e] eqn:U; [|discriminate].
      pose proof (upsert_find_ok _ _ _ _ U q) as F. rewrite sel_cons. destruct (key_eqb q k).
      + cbn [ofold]. rewrite F. apply (IH acc1 r H q).
      + rewrite <- F. apply (IH acc1 r H q).
  Qed.

  Definition krefl (l : list (peer_key * entries)) : Prop := forall k p, In (k, p) l -> key_eqb k k = true.

  Lemma kfold_find_err : forall items acc e,
    krefl items -> kfold items acc = Err e -> exists q e', ofold (find q acc) (sel q items) = Err e'.
  Proof.
    induction items as [|[k p] rest IH]; intros acc e R H.
    - cbn in H. discriminate.
    - cbn [kfold] in H. destruct (upsert sch k p acc) as [acc1|e1] eqn:U.
      + assert (R' : krefl rest) by (intros k0 p0 Hin; apply (R k0 p0); right; exact Hin).
        destruct (IH acc1 e R' H) as [q [e' Hq]]. exists q, e'.
        pose proof (upsert_find_ok _ _ _ _ U q) as F. rewrite sel_cons. destruct (key_eqb q k).
        * cbn [ofold]. rewrite F. exact Hq.
        * rewrite <- F. exact Hq.
      + destruct (upsert_err _ _ _ _ U) as [e' He']. exists k, e'. rewrite sel_cons.
        rewrite (R k p (or_introl eq_refl)). cbn [ofold]. rewrite He'. reflexivity.
  Qed.

  Lemma ofold_some : forall ps a,
    ofold (Some a) ps = match merge_all sch a ps with Ok r => Ok (Some r) | Err e => Err e end.
  Proof.
    induction ps as [|p r IH]; intros a.
    - reflexivity.
    - cbn [ofold ostep merge_all]. destruct (merge sch a p) as [ab|e]; [apply IH|reflexivity].
  Qed.

  Lemma ofold_none : forall ps,
    ofold None ps = match ps with
                    | [] => Ok None
                    | _ => match merge_list sch ps with Ok r => Ok (Some r) | Err e => Err e end
                    end.
  Proof. intros [|p r]; [reflexivity|]. cbn [ofold ostep merge_list]. apply ofold_some. Qed.

  (* same session under a key, or no session on both sides *)
  Definition osame (a b : option entries) : Prop :=
    match a, b with
    | Some x, Some y => veqb true (MMerge sch) (VObj x) (VObj y) = true
    | None, None => True
    | _, _ => False
    end.

  Definition orsame (a b : res (option entries)) : Prop :=
    match a, b with
    | Ok x, Ok y => osame x y
    | Err _, Err _ => True
    | _, _ => False
    end.

  Lemma ofold_perm : forall ps ps',
    order_free (MMerge sch) = true -> Forall (fun a => wf_obj sch a = true) ps -> Permutation ps ps' ->
    orsame (ofold None ps) (ofold None ps').
  Proof.
    intros ps ps' HF HW HP. pose proof (merge_list_perm sch ps ps' HF HW HP) as M.
    rewrite !ofold_none. destruct ps as [|a r]; destruct ps' as [|a' r'].
    - exact I.
    - apply Permutation_nil in HP. discriminate.
    - apply Permutation_sym, Permutation_nil in HP. discriminate.
    - destruct (merge_list sch (a :: r)); destruct (merge_list sch (a' :: r')); cbn in *;
        try discriminate; try exact I; exact M.
  Qed.

  Lemma sel_perm : forall q items items',
    Permutation items items' -> Permutation (sel q items) (sel q items').
  Proof.
    intros q items items' HP. unfold sel. apply Permutation_map.
    induction HP as [|x l l' HP IH|x y l|l l' l'' HP1 IH1 HP2 IH2]; cbn.
    - constructor.
    - destruct (key_eqb q (fst x)); [apply perm_skip|]; exact IH.
    - destruct (key_eqb q (fst x)); destruct (key_eqb q (fst y)); try apply Permutation_refl. apply perm_swap.
    - eapply Permutation_trans; eassumption.
  Qed.

  Lemma sel_wf : forall q items,
    Forall (fun kp => wf_obj sch (snd kp) = true) items -> Forall (fun a => wf_obj sch a = true) (sel q items).
  Proof.
    intros q items H. unfold sel. rewrite Forall_forall in *. intros a Ha.
    apply in_map_iff in Ha. destruct Ha as [kp [E Hin]]. subst a. apply filter_In in Hin. apply H. apply Hin.
  Qed.

  (* the keys of the accumulator: pairwise different, each equal to itself *)
  Fixpoint kdist (acc : list (peer_key * entries)) : Prop :=
    match acc with
    | [] => True
    | (k, _) :: rest => (forall k' p', In (k', p') rest -> key_eqb k k' = false) /\ kdist rest
    end.

  Lemma upsert_In : forall k p acc acc',
    upsert sch k p acc = Ok acc' ->
    forall k2 p2, In (k2, p2) acc' -> (exists p3, In (k2, p3) acc) \/ k2 = k.
  Proof.
    intros k p. induction acc as [|[k' p'] rest IH]; intros acc' H k2 p2 Hin.
    - cbn in H. injection H as H. subst acc'. destruct Hin as [E|[]]. injection E as E1 E2. right. symmetry. exact E1.
    - cbn [upsert] in H. destruct (key_eqb k k').
      + destruct (merge sch p' p) as [pp|e]; [|discriminate]. injection H as H. subst acc'.
        destruct Hin as [E|Hin].
        * injection E as E1 E2. subst k2. left. exists p'. left. reflexivity.
        * left. exists p2. right. exact Hin.
      + destruct (upsert sch k p rest) as [rest'|e] eqn:U; [|discriminate]. injection H as H. subst acc'.
        destruct Hin as [E|Hin].
        * injection E as E1 E2. subst k2. left. exists p'. left. reflexivity.
        * destruct (IH rest' eq_refl k2 p2 Hin) as [[p3 H3]|E]; [left; exists p3; right; exact H3|right; exact E].
  Qed.

  Lemma upsert_kdist : forall k p acc acc',
    upsert sch k p acc = Ok acc' -> kdist acc -> kdist acc'.
  Proof.
    intros k p. induction acc as [|[k' p'] rest IH]; intros acc' H D.
    - cbn in H. injection H as H. subst acc'. cbn. split; [intros ? ? []|exact I].
    - cbn [upsert] in H. destruct D as [D1 D2]. destruct (key_eqb k k') eqn:K.
      + destruct (merge sch p' p) as [pp|e]; [|discriminate]. injection H as H. subst acc'. split; assumption.
      + destruct (upsert sch k p rest) as [rest'|e] eqn:U; [|discriminate]. injection H as H. subst acc'.
        split; [|apply (IH rest' eq_refl D2)]. intros k2 p2 Hin.
        destruct (upsert_In _ _ _ _ U k2 p2 Hin) as [[p3 H3]|E].
        * apply (D1 k2 p3 H3).
        * subst k2. apply key_eqb_false_sym. exact K.
  Qed.

  Lemma upsert_krefl : forall k p acc acc',
    upsert sch k p acc = Ok acc' -> key_eqb k k = true -> krefl acc -> krefl acc'.
  Proof.
    intros k p acc acc' H Rk R k2 p2 Hin.
    destruct (upsert_In _ _ _ _ H k2 p2 Hin) as [[p3 H3]|E]; [apply (R k2 p3 H3)|subst k2; exact Rk].
  Qed.

  Lemma kfold_inv : forall items acc r,
    kfold items acc = Ok r -> krefl items -> kdist acc -> krefl acc -> kdist r /\ krefl r.
  Proof.
    induction items as [|[k p] rest IH]; intros acc r H R D Ra.
    - cbn in H. injection H as H. subst r. split; assumption.
    - cbn [kfold] in H. destruct (upsert sch k p acc) as [acc1|e] eqn:U; [|discriminate].
      apply (IH acc1 r H).
      + intros k0 p0 Hin. apply (R k0 p0). right. exact Hin.
      + apply (upsert_kdist _ _ _ _ U D).
      + apply (upsert_krefl _ _ _ _ U (R k p (or_introl eq_refl)) Ra).
  Qed.

  Lemma find_In : forall acc k p, kdist acc -> In (k, p) acc -> key_eqb k k = true -> find k acc = Some p.
  Proof.
    induction acc as [|[k1 p1] rest IH]; intros k p D Hin Rk.
    - destruct Hin.
    - destruct D as [D1 D2]. cbn [find]. destruct Hin as [E|Hin].
      + injection E as E1 E2. subst k1 p1. rewrite Rk. reflexivity.
      + rewrite (key_eqb_false_sym _ _ (D1 k p Hin)). apply (IH k p D2 Hin Rk).
  Qed.

  Lemma find_Some_In : forall acc q p, find q acc = Some p -> exists k, In (k, p) acc /\ key_eqb q k = true.
  Proof.
    induction acc as [|[k1 p1] rest IH]; intros q p H.
    - discriminate.
    - cbn [find] in H. destruct (key_eqb q k1) eqn:K.
      + injection H as H. subst p1. exists k1. split; [left; reflexivity|exact K].
      + destruct (IH q p H) as [k [Hin Hk]]. exists k. split; [right; exact Hin|exact Hk].
  Qed.

  (* pigeonhole: pairwise different keys that all have an equal key in l' *)
  Lemma kdist_le : forall (l l' : list (peer_key * entries)),
    kdist l ->
    (forall k p, In (k, p) l -> exists k' p', In (k', p') l' /\ key_eqb k k' = true) ->
    List.length l <= List.length l'.
  Proof.
    induction l as [|[k p] l1 IH]; intros l' D H.
    - cbn. lia.
    - destruct D as [D1 D2]. destruct (H k p (or_introl eq_refl)) as [k' [p' [Hin K]]].
      apply in_split in Hin. destruct Hin as [a [b E]]. subst l'.
      assert (L : List.length l1 <= List.length (a ++ b)).
      { apply IH; [exact D2|]. intros k1 p1 Hin1.
        destruct (H k1 p1 (or_intror Hin1)) as [k2 [p2 [Hin2 K2]]].
        apply in_app_or in Hin2. destruct Hin2 as [Hin2|[E|Hin2]].
        - exists k2, p2. split; [apply in_or_app; left; exact Hin2|exact K2].
        - injection E as E1 E2. subst k2 p2. exfalso.
          pose proof (key_eqb_trans _ _ _ K (key_eqb_sym _ _ K2)) as T.
          rewrite (D1 k1 p1 Hin1) in T. discriminate.
        - exists k2, p2. split; [apply in_or_app; right; exact Hin2|exact K2]. }
      rewrite app_length in *. cbn [List.length]. lia.
  Qed.

  Theorem kfold_perm : forall items items',
    order_free (MMerge sch) = true ->
    Forall (fun kp => wf_obj sch (snd kp) = true) items ->
    krefl items ->
    Permutation items items' ->
    match kfold items [], kfold items' [] with
    | Ok a, Ok b => sessions_same sch a b
    | Err _, Err _ => True
    | _, _ => False
    end.
  Proof.
    intros items items' HF HW R HP.
    assert (R' : krefl items').
    { intros k p Hin. apply (R k p). apply (Permutation_in _ (Permutation_sym HP) Hin). }
    assert (PQ : forall q, orsame (ofold None (sel q items)) (ofold None (sel q items'))).
    { intros q. apply ofold_perm; [exact HF|apply sel_wf; exact HW|apply sel_perm; exact HP]. }
    destruct (kfold items []) as [r|e] eqn:E; destruct (kfold items' []) as [r'|e'] eqn:E'.
    - assert (F : forall q, osame (find q r) (find q r')).
      { intros q. pose proof (PQ q) as P.
        rewrite (kfold_find_ok _ _ _ E q : ofold None _ = _) in P.
        rewrite (kfold_find_ok _ _ _ E' q : ofold None _ = _) in P. exact P. }
      destruct (kfold_inv _ _ _ E R I (fun k p (H : In (k, p) []) => match H with end)) as [D Rr].
      destruct (kfold_inv _ _ _ E' R' I (fun k p (H : In (k, p) []) => match H with end)) as [D' Rr'].
      assert (A : forall k p, In (k, p) r -> exists k' p', In (k', p') r' /\ key_eqb k k' = true /\
                    veqb true (MMerge sch) (VObj p) (VObj p') = true).
      { intros k p Hin. pose proof (F k) as Fk. rewrite (find_In _ _ _ D Hin (Rr k p Hin)) in Fk.
        destruct (find k r') as [p'|] eqn:E2; cbn in Fk; [|contradiction].
        destruct (find_Some_In _ _ _ E2) as [k' [Hin' K]]. exists k', p'. repeat split; assumption. }
      assert (B : forall k p, In (k, p) r' -> exists k' p', In (k', p') r /\ key_eqb k k' = true /\
                    veqb true (MMerge sch) (VObj p') (VObj p) = true).
      { intros k p Hin. pose proof (F k) as Fk. rewrite (find_In _ _ _ D' Hin (Rr' k p Hin)) in Fk.
        destruct (find k r) as [p'|] eqn:E2; cbn in Fk; [|contradiction].
        destruct (find_Some_In _ _ _ E2) as [k' [Hin' K]]. exists k', p'. repeat split; assumption. }
      split; [|split; assumption].
      apply Nat.le_antisymm; apply kdist_le; try assumption.
      + intros k p Hin. destruct (A k p Hin) as [k' [p' [H1 [H2 _]]]]. exists k', p'. split; assumption.
      + intros k p Hin. destruct (B k p Hin) as [k' [p' [H1 [H2 _]]]]. exists k', p'. split; assumption.
    - destruct (kfold_find_err _ _ _ R' E') as [q [e2 Hq]]. pose proof (PQ q) as P.
      rewrite (kfold_find_ok _ _ _ E q : ofold None _ = _) in P. cbn [find] in Hq. rewrite Hq in P. exact P.
    - destruct (kfold_find_err _ _ _ R E) as [q [e2 Hq]]. pose proof (PQ q) as P.
      rewrite (kfold_find_ok _ _ _ E' q : ofold None _ = _) in P. cbn [find] in Hq. rewrite Hq in P. exact P.
    - exact I.
  Qed.
End KFold.

(* ---- a keyed loop = collect the contributions, then kfold ----------------------------------------------- *)

Lemma xerr_one : forall e : xerr, e = EValue.
Proof. intros []. reflexivity. Qed.

Section GFold.
  Variable W : Type.
  (* what one work item does: raise, contribute nothing, or contribute a pair under a key *)
  Variable item : W -> xerr + option (peer_key * entries).
  Variable sch : schema.

  Fixpoint gfold (work : list W) (acc : list (peer_key * entries)) : xerr + list (peer_key * entries) :=
    match work with
    | [] => inr acc
    | w :: rest =>
      match item w with
      | inl e => inl e
      | inr None => gfold rest acc
      | inr (Some (k, p)) =>
        match upsert sch k p acc with
        | Ok acc' => gfold rest acc'
        | Err _ => inl EValue
        end
      end
    end.

  Fixpoint collect (work : list W) : xerr + list (peer_key * entries) :=
    match work with
    | [] => inr []
    | w :: rest =>
      match item w with
      | inl e => inl e
      | inr None => collect rest
      | inr (Some kp) => match collect rest with inl e => inl e | inr its => inr (kp :: its) end
      end
    end.

  (* the loop raises iff some item raises on its own or the keyed fold of the contributions fails *)
  Lemma gfold_collect : forall work acc,
    gfold work acc = match collect work with
                     | inl _ => inl EValue
                     | inr its => match kfold sch its acc with Ok r => inr r | Err _ => inl EValue end
                     end.
  Proof.
    induction work as [|w rest IH]; intros acc.
    - reflexivity.
    - cbn [gfold collect]. destruct (item w) as [e|[[k p]|]].
      + rewrite (xerr_one e). reflexivity.
      + destruct (upsert sch k p acc) as [acc1|e] eqn:U.
        * rewrite IH. destruct (collect rest) as [e|its]; [reflexivity|]. cbn [kfold]. rewrite U. reflexivity.
        * destruct (collect rest) as [e1|its]; [reflexivity|]. cbn [kfold]. rewrite U. reflexivity.
      + apply IH.
  Qed.

  Definition crel (a b : xerr + list (peer_key * entries)) : Prop :=
    match a, b with
    | inl _, inl _ => True
    | inr x, inr y => Permutation x y
    | _, _ => False
    end.

  Lemma collect_perm : forall work work', Permutation work work' -> crel (collect work) (collect work').
  Proof.
    intros work work' HP. induction HP as [|x l l' HP IH|x y l|l l' l'' HP1 IH1 HP2 IH2].
    - cbn. constructor.
    - cbn [collect]. destruct (item x) as [e|[kp|]]; [exact I| |exact IH].
      destruct (collect l); destruct (collect l'); cbn in *; try contradiction; try exact I.
      apply perm_skip. exact IH.
    - cbn [collect]. destruct (item x) as [e|[kp|]]; destruct (item y) as [e'|[kp'|]];
        destruct (collect l); cbn; try exact I; try apply Permutation_refl. apply perm_swap.
    - destruct (collect l); destruct (collect l'); destruct (collect l''); cbn in *; try contradiction; try exact I.
      eapply Permutation_trans; eassumption.
  Qed.

  Lemma collect_In : forall work its,
    collect work = inr its -> forall kp, In kp its -> exists w, In w work /\ item w = inr (Some kp).
  Proof.
    induction work as [|w rest IH]; intros its H kp Hin.
    - cbn in H. injection H as H. subst its. destruct Hin.
    - cbn [collect] in H. destruct (item w) as [e|[kp0|]] eqn:Ew; [discriminate| |].
      + destruct (collect rest) as [e|its0] eqn:C; [discriminate|]. injection H as H. subst its.
        destruct Hin as [E|Hin].
        * subst kp0. exists w. split; [left; reflexivity|exact Ew].
        * destruct (IH its0 eq_refl kp Hin) as [w' [H1 H2]]. exists w'. split; [right; exact H1|exact H2].
      + destruct (IH its H kp Hin) as [w' [H1 H2]]. exists w'. split; [right; exact H1|exact H2].
  Qed.

  (* permutation invariance of a keyed loop whose contributions are well-formed pairs under reflexive keys *)
  Theorem gfold_perm : forall work work',
    order_free (MMerge sch) = true ->
    (forall w k p, In w work -> item w = inr (Some (k, p)) -> wf_obj sch p = true /\ key_eqb k k = true) ->
    Permutation work work' ->
    match gfold work [], gfold work' [] with
    | inl _, inl _ => True
    | inr a, inr b => sessions_same sch a b
    | _, _ => False
    end.
  Proof.
    intros work work' HF HI HP. rewrite !gfold_collect. pose proof (collect_perm _ _ HP) as C.
    destruct (collect work) as [e|its] eqn:E; destruct (collect work') as [e'|its'] eqn:E'; cbn in C;
      try contradiction; try exact I.
    assert (HW : Forall (fun kp => wf_obj sch (snd kp) = true) its).
    { apply Forall_forall. intros [k p] Hin. destruct (collect_In _ _ E _ Hin) as [w [H1 H2]].
      apply (HI w k p H1 H2). }
    assert (R : krefl its).
    { intros k p Hin. destruct (collect_In _ _ E _ Hin) as [w [H1 H2]]. apply (HI w k p H1 H2). }
    pose proof (kfold_perm sch its its' HF HW R C) as K.
    destruct (kfold sch its []); destruct (kfold sch its' []); try contradiction; try exact I. exact K.
  Qed.
End GFold.

(* ---- the contributions of the real loops are well-formed pairs under reflexive keys ---------------------- *)

(* a merger of a single value (str, int, list, set), not of a nested model or dict *)
Definition scalar (m : merger) : bool :=
  match m with MMerge _ | MDictMerge _ => false | _ => true end.

Lemma wf_scalar_plain : forall m v, scalar m = true -> wf_val m v = true -> plain v = true.
Proof. intros m v S H. destruct m; cbn in S; try discriminate; destruct v; cbn in *; try discriminate; reflexivity. Qed.

(* every handler call sets, on the two peer objects and on the session, attributes of the DTO class only,
   each once, with values of the declared shape *)
Definition handler_wf (dto : schema)
           (handler : nat -> string -> string -> list string -> entries * entries * entries) : Prop :=
  forall id l r ps,
    wf_obj dto (fst (fst (handler id l r ps))) = true /\
    wf_obj dto (snd (fst (handler id l r ps))) = true /\
    wf_obj dto (snd (handler id l r ps)) = true.

Lemma wf_obj_val : forall sch a, wf_obj sch a = true -> wf_val (MMerge sch) (VObj a) = true.
Proof. intros sch a H. unfold wf_obj in H. apply andb_true_iff in H. apply H. Qed.

Lemma wf_obj_nil : forall sch a, wf_obj sch a = true -> wf_obj sch [] = true.
Proof. intros sch a H. unfold wf_obj in *. apply andb_true_iff in H. destruct H as [N _]. rewrite N. reflexivity. Qed.

Lemma merge_wf : forall sch a b r,
  wf_obj sch a = true -> wf_obj sch b = true -> merge sch a b = Ok r -> wf_obj sch r = true.
Proof.
  intros sch a b r Ha Hb H. pose proof (wf_obj_val _ _ Ha) as Va. pose proof (wf_obj_val _ _ Hb) as Vb.
  unfold wf_obj in Ha. apply andb_true_iff in Ha. destruct Ha as [N _].
  unfold merge in H. destruct (merge_val (MMerge sch) (VObj a) (VObj b)) as [v|e] eqn:E; [|discriminate].
  pose proof (merge_val_wf _ _ _ _ Va Vb E) as Wv. destruct v; cbn in H; try discriminate.
  injection H as H. subst. unfold wf_obj. rewrite N. exact Wv.
Qed.

Lemma merge_all_wf : forall sch others first r,
  wf_obj sch first = true -> Forall (fun a => wf_obj sch a = true) others ->
  merge_all sch first others = Ok r -> wf_obj sch r = true.
Proof.
  intros sch. induction others as [|b rest IH]; intros first r Hf Ho H.
  - cbn in H. injection H as H. subst. exact Hf.
  - cbn [merge_all] in H. inversion Ho as [|? ? Hb Hrest]. subst.
    destruct (merge sch first b) as [ab|e] eqn:M; [|discriminate].
    apply (IH ab r (merge_wf _ _ _ _ Hf Hb M) Hrest H).
Qed.

Lemma edp_wf : forall handler dto device nb m ports loc con,
  handler_wf dto handler ->
  execute_direct_pair handler dto device nb m ports = Some (Ok (loc, con)) ->
  wf_obj dto loc = true /\ wf_obj dto con = true.
Proof.
  intros handler dto device nb m ports loc con HW H. unfold execute_direct_pair in H.
  pose proof (HW (r_id (m_rule m)) device nb (map fst ports)) as Wd.
  pose proof (HW (r_id (m_rule m)) nb device (map snd ports)) as Wr.
  destruct (m_direct m).
  - destruct (handler (r_id (m_rule m)) device nb (map fst ports)) as [[l r] s]. cbn [fst snd] in Wd.
    destruct Wd as [W1 [W2 W3]]. cbv beta iota zeta in H.
    destruct (is_empty r && is_empty l && is_empty s); [discriminate|].
    destruct (merge_all dto [] [r; s]) as [nd|e] eqn:E1; [|discriminate].
    destruct (merge_all dto [] [l; s]) as [dd|e] eqn:E2; [|discriminate].
    injection H as H1 H2. subst. split.
    + apply (merge_all_wf _ _ _ _ (wf_obj_nil _ _ W1) (Forall_cons _ W1 (Forall_cons _ W3 (Forall_nil _))) E2).
    + apply (merge_all_wf _ _ _ _ (wf_obj_nil _ _ W1) (Forall_cons _ W2 (Forall_cons _ W3 (Forall_nil _))) E1).
  - destruct (handler (r_id (m_rule m)) nb device (map snd ports)) as [[l r] s]. cbn [fst snd] in Wr.
    destruct Wr as [W1 [W2 W3]]. cbv beta iota zeta in H.
    destruct (is_empty l && is_empty r && is_empty s); [discriminate|].
    destruct (merge_all dto [] [l; s]) as [nd|e] eqn:E1; [|discriminate].
    destruct (merge_all dto [] [r; s]) as [dd|e] eqn:E2; [|discriminate].
    injection H as H1 H2. subst. split.
    + apply (merge_all_wf _ _ _ _ (wf_obj_nil _ _ W1) (Forall_cons _ W2 (Forall_cons _ W3 (Forall_nil _))) E2).
    + apply (merge_all_wf _ _ _ _ (wf_obj_nil _ _ W1) (Forall_cons _ W1 (Forall_cons _ W3 (Forall_nil _))) E1).
Qed.

(* PeerKey(fqdn, addr, vrf) built from a well-formed peer DTO whose addr and vrf are single values *)
Lemma dto_key_refl : forall dto (nb : string) con addr,
  wf_obj dto con = true ->
  (forall m, lookup "addr" dto = Some m -> scalar m = true) ->
  (forall m, lookup "vrf" dto = Some m -> scalar m = true) ->
  lookup "addr" con = Some addr ->
  key_eqb (nb, addr, match lookup "vrf" con with Some v => v | None => VAtom (AStr "") end)
          (nb, addr, match lookup "vrf" con with Some v => v | None => VAtom (AStr "") end) = true.
Proof.
  intros dto nb con addr Wc Sa Sv Ea. destruct (wf_obj_wfe _ _ Wc) as [_ W].
  apply key_eqb_refl_plain.
  - destruct (wf_entries_lookup _ _ _ _ _ W Ea) as [m [Hm Hv]]. apply (wf_scalar_plain m); [apply Sa; exact Hm|exact Hv].
  - destruct (lookup "vrf" con) as [v|] eqn:Ev; [|reflexivity].
    destruct (wf_entries_lookup _ _ _ _ _ W Ev) as [m [Hm Hv]]. apply (wf_scalar_plain m); [apply Sv; exact Hm|exact Hv].
Qed.

Lemma mk_pair_wf : forall sch_pair dto loc con ports,
  nodupb (keys sch_pair) = true ->
  lookup "local" sch_pair = Some (MMerge dto) -> lookup "connected" sch_pair = Some (MMerge dto) ->
  lookup "ports" sch_pair = Some MForbidChange ->
  wf_obj dto loc = true -> wf_obj dto con = true ->
  wf_obj sch_pair (mk_pair loc con ports) = true.
Proof.
  intros sch_pair dto loc con ports N Hl Hc Hp Wl Wc. unfold wf_obj. rewrite N. cbn [andb].
  change (nodupb (keys (mk_pair loc con ports)) &&
          wf_entries wf_val (fun f => lookup f sch_pair) (mk_pair loc con ports) = true).
  unfold mk_pair. cbn [wf_entries]. rewrite Hl, Hc, Hp, (wf_obj_val _ _ Wl), (wf_obj_val _ _ Wc). reflexivity.
Qed.

Lemma mk_pair_ind_wf : forall sch_pair dto loc con,
  nodupb (keys sch_pair) = true ->
  lookup "local" sch_pair = Some (MMerge dto) -> lookup "connected" sch_pair = Some (MMerge dto) ->
  wf_obj dto loc = true -> wf_obj dto con = true ->
  wf_obj sch_pair (mk_pair_ind loc con) = true.
Proof.
  intros sch_pair dto loc con N Hl Hc Wl Wc. unfold wf_obj. rewrite N. cbn [andb].
  change (nodupb (keys (mk_pair_ind loc con)) &&
          wf_entries wf_val (fun f => lookup f sch_pair) (mk_pair_ind loc con) = true).
  unfold mk_pair_ind. cbn [wf_entries]. rewrite Hl, Hc, (wf_obj_val _ _ Wl), (wf_obj_val _ _ Wc). reflexivity.
Qed.

(* ---- _execute_direct and _execute_indirect as keyed loops ------------------------------------------------ *)

Definition vrf_of (con : entries) : value :=
  match lookup "vrf" con with Some v => v | None => VAtom (AStr "") end.

Definition item_direct (handler : nat -> string -> string -> list string -> entries * entries * entries)
           (dto : schema) (device : string) (w : matched * list (string * string))
  : xerr + option (peer_key * entries) :=
  match execute_direct_pair handler dto device (other_end (fst w)) (fst w) (snd w) with
  | None => inr None
  | Some (Err _) => inl EValue
  | Some (Ok (loc, con)) =>
    match lookup "addr" con with
    | None => inl EValue
    | Some addr => inr (Some ((other_end (fst w), addr, vrf_of con), mk_pair loc con (map fst (snd w))))
    end
  end.

Definition item_indirect (handler : nat -> string -> string -> list string -> entries * entries * entries)
           (dto : schema) (device : string) (m : matched) : xerr + option (peer_key * entries) :=
  match execute_direct_pair handler dto device (other_end m) m [] with
  | None => inr None
  | Some (Err _) => inl EValue
  | Some (Ok (loc, con)) =>
    match lookup "addr" con with
    | None => inl EValue
    | Some addr => inr (Some ((other_end m, addr, vrf_of con), mk_pair_ind loc con))
    end
  end.

Lemma fold_steps_gfold : forall handler dto sch device work acc,
  fold_steps handler dto sch device work acc = gfold _ (item_direct handler dto device) sch work acc.
Proof.
  intros handler dto sch device. induction work as [|[m ports] rest IH]; intros acc.
  - reflexivity.
  - cbn [fold_steps gfold]. unfold step_direct, item_direct, vrf_of, other_end. cbn [fst snd].
    destruct (execute_direct_pair handler dto device (if m_direct m then m_right m else m_left m) m ports)
      as [[[loc con]|e]|].
    + destruct (lookup "addr" con) as [addr|]; [|reflexivity].
      destruct (upsert sch _ _ acc) as [acc1|e]; [apply IH|reflexivity].
    + reflexivity.
    + apply IH.
Qed.

Lemma fold_indirect_gfold : forall handler dto sch device ms acc,
  fold_indirect handler dto sch device ms acc = gfold _ (item_indirect handler dto device) sch ms acc.
Proof.
  intros handler dto sch device. induction ms as [|m rest IH]; intros acc.
  - reflexivity.
  - cbn [fold_indirect gfold]. unfold step_indirect, item_indirect, vrf_of, other_end.
    destruct (execute_direct_pair handler dto device (if m_direct m then m_right m else m_left m) m [])
      as [[[loc con]|e]|].
    + destruct (lookup "addr" con) as [addr|]; [|reflexivity].
      destruct (upsert sch _ _ acc) as [acc1|e]; [apply IH|reflexivity].
    + reflexivity.
    + apply IH.
Qed.

(* declarative reading of the two loops (the characterisation the permutation theorems rest on): the loop
   raises iff a work item raises on its own or, for some key, the left fold of merge over the pairs
   contributed under that key fails; otherwise the session found under q is that left fold *)
Theorem execute_indirect_by_key : forall imatches ihandler dto sch_pair rules device all,
  execute_indirect imatches ihandler dto sch_pair rules device all =
  match collect _ (item_indirect ihandler dto device) (lookup_direct imatches rules device all) with
  | inl _ => inl EValue
  | inr its => match kfold sch_pair its [] with Ok r => inr r | Err _ => inl EValue end
  end.
Proof.
  intros. unfold execute_indirect. rewrite fold_indirect_gfold. apply gfold_collect.
Qed.

Theorem execute_direct_by_key : forall matches handler connections dto sch_pair rules device nbs,
  execute_direct matches handler connections dto sch_pair rules device nbs =
  match collect _ (item_direct handler dto device)
                (direct_work connections device (lookup_direct matches rules device nbs)) with
  | inl _ => inl EValue
  | inr its => match kfold sch_pair its [] with Ok r => inr r | Err _ => inl EValue end
  end.
Proof.
  intros. unfold execute_direct. fold (direct_work connections device (lookup_direct matches rules device nbs)).
  rewrite fold_steps_gfold. apply gfold_collect.
Qed.

(* ---- the theorems ---------------------------------------------------------------------------------------- *)

Theorem execute_indirect_perm :
  forall imatches ihandler dto sch_pair rules rules' device all,
    order_free (MMerge sch_pair) = true ->
    nodupb (keys sch_pair) = true ->
    lookup "local" sch_pair = Some (MMerge dto) ->
    lookup "connected" sch_pair = Some (MMerge dto) ->
    handler_wf dto ihandler ->
    (forall m, lookup "addr" dto = Some m -> scalar m = true) ->
    (forall m, lookup "vrf" dto = Some m -> scalar m = true) ->
    Permutation rules rules' ->
    match execute_indirect imatches ihandler dto sch_pair rules device all,
          execute_indirect imatches ihandler dto sch_pair rules' device all with
    | inl _, inl _ => True
    | inr a, inr b => sessions_same sch_pair a b
    | _, _ => False
    end.
Proof.
  intros imatches ihandler dto sch_pair rules rules' device all HF N Hl Hc HW Sa Sv HP.
  unfold execute_indirect. rewrite !fold_indirect_gfold. apply gfold_perm.
  - exact HF.
  - intros m k p _ Hi. unfold item_indirect in Hi.
    destruct (execute_direct_pair ihandler dto device (other_end m) m []) as [[[loc con]|e]|] eqn:E;
      try discriminate.
    destruct (lookup "addr" con) as [addr|] eqn:Ea; [|discriminate].
    injection Hi as Hk Hp. subst k p. destruct (edp_wf _ _ _ _ _ _ _ _ HW E) as [Wl Wc]. split.
    + apply (mk_pair_ind_wf sch_pair dto); assumption.
    + apply (dto_key_refl dto); assumption.
  - apply lookup_direct_perm. exact HP.
Qed.

Theorem execute_direct_perm :
  forall matches handler connections dto sch_pair rules rules' device nbs,
    order_free (MMerge sch_pair) = true ->
    nodupb (keys sch_pair) = true ->
    lookup "local" sch_pair = Some (MMerge dto) ->
    lookup "connected" sch_pair = Some (MMerge dto) ->
    lookup "ports" sch_pair = Some MForbidChange ->
    handler_wf dto handler ->
    (forall m, lookup "addr" dto = Some m -> scalar m = true) ->
    (forall m, lookup "vrf" dto = Some m -> scalar m = true) ->
    Permutation rules rules' ->
    match execute_direct matches handler connections dto sch_pair rules device nbs,
          execute_direct matches handler connections dto sch_pair rules' device nbs with
    | inl _, inl _ => True
    | inr a, inr b => sessions_same sch_pair a b
    | _, _ => False
    end.
Proof.
  intros matches handler connections dto sch_pair rules rules' device nbs HF N Hl Hc Hp HW Sa Sv HP.
  unfold execute_direct.
  fold (direct_work connections device (lookup_direct matches rules device nbs)).
  fold (direct_work connections device (lookup_direct matches rules' device nbs)).
  rewrite !fold_steps_gfold. apply gfold_perm.
  - exact HF.
  - intros [m ports] k p _ Hi. unfold item_direct in Hi. cbn [fst snd] in Hi.
    destruct (execute_direct_pair handler dto device (other_end m) m ports) as [[[loc con]|e]|] eqn:E;
      try discriminate.
    destruct (lookup "addr" con) as [addr|] eqn:Ea; [|discriminate].
    injection Hi as Hk Hpp. subst k p. destruct (edp_wf _ _ _ _ _ _ _ _ HW E) as [Wl Wc]. split.
    + apply (mk_pair_wf sch_pair dto); assumption.
    + apply (dto_key_refl dto); assumption.
  - apply direct_work_rules_perm. exact HP.
Qed.

(* ---- _execute_virtual: nothing is merged; the pairs are permuted ------------------------------------------ *)

Section Virtual.
  Variable vhandler : nat -> string -> Z -> entries * entries * entries.
  Variable sch_vlocal sch_vpeer : schema.

  Definition vrel (a b : fail + list (entries * entries)) : Prop :=
    match a, b with
    | inl e, inl e' => e = e'
    | inr x, inr y => Permutation x y
    | _, _ => False
    end.

  Lemma virtual_pair_fail : forall device r n e,
    virtual_pair vhandler sch_vlocal sch_vpeer device r n = Some (inl e) -> e = FValue.
  Proof.
    intros device r n e H. unfold virtual_pair in H. destruct (vhandler (v_id r) device n) as [[l v] s].
    destruct (is_empty v && is_empty l && is_empty s); [discriminate|].
    destruct (merge_all sch_vpeer [] [v; s]); [|injection H as H; symmetry; exact H].
    destruct (merge_all sch_vlocal [] [l; s]) as [dd|]; [|injection H as H; symmetry; exact H].
    destruct (mem "svi" dd); [discriminate|]. injection H as H. symmetry. exact H.
  Qed.

  Lemma fold_virtual_fail : forall device work e,
    fold_virtual vhandler sch_vlocal sch_vpeer device work = inl e -> e = FValue.
  Proof.
    intros device. induction work as [|[r n] rest IH]; intros e H.
    - discriminate.
    - cbn [fold_virtual] in H.
      destruct (virtual_pair vhandler sch_vlocal sch_vpeer device r n) as [[e1|p]|] eqn:V.
      + injection H as H. subst e1. apply (virtual_pair_fail _ _ _ _ V).
      + destruct (fold_virtual vhandler sch_vlocal sch_vpeer device rest) as [e1|ps]; [|discriminate].
        injection H as H. subst e1. apply (IH e eq_refl).
      + apply (IH e H).
  Qed.

  Lemma fold_virtual_perm : forall device work work',
    Permutation work work' ->
    vrel (fold_virtual vhandler sch_vlocal sch_vpeer device work)
         (fold_virtual vhandler sch_vlocal sch_vpeer device work').
  Proof.
    intros device work work' HP.
    assert (G : forall a b,
      match fold_virtual vhandler sch_vlocal sch_vpeer device a,
            fold_virtual vhandler sch_vlocal sch_vpeer device b with
      | inl _, inl _ => True | inr x, inr y => Permutation x y | _, _ => False end ->
      vrel (fold_virtual vhandler sch_vlocal sch_vpeer device a)
           (fold_virtual vhandler sch_vlocal sch_vpeer device b)).
    { intros a b H.
      destruct (fold_virtual vhandler sch_vlocal sch_vpeer device a) as [e|x] eqn:Ea;
        destruct (fold_virtual vhandler sch_vlocal sch_vpeer device b) as [e'|y] eqn:Eb; cbn; try exact H.
      rewrite (fold_virtual_fail _ _ _ Ea), (fold_virtual_fail _ _ _ Eb). reflexivity. }
    apply G. clear G.
    induction HP as [|[r n] l l' HP IH|[r n] [r' n'] l|l l' l'' HP1 IH1 HP2 IH2].
    - cbn. constructor.
    - cbn [fold_virtual]. destruct (virtual_pair vhandler sch_vlocal sch_vpeer device r n) as [[e|p]|];
        [exact I| |exact IH].
      destruct (fold_virtual vhandler sch_vlocal sch_vpeer device l);
        destruct (fold_virtual vhandler sch_vlocal sch_vpeer device l'); try contradiction; try exact I.
      apply perm_skip. exact IH.
    - cbn [fold_virtual]. destruct (virtual_pair vhandler sch_vlocal sch_vpeer device r n) as [[e|p]|];
        destruct (virtual_pair vhandler sch_vlocal sch_vpeer device r' n') as [[e'|p']|];
        destruct (fold_virtual vhandler sch_vlocal sch_vpeer device l); try exact I; try apply Permutation_refl.
      apply perm_swap.
    - destruct (fold_virtual vhandler sch_vlocal sch_vpeer device l);
        destruct (fold_virtual vhandler sch_vlocal sch_vpeer device l');
        destruct (fold_virtual vhandler sch_vlocal sch_vpeer device l''); try contradiction; try exact I.
      eapply Permutation_trans; eassumption.
  Qed.
End Virtual.

Theorem execute_virtual_perm :
  forall vmatches vhandler sch_vlocal sch_vpeer vrules vrules' device,
    Permutation vrules vrules' ->
    match execute_virtual vmatches vhandler sch_vlocal sch_vpeer vrules device,
          execute_virtual vmatches vhandler sch_vlocal sch_vpeer vrules' device with
    | inl e, inl e' => e = e'
    | inr a, inr b => Permutation a b
    | _, _ => False
    end.
Proof.
  intros vmatches vhandler sch_vlocal sch_vpeer vrules vrules' device HP. unfold execute_virtual.
  apply (fold_virtual_perm vhandler sch_vlocal sch_vpeer device _ _ (virtual_work_perm vmatches _ _ device HP)).
Qed.

(* ---- non-vacuity: concrete rules in both orders ------------------------------------------------------------ *)

Definition mo_dto : schema :=
  [("addr", MForbidChange); ("asnum", MForbidChange); ("families", MUnite); ("communities", MConcat);
   ("rr_client", MForbidChange); ("multipath", MForbidChange); ("ifname", MForbidChange)].
Definition mo_psch : schema := [("local", MMerge mo_dto); ("connected", MMerge mo_dto); ("ports", MForbidChange)].
Definition mo_matches (_ : nat) (l r : string) : bool :=
  String.eqb l "a1" && (String.eqb r "b1" || String.eqb r "c1").
(* rule 0 and rule 1 both configure the session a1-b1: each adds a family and a community *)
Definition mo_handler (id : nat) (l r : string) (_ : list string) : entries * entries * entries :=
  if String.eqb r "b1" then
    ([("addr", VAtom (AStr "172.16.0.1/32")); ("asnum", VAtom (AInt 65001)); ("rr_client", VAtom (ABool true))],
     [("addr", VAtom (AStr "172.16.0.2/32")); ("asnum", VAtom (AInt 65002))],
     (if Nat.eqb id 1
      then [("multipath", VAtom (ABool true)); ("families", VSet [AStr "ipv6_unicast"]); ("communities", VList [AStr "c1"])]
      else [("families", VSet [AStr "ipv4_unicast"]); ("communities", VList [AStr "c0"])]))
  else
    ([("addr", VAtom (AStr "172.16.1.1/32")); ("asnum", VAtom (AInt 65001))],
     [("addr", VAtom (AStr "172.16.1.2/32")); ("asnum", VAtom (AInt 65003))],
     [("families", VSet [AStr "ipv6_unicast"])]).
Definition mo_rules : list rule := [Rule 0 United; Rule 1 United].
Definition mo_rules' : list rule := [Rule 1 United; Rule 0 United].
Definition mo_all : list string := ["a1"; "b1"; "c1"].
Definition mo_conn (a b : string) : list (string * string) :=
  if String.eqb a "a1" && String.eqb b "b1" then [("e1", "x1")]
  else if String.eqb a "a1" && String.eqb b "c1" then [("e2", "x2")] else [].

Lemma mo_handler_wf : handler_wf mo_dto mo_handler.
Proof.
  intros id l r ps. unfold mo_handler. destruct (String.eqb r "b1"); [destruct (Nat.eqb id 1)|];
    vm_compute; repeat split.
Qed.

Lemma mo_scalar_addr : forall m, lookup "addr" mo_dto = Some m -> scalar m = true.
Proof. intros m H. vm_compute in H. injection H as H. subst. reflexivity. Qed.

Lemma mo_scalar_vrf : forall m, lookup "vrf" mo_dto = Some m -> scalar m = true.
Proof. intros m H. vm_compute in H. discriminate. Qed.

Definition mo_families (side : string) (kp : peer_key * entries) : option value :=
  lookup "families" (obj_of side (snd kp)).
Definition mo_communities (side : string) (kp : peer_key * entries) : option value :=
  lookup "communities" (obj_of side (snd kp)).

(* all guards of execute_indirect_perm hold; both orders succeed, the session with b1 is merged from both
   rules, and the two results differ (order of the Concat list and of the set): "modulo" matters *)
Example execute_indirect_perm_example :
  order_free (MMerge mo_psch) = true /\ nodupb (keys mo_psch) = true /\
  lookup "local" mo_psch = Some (MMerge mo_dto) /\ lookup "connected" mo_psch = Some (MMerge mo_dto) /\
  handler_wf mo_dto mo_handler /\
  (forall m, lookup "addr" mo_dto = Some m -> scalar m = true) /\
  (forall m, lookup "vrf" mo_dto = Some m -> scalar m = true) /\
  Permutation mo_rules mo_rules' /\
  (exists a b,
     execute_indirect mo_matches mo_handler mo_dto mo_psch mo_rules "a1" mo_all = inr a /\
     execute_indirect mo_matches mo_handler mo_dto mo_psch mo_rules' "a1" mo_all = inr b /\
     map fst a = [("b1", VAtom (AStr "172.16.0.2/32"), VAtom (AStr "")); ("c1", VAtom (AStr "172.16.1.2/32"), VAtom (AStr ""))] /\
     map (mo_communities "local") a = [Some (VList [AStr "c0"; AStr "c1"]); None] /\
     map (mo_communities "local") b = [Some (VList [AStr "c1"; AStr "c0"]); None] /\
     map (mo_families "connected") a = [Some (VSet [AStr "ipv4_unicast"; AStr "ipv6_unicast"]); Some (VSet [AStr "ipv6_unicast"])] /\
     map (mo_families "connected") b = [Some (VSet [AStr "ipv6_unicast"; AStr "ipv4_unicast"]); Some (VSet [AStr "ipv6_unicast"])] /\
     a <> b /\ sessions_same mo_psch a b).
Proof.
  split; [reflexivity|]. split; [reflexivity|]. split; [reflexivity|]. split; [reflexivity|].
  split; [exact mo_handler_wf|]. split; [exact mo_scalar_addr|]. split; [exact mo_scalar_vrf|].
  split; [apply perm_swap|].
  pose proof (execute_indirect_perm mo_matches mo_handler mo_dto mo_psch mo_rules mo_rules' "a1" mo_all
                eq_refl eq_refl eq_refl eq_refl mo_handler_wf mo_scalar_addr mo_scalar_vrf (perm_swap _ _ _)) as T.
  destruct (execute_indirect mo_matches mo_handler mo_dto mo_psch mo_rules "a1" mo_all) as [e|a] eqn:Ea;
    [vm_compute in Ea; discriminate|].
  destruct (execute_indirect mo_matches mo_handler mo_dto mo_psch mo_rules' "a1" mo_all) as [e|b] eqn:Eb;
    [vm_compute in Eb; discriminate|].
  exists a, b. split; [reflexivity|]. split; [reflexivity|].
  vm_compute in Ea. vm_compute in Eb. injection Ea as Ea. injection Eb as Eb.
  split; [rewrite <- Ea; reflexivity|]. split; [rewrite <- Ea; reflexivity|]. split; [rewrite <- Eb; reflexivity|].
  split; [rewrite <- Ea; reflexivity|]. split; [rewrite <- Eb; reflexivity|].
  split; [|exact T]. rewrite <- Ea, <- Eb. discriminate.
Qed.

(* the same for _execute_direct: a1 is cabled to b1 (e1) and c1 (e2) *)
Example execute_direct_perm_example :
  order_free (MMerge mo_psch) = true /\ nodupb (keys mo_psch) = true /\
  lookup "local" mo_psch = Some (MMerge mo_dto) /\ lookup "connected" mo_psch = Some (MMerge mo_dto) /\
  lookup "ports" mo_psch = Some MForbidChange /\
  handler_wf mo_dto mo_handler /\
  (forall m, lookup "addr" mo_dto = Some m -> scalar m = true) /\
  (forall m, lookup "vrf" mo_dto = Some m -> scalar m = true) /\
  Permutation mo_rules mo_rules' /\
  (exists a b,
     execute_direct mo_matches mo_handler mo_conn mo_dto mo_psch mo_rules "a1" ["b1"; "c1"] = inr a /\
     execute_direct mo_matches mo_handler mo_conn mo_dto mo_psch mo_rules' "a1" ["b1"; "c1"] = inr b /\
     map fst a = [("b1", VAtom (AStr "172.16.0.2/32"), VAtom (AStr "")); ("c1", VAtom (AStr "172.16.1.2/32"), VAtom (AStr ""))] /\
     map (fun kp => strs_of "ports" (snd kp)) a = [["e1"]; ["e2"]] /\
     map (mo_communities "local") a = [Some (VList [AStr "c0"; AStr "c1"]); None] /\
     map (mo_communities "local") b = [Some (VList [AStr "c1"; AStr "c0"]); None] /\
     a <> b /\ sessions_same mo_psch a b).
Proof.
  split; [reflexivity|]. split; [reflexivity|]. split; [reflexivity|]. split; [reflexivity|]. split; [reflexivity|].
  split; [exact mo_handler_wf|]. split; [exact mo_scalar_addr|]. split; [exact mo_scalar_vrf|].
  split; [apply perm_swap|].
  pose proof (execute_direct_perm mo_matches mo_handler mo_conn mo_dto mo_psch mo_rules mo_rules' "a1" ["b1"; "c1"]
                eq_refl eq_refl eq_refl eq_refl eq_refl mo_handler_wf mo_scalar_addr mo_scalar_vrf (perm_swap _ _ _)) as T.
  destruct (execute_direct mo_matches mo_handler mo_conn mo_dto mo_psch mo_rules "a1" ["b1"; "c1"]) as [e|a] eqn:Ea;
    [vm_compute in Ea; discriminate|].
  destruct (execute_direct mo_matches mo_handler mo_conn mo_dto mo_psch mo_rules' "a1" ["b1"; "c1"]) as [e|b] eqn:Eb;
    [vm_compute in Eb; discriminate|].
  exists a, b. split; [reflexivity|]. split; [reflexivity|].
  vm_compute in Ea. vm_compute in Eb. injection Ea as Ea. injection Eb as Eb.
  split; [rewrite <- Ea; reflexivity|]. split; [rewrite <- Ea; reflexivity|]. split; [rewrite <- Ea; reflexivity|].
  split; [rewrite <- Eb; reflexivity|].
  split; [|exact T]. rewrite <- Ea, <- Eb. discriminate.
Qed.

(* an order in which both runs raise: rule 2 contradicts rule 0 on the peer's AS number *)
Definition mo_handler_bad (id : nat) (l r : string) (ps : list string) : entries * entries * entries :=
  if Nat.eqb id 2 then
    ([("addr", VAtom (AStr "172.16.0.1/32"))], [("addr", VAtom (AStr "172.16.0.2/32")); ("asnum", VAtom (AInt 64999))], [])
  else mo_handler id l r ps.

Example execute_indirect_perm_example_error :
  execute_indirect mo_matches mo_handler_bad mo_dto mo_psch [Rule 0 United; Rule 2 United] "a1" mo_all = inl EValue /\
  execute_indirect mo_matches mo_handler_bad mo_dto mo_psch [Rule 2 United; Rule 0 United] "a1" mo_all = inl EValue.
Proof. vm_compute. split; reflexivity. Qed.

(* _execute_virtual: two rules, two numbers each; the pairs come in rule order *)
Definition mo_vmatches (_ : nat) (d : string) : bool := String.eqb d "a1".
Definition mo_vhandler (id : nat) (_ : string) (n : Z) : entries * entries * entries :=
  ([("svi", VAtom (AInt (Z.of_nat id * 10 + n)))], [("addr", VAtom (AStr "10.9.0.1"))], []).
Definition mo_vsch : schema := [("svi", MForbidChange); ("addr", MForbidChange)].
Definition mo_vrules : list vrule := [VRule 0 [1; 2]%Z; VRule 1 [1]%Z].
Definition mo_vrules' : list vrule := [VRule 1 [1]%Z; VRule 0 [1; 2]%Z].

Example execute_virtual_perm_example :
  Permutation mo_vrules mo_vrules' /\
  exists a b,
    execute_virtual mo_vmatches mo_vhandler mo_vsch mo_vsch mo_vrules "a1" = inr a /\
    execute_virtual mo_vmatches mo_vhandler mo_vsch mo_vsch mo_vrules' "a1" = inr b /\
    map (fun lc => lookup "svi" (fst lc)) a = [Some (VAtom (AInt 1)); Some (VAtom (AInt 2)); Some (VAtom (AInt 11))] /\
    map (fun lc => lookup "svi" (fst lc)) b = [Some (VAtom (AInt 11)); Some (VAtom (AInt 1)); Some (VAtom (AInt 2))] /\
    a <> b /\ Permutation a b.
Proof.
  split; [apply perm_swap|].
  pose proof (execute_virtual_perm mo_vmatches mo_vhandler mo_vsch mo_vsch mo_vrules mo_vrules' "a1" (perm_swap _ _ _)) as T.
  destruct (execute_virtual mo_vmatches mo_vhandler mo_vsch mo_vsch mo_vrules "a1") as [e|a] eqn:Ea;
    [vm_compute in Ea; discriminate|].
  destruct (execute_virtual mo_vmatches mo_vhandler mo_vsch mo_vsch mo_vrules' "a1") as [e|b] eqn:Eb;
    [vm_compute in Eb; discriminate|].
  exists a, b. split; [reflexivity|]. split; [reflexivity|].
  vm_compute in Ea. vm_compute in Eb. injection Ea as Ea. injection Eb as Eb.
  split; [rewrite <- Ea; reflexivity|]. split; [rewrite <- Eb; reflexivity|].
  split; [|exact T]. rewrite <- Ea, <- Eb. discriminate.
Qed.

(* ---- a schema entry for a field no operand sets is irrelevant ---------------------------------------------- *)
(* The real class Pair also declares `device: Annotated[Device, UseLast()]`, so order_free of the real Pair
   schema is false; but the executor's keyed loops (the model's mk_pair / mk_pair_ind) never put `device` into
   the merged attribute maps.  The theorems below restate the permutation theorems with every guard on the
   schema WITHOUT that field. *)

Definition drop_field (f : string) (sch : schema) : schema :=
  filter (fun e => negb (String.eqb (fst e) f)) sch.

Lemma lookup_drop_field : forall f g sch,
  lookup g (drop_field f sch) = if String.eqb g f then None else lookup g sch.
Proof.
  intros f g sch. unfold drop_field.
  rewrite (lookup_filter_key _ (fun g => negb (String.eqb g f))). destruct (String.eqb g f); reflexivity.
Qed.

Lemma lookup_None_neq : forall (A : Type) f g (v : A) (l : list (string * A)),
  lookup f l = None -> In (g, v) l -> String.eqb g f = false.
Proof.
  intros A f g v l H Hin. destruct (String.eqb g f) eqn:E; [|reflexivity]. apply String.eqb_eq in E. subst g.
  exfalso. apply (lookup_None_notin _ _ _ H). change f with (fst (f, v)). apply in_map. exact Hin.
Qed.

Lemma merge_old_ext : forall rec mof mof' fy fx,
  (forall g v, In (g, v) fx -> mof g = mof' g) -> merge_old rec mof fy fx = merge_old rec mof' fy fx.
Proof.
  intros rec mof mof' fy. induction fx as [|[g v] r IH]; intros H.
  - reflexivity.
  - cbn [merge_old]. unfold merge_one. rewrite (H g v (or_introl eq_refl)).
    rewrite IH; [reflexivity|]. intros g' v' Hin. apply (H g' v'). right. exact Hin.
Qed.

Lemma merge_new_ext : forall mof mof' fx fy,
  (forall g v, In (g, v) fy -> mof g = mof' g) -> merge_new mof fx fy = merge_new mof' fx fy.
Proof.
  intros mof mof' fx fy H. unfold merge_new. apply filter_ext_in. intros [g v] Hin. cbn [fst].
  rewrite (H g v Hin). reflexivity.
Qed.

Theorem merge_drop_unset : forall f sch a b,
  lookup f a = None -> lookup f b = None -> merge sch a b = merge (drop_field f sch) a b.
Proof.
  intros f sch a b Ha Hb. unfold merge. cbn [merge_val].
  rewrite (merge_old_ext merge_val (fun g => lookup g sch) (fun g => lookup g (drop_field f sch)) b a).
  - rewrite (merge_new_ext (fun g => lookup g sch) (fun g => lookup g (drop_field f sch)) a b); [reflexivity|].
    intros g v Hin. rewrite lookup_drop_field, (lookup_None_neq _ _ _ _ _ Hb Hin). reflexivity.
  - intros g v Hin. rewrite lookup_drop_field, (lookup_None_neq _ _ _ _ _ Ha Hin). reflexivity.
Qed.

Lemma merge_keeps_unset : forall f sch a b r,
  merge sch a b = Ok r -> lookup f a = None -> lookup f b = None -> lookup f r = None.
Proof.
  intros f sch a b r H Ha Hb. rewrite merge_is_merge_entries in H.
  apply (merge_entries_key_src merge_val _ _ _ _ f H Ha Hb).
Qed.

Definition lacks (f : string) (l : list (peer_key * entries)) : Prop :=
  forall k p, In (k, p) l -> lookup f p = None.

Lemma upsert_drop : forall f sch k p acc,
  lookup f p = None -> lacks f acc ->
  upsert sch k p acc = upsert (drop_field f sch) k p acc /\
  (forall acc', upsert sch k p acc = Ok acc' -> lacks f acc').
Proof.
  intros f sch k p. induction acc as [|[k' p'] rest IH]; intros Hp L.
  - split; [reflexivity|]. intros acc' H. cbn in H. injection H as H. subst acc'.
    intros k0 p0 [E|[]]. injection E as E1 E2. subst. exact Hp.
  - assert (Lr : lacks f rest) by (intros k0 p0 Hin; apply (L k0 p0); right; exact Hin).
    pose proof (L k' p' (or_introl eq_refl)) as Lp'. destruct (IH Hp Lr) as [IH1 IH2].
    cbn [upsert]. rewrite <- (merge_drop_unset f sch p' p Lp' Hp), <- IH1. split; [reflexivity|].
    intros acc' H. destruct (key_eqb k k').
    + destruct (merge sch p' p) as [pp|e] eqn:M; [|discriminate]. injection H as H. subst acc'.
      intros k0 p0 [E|Hin]; [|apply (Lr k0 p0 Hin)]. injection E as E1 E2. subst.
      apply (merge_keeps_unset f _ _ _ _ M Lp' Hp).
    + destruct (upsert sch k p rest) as [rest'|e] eqn:U; [|discriminate]. injection H as H. subst acc'.
      intros k0 p0 [E|Hin]; [injection E as E1 E2; subst; exact Lp'|apply (IH2 rest' eq_refl k0 p0 Hin)].
Qed.

Lemma gfold_drop : forall (W : Type) (item : W -> xerr + option (peer_key * entries)) f sch work acc,
  (forall w k p, In w work -> item w = inr (Some (k, p)) -> lookup f p = None) ->
  lacks f acc ->
  gfold W item sch work acc = gfold W item (drop_field f sch) work acc /\
  (forall r, gfold W item sch work acc = inr r -> lacks f r).
Proof.
  intros W item f sch. induction work as [|w rest IH]; intros acc HI L.
  - split; [reflexivity|]. intros r H. cbn in H. injection H as H. subst. exact L.
  - assert (HI' : forall w0 k p, In w0 rest -> item w0 = inr (Some (k, p)) -> lookup f p = None)
      by (intros w0 k p Hin; apply (HI w0 k p); right; exact Hin).
    cbn [gfold]. destruct (item w) as [e|[[k p]|]] eqn:Ew.
    + split; [reflexivity|discriminate].
    + destruct (upsert_drop f sch k p acc (HI w k p (or_introl eq_refl) Ew) L) as [U1 U2]. rewrite <- U1.
      destruct (upsert sch k p acc) as [acc1|e]; [|split; [reflexivity|discriminate]].
      apply (IH acc1 HI' (U2 acc1 eq_refl)).
    + apply (IH acc HI' L).
Qed.

Lemma sub_entries_ext : forall rec mofd mofd' fy fx,
  (forall g v, In (g, v) fx -> mofd g = mofd' g) -> sub_entries rec mofd fy fx = sub_entries rec mofd' fy fx.
Proof.
  intros rec mofd mofd' fy. induction fx as [|[g v] r IH]; intros H.
  - reflexivity.
  - cbn [sub_entries]. rewrite (H g v (or_introl eq_refl)).
    rewrite IH; [reflexivity|]. intros g' v' Hin. apply (H g' v'). right. exact Hin.
Qed.

Lemma veqb_drop_unset : forall cm f sch x y,
  lookup f x = None ->
  veqb cm (MMerge sch) (VObj x) (VObj y) = veqb cm (MMerge (drop_field f sch)) (VObj x) (VObj y).
Proof.
  intros cm f sch x y Hx. cbn [veqb].
  rewrite (sub_entries_ext (veqb cm) (field_merger (MMerge sch)) (field_merger (MMerge (drop_field f sch))) y x);
    [reflexivity|].
  intros g v Hin. cbn [field_merger]. rewrite lookup_drop_field, (lookup_None_neq _ _ _ _ _ Hx Hin). reflexivity.
Qed.

Lemma sessions_same_drop : forall f sch a b,
  lacks f a -> lacks f b -> sessions_same (drop_field f sch) a b -> sessions_same sch a b.
Proof.
  intros f sch a b La Lb [H1 [H2 H3]]. split; [exact H1|]. split.
  - intros k p Hin. destruct (H2 k p Hin) as [k' [p' [Hin' [K V]]]]. exists k', p'. repeat split; try assumption.
    rewrite (veqb_drop_unset true f sch p p' (La k p Hin)). exact V.
  - intros k p Hin. destruct (H3 k p Hin) as [k' [p' [Hin' [K V]]]]. exists k', p'. repeat split; try assumption.
    rewrite (veqb_drop_unset true f sch p' p (La k' p' Hin')). exact V.
Qed.

Lemma lookup_drop_some : forall f g sch m, lookup g (drop_field f sch) = Some m -> String.eqb g f = false.
Proof. intros f g sch m H. rewrite lookup_drop_field in H. destruct (String.eqb g f); [discriminate|reflexivity]. Qed.

(* the permutation theorems with the guards on the Pair schema minus a field f the loops never set
   (f = "device" for the real class Pair) *)
Theorem execute_indirect_perm_unset_field :
  forall f imatches ihandler dto sch_pair rules rules' device all,
    order_free (MMerge (drop_field f sch_pair)) = true ->
    nodupb (keys (drop_field f sch_pair)) = true ->
    lookup "local" (drop_field f sch_pair) = Some (MMerge dto) ->
    lookup "connected" (drop_field f sch_pair) = Some (MMerge dto) ->
    handler_wf dto ihandler ->
    (forall m, lookup "addr" dto = Some m -> scalar m = true) ->
    (forall m, lookup "vrf" dto = Some m -> scalar m = true) ->
    Permutation rules rules' ->
    match execute_indirect imatches ihandler dto sch_pair rules device all,
          execute_indirect imatches ihandler dto sch_pair rules' device all with
    | inl _, inl _ => True
    | inr a, inr b => sessions_same sch_pair a b
    | _, _ => False
    end.
Proof.
  intros f imatches ihandler dto sch_pair rules rules' device all HF N Hl Hc HW Sa Sv HP.
  pose proof (execute_indirect_perm imatches ihandler dto (drop_field f sch_pair) rules rules' device all
                HF N Hl Hc HW Sa Sv HP) as T.
  assert (G : forall rs, execute_indirect imatches ihandler dto sch_pair rs device all =
                         execute_indirect imatches ihandler dto (drop_field f sch_pair) rs device all /\
                         forall r, execute_indirect imatches ihandler dto sch_pair rs device all = inr r -> lacks f r).
  { intros rs. unfold execute_indirect. rewrite !fold_indirect_gfold. apply gfold_drop; [|intros ? ? []].
    intros m k p _ Hi. unfold item_indirect in Hi.
    destruct (execute_direct_pair ihandler dto device (other_end m) m []) as [[[loc con]|e]|]; try discriminate.
    destruct (lookup "addr" con); [|discriminate]. injection Hi as Hk Hp. subst p. unfold mk_pair_ind. cbn [lookup].
    rewrite (String.eqb_sym f "local"), (lookup_drop_some _ _ _ _ Hl).
    rewrite (String.eqb_sym f "connected"), (lookup_drop_some _ _ _ _ Hc). reflexivity. }
  destruct (G rules) as [E1 L1]. destruct (G rules') as [E2 L2]. rewrite <- E1, <- E2 in T.
  destruct (execute_indirect imatches ihandler dto sch_pair rules device all) as [e|a];
    destruct (execute_indirect imatches ihandler dto sch_pair rules' device all) as [e'|b]; try exact T.
  apply (sessions_same_drop f); [apply L1; reflexivity|apply L2; reflexivity|exact T].
Qed.

Theorem execute_direct_perm_unset_field :
  forall f matches handler connections dto sch_pair rules rules' device nbs,
    order_free (MMerge (drop_field f sch_pair)) = true ->
    nodupb (keys (drop_field f sch_pair)) = true ->
    lookup "local" (drop_field f sch_pair) = Some (MMerge dto) ->
    lookup "connected" (drop_field f sch_pair) = Some (MMerge dto) ->
    lookup "ports" (drop_field f sch_pair) = Some MForbidChange ->
    handler_wf dto handler ->
    (forall m, lookup "addr" dto = Some m -> scalar m = true) ->
    (forall m, lookup "vrf" dto = Some m -> scalar m = true) ->
    Permutation rules rules' ->
    match execute_direct matches handler connections dto sch_pair rules device nbs,
          execute_direct matches handler connections dto sch_pair rules' device nbs with
    | inl _, inl _ => True
    | inr a, inr b => sessions_same sch_pair a b
    | _, _ => False
    end.
Proof.
  intros f matches handler connections dto sch_pair rules rules' device nbs HF N Hl Hc Hp HW Sa Sv HP.
  pose proof (execute_direct_perm matches handler connections dto (drop_field f sch_pair) rules rules' device nbs
                HF N Hl Hc Hp HW Sa Sv HP) as T.
  assert (G : forall rs, execute_direct matches handler connections dto sch_pair rs device nbs =
                         execute_direct matches handler connections dto (drop_field f sch_pair) rs device nbs /\
                         forall r, execute_direct matches handler connections dto sch_pair rs device nbs = inr r -> lacks f r).
  { intros rs. unfold execute_direct. rewrite !fold_steps_gfold. apply gfold_drop; [|intros ? ? []].
    intros [m ports] k p _ Hi. unfold item_direct in Hi. cbn [fst snd] in Hi.
    destruct (execute_direct_pair handler dto device (other_end m) m ports) as [[[loc con]|e]|]; try discriminate.
    destruct (lookup "addr" con); [|discriminate]. injection Hi as Hk Hpp. subst p. unfold mk_pair. cbn [lookup].
    rewrite (String.eqb_sym f "local"), (lookup_drop_some _ _ _ _ Hl).
    rewrite (String.eqb_sym f "connected"), (lookup_drop_some _ _ _ _ Hc).
    rewrite (String.eqb_sym f "ports"), (lookup_drop_some _ _ _ _ Hp). reflexivity. }
  destruct (G rules) as [E1 L1]. destruct (G rules') as [E2 L2]. rewrite <- E1, <- E2 in T.
  destruct (execute_direct matches handler connections dto sch_pair rules device nbs) as [e|a];
    destruct (execute_direct matches handler connections dto sch_pair rules' device nbs) as [e'|b]; try exact T.
  apply (sessions_same_drop f); [apply L1; reflexivity|apply L2; reflexivity|exact T].
Qed.

(* the real Pair schema: local/connected Merge, device UseLast, ports default.  order_free is false for it,
   but the guards of the _unset_field theorems hold with f = "device" *)
Definition mo_psch_real : schema :=
  [("local", MMerge mo_dto); ("connected", MMerge mo_dto); ("device", MUseLast); ("ports", MForbidChange)].

Example execute_perm_unset_field_example :
  order_free (MMerge mo_psch_real) = false /\
  order_free (MMerge (drop_field "device" mo_psch_real)) = true /\
  nodupb (keys (drop_field "device" mo_psch_real)) = true /\
  lookup "local" (drop_field "device" mo_psch_real) = Some (MMerge mo_dto) /\
  lookup "connected" (drop_field "device" mo_psch_real) = Some (MMerge mo_dto) /\
  lookup "ports" (drop_field "device" mo_psch_real) = Some MForbidChange /\
  (exists a b,
     execute_indirect mo_matches mo_handler mo_dto mo_psch_real mo_rules "a1" mo_all = inr a /\
     execute_indirect mo_matches mo_handler mo_dto mo_psch_real mo_rules' "a1" mo_all = inr b /\
     a <> b /\ sessions_same mo_psch_real a b) /\
  (exists a b,
     execute_direct mo_matches mo_handler mo_conn mo_dto mo_psch_real mo_rules "a1" ["b1"; "c1"] = inr a /\
     execute_direct mo_matches mo_handler mo_conn mo_dto mo_psch_real mo_rules' "a1" ["b1"; "c1"] = inr b /\
     a <> b /\ sessions_same mo_psch_real a b).
Proof.
  split; [reflexivity|]. split; [reflexivity|]. split; [reflexivity|]. split; [reflexivity|].
  split; [reflexivity|]. split; [reflexivity|]. split.
  - pose proof (execute_indirect_perm_unset_field "device" mo_matches mo_handler mo_dto mo_psch_real mo_rules mo_rules'
                  "a1" mo_all eq_refl eq_refl eq_refl eq_refl mo_handler_wf mo_scalar_addr mo_scalar_vrf
                  (perm_swap _ _ _)) as T.
    destruct (execute_indirect mo_matches mo_handler mo_dto mo_psch_real mo_rules "a1" mo_all) as [e|a] eqn:Ea;
      [vm_compute in Ea; discriminate|].
    destruct (execute_indirect mo_matches mo_handler mo_dto mo_psch_real mo_rules' "a1" mo_all) as [e|b] eqn:Eb;
      [vm_compute in Eb; discriminate|].
    exists a, b. split; [reflexivity|]. split; [reflexivity|]. split; [|exact T].
    vm_compute in Ea. vm_compute in Eb. injection Ea as Ea. injection Eb as Eb. rewrite <- Ea, <- Eb. discriminate.
  - pose proof (execute_direct_perm_unset_field "device" mo_matches mo_handler mo_conn mo_dto mo_psch_real mo_rules
                  mo_rules' "a1" ["b1"; "c1"] eq_refl eq_refl eq_refl eq_refl eq_refl mo_handler_wf mo_scalar_addr
                  mo_scalar_vrf (perm_swap _ _ _)) as T.
    destruct (execute_direct mo_matches mo_handler mo_conn mo_dto mo_psch_real mo_rules "a1" ["b1"; "c1"]) as [e|a] eqn:Ea;
      [vm_compute in Ea; discriminate|].
    destruct (execute_direct mo_matches mo_handler mo_conn mo_dto mo_psch_real mo_rules' "a1" ["b1"; "c1"]) as [e|b] eqn:Eb;
      [vm_compute in Eb; discriminate|].
    exists a, b. split; [reflexivity|]. split; [reflexivity|]. split; [|exact T].
    vm_compute in Ea. vm_compute in Eb. injection Ea as Ea. injection Eb as Eb. rewrite <- Ea, <- Eb. discriminate.
Qed.

(* ====================================================================================================== *)
(* TIER 2 (partial): the conversion loops of execute_for under a permutation of their input pairs           *)
(* ====================================================================================================== *)

(* what one conversion step does to the device, read off without the device: the peer it yields, the
   interface names it passes to "add ... or return existing one" (in order), the add_addr records *)
Definition eff := (entries * list string * list logrec)%type.

Definition add_all (names : list string) (d : dev) : dev := fold_left (fun d n => add_or_reuse n d) names d.

Definition run_eff (e : eff) (d : dev) : entries * dev :=
  (fst (fst e), Dev (d_ifs (add_all (snd (fst e)) d)) (d_log d ++ snd e)).

(* the device has at least the interfaces ifs0 *)
Definition covers (ifs0 : list string) (d : dev) : Prop := forall i, sin i ifs0 = true -> sin i (d_ifs d) = true.

Lemma add_all_log : forall names d, d_log (add_all names d) = d_log d.
Proof.
  induction names as [|n r IH]; intros d; [reflexivity|]. cbn [add_all fold_left]. 
  change (d_log (add_all r (add_or_reuse n d)) = d_log d). rewrite IH. apply add_or_reuse_log.
Qed.

Lemma add_or_reuse_sin : forall n d i, sin i (d_ifs (add_or_reuse n d)) = sin i (d_ifs d) || String.eqb i n.
Proof.
  intros n d i. unfold add_or_reuse. destruct (sin n (d_ifs d)) eqn:E.
  - destruct (String.eqb i n) eqn:En; [|rewrite orb_false_r; reflexivity].
    apply String.eqb_eq in En. subst i. rewrite E. reflexivity.
  - cbn [d_ifs]. rewrite smem_app. cbn. rewrite orb_false_r. reflexivity.
Qed.

Lemma add_all_sin : forall names d i, sin i (d_ifs (add_all names d)) = sin i (d_ifs d) || sin i names.
Proof.
  induction names as [|n r IH]; intros d i.
  - cbn. rewrite orb_false_r. reflexivity.
  - change (add_all (n :: r) d) with (add_all r (add_or_reuse n d)). rewrite IH, add_or_reuse_sin.
    cbn [sin existsb]. rewrite orb_assoc. reflexivity.
Qed.

Lemma covers_run : forall ifs0 e d, covers ifs0 d -> covers ifs0 (snd (run_eff e d)).
Proof. intros ifs0 e d C i Hi. unfold run_eff. cbn [snd d_ifs]. rewrite add_all_sin, (C i Hi). reflexivity. Qed.

Lemma sin_perm : forall i l l', Permutation l l' -> sin i l = sin i l'.
Proof.
  intros i l l' HP. unfold sin. induction HP as [|x a b HP IH|x y a|a b c HP1 IH1 HP2 IH2]; cbn.
  - reflexivity.
  - rewrite IH. reflexivity.
  - rewrite !orb_assoc, (orb_comm (String.eqb i y)). reflexivity.
  - rewrite IH1. exact IH2.
Qed.

Section CLoop.
  Variable X : Type.
  Variable step : X -> dev -> fail + (entries * dev).
  Variable g : X -> fail + eff.
  Variable ifs0 : list string.
  Variable Good : X -> Prop.
  Hypothesis Hstep : forall x d, Good x -> covers ifs0 d ->
    step x d = match g x with inl e => inl e | inr e => inr (run_eff e d) end.

  Fixpoint cloop (xs : list X) (d : dev) : fail + (list entries * dev) :=
    match xs with
    | [] => inr ([], d)
    | x :: r =>
      match step x d with
      | inl e => inl e
      | inr (p, d1) =>
        match cloop r d1 with
        | inl e => inl e
        | inr (ps, d2) => inr (p :: ps, d2)
        end
      end
    end.

  Fixpoint gmap (xs : list X) : fail + list eff :=
    match xs with
    | [] => inr []
    | x :: r =>
      match g x with
      | inl e => inl e
      | inr e => match gmap r with inl e' => inl e' | inr es => inr (e :: es) end
      end
    end.

  Definition eff_names (es : list eff) : list string := flat_map (fun e => snd (fst e)) es.
  Definition eff_log (es : list eff) : list logrec := flat_map (fun e => snd e) es.

  Lemma cloop_spec : forall xs d, Forall Good xs -> covers ifs0 d ->
    cloop xs d = match gmap xs with
                 | inl e => inl e
                 | inr es => inr (map (fun e => fst (fst e)) es,
                                  Dev (d_ifs (add_all (eff_names es) d)) (d_log d ++ eff_log es))
                 end.
  Proof.
    induction xs as [|x r IH]; intros d HG C.
    - cbn. rewrite app_nil_r. destruct d; reflexivity.
    - inversion HG as [|? ? Gx Gr]. subst. cbn [cloop gmap]. rewrite (Hstep x d Gx C).
      destruct (g x) as [e|e]; [reflexivity|].
      assert (R : run_eff e d = (fst (fst e), snd (run_eff e d))) by reflexivity. rewrite R.
      rewrite (IH _ Gr (covers_run ifs0 e d C)). destruct (gmap r) as [e'|es]; [reflexivity|].
      cbn [map eff_names eff_log flat_map run_eff snd d_ifs d_log]. unfold add_all. rewrite fold_left_app.
      rewrite <- app_assoc. f_equal. f_equal. f_equal.
      fold (add_all (snd (fst e)) d). fold (add_all (eff_names es) (Dev (d_ifs (add_all (snd (fst e)) d)) (d_log d ++ snd e))).
      fold (add_all (flat_map (fun e0 : eff => snd (fst e0)) es) (add_all (snd (fst e)) d)).
      clear. generalize (add_all (snd (fst e)) d) as d1. intros d1. generalize (d_log d ++ snd e) as lg. intros lg.
      unfold eff_names. generalize (flat_map (fun e0 : eff => snd (fst e0)) es) as ns.
      assert (Q : forall ns a lg1 lg2, d_ifs (add_all ns (Dev a lg1)) = d_ifs (add_all ns (Dev a lg2))).
      { induction ns as [|n ns IHn]; intros a lg1 lg2; [reflexivity|].
        change (add_all (n :: ns) (Dev a lg1)) with (add_all ns (add_or_reuse n (Dev a lg1))).
        change (add_all (n :: ns) (Dev a lg2)) with (add_all ns (add_or_reuse n (Dev a lg2))).
        unfold add_or_reuse. cbn [d_ifs d_log]. destruct (sin n a); apply IHn. }
      intros ns. destruct d1 as [a lg1]. cbn [d_ifs]. apply Q.
  Qed.

  Definition grel (a b : fail + list eff) : Prop :=
    match a, b with
    | inl _, inl _ => True
    | inr x, inr y => Permutation x y
    | _, _ => False
    end.

  Lemma gmap_perm : forall xs xs', Permutation xs xs' -> grel (gmap xs) (gmap xs').
  Proof.
    intros xs xs' HP. induction HP as [|x l l' HP IH|x y l|l l' l'' HP1 IH1 HP2 IH2].
    - cbn. constructor.
    - cbn [gmap]. destruct (g x) as [e|e]; [exact I|].
      destruct (gmap l); destruct (gmap l'); cbn in *; try contradiction; try exact I. apply perm_skip. exact IH.
    - cbn [gmap]. destruct (g x) as [e|e]; destruct (g y) as [e'|e']; destruct (gmap l); cbn; try exact I;
        try apply Permutation_refl. apply perm_swap.
    - destruct (gmap l); destruct (gmap l'); destruct (gmap l''); cbn in *; try contradiction; try exact I.
      eapply Permutation_trans; eassumption.
  Qed.
End CLoop.

(* two devices with the same interfaces (as a set) and the same add_addr records (as a multiset) *)
Definition dev_same (d d' : dev) : Prop :=
  (forall i, sin i (d_ifs d) = sin i (d_ifs d')) /\ Permutation (d_log d) (d_log d').

Definition conv_same (a b : fail + (list entries * dev)) : Prop :=
  match a, b with
  | inl _, inl _ => True
  | inr (ps, d), inr (ps', d') => Permutation ps ps' /\ dev_same d d'
  | _, _ => False
  end.

Lemma cloop_perm : forall (X : Type) step g ifs0 (Good : X -> Prop),
  (forall x d, Good x -> covers ifs0 d ->
     step x d = match g x with inl e => inl e | inr e => inr (run_eff e d) end) ->
  forall xs xs' d d',
    Forall Good xs -> Permutation xs xs' -> covers ifs0 d -> covers ifs0 d' -> dev_same d d' ->
    conv_same (cloop X step xs d) (cloop X step xs' d') /\
    (forall ps d1, cloop X step xs d = inr (ps, d1) -> covers ifs0 d1) /\
    (forall ps d1, cloop X step xs' d' = inr (ps, d1) -> covers ifs0 d1).
Proof.
  intros X step g ifs0 Good Hstep xs xs' d d' HG HP C C' [S1 S2].
  assert (HG' : Forall Good xs') by (apply (Permutation_Forall HP HG)).
  rewrite (cloop_spec X step g ifs0 Good Hstep xs d HG C), (cloop_spec X step g ifs0 Good Hstep xs' d' HG' C').
  pose proof (gmap_perm X g xs xs' HP) as G.
  destruct (gmap X g xs) as [e|es]; destruct (gmap X g xs') as [e'|es']; cbn in G; try contradiction.
  - split; [exact I|]. split; intros ps d1 H; discriminate.
  - split; [|split].
    + cbn. split; [apply Permutation_map; exact G|]. split.
      * intros i. cbn [d_ifs]. rewrite !add_all_sin, S1. unfold eff_names.
        rewrite (sin_perm i _ _ (Permutation_flat_map (fun e => snd (fst e)) G)). reflexivity.
      * cbn [d_log]. apply Permutation_app; [exact S2|]. unfold eff_log. apply Permutation_flat_map. exact G.
    + intros ps d1 H. injection H as H1 H2. subst d1. intros i Hi. cbn [d_ifs]. rewrite add_all_sin, (C i Hi). reflexivity.
    + intros ps d1 H. injection H as H1 H2. subst d1. intros i Hi. cbn [d_ifs]. rewrite add_all_sin, (C' i Hi). reflexivity.
Qed.

Section ConvPerm.
  Variable connections : string -> string -> list (string * string).
  Variable opt_fields : list string.
  Variable nm : naming.

  (* -- _apply_direct_interface_changes without the device: target and the names it adds or reuses -- *)
  Definition direct_eff (conns : list (string * string)) (ports : list string) (ch : changes)
    : fail + (string * list string) :=
    let port_pairs := filter (fun p => sin (fst p) ports) conns in
    if Nat.ltb 1 (List.length port_pairs) && negb (is_some (c_lag ch)) && negb (is_some (c_svi ch))
    then inl FValue
    else
      match c_lag ch with
      | Some l =>
        let t := lag_name nm l in
        match c_subif ch with
        | Some n => inr (subif_name nm t n, [t; subif_name nm t n])
        | None => inr (t, [t])
        end
      | None =>
        match c_subif ch with
        | Some n =>
          match port_pairs with
          | p :: _ => inr (subif_name nm (fst p) n, [subif_name nm (fst p) n])
          | [] => inl FOther
          end
        | None =>
          match c_svi ch with
          | Some v => inr (svi_name nm v, [svi_name nm v])
          | None => match port_pairs with p :: _ => inr (fst p, []) | [] => inl FOther end
          end
        end
      end.

  Lemma apply_direct_eff : forall conns ports ch d,
    apply_direct nm conns ports ch d =
    match direct_eff conns ports ch with
    | inl e => inl e
    | inr (t, names) => inr (t, add_addr t (c_addr ch) (c_vrf ch) (add_all names d))
    end.
  Proof.
    intros conns ports ch d. unfold apply_direct, direct_eff.
    destruct (Nat.ltb 1 (List.length (filter (fun p => sin (fst p) ports) conns)) &&
              negb (is_some (c_lag ch)) && negb (is_some (c_svi ch))); [reflexivity|].
    destruct (c_lag ch); destruct (c_subif ch); destruct (c_svi ch);
      destruct (filter (fun p => sin (fst p) ports) conns); reflexivity.
  Qed.

  Definition step_cd (device : string) (kp : peer_key * entries) (d : dev) : fail + (entries * dev) :=
    let nb := fst (fst (fst kp)) in
    let local := obj_of "local" (snd kp) in
    match to_interface_changes local with
    | inl e => inl e
    | inr ch =>
      match apply_direct nm (connections device nb) (strs_of "ports" (snd kp)) ch d with
      | inl e => inl e
      | inr (t, d1) =>
        match mk_peer opt_fields local (obj_of "connected" (snd kp)) nb (Some t) with
        | None => inl FOther
        | Some peer => inr (peer, d1)
        end
      end
    end.

  Definition g_cd (device : string) (kp : peer_key * entries) : fail + eff :=
    let nb := fst (fst (fst kp)) in
    let local := obj_of "local" (snd kp) in
    match to_interface_changes local with
    | inl e => inl e
    | inr ch =>
      match direct_eff (connections device nb) (strs_of "ports" (snd kp)) ch with
      | inl e => inl e
      | inr (t, names) =>
        match mk_peer opt_fields local (obj_of "connected" (snd kp)) nb (Some t) with
        | None => inl FOther
        | Some peer => inr (peer, names, [(t, c_addr ch, c_vrf ch)])
        end
      end
    end.

  Lemma add_addr_run : forall (peer : entries) names t a v d,
    (peer, add_addr t a v (add_all names d)) = run_eff (peer, names, [(t, a, v)]) d.
  Proof. intros. unfold run_eff, add_addr. cbn [fst snd]. rewrite add_all_log. reflexivity. Qed.

  Lemma step_cd_eff : forall device kp d,
    step_cd device kp d = match g_cd device kp with inl e => inl e | inr e => inr (run_eff e d) end.
  Proof.
    intros device kp d. unfold step_cd, g_cd. destruct (to_interface_changes (obj_of "local" (snd kp))) as [e|ch];
      [reflexivity|]. rewrite apply_direct_eff.
    destruct (direct_eff (connections device (fst (fst (fst kp)))) (strs_of "ports" (snd kp)) ch) as [e|[t names]];
      [reflexivity|].
    destruct (mk_peer opt_fields (obj_of "local" (snd kp)) (obj_of "connected" (snd kp)) (fst (fst (fst kp))) (Some t));
      [|reflexivity]. rewrite add_addr_run. reflexivity.
  Qed.

  Lemma conv_direct_cloop : forall device pairs d,
    conv_direct connections opt_fields nm device pairs d = cloop _ (step_cd device) pairs d.
  Proof.
    intros device. induction pairs as [|[k p] rest IH]; intros d; [reflexivity|].
    cbn [conv_direct cloop]. unfold step_cd. cbn [fst snd].
    destruct (to_interface_changes (obj_of "local" p)) as [e|ch]; [reflexivity|].
    destruct (apply_direct nm (connections device (fst (fst k))) (strs_of "ports" p) ch d) as [e|[t d1]]; [reflexivity|].
    destruct (mk_peer opt_fields (obj_of "local" p) (obj_of "connected" p) (fst (fst k)) (Some t)); [|reflexivity].
    rewrite IH. reflexivity.
  Qed.

  (* -- _apply_virtual_interface_changes -- *)
  Definition step_cv (lc : entries * entries) (d : dev) : fail + (entries * dev) :=
    match lookup "svi" (fst lc) with
    | Some (VAtom (AInt svi)) =>
      match mk_peer opt_fields (fst lc) (snd lc) "" (Some (svi_name nm svi)) with
      | None => inl FOther
      | Some peer => inr (peer, add_or_reuse (svi_name nm svi) d)
      end
    | _ => inl FOther
    end.

  Definition g_cv (lc : entries * entries) : fail + eff :=
    match lookup "svi" (fst lc) with
    | Some (VAtom (AInt svi)) =>
      match mk_peer opt_fields (fst lc) (snd lc) "" (Some (svi_name nm svi)) with
      | None => inl FOther
      | Some peer => inr (peer, [svi_name nm svi], [])
      end
    | _ => inl FOther
    end.

  Lemma step_cv_eff : forall lc d,
    step_cv lc d = match g_cv lc with inl e => inl e | inr e => inr (run_eff e d) end.
  Proof.
    intros lc d. unfold step_cv, g_cv. destruct (lookup "svi" (fst lc)) as [[[z| | | |]| | | |]|]; try reflexivity.
    destruct (mk_peer opt_fields (fst lc) (snd lc) "" (Some (svi_name nm z))); [|reflexivity].
    unfold run_eff. cbn [fst snd add_all fold_left]. rewrite app_nil_r, <- (add_or_reuse_log (svi_name nm z) d).
    destruct (add_or_reuse (svi_name nm z) d); reflexivity.
  Qed.

  Lemma conv_virtual_cloop : forall pairs d,
    conv_virtual opt_fields nm pairs d = cloop _ step_cv pairs d.
  Proof.
    induction pairs as [|[local con] rest IH]; intros d; [reflexivity|].
    cbn [conv_virtual cloop]. unfold step_cv, apply_virtual. cbn [fst snd].
    destruct (lookup "svi" local) as [[[z| | | |]| | | |]|]; try reflexivity.
    destruct (mk_peer opt_fields local con "" (Some (svi_name nm z))); [|reflexivity].
    rewrite IH. reflexivity.
  Qed.

  (* -- _apply_indirect_interface_changes; ifs0 = interfaces known to be on the device -- *)
  Definition indirect_eff (ifs0 : list string) (ifname : option string) (ch : changes)
    : fail + option (string * list string) :=
    match c_lag ch with
    | Some _ => inl FValue
    | None =>
      match c_subif ch with
      | Some n => let t := subif_name nm (str_of_opt ifname) n in inr (Some (t, [t]))
      | None =>
        match c_svi ch with
        | Some v => let t := svi_name nm v in inr (Some (t, [t]))
        | None =>
          match ifname with
          | None => inr None
          | Some EmptyString => inr None
          | Some i => if sin i ifs0 then inr (Some (i, [])) else inl FValue
          end
        end
      end
    end.

  (* the guard that excludes the known counterexample: when the DTO selects a plain interface by name
     (no lag, no subif, no svi, a non-empty ifname), that interface is one of ifs0 *)
  Definition plain_ifname_known (ifs0 : list string) (kp : peer_key * entries) : Prop :=
    forall ch i,
      to_interface_changes (obj_of "local" (snd kp)) = inr ch ->
      opt_str "ifname" (obj_of "local" (snd kp)) = inr (Some i) ->
      c_lag ch = None -> c_subif ch = None -> c_svi ch = None -> i <> "" ->
      sin i ifs0 = true.

  Lemma apply_indirect_eff : forall ifs0 ifname ch d,
    covers ifs0 d ->
    (forall i, ifname = Some i -> c_lag ch = None -> c_subif ch = None -> c_svi ch = None -> i <> "" ->
               sin i ifs0 = true) ->
    apply_indirect nm ifname ch d =
    match indirect_eff ifs0 ifname ch with
    | inl e => inl e
    | inr None => inr (None, d)
    | inr (Some (t, names)) => inr (Some t, add_addr t (c_addr ch) (c_vrf ch) (add_all names d))
    end.
  Proof.
    intros ifs0 ifname ch d C G. unfold apply_indirect, indirect_eff.
    destruct (c_lag ch); [reflexivity|]. destruct (c_subif ch); [reflexivity|]. destruct (c_svi ch); [reflexivity|].
    destruct ifname as [[|c r]|]; try reflexivity.
    assert (S0 : sin (String c r) ifs0 = true) by (apply G; try reflexivity; discriminate).
    rewrite S0, (C _ S0). reflexivity.
  Qed.

  Definition step_ci (kp : peer_key * entries) (d : dev) : fail + (entries * dev) :=
    let other := fst (fst (fst kp)) in
    let local := obj_of "local" (snd kp) in
    match to_interface_changes local, opt_str "ifname" local with
    | inl e, _ => inl e
    | _, inl e => inl e
    | inr ch, inr ifname =>
      match apply_indirect nm ifname ch d with
      | inl e => inl e
      | inr (t, d1) =>
        match mk_peer opt_fields local (obj_of "connected" (snd kp)) other t with
        | None => inl FOther
        | Some peer => inr (peer, d1)
        end
      end
    end.

  Definition g_ci (ifs0 : list string) (kp : peer_key * entries) : fail + eff :=
    let other := fst (fst (fst kp)) in
    let local := obj_of "local" (snd kp) in
    match to_interface_changes local, opt_str "ifname" local with
    | inl e, _ => inl e
    | _, inl e => inl e
    | inr ch, inr ifname =>
      match indirect_eff ifs0 ifname ch with
      | inl e => inl e
      | inr None =>
        match mk_peer opt_fields local (obj_of "connected" (snd kp)) other None with
        | None => inl FOther
        | Some peer => inr (peer, [], [])
        end
      | inr (Some (t, names)) =>
        match mk_peer opt_fields local (obj_of "connected" (snd kp)) other (Some t) with
        | None => inl FOther
        | Some peer => inr (peer, names, [(t, c_addr ch, c_vrf ch)])
        end
      end
    end.

  Lemma step_ci_eff : forall ifs0 kp d,
    plain_ifname_known ifs0 kp -> covers ifs0 d ->
    step_ci kp d = match g_ci ifs0 kp with inl e => inl e | inr e => inr (run_eff e d) end.
  Proof.
    intros ifs0 kp d G C. unfold step_ci, g_ci. unfold plain_ifname_known in G.
    destruct (to_interface_changes (obj_of "local" (snd kp))) as [e|ch]; [reflexivity|].
    destruct (opt_str "ifname" (obj_of "local" (snd kp))) as [e|ifname]; [reflexivity|].
    rewrite (apply_indirect_eff ifs0 ifname ch d C).
    - destruct (indirect_eff ifs0 ifname ch) as [e|[[t names]|]]; [reflexivity| |].
      + destruct (mk_peer opt_fields (obj_of "local" (snd kp)) (obj_of "connected" (snd kp)) (fst (fst (fst kp))) (Some t));
          [|reflexivity]. rewrite add_addr_run. reflexivity.
      + destruct (mk_peer opt_fields (obj_of "local" (snd kp)) (obj_of "connected" (snd kp)) (fst (fst (fst kp))) None);
          [|reflexivity]. unfold run_eff. cbn [fst snd add_all fold_left]. rewrite app_nil_r. destruct d; reflexivity.
    - intros i Ei. subst ifname. apply (G ch i eq_refl eq_refl).
  Qed.

  Lemma conv_indirect_cloop : forall pairs d,
    conv_indirect opt_fields nm pairs d = cloop _ step_ci pairs d.
  Proof.
    induction pairs as [|[k p] rest IH]; intros d; [reflexivity|].
    cbn [conv_indirect cloop]. unfold step_ci. cbn [fst snd].
    destruct (to_interface_changes (obj_of "local" p)) as [e|ch]; [reflexivity|].
    destruct (opt_str "ifname" (obj_of "local" p)) as [e|ifname]; [reflexivity|].
    destruct (apply_indirect nm ifname ch d) as [e|[t d1]]; [reflexivity|].
    destruct (mk_peer opt_fields (obj_of "local" p) (obj_of "connected" p) (fst (fst k)) t); [|reflexivity].
    rewrite IH. reflexivity.
  Qed.

  Lemma covers_nil : forall d, covers [] d.
  Proof. intros d i Hi. discriminate. Qed.

  (* each conversion loop, started on devices with the same interfaces and records, on permuted pairs *)
  Theorem conv_direct_perm : forall device pairs pairs' d d',
    Permutation pairs pairs' -> dev_same d d' ->
    conv_same (conv_direct connections opt_fields nm device pairs d)
              (conv_direct connections opt_fields nm device pairs' d').
  Proof.
    intros device pairs pairs' d d' HP S. rewrite !conv_direct_cloop.
    apply (cloop_perm _ (step_cd device) (g_cd device) [] (fun _ => True)
             (fun x d0 _ _ => step_cd_eff device x d0) pairs pairs' d d'); auto using covers_nil.
    apply Forall_forall. intros; exact I.
  Qed.

  Theorem conv_virtual_perm : forall pairs pairs' d d',
    Permutation pairs pairs' -> dev_same d d' ->
    conv_same (conv_virtual opt_fields nm pairs d) (conv_virtual opt_fields nm pairs' d').
  Proof.
    intros pairs pairs' d d' HP S. rewrite !conv_virtual_cloop.
    apply (cloop_perm _ step_cv g_cv [] (fun _ => True)
             (fun x d0 _ _ => step_cv_eff x d0) pairs pairs' d d'); auto using covers_nil.
    apply Forall_forall. intros; exact I.
  Qed.

  Theorem conv_indirect_perm : forall ifs0 pairs pairs' d d',
    Forall (plain_ifname_known ifs0) pairs ->
    Permutation pairs pairs' -> covers ifs0 d -> covers ifs0 d' -> dev_same d d' ->
    conv_same (conv_indirect opt_fields nm pairs d) (conv_indirect opt_fields nm pairs' d').
  Proof.
    intros ifs0 pairs pairs' d d' HG HP C C' S. rewrite !conv_indirect_cloop.
    apply (cloop_perm _ step_ci (g_ci ifs0) ifs0 (plain_ifname_known ifs0)
             (fun x d0 Gx Cx => step_ci_eff ifs0 x d0 Gx Cx) pairs pairs' d d'); assumption.
  Qed.

  (* the conversion part of execute_for: the three loops threading the device *)
  Definition conv_all (device : string) (dpairs : list (peer_key * entries)) (vpairs : list (entries * entries))
             (ipairs : list (peer_key * entries)) (d0 : dev) : fail + (list entries * dev) :=
    match conv_direct connections opt_fields nm device dpairs d0 with
    | inl e => inl e
    | inr (p1, d1) =>
      match conv_virtual opt_fields nm vpairs d1 with
      | inl e => inl e
      | inr (p2, d2) =>
        match conv_indirect opt_fields nm ipairs d2 with
        | inl e => inl e
        | inr (p3, d3) => inr (p1 ++ p2 ++ p3, d3)
        end
      end
    end.

  Lemma dev_same_refl : forall d, dev_same d d.
  Proof. intros d. split; [reflexivity|apply Permutation_refl]. Qed.

  Theorem conv_all_perm : forall device dpairs dpairs' vpairs vpairs' ipairs ipairs' d0,
    Permutation dpairs dpairs' -> Permutation vpairs vpairs' -> Permutation ipairs ipairs' ->
    Forall (plain_ifname_known (d_ifs d0)) ipairs ->
    conv_same (conv_all device dpairs vpairs ipairs d0) (conv_all device dpairs' vpairs' ipairs' d0).
  Proof.
    intros device dpairs dpairs' vpairs vpairs' ipairs ipairs' d0 P1 P2 P3 HG. unfold conv_all.
    assert (C0 : covers (d_ifs d0) d0) by (intros i Hi; exact Hi).
    rewrite !conv_direct_cloop.
    destruct (cloop_perm _ (step_cd device) (g_cd device) (d_ifs d0) (fun _ => True)
                (fun x d _ _ => step_cd_eff device x d) dpairs dpairs' d0 d0
                (proj2 (Forall_forall _ _) (fun _ _ => I)) P1 C0 C0 (dev_same_refl d0)) as [S1 [K1 K1']].
    destruct (cloop _ (step_cd device) dpairs d0) as [e|[p1 d1]];
      destruct (cloop _ (step_cd device) dpairs' d0) as [e'|[p1' d1']]; cbn in S1; try contradiction; try exact I.
    destruct S1 as [Q1 D1]. specialize (K1 p1 d1 eq_refl). specialize (K1' p1' d1' eq_refl).
    rewrite !conv_virtual_cloop.
    destruct (cloop_perm _ step_cv g_cv (d_ifs d0) (fun _ => True)
                (fun x d _ _ => step_cv_eff x d) vpairs vpairs' d1 d1'
                (proj2 (Forall_forall _ _) (fun _ _ => I)) P2 K1 K1' D1) as [S2 [K2 K2']].
    destruct (cloop _ step_cv vpairs d1) as [e|[p2 d2]];
      destruct (cloop _ step_cv vpairs' d1') as [e'|[p2' d2']]; cbn in S2; try contradiction; try exact I.
    destruct S2 as [Q2 D2]. specialize (K2 p2 d2 eq_refl). specialize (K2' p2' d2' eq_refl).
    pose proof (conv_indirect_perm (d_ifs d0) ipairs ipairs' d2 d2' HG P3 K2 K2' D2) as S3.
    destruct (conv_indirect opt_fields nm ipairs d2) as [e|[p3 d3]];
      destruct (conv_indirect opt_fields nm ipairs' d2') as [e'|[p3' d3']]; cbn in S3; try contradiction; try exact I.
    destruct S3 as [Q3 D3]. cbn. split; [|exact D3].
    apply Permutation_app; [exact Q1|]. apply Permutation_app; assumption.
  Qed.
End ConvPerm.

(* ---- execute_for ------------------------------------------------------------------------------------------ *)

Section WholeOrder.
  Variable dmatches : nat -> string -> string -> bool.
  Variable dhandler : nat -> string -> string -> list string -> entries * entries * entries.
  Variable imatches : nat -> string -> string -> bool.
  Variable ihandler : nat -> string -> string -> list string -> entries * entries * entries.
  Variable vmatches : nat -> string -> bool.
  Variable vhandler : nat -> string -> Z -> entries * entries * entries.
  Variable connections : string -> string -> list (string * string).
  Variable sch_direct sch_indirect sch_vlocal sch_vpeer sch_pair : schema.
  Variable opt_fields : list string.
  Variable nm : naming.

  Definition xfor := execute_for dmatches dhandler imatches ihandler vmatches vhandler connections
                                 sch_direct sch_indirect sch_vlocal sch_vpeer sch_pair opt_fields nm.

  Lemma execute_for_as_conv_all : forall drules irules vrules device nbs all d0 dp vp ip,
    execute_direct dmatches dhandler connections sch_direct sch_pair drules device nbs = inr dp ->
    execute_virtual vmatches vhandler sch_vlocal sch_vpeer vrules device = inr vp ->
    execute_indirect imatches ihandler sch_indirect sch_pair irules device all = inr ip ->
    xfor drules irules vrules device nbs all d0 = conv_all connections opt_fields nm device dp vp ip d0.
  Proof.
    intros drules irules vrules device nbs all d0 dp vp ip H1 H2 H3. unfold xfor, execute_for, conv_all.
    rewrite H1, H2, H3. cbn [of_xerr].
    destruct (conv_direct connections opt_fields nm device dp d0) as [e|[p1 d1]]; [reflexivity|].
    destruct (conv_virtual opt_fields nm vp d1) as [e|[p2 d2]]; reflexivity.
  Qed.

  Lemma execute_for_loop_fails : forall drules irules vrules device nbs all d0,
    (exists e, execute_direct dmatches dhandler connections sch_direct sch_pair drules device nbs = inl e) \/
    (exists e, execute_virtual vmatches vhandler sch_vlocal sch_vpeer vrules device = inl e) \/
    (exists e, execute_indirect imatches ihandler sch_indirect sch_pair irules device all = inl e) ->
    exists e, xfor drules irules vrules device nbs all d0 = inl e.
  Proof.
    intros drules irules vrules device nbs all d0 H. unfold xfor, execute_for.
    destruct (execute_direct dmatches dhandler connections sch_direct sch_pair drules device nbs) as [e|dp];
      [eexists; reflexivity|]. cbn [of_xerr].
    destruct (conv_direct connections opt_fields nm device dp d0) as [e|[p1 d1]]; [eexists; reflexivity|].
    destruct (execute_virtual vmatches vhandler sch_vlocal sch_vpeer vrules device) as [e|vp]; [eexists; reflexivity|].
    destruct (conv_virtual opt_fields nm vp d1) as [e|[p2 d2]]; [eexists; reflexivity|].
    destruct (execute_indirect imatches ihandler sch_indirect sch_pair irules device all) as [e|ip];
      [eexists; reflexivity|].
    destruct H as [[e H]|[[e H]|[e H]]]; discriminate.
  Qed.

  (* PARTIAL 1: whenever the three rule loops of two runs return the same pairs up to order (exactly equal
     pairs), the runs of execute_for both raise, or return the same peers (as a multiset, exactly equal) and
     devices with the same interfaces (as a set) and the same add_addr records (as a multiset) -- under the
     guard that excludes the known counterexample *)
  Theorem execute_for_perm_exact_partial :
    forall drules drules' irules irules' vrules vrules' device nbs all d0 dp dp' vp vp' ip ip',
      execute_direct dmatches dhandler connections sch_direct sch_pair drules device nbs = inr dp ->
      execute_direct dmatches dhandler connections sch_direct sch_pair drules' device nbs = inr dp' ->
      execute_virtual vmatches vhandler sch_vlocal sch_vpeer vrules device = inr vp ->
      execute_virtual vmatches vhandler sch_vlocal sch_vpeer vrules' device = inr vp' ->
      execute_indirect imatches ihandler sch_indirect sch_pair irules device all = inr ip ->
      execute_indirect imatches ihandler sch_indirect sch_pair irules' device all = inr ip' ->
      Permutation dp dp' -> Permutation vp vp' -> Permutation ip ip' ->
      Forall (plain_ifname_known (d_ifs d0)) ip ->
      conv_same (xfor drules irules vrules device nbs all d0) (xfor drules' irules' vrules' device nbs all d0).
  Proof.
    intros drules drules' irules irules' vrules vrules' device nbs all d0 dp dp' vp vp' ip ip'
           H1 H1' H2 H2' H3 H3' P1 P2 P3 HG.
    rewrite (execute_for_as_conv_all _ _ _ _ _ _ d0 _ _ _ H1 H2 H3),
            (execute_for_as_conv_all _ _ _ _ _ _ d0 _ _ _ H1' H2' H3').
    apply conv_all_perm; assumption.
  Qed.

  (* PARTIAL 2: execute_for as a whole is independent of the registration order of the VIRTUAL rules *)
  Theorem execute_for_vrules_perm_partial :
    forall drules irules vrules vrules' device nbs all d0,
      Permutation vrules vrules' ->
      (forall ip, execute_indirect imatches ihandler sch_indirect sch_pair irules device all = inr ip ->
                  Forall (plain_ifname_known (d_ifs d0)) ip) ->
      conv_same (xfor drules irules vrules device nbs all d0) (xfor drules irules vrules' device nbs all d0).
  Proof.
    intros drules irules vrules vrules' device nbs all d0 HP HG.
    pose proof (execute_virtual_perm vmatches vhandler sch_vlocal sch_vpeer vrules vrules' device HP) as V.
    assert (F : forall vr a b, (exists e, a = inl e) -> (exists e, b = inl e) ->
                a = xfor drules irules vrules device nbs all d0 -> b = xfor drules irules vr device nbs all d0 ->
                conv_same (xfor drules irules vrules device nbs all d0) (xfor drules irules vr device nbs all d0)).
    { intros vr a b [e Ea] [e' Eb] Ha Hb. rewrite <- Ha, <- Hb, Ea, Eb. exact I. }
    destruct (execute_direct dmatches dhandler connections sch_direct sch_pair drules device nbs) as [e|dp] eqn:E1.
    { eapply F; try reflexivity; apply execute_for_loop_fails; left; exists e; exact E1. }
    destruct (execute_indirect imatches ihandler sch_indirect sch_pair irules device all) as [e|ip] eqn:E3.
    { eapply F; try reflexivity; apply execute_for_loop_fails; right; right; exists e; exact E3. }
    destruct (execute_virtual vmatches vhandler sch_vlocal sch_vpeer vrules device) as [e|vp] eqn:E2;
      destruct (execute_virtual vmatches vhandler sch_vlocal sch_vpeer vrules' device) as [e'|vp'] eqn:E2';
      try contradiction.
    { eapply F; try reflexivity; apply execute_for_loop_fails; right; left; eexists; eassumption. }
    apply (execute_for_perm_exact_partial drules drules irules irules vrules vrules' device nbs all d0
             dp dp vp vp' ip ip E1 E1 E2 E2' E3 E3 (Permutation_refl _) V (Permutation_refl _) (HG ip eq_refl)).
  Qed.
End WholeOrder.

(* The full claim for execute_for: all three rule lists permuted; the results compared as Spec/P_C15 does
   (peers_same: peers as finite maps, sets by membership; add_addr records as a multiset).

   NOT PROVED.  What is proved: the rule loops (execute_direct_perm, execute_indirect_perm: sessions_same, i.e.
   sessions pairwise equal only up to veqb true; execute_virtual_perm: exactly the same pairs, permuted) and
   the conversion loops on EXACTLY equal pairs in any order (conv_all_perm, execute_for_perm_exact_partial,
   execute_for_vrules_perm_partial).  What is missing is the bridge between the two: a congruence lemma
     sessions_same sch_pair dp dp' -> sessions_same sch_pair ip ip' -> Permutation vp vp' ->
     conv_all .. dp vp ip d0  ~  conv_all .. dp' vp ip' d0   (peers up to peer_eqb)
   i.e. that to_interface_changes / opt_str / strs_of "ports" / apply_direct / apply_indirect / mk_peer /
   peer_options give peer_eqb-equal peers and equal records on two pairs (k, p), (k', p') with key_eqb k k' and
   veqb true (MMerge sch_pair) (VObj p) (VObj p').  This needs (1) veqb-related values to have the same shape and
   equal atoms (so that every lookup of an int/str attribute agrees), (2) a guard that no Concat field of the
   DTO reaches a Peer attribute (a Concat list merged in the other order is a permuted list, and peer_eqb
   compares lists element by element; the shipped peer DTOs have no Concat field), and (3) that the key's fqdn
   (first component) is equal on both sides (key_eqb_fqdn).  No counterexample is known under these guards. *)
Definition execute_for_perm_statement : Prop :=
  forall dmatches dhandler imatches ihandler vmatches vhandler connections dto sch_vlocal sch_vpeer sch_pair
         opt_fields nm drules drules' irules irules' vrules vrules' device nbs all d0,
    order_free (MMerge (drop_field "device" sch_pair)) = true ->
    nodupb (keys (drop_field "device" sch_pair)) = true ->
    lookup "local" (drop_field "device" sch_pair) = Some (MMerge dto) ->
    lookup "connected" (drop_field "device" sch_pair) = Some (MMerge dto) ->
    lookup "ports" (drop_field "device" sch_pair) = Some MForbidChange ->
    handler_wf dto dhandler -> handler_wf dto ihandler ->
    (forall m, lookup "addr" dto = Some m -> scalar m = true) ->
    (forall m, lookup "vrf" dto = Some m -> scalar m = true) ->
    Permutation drules drules' -> Permutation irules irules' -> Permutation vrules vrules' ->
    (forall ip, execute_indirect imatches ihandler dto sch_pair irules device all = inr ip ->
                Forall (plain_ifname_known (d_ifs d0)) ip) ->
    match execute_for dmatches dhandler imatches ihandler vmatches vhandler connections
                      dto dto sch_vlocal sch_vpeer sch_pair opt_fields nm drules irules vrules device nbs all d0,
          execute_for dmatches dhandler imatches ihandler vmatches vhandler connections
                      dto dto sch_vlocal sch_vpeer sch_pair opt_fields nm drules' irules' vrules' device nbs all d0 with
    | inl _, inl _ => True
    | inr (ps, d), inr (ps', d') =>
      peers_same ps ps' = true /\ mset_eqb logrec_eqb (d_log d) (d_log d') = true
    | _, _ => False
    end.

(* non-vacuity of the guard plain_ifname_known: one session creates SVI 5, the other names lo0, which the
   initial device has.  Both orders succeed, with the peers and records in the other order. *)
Definition mo_con (a : string) : entries := [("addr", VAtom (AStr a)); ("asnum", VAtom (AInt 65002))].
Definition mo_ip_svi : peer_key * entries :=
  (("b1", VAtom (AStr "172.16.0.2/32"), VAtom (AStr "")),
   mk_pair_ind [("addr", VAtom (AStr "10.0.0.1/32")); ("svi", VAtom (AInt 5))] (mo_con "172.16.0.2/32")).
Definition mo_ip_name (i : string) : peer_key * entries :=
  (("b1", VAtom (AStr "172.16.0.3/32"), VAtom (AStr "")),
   mk_pair_ind [("addr", VAtom (AStr "10.0.0.2/32")); ("ifname", VAtom (AStr i))] (mo_con "172.16.0.3/32")).
Definition mo_d0 : dev := Dev ["lo0"] [].

Example conv_indirect_perm_example :
  Forall (plain_ifname_known (d_ifs mo_d0)) [mo_ip_svi; mo_ip_name "lo0"] /\
  exists ps ps' d d',
    conv_indirect [] stub_naming [mo_ip_svi; mo_ip_name "lo0"] mo_d0 = inr (ps, d) /\
    conv_indirect [] stub_naming [mo_ip_name "lo0"; mo_ip_svi] mo_d0 = inr (ps', d') /\
    d_log d = [("Vlan5", "10.0.0.1/32", None); ("lo0", "10.0.0.2/32", None)] /\
    d_log d' = [("lo0", "10.0.0.2/32", None); ("Vlan5", "10.0.0.1/32", None)] /\
    ps <> ps' /\ Permutation ps ps' /\ dev_same d d'.
Proof.
  assert (G : Forall (plain_ifname_known (d_ifs mo_d0)) [mo_ip_svi; mo_ip_name "lo0"]).
  { constructor; [|constructor; [|constructor]]; intros ch i H1 H2 L S V N; vm_compute in H1; vm_compute in H2.
    - discriminate.
    - injection H2 as H2. subst i. reflexivity. }
  split; [exact G|].
  pose proof (conv_indirect_perm [] stub_naming (d_ifs mo_d0) [mo_ip_svi; mo_ip_name "lo0"]
                [mo_ip_name "lo0"; mo_ip_svi] mo_d0 mo_d0 G (perm_swap _ _ _)
                (fun i Hi => Hi) (fun i Hi => Hi) (dev_same_refl _)) as T.
  destruct (conv_indirect [] stub_naming [mo_ip_svi; mo_ip_name "lo0"] mo_d0) as [e|[ps d]] eqn:Ea;
    [vm_compute in Ea; discriminate|].
  destruct (conv_indirect [] stub_naming [mo_ip_name "lo0"; mo_ip_svi] mo_d0) as [e|[ps' d']] eqn:Eb;
    [vm_compute in Eb; discriminate|].
  destruct T as [T1 T2]. exists ps, ps', d, d'. split; [reflexivity|]. split; [reflexivity|].
  vm_compute in Ea. vm_compute in Eb. injection Ea as Ea1 Ea2. injection Eb as Eb1 Eb2.
  split; [rewrite <- Ea2; reflexivity|]. split; [rewrite <- Eb2; reflexivity|].
  split; [rewrite <- Ea1, <- Eb1; discriminate|]. split; assumption.
Qed.

(* without the guard the conversion of the indirect sessions depends on their order (the known
   counterexample at the level of conv_indirect): "Vlan5" exists only once the SVI session has been applied *)
Example conv_indirect_order_refuted :
  ~ plain_ifname_known (d_ifs mo_d0) (mo_ip_name "Vlan5") /\
  (exists r, conv_indirect [] stub_naming [mo_ip_svi; mo_ip_name "Vlan5"] mo_d0 = inr r) /\
  conv_indirect [] stub_naming [mo_ip_name "Vlan5"; mo_ip_svi] mo_d0 = inl FValue.
Proof.
  split; [|split].
  - intros G. unfold plain_ifname_known in G.
    destruct (to_interface_changes (obj_of "local" (snd (mo_ip_name "Vlan5")))) as [e|ch] eqn:E;
      [vm_compute in E; discriminate|].
    specialize (G ch "Vlan5" eq_refl eq_refl). vm_compute in E. injection E as E. subst ch.
    specialize (G eq_refl eq_refl eq_refl). vm_compute in G. discriminate G. intros H. discriminate.
  - eexists. vm_compute. reflexivity.
  - vm_compute. reflexivity.
Qed.

Print Assumptions lookup_direct_perm.
Print Assumptions conv_indirect_perm_example.
Print Assumptions conv_indirect_order_refuted.
Print Assumptions direct_work_rules_perm.
Print Assumptions virtual_work_perm.
Print Assumptions kfold_perm.
Print Assumptions gfold_perm.
Print Assumptions execute_indirect_by_key.
Print Assumptions execute_direct_by_key.
Print Assumptions execute_indirect_perm.
Print Assumptions execute_direct_perm.
Print Assumptions execute_virtual_perm.
Print Assumptions merge_drop_unset.
Print Assumptions execute_indirect_perm_unset_field.
Print Assumptions execute_direct_perm_unset_field.
Print Assumptions conv_direct_perm.
Print Assumptions conv_virtual_perm.
Print Assumptions conv_indirect_perm.
Print Assumptions conv_all_perm.
Print Assumptions execute_for_perm_exact_partial.
Print Assumptions execute_for_vrules_perm_partial.
Print Assumptions execute_indirect_perm_example.
Print Assumptions execute_direct_perm_example.
Print Assumptions execute_virtual_perm_example.
Print Assumptions execute_perm_unset_field_example.
