(* C17 proof library, part 4: implicit.compile_tree always produces a rule tree in the domain
   of the theorems ([wfr]: rows distinct on every level), provided no parsed row is empty
   (syntax._parse_tree_with_params skips the lone `!`; a raw rule is never blank). *)
From Coq Require Import List String Ascii Bool Arith Lia.
From Annet Require Import Base.Str Base.Tree Model.Implicit Spec.P_C17 Proofs.ImplicitLib.
Import ListNotations.
Open Scope string_scope.
Open Scope list_scope.

Section PrawInd.
  Variable P : praw -> Prop.
  Hypothesis H : forall raw row ign ks, Forall P ks -> P (PRaw raw row ign ks).
  Fixpoint praw_ind2 (p : praw) : P p :=
    match p with
    | PRaw raw row ign ks =>
      H raw row ign ks ((fix go (l : list praw) : Forall P l :=
                           match l with
                           | [] => Forall_nil _
                           | x :: l' => Forall_cons x (praw_ind2 x) (go l')
                           end) ks)
    end.
End PrawInd.

(* no empty row anywhere *)
Fixpoint rows_ne (p : praw) : Prop :=
  match p with
  | PRaw _ row _ ks =>
    row <> "" /\ (fix all (l : list praw) : Prop := match l with [] => True | x :: l' => rows_ne x /\ all l' end) ks
  end.

Lemma rows_ne_kids raw row ign ks : rows_ne (PRaw raw row ign ks) -> row <> "" /\ forall k, In k ks -> rows_ne k.
Proof.
  cbn [rows_ne]. intros [H1 H2]. split; [exact H1|].
  induction ks as [|x ks IH]; intros k Hk; [destruct Hk|].
  destruct H2 as [Hx Hr]. destruct Hk as [E|Hk]; [subst; exact Hx | apply IH; assumption].
Qed.

Lemma NoDup_app_intro' {A} (l1 l2 : list A) :
  NoDup l1 -> NoDup l2 -> (forall x, In x l1 -> In x l2 -> False) -> NoDup (l1 ++ l2).
Proof.
  induction l1 as [|x l1 IH]; intros H1 H2 Hd; cbn; [exact H2|].
  inversion H1 as [|x' l' Hx Hl]; subst. constructor.
  - rewrite in_app_iff. intros [Hin|Hin]; [contradiction|]. apply (Hd x); [now left|exact Hin].
  - apply IH; [exact Hl|exact H2|]. intros y Hy1 Hy2. apply (Hd y); [now right|exact Hy2].
Qed.

Definition rule_ok (r : irule) : Prop := i_row r <> "" /\ wfr (i_kids r).

Lemma wfr_parts rs : NoDup (map i_row rs) -> (forall r, In r rs -> rule_ok r) -> wfr rs.
Proof.
  induction rs as [|r rs IH]; intros Hnd H; [constructor|].
  cbn in Hnd. inversion Hnd as [|x l Hx Hl]; subst.
  destruct (H r (or_introl eq_refl)) as [H1 H2]. constructor; try assumption.
  apply IH; [exact Hl|]. intros r' Hr'. apply H. now right.
Qed.

(* rules[row] = rule keeps the rows distinct *)
Lemma rule_set_rows r : forall l,
  map i_row (rule_set r l) = if existsb (String.eqb (i_row r)) (map i_row l) then map i_row l
                             else map i_row l ++ [i_row r].
Proof.
  induction l as [|x l IH]; [reflexivity|]. cbn [rule_set map existsb].
  rewrite (String.eqb_sym (i_row r) (i_row x)).
  destruct (String.eqb_spec (i_row x) (i_row r)) as [E|E]; cbn [orb map].
  - rewrite E. reflexivity.
  - rewrite IH. destruct (existsb (String.eqb (i_row r)) (map i_row l)); reflexivity.
Qed.

Lemma rule_set_In r l x : In x (rule_set r l) -> x = r \/ In x l.
Proof.
  induction l as [|y l IH]; cbn [rule_set]; intros H.
  - destruct H as [H|[]]; auto.
  - destruct (String.eqb (i_row y) (i_row r)).
    + destruct H as [H|H]; [auto | right; now right].
    + destruct H as [H|H]; [right; now left|]. destruct (IH H) as [E|E]; [auto | right; now right].
Qed.

Lemma rule_set_inv r l : NoDup (map i_row l) -> (forall x, In x l -> rule_ok x) -> rule_ok r ->
  NoDup (map i_row (rule_set r l)) /\ (forall x, In x (rule_set r l) -> rule_ok x).
Proof.
  intros Hnd Hall Hr. split.
  - rewrite rule_set_rows. destruct (existsb (String.eqb (i_row r)) (map i_row l)) eqn:E; [exact Hnd|].
    apply NoDup_app_intro'.
    + exact Hnd.
    + constructor; [intros [] | constructor].
    + intros k H1 [H2|[]]. subst k. apply existsb_eqb_In in H1. congruence.
  - intros x Hx. apply rule_set_In in Hx as [E|Hx]; [subst; exact Hr | apply Hall; exact Hx].
Qed.

Lemma rules_of_wfr l : (forall r, In r l -> rule_ok r) -> wfr (rules_of l).
Proof.
  intros H. unfold rules_of.
  assert (G : forall acc, NoDup (map i_row acc) -> (forall x, In x acc -> rule_ok x) ->
              NoDup (map i_row (fold_left (fun acc r => rule_set r acc) l acc)) /\
              (forall x, In x (fold_left (fun acc r => rule_set r acc) l acc) -> rule_ok x)).
  { induction l as [|r l IH]; intros acc Hnd Hall; [split; assumption|]. cbn [fold_left].
    destruct (rule_set_inv r acc Hnd Hall (H r (or_introl eq_refl))) as [H1 H2].
    apply IH; [|exact H1 | exact H2]. intros r' Hr'. apply H. now right. }
  destruct (G [] (NoDup_nil _) (fun x (Hx : In x []) => match Hx with end)) as [G1 G2].
  apply wfr_parts; assumption.
Qed.

Lemma compile_one_ok : forall p, rows_ne p -> rule_ok (compile_one p).
Proof.
  induction p as [raw row ign ks IH] using praw_ind2. intros Hne.
  destruct (rows_ne_kids raw row ign ks Hne) as [H1 H2].
  cbn [compile_one]. split; cbn [i_row i_kids]; [exact H1|].
  apply rules_of_wfr. intros r Hr. apply in_map_iff in Hr as (k & E & Hk). subst r.
  rewrite Forall_forall in IH. apply (IH k Hk). apply H2. exact Hk.
Qed.

(* implicit.compile_tree lands in the domain of the C17 theorems *)
Theorem compile_tree_wfr l : (forall p, In p l -> rows_ne p) -> wfr (compile_tree l).
Proof.
  intros H. unfold compile_tree. apply rules_of_wfr. intros r Hr.
  apply in_map_iff in Hr as (k & E & Hk). subst r. apply compile_one_ok. apply H. exact Hk.
Qed.

(* ---------- the matcher ---------- *)
From Annet Require Import Model.Pattern.

(* imatch is the shared rule matcher (as Model/Pipeline.v uses it: rule_match pat false row) on
   the widened rule row, with the pattern compiled before the line is known *)
Lemma imatch_rule_match pat line :
  imatch pat line = match rule_match (widen pat) false line with Some _ => true | None => false end.
Proof.
  unfold imatch, rule_match. cbv zeta. destruct (rule_pat (widen pat)); reflexivity.
Qed.

(* on a rule row of the plain rule language widen changes nothing *)
Lemma widen_word_plain w t : parse_tok w = Some t -> widen_word w = w.
Proof. unfold widen_word. intros E. rewrite E. reflexivity. Qed.

(* the memoising matcher used by the harness to evaluate the predicates is imatch *)
Lemma tmatch_imatch : forall rows pat line,
  tmatch (map (fun p => (p, imatch p)) rows) pat line = imatch pat line.
Proof.
  induction rows as [|p rows IH]; intros pat line; [reflexivity|]. cbn [map tmatch].
  destruct (String.eqb_spec p pat) as [E|E]; [subst; reflexivity | apply IH].
Qed.

Corollary tmatch_table_of rs pat line : tmatch (table_of rs) pat line = imatch pat line.
Proof. unfold table_of. apply tmatch_imatch. Qed.
