(* C03 proof library, part 2: the annotation of a well-formed configuration is
   well-formed, and the annotations of two configurations under the same rules agree
   on common rows. *)
From Coq Require Import List String Bool Arith Lia Permutation.
From Annet Require Import Base.Str Base.Tree Model.Rulebook Model.Diff Spec.P_C03 Proofs.DiffBasics
  Proofs.DiffProofsLib.
Import ListNotations.
Open Scope list_scope.

Section Annot.
  Variable rmatch : string -> string -> option (list string).

  Lemma annot_f_cons rs row c l :
    annot_f rmatch rs ((row, c) :: l) =
    match match_row rmatch row rs with
    | Some (mi, crs) => (row, mi, annot rmatch crs c) :: annot_f rmatch rs l
    | None => annot_f rmatch rs l
    end.
  Proof.
    unfold annot_f. cbn [annot akids].
    destruct (match_row rmatch row rs) as [[mi crs]|]; reflexivity.
  Qed.

  Lemma annot_f_nil rs : annot_f rmatch rs [] = [].
  Proof. reflexivity. Qed.

  Lemma annot_akids rs t : akids (annot rmatch rs t) = annot_f rmatch rs (kids t).
  Proof. destruct t as [k]. reflexivity. Qed.

  Lemma annot_rows_incl rs : forall l r, In r (arows (annot_f rmatch rs l)) -> In r (keys l).
  Proof.
    induction l as [|[row c] l IH]; intros r H.
    - destruct H.
    - rewrite annot_f_cons in H. destruct (match_row rmatch row rs) as [[mi crs]|].
      + cbn in H. destruct H as [H|H]; [left; exact H | right; apply IH; exact H].
      + right. apply IH. exact H.
  Qed.

  Lemma annot_awf : forall f rs, wf f -> awf (annot_f rmatch rs f).
  Proof.
    apply (forest_ind2 (fun t => forall rs, wf (kids t) -> awf (annot_f rmatch rs (kids t)))
                       (fun f => forall rs, wf f -> awf (annot_f rmatch rs f))).
    - intros k IH. exact IH.
    - intros rs _. constructor.
    - intros r t k IHt IHk rs Hwf. destruct (wf_inv _ _ _ Hwf) as (Hr & Hc & Hk).
      rewrite annot_f_cons. destruct (match_row rmatch r rs) as [[mi crs]|].
      + constructor.
        * intro Hin. apply Hr. eapply annot_rows_incl. exact Hin.
        * rewrite annot_akids. apply IHt. exact Hc.
        * apply IHk. exact Hk.
      + apply IHk. exact Hk.
  Qed.

  Lemma annot_alookup rs : forall l r mo so, alookup r (annot_f rmatch rs l) = Some (mo, so) ->
    exists crs c, match_row rmatch r rs = Some (mo, crs) /\ so = annot rmatch crs c.
  Proof.
    induction l as [|[row c] l IH]; intros r mo so H.
    - discriminate.
    - rewrite annot_f_cons in H. destruct (match_row rmatch row rs) as [[mi crs]|] eqn:E.
      + cbn in H. destruct (String.eqb_spec row r) as [E2|E2].
        * injection H as E3 E4; subst. exists crs, c. split; [exact E | reflexivity].
        * apply IH. exact H.
      + apply IH. exact H.
  Qed.

  Lemma annot_compat : forall new rs old, compat (annot_f rmatch rs old) (annot_f rmatch rs new).
  Proof.
    apply (forest_ind2 (fun t => forall rs old, compat (annot_f rmatch rs old) (annot_f rmatch rs (kids t)))
                       (fun f => forall rs old, compat (annot_f rmatch rs old) (annot_f rmatch rs f))).
    - intros k IH. exact IH.
    - intros rs old. constructor.
    - intros r t k IHt IHk rs old. rewrite annot_f_cons.
      destruct (match_row rmatch r rs) as [[mi crs]|] eqn:E; [|apply IHk].
      constructor; [| |apply IHk].
      + intros mo so H. apply annot_alookup in H as (crs' & c' & E1 & E2). congruence.
      + intros mo so H. apply annot_alookup in H as (crs' & c' & E1 & E2).
        rewrite E in E1. injection E1 as E3 E4. subst. rewrite !annot_akids. apply IHt.
  Qed.
End Annot.
