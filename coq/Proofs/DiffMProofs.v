(* C03, extended domain (%multiline): without rows of %multiline rules the extended differ diff_tM is
   Model/Diff.v's diff_t, at every depth. *)
From Coq Require Import List String Bool Arith Lia Permutation.
From Annet Require Import Base.Str Base.Tree Model.Pattern Model.Rulebook Model.Diff Model.DiffX Spec.P_C03 Spec.P_C03X
  Proofs.DiffBasics Proofs.DiffProofsLib.
Import ListNotations.
Open Scope list_scope.

Section M.
  Variable fl : minfo -> xflags.

  Lemma noml_cons r m s f : noml fl ((r, m, s) :: f) = negb (ml fl m) && noml fl (akids s) && noml fl f.
  Proof. unfold noml. cbn [noml_t]. destruct s as [k]. reflexivity. Qed.

  Lemma noml_In f : noml fl f = true -> forall r m s, In (r, m, s) f -> ml fl m = false /\ noml fl (akids s) = true.
  Proof.
    induction f as [|[[r0 m0] s0] f IH]; intros H r m s Hin; [destruct Hin|].
    rewrite noml_cons in H. apply andb_true_iff in H as [H H3]. apply andb_true_iff in H as [H1 H2].
    destruct Hin as [E|Hin].
    - injection E as E1 E2 E3; subst. split; [apply negb_true_iff; exact H1 | exact H2].
    - eapply IH; eassumption.
  Qed.

  Lemma noml_filter p f : noml fl f = true -> noml fl (filter p f) = true.
  Proof.
    induction f as [|[[r m] s] f IH]; intros H; [reflexivity|].
    rewrite noml_cons in H. apply andb_true_iff in H as [H H3]. cbn [filter].
    destruct (p (r, m, s)); [rewrite noml_cons, H, (IH H3); reflexivity | apply IH; exact H3].
  Qed.

  Lemma xl_noml m : ml fl m = false -> mi_xlogic fl m = XL (mi_dlogic m).
  Proof. intros H. unfold mi_xlogic. rewrite H. reflexivity. Qed.

  (* ---------- grouping ---------- *)
  Lemma uniq_xl_XL : forall l seen, uniq_xl (map XL l) (map XL seen) = map XL (uniq_dl l seen).
  Proof.
    induction l as [|x l IH]; intros seen; [reflexivity|]. cbn [map uniq_xl uniq_dl].
    assert (E : existsb (xlogic_eqb (XL x)) (map XL seen) = existsb (dlogic_eqb x) seen).
    { induction seen as [|y seen IHs]; [reflexivity|]. cbn [map existsb xlogic_eqb]. rewrite IHs. reflexivity. }
    rewrite E. destruct (existsb (dlogic_eqb x) seen).
    - apply IH.
    - cbn [map]. f_equal. apply (IH (x :: seen)).
  Qed.

  Lemma map_xl_noml (f : aforest) : noml fl f = true ->
    map (fun k => mi_xlogic fl (snd (fst k))) f = map XL (map (fun k => mi_dlogic (ami k)) f).
  Proof.
    intros H. rewrite map_map. apply map_ext_in. intros [[r m] s] Hin.
    destruct (noml_In f H r m s Hin) as [Hm _]. cbn [fst snd ami]. apply xl_noml. exact Hm.
  Qed.

  Lemma filter_xl_noml (f : aforest) D : noml fl f = true ->
    filter (fun k => xlogic_eqb (mi_xlogic fl (snd (fst k))) (XL D)) f = filter (inL D) f.
  Proof.
    intros H. apply filter_ext_in. intros [[r m] s] Hin.
    destruct (noml_In f H r m s Hin) as [Hm _]. cbn [fst snd]. rewrite (xl_noml m Hm). reflexivity.
  Qed.

  (* ---------- removed subtrees ---------- *)
  Lemma removed_tM_eq : forall t, noml fl (akids t) = true -> removed_tM fl t = removed_t t.
  Proof.
    induction t as [k IH] using atree_ind2. cbn [akids]. intros Hn.
    cbn [removed_tM removed_t].
    set (allM := (fix go (l : aforest) : list (xlogic * list dnode) :=
                    match l with
                    | [] => []
                    | (row, mi, sub) :: l' =>
                      (mi_xlogic fl mi,
                       if ml fl mi
                       then (if tree_eqb (plain sub) (T []) then [] else [DN Removed row mi (body Removed (plain sub))])
                       else [DN Removed row mi (removed_tM fl sub)]) :: go l'
                    end) k).
    set (all := (fix go (l : aforest) : list (dlogic * dnode) :=
                   match l with
                   | [] => []
                   | (row, mi, sub) :: l' => (mi_dlogic mi, DN Removed row mi (removed_t sub)) :: go l'
                   end) k).
    assert (E : allM = map (fun x => (XL (fst x), [snd x])) all).
    { subst allM all. clear -IH Hn. induction k as [|[[r m] s] k IHk]; [reflexivity|].
      inversion IH as [|? ? Hs Hk]; subst. cbn [asub snd] in Hs.
      rewrite noml_cons in Hn. apply andb_true_iff in Hn as [Hn H3]. apply andb_true_iff in Hn as [H1 H2].
      apply negb_true_iff in H1. cbn [map fst snd]. rewrite H1, (xl_noml m H1), (Hs H2). f_equal. apply IHk; assumption. }
    rewrite E. rewrite map_map. cbn [fst].
    rewrite <- (map_map fst XL). change (@nil xlogic) with (map XL []). rewrite uniq_xl_XL.
    rewrite flat_map_concat_map, map_map, <- flat_map_concat_map.
    apply flat_map_ext. intros D. clear E. clearbody all. clear allM.
    induction all as [|[d x] all IHa]; [reflexivity|].
    cbn [map filter fst snd xlogic_eqb]. destruct (dlogic_eqb d D); cbn [map flat_map snd app]; rewrite IHa; reflexivity.
  Qed.

  Lemma removed_rowsM_eq : forall l newrows i, noml fl l = true ->
    removed_rowsM fl l newrows i = removed_rows l newrows i.
  Proof.
    induction l as [|[[r m] s] l IH]; intros newrows i H; [reflexivity|].
    rewrite noml_cons in H. apply andb_true_iff in H as [H H3]. apply andb_true_iff in H as [H1 H2].
    cbn [removed_rowsM removed_rows]. rewrite (IH _ _ H3), (removed_tM_eq s H2). reflexivity.
  Qed.

  (* ---------- one group ---------- *)
  Definition cksM (f : aforest) : list ckid := map (fun k => (arow k, ami k, diff_tM fl (asub k))) f.
  Definition xks (f : aforest) : list xkid := map (fun k => (arow k, ami k, asub k, diff_tM fl (asub k))) f.

  Definition agree_on (f : aforest) : Prop :=
    Forall (fun k => forall ao pop inrw, noml fl ao = true -> diff_tM fl (asub k) ao pop inrw = diff_t (asub k) ao pop inrw) f.

  Lemma afind_noml : forall f row i j s, noml fl f = true -> afind row f i = Some (j, s) -> noml fl (akids s) = true.
  Proof.
    induction f as [|[[r m] c] f IH]; intros row i j s H E; [discriminate|].
    rewrite noml_cons in H. apply andb_true_iff in H as [H H3]. apply andb_true_iff in H as [H1 H2].
    cbn [afind] in E. destruct (String.eqb r row).
    - injection E as E1 E2; subst. exact H2.
    - eapply IH; eassumption.
  Qed.

  Lemma scan_new_eq og pop inrw mta : noml fl og = true -> forall f, agree_on f -> forall i dis,
    scan_new og pop inrw mta (cksM f) i dis = scan_new og pop inrw mta (cks f) i dis.
  Proof.
    intros Ho f Hf. induction Hf as [|[[r m] s] f Hk Hf IH]; intros i dis; [reflexivity|].
    cbn [cksM cks map arow ami asub fst snd scan_new]. fold (cksM f). fold (cks f). cbn [asub snd] in Hk.
    destruct (afind r og 0) as [[j oldsub]|] eqn:E.
    - pose proof (afind_noml _ _ _ _ _ Ho E) as Hs.
      destruct (dis || negb (Nat.eqb i j)); rewrite (Hk _ _ _ Hs), IH; reflexivity.
    - rewrite (Hk [] _ _ eq_refl), IH. reflexivity.
  Qed.

  Lemma cksM_rows f : map (fun k : ckid => fst (fst k)) (cksM f) = map (fun k : ckid => fst (fst k)) (cks f).
  Proof. unfold cksM, cks. rewrite !map_map. reflexivity. Qed.

  Lemma base_diffM_eq og pop inrw mta f : noml fl og = true -> agree_on f ->
    base_diffM fl og pop inrw mta (cksM f) = base_diff og pop inrw mta (cks f).
  Proof.
    intros Ho Hf. unfold base_diffM, base_diff. rewrite scan_new_eq, cksM_rows, removed_rowsM_eq by assumption. reflexivity.
  Qed.

  Lemma run_dlogicM_eq D og pop inrw f : noml fl og = true -> agree_on f ->
    run_dlogicM fl D og (cksM f) pop inrw = run_dlogic D og (cks f) pop inrw.
  Proof. intros Ho Hf. destruct D; cbn [run_dlogicM run_dlogic]; rewrite base_diffM_eq by assumption; reflexivity. Qed.

  Lemma agree_on_filter p f : agree_on f -> agree_on (filter p f).
  Proof. unfold agree_on. rewrite !Forall_forall. intros H k Hk. apply H. apply filter_In in Hk. apply Hk. Qed.

  Lemma diff_tM_unfold nk old pop inrw : diff_tM fl (AT nk) old pop inrw = diff_levelM fl old (xks nk) pop inrw.
  Proof.
    cbn [diff_tM]. f_equal.
    induction nk as [|[[r m] c] nk IH]; [reflexivity|].
    cbn [xks map]. unfold arow, ami, asub. cbn [fst snd]. f_equal. exact IH.
  Qed.

  Lemma filter_xks_noml D f : noml fl f = true ->
    map xk_ck (filter (fun k : xkid => xlogic_eqb (mi_xlogic fl (xk_mi k)) (XL D)) (xks f)) = cksM (filter (inL D) f).
  Proof.
    induction f as [|[[r m] c] f IH]; intros H; [reflexivity|].
    rewrite noml_cons in H. apply andb_true_iff in H as [H H3]. apply andb_true_iff in H as [H1 H2].
    apply negb_true_iff in H1.
    specialize (IH H3).
    change (xks ((r, m, c) :: f)) with ((r, m, c, diff_tM fl c) :: xks f).
    cbn [filter]. change (xk_mi (r, m, c, diff_tM fl c)) with m. rewrite (xl_noml m H1). cbn [xlogic_eqb].
    change (inL D (r, m, c)) with (dlogic_eqb (mi_dlogic m) D).
    destruct (dlogic_eqb (mi_dlogic m) D); [|exact IH].
    cbn [map]. rewrite IH. reflexivity.
  Qed.

  Theorem diff_tM_coincides : forall nt, noml fl (akids nt) = true ->
    forall ao pop inrw, noml fl ao = true -> diff_tM fl nt ao pop inrw = diff_t nt ao pop inrw.
  Proof.
    induction nt as [nk IH] using atree_ind2. cbn [akids]. intros Hn ao pop inrw Ho.
    assert (Hag : agree_on nk).
    { unfold agree_on. rewrite Forall_forall in *. intros [[r m] s] Hin a p i Ha. cbn [asub snd].
      destruct (noml_In nk Hn r m s Hin) as [_ Hs]. apply (IH _ Hin Hs). exact Ha. }
    rewrite diff_tM_unfold, diff_t_unfold, diff_level_unfold. unfold diff_levelM.
    replace (map (fun k : xkid => mi_xlogic fl (xk_mi k)) (xks nk)) with (map (fun k => mi_xlogic fl (snd (fst k))) nk)
      by (unfold xks; rewrite map_map; reflexivity).
    rewrite (map_xl_noml ao Ho), (map_xl_noml nk Hn), <- map_app.
    change (@nil xlogic) with (map XL []). rewrite uniq_xl_XL.
    rewrite flat_map_concat_map, map_map, <- flat_map_concat_map.
    apply flat_map_ext. intros D. cbn [run_xlogic].
    rewrite (filter_xl_noml ao D Ho), (filter_xks_noml D nk Hn).
    apply run_dlogicM_eq; [apply noml_filter; exact Ho | apply agree_on_filter; exact Hag].
  Qed.

  (* hence the whole extended make_diff is the %ignore_case-only one, and without any flag Model/Diff.v's *)
  Theorem make_diffXM_noml rmatch rs old new :
    noml fl (normO fl (annot_f rmatch rs old) (annot_f rmatch rs new)) = true ->
    noml fl (normN fl (annot_f rmatch rs old) (annot_f rmatch rs new)) = true ->
    make_diffXM fl rmatch rs old new = make_diffX fl rmatch rs old new.
  Proof.
    intros Ho Hn. unfold make_diffXM, make_diffX. f_equal.
    apply (diff_tM_coincides (AT _)); assumption.
  Qed.
End M.
