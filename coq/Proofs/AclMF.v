(* C06: on unambiguous inputs the filtered tree does not depend on the ranking of competing
   rules (prio, shared-symbol heuristic, order of the rules): strict domination order on rule
   sets that also tracks cant_delete, preserved by _select_match whatever the ranking. *)
From Coq Require Import List String Ascii Bool Arith Lia Permutation Sorted.
From Annet Require Import Base.Str Base.Tree Model.Pattern Model.Order Model.Acl Spec.P_C06
     Proofs.SortProofs Proofs.AclProofs Proofs.AclMono Proofs.AclSelect.
Import ListNotations.
Open Scope string_scope.
Open Scope list_scope.
Arguments Nat.ltb : simpl never.
Arguments Nat.leb : simpl never.



Lemma srle_unfold r L : srle r L <-> exists r', In r' L /\ sbelow r r'.
Proof.
  destruct r as [i c p g kl kg]. cbn [srle]. unfold sbelow, slle, allcd. cbn [ar_id ar_kl ar_kg ar_cd].
  split; intros (r' & H1 & H2 & H3 & H4 & H5); exists r'; repeat split; auto.
  - apply (proj1 (all_forall (fun k => srle k (ar_kl r')) kl)). exact H4.
  - apply (proj1 (all_forall (fun k => srle k (ar_kg r')) kg)). exact H5.
  - apply (proj2 (all_forall (fun k => srle k (ar_kl r')) kl)). exact H4.
  - apply (proj2 (all_forall (fun k => srle k (ar_kg r')) kg)). exact H5.
Qed.

Lemma swfr_unfold r : swfr r <-> swfl (ar_kl r) /\ swfl (ar_kg r).
Proof.
  destruct r as [i c p g kl kg]. cbn [swfr ar_kl ar_kg]. unfold swfl.
  rewrite (all_forall swfr kl), (all_forall swfr kg). tauto.
Qed.

Lemma sbelow_refl : forall r, sbelow r r.
Proof.
  apply arule_ind_forall. intros r Hl Hg. rewrite Forall_forall in Hl, Hg.
  split; [reflexivity|]. split; [auto|]. split.
  - intros k Hk. apply srle_unfold. exists k. split; [exact Hk | apply Hl; exact Hk].
  - intros k Hk. apply srle_unfold. exists k. split; [exact Hk | apply Hg; exact Hk].
Qed.

Lemma slle_refl l : slle l l.
Proof. intros r Hr. apply srle_unfold. exists r. split; [exact Hr | apply sbelow_refl]. Qed.

Lemma srle_trans : forall r L1 L2, srle r L1 -> slle L1 L2 -> srle r L2.
Proof.
  apply (arule_ind_forall (fun r => forall L1 L2, srle r L1 -> slle L1 L2 -> srle r L2)).
  intros r IHl IHg L1 L2 H1 HL. rewrite Forall_forall in IHl, IHg.
  apply srle_unfold in H1 as (r1 & Hin1 & I1 & C1 & K1 & G1).
  specialize (HL r1 Hin1). apply srle_unfold in HL as (r2 & Hin2 & I2 & C2 & K2 & G2).
  apply srle_unfold. exists r2. split; [exact Hin2|]. split; [congruence|]. split; [auto|]. split.
  - intros k Hk. exact (IHl k Hk _ _ (K1 k Hk) K2).
  - intros k Hk. exact (IHg k Hk _ _ (G1 k Hk) G2).
Qed.

Lemma slle_trans a b c : slle a b -> slle b c -> slle a c.
Proof. intros H1 H2 r Hr. exact (srle_trans r _ _ (H1 r Hr) H2). Qed.

Lemma sbelow_trans a b c : sbelow a b -> sbelow b c -> sbelow a c.
Proof.
  intros (I1 & C1 & K1 & G1) (I2 & C2 & K2 & G2). split; [congruence|]. split; [auto|].
  split; [exact (slle_trans _ _ _ K1 K2) | exact (slle_trans _ _ _ G1 G2)].
Qed.

Lemma srle_below r r' L : sbelow r r' -> In r' L -> srle r L.
Proof. intros B H. apply srle_unfold. exists r'. auto. Qed.

(* ---------- insertion / fold, generic in a preorder on rules ---------- *)

Section GenIns.
  Variable R : arule -> arule -> Prop.
  Hypothesis R_refl : forall x, R x x.
  Hypothesis R_trans : forall x y z, R x y -> R y z -> R x z.
  Variable m : arule -> arule -> arule.
  Hypothesis m_ub_l : forall x r, R x (m x r).

  Lemma g_ins_ub_acc acc r y : In y acc -> exists y', In y' (ins_rule m acc r) /\ R y y'.
  Proof.
    induction acc as [|x acc IH]; [intros []|].
    rewrite ins_rule_cons. intros [<-|Hy].
    - destruct (String.eqb (ar_id x) (ar_id r)).
      + exists (m x r). split; [now left | apply m_ub_l].
      + exists x. split; [now left | apply R_refl].
    - destruct (String.eqb (ar_id x) (ar_id r)).
      + exists y. split; [now right | apply R_refl].
      + destruct (IH Hy) as (y' & Hy' & B). exists y'. split; [now right | exact B].
  Qed.

  Lemma g_fold_ub_acc b : forall acc y, In y acc -> exists y', In y' (fold_left (ins_rule m) b acc) /\ R y y'.
  Proof.
    induction b as [|r b IH]; intros acc y Hy; cbn [fold_left].
    - exists y. split; [exact Hy | apply R_refl].
    - destruct (g_ins_ub_acc acc r y Hy) as (y1 & Hy1 & B1).
      destruct (IH _ _ Hy1) as (y2 & Hy2 & B2). exists y2. split; [exact Hy2 | exact (R_trans _ _ _ B1 B2)].
  Qed.

  Lemma g_ins_new acc r :
    (forall x, ar_id x = ar_id r -> R r (m x r)) -> exists r1, In r1 (ins_rule m acc r) /\ R r r1.
  Proof.
    intros Hm. induction acc as [|x acc IH].
    - exists r. split; [now left | apply R_refl].
    - rewrite ins_rule_cons. destruct (String.eqb_spec (ar_id x) (ar_id r)) as [E|E].
      + exists (m x r). split; [now left | apply Hm; exact E].
      + destruct IH as (r1 & H1 & B). exists r1. split; [now right | exact B].
  Qed.

  Lemma g_fold_ub_b b :
    (forall x r, In r b -> ar_id x = ar_id r -> R r (m x r)) ->
    forall acc r, In r b -> exists r', In r' (fold_left (ins_rule m) b acc) /\ R r r'.
  Proof.
    induction b as [|r0 b IH]; intros Hr acc r; [intros []|].
    cbn [fold_left]. intros [<-|Hin].
    - destruct (g_ins_new acc r0 (fun x E => Hr x r0 (or_introl eq_refl) E)) as (r1 & H1 & B1).
      destruct (g_fold_ub_acc b _ _ H1) as (r2 & H2 & B2).
      exists r2. split; [exact H2 | exact (R_trans _ _ _ B1 B2)].
    - apply IH; [|exact Hin]. intros x r' Hr' E. apply Hr; [now right | exact E].
  Qed.
End GenIns.

(* ---------- cant_delete of a merged rule ---------- *)

Lemma forallb_id_app a b : forallb (fun x : bool => x) (a ++ b) = forallb (fun x => x) a && forallb (fun x => x) b.
Proof. apply forallb_app. Qed.

Lemma allcd_mrgf f x r :
  allcd (mrgf f x r) = true <-> allcd x = true /\ (arule_eqb x r = false -> allcd r = true).
Proof.
  unfold mrgf. destruct (arule_eqb x r) eqn:E.
  - split; [intros H; split; [exact H | discriminate] | tauto].
  - unfold allcd. cbn [ar_cd].
    destruct (blist_eqb (ar_cd x) (ar_cd r) && Nat.eqb (ar_prio x) (ar_prio r) && list_str_eqb (ar_gens x) (ar_gens r)) eqn:S.
    + apply andb_true_iff in S as [S _]. apply andb_true_iff in S as [S _]. apply blist_eqb_eq in S.
      rewrite <- S. tauto.
    + rewrite forallb_id_app, andb_true_iff. tauto.
Qed.

Lemma allcd_mrgf_l f x r : allcd (mrgf f x r) = true -> allcd x = true.
Proof. intros H. apply allcd_mrgf in H. tauto. Qed.

Lemma allcd_mrgf_r f x r : allcd (mrgf f x r) = true -> allcd r = true.
Proof.
  intros H. destruct (arule_eqb x r) eqn:E.
  - apply arule_eqb_eq in E. subst. apply allcd_mrgf in H. tauto.
  - apply allcd_mrgf in H. tauto.
Qed.

Lemma allcd_mrgf_both f x r : allcd x = true -> allcd r = true -> allcd (mrgf f x r) = true.
Proof. intros H1 H2. apply allcd_mrgf. auto. Qed.

(* ---------- merge: upper bound, least upper bound, uniqueness of rows ---------- *)

Lemma smerge_ub_l : forall f a b x, In x a -> exists x', In x' (merge_al f a b) /\ sbelow x x'.
Proof.
  induction f as [|f IH]; intros a b x Hx.
  - exists x. split; [exact Hx | apply sbelow_refl].
  - rewrite merge_al_S. destruct (alist_eqb a b).
    + exists x. split; [exact Hx | apply sbelow_refl].
    + apply (g_fold_ub_acc sbelow sbelow_refl sbelow_trans); [|exact Hx].
      intros y r. destruct (arule_eqb y r) eqn:E; [unfold mrgf; rewrite E; apply sbelow_refl|].
      split; [apply mrgf_id|]. split; [apply allcd_mrgf_l|].
      unfold mrgf. rewrite E. cbn [ar_kl ar_kg]. split.
      * intros k Hk. destruct (IH (ar_kl y) (ar_kl r) k Hk) as (k' & Hk' & B). exact (srle_below _ _ _ B Hk').
      * intros k Hk. destruct (IH (ar_kg y) (ar_kg r) k Hk) as (k' & Hk' & B). exact (srle_below _ _ _ B Hk').
Qed.

Lemma smrgf_ub_l f x r : sbelow x (mrgf f x r).
Proof.
  destruct (arule_eqb x r) eqn:E; [unfold mrgf; rewrite E; apply sbelow_refl|].
  split; [apply mrgf_id|]. split; [apply allcd_mrgf_l|].
  unfold mrgf. rewrite E. cbn [ar_kl ar_kg]. split.
  - intros k Hk. destruct (smerge_ub_l f (ar_kl x) (ar_kl r) k Hk) as (k' & Hk' & B). exact (srle_below _ _ _ B Hk').
  - intros k Hk. destruct (smerge_ub_l f (ar_kg x) (ar_kg r) k Hk) as (k' & Hk' & B). exact (srle_below _ _ _ B Hk').
Qed.

Lemma smerge_ub_r : forall f a b r, al_depth b <= f -> In r b -> exists r', In r' (merge_al f a b) /\ sbelow r r'.
Proof.
  induction f as [|f IH]; intros a b r Hd Hr.
  - apply al_depth_0 in Hd. subst. destruct Hr.
  - rewrite merge_al_S. destruct (alist_eqb a b) eqn:E.
    + apply alist_eqb_eq in E. subst. exists r. split; [exact Hr | apply sbelow_refl].
    + apply (g_fold_ub_b sbelow sbelow_refl sbelow_trans); [apply smrgf_ub_l | | exact Hr].
      intros x r0 Hr0 Eid. destruct (arule_eqb x r0) eqn:E2.
      * unfold mrgf. rewrite E2. apply arule_eqb_eq in E2. subst. apply sbelow_refl.
      * assert (Hdr : ar_depth r0 <= S f) by (pose proof (al_depth_in _ _ Hr0); lia).
        destruct (ar_depth_kids _ _ Hdr) as [D1 D2].
        split; [rewrite mrgf_id; exact Eid|]. split; [apply allcd_mrgf_r|].
        unfold mrgf. rewrite E2. cbn [ar_kl ar_kg]. split.
        -- intros k Hk. destruct (IH (ar_kl x) (ar_kl r0) k D1 Hk) as (k' & Hk' & B). exact (srle_below _ _ _ B Hk').
        -- intros k Hk. destruct (IH (ar_kg x) (ar_kg r0) k D2 Hk) as (k' & Hk' & B). exact (srle_below _ _ _ B Hk').
Qed.

Lemma sins_lle m acc r C :
  (forall x, In x acc -> ar_id x = ar_id r -> srle (m x r) C) ->
  slle acc C -> srle r C -> slle (ins_rule m acc r) C.
Proof.
  intros Hm. induction acc as [|x acc IH]; intros Ha Hr.
  - intros y [<-|[]]. exact Hr.
  - rewrite ins_rule_cons. destruct (String.eqb_spec (ar_id x) (ar_id r)) as [E|E].
    + intros y [<-|Hy]; [apply Hm; [now left | exact E] | apply Ha; now right].
    + intros y [<-|Hy]; [apply Ha; now left|].
      apply IH; [| |exact Hr|exact Hy].
      * intros z Hz. apply Hm. now right.
      * intros z Hz. apply Ha. now right.
Qed.

Lemma smerge_lub : forall f a b C, swfl C -> slle a C -> slle b C -> slle (merge_al f a b) C.
Proof.
  induction f as [|f IH]; intros a b C HC Ha Hb; [exact Ha|].
  rewrite merge_al_S. destruct (alist_eqb a b); [exact Ha|].
  revert a Ha. induction b as [|r b IHb]; intros a Ha; [exact Ha|].
  cbn [fold_left]. apply IHb.
  - intros y Hy. apply Hb. now right.
  - apply sins_lle; [|exact Ha|apply Hb; now left].
    intros x Hx Eid. destruct (arule_eqb x r) eqn:E; [unfold mrgf; rewrite E; apply Ha; exact Hx|].
    pose proof (Ha x Hx) as Rx. pose proof (Hb r (or_introl eq_refl)) as Rr.
    apply srle_unfold in Rx as (x' & Hx' & Bx). apply srle_unfold in Rr as (r' & Hr' & Br).
    assert (x' = r').
    { apply (nodup_id_eq C); [apply HC | exact Hx' | exact Hr' |].
      destruct Bx as [-> _], Br as [-> _]. exact Eid. }
    subst r'. apply srle_unfold. exists x'. split; [exact Hx'|].
    destruct Bx as (I1 & C1 & L1 & G1), Br as (I2 & C2 & L2 & G2).
    destruct (proj1 (swfr_unfold x') (proj2 HC x' Hx')) as [WL WG].
    split; [rewrite mrgf_id; exact I1|]. split; [intros Hc; apply allcd_mrgf_both; auto|].
    unfold mrgf. rewrite E. cbn [ar_kl ar_kg]. split; [apply IH | apply IH]; assumption.
Qed.

Lemma sins_wfr m acc r :
  (forall x, In x acc -> ar_id x = ar_id r -> swfr (m x r)) ->
  (forall x, In x acc -> swfr x) -> swfr r -> forall y, In y (ins_rule m acc r) -> swfr y.
Proof.
  induction acc as [|x acc IH]; intros Hm Ha Hr y.
  - intros [<-|[]]. exact Hr.
  - rewrite ins_rule_cons. destruct (String.eqb_spec (ar_id x) (ar_id r)) as [E|E].
    + intros [<-|Hy]; [apply Hm; [now left | exact E] | apply Ha; now right].
    + intros [<-|Hy]; [apply Ha; now left|].
      apply IH; [| |exact Hr|exact Hy].
      * intros z Hz. apply Hm. now right.
      * intros z Hz. apply Ha. now right.
Qed.

Lemma smerge_wf : forall f a b, swfl a -> swfl b -> swfl (merge_al f a b).
Proof.
  induction f as [|f IH]; intros a b Ha Hb; [exact Ha|].
  rewrite merge_al_S. destruct (alist_eqb a b); [exact Ha|].
  revert a Ha. induction b as [|r b IHb]; intros a Ha; [exact Ha|].
  cbn [fold_left]. apply IHb.
  - destruct Hb as [Hnd Hw]. split; [inversion Hnd; assumption | intros y Hy; apply Hw; now right].
  - destruct Ha as [Hnd Hw]. split.
    + apply ins_ids_nodup; [apply mrgf_id | exact Hnd].
    + apply sins_wfr; [|exact Hw|apply Hb; now left].
      intros x Hx _. unfold mrgf. destruct (arule_eqb x r); [apply Hw; exact Hx|].
      destruct (proj1 (swfr_unfold x) (Hw x Hx)) as [X1 X2].
      destruct (proj1 (swfr_unfold r) (proj2 Hb r (or_introl eq_refl))) as [R1 R2].
      apply swfr_unfold. cbn [ar_kl ar_kg]. split; apply IH; assumption.
Qed.

Lemma smerge_as_ub_l a b : slle a (merge_as a b).
Proof.
  intros x Hx. unfold merge_as. destruct (smerge_ub_l (S (Nat.max (al_depth a) (al_depth b))) a b x Hx) as (x' & H & B).
  exact (srle_below _ _ _ B H).
Qed.

Lemma smerge_as_ub_r a b : slle b (merge_as a b).
Proof.
  intros x Hx. unfold merge_as.
  destruct (smerge_ub_r (S (Nat.max (al_depth a) (al_depth b))) a b x ltac:(lia) Hx) as (x' & H & B).
  exact (srle_below _ _ _ B H).
Qed.

Lemma smerge_as_lub a b C : swfl C -> slle a C -> slle b C -> slle (merge_as a b) C.
Proof. unfold merge_as. apply smerge_lub. Qed.

Lemma smerge_as_wf a b : swfl a -> swfl b -> swfl (merge_as a b).
Proof. unfold merge_as. apply smerge_wf. Qed.

Lemma swfl_nil : swfl [].
Proof. split; [constructor | intros r []]. Qed.

Lemma slle_nil L : slle [] L.
Proof. intros r []. Qed.

(* ---------- children rules of a match ---------- *)

Lemma scrfold_acc ms : forall acc,
  slle (fst acc) (fst (crfold ms acc)) /\ slle (snd acc) (snd (crfold ms acc)).
Proof.
  induction ms as [|m ms IH]; intros acc; cbn [crfold fold_left].
  - split; apply slle_refl.
  - destruct (IH (crstep acc m)) as [H1 H2]. unfold crstep in *. destruct (am_cr m); [|split; assumption].
    cbn [fst snd] in *. split.
    + exact (slle_trans _ _ _ (smerge_as_ub_l _ _) H1).
    + exact (slle_trans _ _ _ (smerge_as_ub_l _ _) H2).
Qed.

Lemma scrfold_ub ms : forall acc m, In m ms -> am_cr m = true ->
  slle (ar_kl (am_rule m)) (fst (crfold ms acc)) /\ slle (ar_kg (am_rule m)) (snd (crfold ms acc)).
Proof.
  induction ms as [|m0 ms IH]; intros acc m; [intros []|].
  cbn [crfold fold_left]. intros [<-|Hin] Hcr.
  - destruct (scrfold_acc ms (crstep acc m0)) as [H1 H2]. unfold crstep in *. rewrite Hcr in *.
    cbn [fst snd] in *. split.
    + exact (slle_trans _ _ _ (smerge_as_ub_r _ _) H1).
    + exact (slle_trans _ _ _ (smerge_as_ub_r _ _) H2).
  - apply IH; assumption.
Qed.

Lemma scrfold_lub ms C G : swfl C -> swfl G -> forall acc,
  slle (fst acc) C -> slle (snd acc) G ->
  (forall m, In m ms -> am_cr m = true -> slle (ar_kl (am_rule m)) C /\ slle (ar_kg (am_rule m)) G) ->
  slle (fst (crfold ms acc)) C /\ slle (snd (crfold ms acc)) G.
Proof.
  intros HC HGw. induction ms as [|m ms IH]; intros acc Ha Hg Hm; cbn [crfold fold_left]; [split; assumption|].
  apply IH.
  - unfold crstep. destruct (am_cr m) eqn:E; [|exact Ha]. cbn [fst].
    apply smerge_as_lub; [exact HC | exact Ha | apply (Hm m (or_introl eq_refl) E)].
  - unfold crstep. destruct (am_cr m) eqn:E; [|exact Hg]. cbn [snd].
    apply smerge_as_lub; [exact HGw | exact Hg | apply (Hm m (or_introl eq_refl) E)].
  - intros m1 H1. apply Hm. now right.
Qed.

Lemma scrfold_wf ms : forall acc,
  swfl (fst acc) -> swfl (snd acc) ->
  (forall m, In m ms -> am_cr m = true -> swfl (ar_kl (am_rule m)) /\ swfl (ar_kg (am_rule m))) ->
  swfl (fst (crfold ms acc)) /\ swfl (snd (crfold ms acc)).
Proof.
  induction ms as [|m ms IH]; intros acc Ha Hg Hm; cbn [crfold fold_left]; [split; assumption|].
  apply IH.
  - unfold crstep. destruct (am_cr m) eqn:E; [|exact Ha]. cbn [fst].
    apply smerge_as_wf; [exact Ha | apply (Hm m (or_introl eq_refl) E)].
  - unfold crstep. destruct (am_cr m) eqn:E; [|exact Hg]. cbn [snd].
    apply smerge_as_wf; [exact Hg | apply (Hm m (or_introl eq_refl) E)].
  - intros m1 H1. apply Hm. now right.
Qed.



Lemma prune_ext_paths : forall f cov1 cov2,
  (forall p, In p (paths [] f) -> cov1 p = cov2 p) -> prune cov1 f = prune cov2 f.
Proof.
  apply (forest_ind2
           (fun t => forall cov1 cov2, (forall p, In p (paths [] (kids t)) -> cov1 p = cov2 p) ->
                                       prune cov1 (kids t) = prune cov2 (kids t))
           (fun f => forall cov1 cov2, (forall p, In p (paths [] f) -> cov1 p = cov2 p) -> prune cov1 f = prune cov2 f)).
  - intros k IH. exact IH.
  - reflexivity.
  - intros r t k IHt IHk cov1 cov2 H. rewrite !prune_cons.
    assert (Hp : paths [] ((r, t) :: k) = [r] :: map (cons r) (paths [] (kids t)) ++ paths [] k).
    { rewrite (paths_cons [] r t k). cbn [app]. rewrite paths_cons_prefix. reflexivity. }
    rewrite Hp in H.
    rewrite (H [r]) by now left.
    assert (Hk : prune cov1 k = prune cov2 k).
    { apply IHk. intros p Hin. apply H. right. apply in_or_app. now right. }
    assert (Ht : prune (fun p => cov1 (r :: p)) (kids t) = prune (fun p => cov2 (r :: p)) (kids t)).
    { apply IHt. intros p Hin. apply H. right. apply in_or_app. left. apply in_map. exact Hin. }
    rewrite Hk, Ht. reflexivity.
Qed.

Lemma drops_allcd m : drops m = am_rev m && allcd (am_rule m).
Proof. reflexivity. Qed.

Section MF.
  Variable rmatch : string -> string -> option (list string).
  Variable rrev : string -> string.
  Variable norm : string -> string.

  (* one direction, for two weight sources A (left) and B (right) *)
  Section OneWay.
    Variable rsrcA rsrcB : string -> string.
    Notation mrowA := (match_row_to_acl rmatch rsrcA rrev norm).
    Notation mrowB := (match_row_to_acl rmatch rsrcB rrev norm).
    Notation candsA := (acl_candidates rmatch rsrcA rrev norm).
    Notation candsB := (acl_candidates rmatch rsrcB rrev norm).

    Lemma cand_transfer a b row m :
      sale a b -> sale b a -> swf a ->
      In m (candsA row a) -> exists m', In m' (candsB row b) /\ mclass m' = mclass m.
    Proof.
      intros [L1 G1] [L2 G2] [Wl Wg] Hm.
      apply cands_spec in Hm as (r & rev & g & Hr & Hmatch & ->).
      assert (Hex : exists r', In r' (if g then snd b else fst b) /\ ar_id r' = ar_id r /\ allcd r' = allcd r).
      { assert (Hs1 : slle (if g then snd a else fst a) (if g then snd b else fst b)) by (destruct g; assumption).
        assert (Hs2 : slle (if g then snd b else fst b) (if g then snd a else fst a)) by (destruct g; assumption).
        assert (Hnd : NoDup (map ar_id (if g then snd a else fst a))) by (destruct g; [apply Wg | apply Wl]).
        pose proof (Hs1 r Hr) as H1. apply srle_unfold in H1 as (r' & Hr' & I1 & C1 & _).
        pose proof (Hs2 r' Hr') as H2. apply srle_unfold in H2 as (r'' & Hr'' & I2 & C2 & _).
        assert (r'' = r) by (apply (nodup_id_eq _ _ _ Hnd Hr'' Hr); congruence). subst r''.
        exists r'. split; [exact Hr'|]. split; [exact I1|].
        destruct (allcd r') eqn:E1, (allcd r) eqn:E2; try reflexivity;
          [specialize (C1 eq_refl); congruence | specialize (C2 eq_refl); congruence]. }
      destruct Hex as (r' & Hr' & Eid & Ecd).
      exists (AM r' (negb g && negb rev) rev (ar_prio r')
                 (shared_chars row (rsrcB (if rev then rrev (ar_id r') else ar_id r')))).
      split.
      - apply cands_spec. exists r', rev, g. split; [exact Hr'|]. split; [rewrite Eid; exact Hmatch | reflexivity].
      - unfold mclass. rewrite !drops_allcd. cbn [am_rev am_rule am_cr]. rewrite Ecd. reflexivity.
    Qed.

    (* the children rule sets stay related, whatever the two rankings chose *)
    Lemma sstep a b row m1 c1 m2 c2 :
      sale a b -> swf b ->
      mrowA row a false = MSome m1 c1 -> mrowB row b false = MSome m2 c2 -> am_cr m1 = am_cr m2 ->
      sale c1 c2 /\ swf c2.
    Proof.
      intros [HL HG] [Wl Wg] E1 E2 Ecr.
      destruct (mrow_some_inv _ _ _ _ _ _ _ _ E1) as (ms1 & F1 & ->).
      destruct (mrow_some_inv _ _ _ _ _ _ _ _ E2) as (ms2 & F2 & ->).
      rewrite !select_children_unfold. cbn [fst snd].
      set (C2 := if am_cr m2 then crfold (m2 :: ms2) ([], []) else ([], [])).
      assert (W2 : swfl (fst C2) /\ swfl (snd C2)).
      { subst C2. destruct (am_cr m2); [|split; apply swfl_nil].
        apply scrfold_wf; try apply swfl_nil.
        intros m Hm Cm. rewrite <- F2 in Hm. apply fmatches_in in Hm.
        apply swfr_unfold. apply Wl. apply (crm_in_fst rmatch rsrcB rrev norm b row). apply (cand_cr_in _ _ _ _ _ _ _ Hm Cm). }
      destruct W2 as [W2l W2g].
      assert (W2s : swfl (merge_as (snd C2) (snd b))) by (apply smerge_as_wf; assumption).
      split; [|split; assumption].
      assert (HGa : slle (snd a) (merge_as (snd C2) (snd b))) by exact (slle_trans _ _ _ HG (smerge_as_ub_r _ _)).
      split; cbn [fst snd].
      - destruct (am_cr m1) eqn:C1; [|apply slle_nil].
        subst C2. rewrite <- Ecr in *.
        set (C2 := crfold (m2 :: ms2) ([], [])) in *.
        apply (scrfold_lub (m1 :: ms1) (fst C2) (merge_as (snd C2) (snd b)) W2l W2s ([], []));
          [apply slle_nil | apply slle_nil |].
        intros m Hm Cm. rewrite <- F1 in Hm. apply fmatches_in in Hm.
        pose proof (cand_cr_in _ _ _ _ _ _ _ Hm Cm) as Hr.
        pose proof (HL _ (crm_in_fst rmatch rsrcA rrev norm _ _ _ Hr)) as Hs. apply srle_unfold in Hs as (r' & Hr' & Eid & _ & BL & BG).
        assert (Hr'm : In r' (cr_matches rmatch norm b row)).
        { unfold cr_matches in *. apply filter_In in Hr as [_ Hmt]. apply filter_In. split; [exact Hr'|]. rewrite Eid. exact Hmt. }
        destruct (cr_in_cand rmatch rsrcB rrev norm _ _ _ Hr'm) as (m' & Hm' & <- & Cm').
        apply fmatches_in in Hm'. rewrite F2 in Hm'.
        destruct (scrfold_ub (m2 :: ms2) ([], []) m' Hm' Cm') as [U1 U2]. fold C2 in U1, U2. split.
        + exact (slle_trans _ _ _ BL U1).
        + exact (slle_trans _ _ _ BG (slle_trans _ _ _ U2 (smerge_as_ub_l _ _))).
      - apply smerge_as_lub; [exact W2s | | exact HGa].
        destruct (am_cr m1) eqn:C1; [|apply slle_nil].
        subst C2. rewrite <- Ecr in *.
        set (C2 := crfold (m2 :: ms2) ([], [])) in *.
        apply (scrfold_lub (m1 :: ms1) (fst C2) (merge_as (snd C2) (snd b)) W2l W2s ([], []));
          [apply slle_nil | apply slle_nil |].
        intros m Hm Cm. rewrite <- F1 in Hm. apply fmatches_in in Hm.
        pose proof (cand_cr_in _ _ _ _ _ _ _ Hm Cm) as Hr.
        pose proof (HL _ (crm_in_fst rmatch rsrcA rrev norm _ _ _ Hr)) as Hs. apply srle_unfold in Hs as (r' & Hr' & Eid & _ & BL & BG).
        assert (Hr'm : In r' (cr_matches rmatch norm b row)).
        { unfold cr_matches in *. apply filter_In in Hr as [_ Hmt]. apply filter_In. split; [exact Hr'|]. rewrite Eid. exact Hmt. }
        destruct (cr_in_cand rmatch rsrcB rrev norm _ _ _ Hr'm) as (m' & Hm' & <- & Cm').
        apply fmatches_in in Hm'. rewrite F2 in Hm'.
        destruct (scrfold_ub (m2 :: ms2) ([], []) m' Hm' Cm') as [U1 U2]. fold C2 in U1, U2. split.
        + exact (slle_trans _ _ _ BL U1).
        + exact (slle_trans _ _ _ BG (slle_trans _ _ _ U2 (smerge_as_ub_l _ _))).
    Qed.
  End OneWay.
End MF.

Section MF2.
  Variable rmatch : string -> string -> option (list string).
  Variable rrev : string -> string.
  Variable norm : string -> string.
  Variable rsrc1 rsrc2 : string -> string.
  Notation mrow1 := (match_row_to_acl rmatch rsrc1 rrev norm).
  Notation mrow2 := (match_row_to_acl rmatch rsrc2 rrev norm).
  Notation cands1 := (acl_candidates rmatch rsrc1 rrev norm).
  Notation cands2 := (acl_candidates rmatch rsrc2 rrev norm).
  Notation covers1 := (acl_covers_path rmatch rsrc1 rrev norm).
  Notation covers2 := (acl_covers_path rmatch rsrc2 rrev norm).


  Lemma unamb_all rsrc rs row c l m :
    row_unambiguous rmatch rsrc rrev norm rs row = true ->
    acl_candidates rmatch rsrc rrev norm row rs = c :: l -> In m (c :: l) -> mclass m = mclass c.
  Proof.
    unfold row_unambiguous. intros H E. rewrite E in H. rewrite forallb_forall in H.
    intros [<-|Hm]; [reflexivity|]. apply Nat.eqb_eq. apply H. exact Hm.
  Qed.

  Lemma fate_agree a b row :
    rank_equiv a b -> row_unambiguous rmatch rsrc1 rrev norm a row = true ->
    row_unambiguous rmatch rsrc2 rrev norm b row = true ->
    (mrow1 row a false = MNone /\ mrow2 row b false = MNone) \/
    (exists m1 c1 m2 c2, mrow1 row a false = MSome m1 c1 /\ mrow2 row b false = MSome m2 c2 /\
                         mclass m1 = mclass m2).
  Proof.
    intros (Sab & Sba & Wa & Wb) U1 U2.
    pose proof (row_fate_metric_free rmatch rsrc1 rrev norm a row U1) as F1.
    pose proof (row_fate_metric_free rmatch rsrc2 rrev norm b row U2) as F2.
    destruct (cands1 row a) as [|x1 l1] eqn:E1; destruct (cands2 row b) as [|x2 l2] eqn:E2.
    - left. auto.
    - exfalso. destruct (cand_transfer rmatch rrev norm rsrc2 rsrc1 b a row x2 Sba Sab Wb) as (m' & Hm' & _).
      + rewrite E2. now left.
      + rewrite E1 in Hm'. destruct Hm'.
    - exfalso. destruct (cand_transfer rmatch rrev norm rsrc1 rsrc2 a b row x1 Sab Sba Wa) as (m' & Hm' & _).
      + rewrite E1. now left.
      + rewrite E2 in Hm'. destruct Hm'.
    - right. destruct F1 as (m1 & c1 & M1 & K1). destruct F2 as (m2 & c2 & M2 & K2).
      exists m1, c1, m2, c2. split; [exact M1|]. split; [exact M2|].
      destruct (cand_transfer rmatch rrev norm rsrc1 rsrc2 a b row x1 Sab Sba Wa) as (m' & Hm' & Km').
      + rewrite E1. now left.
      + rewrite E2 in Hm'. rewrite (unamb_all rsrc2 b row x2 l2 m' U2 E2 Hm') in Km'. congruence.
  Qed.

  Lemma mclass_drops m : drops m = Nat.eqb (mclass m) 0.
  Proof. unfold mclass. destruct (drops m); [reflexivity|]. destruct (am_cr m); reflexivity. Qed.

  Lemma mclass_cr m1 m2 : mclass m1 = mclass m2 -> drops m1 = false -> am_cr m1 = am_cr m2.
  Proof.
    unfold mclass. intros H D. rewrite D in H. destruct (drops m2); [destruct (am_cr m1); discriminate|].
    destruct (am_cr m1), (am_cr m2); try reflexivity; discriminate.
  Qed.

  Lemma mf_path : forall p a b,
    rank_equiv a b -> path_unambiguous rmatch rsrc1 rrev norm a p = true ->
    path_unambiguous rmatch rsrc2 rrev norm b p = true -> covers1 a p = covers2 b p.
  Proof.
    induction p as [|r q IH]; intros a b HQ P1 P2; [reflexivity|].
    cbn [path_unambiguous] in P1, P2. apply andb_true_iff in P1 as [U1 P1]. apply andb_true_iff in P2 as [U2 P2].
    cbn [acl_covers_path].
    destruct (fate_agree a b r HQ U1 U2) as [[E1 E2]|(m1 & c1 & m2 & c2 & E1 & E2 & K)].
    - rewrite E1, E2. reflexivity.
    - rewrite E1 in P1 |- *. rewrite E2 in P2 |- *.
      assert (Hd : drops m1 = drops m2) by (rewrite !mclass_drops, K; reflexivity).
      rewrite <- Hd in P2 |- *. destruct (drops m1) eqn:D; [reflexivity|]. cbn [negb andb].
      destruct HQ as (Sab & Sba & Wa & Wb).
      pose proof (mclass_cr _ _ K D) as Ecr.
      destruct (sstep rmatch rrev norm rsrc1 rsrc2 a b r m1 c1 m2 c2 Sab Wb E1 E2 Ecr) as [S12 W2].
      destruct (sstep rmatch rrev norm rsrc2 rsrc1 b a r m2 c2 m1 c1 Sba Wa E2 E1 (eq_sym Ecr)) as [S21 W1].
      apply IH; [|exact P1|exact P2]. exact (conj S12 (conj S21 (conj W1 W2))).
  Qed.

  (* On inputs unambiguous along every path the two rankings give the same tree. *)
  Theorem mf_exact a b t :
    rank_equiv a b ->
    acl_unambiguous rmatch rsrc1 rrev norm a t = true -> acl_unambiguous rmatch rsrc2 rrev norm b t = true ->
    ref_filter rmatch rsrc1 rrev norm a t = ref_filter rmatch rsrc2 rrev norm b t.
  Proof.
    intros HQ A1 A2. unfold ref_filter. apply prune_ext_paths. intros p Hp.
    unfold acl_unambiguous in A1, A2. rewrite forallb_forall in A1, A2.
    exact (mf_path p a b HQ (A1 p Hp) (A2 p Hp)).
  Qed.
End MF2.

Lemma rank_equiv_refl rs : swf rs -> rank_equiv rs rs.
Proof. intros W. repeat split; try apply slle_refl; apply W. Qed.

(* ---------- compile_acl_text produces rule sets with unique rows ---------- *)

Lemma cfold_g f X : forall ks l0 g0 l g,
  fold_left (cstep f X) ks (Some (l0, g0)) = Some (l, g) ->
  map ar_id g = map ar_id g0 ++ filter (fun k => existsb ai_glob (cgrp X k)) ks /\
  (forall r, In r g -> In r g0 \/ (ar_kl r = [] /\ ar_kg r = [])).
Proof.
  induction ks as [|k ks IH]; intros l0 g0 l g H; cbn [fold_left] in H.
  - injection H as <- <-. split; [cbn; rewrite app_nil_r; reflexivity | auto].
  - unfold cstep at 2 in H.
    destruct (existsb ai_ign (cgrp X k)); [rewrite cstep_none in H; discriminate|].
    destruct (existsb ai_glob (cgrp X k)) eqn:Eg.
    + destruct (IH _ _ _ _ H) as [A1 A2]. split.
      * rewrite A1. cbn [filter]. rewrite Eg. rewrite map_app. cbn [map]. rewrite <- app_assoc. reflexivity.
      * intros r Hr. destruct (A2 r Hr) as [Hin|?]; [|now right].
        apply in_app_iff in Hin as [?|[<-|[]]]; [now left | right; split; reflexivity].
    + destruct (compile_items f (flat_map ai_kids (cgrp X k))) as [[kl kg]|]; [|rewrite cstep_none in H; discriminate].
      destruct (IH _ _ _ _ H) as [A1 A2]. split.
      * rewrite A1. cbn [filter]. rewrite Eg. reflexivity.
      * exact A2.
Qed.

Lemma compile_swf : forall f X rs, compile_items f X = Some rs -> swf rs.
Proof.
  induction f as [|f IH]; intros X rs H.
  - cbn in H. injection H as <-. split; apply swfl_nil.
  - destruct rs as [l g]. destruct (compile_spec _ _ _ _ H) as (X1 & _ & _ & X4).
    rewrite compile_items_S in H. destruct (cfold_g _ _ _ _ _ _ _ H) as [G1 G2].
    split; cbn [fst snd].
    + split; [exact X4|]. intros r Hr. destruct (X1 r Hr) as (x & _ & _ & _ & C).
      apply swfr_unfold. exact (IH _ _ C).
    + split.
      * rewrite G1. cbn [map app]. apply NoDup_filter. apply first_keys_nodup.
      * intros r Hr. destruct (G2 r Hr) as [[]|[K1 K2]]. apply swfr_unfold. rewrite K1, K2. split; apply swfl_nil.
Qed.

Lemma compile_acl_swf a rs : compile_acl a = Some rs -> swf rs.
Proof. unfold compile_acl. apply compile_swf. Qed.

(* for rule sets compiled from an ACL text: the shared-symbol heuristic (any weight source)
   cannot change the filtered tree on unambiguous inputs *)
Theorem mf_exact_compiled rmatch rrev norm rsrc1 rsrc2 a rs t :
  compile_acl a = Some rs ->
  acl_unambiguous rmatch rsrc1 rrev norm rs t = true -> acl_unambiguous rmatch rsrc2 rrev norm rs t = true ->
  ref_filter rmatch rsrc1 rrev norm rs t = ref_filter rmatch rsrc2 rrev norm rs t.
Proof. intros H. apply mf_exact. apply rank_equiv_refl. exact (compile_acl_swf _ _ H). Qed.



Lemma srleb_ok : forall r L, srleb r L = true -> srle r L.
Proof.
  apply (arule_ind_forall (fun r => forall L, srleb r L = true -> srle r L)).
  intros r IHl IHg L H. rewrite Forall_forall in IHl, IHg. destruct r as [i cd p g kl kg].
  cbn [srleb] in H. apply existsb_exists in H as (r' & Hin & B).
  rewrite !andb_true_iff in B. destruct B as [[[B1 B2] B3] B4].
  apply String.eqb_eq in B1. rewrite forallb_forall in B3, B4.
  apply srle_unfold. exists r'. split; [exact Hin|]. split; [exact B1|]. split.
  - unfold allcd at 2. cbn [ar_cd]. intros Hc. rewrite Hc in B2. exact B2.
  - cbn [ar_kl ar_kg] in *. split; intros k Hk; [apply (IHl k Hk), B3 | apply (IHg k Hk), B4]; exact Hk.
Qed.

Lemma saleb_ok a b : saleb a b = true -> sale a b.
Proof.
  unfold saleb. rewrite andb_true_iff, !forallb_forall. intros [H1 H2].
  split; intros r Hr; apply srleb_ok; [apply H1 | apply H2]; exact Hr.
Qed.

Lemma swfrb_ok : forall r, swfrb r = true -> swfr r.
Proof.
  apply (arule_ind_forall (fun r => swfrb r = true -> swfr r)).
  intros r IHl IHg H. rewrite Forall_forall in IHl, IHg. destruct r as [i cd p g kl kg].
  cbn [swfrb] in H. rewrite !andb_true_iff in H. destruct H as [[[H1 H2] H3] H4].
  rewrite forallb_forall in H3, H4. apply swfr_unfold. cbn [ar_kl ar_kg] in *. split; split.
  - apply nodupb_nodup. exact H1.
  - intros k Hk. apply (IHl k Hk), H3. exact Hk.
  - apply nodupb_nodup. exact H2.
  - intros k Hk. apply (IHg k Hk), H4. exact Hk.
Qed.

Lemma swfb_ok rs : swfb rs = true -> swf rs.
Proof.
  unfold swfb. rewrite !andb_true_iff, !forallb_forall. intros [[[H1 H2] H3] H4].
  split; split; try (apply nodupb_nodup; assumption); intros r Hr; apply swfrb_ok; auto.
Qed.

Lemma rank_equivb_ok a b : rank_equivb a b = true -> rank_equiv a b.
Proof.
  unfold rank_equivb. rewrite !andb_true_iff. intros [[[H1 H2] H3] H4].
  repeat split; try (apply saleb_ok; assumption); try (apply swfb_ok; assumption);
    try (apply (saleb_ok _ _ H1)); try (apply (saleb_ok _ _ H2)); try (apply (swfb_ok _ H3)); try (apply (swfb_ok _ H4)).
Qed.
