(* C11 lemma library, part 3: the Cisco / Nexus global `vlan` rule with blocks
   (Model/VlanCisco.v).  Ends in the lemmas Properties/C11.v cites. *)
From Coq Require Import List String Ascii Bool Arith NArith Lia Sorted Permutation SetoidList.
From Coq Require Import MSets MSetAVL MSetFacts MSetProperties MSetDecide.
From Annet Require Import Base.Str Model.Vlan Model.VlanDb Model.VlanCisco Spec.P_C11
     Proofs.VlanProofs Proofs.VlanDbProofs.
Import ListNotations.
Open Scope list_scope.
Open Scope N_scope.

(* ------------------------------------------------------------------------------------ *)
(* rows as lines: the row diff of Model/VlanCisco.v is the line diff of Model/Vlan.v *)

Lemma ranges_eqb_sym a b : ranges_eqb a b = ranges_eqb b a.
Proof.
  destruct (ranges_eqb a b) eqn:E1, (ranges_eqb b a) eqn:E2; try reflexivity.
  - apply ranges_eqb_eq in E1. subst b. assert (H : ranges_eqb a a = true) by now apply ranges_eqb_eq. congruence.
  - apply ranges_eqb_eq in E2. subst b. assert (H : ranges_eqb a a = true) by now apply ranges_eqb_eq. congruence.
Qed.

Lemma has_crow_mem_line rs c : has_crow rs c = mem_line (false, rs) (c_lines c).
Proof.
  unfold has_crow, mem_line, c_lines. induction c as [|r c IH]; cbn [lookup_crow map existsb]; [reflexivity|].
  unfold line_eqb at 1. cbn [fst snd Bool.eqb andb]. rewrite (ranges_eqb_sym rs (fst r)).
  destruct (ranges_eqb (fst r) rs); cbn [orb]; [reflexivity|exact IH].
Qed.

Lemma c_lines_filter f g (c : ccfg) :
  (forall r, f r = g (false, fst r)) -> c_lines (filter f c) = filter g (c_lines c).
Proof.
  intro H. unfold c_lines. induction c as [|r c IH]; cbn [filter map]; [reflexivity|].
  rewrite <- (H r). destruct (f r); cbn [map]; now rewrite IH.
Qed.

Lemma c_lines_removed old new : c_lines (c_removed old new) = lines_removed (c_lines old) (c_lines new).
Proof.
  unfold c_removed, lines_removed. apply c_lines_filter. intro r. cbn [fst]. now rewrite has_crow_mem_line.
Qed.

Lemma c_lines_added old new : c_lines (c_added old new) = lines_added (c_lines old) (c_lines new).
Proof.
  unfold c_added, lines_added. apply c_lines_filter. intro r. cbn [fst]. now rewrite has_crow_mem_line.
Qed.

Lemma union_sets_spec rows v :
  NS.In v (union_sets (map prow_of rows)) <-> NS.In v (set_of_lines (c_lines rows)).
Proof.
  unfold c_lines. induction rows as [|r rows IH]; cbn [map union_sets fold_right set_of_lines].
  - reflexivity.
  - fold (union_sets (map prow_of rows)). fold (set_of_lines (map (fun r => (false, fst r)) rows)).
    rewrite !NS.union_spec, IH. unfold prow_of, prow_set. cbn [fst snd]. reflexivity.
Qed.

Lemma single_id_in rs n : single_id rs = Some n -> NS.In n (set_of_ranges rs).
Proof.
  unfold single_id. destruct rs as [|[a b] [|? ?]]; try discriminate.
  destruct (N.eqb_spec a b) as [E|E]; [|discriminate]. intro H. injection H as H. subst.
  apply set_of_ranges_spec. exists (n, n). split; [now left|unfold in_range; cbn; lia].
Qed.

Lemma row_in_set (c : ccfg) r v : In r c -> NS.In v (set_of_ranges (fst r)) -> NS.In v (set_of_ccfg c).
Proof.
  intros Hr Hv. unfold set_of_ccfg. apply set_of_lines_spec. exists (false, fst r). split.
  - unfold c_lines. apply in_map_iff. exists r. now split.
  - exact Hv.
Qed.

Lemma blocks_of_in rows : forall bl b,
  blocks_of (map prow_of rows) = Some bl -> In b bl ->
  exists r, In r rows /\ single_id (fst r) = Some (fst b) /\ snd r = snd b.
Proof.
  induction rows as [|r rows IH]; intros bl b; cbn [map blocks_of].
  - intro E. injection E as E. subst bl. intros [].
  - destruct (blocks_of (map prow_of rows)) as [bs|] eqn:Eb; [|discriminate].
    unfold prow_of at 1 2 3, prow_kids, prow_id. cbn [fst snd].
    destruct (is_nil (snd r)).
    + intro E. injection E as E. subst bl. intro Hb.
      destruct (IH bs b eq_refl Hb) as (q & Hq & H). exists q. split; [now right|exact H].
    + destruct (single_id (fst r)) as [n|] eqn:Es; [|discriminate].
      intro E. injection E as E. subst bl. intros [Hb|Hb].
      * subst b. exists r. cbn [fst snd]. repeat split; [now left|exact Es].
      * destruct (IH bs b eq_refl Hb) as (q & Hq & H). exists q. split; [now right|exact H].
Qed.

(* ------------------------------------------------------------------------------------ *)
(* lists of block-enter commands *)

Definition only_enter (l : list gcmd) : Prop := forall g, In g l -> exists n p, g = GEnter n p.

Lemma only_enter_simple l : only_enter l -> Forall simple_cmd (map effect l).
Proof.
  intro H. apply Forall_forall. intros c Hc. apply in_map_iff in Hc as (g & E & Hg). subst c.
  destruct (H g Hg) as (n & p & E). subst g. exact I.
Qed.

Lemma only_enter_removes l v : only_enter l -> ~ removes (map effect l) v.
Proof.
  intros H (rs & Hin & _). apply in_map_iff in Hin as (g & E & Hg).
  destruct (H g Hg) as (n & p & Eg). subst g. discriminate E.
Qed.

Lemma only_enter_adds l v : only_enter l -> (adds (map effect l) v <-> exists p, In (GEnter v p) l).
Proof.
  intro H. unfold adds. split.
  - intros (rs & Hin & Hv). apply in_map_iff in Hin as (g & E & Hg).
    destruct (H g Hg) as (n & p & Eg). subst g. cbn [effect] in E. injection E as E. subst rs.
    assert (v = n).
    { destruct Hv as (r & [Er|[]] & Hr). subst r. unfold in_range in Hr. cbn in Hr. lia. }
    subst v. now exists p.
  - intros (p & Hg). exists [(v, v)]. split.
    + apply in_map_iff. exists (GEnter v p). now split.
    + exists (v, v). split; [now left|unfold in_range; cbn; lia].
Qed.

(* ------------------------------------------------------------------------------------ *)
(* the commands of cisco_core *)

Lemma affected_cmd_in a l g :
  affected_cmd a = Some l -> In g l -> exists n p, g = GEnter n p /\ fst (fst a) = Some n.
Proof.
  unfold affected_cmd. destruct (child_patch_g "no" (snd (fst a)) (snd a)) as [[|x p]|]; [| |discriminate].
  - intro E. injection E as E. subst l. intros [].
  - destruct (fst (fst a)) as [n|]; [|discriminate]. intro E. injection E as E. subst l.
    intros [Eg|[]]. subst g. now exists n, (x :: p).
Qed.

Lemma leftover_cmd_in nbl A b l g :
  leftover_cmd nbl A b = Some l -> In g l -> (exists p, g = GEnter (fst b) p) /\ NS.In (fst b) A.
Proof.
  unfold leftover_cmd. destruct (negb (has_blk (fst b) nbl) && NS.mem (fst b) A) eqn:C.
  - apply andb_true_iff in C as [_ C]. apply NS.mem_spec in C.
    destruct (child_patch_g "no" (snd b) []) as [p|]; cbn [option_map]; [|discriminate].
    intro E. injection E as E. subst l. intros [Eg|[]]. subst g. split; [now exists p|exact C].
  - intro E. injection E as E. subst l. intros [].
Qed.

Lemma enter_cmd_in b l g : enter_cmd b = Some l -> In g l -> exists p, g = GEnter (fst b) p.
Proof.
  unfold enter_cmd. destruct (child_patch_g "no" [] (snd b)) as [p|]; cbn [option_map]; [|discriminate].
  intro E. injection E as E. subst l. intros [Eg|[]]. subst g. now exists p.
Qed.

Lemma enter_cmd_some b l : enter_cmd b = Some l -> exists p, l = [GEnter (fst b) p].
Proof.
  unfold enter_cmd. destruct (child_patch_g "no" [] (snd b)) as [p|]; cbn [option_map]; [|discriminate].
  intro E. injection E as E. subst l. now exists p.
Qed.

Lemma opt_concat_all {A} : forall (l : list (option (list A))) r o,
  opt_concat l = Some r -> In o l -> exists y, o = Some y.
Proof.
  induction l as [|[y|] l IH]; intros r o E Ho; cbn [opt_concat] in E.
  - destruct Ho.
  - destruct (opt_concat l) as [z|] eqn:Ez; [|discriminate]. destruct Ho as [Eo|Ho].
    + subst o. now exists y.
    + exact (IH z o eq_refl Ho).
  - discriminate.
Qed.

Section Main.
  Variables (catalyst : bool) (old new : ccfg).
  Hypothesis G : rows_disjoint (catalyst, old, new) = true.

  Let ol := c_lines old.
  Let nl := c_lines new.
  Let U := set_of_lines (lines_unchanged ol nl).
  Let O := set_of_lines (lines_removed ol nl).
  Let A := set_of_lines (lines_added ol nl).

  Let Hpd : pairwise_disjoint ol = true.
  Proof. exact G. Qed.

  Let RA := union_sets (map prow_of (c_removed old new)).
  Let AA := union_sets (map prow_of (c_added old new)).

  Let RA_spec v : NS.In v RA <-> NS.In v O.
  Proof. unfold RA, O, ol, nl. rewrite union_sets_spec, c_lines_removed. reflexivity. Qed.
  Let AA_spec v : NS.In v AA <-> NS.In v A.
  Proof. unfold AA, A, ol, nl. rewrite union_sets_spec, c_lines_added. reflexivity. Qed.

  Let So_spec v : NS.In v (set_of_ccfg old) <-> NS.In v U \/ NS.In v O.
  Proof. unfold set_of_ccfg. apply S_old_split. Qed.
  Let Sn_spec v : NS.In v (set_of_ccfg new) <-> NS.In v U \/ NS.In v A.
  Proof. unfold set_of_ccfg. apply S_new_split. Qed.

  Section WithCmds.
    Variables (aff lft ent : list gcmd) (nbl obl : list blk).
    Hypothesis Haff : opt_concat (map affected_cmd (c_both old new)) = Some aff.
    Hypothesis Hnbl : blocks_of (map prow_of (c_added old new)) = Some nbl.
    Hypothesis Hlft : opt_concat (map (leftover_cmd nbl AA) obl) = Some lft.
    Hypothesis Hent : opt_concat (map enter_cmd nbl) = Some ent.

    Let rem := NS.diff RA AA.
    Let add := if catalyst then NS.diff (NS.diff AA RA) (ids_of nbl) else NS.diff AA RA.
    Let batch := batch_cmds catalyst rem add.
    Let cs := map effect aff ++ map effect lft ++ batch ++ map effect ent.

    Let Ebatch : batch = cmds_of CiscoSimple catalyst rem add.
    Proof. reflexivity. Qed.

    Let aff_enter : only_enter aff.
    Proof.
      intros g Hg. apply (opt_concat_in _ aff g Haff) in Hg as (y & Hy & Hg).
      apply in_map_iff in Hy as (a & Ea & _).
      destruct (affected_cmd_in a y g Ea Hg) as (n & p & E & _). now exists n, p.
    Qed.
    Let lft_enter : only_enter lft.
    Proof.
      intros g Hg. apply (opt_concat_in _ lft g Hlft) in Hg as (y & Hy & Hg).
      apply in_map_iff in Hy as (b & Eb & _).
      destruct (leftover_cmd_in nbl AA b y g Eb Hg) as [(p & E) _]. now exists (fst b), p.
    Qed.
    Let ent_enter : only_enter ent.
    Proof.
      intros g Hg. apply (opt_concat_in _ ent g Hent) in Hg as (y & Hy & Hg).
      apply in_map_iff in Hy as (b & Eb & _).
      destruct (enter_cmd_in b y g Eb Hg) as (p & E). now exists (fst b), p.
    Qed.

    Let Simple : Forall simple_cmd cs.
    Proof.
      unfold cs. apply Forall_app; split; [now apply only_enter_simple|].
      apply Forall_app; split; [now apply only_enter_simple|].
      apply Forall_app; split; [exact (cmds_of_simple CiscoSimple catalyst rem add)|now apply only_enter_simple].
    Qed.

    Let R v : removes cs v <-> NS.In v rem.
    Proof.
      unfold cs. rewrite !removes_app, Ebatch, cmds_of_removes. split.
      - intros [H|[H|[H|H]]].
        + exfalso. exact (only_enter_removes aff v aff_enter H).
        + exfalso. exact (only_enter_removes lft v lft_enter H).
        + exact H.
        + exfalso. exact (only_enter_removes ent v ent_enter H).
      - intro H. right. right. now left.
    Qed.

    Let nbl_in_A n : NS.In n (ids_of nbl) -> NS.In n A.
    Proof.
      intro H. apply ids_of_spec in H as (b & Hb & Eb). subst n.
      destruct (blocks_of_in _ nbl b Hnbl Hb) as (r & Hr & Hs & _).
      apply AA_spec. unfold AA. apply union_sets_spec.
      apply (row_in_set (c_added old new) r); [exact Hr|now apply single_id_in].
    Qed.

    Let F1 : forall v, removes cs v -> ~ NS.In v (set_of_ccfg new).
    Proof.
      intros v Hr Hn. apply R in Hr. unfold rem in Hr. apply NS.diff_spec in Hr as [Ho Ha].
      apply RA_spec in Ho. rewrite AA_spec in Ha. apply Sn_spec in Hn as [Hu|Hn]; [|exact (Ha Hn)].
      exact (U_O_disjoint ol nl v Hpd Hu Ho).
    Qed.

    Let F2 : forall v, adds cs v -> NS.In v (set_of_ccfg new).
    Proof.
      intros v Ha. unfold cs in Ha. rewrite !adds_app in Ha. destruct Ha as [Ha|[Ha|[Ha|Ha]]].
      - apply (only_enter_adds aff v aff_enter) in Ha as (p & Hg).
        apply (opt_concat_in _ aff _ Haff) in Hg as (y & Hy & Hg).
        apply in_map_iff in Hy as (a & Ea & Ha).
        destruct (affected_cmd_in a y _ Ea Hg) as (n & q & E & Hid). injection E as E _. subst n.
        unfold c_both in Ha. apply in_flat_map in Ha as (r & Hr & Ha).
        destruct (lookup_crow (fst r) old) as [ko|]; [|destruct Ha]. destruct Ha as [Ea'|[]]. subst a.
        cbn [fst] in Hid. apply (row_in_set new r); [exact Hr|now apply single_id_in].
      - apply (only_enter_adds lft v lft_enter) in Ha as (p & Hg).
        apply (opt_concat_in _ lft _ Hlft) in Hg as (y & Hy & Hg).
        apply in_map_iff in Hy as (b & Eb & _).
        destruct (leftover_cmd_in nbl AA b y _ Eb Hg) as [(q & E) Hm]. injection E as E _. subst v.
        apply Sn_spec. right. now apply AA_spec.
      - rewrite Ebatch, cmds_of_adds in Ha. apply Sn_spec. right. apply AA_spec.
        unfold add in Ha. destruct catalyst.
        + apply NS.diff_spec in Ha as [Ha _]. now apply NS.diff_spec in Ha as [Ha _].
        + now apply NS.diff_spec in Ha as [Ha _].
      - apply (only_enter_adds ent v ent_enter) in Ha as (p & Hg).
        apply (opt_concat_in _ ent _ Hent) in Hg as (y & Hy & Hg).
        apply in_map_iff in Hy as (b & Eb & Hb).
        destruct (enter_cmd_in b y _ Eb Hg) as (q & E). injection E as E _. subst v.
        apply Sn_spec. right. apply nbl_in_A. apply ids_of_spec. exists b. now split.
    Qed.

    Let F3 : forall v, NS.In v (set_of_ccfg old) -> ~ NS.In v (set_of_ccfg new) -> removes cs v.
    Proof.
      intros v Ho Hn. apply R. unfold rem. apply NS.diff_spec. rewrite Sn_spec in Hn.
      apply So_spec in Ho as [Hu|Ho]; [exfalso; apply Hn; now left|].
      split; [now apply RA_spec|]. intro Ha. apply Hn. right. now apply AA_spec.
    Qed.

    Let F4 : forall v, NS.In v (set_of_ccfg new) -> ~ NS.In v (set_of_ccfg old) -> adds cs v.
    Proof.
      intros v Hn Ho. rewrite So_spec in Ho. apply Sn_spec in Hn as [Hu|Hn]; [exfalso; apply Ho; now left|].
      assert (Hd : NS.In v (NS.diff AA RA)).
      { apply NS.diff_spec. split; [now apply AA_spec|]. intro Hr. apply Ho. right. now apply RA_spec. }
      unfold cs. rewrite !adds_app.
      destruct (NSP.In_dec v add) as [Ia|Ia].
      - right. right. left. rewrite Ebatch. now apply cmds_of_adds.
      - right. right. right. apply (only_enter_adds ent v ent_enter).
        assert (Hb : NS.In v (ids_of nbl)).
        { unfold add in Ia. destruct catalyst; [|now exfalso].
          destruct (NSP.In_dec v (ids_of nbl)) as [I|I]; [exact I|]. exfalso. apply Ia. apply NS.diff_spec. now split. }
        apply ids_of_spec in Hb as (b & Hb & Eb). subst v.
        assert (Hin : In (enter_cmd b) (map enter_cmd nbl)) by now apply in_map.
        destruct (opt_concat_all _ ent _ Hent Hin) as (y & Ey).
        destruct (enter_cmd_some b y Ey) as (p & Ep). subst y. exists p.
        apply (opt_concat_in _ ent _ Hent). exists [GEnter (fst b) p]. split; [now rewrite <- Ey|now left].
    Qed.

    Lemma cisco_final_cmds cs' :
      Permutation cs' cs -> NS.Equal (simulate cs' (set_of_ccfg old)) (set_of_ccfg new).
    Proof. exact (effect2_final cs (set_of_ccfg old) (set_of_ccfg new) Simple F1 F2 F3 F4 cs'). Qed.

    Lemma cisco_prefix_cmds cs' l1 l2 :
      Permutation cs' cs -> cs' = l1 ++ l2 ->
      forall v, NS.In v (set_of_ccfg old) -> NS.In v (set_of_ccfg new) -> NS.In v (simulate l1 (set_of_ccfg old)).
    Proof. exact (effect2_prefix cs (set_of_ccfg old) (set_of_ccfg new) Simple F1 F2 cs' l1 l2). Qed.
  End WithCmds.

  Lemma cisco_struct_split gs :
    cisco_struct catalyst old new = Some gs ->
    exists aff lft ent nbl obl,
      opt_concat (map affected_cmd (c_both old new)) = Some aff /\
      blocks_of (map prow_of (c_added old new)) = Some nbl /\
      opt_concat (map (leftover_cmd nbl AA) obl) = Some lft /\
      opt_concat (map enter_cmd nbl) = Some ent /\
      map effect gs =
        map effect aff ++ map effect lft ++
        batch_cmds catalyst (NS.diff RA AA)
                   (if catalyst then NS.diff (NS.diff AA RA) (ids_of nbl) else NS.diff AA RA) ++
        map effect ent.
  Proof.
    unfold cisco_struct, cisco_core. fold RA AA.
    destruct (opt_concat (map affected_cmd (c_both old new))) as [aff|]; [|discriminate].
    destruct (blocks_of (map prow_of (c_added old new))) as [nbl|]; [|discriminate].
    destruct (blocks_of (map prow_of (c_removed old new))) as [obl|]; [|discriminate].
    destruct (opt_concat (map (leftover_cmd nbl AA) obl)) as [lft|] eqn:El; [|discriminate].
    destruct (opt_concat (map enter_cmd nbl)) as [ent|] eqn:Ee; [|discriminate].
    intro E. injection E as E. subst gs. exists aff, lft, ent, nbl, obl.
    repeat split; try reflexivity; try assumption.
    rewrite !map_app, map_effect_batch. reflexivity.
  Qed.

  Theorem cisco_final gs gs' :
    cisco_struct catalyst old new = Some gs -> Permutation gs' gs ->
    NS.Equal (gsimulate gs' (set_of_ccfg old)) (set_of_ccfg new).
  Proof.
    intros E P. apply cisco_struct_split in E as (aff & lft & ent & nbl & obl & H1 & H2 & H3 & H4 & E).
    unfold gsimulate. apply (cisco_final_cmds aff lft ent nbl obl H1 H2 H3 H4).
    rewrite <- E. now apply Permutation_map.
  Qed.

  Theorem cisco_prefix gs gs' l1 l2 :
    cisco_struct catalyst old new = Some gs -> Permutation gs' gs -> gs' = l1 ++ l2 ->
    NS.Subset (NS.inter (set_of_ccfg old) (set_of_ccfg new)) (gsimulate l1 (set_of_ccfg old)).
  Proof.
    intros E P El v Hv. apply NS.inter_spec in Hv as [Ho Hn].
    apply cisco_struct_split in E as (aff & lft & ent & nbl & obl & H1 & H2 & H3 & H4 & E).
    unfold gsimulate.
    apply (cisco_prefix_cmds aff lft ent nbl obl H1 H2 H3 H4 (map effect gs') (map effect l1) (map effect l2));
      try assumption.
    - rewrite <- E. now apply Permutation_map.
    - rewrite El. apply map_app.
  Qed.
End Main.

Theorem holds_cisco_struct catalyst old new gs :
  rows_disjoint (catalyst, old, new) = true ->
  cisco_struct catalyst old new = Some gs -> cgcmds_ok (catalyst, old, new) gs = true.
Proof.
  intros G E. unfold cgcmds_ok, reaches, keeps_common, Scdb_old, Scdb_new, cdb_old, cdb_new. cbn [fst snd].
  apply andb_true_iff. split.
  - apply NS.equal_spec. exact (cisco_final catalyst old new G gs gs E (Permutation_refl _)).
  - apply forallb_forall. intros t Ht. apply NS.subset_spec.
    apply states_prefix in Ht as (l1 & l2 & El & Et). subst t.
    intros v Hv. apply NS.inter_spec in Hv as [Ho Hn].
    destruct (cisco_struct_split catalyst old new gs E) as (aff & lft & ent & nbl & obl & H1 & H2 & H3 & H4 & Eg).
    apply (cisco_prefix_cmds catalyst old new G aff lft ent nbl obl H1 H2 H3 H4 (map effect gs) l1 l2); try assumption.
    rewrite Eg. apply Permutation_refl.
Qed.
