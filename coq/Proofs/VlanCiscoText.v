(* C11, Cisco / Nexus global `vlan` rule with blocks:
   (1) totality of the block model inside the domain (no "Too many actions", no "vlandb block must
       contain one and only one vlanid");
   (2) text level: cisco_rows (rows in, patch rows out: row diff by text, _parse_vlancfg on every
       row, the id of a block read from the parsed set) IS cisco_struct composed with the printers,
       for every configuration pair of the domain; parse_ccfg / parse_cgcmds invert the printers;
       hence the block theorems over rows. *)
From Coq Require Import List String Ascii Bool Arith NArith Lia Permutation.
From Coq Require Import MSets.
From Annet Require Import Base.Str Model.Vlan Model.VlanDb Model.VlanCisco Spec.P_C11 Spec.P_C11Text
     Proofs.VlanProofs Proofs.VlanDbProofs Proofs.VlanCiscoProofs
     Proofs.VlanTextLib Proofs.VlanTextRanges Proofs.VlanTextLines Proofs.VlanTextStruct Proofs.VlanDbText.
Import ListNotations.
Open Scope string_scope.
Open Scope list_scope.

Arguments Ascii.eqb : simpl never.
Arguments String.eqb : simpl never.
Arguments words : simpl never.
Arguments isdigit : simpl never.
Arguments str_of_N : simpl never.
Arguments N_of_str : simpl never.

(* ------------------------------------------------------------------------------------ *)
(* (1) totality *)

Lemma crow_ok_counts r c : crow_ok r = true -> c <> COther ->
  (List.length (filter (is_rule c) (snd r)) <= 1)%nat.
Proof.
  unfold crow_ok. intros H Hc. apply andb_true_iff in H as [H H3]. apply andb_true_iff in H as [_ H2].
  apply Nat.leb_le in H2. apply Nat.leb_le in H3. destruct c; [exact H2|exact H3|now exfalso].
Qed.

Lemma crow_ok_id r : crow_ok r = true -> snd r <> [] -> exists n, single_id (fst r) = Some n.
Proof.
  unfold crow_ok. intros H Hk. apply andb_true_iff in H as [H _]. apply andb_true_iff in H as [H _].
  apply andb_true_iff in H as [H _]. apply andb_true_iff in H as [_ H].
  apply orb_true_iff in H as [H|H].
  - destruct (snd r); [contradiction|discriminate H].
  - destruct (single_id (fst r)) as [n|]; [now exists n|discriminate H].
Qed.

Lemma crow_ok_ranges r : crow_ok r = true -> forallb range_ok (fst r) = true /\ fst r <> [].
Proof.
  unfold crow_ok. intro H. apply andb_true_iff in H as [H _]. apply andb_true_iff in H as [H _].
  apply andb_true_iff in H as [H _]. apply andb_true_iff in H as [H _]. apply andb_true_iff in H as [H1 H2].
  split; [exact H1|]. intro E. rewrite E in H2. discriminate H2.
Qed.

Lemma lookup_crow_some rs c ko : lookup_crow rs c = Some ko -> exists r, In r c /\ fst r = rs /\ snd r = ko.
Proof.
  induction c as [|r c IH]; cbn [lookup_crow]; [discriminate|].
  destruct (ranges_eqb (fst r) rs) eqn:E.
  - intro H. injection H as <-. apply ranges_eqb_eq in E. exists r. repeat split; [now left|exact E].
  - intro H. destruct (IH H) as (q & Hq & G). exists q. split; [now right|exact G].
Qed.

Lemma child_patch_nil neg : child_patch_g neg [] [] = Some [].
Proof. reflexivity. Qed.

Lemma ccfg_ok_rows c : ccfg_ok c = true -> forall r, In r c -> crow_ok r = true.
Proof. unfold ccfg_ok. intro H. apply andb_true_iff in H as [H _]. now apply forallb_forall. Qed.

Lemma blocks_of_total rows : (forall r, In r rows -> crow_ok r = true) ->
  exists bl, blocks_of (map prow_of rows) = Some bl.
Proof.
  induction rows as [|r rows IH]; intro H; [now exists []|]. cbn [map blocks_of].
  destruct IH as (bl & E); [intros q Hq; apply H; now right|]. rewrite E.
  unfold prow_of at 1 2 3, prow_kids, prow_id. cbn [fst snd].
  destruct (snd r) as [|x kids] eqn:Ek; [now exists bl|]. cbn [is_nil].
  destruct (crow_ok_id r (H r (or_introl eq_refl))) as (n & En); [rewrite Ek; discriminate|].
  rewrite En. eexists; reflexivity.
Qed.

Section Total.
  Variables (catalyst : bool) (old new : ccfg).
  Hypothesis WF : wf_cdb (catalyst, old, new) = true.

  Let Ho : forall r, In r old -> crow_ok r = true.
  Proof.
    apply ccfg_ok_rows. unfold wf_cdb, cdb_old in WF. cbn [fst snd] in WF. now apply andb_true_iff in WF as [H _].
  Qed.
  Let Hn : forall r, In r new -> crow_ok r = true.
  Proof.
    apply ccfg_ok_rows. unfold wf_cdb, cdb_new in WF. cbn [fst snd] in WF. now apply andb_true_iff in WF as [_ H].
  Qed.

  Lemma affected_total a : In a (c_both old new) -> exists l, affected_cmd a = Some l.
  Proof.
    unfold c_both. intro H. apply in_flat_map in H as (r & Hr & H).
    destruct (lookup_crow (fst r) old) as [ko|] eqn:El; [|destruct H]. destruct H as [<-|[]].
    destruct (lookup_crow_some _ _ _ El) as (q & Hq & Eq1 & Eq2).
    unfold affected_cmd. cbn [fst snd].
    destruct (child_patch_g_total "no" ko (snd r)) as (p & Ep).
    { intros c Hc. rewrite <- Eq2. apply crow_ok_counts; [now apply Ho|exact Hc]. }
    { intros c Hc. apply crow_ok_counts; [now apply Hn|exact Hc]. }
    rewrite Ep. destruct p as [|x p]; [now eexists|].
    destruct (single_id (fst r)) as [n|] eqn:Es; [now eexists|]. exfalso.
    assert (K1 : snd r = []).
    { destruct (snd r) eqn:E; [reflexivity|]. destruct (crow_ok_id r (Hn r Hr)) as (n & En); [rewrite E; discriminate|].
      rewrite En in Es. discriminate Es. }
    assert (K2 : ko = []).
    { destruct ko eqn:E; [reflexivity|]. destruct (crow_ok_id q (Ho q Hq)) as (n & En); [rewrite Eq2; discriminate|].
      rewrite Eq1, Es in En. discriminate En. }
    rewrite K1, K2, child_patch_nil in Ep. discriminate Ep.
  Qed.

  Theorem cisco_total : exists gs, cisco_struct catalyst old new = Some gs.
  Proof.
    unfold cisco_struct, cisco_core.
    destruct (opt_concat_some (map affected_cmd (c_both old new))) as (aff & Ea).
    { intros o Hin. apply in_map_iff in Hin as (a & <- & Ha). destruct (affected_total a Ha) as (l & E). now exists l. }
    rewrite Ea.
    assert (HA : forall r, In r (c_added old new) -> crow_ok r = true).
    { intros r Hr. unfold c_added in Hr. apply filter_In in Hr as [Hr _]. now apply Hn. }
    assert (HR : forall r, In r (c_removed old new) -> crow_ok r = true).
    { intros r Hr. unfold c_removed in Hr. apply filter_In in Hr as [Hr _]. now apply Ho. }
    destruct (blocks_of_total _ HA) as (nbl & En). destruct (blocks_of_total _ HR) as (obl & Eo).
    rewrite En, Eo.
    destruct (opt_concat_some (map (leftover_cmd nbl (union_sets (map prow_of (c_added old new)))) obl)) as (lft & El).
    { intros o Hin. apply in_map_iff in Hin as (b & <- & Hb). unfold leftover_cmd.
      destruct (negb (has_blk (fst b) nbl) && NS.mem (fst b) (union_sets (map prow_of (c_added old new)))); [|now eexists].
      destruct (blocks_of_in _ obl b Eo Hb) as (r & Hr & _ & Ek).
      destruct (child_patch_g_total "no" (snd b) []) as (p & Ep).
      { intros c Hc. rewrite <- Ek. apply crow_ok_counts; [now apply HR|exact Hc]. }
      { intros c _. apply nil_counts. }
      rewrite Ep. now eexists. }
    rewrite El.
    destruct (opt_concat_some (map enter_cmd nbl)) as (ent & Ee).
    { intros o Hin. apply in_map_iff in Hin as (b & <- & Hb). unfold enter_cmd.
      destruct (blocks_of_in _ nbl b En Hb) as (r & Hr & _ & Ek).
      destruct (child_patch_g_total "no" [] (snd b)) as (p & Ep).
      { intros c _. apply nil_counts. }
      { intros c Hc. rewrite <- Ek. apply crow_ok_counts; [now apply HA|exact Hc]. }
      rewrite Ep. now eexists. }
    rewrite Ee. eexists; reflexivity.
  Qed.
End Total.

(* ------------------------------------------------------------------------------------ *)
(* (2) text level *)

Definition kv : rulek := k_cvlan false.

Lemma tok_cvlan : rule_text_ok kv = true.
Proof. vm_compute. reflexivity. Qed.

Definition line_of (r : crow) : line := (false, fst r).

Lemma crow_line_ok r : crow_ok r = true -> line_ok kv (line_of r) = true.
Proof.
  intro H. destruct (crow_ok_ranges r H) as [H1 H2]. unfold line_ok, line_of. cbn [fst snd kv k_cvlan rk_logic logic_eqb].
  rewrite H1. destruct (fst r); [contradiction|reflexivity].
Qed.

Lemma print_crow_line r : print_crow r = (print_line kv (line_of r), snd r).
Proof. reflexivity. Qed.

Lemma lookup_trow_print rs c : line_ok kv (false, rs) = true -> (forall r, In r c -> crow_ok r = true) ->
  lookup_trow (print_line kv (false, rs)) (print_ccfg c) = lookup_crow rs c.
Proof.
  intros Hl Hc. induction c as [|r c IH]; [reflexivity|]. cbn [print_ccfg map lookup_trow lookup_crow].
  rewrite print_crow_line. cbn [fst snd].
  rewrite (eqb_print_line kv (line_of r) (false, rs) (crow_line_ok r (Hc r (or_introl eq_refl))) Hl).
  unfold line_eqb, line_of. cbn [fst snd Bool.eqb andb].
  destruct (ranges_eqb (fst r) rs); [reflexivity|]. apply IH. intros q Hq. apply Hc. now right.
Qed.

Lemma has_trow_print r c : crow_ok r = true -> (forall q, In q c -> crow_ok q = true) ->
  has_trow (fst (print_crow r)) (print_ccfg c) = has_crow (fst r) c.
Proof.
  intros Hr Hc. unfold has_trow, has_crow. rewrite print_crow_line. cbn [fst].
  unfold line_of. now rewrite (lookup_trow_print (fst r) c (crow_line_ok r Hr) Hc).
Qed.

Lemma filter_print_ccfg (f : trow -> bool) (g : crow -> bool) c :
  (forall r, In r c -> f (print_crow r) = g r) -> filter f (print_ccfg c) = print_ccfg (filter g c).
Proof.
  intro H. unfold print_ccfg. rewrite filter_map_comm. f_equal. apply filter_ext_in. exact H.
Qed.

(* the id annet reads from the parsed set of a one-VLAN row *)
Lemma single_id_some rs n : single_id rs = Some n -> rs = [(n, n)].
Proof.
  unfold single_id. destruct rs as [|[a b] [|? ?]]; try discriminate. destruct (N.eqb a b) eqn:E; [|discriminate].
  intro H. injection H as <-. apply N.eqb_eq in E. now subst.
Qed.

Lemma single_range' n v : NS.In v (set_of_ranges [(n, n)]) <-> v = n.
Proof.
  rewrite set_of_ranges_spec. split.
  - intros (r & [<-|[]] & H). unfold in_range in H. cbn in H. lia.
  - intros ->. exists (n, n). split; [now left|]. unfold in_range. cbn. lia.
Qed.

Lemma set_id_single rs s n : single_id rs = Some n -> NS.Equal s (set_of_ranges rs) -> set_id s = Some n.
Proof.
  intros H E. apply single_id_some in H. subst rs. unfold set_id.
  assert (G : NS.Equal s (NS.singleton n)).
  { intro v. rewrite (E v), single_range', NS.singleton_spec. reflexivity. }
  rewrite (elements_equal _ _ G). reflexivity.
Qed.

Definition prow_rel (p q : prow) : Prop :=
  NS.Equal (prow_set p) (prow_set q) /\ prow_kids p = prow_kids q /\
  (prow_kids p <> [] -> prow_id p = prow_id q).

Definition brow_rel (a b : brow) : Prop :=
  snd (fst a) = snd (fst b) /\ snd a = snd b /\
  ((snd (fst a) <> [] \/ snd a <> []) -> fst (fst a) = fst (fst b)).

Lemma t_prow_print r : crow_ok r = true ->
  exists p, t_prow (print_crow r) = Some p /\ prow_rel p (prow_of r) /\
            forall n, single_id (fst r) = Some n -> prow_id p = Some n.
Proof.
  intro H. destruct (cisco_parse_line kv tok_cvlan (line_of r) eq_refl (crow_line_ok r H)) as (s & Es & Hs).
  unfold t_prow. rewrite print_crow_line. cbn [fst snd]. rewrite Es.
  change (String.eqb (rk_prefix kv) "vlan") with true. cbn iota.
  exists (s, set_id s, snd r). split; [reflexivity|].
  assert (Hid : forall n, single_id (fst r) = Some n -> set_id s = Some n).
  { intros n Hn. exact (set_id_single (fst r) s n Hn Hs). }
  split; [|exact Hid].
  unfold prow_rel, prow_of, prow_set, prow_kids, prow_id. cbn [fst snd]. split; [exact Hs|]. split; [reflexivity|].
  intro Hk. destruct (crow_ok_id r H Hk) as (n & En). now rewrite En, (Hid n En).
Qed.

Lemma all_opt_t_prow rows : (forall r, In r rows -> crow_ok r = true) ->
  exists ps, all_opt (map t_prow (print_ccfg rows)) = Some ps /\ Forall2 prow_rel ps (map prow_of rows).
Proof.
  induction rows as [|r rows IH]; intro H; [exists []; split; [reflexivity|constructor]|].
  destruct IH as (ps & E & F); [intros q Hq; apply H; now right|].
  destruct (t_prow_print r (H r (or_introl eq_refl))) as (p & Ep & Hp & _).
  exists (p :: ps). cbn [print_ccfg map all_opt]. unfold print_ccfg in E. rewrite Ep, E. split; [reflexivity|].
  now constructor.
Qed.

(* cisco_core does not see how the sets were built, nor the id of a row without children *)
Lemma affected_rel a b : brow_rel a b -> affected_cmd a = affected_cmd b.
Proof.
  destruct a as [[ia ko] kn], b as [[ib ko'] kn']. unfold brow_rel. cbn [fst snd]. intros (<- & <- & H).
  unfold affected_cmd. cbn [fst snd]. destruct (child_patch_g "no" ko kn) as [[|x p]|] eqn:E; try reflexivity.
  rewrite H; [reflexivity|]. destruct ko; [|left; discriminate]. destruct kn; [|right; discriminate].
  rewrite child_patch_nil in E. discriminate E.
Qed.

Lemma Forall2_map_eq {A B C} (f : A -> C) (g : B -> C) (R : A -> B -> Prop) l l' :
  (forall a b, R a b -> f a = g b) -> Forall2 R l l' -> map f l = map g l'.
Proof. intros H F. induction F as [|a b l l' Hab _ IH]; [reflexivity|]. cbn. now rewrite (H a b Hab), IH. Qed.

Lemma blocks_of_rel R R' : Forall2 prow_rel R R' -> blocks_of R = blocks_of R'.
Proof.
  induction 1 as [|p q l l' (Hs & Hk & Hi) _ IH]; [reflexivity|]. cbn [blocks_of]. rewrite IH, <- Hk.
  destruct (blocks_of l') as [bs|]; [|reflexivity].
  destruct (prow_kids p) eqn:E; [reflexivity|]. cbn [is_nil]. rewrite <- Hi by discriminate. reflexivity.
Qed.

Lemma union_sets_rel R R' : Forall2 prow_rel R R' -> NS.Equal (union_sets R) (union_sets R').
Proof.
  induction 1 as [|p q l l' (Hs & _ & _) _ IH]; [reflexivity|]. cbn [union_sets fold_right].
  fold (union_sets l). fold (union_sets l'). now rewrite Hs, IH.
Qed.

Lemma batch_cmds_equal cat r r' a a' : NS.Equal r r' -> NS.Equal a a' -> batch_cmds cat r a = batch_cmds cat r' a'.
Proof.
  intros Hr Ha. unfold batch_cmds.
  now rewrite (is_empty_equal _ _ Hr), (is_empty_equal _ _ Ha), (collapse_equal cat _ _ Hr), (collapse_equal cat _ _ Ha).
Qed.

Lemma cisco_core_rel cat R R' A A' B B' :
  Forall2 prow_rel R R' -> Forall2 prow_rel A A' -> Forall2 brow_rel B B' ->
  cisco_core cat R A B = cisco_core cat R' A' B'.
Proof.
  intros HR HA HB. unfold cisco_core.
  rewrite (Forall2_map_eq affected_cmd affected_cmd brow_rel B B' affected_rel HB).
  rewrite (blocks_of_rel A A' HA), (blocks_of_rel R R' HR).
  destruct (opt_concat (map affected_cmd B')) as [aff|]; [|reflexivity].
  destruct (blocks_of A') as [nbl|]; [|reflexivity]. destruct (blocks_of R') as [obl|]; [|reflexivity].
  pose proof (union_sets_rel A A' HA) as EA. pose proof (union_sets_rel R R' HR) as ER.
  assert (M : forall x, NS.mem x (union_sets A) = NS.mem x (union_sets A')).
  { intro x. apply eq_true_iff_eq. rewrite !NS.mem_spec. apply EA. }
  assert (L : map (leftover_cmd nbl (union_sets A)) obl = map (leftover_cmd nbl (union_sets A')) obl).
  { apply map_ext. intro b. unfold leftover_cmd. now rewrite (M (fst b)). }
  rewrite L. destruct (opt_concat (map (leftover_cmd nbl (union_sets A')) obl)) as [lft|]; [|reflexivity].
  destruct (opt_concat (map enter_cmd nbl)) as [ent|]; [|reflexivity].
  assert (D1 : NS.Equal (NS.diff (union_sets R) (union_sets A)) (NS.diff (union_sets R') (union_sets A')))
    by now rewrite EA, ER.
  assert (D2 : NS.Equal (NS.diff (union_sets A) (union_sets R)) (NS.diff (union_sets A') (union_sets R')))
    by now rewrite EA, ER.
  assert (D3 : NS.Equal (NS.diff (NS.diff (union_sets A) (union_sets R)) (ids_of nbl))
                        (NS.diff (NS.diff (union_sets A') (union_sets R')) (ids_of nbl)))
    by now rewrite D2.
  destruct cat.
  - now rewrite (batch_cmds_equal true _ _ _ _ D1 D3).
  - now rewrite (batch_cmds_equal false _ _ _ _ D1 D2).
Qed.

Section TextTie.
  Variables (catalyst : bool) (old new : ccfg).
  Hypothesis WF : wf_cdb (catalyst, old, new) = true.

  Let Ho : forall r, In r old -> crow_ok r = true.
  Proof.
    apply ccfg_ok_rows. unfold wf_cdb, cdb_old in WF. cbn [fst snd] in WF. now apply andb_true_iff in WF as [H _].
  Qed.
  Let Hn : forall r, In r new -> crow_ok r = true.
  Proof.
    apply ccfg_ok_rows. unfold wf_cdb, cdb_new in WF. cbn [fst snd] in WF. now apply andb_true_iff in WF as [_ H].
  Qed.

  Lemma removed_print :
    filter (fun r => negb (has_trow (fst r) (print_ccfg new))) (print_ccfg old) = print_ccfg (c_removed old new).
  Proof.
    unfold c_removed. apply filter_print_ccfg. intros r Hr. now rewrite (has_trow_print r new (Ho r Hr) Hn).
  Qed.

  Lemma added_print :
    filter (fun r => negb (has_trow (fst r) (print_ccfg old))) (print_ccfg new) = print_ccfg (c_added old new).
  Proof.
    unfold c_added. apply filter_print_ccfg. intros r Hr. now rewrite (has_trow_print r old (Hn r Hr) Ho).
  Qed.

  Lemma t_both_print :
    exists bs, t_both (print_ccfg old) (print_ccfg new) = Some bs /\ Forall2 brow_rel bs (c_both old new).
  Proof.
    unfold t_both, c_both. revert Hn. generalize new. clear WF. intro nw.
    induction nw as [|r nw IH]; intro Hnw; [exists []; split; [reflexivity|constructor]|].
    destruct IH as (bs & E & F); [intros q Hq; apply Hnw; now right|].
    pose proof (Hnw r (or_introl eq_refl)) as Hr.
    change (print_ccfg (r :: nw)) with (print_crow r :: print_ccfg nw). cbn [flat_map].
    change (fst (print_crow r)) with (print_line kv (false, fst r)).
    rewrite (lookup_trow_print (fst r) old (crow_line_ok r Hr) Ho).
    destruct (lookup_crow (fst r) old) as [ko|] eqn:El.
    - destruct (t_prow_print r Hr) as (p & Ep & _ & Hid). cbn [app all_opt].
      rewrite Ep. cbn [option_map]. rewrite E. change (snd (print_crow r)) with (snd r).
      exists ((prow_id p, ko, snd r) :: bs). split; [reflexivity|]. constructor; [|exact F].
      unfold brow_rel. cbn [fst snd]. repeat split. intros [Hk|Hk].
      + destruct (lookup_crow_some _ _ _ El) as (q & Hq & Eq1 & Eq2).
        destruct (crow_ok_id q (Ho q Hq)) as (n & En); [now rewrite Eq2|]. rewrite Eq1 in En.
        now rewrite En, (Hid n En).
      + destruct (crow_ok_id r Hr Hk) as (n & En). now rewrite En, (Hid n En).
    - cbn [app]. exists bs. now split.
  Qed.

  (* struct_is_text_cdb, for all inputs *)
  Theorem cisco_struct_is_text :
    cisco_rows catalyst (print_ccfg old) (print_ccfg new)
    = option_map (map (print_cgcmd catalyst)) (cisco_struct catalyst old new).
  Proof.
    unfold cisco_rows. rewrite removed_print, added_print.
    assert (HA : forall r, In r (c_added old new) -> crow_ok r = true).
    { intros r Hr. unfold c_added in Hr. apply filter_In in Hr as [Hr _]. now apply Hn. }
    assert (HR : forall r, In r (c_removed old new) -> crow_ok r = true).
    { intros r Hr. unfold c_removed in Hr. apply filter_In in Hr as [Hr _]. now apply Ho. }
    destruct (all_opt_t_prow _ HR) as (pr & Er & Fr). destruct (all_opt_t_prow _ HA) as (pa & Ea & Fa).
    destruct t_both_print as (bs & Eb & Fb). rewrite Er, Ea, Eb.
    unfold cisco_struct. now rewrite (cisco_core_rel catalyst _ _ _ _ _ _ Fr Fa Fb).
  Qed.

  Theorem cisco_struct_is_text_true g y : struct_is_text_cdb (((catalyst, old, new), g), y) = true.
  Proof.
    unfold struct_is_text_cdb. cbn [fst snd cdb_cat cdb_old cdb_new]. rewrite WF. cbn [negb orb].
    rewrite cisco_struct_is_text. destruct (cisco_struct catalyst old new); [|reflexivity]. cbn [option_map].
    now apply trows_eqb_eq.
  Qed.
End TextTie.

(* ------------------------------------------------------------------------------------ *)
(* reading printed configurations and emitted rows back *)

Lemma words_vlan_word rs : rs <> [] ->
  words (print_line kv (false, rs)) = ["vlan"; join_with "," (map cisco_range_str rs)].
Proof.
  intro H. unfold print_line. cbn [kv k_cvlan rk_logic is_hw snd fst].
  destruct rs as [|r0 rs0] eqn:E; [contradiction|]. rewrite <- E.
  change (rk_prefix (RK CiscoSimple "vlan" "no vlan" false)) with (rk_prefix kv).
  rewrite (words_pre kv), (words_cisco_word rs). reflexivity. rewrite E. discriminate.
Qed.

Lemma parse_print_crow r : crow_ok r = true -> parse_crow (print_crow r) = Some r.
Proof.
  intro H. destruct (crow_ok_ranges r H) as [_ Hne]. unfold parse_crow. rewrite print_crow_line. cbn [fst snd].
  unfold line_of. rewrite (words_vlan_word (fst r) Hne). cbn [strip_prefix].
  change (String.eqb "vlan" "vlan") with true. cbn iota.
  rewrite (cisco_print_parse_ranges (fst r) Hne), (nonempty_ranges_some (fst r) Hne). now destruct r.
Qed.

Theorem parse_print_ccfg c : (forall r, In r c -> crow_ok r = true) -> parse_ccfg (print_ccfg c) = Some c.
Proof.
  unfold parse_ccfg, print_ccfg. induction c as [|r c IH]; intro H; [reflexivity|]. cbn [map all_some].
  rewrite (parse_print_crow r (H r (or_introl eq_refl))), IH; [reflexivity|]. intros q Hq. apply H. now right.
Qed.

(* a command of the block model: a batch add / remove of a non-empty range list, or a block *)
Definition cgemittable (g : gcmd) : bool :=
  match g with
  | GBatch (Add rs) | GBatch (Remove rs) => negb (is_nil rs)
  | GEnter _ _ => true
  | _ => false
  end.

Lemma print_cmd_cat cat c : emittable kv c = true ->
  print_cmd (k_cvlan cat) "vlan" "vlan" c = print_cmd kv (rk_prefix kv) (rk_prefix kv) c.
Proof. destruct c; cbn [emittable kv k_cvlan rk_logic logic_eqb orb]; try discriminate; reflexivity. Qed.

(* the row of a block without option rows is the row of `vlan N`: the same effect *)
Lemma parse_print_cgcmd cat g : cgemittable g = true ->
  exists g', parse_cgcmd (print_cgcmd cat g) = Some g' /\ effect g' = effect g.
Proof.
  destruct g as [c|n kids|n]; cbn [cgemittable]; intro H; [| |discriminate H].
  - assert (He : emittable kv c = true) by (destruct c; try discriminate H; exact H).
    exists (GBatch c). split; [|reflexivity]. unfold parse_cgcmd, print_cgcmd. cbn [fst snd is_nil].
    rewrite (print_cmd_cat cat c He). fold kv. now rewrite (parse_print_cmd kv tok_cvlan c He).
  - destruct kids as [|x kids].
    + exists (GBatch (Add [(n, n)])). split; [|reflexivity]. unfold parse_cgcmd, print_cgcmd. cbn [fst snd is_nil].
      fold kv. pose proof (parse_print_cmd kv tok_cvlan (Add [(n, n)]) eq_refl) as E.
      unfold print_cmd in E. cbn [kv k_cvlan rk_logic logic_eqb rk_prefix map join_with] in E.
      unfold cisco_range_str, range_str in E. cbn [fst snd] in E. rewrite N.eqb_refl in E.
      change ("vlan" ++ " " ++ str_of_N n)%string with ("vlan " ++ str_of_N n)%string in E. now rewrite E.
    + exists (GEnter n (x :: kids)). split; [|reflexivity]. unfold parse_cgcmd, print_cgcmd. cbn [fst snd is_nil].
      rewrite words_vlan_n. change (String.eqb "vlan" "vlan") with true.
      now rewrite isdigit_str_of_N, N_of_str_of_N.
Qed.

Lemma parse_print_cgcmds cat gs : forallb cgemittable gs = true ->
  exists gs', parse_cgcmds (map (print_cgcmd cat) gs) = Some gs' /\ map effect gs' = map effect gs.
Proof.
  induction gs as [|g gs IH]; intro H; [exists []; now split|]. cbn [forallb] in H.
  apply andb_true_iff in H as [Hg H]. destruct (IH H) as (gs' & E & Ee).
  destruct (parse_print_cgcmd cat g Hg) as (g' & Eg & Ege).
  exists (g' :: gs'). cbn [map parse_cgcmds]. rewrite Eg, E. split; [reflexivity|]. now rewrite Ege, Ee.
Qed.

Lemma parse_cgcmds_perm rows rows' : Permutation rows' rows ->
  forall cs, parse_cgcmds rows = Some cs -> exists cs', parse_cgcmds rows' = Some cs' /\ Permutation cs' cs.
Proof.
  intro P. apply Permutation_sym in P. induction P as [|x l l' P IH|x y l|l l' l'' P1 IH1 P2 IH2]; intros cs E.
  - exists cs. split; [exact E|apply Permutation_refl].
  - cbn [parse_cgcmds] in *. destruct (parse_cgcmd x) as [c|]; [|discriminate E].
    destruct (parse_cgcmds l) as [cl|]; [|discriminate E]. injection E as <-.
    destruct (IH cl eq_refl) as (cs' & E' & P'). rewrite E'. exists (c :: cs'). split; [reflexivity|].
    now apply perm_skip.
  - cbn [parse_cgcmds] in *. destruct (parse_cgcmd y) as [cy|]; [|discriminate E].
    destruct (parse_cgcmd x) as [cx|]; [|discriminate E].
    destruct (parse_cgcmds l) as [cl|]; [|discriminate E]. injection E as <-.
    exists (cx :: cy :: cl). split; [reflexivity|apply perm_swap].
  - destruct (IH1 cs E) as (c1 & E1 & Q1). destruct (IH2 c1 E1) as (c2 & E2 & Q2).
    exists c2. split; [exact E2|]. now apply Permutation_trans with c1.
Qed.

Lemma batch_cmds_emittable cat r a c : In c (batch_cmds cat r a) -> cgemittable (GBatch c) = true.
Proof.
  unfold batch_cmds. intro H. apply in_app_or in H as [H|H].
  - destruct (NS.is_empty r) eqn:E; [destruct H|]. apply in_map_iff in H as (rs & <- & H). cbn.
    destruct (chunk_of_collapse _ _ _ _ H E) as [Hne _]. destruct rs; [contradiction|reflexivity].
  - destruct (NS.is_empty a) eqn:E; [destruct H|]. apply in_map_iff in H as (rs & <- & H). cbn.
    destruct (chunk_of_collapse _ _ _ _ H E) as [Hne _]. destruct rs; [contradiction|reflexivity].
Qed.

Lemma cisco_struct_emittable cat old new gs : cisco_struct cat old new = Some gs -> forallb cgemittable gs = true.
Proof.
  unfold cisco_struct, cisco_core.
  destruct (opt_concat (map affected_cmd (c_both old new))) as [aff|] eqn:Ea; [|discriminate].
  destruct (blocks_of (map prow_of (c_added old new))) as [nbl|]; [|discriminate].
  destruct (blocks_of (map prow_of (c_removed old new))) as [obl|]; [|discriminate].
  destruct (opt_concat (map (leftover_cmd nbl _) obl)) as [lft|] eqn:El; [|discriminate].
  destruct (opt_concat (map enter_cmd nbl)) as [ent|] eqn:Ee; [|discriminate].
  intro E. injection E as <-. apply forallb_forall. intros g Hg.
  apply in_app_or in Hg as [Hg|Hg]; [|apply in_app_or in Hg as [Hg|Hg]; [|apply in_app_or in Hg as [Hg|Hg]]].
  - apply (opt_concat_in _ aff g Ea) in Hg as (y & Hy & Hg). apply in_map_iff in Hy as (a & Eq & _).
    destruct (affected_cmd_in a y g Eq Hg) as (n & p & -> & _). reflexivity.
  - apply (opt_concat_in _ lft g El) in Hg as (y & Hy & Hg). apply in_map_iff in Hy as (b & Eq & _).
    destruct (leftover_cmd_in _ _ b y g Eq Hg) as [(p & ->) _]. reflexivity.
  - apply in_map_iff in Hg as (c & <- & Hc). exact (batch_cmds_emittable _ _ _ c Hc).
  - apply (opt_concat_in _ ent g Ee) in Hg as (y & Hy & Hg). apply in_map_iff in Hy as (b & Eq & _).
    destruct (enter_cmd_in b y g Eq Hg) as (p & ->). reflexivity.
Qed.

(* the two block theorems for any permutation of the EFFECTS *)
Lemma cisco_final_eff cat old new gs cs' : rows_disjoint (cat, old, new) = true ->
  cisco_struct cat old new = Some gs -> Permutation cs' (map effect gs) ->
  NS.Equal (simulate cs' (set_of_ccfg old)) (set_of_ccfg new).
Proof.
  intros G E P.
  destruct (cisco_struct_split cat old new gs E) as (aff & lft & ent & nbl & obl & H1 & H2 & H3 & H4 & Eg).
  apply (cisco_final_cmds cat old new G aff lft ent nbl obl H1 H2 H3 H4). now rewrite <- Eg.
Qed.

Lemma cisco_prefix_eff cat old new gs cs' l1 l2 : rows_disjoint (cat, old, new) = true ->
  cisco_struct cat old new = Some gs -> Permutation cs' (map effect gs) -> cs' = l1 ++ l2 ->
  NS.Subset (NS.inter (set_of_ccfg old) (set_of_ccfg new)) (simulate l1 (set_of_ccfg old)).
Proof.
  intros G E P El v Hv. apply NS.inter_spec in Hv as [Ho Hn].
  destruct (cisco_struct_split cat old new gs E) as (aff & lft & ent & nbl & obl & H1 & H2 & H3 & H4 & Eg).
  apply (cisco_prefix_cmds cat old new G aff lft ent nbl obl H1 H2 H3 H4 cs' l1 l2); try assumption.
  now rewrite <- Eg.
Qed.

Lemma cdb_rows_wf_inv ro rn : cdb_rows_wf ro rn = true ->
  exists o n, parse_ccfg ro = Some o /\ parse_ccfg rn = Some n /\ ro = print_ccfg o /\ rn = print_ccfg n /\
              forall cat, wf_cdb (cat, o, n) = true.
Proof.
  unfold cdb_rows_wf. intro H. destruct (parse_ccfg ro) as [o|]; [|discriminate H].
  destruct (parse_ccfg rn) as [n|]; [|discriminate H].
  apply andb_true_iff in H as [H W]. apply andb_true_iff in H as [H1 H2].
  apply trows_eqb_eq in H1. apply trows_eqb_eq in H2. exists o, n. repeat split; auto.
Qed.

Theorem cdb_rows_main cat ro rn : cdb_rows_wf ro rn = true -> cdb_rows_guard ro rn = true ->
  exists out, cisco_rows cat ro rn = Some out /\
    forall out', Permutation out' out ->
      exists gs', parse_cgcmds out' = Some gs' /\
        NS.Equal (gsimulate gs' (cdb_rows_set ro)) (cdb_rows_set rn) /\
        forall l1 l2, gs' = l1 ++ l2 ->
          NS.Subset (NS.inter (cdb_rows_set ro) (cdb_rows_set rn)) (gsimulate l1 (cdb_rows_set ro)).
Proof.
  intros H G. destruct (cdb_rows_wf_inv ro rn H) as (o & n & Po & Pn & Eo & En & W).
  unfold cdb_rows_guard in G. unfold cdb_rows_set. rewrite Po, Pn in *. subst ro rn.
  assert (G' : rows_disjoint (cat, o, n) = true) by exact G.
  destruct (cisco_total cat o n (W cat)) as (gs & E).
  exists (map (print_cgcmd cat) gs). split; [now rewrite (cisco_struct_is_text cat o n (W cat)), E|].
  intros out' Pm.
  destruct (parse_print_cgcmds cat gs (cisco_struct_emittable cat o n gs E)) as (gs0 & Ep & Ee).
  destruct (parse_cgcmds_perm _ out' Pm gs0 Ep) as (gs' & Ep' & Pc).
  assert (Pe : Permutation (map effect gs') (map effect gs)) by (rewrite <- Ee; now apply Permutation_map).
  exists gs'. split; [exact Ep'|]. unfold gsimulate. split.
  - exact (cisco_final_eff cat o n gs _ G' E Pe).
  - intros l1 l2 El. apply (cisco_prefix_eff cat o n gs (map effect gs') (map effect l1) (map effect l2) G' E Pe).
    rewrite El. apply map_app.
Qed.

Theorem cdb_rows_wf_print cat old new : wf_cdb (cat, old, new) = true ->
  cdb_rows_wf (print_ccfg old) (print_ccfg new) = true.
Proof.
  intro WF. unfold cdb_rows_wf. assert (W0 : wf_cdb (false, old, new) = true) by exact WF.
  unfold wf_cdb, cdb_old, cdb_new in WF. cbn [fst snd] in WF. apply andb_true_iff in WF as [Ho Hn].
  rewrite (parse_print_ccfg old (ccfg_ok_rows old Ho)), (parse_print_ccfg new (ccfg_ok_rows new Hn)).
  rewrite W0, andb_true_r. apply andb_true_iff. split; now apply trows_eqb_eq.
Qed.

Theorem cdb_rows_holds cat old new : wf_cdb (cat, old, new) = true -> rows_disjoint (cat, old, new) = true ->
  P_C11_cdb (cat, old, new) (cisco_rows cat (print_ccfg old) (print_ccfg new)) = true.
Proof.
  intros W G. unfold P_C11_cdb. rewrite W, (cisco_struct_is_text cat old new W).
  destruct (cisco_total cat old new W) as (gs & E). rewrite E. cbn [option_map].
  destruct (parse_print_cgcmds cat gs (cisco_struct_emittable cat old new gs E)) as (gs0 & Ep & Ee).
  rewrite Ep. pose proof (holds_cisco_struct cat old new gs G E) as Hh.
  unfold cgcmds_ok in *. now rewrite Ee.
Qed.
