(* C13 — the API sequence on one old document and the purity clause (Spec/P_C13_sess.v). *)
From Coq Require Import List String Ascii Bool Arith ZArith.
From Annet Require Import Base.Str Model.Json Spec.P_C13 Spec.P_C13_sess Proofs.JsonProofs Proofs.JsonFragProofs Proofs.JsonDiffProofs.
Import ListNotations.
Open Scope string_scope.
Open Scope list_scope.

(* the model read as an implementation is pure and returns what the model returns *)
Lemma pure_frag_returns_like : forall V, returns_like V (pure_frag V).
Proof. intros V old f acl. reflexivity. Qed.

Lemma pure_frag_leaves_inputs : forall V, leaves_inputs (pure_frag V).
Proof. intros V old f acl. split; reflexivity. Qed.

(* the aliasing implementation has the right return value for every input ... *)
Lemma aliasing_frag_returns_like : forall V, returns_like V (aliasing_frag V).
Proof.
  intros V old f acl. unfold eff_result, aliasing_frag.
  destruct (apply_fragment V old f acl) as [r|]; reflexivity.
Qed.

(* ... and keeps the fragment *)
Lemma aliasing_frag_keeps_fragment : forall V old f acl, eff_f (aliasing_frag V) old f acl = f.
Proof.
  intros V old f acl. unfold eff_f, aliasing_frag.
  destruct (apply_fragment V old f acl) as [r|]; reflexivity.
Qed.

(* Round trip of the API sequence: for every implementation that returns what the model returns and
   leaves its inputs alone, and every differ satisfying the hypothesis of C13_patch_roundtrip_partial,
   the device ends up with the merged document. *)
Lemma session_roundtrip :
  forall (V : variant) (I : eff_frag) (D : json -> json -> list op),
    v_sorted V = false ->
    returns_like V I -> leaves_inputs I ->
    (forall a b, apply_ops (D a b) a = Some b) ->
    forall old f acl new,
      apply_fragment V old f acl = Some new ->
      api_session I (fun a b => make_patch_of V (D a b)) old f acl = (Some new, Some new).
Proof.
  intros V I D HV HR HL HD old f acl new Hnew.
  unfold api_session. rewrite (HR old f acl), Hnew.
  destruct (HL old f acl) as [Ho _]. rewrite Ho.
  f_equal. apply (patch_roundtrip_keep_order D HD V old new HV).
Qed.

(* the same with the verified differ in place of the library's: no hypothesis on a differ is left; the
   device's document equals the merged one up to member order (Python dict ==) *)
Lemma session_roundtrip_verified :
  forall (V : variant) (I : eff_frag),
    v_sorted V = false ->
    returns_like V I -> leaves_inputs I ->
    forall old f acl new,
      uniq old = true -> uniq new = true ->
      apply_fragment V old f acl = Some new ->
      fst (api_session I (fun a b => make_patch_of V (diff a b)) old f acl) = Some new /\
      P_C13_patch (old, new) (snd (api_session I (fun a b => make_patch_of V (diff a b)) old f acl)) = true.
Proof.
  intros V I HV HR HL old f acl new Ho Hn Hnew.
  unfold api_session. rewrite (HR old f acl), Hnew.
  destruct (HL old f acl) as [Hold _]. rewrite Hold. cbn [fst snd].
  split; [reflexivity|]. apply diff_roundtrip_P_C13; assumption.
Qed.

(* witness: one member removed *)
Definition sess_w_old : json := JObj [("T", JObj [("a", JNum 1%Z); ("b", JNum 2%Z)]); ("U", JNum 0%Z)].
Definition sess_w_f : json := JObj [("T", JObj [("a", JNum 1%Z)])].
Definition sess_w_acl : list string := ["/T/*"].
Definition sess_w_new : json := JObj [("T", JObj [("a", JNum 1%Z)]); ("U", JNum 0%Z)].

(* The purity clause is necessary: an implementation with the model's return value for every input
   (so every law about the returned document holds, idempotence included) that leaves the result in
   [old] makes the API sequence upload an empty patch; the device keeps the stale member. *)
Lemma session_needs_purity :
  forall V, V = V_fixed ->
    returns_like V (aliasing_frag V) /\
    exists old f acl new,
      uniq old = true /\ uniq new = true /\
      apply_fragment V old f acl = Some new /\
      fst (api_session (aliasing_frag V) (fun a b => make_patch_of V (diff a b)) old f acl) = Some new /\
      snd (api_session (aliasing_frag V) (fun a b => make_patch_of V (diff a b)) old f acl) = Some old /\
      P_C13_patch (old, new) (snd (api_session (aliasing_frag V) (fun a b => make_patch_of V (diff a b)) old f acl)) = false.
Proof.
  intros V EV. split; [apply aliasing_frag_returns_like|].
  exists sess_w_old, sess_w_f, sess_w_acl, sess_w_new. subst V. vm_compute. repeat split; reflexivity.
Qed.

(* ---- the predicate of the correspondence run on the model's own session ---- *)

Lemma chain_docs_completed :
  forall V steps d new,
    chain V d steps = Some new ->
    sess_completed (d, steps) (chain_docs V d steps) = true /\
    (steps <> [] -> last_doc (chain_docs V d steps) = Some new).
Proof.
  intros V steps. induction steps as [|s t IH]; intros d new H.
  - split; [reflexivity|]. intros C. contradiction.
  - unfold chain in H. cbn [fold_left] in H. unfold chain_step at 2 in H. cbn in H.
    destruct (apply_fragment V d (fst s) (snd s)) as [d'|] eqn:E.
    + cbn [chain_docs]. rewrite E.
      destruct (IH d' new H) as [Hc Hl].
      unfold sess_completed in *. cbn [fst snd List.length forallb] in *.
      split.
      * apply andb_true_iff in Hc. destruct Hc as [Hc1 Hc2].
        apply andb_true_iff. split; [exact Hc1 | exact Hc2].
      * intros _. destruct t as [|s' t'].
        -- cbn in H. injection H as H. subst d'. reflexivity.
        -- assert (Hne : s' :: t' <> []) by discriminate.
           specialize (Hl Hne). unfold last_doc in *. cbn [rev].
           remember (chain_docs V d' (s' :: t')) as L eqn:EL.
           destruct (rev L) as [|x r] eqn:ER; [discriminate Hl|].
           cbn. exact Hl.
    + exfalso. clear IH E. induction t as [|s' t' IHt]; cbn in H; [discriminate H|]. apply IHt. exact H.
Qed.

Lemma session_outcome_holds :
  forall V old steps new,
    v_sorted V = false ->
    uniq old = true -> uniq new = true ->
    chain V old steps = Some new ->
    P_C13_session (old, steps) (session_outcome V diff (old, steps)) = true.
Proof.
  intros V old steps new HV Ho Hn Hc.
  destruct (chain_docs_completed V steps old new Hc) as [Hcomp Hlast].
  assert (Hnew : exists n, sess_new (old, steps) (chain_docs V old steps) = Some n /\ jeq n new = true /\ uniq n = true).
  { unfold sess_new. rewrite Hcomp. cbn [fst snd]. destruct steps as [|s t].
    - cbn in Hc. injection Hc as Hc. subst new. exists old. split; [reflexivity|]. split; [apply jeq_refl; exact Ho | exact Ho].
    - rewrite Hlast by discriminate. exists new. split; [reflexivity|]. split; [apply jeq_refl; exact Hn | exact Hn]. }
  destruct Hnew as [n [En [_ Hun]]].
  unfold session_outcome. cbn [fst snd]. rewrite En.
  unfold P_C13_session, P_sess_old_kept, P_sess_roundtrip. cbn [fst snd]. rewrite En.
  apply andb_true_iff. split.
  - cbn. apply jeq_refl. exact Ho.
  - apply diff_roundtrip_P_C13; assumption.
Qed.
