(* C06: which rule governs a row (_find_acl_matches / _select_match), stated without the
   sorting algorithm. *)
From Coq Require Import List String Ascii Bool Arith Lia Permutation Sorted.
From Annet Require Import Base.Str Base.Tree Model.Pattern Model.Order Model.Acl Spec.P_C06
     Proofs.SortProofs Proofs.AclProofs.
Import ListNotations.
Open Scope string_scope.
Open Scope list_scope.

Lemma filter_head {A} (f : A -> bool) l x r :
  filter f l = x :: r -> exists l1 l2, l = l1 ++ x :: l2 /\ forall y, In y l1 -> f y = false.
Proof.
  induction l as [|a l IH]; [discriminate|]. cbn. destruct (f a) eqn:E.
  - intros H. injection H as <- _. exists [], l. split; [reflexivity | intros y []].
  - intros H. destruct (IH H) as (l1 & l2 & -> & Hn). exists (a :: l1), l2. split; [reflexivity|].
    intros y [<-|Hy]; [exact E | apply Hn; exact Hy].
Qed.

Section Select.
  Variable rmatch : string -> string -> option (list string).
  Variable rsrc : string -> string.
  Variable rrev : string -> string.
  Variable norm : string -> string.

  Notation mrow := (match_row_to_acl rmatch rsrc rrev norm).
  Notation cands := (acl_candidates rmatch rsrc rrev norm).
  Notation fmatches := (find_acl_matches rmatch rsrc rrev norm).


  Lemma geb_total (a b : amatch) : metric_geb a b = true \/ metric_geb b a = true.
  Proof.
    unfold metric_geb.
    destruct (Nat.ltb_spec (am_prio b) (am_prio a)); [left; reflexivity|].
    destruct (Nat.ltb_spec (am_prio a) (am_prio b)); [right; reflexivity|].
    assert (E : am_prio a = am_prio b) by lia. rewrite E, Nat.eqb_refl. cbn.
    destruct (Nat.leb_spec (am_w b) (am_w a)); [left; reflexivity|].
    right. apply Nat.leb_le. lia.
  Qed.

  Lemma geb_trans (a b c : amatch) : metric_geb a b = true -> metric_geb b c = true -> metric_geb a c = true.
  Proof.
    unfold metric_geb. rewrite !orb_true_iff, !andb_true_iff, !Nat.ltb_lt, !Nat.eqb_eq, !Nat.leb_le. lia.
  Qed.

  (* the candidates are exactly the matching rules, in direct or reverse form *)
  Lemma cands_spec row rs m :
    In m (cands row rs) <->
    exists (r : arule) (rev g : bool), In r (if g then snd rs else fst rs) /\
      rmatch (if rev then rrev (ar_id r) else ar_id r) (norm row) <> None /\
      m = AM r (negb g && negb rev) rev (ar_prio r)
             (shared_chars row (rsrc (if rev then rrev (ar_id r) else ar_id r))).
  Proof.
    assert (One : forall rev g r, In m (find_one rmatch rsrc rrev norm row rev g r) <->
              rmatch (if rev then rrev (ar_id r) else ar_id r) (norm row) <> None /\
              m = AM r (negb g && negb rev) rev (ar_prio r)
                     (shared_chars row (rsrc (if rev then rrev (ar_id r) else ar_id r)))).
    { intros rev g r. unfold find_one. destruct (rmatch _ (norm row)) eqn:E.
      - split; [intros [<-|[]]; split; [discriminate | reflexivity] | intros [_ ->]; now left].
      - split; [intros [] | intros [H _]; congruence]. }
    unfold acl_candidates. rewrite !in_app_iff, !in_flat_map. split.
    - intros [(r & Hr & H)|[(r & Hr & H)|[(r & Hr & H)|(r & Hr & H)]]]; apply One in H.
      + exists r, false, false. auto.
      + exists r, false, true. auto.
      + exists r, true, false. auto.
      + exists r, true, true. auto.
    - intros (r & rev & g & Hr & H). apply (proj2 (One rev g r)) in H.
      destruct rev, g; [right; right; right | right; right; left | right; left | left]; exists r; auto.
  Qed.

  (* C06_select_sound: the governing match is a candidate, maximal for (prio, shared
     symbols), and the first such in the documented order (direct local, direct global,
     reverse local, reverse global); the children rules are select_children of the ranked
     list, and only the inherited globals when the governing match is not cr-allowed *)
  Theorem select_sound row rs m crs :
    mrow row rs false = MSome m crs ->
    In m (cands row rs) /\
    (forall m', In m' (cands row rs) -> metric_geb m m' = true) /\
    (exists l1 l2, cands row rs = l1 ++ m :: l2 /\
                   forall y, In y l1 -> metric_geb y m = false) /\
    crs = select_children (fmatches row rs) rs /\
    (am_cr m = false -> crs = ([], merge_as [] (snd rs))).
  Proof.
    unfold match_row_to_acl. destruct (fmatches row rs) as [|f ms] eqn:E; [discriminate|].
    assert (H0 : Nat.ltb 1 (List.length (@nil string)) = false) by reflexivity. rewrite H0.
    intros H. injection H as <- <-.
    assert (Hin : In f (cands row rs)).
    { apply (sort_in metric_geb). unfold find_acl_matches in E. rewrite E. now left. }
    pose proof (sort_sorted metric_geb geb_total geb_trans (cands row rs)) as Hs.
    unfold find_acl_matches in E. rewrite E in Hs. inversion Hs as [|? ? _ Hall]; subst.
    assert (Hmax : forall m', In m' (cands row rs) -> metric_geb f m' = true).
    { intros m' Hm'. apply (sort_in metric_geb) in Hm'. rewrite E in Hm'. destruct Hm' as [<-|Hm'].
      - destruct (geb_total f f); assumption.
      - rewrite Forall_forall in Hall. apply Hall. exact Hm'. }
    split; [exact Hin|]. split; [exact Hmax|]. split; [|split].
    - pose proof (sort_stable metric_geb geb_trans f (cands row rs)) as Hst.
      rewrite E in Hst. cbn [filter] in Hst.
      assert (Er : eqv metric_geb f f = true) by (apply eqv_refl; exact geb_total).
      rewrite Er in Hst. symmetry in Hst.
      destruct (filter_head _ _ _ _ Hst) as (l1 & l2 & Hl & Hn). exists l1, l2. split; [exact Hl|].
      intros y Hy. specialize (Hn y Hy). unfold eqv in Hn.
      rewrite (Hmax y) in Hn by (rewrite Hl; apply in_or_app; now left). exact Hn.
    - reflexivity.
    - intros Hcr. unfold select_children. rewrite Hcr. reflexivity.
  Qed.

  Theorem row_fate_metric_free rs row :
    row_unambiguous rmatch rsrc rrev norm rs row = true ->
    match cands row rs with
    | [] => mrow row rs false = MNone
    | c :: _ => exists m crs, mrow row rs false = MSome m crs /\ mclass m = mclass c
    end.
  Proof.
    unfold row_unambiguous. destruct (cands row rs) as [|c l] eqn:E.
    - intros _. unfold match_row_to_acl, find_acl_matches. rewrite E. reflexivity.
    - intros H. rewrite forallb_forall in H.
      destruct (mrow row rs false) as [| |m crs] eqn:Em.
      + exfalso. unfold match_row_to_acl in Em. destruct (fmatches row rs) as [|f ms] eqn:Ef.
        * assert (Hin : In c (fmatches row rs)).
          { unfold find_acl_matches. apply (sort_in metric_geb). rewrite E. now left. }
          rewrite Ef in Hin. destruct Hin.
        * assert (H0 : Nat.ltb 1 (List.length (@nil string)) = false) by reflexivity.
          rewrite H0 in Em. discriminate.
      + exfalso. exact (mrow_false_noerr _ _ _ _ _ _ _ Em).
      + exists m, crs. split; [reflexivity|].
        destruct (select_sound _ _ _ _ Em) as (Hin & _). rewrite E in Hin. destruct Hin as [<-|Hin]; [reflexivity|].
        apply Nat.eqb_eq. apply H. exact Hin.
  Qed.
End Select.
