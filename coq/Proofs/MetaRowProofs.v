(* C08: "the relative order of two commands does not depend on unrelated lines elsewhere
   in the configuration", over the model pipeline (Model/Pipeline.v).
   Removing a top-level row r from old and new, under the guard Spec/P_C08meta.meta_guard:
     make_diff      loses exactly r's entry                      (Proofs/DiffRemoveProofs.v)
     make_pre       loses exactly the group of r's raw_rule       (this file)
     unsorted patch loses exactly the items of that group, the rest in place
     sorted patch   = the full sorted patch without those items  (sort_filter_commute)
   hence all remaining commands keep their relative order, at every depth. *)
From Coq Require Import List String Ascii Bool Arith ZArith Lia Permutation Sorted.
From Annet Require Import Base.Str Base.Tree Model.Pattern Model.Rulebook Model.Diff Model.Order Model.Patch
     Model.Blocks Model.Pipeline Spec.PipelineCase Spec.P_C03 Proofs.SortProofs Spec.P_C08 Spec.P_C08meta
     Proofs.OrderProofs Proofs.DiffProofsLib Proofs.DiffRemoveProofs.
Import ListNotations.
Open Scope list_scope.

(* ---------- make_pre ---------- *)
Definition keepR (R : string) (d : dnode) : bool := negb (String.eqb (mi_raw (d_mi d)) R).
Definition gkeep {K} (R : string) (g : string * attrs * K) : bool := negb (String.eqb (fst (fst g)) R).

Lemma gkeep_val {K} R r0 a0 (ks : K) : gkeep R (r0, a0, ks) = negb (String.eqb r0 R).
Proof. reflexivity. Qed.

Lemma ins_group_filter R raw a key it : forall gs,
  filter (gkeep R) (ins_group raw a key it gs) =
  if String.eqb raw R then filter (gkeep R) gs else ins_group raw a key it (filter (gkeep R) gs).
Proof.
  induction gs as [|[[r0 a0] ks] gs IH]; cbn [ins_group filter].
  - rewrite gkeep_val. destruct (String.eqb raw R); reflexivity.
  - destruct (String.eqb_spec r0 raw) as [E|E].
    + subst r0. cbn [filter]. rewrite !gkeep_val.
      destruct (String.eqb raw R) eqn:ER; cbn [negb]; [reflexivity|].
      cbn [ins_group]. rewrite String.eqb_refl. reflexivity.
    + cbn [filter]. rewrite !gkeep_val, IH.
      destruct (String.eqb raw R) eqn:ER; [reflexivity|].
      destruct (String.eqb r0 R) eqn:E0; cbn [negb]; [reflexivity|].
      cbn [ins_group]. rewrite (proj2 (String.eqb_neq r0 raw) E). reflexivity.
Qed.

Definition pre_step (gs : list pgroup) (e : string * attrs * list string * pitem) : list pgroup :=
  let '(raw, a, key, it) := e in ins_group raw a key it gs.

Lemma make_pre_unfold d : make_pre d = Pre (fold_left pre_step (map make_pre_n d) []).
Proof. reflexivity. Qed.

Lemma make_pre_n_raw d : fst (fst (fst (make_pre_n d))) = mi_raw (d_mi d).
Proof. destruct d as [o row m k]. reflexivity. Qed.

Lemma fold_pre_filter R : forall d acc,
  fold_left pre_step (map make_pre_n (filter (keepR R) d)) (filter (gkeep R) acc) =
  filter (gkeep R) (fold_left pre_step (map make_pre_n d) acc).
Proof.
  induction d as [|x d IH]; intros acc; cbn [filter]; [reflexivity|].
  assert (K : keepR R x = negb (String.eqb (fst (fst (fst (make_pre_n x)))) R))
    by (unfold keepR; rewrite make_pre_n_raw; reflexivity).
  rewrite K. cbn [map fold_left]. rewrite <- IH.
  destruct (make_pre_n x) as [[[raw a] key] it] eqn:E. cbn [fst pre_step]. rewrite ins_group_filter.
  destruct (String.eqb raw R); cbn [negb map fold_left]; rewrite ?E; reflexivity.
Qed.

Theorem make_pre_filter R d :
  make_pre (filter (keepR R) d) = Pre (filter (gkeep R) (pgroups (make_pre d))).
Proof. rewrite !make_pre_unfold. cbn [pgroups]. rewrite <- fold_pre_filter. reflexivity. Qed.

(* ---------- the unsorted patch ---------- *)
Definition ikeep (R : string) (i : item) : bool := negb (String.eqb (key_raw i) R).
Definition ekeep {K} (R : string) (e : string * attrs * list string * K) : bool :=
  negb (String.eqb (fst (fst (fst e))) R).

Section Unsorted.
  Variable rmatch : string -> string -> option (list string).
  Variable rsrc rrev : string -> string.
  Variable block_exit : string.
  Variable rreverse : string -> list string -> string.
  Variable R : string.

  Notation ystep := (yield_step rmatch rsrc rrev block_exit).
  Notation gstep := (group_step rmatch rsrc rrev block_exit rreverse).

  Lemma fold_ystep_none ordering raw a ys : fold_left (ystep ordering raw a) ys None = None.
  Proof. induction ys as [|[[d row] sub] ys IH]; cbn [fold_left]; [reflexivity|]. exact IH. Qed.

  Lemma fold_gstep_none ordering fl : fold_left (gstep ordering) fl None = None.
  Proof. induction fl as [|[[[raw a] key] its] fl IH]; cbn [fold_left]; [reflexivity|]. exact IH. Qed.

  Lemma ystep_filter ordering raw a acc y acc2 :
    ystep ordering raw a (Some acc) y = Some acc2 ->
    if String.eqb raw R then filter (ikeep R) acc2 = filter (ikeep R) acc
    else ystep ordering raw a (Some (filter (ikeep R) acc)) y = Some (filter (ikeep R) acc2).
  Proof.
    destruct y as [[d row] sub]. unfold yield_step.
    destruct (get_order rmatch rsrc rrev block_exit ordering row d (Some "patch"%string)) as [[order odirect] ord'].
    set (sk := (match order with ZFin z => ZFin (if odirect then z else (- z)%Z) | ZInf => ZInf end, raw, odirect)).
    assert (Hdone : forall (ct : ptree) (it : item),
               snd it = sk ->
               Some (acc ++ it :: (if a_force_commit a then [("commit"%string, None, sk)] else [])) = Some acc2 ->
               if String.eqb raw R then filter (ikeep R) acc2 = filter (ikeep R) acc
               else Some (filter (ikeep R) acc ++ it :: (if a_force_commit a then [("commit"%string, None, sk)] else []))
                    = Some (filter (ikeep R) acc2)).
    { intros ct it Hk H. injection H as H. subst acc2. rewrite filter_app. cbn [filter].
      assert (K1 : ikeep R it = negb (String.eqb raw R)).
      { unfold ikeep, key_raw. rewrite Hk. reflexivity. }
      assert (K2 : ikeep R ("commit"%string, None, sk) = negb (String.eqb raw R)) by reflexivity.
      rewrite K1. destruct (String.eqb raw R); cbn [negb].
      - destruct (a_force_commit a); cbn [filter]; rewrite ?K2; cbn [negb]; rewrite app_nil_r; reflexivity.
      - destruct (a_force_commit a); cbn [filter]; rewrite ?K2; cbn [negb]; reflexivity. }
    destruct sub as [[ch [|]]|].
    - destruct (ch ord') as [ct|]; [|discriminate]. intros H.
      destruct ((match pitems ct with [] => negb (a_parent a) | _ :: _ => false end) || negb d);
        [apply (Hdone ct (row, None, sk) eq_refl H) | apply (Hdone ct (row, Some ct, sk) eq_refl H)].
    - intros H. cbn [pitems] in *.
      destruct (negb (a_parent a) || negb d);
        [apply (Hdone (PT []) (row, None, sk) eq_refl H) | apply (Hdone (PT []) (row, Some (PT []), sk) eq_refl H)].
    - intros H. cbn [pitems] in *.
      destruct (negb (a_parent a) || negb d);
        [apply (Hdone (PT []) (row, None, sk) eq_refl H) | apply (Hdone (PT []) (row, Some (PT []), sk) eq_refl H)].
  Qed.

  Lemma fold_ystep_filter ordering raw a : forall ys acc out,
    fold_left (ystep ordering raw a) ys (Some acc) = Some out ->
    if String.eqb raw R then filter (ikeep R) out = filter (ikeep R) acc
    else fold_left (ystep ordering raw a) ys (Some (filter (ikeep R) acc)) = Some (filter (ikeep R) out).
  Proof.
    induction ys as [|y ys IH]; intros acc out H; cbn [fold_left] in *.
    - injection H as H. subst. destruct (String.eqb raw R); reflexivity.
    - destruct (ystep ordering raw a (Some acc) y) as [acc2|] eqn:E.
      2:{ rewrite fold_ystep_none in H. discriminate. }
      pose proof (ystep_filter ordering raw a acc y acc2 E) as S1.
      pose proof (IH acc2 out H) as S2.
      destruct (String.eqb raw R).
      + congruence.
      + rewrite S1. exact S2.
  Qed.

  Lemma gstep_filter ordering acc e out :
    gstep ordering (Some acc) e = Some out ->
    if ekeep R e then gstep ordering (Some (filter (ikeep R) acc)) e = Some (filter (ikeep R) out)
    else filter (ikeep R) out = filter (ikeep R) acc.
  Proof.
    destruct e as [[[raw a] key] its]. unfold group_step, ekeep. cbn [fst].
    destruct (run_logic rreverse (a_pat a) key (a_logic a) its) as [ys|]; [|discriminate].
    intros H. pose proof (fold_ystep_filter ordering raw a ys acc out H) as S.
    destruct (String.eqb raw R); cbn [negb]; exact S.
  Qed.

  Lemma fold_gstep_filter ordering : forall fl acc out,
    fold_left (gstep ordering) fl (Some acc) = Some out ->
    fold_left (gstep ordering) (filter (ekeep R) fl) (Some (filter (ikeep R) acc)) = Some (filter (ikeep R) out).
  Proof.
    induction fl as [|e fl IH]; intros acc out H; cbn [fold_left filter] in *.
    - injection H as H. subst. reflexivity.
    - destruct (gstep ordering (Some acc) e) as [acc2|] eqn:E.
      2:{ rewrite fold_gstep_none in H. discriminate. }
      pose proof (gstep_filter ordering acc e acc2 E) as S1.
      pose proof (IH acc2 out H) as S2.
      destruct (ekeep R e); cbn [fold_left].
      + rewrite S1. exact S2.
      + rewrite <- S1. exact S2.
  Qed.

  Lemma flat_groups_filter (gs : list (string * attrs * list (list string * list citem))) :
    flat_groups (filter (gkeep R) gs) = filter (ekeep R) (flat_groups gs).
  Proof.
    unfold flat_groups. induction gs as [|[[raw a] ks] gs IH]; cbn [filter flat_map]; [reflexivity|].
    rewrite filter_app, <- IH. unfold gkeep at 1. cbn [fst].
    destruct (String.eqb raw R) eqn:E; cbn [negb flat_map].
    - rewrite (filter_none (ekeep R)); [reflexivity|]. apply Forall_forall. intros e He.
      apply in_map_iff in He as (k & Ek & _). subst e. unfold ekeep. cbn [fst]. rewrite E. reflexivity.
    - rewrite (filter_all (ekeep R)); [reflexivity|]. apply Forall_forall. intros e He.
      apply in_map_iff in He as (k & Ek & _). subst e. unfold ekeep. cbn [fst]. rewrite E. reflexivity.
  Qed.

  Lemma patch_level_u_filter gs ordering out :
    patch_level_u rmatch rsrc rrev block_exit rreverse gs ordering = POk (PT out) ->
    patch_level_u rmatch rsrc rrev block_exit rreverse (filter (gkeep R) gs) ordering =
    POk (PT (filter (ikeep R) out)).
  Proof.
    unfold patch_level_u, patch_items. intros H.
    destruct (fold_left (gstep ordering) (flat_groups gs) (Some [])) as [o|] eqn:E; [|discriminate].
    injection H as H. subst o.
    rewrite flat_groups_filter.
    pose proof (fold_gstep_filter ordering (flat_groups gs) [] out E) as F. cbn [filter] in F.
    rewrite F. reflexivity.
  Qed.

  Lemma close_groups_filter (mk : pre -> ckpre) (groups : list pgroup) :
    close_groups mk (filter (gkeep R) groups) = filter (gkeep R) (close_groups mk groups).
  Proof.
    unfold close_groups. induction groups as [|[[raw a] ks] gs IH]; [reflexivity|].
    cbn [filter]. rewrite gkeep_val. cbn [map]. cbn [filter]. rewrite gkeep_val.
    destruct (negb (String.eqb raw R)); cbn [map]; rewrite IH; reflexivity.
  Qed.

  Theorem make_patch_u_filter groups ordering out :
    make_patch_u rmatch rsrc rrev block_exit rreverse (Pre groups) ordering = POk (PT out) ->
    make_patch_u rmatch rsrc rrev block_exit rreverse (Pre (filter (gkeep R) groups)) ordering =
    POk (PT (filter (ikeep R) out)).
  Proof.
    change (make_patch_u rmatch rsrc rrev block_exit rreverse (Pre groups))
      with (patch_level_u rmatch rsrc rrev block_exit rreverse
                          (close_groups (make_patch_u rmatch rsrc rrev block_exit rreverse) groups)).
    change (make_patch_u rmatch rsrc rrev block_exit rreverse (Pre (filter (gkeep R) groups)))
      with (patch_level_u rmatch rsrc rrev block_exit rreverse
                          (close_groups (make_patch_u rmatch rsrc rrev block_exit rreverse) (filter (gkeep R) groups))).
    rewrite close_groups_filter. apply patch_level_u_filter.
  Qed.

  (* ---------- the sorted patch ---------- *)
  Lemma ikeep_srt i : ikeep R (srt_item i) = ikeep R i.
  Proof. unfold ikeep, key_raw. rewrite srt_item_key. reflexivity. Qed.

  Lemma sort_rec_filter out :
    sort_rec (PT (filter (ikeep R) out)) = drop_rule R (sort_rec (PT out)).
  Proof.
    rewrite !sort_rec_unfold. unfold drop_rule. cbn [pitems]. f_equal.
    fold (ikeep R).
    rewrite <- (sort_filter_commute ileb ileb_total ileb_trans). f_equal.
    induction out as [|i out IH]; cbn [filter map]; [reflexivity|].
    rewrite ikeep_srt. destruct (ikeep R i); cbn [map]; rewrite IH; reflexivity.
  Qed.

  Theorem make_patch_filter groups ordering s :
    make_patch rmatch rsrc rrev block_exit rreverse (Pre groups) ordering = POk s ->
    make_patch rmatch rsrc rrev block_exit rreverse (Pre (filter (gkeep R) groups)) ordering =
    POk (drop_rule R s).
  Proof.
    intros H.
    pose proof (make_patch_sort_rec rmatch rsrc rrev block_exit rreverse (Pre groups) ordering) as A.
    pose proof (make_patch_sort_rec rmatch rsrc rrev block_exit rreverse (Pre (filter (gkeep R) groups)) ordering) as B.
    destruct (make_patch_u rmatch rsrc rrev block_exit rreverse (Pre groups) ordering) as [[out]|] eqn:E;
      [|congruence].
    rewrite (make_patch_u_filter groups ordering out E) in B.
    rewrite B, sort_rec_filter. rewrite A in H. injection H as H. subst s. reflexivity.
  Qed.
End Unsorted.

(* ---------- subsequences of path lists (the boolean [subseq] of Spec/P_C08.v) ---------- *)
Lemma subseq_tail : forall b x a, subseq (x :: a) b = true -> subseq a b = true.
Proof.
  induction b as [|y b IH]; intros x a H; [discriminate|].
  cbn [subseq] in H. destruct a as [|x2 a2]; [reflexivity|]. cbn [subseq].
  destruct (list_str_eqb x y).
  - destruct (list_str_eqb x2 y); [eapply IH; exact H | exact H].
  - apply IH in H. destruct (list_str_eqb x2 y); [eapply IH; exact H | exact H].
Qed.

Lemma subseq_skip a b y : subseq a b = true -> subseq a (y :: b) = true.
Proof.
  intros H. destruct a as [|x a]; [reflexivity|]. cbn [subseq].
  destruct (list_str_eqb x y); [eapply subseq_tail; exact H | exact H].
Qed.

Lemma subseq_refl a : subseq a a = true.
Proof. induction a as [|x a IH]; [reflexivity|]. cbn [subseq]. rewrite list_str_eqb_refl. exact IH. Qed.

Lemma subseq_app_skip c a b : subseq a b = true -> subseq a (c ++ b) = true.
Proof. intros H. induction c as [|y c IH]; [exact H|]. cbn [app]. apply subseq_skip. exact IH. Qed.

Lemma subseq_app_same c a b : subseq a b = true -> subseq (c ++ a) (c ++ b) = true.
Proof.
  intros H. induction c as [|y c IH]; [exact H|]. cbn [app subseq]. rewrite list_str_eqb_refl. exact IH.
Qed.

Lemma subseq_flat_map_filter {A} (g : A -> list (list string)) (p : A -> bool) (l : list A) :
  subseq (flat_map g (filter p l)) (flat_map g l) = true.
Proof.
  induction l as [|x l IH]; [reflexivity|]. cbn [filter flat_map].
  destruct (p x); cbn [flat_map]; [apply subseq_app_same | apply subseq_app_skip]; exact IH.
Qed.

Theorem drop_rule_subseq R s pre : subseq (all_paths pre (drop_rule R s)) (all_paths pre s) = true.
Proof.
  destruct s as [items]. unfold drop_rule. cbn [pitems]. rewrite !all_paths_unfold.
  apply subseq_flat_map_filter.
Qed.

(* the relation itself, item-wise: the smaller level is a sublist of the full one *)
Theorem drop_rule_sublist R s : sublist (pitems (drop_rule R s)) (pitems s).
Proof.
  destruct s as [items]. unfold drop_rule. cbn [pitems].
  induction items as [|i items IH]; cbn [filter]; [constructor|].
  destruct (negb (String.eqb (key_raw i) R)); constructor; exact IH.
Qed.

(* ---------- the pipeline ---------- *)
Lemma filter_ext_Forall {A} (p q : A -> bool) (l : list A) :
  Forall (fun x => p x = q x) l -> filter p l = filter q l.
Proof. induction 1 as [|x l Hx _ IH]; cbn [filter]; [reflexivity|]. rewrite Hx, IH. reflexivity. Qed.

Definition popt (p : presult) : option ptree := match p with POk t => Some t | PErr => None end.

Theorem p_unrelated_row_exact v rs ordering old new r s :
  meta_guard rs old new r = true ->
  snd (diff_and_patch v rs ordering old new) = POk s ->
  snd (diff_and_patch v rs ordering (remove_row r old) (remove_row r new)) =
  POk (match raw_of_row rs old r with Some R => drop_rule R s | None => s end).
Proof.
  unfold diff_and_patch, p_make_diff, p_make_patch. cbn [snd]. intros G H.
  unfold raw_of_row. destruct (sg_find r (sg_of (annot_f pm rs old))) as [x|] eqn:F; cbn [option_map].
  - rewrite (make_diff_rm pm rs old new r G).
    pose proof (make_diff_own_rule_sg pm rs old new r x G F) as OW.
    rewrite (filter_ext_Forall (keep r) (keepR (mi_raw (snd x))) (make_diff pm rs old new)).
    2:{ eapply Forall_impl; [|exact OW]. cbn. intros d Hd. unfold keep, keepR. unfold own_q in Hd.
        rewrite Hd. reflexivity. }
    rewrite make_pre_filter.
    destruct (make_pre (make_diff pm rs old new)) as [groups]. cbn [pgroups].
    apply make_patch_filter. exact H.
  - unfold meta_guard, meta_guard_g, meta_guard_sg in G. rewrite F in G.
    destruct (sg_find r (sg_of (annot_f pm rs new))) as [y|] eqn:F2; [discriminate|].
    rewrite (make_diff_rm_unknown pm rs old new r F F2). exact H.
Qed.

(* the smaller pair cannot fail where the full pair did not *)
Theorem p_unrelated_row_no_error v rs ordering old new r s :
  meta_guard rs old new r = true ->
  snd (diff_and_patch v rs ordering old new) = POk s ->
  exists m, snd (diff_and_patch v rs ordering (remove_row r old) (remove_row r new)) = POk m.
Proof. intros G H. eexists. apply (p_unrelated_row_exact v rs ordering old new r s G H). Qed.

Theorem p_unrelated_row v rs ordering old new r :
  meta_guard rs old new r = true -> meta_order_kept v rs ordering old new r.
Proof.
  intros G. unfold meta_order_kept.
  destruct (snd (diff_and_patch v rs ordering old new)) as [s|] eqn:E; [|exact I].
  rewrite (p_unrelated_row_exact v rs ordering old new r s G E).
  destruct (raw_of_row rs old r) as [R|]; [apply drop_rule_subseq | apply subseq_refl].
Qed.

(* the clause of the correspondence run, on the model's own outputs *)
Theorem p_meta_guarded_model c r :
  c8_meta_guarded c r
    (popt (model_patch c))
    (popt (snd (diff_and_patch (pc_vendor c) (pc_rules c) (pc_ordering c)
                               (remove_row r (pc_old c)) (remove_row r (pc_new c))))) = true.
Proof.
  unfold c8_meta_guarded, model_patch.
  destruct (meta_guard (pc_rules c) (pc_old c) (pc_new c) r) eqn:G; [|reflexivity]. cbn [implb].
  destruct (snd (diff_and_patch (pc_vendor c) (pc_rules c) (pc_ordering c) (pc_old c) (pc_new c))) as [s|] eqn:E;
    [|reflexivity].
  rewrite (p_unrelated_row_exact _ _ _ _ _ r s G E). cbn [popt]. unfold c8_meta_exact.
  destruct (raw_of_row (pc_rules c) (pc_old c) r) as [R|].
  - rewrite ptree_eqb_refl, drop_rule_subseq. reflexivity.
  - rewrite ptree_eqb_refl, subseq_refl. reflexivity.
Qed.

(* non-vacuity: the guard holds for a row the rules know, and the patch really shrinks *)
Open Scope string_scope.
Definition g_old : forest := [("foo 1", T []); ("vlan 7 a", T [("x", T [])])].
Definition g_new : forest := [("foo 1", T [("y", T [])]); ("vlan 9", T []); ("vlan 7 b", T [])].
Close Scope string_scope.

Example meta_guard_nonvacuous :
  meta_guard w_rules g_old g_new "foo 1"%string = true /\
  meta_known w_rules g_old g_new "foo 1"%string = true /\
  meta_guard w_rules g_old g_new "vlan 9"%string = false /\
  (* the witness of the open finding is outside the guard *)
  meta_guard w_rules w_old w_new "foo 1"%string = false.
Proof. vm_compute. repeat split. Qed.
