(* C12: progress of the pool transition system — enabledness, a measure, no idle spinning. *)
From Coq Require Import List Bool Arith Lia.
From Annet Require Import Model.Pool Spec.P_C12 Proofs.PoolProofs.
Import ListNotations.
Local Arguments Nat.mul : simpl never.
Local Arguments Nat.add : simpl never.

(* ================================================================================================ *)
(* The parent always has a step until its loop has ended. *)

Lemma obs_eqb_refl : forall o, obs_eqb o o = true.
Proof.
  unfold obs_eqb. induction o as [|[n c] t IH]; simpl; auto.
  rewrite Nat.eqb_refl, IH. destruct c; reflexivity.
Qed.

Lemma parent_enabled : forall cfg s,
  ppc s <> Done -> (forall i, ppc s <> Aborted i) -> exists l s', exec cfg s l = Some s'.
Proof.
  intros cfg s H1 H2. destruct (ppc s) eqn:Epc; try congruence.
  - destruct (doneq s) as [|r q] eqn:Eq.
    + exists LGetEmpty. simpl. rewrite Epc, Eq. eauto.
    + exists (LGet (fst r)). simpl. rewrite Epc, Eq, Nat.eqb_refl. eauto.
  - exists (LReap (reap_obs (ws s))). simpl. rewrite Epc, obs_eqb_refl. eauto.
  - destruct (got s) as [r|] eqn:Eg.
    + destruct (c_tol cfg || negb (is_fail (snd r))) eqn:Et.
      * exists (LDeliver (fst r)). simpl. rewrite Epc, Eg, Nat.eqb_refl, Et. simpl. eauto.
      * exists (LAbort (fst r)). simpl. rewrite Epc, Eg, Nat.eqb_refl. simpl.
        apply orb_false_iff in Et. destruct Et as [E1 E2]. rewrite E1. simpl.
        apply negb_false_iff in E2. rewrite E2. eauto.
    + exists LNoDeliver. simpl. rewrite Epc, Eg. eauto.
  - destruct (eval_brk (c_brk cfg) (pool_empty (ws s)) (all_reaped s) (qempty s)) eqn:Eb.
    + exists LBreak. simpl. rewrite Epc, Eb. eauto.
    + exists LLoop. simpl. rewrite Epc, Eb. eauto.
Qed.

(* ================================================================================================ *)
(* Measure *)

Definition st_weight (st : wst) : nat :=
  match st with Idle => 0 | Busy _ => 6 | Dying _ => 2 | Exited _ => 1 end.

Definition w_weight (w : worker) : nat :=
  (if w_in w then (if w_ret w then 0 else st_weight (w_st w)) else 0) + 3 * List.length (w_out w).

Fixpoint ws_weight (l : list worker) : nat :=
  match l with [] => 0 | w :: t => w_weight w + ws_weight t end.

Fixpoint tq_weight (q : list task) : nat :=
  match q with [] => 0 | Inv _ :: t => 7 + tq_weight t | Stop :: t => 3 + tq_weight t end.

Definition pc_rank (p : pc) : nat :=
  match p with AtReap => 3 | AtDeliver => 2 | AtBreak => 1 | _ => 0 end.

Definition weight (s : state) : nat :=
  tq_weight (taskq s) + ws_weight (ws s) + 2 * List.length (doneq s)
  + match got s with Some _ => 1 | None => 0 end.

Definition mu (cfg : config) (s : state) : nat := 4 * weight s + pc_rank (ppc s).

Lemma ws_weight_upd : forall l i w w',
  nth_error l i = Some w -> ws_weight (upd l i w') + w_weight w = ws_weight l + w_weight w'.
Proof.
  induction l as [|h t IH]; destruct i; simpl; intros w w' H; try discriminate.
  - injection H as H; subst. lia.
  - specialize (IH _ _ w' H). lia.
Qed.

Lemma ws_weight_map_le : forall (f : worker -> worker) l,
  (forall w, w_weight (f w) <= w_weight w) -> ws_weight (map f l) <= ws_weight l.
Proof.
  intros f l H. induction l as [|h t IH]; simpl; auto. specialize (H h). lia.
Qed.

Lemma w_weight_reap : forall w, w_weight (reap_w w) <= w_weight w.
Proof.
  intros w. unfold reap_w, w_weight.
  destruct (w_in w) eqn:Ein; [|rewrite Ein; lia].
  destruct (w_st w) as [| y | c | [|]] eqn:Est; simpl; rewrite ?Ein, ?Est; simpl;
    destruct (w_ret w); simpl; lia.
Qed.

Lemma w_weight_restart : forall w, w_weight (restart_w w) <= w_weight w.
Proof.
  intros w. unfold restart_w. destruct (w_ret w) eqn:E; [|lia].
  unfold w_weight, fresh_worker; simpl. rewrite E. destruct (w_in w); lia.
Qed.

Section Progress.
Variable cfg : config.
Hypothesis put_before_exit : forall out, c_exit cfg out = true -> out = [].
Hypothesis wf : wf_cfg cfg = true.

(* a worker that can still move is a member of the pool and not marked retired *)
Lemma alive_in_pool : forall w, wok w -> (forall c, w_st w <> Exited c) -> w_in w = true /\ w_ret w = false.
Proof.
  intros w (H1 & H2 & H3) Hne. split.
  - destruct (w_in w) eqn:E; auto. destruct (H2 eq_refl) as [E' _]. exfalso. eapply Hne; eauto.
  - destruct (w_ret w) eqn:E; auto. exfalso. eapply Hne; eauto.
Qed.

Lemma mu_step : forall s l s',
  Forall wok (ws s) -> step cfg s l s' ->
  (l <> LGetEmpty -> mu cfg s' < mu cfg s) /\ (l = LGetEmpty -> mu cfg s' <= mu cfg s + 3).
Proof.
  intros s l s' HW HS.
  destruct HS as [s i w y q Hn Hst Htq | s i w q Hn Hst Htq | s i w y Hn Hst | s i w r o Hn Ho
                 | s i w c Hn Hst Hex | s r q Hpc Hdq | s Hpc Hdq | s obs Hpc | s r Hpc Hg Hok
                 | s r Hpc Hg Htol Hf | s Hpc Hg | s Hpc Hb | s Hpc Hb];
    (split; [intros _ | intros El; try discriminate El]);
    unfold mu, weight; simpl;
    try (pose proof (Forall_nth_error _ _ _ _ _ HW Hn) as Hw;
         match goal with |- context [upd (ws s) i ?w'] =>
                         pose proof (ws_weight_upd (ws s) i w w' Hn) as U;
                         set (UU := ws_weight (upd (ws s) i w')) in *; clearbody UU end;
         unfold w_weight, wset in U; simpl in U).
  - destruct (alive_in_pool w Hw) as [Ein Eret]; [intros c; congruence|].
    rewrite Ein, Eret, Hst in U. rewrite Htq. simpl in *. lia.
  - destruct (alive_in_pool w Hw) as [Ein Eret]; [intros c; congruence|].
    rewrite Ein, Eret, Hst in U. rewrite Htq. simpl in *. lia.
  - destruct (alive_in_pool w Hw) as [Ein Eret]; [intros c; congruence|].
    rewrite Ein, Eret, Hst in U. rewrite app_length in U. simpl in U.
    destruct (retire_now (c_max cfg) (S (w_k w))); simpl in *; lia.
  - rewrite Ho in U. rewrite app_length. simpl in *. lia.
  - destruct (alive_in_pool w Hw) as [Ein Eret]; [intros c'; congruence|].
    rewrite Ein, Eret, Hst in U. simpl in *. lia.
  - rewrite Hpc, Hdq. simpl. destruct (got s); lia.
  - rewrite Hpc, Hdq. simpl. destruct (got s); lia.
  - rewrite Hpc. simpl. pose proof (ws_weight_map_le reap_w (ws s) w_weight_reap). lia.
  - rewrite Hpc, Hg. simpl. lia.
  - rewrite Hpc. simpl. lia.
  - rewrite Hpc, Hg. simpl. lia.
  - rewrite Hpc. simpl. lia.
  - rewrite Hpc. simpl. pose proof (ws_weight_map_le restart_w (ws s) w_weight_restart). lia.
Qed.

Lemma mu_decreases : forall s l s',
  reachable cfg s -> exec cfg s l = Some s' ->
  (l <> LGetEmpty -> mu cfg s' < mu cfg s) /\ (l = LGetEmpty -> mu cfg s' <= mu cfg s + 3).
Proof.
  intros s l s' HR HE. apply mu_step.
  - apply (inv_w cfg s (reachable_inv cfg put_before_exit wf s HR)).
  - apply exec_step; auto.
Qed.

End Progress.
