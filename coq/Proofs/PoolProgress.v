(* C12: progress of the pool transition system — enabledness, a measure, no idle spinning. *)
From Coq Require Import List Bool Arith Lia.
From Annet Require Import Model.Pool Spec.P_C12 Proofs.PoolProofs.
Import ListNotations.
Local Arguments Nat.mul : simpl never.
Local Arguments Nat.add : simpl never.

(* ================================================================================================ *)
(* The parent always has a step until its loop has ended. *)

Lemma obs_eqb_refl : forall o, obs_eqb o o = true.
Proof.
  unfold obs_eqb. induction o as [|[n c] t IH]; simpl; auto.
  rewrite Nat.eqb_refl, IH. destruct c; reflexivity.
Qed.

Lemma parent_enabled : forall cfg s,
  ppc s <> Done -> (forall i, ppc s <> Aborted i) -> exists l s', exec cfg s l = Some s'.
Proof.
  intros cfg s H1 H2. destruct (ppc s) eqn:Epc; try congruence.
  - destruct (doneq s) as [|r q] eqn:Eq.
    + exists LGetEmpty. simpl. rewrite Epc, Eq. eauto.
    + exists (LGet (fst r)). simpl. rewrite Epc, Eq, Nat.eqb_refl. eauto.
  - exists (LReap (reap_obs (ws s))). simpl. rewrite Epc, obs_eqb_refl. eauto.
  - destruct (got s) as [r|] eqn:Eg.
    + destruct (c_tol cfg || negb (is_fail (snd r))) eqn:Et.
      * exists (LDeliver (fst r)). simpl. rewrite Epc, Eg, Nat.eqb_refl, Et. simpl. eauto.
      * exists (LAbort (fst r)). simpl. rewrite Epc, Eg, Nat.eqb_refl. simpl.
        apply orb_false_iff in Et. destruct Et as [E1 E2]. rewrite E1. simpl.
        apply negb_false_iff in E2. rewrite E2. eauto.
    + exists LNoDeliver. simpl. rewrite Epc, Eg. eauto.
  - destruct (eval_brk (c_brk cfg) (pool_empty (ws s)) (all_reaped s) (qempty s)) eqn:Eb.
    + exists LBreak. simpl. rewrite Epc, Eb. eauto.
    + exists LLoop. simpl. rewrite Epc, Eb. eauto.
Qed.

(* ================================================================================================ *)
(* Measure *)

Definition st_weight (st : wst) : nat :=
  match st with Idle => 0 | Busy _ => 6 | Dying _ => 2 | Exited _ => 1 end.

Definition w_weight (w : worker) : nat :=
  (if w_in w then (if w_ret w then 0 else st_weight (w_st w)) else 0) + 3 * List.length (w_out w).

Fixpoint ws_weight (l : list worker) : nat :=
  match l with [] => 0 | w :: t => w_weight w + ws_weight t end.

Fixpoint tq_weight (q : list task) : nat :=
  match q with [] => 0 | Inv _ :: t => 7 + tq_weight t | Stop :: t => 3 + tq_weight t end.

Definition pc_rank (p : pc) : nat :=
  match p with AtReap => 3 | AtDeliver => 2 | AtBreak => 1 | _ => 0 end.

Definition weight (s : state) : nat :=
  tq_weight (taskq s) + ws_weight (ws s) + 2 * List.length (doneq s)
  + match got s with Some _ => 1 | None => 0 end.

Definition mu (cfg : config) (s : state) : nat := 4 * weight s + pc_rank (ppc s).

Lemma ws_weight_upd : forall l i w w',
  nth_error l i = Some w -> ws_weight (upd l i w') + w_weight w = ws_weight l + w_weight w'.
Proof.
  induction l as [|h t IH]; destruct i; simpl; intros w w' H; try discriminate.
  - injection H as H; subst. lia.
  - specialize (IH _ _ w' H). lia.
Qed.

Lemma ws_weight_map_le : forall (f : worker -> worker) l,
  (forall w, w_weight (f w) <= w_weight w) -> ws_weight (map f l) <= ws_weight l.
Proof.
  intros f l H. induction l as [|h t IH]; simpl; auto. specialize (H h). lia.
Qed.

Lemma w_weight_reap : forall w, w_weight (reap_w w) <= w_weight w.
Proof.
  intros w. unfold reap_w, w_weight.
  destruct (w_in w) eqn:Ein; [|rewrite Ein; lia].
  destruct (w_st w) as [| y | c | [|]] eqn:Est; simpl; rewrite ?Ein, ?Est; simpl;
    destruct (w_ret w); simpl; lia.
Qed.

Lemma w_weight_restart : forall w, w_weight (restart_w w) <= w_weight w.
Proof.
  intros w. unfold restart_w. destruct (w_ret w) eqn:E; [|lia].
  unfold w_weight, fresh_worker; simpl. rewrite E. destruct (w_in w); lia.
Qed.

Section Progress.
Variable cfg : config.
Hypothesis put_before_exit : forall out, c_exit cfg out = true -> out = [].
Hypothesis wf : wf_cfg cfg = true.

(* a worker that can still move is a member of the pool and not marked retired *)
Lemma alive_in_pool : forall w, wok w -> (forall c, w_st w <> Exited c) -> w_in w = true /\ w_ret w = false.
Proof.
  intros w (H1 & H2 & H3) Hne. split.
  - destruct (w_in w) eqn:E; auto. destruct (H2 eq_refl) as [E' _]. exfalso. eapply Hne; eauto.
  - destruct (w_ret w) eqn:E; auto. exfalso. eapply Hne; eauto.
Qed.

Lemma mu_step : forall s l s',
  Forall wok (ws s) -> step cfg s l s' ->
  (l <> LGetEmpty -> mu cfg s' < mu cfg s) /\ (l = LGetEmpty -> mu cfg s' <= mu cfg s + 3).
Proof.
  intros s l s' HW HS.
  destruct HS as [s i w y q Hn Hst Htq | s i w q Hn Hst Htq | s i w y Hn Hst | s i w r o Hn Ho
                 | s i w c Hn Hst Hex | s r q Hpc Hdq | s Hpc Hdq | s obs Hpc | s r Hpc Hg Hok
                 | s r Hpc Hg Htol Hf | s Hpc Hg | s Hpc Hb | s Hpc Hb];
    (split; [intros Hne; try congruence | intros El; try discriminate El]);
    unfold mu, weight; simpl;
    try (pose proof (Forall_nth_error _ _ _ _ _ HW Hn) as Hw;
         match goal with |- context [upd (ws s) i ?w'] =>
                         pose proof (ws_weight_upd (ws s) i w w' Hn) as U;
                         set (UU := ws_weight (upd (ws s) i w')) in *; clearbody UU end;
         unfold w_weight, wset in U; simpl in U).
  - destruct (alive_in_pool w Hw) as [Ein Eret]; [intros c; congruence|].
    rewrite Ein, Eret, Hst in U. rewrite Htq. simpl in *. lia.
  - destruct (alive_in_pool w Hw) as [Ein Eret]; [intros c; congruence|].
    rewrite Ein, Eret, Hst in U. rewrite Htq. simpl in *. lia.
  - destruct (alive_in_pool w Hw) as [Ein Eret]; [intros c; congruence|].
    rewrite Ein, Eret, Hst in U. rewrite app_length in U. simpl in U.
    destruct (retire_now (c_max cfg) (S (w_k w))); simpl in *; lia.
  - rewrite Ho in U. rewrite app_length. simpl in *. lia.
  - destruct (alive_in_pool w Hw) as [Ein Eret]; [intros c'; congruence|].
    rewrite Ein, Eret, Hst in U. simpl in *. lia.
  - rewrite Hpc, Hdq. simpl. destruct (got s); lia.
  - rewrite Hpc, Hdq. simpl. destruct (got s); lia.
  - rewrite Hpc. simpl. pose proof (ws_weight_map_le reap_w (ws s) w_weight_reap). lia.
  - rewrite Hpc, Hg. simpl. lia.
  - rewrite Hpc. simpl. lia.
  - rewrite Hpc, Hg. simpl. lia.
  - rewrite Hpc. simpl. lia.
  - rewrite Hpc. simpl. pose proof (ws_weight_map_le restart_w (ws s) w_weight_restart). lia.
Qed.

Lemma mu_decreases : forall s l s',
  reachable cfg s -> exec cfg s l = Some s' ->
  (l <> LGetEmpty -> mu cfg s' < mu cfg s) /\ (l = LGetEmpty -> mu cfg s' <= mu cfg s + 3).
Proof.
  intros s l s' HR HE. apply mu_step.
  - apply (inv_w cfg s (reachable_inv cfg put_before_exit wf s HR)).
  - apply exec_step; auto.
Qed.

End Progress.

(* ================================================================================================ *)
(* The parent does not spin on its own *)

(* no worker step (task take, stop, finish, feeder flush, exit visibility) is enabled *)
Definition quiescent (cfg : config) (s : state) : Prop :=
  forall l, actor l <> 0 -> exec cfg s l = None.

Definition ret_ok (s : state) : Prop :=
  ppc s = AtGet \/ ppc s = AtReap -> Forall (fun w => w_ret w = false) (ws s).

Lemma ret_step : forall cfg s l s', ret_ok s -> step cfg s l s' -> ret_ok s'.
Proof.
  intros cfg s l s' HR HS. unfold ret_ok in *.
  destruct HS as [s i w y q Hn Hst Htq | s i w q Hn Hst Htq | s i w y Hn Hst | s i w r o Hn Ho
                 | s i w c Hn Hst Hex | s r q Hpc Hdq | s Hpc Hdq | s obs Hpc | s r Hpc Hg Hok
                 | s r Hpc Hg Htol Hf | s Hpc Hg | s Hpc Hb | s Hpc Hb]; simpl; intros Hp;
    try (destruct Hp; discriminate);
    try (apply Forall_upd; [auto | simpl; exact (Forall_nth_error _ _ _ _ _ (HR Hp) Hn)]);
    try (apply HR; left; assumption).
  apply Forall_forall. intros w Hin. apply in_map_iff in Hin. destruct Hin as (w0 & <- & _).
  unfold restart_w. destruct (w_ret w0) eqn:E; auto.
Qed.

Lemma ret_reachable : forall cfg s, reachable cfg s -> ret_ok s.
Proof.
  intros cfg s H. induction H as [|s l s' HR IH HE].
  - unfold ret_ok, init; simpl. intros _. apply Forall_forall. intros w Hin.
    apply repeat_spec in Hin. subst. reflexivity.
  - eapply ret_step; [exact IH | apply exec_step; exact HE].
Qed.

Lemma brk_live_sound : forall b, brk_live b = true -> eval_brk b true true true = true.
Proof.
  intros b H. unfold brk_live in H. rewrite forallb_forall in H.
  specialize (H (true, true, true)). simpl in H. apply H. auto.
Qed.

Lemma owing_pos : forall l i w, nth_error l i = Some w -> owes w = true -> 0 < owing l.
Proof.
  unfold owing. induction l as [|h t IH]; destruct i; simpl; intros w H E; try discriminate.
  - injection H as H; subst. rewrite E. simpl. lia.
  - specialize (IH _ _ H E). destruct (owes h); simpl; lia.
Qed.

Definition settled (w : worker) : Prop :=
  (exists c, w_st w = Exited c) /\ w_out w = [] /\ w_ret w = false.

Lemma settled_weight_le : forall w, settled w -> w_weight (restart_w (reap_w w)) <= w_weight w.
Proof.
  intros w _. pose proof (w_weight_restart (reap_w w)). pose proof (w_weight_reap w). lia.
Qed.

Lemma settled_weight_lt : forall w, settled w -> w_in w = true -> w_weight (restart_w (reap_w w)) < w_weight w.
Proof.
  intros w ((c & Est) & Eo & Er) Ein. unfold reap_w. rewrite Ein, Est.
  destruct c; unfold restart_w, w_weight; simpl; rewrite ?Ein, ?Er, ?Est, ?Eo; simpl; lia.
Qed.

Lemma settled_pool_weight : forall l,
  Forall settled l -> pool_empty l = false ->
  ws_weight (map restart_w (map reap_w l)) < ws_weight l.
Proof.
  induction l as [|h t IH]; simpl; intros HF HP; try discriminate.
  inversion HF as [|? ? Hh Ht]; subst.
  assert (LE : ws_weight (map restart_w (map reap_w t)) <= ws_weight t).
  { clear IH HP HF. induction t as [|a t' IH']; simpl; auto.
    inversion Ht as [|? ? Ha Ht']; subst. pose proof (settled_weight_le a Ha). specialize (IH' Ht'). lia. }
  destruct (w_in h) eqn:Ein; simpl in HP.
  - pose proof (settled_weight_lt h Hh Ein). lia.
  - pose proof (settled_weight_le h Hh). specialize (IH Ht HP). lia.
Qed.

Section Spin.
Variable cfg : config.
Hypothesis put_before_exit : forall out, c_exit cfg out = true -> out = [].
Hypothesis exit_live : c_exit cfg [] = true.
Hypothesis wf : wf_cfg cfg = true.
Hypothesis live : brk_live (c_brk cfg) = true.

Lemma quiescent_settled : forall s,
  reachable cfg s -> ppc s = AtGet -> quiescent cfg s -> Forall settled (ws s).
Proof.
  intros s HR Hpc HQ. destruct (reachable_inv cfg put_before_exit wf s HR) as [_ _ H3 _ _ _ _].
  pose proof (ret_reachable cfg s HR (or_introl Hpc)) as Hret.
  apply Forall_forall. intros w Hin. apply In_nth_error in Hin. destruct Hin as [i Hn].
  assert (Eo : w_out w = []).
  { destruct (w_out w) as [|r o] eqn:E; auto.
    specialize (HQ (LFlush i)). simpl in HQ. rewrite Hn, E in HQ. discriminate HQ. discriminate. }
  pose proof (Forall_nth_error _ _ _ _ _ Hret Hn) as Er. simpl in Er.
  repeat split; auto.
  destruct (w_st w) as [| y | c | c] eqn:Est; eauto; exfalso.
  - destruct H3 as (pend & Hq & _).
    destruct (taskq s) as [|[j|] q] eqn:Etq.
    + assert (O : 0 < owing (ws s)) by (eapply owing_pos; eauto; unfold owes; rewrite Est; reflexivity).
      destruct pend; simpl in Hq; try discriminate. destruct (owing (ws s)); simpl in Hq; [lia | discriminate].
    + specialize (HQ (LTake i j)). simpl in HQ. rewrite Hn, Est, Etq, Nat.eqb_refl in HQ. discriminate HQ. discriminate.
    + specialize (HQ (LStop i)). simpl in HQ. rewrite Hn, Est, Etq in HQ. discriminate HQ. discriminate.
  - specialize (HQ (LFinish i y)). simpl in HQ. rewrite Hn, Est, Nat.eqb_refl in HQ. discriminate HQ. discriminate.
  - specialize (HQ (LExit i)). simpl in HQ. rewrite Hn, Est, Eo, exit_live in HQ. discriminate HQ. discriminate.
Qed.

Lemma no_idle_spin : forall s,
  reachable cfg s -> ppc s = AtGet -> doneq s = [] -> quiescent cfg s ->
  exists s', run cfg s [LGetEmpty; LReap (reap_obs (ws s)); LNoDeliver;
                        if eval_brk (c_brk cfg) (pool_empty (map reap_w (ws s))) (pool_empty (ws s)) true
                        then LBreak else LLoop] = Some s' /\
             (ppc s' = Done \/ mu cfg s' < mu cfg s).
Proof.
  intros s HR Hpc Hdq HQ. pose proof (quiescent_settled s HR Hpc HQ) as HS.
  destruct (eval_brk (c_brk cfg) (pool_empty (map reap_w (ws s))) (pool_empty (ws s)) true) eqn:Eb;
    simpl; rewrite Hpc, Hdq; simpl; rewrite obs_eqb_refl; simpl; rewrite Eb; eexists; split; eauto.
  right. unfold mu, weight; simpl. rewrite Hpc, Hdq. simpl.
  assert (HP : pool_empty (ws s) = false).
  { destruct (pool_empty (ws s)) eqn:E; auto.
    rewrite (pool_empty_reap _ E) in Eb. rewrite (brk_live_sound _ live) in Eb. discriminate. }
  pose proof (settled_pool_weight (ws s) HS HP). destruct (got s); lia.
Qed.

End Spin.
