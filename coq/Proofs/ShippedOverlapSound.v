(* C08 for the shipped ordering rulebooks: the conservative literal-word overlap test of Spec/P_Shipped.v
   (lit_vec / vecs_differ / vecs_overlap) is SOUND for the rule matcher ym of the pipeline models: two sibling
   rules the test separates are matched (directly or in reverse form) by no common row.

   The proof goes through a word-level reading of the demand vectors: [sat_vec v ws] says that the words ws
   meet the demands v position by position (a literal demands that very word, a one-word regex a word of its
   language, a missing word meets no demand).  A row matched by a pattern meets the pattern's vector
   (lit_vec_sound: the token loops of Model/PatternX.v and Model/PatternY.v consume one word per token before
   the first `~` / `~/re/`; the no-trailing-boundary peculiarity of rows with `~/re/` only concerns the last
   token, which comes at or after the `~/re/` word, where the vector demands nothing); two vectors the test
   separates are met by no common word list (vecs_differ_sound). *)
From Coq Require Import List String Ascii Bool Arith Lia.
From Annet Require Import Base.Str Model.Pattern Model.PatternX Model.PatternY Model.Rulebook Model.Order
     Model.ShippedText Spec.P_Shipped Proofs.OrderProofs Proofs.ShippedOverlap.
Import ListNotations.
Open Scope string_scope.
Open Scope list_scope.

(* ------------------------------------------------------------------ demands met by a word list *)
Definition lv_sat (l : lv) (x : option string) : Prop :=
  match l with
  | LvAny => True
  | LvLit w => x = Some w
  | LvRe r => exists y, x = Some y /\ sre_match r y = true
  end.

Fixpoint sat_vec (v : list lv) (ws : list string) : Prop :=
  match v with
  | [] => True
  | l :: v' => lv_sat l (hd_error ws) /\ sat_vec v' (tl ws)
  end.

Lemma sat_vec_any k ws : sat_vec (repeat LvAny k) ws.
Proof.
  revert ws. induction k as [|k IH]; intro ws; cbn [repeat sat_vec]; [exact I|].
  split; [exact I | apply IH].
Qed.

Lemma lv_differ_sound a b x : lv_differ a b = true -> lv_sat a x -> lv_sat b x -> False.
Proof.
  intros Hd Ha Hb. destruct a as [|wa|ra]; destruct b as [|wb|rb]; cbn in Hd; try discriminate.
  - cbn in Ha, Hb. rewrite Ha in Hb. injection Hb as Hb. subst wb.
    rewrite String.eqb_refl in Hd. discriminate.
  - cbn in Ha, Hb. destruct Hb as [y [Hy Hm]]. rewrite Ha in Hy. injection Hy as Hy. subst y.
    rewrite Hm in Hd. discriminate.
  - cbn in Ha, Hb. destruct Ha as [y [Hy Hm]]. rewrite Hb in Hy. injection Hy as Hy. subst y.
    rewrite Hm in Hd. discriminate.
Qed.

(* two vectors the test separates are met by no common word list *)
Lemma vecs_differ_sound : forall a b ws, vecs_differ a b = true -> sat_vec a ws -> sat_vec b ws -> False.
Proof.
  induction a as [|x a IH]; intros b ws Hd Ha Hb; [discriminate|].
  destruct b as [|y b]; [discriminate|]. cbn [vecs_differ] in Hd. cbn [sat_vec] in Ha, Hb.
  destruct Ha as [Hx Ha]. destruct Hb as [Hy Hb].
  apply orb_true_iff in Hd. destruct Hd as [Hd|Hd].
  - exact (lv_differ_sound x y _ Hd Hx Hy).
  - exact (IH b (tl ws) Hd Ha Hb).
Qed.

(* ------------------------------------------------------------------ the vector of a token list *)
(* the local loop of P_Shipped.lit_vec, named *)
Fixpoint lv_go (k : nat) (ts : list ytok) : list lv :=
  match k with
  | O => []
  | S k' =>
    match ts with
    | YX (XLit w) :: r => LvLit w :: lv_go k' r
    | YX (XStarRe re) :: r => LvRe re :: lv_go k' r
    | YX (XLitRe re) :: r => LvRe re :: lv_go k' r
    | t :: r => if ytok_one t then LvAny :: lv_go k' r else repeat LvAny k
    | [] => repeat LvAny k
    end
  end.

Lemma lit_vec_eq n pat :
  lit_vec n pat =
  if rule_has_ic pat then repeat LvAny n else
  match yrule_pat pat with Some p => lv_go n (y_toks p) | None => repeat LvAny n end.
Proof. reflexivity. Qed.

Lemma word_eq_false w x : word_eq false w x = true -> x = w.
Proof.
  unfold word_eq. cbn [andb]. rewrite orb_false_r. intro H. apply String.eqb_eq in H. symmetry. exact H.
Qed.

(* PatternX's token loop (case-sensitive).  nb (no trailing boundary) only loosens the last token, and is set
   only when a `~/re/` word is still ahead or has been passed - in the latter case the vector has stopped. *)
Lemma xmatch_words_sat cap nb : forall (p : xpat) n ws key,
  (nb = true -> has_tildere p = true) ->
  xmatch_words cap nb p false ws = Some key -> sat_vec (lv_go n (map YX p)) ws.
Proof.
  induction p as [|t p IH]; intros n ws key Hnb Hm.
  - destruct n; cbn [map lv_go]; [exact I | apply sat_vec_any].
  - destruct n as [|n]; [exact I|].
    assert (Hloose : is_xtildere t = false -> (nb && match p with [] => true | _ => false end) = false).
    { intro Ht. destruct nb; [|reflexivity]. specialize (Hnb eq_refl). unfold has_tildere in Hnb.
      cbn [existsb] in Hnb. rewrite Ht in Hnb. cbn [orb] in Hnb. destruct p; [discriminate | reflexivity]. }
    assert (Hnb' : is_xtildere t = false -> nb = true -> has_tildere p = true).
    { intros Ht Hn. specialize (Hnb Hn). unfold has_tildere in Hnb. cbn [existsb] in Hnb. rewrite Ht in Hnb.
      exact Hnb. }
    destruct t as [w| |r| |r|r]; cbn [map lv_go ytok_one].
    + (* XLit *) cbn [xmatch_words] in Hm. destruct ws as [|x ws]; [discriminate|].
      rewrite (Hloose eq_refl) in Hm. cbn [xtok_ok] in Hm.
      destruct (word_eq false w x) eqn:E; [|discriminate].
      apply word_eq_false in E. subst x.
      destruct (xmatch_words cap nb p false ws) as [k'|] eqn:E2; [|discriminate].
      cbn [sat_vec lv_sat hd_error tl]. split; [reflexivity|]. exact (IH n ws k' (Hnb' eq_refl) E2).
    + (* XStar *) cbn [xmatch_words] in Hm. destruct ws as [|x ws]; [discriminate|].
      destruct (xtok_ok false (nb && match p with [] => true | _ => false end) XStar x); [|discriminate].
      destruct (xmatch_words cap nb p false ws) as [k'|] eqn:E2; [|discriminate].
      cbn [sat_vec lv_sat hd_error tl]. split; [exact I|]. exact (IH n ws k' (Hnb' eq_refl) E2).
    + (* XStarRe *) cbn [xmatch_words] in Hm. destruct ws as [|x ws]; [discriminate|].
      cbn [xtok_ok] in Hm. destruct (sre_imatch false r x) eqn:E; [|discriminate].
      destruct (xmatch_words cap nb p false ws) as [k'|] eqn:E2; [|discriminate].
      cbn [sat_vec lv_sat hd_error tl]. split; [exists x; split; [reflexivity | exact E]|].
      exact (IH n ws k' (Hnb' eq_refl) E2).
    + (* XTilde *) apply (sat_vec_any (S n)).
    + (* XLitRe *) cbn [xmatch_words] in Hm. destruct ws as [|x ws]; [discriminate|].
      rewrite (Hloose eq_refl) in Hm. cbn [xtok_ok] in Hm.
      destruct (sre_imatch false r x) eqn:E; [|discriminate].
      destruct (xmatch_words cap nb p false ws) as [k'|] eqn:E2; [|discriminate].
      cbn [sat_vec lv_sat hd_error tl]. split; [exists x; split; [reflexivity | exact E]|].
      exact (IH n ws k' (Hnb' eq_refl) E2).
    + (* XTildeRe *) apply (sat_vec_any (S n)).
Qed.

(* PatternY's token loop for the new forms (case-sensitive) *)
Lemma ymatch_toks_sat e : forall (p : list ytok) n ws key,
  ymatch_toks false e p ws = Some key -> sat_vec (lv_go n p) ws.
Proof.
  induction p as [|t p IH]; intros n ws key Hm.
  - destruct n; cbn [lv_go]; [exact I | apply sat_vec_any].
  - destruct n as [|n]; [exact I|].
    cbn [ymatch_toks] in Hm. destruct ws as [|x ws]; [discriminate|].
    destruct (ytok_match false t x) as [b|] eqn:Et; [|discriminate].
    destruct (ymatch_toks false e p ws) as [k'|] eqn:E2; [|discriminate].
    specialize (IH n ws k' E2).
    destruct t as [t|r suf].
    + cbn [ytok_match] in Et. destruct (xtok_ok false false t x) eqn:Eo; [|discriminate].
      destruct t as [w| |r| |r|r]; cbn [lv_go ytok_one]; cbn [xtok_ok] in Eo;
        try (apply (sat_vec_any (S n))); cbn [sat_vec lv_sat hd_error tl].
      * apply word_eq_false in Eo. subst x. split; [reflexivity | exact IH].
      * split; [exact I | exact IH].
      * split; [exists x; split; [reflexivity | exact Eo] | exact IH].
      * split; [exists x; split; [reflexivity | exact Eo] | exact IH].
    + cbn [lv_go ytok_one sat_vec lv_sat hd_error tl]. split; [exact I | exact IH].
Qed.

Lemma yproj_toks_map : forall ts xp, yproj_toks ts = Some xp -> ts = map YX xp.
Proof.
  induction ts as [|t ts IH]; intros xp H.
  - cbn in H. injection H as H. subst xp. reflexivity.
  - destruct t as [t|r suf]; [|discriminate]. cbn [yproj_toks] in H.
    destruct (yproj_toks ts) as [xp'|] eqn:E; [|discriminate]. cbn in H. injection H as H. subst xp.
    cbn [map]. rewrite (IH xp' eq_refl). reflexivity.
Qed.

(* a row matched by a pattern meets the pattern's demand vector *)
Lemma lit_vec_sound n pat row key : ym pat row = Some key -> sat_vec (lit_vec n pat) (words row).
Proof.
  intro Hm. rewrite lit_vec_eq. destruct (rule_has_ic pat) eqn:Eic; [apply sat_vec_any|].
  unfold ym, yrule_match in Hm. destruct (yrule_pat pat) as [p|]; [|discriminate].
  unfold rule_ic in Hm. rewrite Eic in Hm. cbn [orb] in Hm.
  unfold ypmatch in Hm. destruct (yproj p) as [xp|] eqn:Ep.
  - unfold yproj in Ep. destruct (y_end p); try discriminate. apply yproj_toks_map in Ep. rewrite Ep.
    unfold xpmatch in Hm. destruct xp as [|t xp]; [discriminate|].
    exact (xmatch_words_sat _ _ (t :: xp) n (words row) key (fun H => H) Hm).
  - exact (ymatch_toks_sat _ _ n (words row) key Hm).
Qed.

(* ------------------------------------------------------------------ the statement of Properties/C08.v *)
Lemma matches_ym pat row : matches ym pat row = true -> exists key, ym pat row = Some key.
Proof. unfold matches. destruct (ym pat row) as [k|]; [intros _; exists k; reflexivity | discriminate]. Qed.

Lemma hits_form prefix r row :
  hits ym (fun p => reverse_row p prefix) r row = true ->
  exists f, In f (o_forms prefix r) /\ exists key, ym f row = Some key.
Proof.
  unfold hits, o_forms. intro H. apply orb_true_iff in H. destruct H as [H|H]; apply matches_ym in H.
  - exists (o_pat r). split; [left; reflexivity | exact H].
  - exists (reverse_row (o_pat r) prefix). split; [right; left; reflexivity | exact H].
Qed.

Lemma vecs_overlap_false v1 v2 a b :
  vecs_overlap v1 v2 = false -> In a v1 -> In b v2 -> vecs_differ a b = true.
Proof.
  intros Hv Ha Hb. unfold vecs_overlap in Hv. apply negb_false_iff in Hv.
  rewrite forallb_forall in Hv. specialize (Hv a Ha). rewrite forallb_forall in Hv. exact (Hv b Hb).
Qed.

Lemma form_vecs_in n prefix r f : In f (o_forms prefix r) -> In (lit_vec n f) (map (lit_vec n) (o_forms prefix r)).
Proof. apply in_map. Qed.

Lemma overlap_test_sound prefix r1 r2 row :
  vecs_overlap (form_vecs prefix r1) (form_vecs prefix r2) = false ->
  hits ym (fun p => reverse_row p prefix) r1 row = true ->
  hits ym (fun p => reverse_row p prefix) r2 row = true -> False.
Proof.
  unfold form_vecs. generalize 8 as n. intros n Hv H1 H2.
  destruct (hits_form _ _ _ H1) as [f1 [Hf1 [k1 Hm1]]]. destruct (hits_form _ _ _ H2) as [f2 [Hf2 [k2 Hm2]]].
  pose proof (vecs_overlap_false _ _ _ _ Hv (form_vecs_in n _ _ _ Hf1) (form_vecs_in n _ _ _ Hf2)) as Hd.
  exact (vecs_differ_sound _ _ (words row) Hd (lit_vec_sound n f1 row k1 Hm1) (lit_vec_sound n f2 row k2 Hm2)).
Qed.

(* the same for the list [overlaps]: top-level siblings that are not listed and whose scopes meet share no row *)
Lemma overlaps_unlisted_disjoint prefix ord i j x y row :
  i < j -> nth_error ord i = Some x -> nth_error ord j = Some y ->
  ~ In (o_raw x, o_raw y) (overlaps prefix ord) -> scopes_meet x y = true ->
  hits ym (fun p => reverse_row p prefix) x row = true ->
  hits ym (fun p => reverse_row p prefix) y row = true -> False.
Proof.
  intros Hij Hi Hj Hn Hs H1 H2.
  pose proof (overlaps_top_complete prefix ord i j x y Hij Hi Hj Hn) as Hc.
  apply andb_false_iff in Hc. destruct Hc as [Hc|Hc]; [rewrite Hs in Hc; discriminate|].
  exact (overlap_test_sound prefix x y row Hc H1 H2).
Qed.
