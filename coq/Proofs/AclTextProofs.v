(* C06, ACL text front end, part 3: compile_acl_text of a printed structured ACL is compile_acl of
   it; two texts one after the other; blank and comment rows. *)
From Coq Require Import List String Ascii Bool Arith Lia.
From Annet Require Import Base.Str Base.Tree Model.Offside Spec.P_C05 Proofs.OffsideProofs.
From Annet Require Import Model.GenProg Proofs.GenProgProofs.
From Annet Require Import Model.Pattern Model.PatternT Model.Acl Model.AclText Spec.P_C06_text.
From Annet Require Import Proofs.AclMono Proofs.AclTextParse Proofs.AclTextGroup.
Import ListNotations.
Open Scope string_scope.
Open Scope list_scope.
Arguments Nat.ltb : simpl never.
Arguments Nat.leb : simpl never.

(* ---------- round trip ---------- *)

Lemma compile_parsed_items a :
  compile_parsed (parse_items (S (acl_depth a)) a) = structured_outcome a.
Proof.
  unfold compile_parsed, structured_outcome, compile_acl.
  rewrite (compile_items_fuel (S (acl_depth (parse_items (S (acl_depth a)) a))) (S (acl_depth a))).
  - reflexivity.
  - lia.
  - pose proof (parse_items_depth (S (acl_depth a)) a (acl_depth a) (le_n _)). lia.
Qed.

Theorem text_roundtrip a v : acl_ok a -> compile_acl_text (acl_text a) v = structured_outcome a.
Proof.
  intros H. unfold compile_acl_text, text_acl. rewrite (rb_parse_acl_text a H).
  fold (aforest a). rewrite (items_of_aforest (S (acl_depth a)) a H) by lia.
  apply compile_parsed_items.
Qed.

(* the structured view of a parsed text *)
Theorem text_acl_printed a : acl_ok a -> text_acl (acl_text a) = inr (parse_items (S (acl_depth a)) a).
Proof.
  intros H. unfold text_acl. rewrite (rb_parse_acl_text a H). fold (aforest a).
  apply items_of_aforest; [exact H|lia].
Qed.

(* ---------- two printed texts one after the other ---------- *)

Lemma join_with_app l1 l2 : l1 <> [] -> l2 <> [] ->
  join_with nl_s (l1 ++ l2) = (join_with nl_s l1 ++ nl_s ++ join_with nl_s l2)%string.
Proof.
  intros H1 H2. induction l1 as [|x l1 IH]; [congruence|]. destruct l1 as [|y l1].
  - cbn [app]. destruct l2 as [|z l2]; [congruence|]. reflexivity.
  - change ((x :: y :: l1) ++ l2) with (x :: y :: (l1 ++ l2)). rewrite !join_cons.
    change (y :: l1 ++ l2) with ((y :: l1) ++ l2). rewrite IH by discriminate.
    rewrite !append_assoc. reflexivity.
Qed.

Lemma acl_lines_nonempty lvl a : a <> [] -> acl_lines lvl a <> [].
Proof. destruct a as [|x a]; [congruence|]. intros _. unfold acl_lines. cbn [flat_map]. rewrite item_lines_unfold. discriminate. Qed.

Lemma acl_text_app a b : a <> [] -> b <> [] ->
  acl_text (a ++ b) = (acl_text a ++ nl_s ++ acl_text b)%string.
Proof.
  intros Ha Hb. unfold acl_text, acl_lines. rewrite flat_map_app.
  apply join_with_app; apply acl_lines_nonempty; assumption.
Qed.

Theorem text_concat_printed a b v : acl_ok a -> acl_ok b -> a <> [] -> b <> [] ->
  compile_acl_text (acl_text a ++ nl_s ++ acl_text b) v = structured_outcome (acl_concat a b).
Proof.
  intros Ha Hb Na Nb. rewrite <- acl_text_app by assumption. apply text_roundtrip.
  apply acl_ok_app. auto.
Qed.

(* ---------- any two texts one after the other: rows ---------- *)

Lemma prefix_app_nl p : forall s t, has_nl p = false ->
  String.prefix p (s ++ nl_s ++ t) = String.prefix p s.
Proof.
  induction p as [|a p IH]; intros s t H.
  - destruct s; reflexivity.
  - cbn [has_nl] in H. apply orb_false_iff in H as [Ha Hp]. destruct s as [|b s].
    + change ("" ++ nl_s ++ t)%string with (String nl t). cbn [String.prefix].
      destruct (ascii_dec a nl) as [->|]; [rewrite Ascii.eqb_refl in Ha; discriminate|reflexivity].
    + change (String b s ++ nl_s ++ t)%string with (String b (s ++ nl_s ++ t)%string). cbn [String.prefix].
      destruct (ascii_dec a b); [apply IH; exact Hp|reflexivity].
Qed.

Lemma cont_line_app r b : cont_line b = false -> cont_line (r ++ nl_s ++ b) = cont_line r.
Proof.
  intros Hb. induction r as [|c r IH].
  - change ("" ++ nl_s ++ b)%string with (String nl b). unfold cont_line at 1. cbn [lstrip].
    change (is_ws nl) with true. cbn iota. exact Hb.
  - change (String c r ++ nl_s ++ b)%string with (String c (r ++ nl_s ++ b)%string).
    unfold cont_line in *. cbn [lstrip]. destruct (is_ws c); [exact IH|].
    unfold startswith. change (String c (r ++ nl_s ++ b)%string) with (String c r ++ nl_s ++ b)%string.
    rewrite !prefix_app_nl by reflexivity. reflexivity.
Qed.

Lemma split_rows_nonempty s : split_rows s <> [].
Proof.
  destruct s as [|a s]; cbn [split_rows]; [discriminate|].
  destruct (Ascii.eqb a nl && negb (cont_line s)); [discriminate|]. destruct (split_rows s); discriminate.
Qed.

Lemma split_rows_app a b : cont_line b = false ->
  split_rows (a ++ nl_s ++ b) = split_rows a ++ split_rows b.
Proof.
  intros Hb. induction a as [|c a IH].
  - change ("" ++ nl_s ++ b)%string with (String nl b). cbn [split_rows]. rewrite Ascii.eqb_refl, Hb. reflexivity.
  - change (String c a ++ nl_s ++ b)%string with (String c (a ++ nl_s ++ b)%string). cbn [split_rows].
    rewrite (cont_line_app a b Hb), IH.
    destruct (Ascii.eqb c nl && negb (cont_line a)); [reflexivity|].
    pose proof (split_rows_nonempty a) as Hn. destruct (split_rows a) as [|h t]; [congruence|]. reflexivity.
Qed.

Lemma text_items_app a b : cont_line b = false ->
  text_items (a ++ nl_s ++ b) = text_items a ++ text_items b.
Proof. intros H. unfold text_items. rewrite (split_rows_app a b H), map_app. reflexivity. Qed.

(* ---------- any two texts one after the other: the offside reference ---------- *)

(* the history after a run of rows *)
Fixpoint ref_hist (its : list item) (h : hist) : hist :=
  match its with
  | [] => h
  | Skip :: r => ref_hist r h
  | Reset :: r => ref_hist r []
  | Content lvl row :: r => ref_hist r ((lvl, ref_path h lvl row) :: h)
  end.

Lemma ref_paths_app l1 : forall l2 n h,
  ref_paths (l1 ++ l2) n h =
  match ref_paths l1 n h with
  | inl e => inl e
  | inr ps => match ref_paths l2 (n + List.length l1) (ref_hist l1 h) with
              | inl e => inl e
              | inr qs => inr (ps ++ qs)
              end
  end.
Proof.
  induction l1 as [|it l1 IH]; intros l2 n h.
  - cbn. rewrite Nat.add_0_r. destruct (ref_paths l2 n h); reflexivity.
  - destruct it as [lvl row| |]; cbn [app ref_paths ref_hist List.length]; rewrite ?Nat.add_succ_r.
    + destruct (ref_consistent h lvl); [|reflexivity]. rewrite IH. cbn [plus].
      destruct (ref_paths l1 (S n) _) as [e|ps]; [reflexivity|].
      destruct (ref_paths l2 _ _); reflexivity.
    + rewrite IH. reflexivity.
    + rewrite IH. reflexivity.
Qed.

(* line numbers only show in the error *)
Lemma ref_paths_lineno its : forall n m h ps, ref_paths its n h = inr ps -> ref_paths its m h = inr ps.
Proof.
  induction its as [|it its IH]; intros n m h ps H; [exact H|].
  destruct it as [lvl row| |]; cbn [ref_paths] in *.
  - destruct (ref_consistent h lvl); [|discriminate].
    destruct (ref_paths its (S n) _) as [e|qs] eqn:E; [discriminate|].
    rewrite (IH _ (S m) _ _ E). exact H.
  - eapply IH. exact H.
  - eapply IH. exact H.
Qed.

(* every section of the text (the rows between "#" rows in column 0) starts in column 0 *)
Fixpoint sect0 (start : bool) (its : list item) : bool :=
  match its with
  | [] => true
  | Skip :: r => sect0 start r
  | Reset :: r => sect0 true r
  | Content lvl _ :: r => (if start then Nat.eqb lvl 0 else true) && sect0 false r
  end.

(* a history whose oldest row is in column 0 *)
Definition anch (h : hist) : Prop := exists h' p, h = h' ++ [(0, p)].

Lemma find_app {A} (f : A -> bool) l1 l2 :
  find f (l1 ++ l2) = match find f l1 with Some x => Some x | None => find f l2 end.
Proof. induction l1 as [|x l1 IH]; [reflexivity|]. cbn. destruct (f x); [reflexivity|exact IH]. Qed.

Lemma find_lt0 (h : hist) : find (fun e : nat * list string => Nat.ltb (fst e) 0) h = None.
Proof. induction h as [|e h IH]; [reflexivity|]. cbn. exact IH. Qed.

Lemma ref_path_anchored hb p ha lvl row :
  ref_path (hb ++ (0, p) :: ha) lvl row = ref_path (hb ++ [(0, p)]) lvl row.
Proof.
  unfold ref_path. rewrite !find_app. destruct (find _ hb); [reflexivity|].
  cbn [find fst]. destruct lvl as [|lvl].
  - change (Nat.ltb 0 0) with false. cbn iota. rewrite find_lt0. reflexivity.
  - change (Nat.ltb 0 (S lvl)) with true. reflexivity.
Qed.

Lemma ref_consistent_anchored hb p ha lvl :
  ref_consistent (hb ++ (0, p) :: ha) lvl = ref_consistent (hb ++ [(0, p)]) lvl.
Proof.
  assert (F : find (fun e : nat * list string => Nat.leb (fst e) lvl) (hb ++ (0, p) :: ha) =
              find (fun e : nat * list string => Nat.leb (fst e) lvl) (hb ++ [(0, p)])).
  { rewrite !find_app. destruct (find _ hb); [reflexivity|]. cbn [find fst].
    change (Nat.leb 0 lvl) with true. reflexivity. }
  unfold ref_consistent. destruct hb as [|[lp pp] hb]; cbn [app] in *; rewrite F; reflexivity.
Qed.

Lemma ref_paths_anchored its : forall n hb p ha,
  ref_paths its n (hb ++ (0, p) :: ha) = ref_paths its n (hb ++ [(0, p)]).
Proof.
  induction its as [|it its IH]; intros n hb p ha; [reflexivity|].
  destruct it as [lvl row| |]; cbn [ref_paths].
  - rewrite ref_consistent_anchored, ref_path_anchored.
    destruct (ref_consistent (hb ++ [(0, p)]) lvl); [|reflexivity].
    rewrite !app_comm_cons. rewrite (IH (S n) ((lvl, ref_path (hb ++ [(0, p)]) lvl row) :: hb) p ha). reflexivity.
  - reflexivity.
  - apply IH.
Qed.

Lemma ref_paths_section its : forall n ha,
  sect0 true its = true -> (ha = [] \/ anch ha) -> ref_paths its n ha = ref_paths its n [].
Proof.
  induction its as [|it its IH]; intros n ha S A; [reflexivity|].
  destruct it as [lvl row| |]; cbn [ref_paths sect0] in *.
  - apply andb_true_iff in S as [S0 _]. apply Nat.eqb_eq in S0. subst lvl.
    destruct A as [->|(h' & p & ->)]; [reflexivity|].
    assert (C : ref_consistent (h' ++ [(0, p)]) 0 = true).
    { unfold ref_consistent. destruct (h' ++ [(0, p)]) as [|[lp pp] t] eqn:E; [reflexivity|].
      rewrite <- E. rewrite find_app. cbn [find fst]. change (Nat.leb 0 0) with true.
      destruct (find _ h') as [[lj pj]|] eqn:F.
      - apply find_some in F as [_ F]. cbn in F. apply Nat.leb_le in F.
        assert (lj = 0) by lia. subst lj. rewrite Nat.eqb_refl. apply orb_true_r.
      - rewrite Nat.eqb_refl. apply orb_true_r. }
    rewrite C. assert (P : ref_path (h' ++ [(0, p)]) 0 row = [row]).
    { unfold ref_path. rewrite find_lt0. reflexivity. }
    rewrite P. cbn [ref_consistent ref_path find].
    change ((0, [row]) :: h' ++ [(0, p)]) with ([] ++ (0, [row]) :: (h' ++ [(0, p)])).
    rewrite (ref_paths_anchored its (S n) [] [row] (h' ++ [(0, p)])). reflexivity.
  - reflexivity.
  - apply IH; assumption.
Qed.

Lemma ref_hist_anchored its : forall (start : bool) h,
  sect0 start its = true -> (if start then h = [] else anch h) ->
  ref_hist its h = [] \/ anch (ref_hist its h).
Proof.
  induction its as [|it its IH]; intros start h S I.
  - cbn. destruct start; [left; exact I | right; exact I].
  - destruct it as [lvl row| |]; cbn [ref_hist sect0] in *.
    + apply andb_true_iff in S as [S0 S1]. apply (IH false _ S1).
      destruct start.
      * apply Nat.eqb_eq in S0. subst lvl h. exists [], (ref_path [] 0 row). reflexivity.
      * destruct I as (h' & p & ->). exists ((lvl, ref_path (h' ++ [(0, p)]) lvl row) :: h'), p. reflexivity.
    + apply (IH true [] S). reflexivity.
    + apply (IH start h S I).
Qed.

(* the paths a text inserts (None: ParserError) *)
Definition text_paths (text : string) : option (list (list string)) :=
  match ref_paths (text_items text) 1 [] with inr ps => Some ps | inl _ => None end.

Lemma rb_parse_text_paths text ps : text_paths text = Some ps -> rb_parse text = Ok (insall ps []).
Proof.
  unfold text_paths. intros H. rewrite rb_parse_paths. destruct (ref_paths _ 1 []) as [e|qs]; [discriminate|].
  injection H as ->. reflexivity.
Qed.

Definition text_sect0 (text : string) : bool := sect0 true (text_items text).

Theorem text_paths_concat a b pa pb :
  cont_line b = false -> text_sect0 a = true -> text_sect0 b = true ->
  text_paths a = Some pa -> text_paths b = Some pb ->
  text_paths (a ++ nl_s ++ b) = Some (pa ++ pb).
Proof.
  unfold text_paths, text_sect0. intros Hc Sa Sb Ha Hb. rewrite (text_items_app a b Hc), ref_paths_app.
  destruct (ref_paths (text_items a) 1 []) as [e|qa] eqn:Ea; [discriminate|]. injection Ha as ->.
  destruct (ref_paths (text_items b) 1 []) as [e|qb] eqn:Eb; [discriminate|]. injection Hb as ->.
  rewrite ref_paths_section; [|exact Sb|apply (ref_hist_anchored _ true [] Sa); reflexivity].
  rewrite (ref_paths_lineno _ _ (1 + List.length (text_items a)) _ _ Eb). reflexivity.
Qed.

(* compile_acl_text through the paths *)
Definition compile_paths (ps : list (list string)) : terr + aset :=
  match items_of_forest (insall ps []) with inl e => inl e | inr x => compile_parsed x end.

Lemma compile_acl_text_paths text ps v : text_paths text = Some ps -> compile_acl_text text v = compile_paths ps.
Proof. intros H. unfold compile_acl_text, text_acl, compile_paths. rewrite (rb_parse_text_paths _ _ H). reflexivity. Qed.

Theorem text_concat a b pa pb v :
  cont_line b = false -> text_sect0 a = true -> text_sect0 b = true ->
  text_paths a = Some pa -> text_paths b = Some pb ->
  compile_acl_text (a ++ nl_s ++ b) v = compile_paths (pa ++ pb).
Proof.
  intros Hc Sa Sb Ha Hb. apply compile_acl_text_paths. apply text_paths_concat; assumption.
Qed.

(* ---------- blank rows and comment rows ---------- *)

Definition terr_nolineno (e : terr) : terr :=
  match e with EParser _ row => EParser 0 row | x => x end.
Definition tres_nolineno (r : terr + aset) : terr + aset :=
  match r with inl e => inl (terr_nolineno e) | inr x => inr x end.

Lemma rb_parse_ref text : rb_parse text = ref_items (text_items text) 1 [] [].
Proof. unfold rb_parse, parse_lines. apply parse_items_ref. exact Inv_init. Qed.

(* texts with the same rows apart from blank rows and comment rows compile to the same rules (a
   ParserError names the same row; its line number counts the skipped rows) *)
Theorem text_skip_irrelevant t1 t2 v :
  filter not_skip (text_items t1) = filter not_skip (text_items t2) ->
  tres_nolineno (compile_acl_text t1 v) = tres_nolineno (compile_acl_text t2 v).
Proof.
  intros H. unfold compile_acl_text, text_acl. rewrite !rb_parse_ref.
  pose proof (ref_items_skip_irrelevant (text_items t1) 1 1 [] []) as E1.
  pose proof (ref_items_skip_irrelevant (text_items t2) 1 1 [] []) as E2.
  rewrite H in E1. rewrite <- E2 in E1. clear E2 H.
  destruct (ref_items (text_items t1) 1 [] []) as [f1|n1 r1], (ref_items (text_items t2) 1 [] []) as [f2|n2 r2];
    cbn [no_lineno] in E1; try discriminate.
  - injection E1 as ->. reflexivity.
  - injection E1 as ->. reflexivity.
Qed.

(* a row the parser skips: blank, or a comment that does not start in column 0 *)
Definition skip_line (c : string) : bool :=
  negb (has_nl c) && negb (cont_line c) &&
  match classify acl_comments c with Skip => true | _ => false end.

Lemma text_items_single c : has_nl c = false -> text_items c = [classify acl_comments c].
Proof. intros H. unfold text_items. rewrite (split_rows_single c H). reflexivity. Qed.

Theorem text_skip_line_irrelevant a c b v :
  skip_line c = true -> cont_line b = false ->
  tres_nolineno (compile_acl_text (a ++ nl_s ++ c ++ nl_s ++ b) v) =
  tres_nolineno (compile_acl_text (a ++ nl_s ++ b) v).
Proof.
  unfold skip_line. rewrite !andb_true_iff, !negb_true_iff. intros [[Hn Hc] Hs] Hb.
  apply text_skip_irrelevant.
  rewrite (text_items_app a (c ++ nl_s ++ b)) by (rewrite cont_line_app; assumption).
  rewrite (text_items_app c b Hb), (text_items_app a b Hb), (text_items_single c Hn).
  destruct (classify acl_comments c); try discriminate.
  rewrite !filter_app. reflexivity.
Qed.

(* ... but a "#" comment in column 0 is a block end (tabparser's Huawei rule applies to rulebook texts
   too): below a rule it detaches the rule's children, which become top-level rules *)
Theorem col0_comment_relevant :
  exists a c b v,
    startswith "#" c = true /\
    compile_acl_text (a ++ nl_s ++ c ++ nl_s ++ b) v <> compile_acl_text (a ++ nl_s ++ b) v.
Proof.
  exists "interface *", "# mtu only", "    mtu *", no_vendor. split; [reflexivity|].
  vm_compute. discriminate.
Qed.

(* ---------- the printer's domain, decidable ---------- *)

Definition ocd_eqb (a b : option (list bool)) : bool :=
  match a, b with
  | None, None => true
  | Some x, Some y => blist_eqb x y
  | _, _ => false
  end.

Lemma blist_eqb_true a : forall b, blist_eqb a b = true -> a = b.
Proof.
  induction a as [|x a IH]; intros [|y b] H; try discriminate; [reflexivity|].
  cbn in H. apply andb_true_iff in H as [H1 H2]. apply Bool.eqb_prop in H1. subst. f_equal. apply IH. exact H2.
Qed.

Fixpoint item_okb (i : aitem) : bool :=
  match i with
  | AItem raw row ign glob cd prio gens kids =>
    line_ok raw &&
    match parse_line raw with
    | LItem row' ign' glob' cd' prio' gens' =>
      String.eqb row' row && Bool.eqb ign' ign && Bool.eqb glob' glob && ocd_eqb cd' cd && Nat.eqb prio' prio
      && list_str_eqb gens' gens
    | _ => false
    end &&
    (fix all (l : list aitem) : bool := match l with [] => true | k :: t => item_okb k && all t end) kids
  end.
Definition acl_okb (a : acl) : bool := forallb item_okb a.

Lemma item_okb_ok : forall x, item_okb x = true -> item_ok x.
Proof.
  apply (aitem_ind2 (fun x => item_okb x = true -> item_ok x)
                    (fun a => (fix all (l : list aitem) : bool := match l with [] => true | k :: t => item_okb k && all t end) a = true ->
                              (fix all (l : list aitem) : Prop := match l with [] => True | k :: t => item_ok k /\ all t end) a)).
  - intros raw row ign glob cd prio gens kids IHk H. cbn [item_okb] in H.
    apply andb_true_iff in H as [H Hk]. apply andb_true_iff in H as [Hl Hp].
    cbn [item_ok]. split; [exact Hl|]. split; [|apply IHk; exact Hk].
    destruct (parse_line raw) as [e| |row' ign' glob' cd' prio' gens']; try discriminate.
    rewrite !andb_true_iff in Hp. destruct Hp as [[[[[H1 H2] H3] H4] H5] H6].
    apply String.eqb_eq in H1. apply Bool.eqb_prop in H2. apply Bool.eqb_prop in H3.
    apply Nat.eqb_eq in H5. apply list_str_eqb_eq in H6. subst.
    f_equal. destruct cd' as [x|], cd as [y|]; try discriminate; [|reflexivity].
    cbn in H4. apply blist_eqb_true in H4. subst. reflexivity.
  - intros _. exact I.
  - intros x l IHx IHl H. apply andb_true_iff in H as [H1 H2]. split; [apply IHx; exact H1 | apply IHl; exact H2].
Qed.

Lemma acl_okb_ok a : acl_okb a = true -> acl_ok a.
Proof.
  unfold acl_okb. rewrite forallb_forall. intros H x Hx. apply item_okb_ok. apply H. exact Hx.
Qed.
