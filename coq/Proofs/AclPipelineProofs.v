(* C02 proof library: the ACL-aware pipeline (Model/AclPipeline.v) against Spec/P_C02.v.

   1. every entry of the raw diff carries exactly the rule and key the rulebook gives its row,
      at every depth ([dann]);
   2. after apply_acl_diff / mark_unchanged / strip_unchanged every entry is moreover matched
      by the ACL level by level, and an entry governed by a cant_delete rule is never REMOVED
      ([dgood]);
   3. every item of the patch tree is a row of a diff entry, the negation of a REMOVED entry
      (or of a MOVED entry of an %ordered rule), or "commit" next to a %force_commit entry
      ([pt_rel]);
   4. every command path of a block formatter is a tree path of the patch followed, possibly,
      by an exit word; hence [paths_covered]. *)
From Coq Require Import List String Ascii Bool Arith ZArith Lia Permutation.
From Annet Require Import Base.Str Base.Tree Model.Pattern Model.Rulebook Model.Diff Model.Order
     Model.Patch Model.Blocks Model.Pipeline Model.Device Model.Acl Model.AclPipeline
     Spec.PipelineCase Spec.P_C01 Spec.P_C03 Spec.C09Blocks Spec.P_C02
     Proofs.DiffBasics Proofs.DiffProofsLib Proofs.DiffProofsAnnot Proofs.DiffProofsLossless
     Proofs.SortProofs Proofs.BlocksProofs Proofs.AclProofs.
Import ListNotations.
Open Scope string_scope.
Open Scope list_scope.

(* ------------------------------------------------------------------------------------ *)
(* 1. annotations                                                                         *)

(* generic: a context c (a rule set) is walked along the rows; [Q c row mi c'] says that row is
   known in context c, carries annotation mi, and its children live in context c' *)
Section GenAnnotated.
  Variable C : Type.
  Variable Q : C -> string -> minfo -> C -> Prop.
  Hypothesis Qdet : forall c row mi mi' c1 c2, Q c row mi c1 -> Q c row mi' c2 -> c1 = c2.

  Inductive gaann : C -> aforest -> Prop :=
  | gaann_nil c : gaann c []
  | gaann_cons c row mi sub f c1 :
      Q c row mi c1 -> gaann c1 (akids sub) -> gaann c f -> gaann c ((row, mi, sub) :: f).

  Inductive gdann : C -> dnode -> Prop :=
  | gdann_intro c o row mi kids c1 :
      Q c row mi c1 -> Forall (gdann c1) kids -> gdann c (DN o row mi kids).

  Lemma gaann_In c f : gaann c f -> forall k, In k f ->
    exists c1, Q c (arow k) (ami k) c1 /\ gaann c1 (akids (asub k)).
  Proof.
    induction 1 as [|c row mi sub f c1 E Hs _ Hf IH]; intros k Hk; [destruct Hk|].
    destruct Hk as [Hk|Hk]; [subst k; exists c1; split; assumption | apply IH; exact Hk].
  Qed.

  Lemma gaann_filter p c f : gaann c f -> gaann c (filter p f).
  Proof.
    induction 1 as [|c row mi sub f c1 E Hs _ Hf IH]; cbn [filter]; [constructor|].
    destruct (p (row, mi, sub)); [econstructor; eassumption | exact IH].
  Qed.

  Lemma removed_t_gdann : forall t c, gaann c (akids t) -> Forall (gdann c) (removed_t t).
  Proof.
    induction t as [nk IH] using atree_ind2. intros c Ha. cbn [akids] in Ha.
    apply Forall_forall. intros x Hx. apply removed_t_In in Hx as (k & Hk & E). cbn [akids] in Hk.
    subst x. unfold mkrem. destruct (gaann_In _ _ Ha k Hk) as (c1 & Em & Hc).
    econstructor; [exact Em|]. rewrite Forall_forall in IH. apply (IH k Hk). exact Hc.
  Qed.

  Lemma gdann_aff_to_moved : forall d c, gdann c d -> gdann c (aff_to_moved_n d).
  Proof.
    induction d as [o row m kids IH] using dnode_ind2. intros c H. inversion H as [c' o' row' mi' kids' c1 E Hk]; subst.
    cbn [aff_to_moved_n]. econstructor; [exact E|].
    apply Forall_forall. intros x Hx. apply in_map_iff in Hx as (y & Ey & Hy). subst x.
    rewrite Forall_forall in IH, Hk. apply IH; [exact Hy | apply Hk; exact Hy].
  Qed.

  Definition GDT (t : atree) : Prop :=
    forall c ao pop inrw, gaann c ao -> gaann c (akids t) -> Forall (gdann c) (diff_t t ao pop inrw).

  Lemma base_diff_gdann c og ng pop inrw mta :
    gaann c og -> gaann c ng -> Forall (fun k => GDT (asub k)) ng ->
    Forall (gdann c) (base_diff og pop inrw mta (cks ng)).
  Proof.
    intros Ho Hn IH. apply Forall_forall. intros d Hd.
    apply base_diff_In in Hd as [(k & Hk & Hrel)|(k & Hk & _ & E)].
    - destruct (gaann_In _ _ Hn k Hk) as (c1 & Em & Hc).
      rewrite Forall_forall in IH. specialize (IH k Hk).
      unfold scan_rel in Hrel. destruct (alookup (arow k) og) as [[mo so]|] eqn:El.
      + destruct Hrel as (o & _ & E). subst d. econstructor; [exact Em|].
        apply alookup_Some_In in El. destruct (gaann_In _ _ Ho _ El) as (c1' & Em' & Hc').
        unfold arow, ami, asub in Em', Hc'. cbn [fst snd] in Em', Hc'.
        change (fst (fst k)) with (arow k) in Em'. rewrite (Qdet _ _ _ _ _ _ Em Em').
        apply IH; [exact Hc'|]. rewrite <- (Qdet _ _ _ _ _ _ Em Em'). exact Hc.
      + subst d. econstructor; [exact Em|]. apply IH; [constructor | exact Hc].
    - subst d. unfold mkrem. destruct (gaann_In _ _ Ho k Hk) as (c1 & Em & Hc).
      econstructor; [exact Em|]. apply removed_t_gdann. exact Hc.
  Qed.

  Theorem diff_t_gdann : forall t, GDT t.
  Proof.
    induction t as [nk IH] using atree_ind2. unfold GDT. cbn [akids]. intros c ao pop inrw Ho Hn.
    rewrite diff_t_unfold, diff_level_unfold. apply Forall_forall. intros d Hd.
    apply in_flat_map in Hd as (L & _ & Hd).
    assert (HB : forall pop' inrw' mta, Forall (gdann c)
               (base_diff (filter (inL L) ao) pop' inrw' mta (cks (filter (inL L) nk)))).
    { intros. apply base_diff_gdann; [apply gaann_filter; exact Ho | apply gaann_filter; exact Hn|].
      apply Forall_forall. intros k Hk. apply filter_In in Hk as [Hk _].
      rewrite Forall_forall in IH. apply IH. exact Hk. }
    unfold run_dlogic in Hd. destruct L.
    - eapply Forall_forall in Hd; [exact Hd | apply HB].
    - eapply Forall_forall in Hd; [exact Hd | apply HB].
    - destruct inrw.
      + eapply Forall_forall in Hd; [exact Hd | apply HB].
      + destruct (all_affected _); [destruct Hd|].
        unfold aff_to_moved in Hd. apply in_map_iff in Hd as (y & Ey & Hy). subst d.
        apply gdann_aff_to_moved. eapply Forall_forall in Hy; [exact Hy | apply HB].
  Qed.
End GenAnnotated.

Section Annotated.
  Variable rmatch : string -> string -> option (list string).

  (* the rulebook instance: an entry carries the rule and key of its row *)
  Definition Qr (rs : rset) (row : string) (mi : minfo) (crs : rset) : Prop := match_row rmatch row rs = Some (mi, crs).
  Lemma Qr_det : forall c row mi mi' c1 c2, Qr c row mi c1 -> Qr c row mi' c2 -> c1 = c2.
  Proof. unfold Qr. intros c row mi mi' c1 c2 H1 H2. rewrite H1 in H2. injection H2 as _ H2. exact H2. Qed.

  Inductive dann : rset -> dnode -> Prop :=
  | dann_intro rs o row mi kids crs :
      match_row rmatch row rs = Some (mi, crs) -> Forall (dann crs) kids -> dann rs (DN o row mi kids).

  Lemma gdann_dann : forall d rs, gdann rset Qr rs d -> dann rs d.
  Proof.
    induction d as [o row m kids IH] using dnode_ind2. intros rs H. inversion H as [c' o' row' mi' kids' c1 E Hk]; subst.
    econstructor; [exact E|]. apply Forall_forall. intros x Hx. rewrite Forall_forall in IH, Hk. apply IH; [exact Hx | apply Hk; exact Hx].
  Qed.

  Lemma annot_gaann : forall f rs, gaann rset Qr rs (annot_f rmatch rs f).
  Proof.
    apply (forest_ind2 (fun t => forall rs, gaann rset Qr rs (annot_f rmatch rs (kids t)))
                       (fun f => forall rs, gaann rset Qr rs (annot_f rmatch rs f))).
    - intros k IH. exact IH.
    - intros rs. constructor.
    - intros r t k IHt IHk rs. rewrite annot_f_cons.
      destruct (match_row rmatch r rs) as [[mi crs]|] eqn:E; [|apply IHk].
      econstructor; [exact E | rewrite annot_akids; apply IHt | apply IHk].
  Qed.

  Lemma raw_diff_dann rs old new : Forall (dann rs) (raw_diff rmatch rs old new).
  Proof.
    apply Forall_forall. intros d Hd. apply gdann_dann. revert d Hd. apply Forall_forall.
    unfold raw_diff. apply (diff_t_gdann rset Qr Qr_det); [apply annot_gaann|].
    change (akids (annot rmatch rs (T new))) with (annot_f rmatch rs new). apply annot_gaann.
  Qed.
End Annotated.

(* the ACL instance: the rows of a filtered configuration are passed by the ACL, level by level -
   and so are the entries of a diff between two filtered configurations *)
Section AclAnnotated.
  Variable amatch_ : string -> string -> option (list string).
  Variable asrc : string -> string.
  Variable arev : string -> string.
  Variable anorm : string -> string.
  Variable rmatch : string -> string -> option (list string).

  Definition Qa (ars : aset) (row : string) (mi : minfo) (acrs : aset) : Prop :=
    acl_passes amatch_ asrc arev anorm ars row = Some acrs.
  Lemma Qa_det : forall c row (mi mi' : minfo) c1 c2, Qa c row mi c1 -> Qa c row mi' c2 -> c1 = c2.
  Proof. unfold Qa. intros c row mi mi' c1 c2 H1 H2. rewrite H1 in H2. injection H2 as H2. exact H2. Qed.

  Lemma filtered_gaann : forall l ars path res rs,
    apply_acl amatch_ asrc arev anorm ars false false path l = inl res ->
    gaann aset Qa ars (annot_f rmatch rs res).
  Proof.
    apply (forest_ind2 (fun t => forall ars path res rs, apply_acl amatch_ asrc arev anorm ars false false path (kids t) = inl res ->
                                                         gaann aset Qa ars (annot_f rmatch rs res))
                       (fun l => forall ars path res rs, apply_acl amatch_ asrc arev anorm ars false false path l = inl res ->
                                                         gaann aset Qa ars (annot_f rmatch rs res))).
    - intros k IH. exact IH.
    - intros ars path res rs E. rewrite AclProofs.apply_nil in E. injection E as E. subst. constructor.
    - intros r t k IHt IHk ars path res rs E. rewrite AclProofs.apply_cons in E.
      destruct (match_row_to_acl amatch_ asrc arev anorm r ars false) as [|g|m crs] eqn:Em; try discriminate.
      + eapply IHk. exact E.
      + destruct (drops m) eqn:Ed; [eapply IHk; exact E|].
        destruct (apply_acl amatch_ asrc arev anorm crs false false (path ++ [r]) (kids t)) as [c'|] eqn:Ec; [|discriminate].
        destruct (apply_acl amatch_ asrc arev anorm ars false false path k) as [r0|] eqn:El; [|discriminate].
        injection E as E. subst res. rewrite annot_f_cons.
        destruct (match_row rmatch r rs) as [[mi prs]|]; [|eapply IHk; exact El].
        econstructor; [| |eapply IHk; exact El].
        * unfold Qa, acl_passes, P_C02.amatch, acl_match. rewrite Em, Ed. reflexivity.
        * rewrite annot_akids. cbn [kids]. eapply IHt. exact Ec.
  Qed.

  Lemma acl_filter_gaann ars rs f : gaann aset Qa ars (annot_f rmatch rs (acl_filter amatch_ asrc arev anorm ars f)).
  Proof.
    unfold acl_filter. destruct (apply_acl amatch_ asrc arev anorm ars false false [] f) as [res|] eqn:E.
    - eapply filtered_gaann. exact E.
    - constructor.
  Qed.

  (* every entry of the raw diff of two filtered configurations is passed by the ACL, at every depth *)
  Lemma raw_diff_passed ars rs old new :
    Forall (gdann aset Qa ars) (raw_diff rmatch rs (acl_filter amatch_ asrc arev anorm ars old) (acl_filter amatch_ asrc arev anorm ars new)).
  Proof.
    unfold raw_diff. apply (diff_t_gdann aset Qa Qa_det); [apply acl_filter_gaann|].
    change (akids (annot rmatch rs (T (acl_filter amatch_ asrc arev anorm ars new))))
      with (annot_f rmatch rs (acl_filter amatch_ asrc arev anorm ars new)). apply acl_filter_gaann.
  Qed.
End AclAnnotated.

(* ------------------------------------------------------------------------------------ *)
(* 2. the diff after apply_acl_diff, mark_unchanged, strip_unchanged                      *)

Section AclDiff.
  Variable amatch_ : string -> string -> option (list string).
  Variable asrc : string -> string.
  Variable arev : string -> string.
  Variable anorm : string -> string.
  Variable rmatch : string -> string -> option (list string).

  Notation amatch := (amatch amatch_ asrc arev anorm).
  Notation apply_acl_diff_n := (apply_acl_diff_n amatch_ asrc arev anorm).
  Notation apply_acl_diff := (apply_acl_diff amatch_ asrc arev anorm).

  (* passed by the ACL and known to the rulebook at every depth; REMOVED only if the governing
     ACL rule is not a cant_delete rule *)
  Inductive dgood : aset -> rset -> dnode -> Prop :=
  | dgood_intro ars rs o row mi kids m acrs prs :
      amatch row ars = MSome m acrs ->
      drops m = false ->
      match_row rmatch row rs = Some (mi, prs) ->
      (o = Removed -> all_cd m = false) ->
      Forall (dgood acrs prs) kids ->
      dgood ars rs (DN o row mi kids).

  Notation passed := (gdann aset (Qa amatch_ asrc arev anorm)).

  Lemma apply_acl_diff_good : forall d ars rs, dann rmatch rs d -> passed ars d ->
    Forall (dgood ars rs) (apply_acl_diff_n ars d).
  Proof.
    induction d as [o row mi kids IH] using dnode_ind2. intros ars rs H Hp.
    inversion H as [rs' o' row' mi' kids' prs E Hk]; subst.
    inversion Hp as [c' o' row' mi' kids' acrs' Ep Hkp]; subst. cbn [AclPipeline.apply_acl_diff_n].
    change (acl_match amatch_ asrc arev anorm row ars) with (amatch row ars).
    unfold Qa, acl_passes in Ep.
    destruct (amatch row ars) as [|g|m acrs] eqn:Ea; try discriminate.
    destruct (drops m) eqn:Ed; [discriminate|]. injection Ep as Ep. subst acrs'.
    constructor; [|constructor].
    econstructor; [exact Ea | exact Ed | exact E | |].
    - destruct (op_eqb o Removed) eqn:Eo; cbn [andb].
      + destruct (all_cd m) eqn:Ec; [discriminate | reflexivity].
      + intro Ho. subst o. discriminate.
    - apply Forall_forall. intros x Hx. apply in_flat_map in Hx as (y & Hy & Hx).
      rewrite Forall_forall in IH, Hk, Hkp. specialize (IH y Hy acrs prs (Hk y Hy) (Hkp y Hy)).
      rewrite Forall_forall in IH. apply IH. exact Hx.
  Qed.

  Lemma apply_acl_diff_good_all ars rs D :
    Forall (dann rmatch rs) D -> Forall (passed ars) D -> Forall (dgood ars rs) (apply_acl_diff ars D).
  Proof.
    intros H Hp. apply Forall_forall. intros x Hx. unfold AclPipeline.apply_acl_diff in Hx.
    apply in_flat_map in Hx as (y & Hy & Hx). rewrite Forall_forall in H, Hp.
    pose proof (apply_acl_diff_good y ars rs (H y Hy) (Hp y Hy)) as G. rewrite Forall_forall in G. apply G. exact Hx.
  Qed.

  Lemma mark_good : forall d ars rs, dgood ars rs d -> dgood ars rs (mark_unchanged_n d).
  Proof.
    induction d as [o row mi kids IH] using dnode_ind2. intros ars rs H.
    inversion H as [ars' rs' o' row' mi' kids' m acrs prs Ea Ed E Hr Hk]; subst. cbn [mark_unchanged_n].
    destruct (op_eqb o Affected) eqn:Eo; [|exact H].
    apply op_eqb_eq in Eo. subst o.
    econstructor; [exact Ea | exact Ed | exact E | |].
    - intro Ho. destruct (forallb _ _); discriminate.
    - apply Forall_forall. intros x Hx. apply in_map_iff in Hx as (y & Ey & Hy). subst x.
      rewrite Forall_forall in IH, Hk. apply IH; [exact Hy | apply Hk; exact Hy].
  Qed.

  Lemma strip_good : forall d ars rs, dgood ars rs d -> Forall (dgood ars rs) (strip_unchanged_n d).
  Proof.
    induction d as [o row mi kids IH] using dnode_ind2. intros ars rs H.
    inversion H as [ars' rs' o' row' mi' kids' m acrs prs Ea Ed E Hr Hk]; subst. cbn [strip_unchanged_n].
    destruct (op_eqb o Unchanged); constructor; [|constructor].
    econstructor; [exact Ea | exact Ed | exact E | exact Hr |].
    apply Forall_forall. intros x Hx. apply in_flat_map in Hx as (y & Hy & Hx).
    rewrite Forall_forall in IH, Hk. specialize (IH y Hy acrs prs (Hk y Hy)).
    rewrite Forall_forall in IH. apply IH. exact Hx.
  Qed.

  Lemma mark_good_all ars rs D : Forall (dgood ars rs) D -> Forall (dgood ars rs) (mark_unchanged D).
  Proof.
    intros H. apply Forall_forall. intros x Hx. unfold mark_unchanged in Hx.
    apply in_map_iff in Hx as (y & Ey & Hy). subst x. apply mark_good. rewrite Forall_forall in H. apply H. exact Hy.
  Qed.

  Lemma strip_good_all ars rs D : Forall (dgood ars rs) D -> Forall (dgood ars rs) (strip_unchanged D).
  Proof.
    intros H. apply Forall_forall. intros x Hx. unfold strip_unchanged in Hx.
    apply in_flat_map in Hx as (y & Hy & Hx). rewrite Forall_forall in H.
    pose proof (strip_good y ars rs (H y Hy)) as G. rewrite Forall_forall in G. apply G. exact Hx.
  Qed.

  (* the diff handed to make_pre: made from the two filtered configurations *)
  Theorem acl_make_diff_good ars rs old new :
    Forall (dgood ars rs) (acl_make_diff amatch_ asrc arev anorm rmatch ars rs
                             (acl_filter amatch_ asrc arev anorm ars old) (acl_filter amatch_ asrc arev anorm ars new)).
  Proof.
    unfold acl_make_diff. apply mark_good_all. apply apply_acl_diff_good_all; [apply raw_diff_dann | apply raw_diff_passed].
  Qed.

  (* [dgood] in terms of the boolean predicates of the specification *)
  Lemma dgood_diff_covered : forall d ars rs, dgood ars rs d -> diff_covered_n amatch_ asrc arev anorm ars d = true.
  Proof.
    induction d as [o row mi kids IH] using dnode_ind2. intros ars rs H.
    inversion H as [ars' rs' o' row' mi' kids' m acrs prs Ea Ed E Hr Hk]; subst. cbn [diff_covered_n].
    unfold acl_passes. change (P_C02.amatch amatch_ asrc arev anorm row ars) with (amatch row ars). rewrite Ea, Ed. apply forallb_forall. intros x Hx.
    rewrite Forall_forall in IH, Hk. eapply IH; [exact Hx | apply Hk; exact Hx].
  Qed.

  Lemma dgood_diff_covered_all ars rs D : Forall (dgood ars rs) D -> diff_covered amatch_ asrc arev anorm ars D = true.
  Proof.
    intros H. unfold diff_covered. apply forallb_forall. intros x Hx. rewrite Forall_forall in H.
    eapply dgood_diff_covered. apply H. exact Hx.
  Qed.
End AclDiff.

(* ------------------------------------------------------------------------------------ *)
(* 3. make_pre and make_patch                                                             *)

Lemma make_pre_n_eq n :
  make_pre_n n = (mi_raw (d_mi n), mi_attrs (d_mi n), mi_key (d_mi n), (d_op n, d_row n, make_pre (d_kids n))).
Proof. destruct n as [o row m kids]. reflexivity. Qed.

Definition pre_step (gs : list pgroup) (e : string * attrs * list string * pitem) : list pgroup :=
  let '(raw, a, key, it) := e in ins_group raw a key it gs.

Lemma make_pre_eq D : make_pre D = Pre (fold_left pre_step (map make_pre_n D) []).
Proof. reflexivity. Qed.

Lemma ins_key_spec key it : forall ks k its, In (k, its) (ins_key key it ks) -> forall x, In x its ->
  (x = it /\ k = key) \/ (exists its0, In (k, its0) ks /\ In x its0).
Proof.
  induction ks as [|[k0 its0] ks IH]; intros k its H x Hx; cbn [ins_key] in H.
  - destruct H as [H|[]]. injection H as E1 E2. subst. destruct Hx as [Hx|[]]. left. split; congruence.
  - destruct (list_str_eqb k0 key) eqn:E.
    + destruct H as [H|H].
      * injection H as E1 E2. subst. apply in_app_iff in Hx as [Hx|[Hx|[]]].
        -- right. exists its0. split; [now left | exact Hx].
        -- left. split; [congruence | apply list_str_eqb_eq; exact E].
      * right. exists its. split; [now right | exact Hx].
    + destruct H as [H|H].
      * injection H as E1 E2. subst. right. exists its. split; [now left | exact Hx].
      * destruct (IH _ _ H x Hx) as [G|(i0 & G1 & G2)]; [left; exact G|].
        right. exists i0. split; [now right | exact G2].
Qed.

Lemma ins_group_spec raw a key it : forall gs r a' ks', In (r, a', ks') (ins_group raw a key it gs) ->
  ((r = raw /\ a' = a) \/ (exists ks0, In (r, a', ks0) gs)) /\
  (forall k its, In (k, its) ks' -> forall x, In x its ->
     (x = it /\ k = key /\ r = raw) \/ (exists ks0 its0, In (r, a', ks0) gs /\ In (k, its0) ks0 /\ In x its0)).
Proof.
  induction gs as [|[[r0 a0] ks0] gs IH]; intros r a' ks' H; cbn [ins_group] in H.
  - destruct H as [H|[]]. injection H as E1 E2 E3. subst. split; [left; split; reflexivity|].
    intros k its Hk x Hx. destruct Hk as [Hk|[]]. injection Hk as E1 E2. subst.
    destruct Hx as [Hx|[]]. left. repeat split; congruence.
  - destruct (String.eqb r0 raw) eqn:E.
    + destruct H as [H|H].
      * injection H as E1 E2 E3. subst. apply String.eqb_eq in E. subst. split.
        -- right. exists ks0. now left.
        -- intros k its Hk x Hx. destruct (ins_key_spec _ _ _ _ _ Hk x Hx) as [[G1 G2]|(i0 & G1 & G2)].
           ++ left. repeat split; assumption.
           ++ right. exists ks0, i0. split; [now left | split; assumption].
      * split.
        -- right. exists ks'. now right.
        -- intros k its Hk x Hx. right. exists ks', its. split; [now right | split; assumption].
    + destruct H as [H|H].
      * injection H as E1 E2 E3. subst. split.
        -- right. exists ks'. now left.
        -- intros k its Hk x Hx. right. exists ks', its. split; [now left | split; assumption].
      * destruct (IH _ _ _ H) as [G1 G2]. split.
        -- destruct G1 as [G1|(k1 & G1)]; [left; exact G1 | right; exists k1; now right].
        -- intros k its Hk x Hx. destruct (G2 _ _ Hk x Hx) as [G|(k1 & i1 & G3 & G4 & G5)]; [left; exact G|].
           right. exists k1, i1. split; [now right | split; assumption].
Qed.

(* every group of the pre comes from entries of the diff level *)
Definition GI (D : list dnode) (gs : list pgroup) : Prop :=
  forall raw a ks, In (raw, a, ks) gs ->
    (exists n0, In n0 D /\ mi_raw (d_mi n0) = raw /\ mi_attrs (d_mi n0) = a) /\
    (forall key its, In (key, its) ks -> forall x, In x its ->
       exists n, In n D /\ mi_raw (d_mi n) = raw /\ mi_key (d_mi n) = key /\
                 x = (d_op n, d_row n, make_pre (d_kids n))).

Lemma GI_step D gs n : GI D gs -> In n D -> GI D (pre_step gs (make_pre_n n)).
Proof.
  intros HG Hn raw a ks H. rewrite make_pre_n_eq in H. cbn [pre_step] in H.
  destruct (ins_group_spec _ _ _ _ _ _ _ _ H) as [G1 G2]. split.
  - destruct G1 as [[E1 E2]|(k0 & G1)].
    + subst. exists n. repeat split. exact Hn.
    + destruct (HG _ _ _ G1) as [G _]. exact G.
  - intros key its Hk x Hx. destruct (G2 _ _ Hk x Hx) as [(E1 & E2 & E3)|(k0 & i0 & G3 & G4 & G5)].
    + subst. exists n. repeat split. exact Hn.
    + destruct (HG _ _ _ G3) as [_ G]. apply (G _ _ G4 _ G5).
Qed.

Lemma GI_fold D : forall D' gs, incl D' D -> GI D gs -> GI D (fold_left pre_step (map make_pre_n D') gs).
Proof.
  induction D' as [|n D' IH]; intros gs Hi HG; [exact HG|].
  cbn [map fold_left]. apply IH.
  - intros x Hx. apply Hi. now right.
  - apply GI_step; [exact HG | apply Hi; now left].
Qed.

Lemma GI_make_pre D : GI D (pgroups (make_pre D)).
Proof.
  rewrite make_pre_eq. cbn [pgroups]. apply GI_fold; [apply incl_refl|].
  intros raw a ks [].
Qed.

(* ---------- the logic functions ---------- *)
Section LogicSpec.
  Variable rreverse : string -> list string -> string.
  Variable raw : string.
  Variable key : list string.

  Definition c_op (c : citem) : op := fst (fst (fst c)).
  Definition c_row (c : citem) : string := snd (fst (fst c)).
  Definition c_ck (c : citem) : ckpre := snd (fst c).
  Definition c_ne (c : citem) : bool := snd c.

  Definition is_direct_of (its : list citem) (y : bool * string * option (ckpre * bool)) : Prop :=
    exists c, In c its /\ y = (true, c_row c, Some (c_ck c, c_ne c)).
  Definition is_undo (y : bool * string * option (ckpre * bool)) : Prop := y = (false, rreverse raw key, None).

  Lemma bucket_In o its c : In c (bucket o its) -> In c its /\ c_op c = o.
  Proof.
    unfold bucket. intro H. apply filter_In in H as [H1 H2]. split; [exact H1|].
    apply op_eqb_eq in H2. exact H2.
  Qed.

  Lemma default_b_spec A R F M ys : default_b rreverse raw key A R F M = Some ys ->
    forall y, In y ys -> is_direct_of (A ++ F ++ M) y \/ (is_undo y /\ R <> []).
  Proof.
    unfold default_b. destruct (_ || _ || _ || _); [discriminate|].
    destruct F as [|[[[o row] ch] ne] F'].
    - destruct A as [|[[[o row] ch] ne] A'].
      + destruct M as [|[[[o row] ch] ne] M'].
        * destruct R as [|r R']; intros E; injection E as E; subst ys; intros y Hy; [destruct Hy|].
          destruct Hy as [Hy|[]]. subst y. right. split; [reflexivity | discriminate].
        * intros E. injection E as E. subst ys. intros y [Hy|[]]. subst y. left.
          exists (o, row, ch, ne). split; [now left | reflexivity].
      + intros E. injection E as E. subst ys. intros y [Hy|[]]. subst y. left.
        exists (o, row, ch, ne). split; [now left | reflexivity].
    - intros E. injection E as E. subst ys. intros y [Hy|[]]. subst y. left.
      exists (o, row, ch, ne). split; [apply in_or_app; right; now left | reflexivity].
  Qed.

  (* what a logic may yield: a row of the slot, or the undo of the slot if something of the slot is
     REMOVED (or, for %ordered, MOVED) *)
  Lemma run_logic_spec L its ys : run_logic rreverse raw key L its = Some ys ->
    forall y, In y ys ->
      is_direct_of its y \/
      (is_undo y /\ ((exists c, In c its /\ c_op c = Removed) \/ (L = LOrdered /\ exists c, In c its /\ c_op c = Moved))).
  Proof.
    assert (Hb : forall o c, In c (bucket o its) -> In c its) by (intros o c Hc; apply bucket_In in Hc; tauto).
    assert (Hne : forall o, bucket o its <> [] -> exists c, In c its /\ c_op c = o).
    { intros o. destruct (bucket o its) as [|c l] eqn:E; [congruence|]. intros _. exists c.
      apply bucket_In. rewrite E. now left. }
    assert (Hdef : forall A R F M ys', (forall c, In c A -> In c its) -> (forall c, In c F -> In c its) ->
                     (forall c, In c M -> In c its) -> (R <> [] -> exists c, In c its /\ c_op c = Removed) ->
                     default_b rreverse raw key A R F M = Some ys' ->
                     forall y, In y ys' -> is_direct_of its y \/ (is_undo y /\ (exists c, In c its /\ c_op c = Removed))).
    { intros A R F M ys' HA HF HM HR E y Hy. destruct (default_b_spec _ _ _ _ _ E y Hy) as [(c & Hc & Ec)|[G1 G2]].
      - left. exists c. split; [|exact Ec].
        apply in_app_iff in Hc as [Hc|Hc]; [apply HA; exact Hc|].
        apply in_app_iff in Hc as [Hc|Hc]; [apply HF | apply HM]; exact Hc.
      - right. split; [exact G1 | apply HR; exact G2]. }
    assert (Hfin : forall y, is_direct_of its y \/ (is_undo y /\ (exists c, In c its /\ c_op c = Removed)) ->
                   is_direct_of its y \/
                   (is_undo y /\ ((exists c, In c its /\ c_op c = Removed) \/ (L = LOrdered /\ exists c, In c its /\ c_op c = Moved)))).
    { intros y [G|[G1 G2]]; [left; exact G | right; split; [exact G1 | left; exact G2]]. }
    unfold run_logic. cbv zeta.
    pose proof (Hb Added) as HA. pose proof (Hb Removed) as HR. pose proof (Hb Affected) as HF. pose proof (Hb Moved) as HM.
    pose proof (Hne Removed) as HR'. pose proof (Hne Moved) as HM'.
    revert HA HR HF HM HR' HM'.
    generalize (bucket Added its) as A, (bucket Removed its) as R, (bucket Affected its) as F, (bucket Moved its) as M.
    intros A R F M HA HR HF HM HR' HM'.
    assert (Hnil : forall c : citem, In c [] -> In c its) by (intros c []).
    destruct L.
    - intros E y Hy. apply Hfin. eapply Hdef; [exact HA | exact HF | exact HM | exact HR' | exact E | exact Hy].
    - destruct (default_b rreverse raw key A R F M) as [y0|] eqn:E; [|discriminate].
      intros E2. injection E2 as E2. subst ys. intros y Hy.
      destruct M as [|c l].
      + apply Hfin. eapply Hdef; [exact HA | exact HF | exact HM | exact HR' | exact E | exact Hy].
      + destruct Hy as [Hy|Hy].
        * subst y. right. split; [reflexivity|]. right. split; [reflexivity|]. apply HM'. discriminate.
        * apply Hfin. eapply Hdef; [exact HA | exact HF | exact HM | exact HR' | exact E | exact Hy].
    - destruct R as [|c l].
      + intros E y Hy. apply Hfin. eapply Hdef; [exact HA | exact HF | exact HM | exact HR' | exact E | exact Hy].
      + intros E. injection E as E. subst ys. intros y [].
    - destruct R as [|[[[o row] ch] ne] l].
      + intros E y Hy. apply Hfin. eapply Hdef; [exact HA | exact HF | exact HM | exact HR' | exact E | exact Hy].
      + destruct ne.
        * intros E y Hy. apply Hfin. eapply Hdef; [exact HA | | exact HM | | exact E | exact Hy].
          -- intros c Hc. apply in_app_iff in Hc as [Hc|Hc]; [apply HF | apply HR]; exact Hc.
          -- intro Hx; exfalso; apply Hx; reflexivity.
        * intros E. injection E as E. subst ys. intros y [].
    - destruct A as [|ca la].
      + intros E y Hy. apply Hfin. eapply Hdef; [exact HA | exact HF | exact HM | exact HR' | exact E | exact Hy].
      + destruct R as [|cr lr].
        * intros E y Hy. apply Hfin. eapply Hdef; [exact HA | exact HF | exact HM | exact HR' | exact E | exact Hy].
        * intros E. injection E as E. subst ys. intros y [].
    - destruct A as [|ca la].
      + intros E y Hy. apply Hfin. eapply Hdef; [exact HA | exact HF | exact HM | exact HR' | exact E | exact Hy].
      + destruct R as [|cr lr].
        * intros E y Hy. apply Hfin. eapply Hdef; [exact HA | exact HF | exact HM | exact HR' | exact E | exact Hy].
        * destruct F as [|cf lf].
          -- destruct (default_b rreverse raw key [] (cr :: lr) [] []) as [y1|] eqn:E1; [|discriminate].
             destruct (default_b rreverse raw key (ca :: la) [] [] []) as [y2|] eqn:E2; [|discriminate].
             intros E. injection E as E. subst ys. intros y Hy. apply Hfin. apply in_app_iff in Hy as [Hy|Hy].
             ++ eapply Hdef; [exact Hnil | exact Hnil | exact Hnil | exact HR' | exact E1 | exact Hy].
             ++ eapply Hdef; [exact HA | exact Hnil | exact Hnil | intro Hx; exfalso; apply Hx; reflexivity | exact E2 | exact Hy].
          -- intros E y Hy. apply Hfin. eapply Hdef; [exact HA | exact HF | exact HM | exact HR' | exact E | exact Hy].
  Qed.

  Definition not_unchanged (c : citem) : bool := negb (op_eqb (c_op c) Unchanged).

  Lemma filter_absorb {A} (p q : A -> bool) : (forall x, q x = true -> p x = true) ->
    forall l, filter q (filter p l) = filter q l.
  Proof.
    intros H. induction l as [|x l IH]; [reflexivity|]. cbn [filter].
    destruct (p x) eqn:Ep; cbn [filter].
    - rewrite IH. reflexivity.
    - destruct (q x) eqn:Eq; [rewrite (H x Eq) in Ep; discriminate | exact IH].
  Qed.

  Lemma bucket_filter o its : o <> Unchanged -> bucket o (filter not_unchanged its) = bucket o its.
  Proof.
    intros Ho. unfold bucket. apply filter_absorb. intros c Hc. apply op_eqb_eq in Hc.
    unfold not_unchanged, c_op. rewrite Hc. destruct o; try reflexivity. congruence.
  Qed.

  (* the logic functions never look at UNCHANGED items *)
  Lemma run_logic_filter L its : run_logic rreverse raw key L its = run_logic rreverse raw key L (filter not_unchanged its).
  Proof.
    unfold run_logic. cbv zeta. rewrite !bucket_filter by discriminate. reflexivity.
  Qed.
End LogicSpec.

(* ---------- make_patch ---------- *)
Lemma fold_opt_inv {A B} (f : option (list B) -> A -> option (list B)) (P : B -> Prop) :
  (forall a, f None a = None) ->
  forall l, (forall a out out', In a l -> Forall P out -> f (Some out) a = Some out' -> Forall P out') ->
  forall out out', Forall P out -> fold_left f l (Some out) = Some out' -> Forall P out'.
Proof.
  intros Hnone. induction l as [|a l IH]; intros Hstep out out' Hout E; cbn [fold_left] in E.
  - injection E as E. subst. exact Hout.
  - destruct (f (Some out) a) as [o1|] eqn:E1.
    + eapply IH; [|eapply Hstep; [now left | exact Hout | exact E1] | exact E].
      intros a0 o o' Ha0. apply Hstep. now right.
    + exfalso. clear -E Hnone. induction l as [|b l IHl]; cbn [fold_left] in E; [discriminate|].
      rewrite Hnone in E. apply IHl. exact E.
Qed.

Section PatchRel.
  Variable rmatch : string -> string -> option (list string).
  Variable rsrc : string -> string.
  Variable rrev : string -> string.
  Variable block_exit : string.
  Variable rreverse : string -> list string -> string.

  Notation make_patch := (make_patch rmatch rsrc rrev block_exit rreverse).
  Notation patch_level := (patch_level rmatch rsrc rrev block_exit rreverse).

  (* what an item of the patch is, relative to the diff level D it was made from *)
  Fixpoint pt_rel (t : ptree) (D : list dnode) {struct t} : Prop :=
    match t with
    | PT items =>
      (fix go (l : list item) : Prop :=
         match l with
         | [] => True
         | (row, child, _) :: l' =>
           ((exists n, In n D /\ d_row n = row /\ d_op n <> Unchanged /\
                       match child with Some ct => pt_rel ct (d_kids n) | None => True end) \/
            (child = None /\ exists n n0, In n D /\ In n0 D /\ mi_raw (d_mi n0) = mi_raw (d_mi n) /\
                row = rreverse (a_pat (mi_attrs (d_mi n0))) (mi_key (d_mi n)) /\
                (d_op n = Removed \/ (d_op n = Moved /\ a_logic (mi_attrs (d_mi n0)) = LOrdered))) \/
            (child = None /\ row = "commit" /\ exists n0, In n0 D /\ a_force_commit (mi_attrs (d_mi n0)) = true))
           /\ go l'
         end) items
    end.

  Definition item_rel (D : list dnode) (it : item) : Prop :=
    let '(row, child, _) := it in
    (exists n, In n D /\ d_row n = row /\ d_op n <> Unchanged /\
               match child with Some ct => pt_rel ct (d_kids n) | None => True end) \/
    (child = None /\ exists n n0, In n D /\ In n0 D /\ mi_raw (d_mi n0) = mi_raw (d_mi n) /\
        row = rreverse (a_pat (mi_attrs (d_mi n0))) (mi_key (d_mi n)) /\
        (d_op n = Removed \/ (d_op n = Moved /\ a_logic (mi_attrs (d_mi n0)) = LOrdered))) \/
    (child = None /\ row = "commit" /\ exists n0, In n0 D /\ a_force_commit (mi_attrs (d_mi n0)) = true).

  Lemma pt_rel_items items D : pt_rel (PT items) D <-> Forall (item_rel D) items.
  Proof.
    cbn [pt_rel]. induction items as [|[[row child] sk] l IH].
    - split; [constructor | trivial].
    - split.
      + intros [H1 H2]. constructor; [exact H1 | apply IH; exact H2].
      + intros H. inversion H as [|x y H1 H2]; subst. split; [exact H1 | apply IH; exact H2].
  Qed.

  (* patch_level with its local functions named *)
  Definition pl_inner (raw : string) (a : attrs) (ordering : list orule) (acc2 : option (list item))
             (y : bool * string * option (ckpre * bool)) : option (list item) :=
    let '(direct, row, sub) := y in
    match acc2 with
    | None => None
    | Some out2 =>
      let '(order, odirect, ord') := get_order rmatch rsrc rrev block_exit ordering row direct (Some "patch") in
      let children :=
          match sub with
          | Some (ch, true) => ch ord'
          | _ => POk (PT [])
          end in
      match children with
      | PErr => None
      | POk ct =>
        let sk : skey := (match order with ZFin z => ZFin (if odirect then z else Z.opp z) | ZInf => ZInf end,
                          raw, odirect) in
        let leaf := (match pitems ct with [] => negb (a_parent a) | _ => false end) || negb direct in
        let it := if leaf then (row, None, sk) else (row, Some ct, sk) in
        Some (out2 ++ it :: (if a_force_commit a then [("commit", None, sk)] else []))
      end
    end.

  Definition pl_step (ordering : list orule) (acc : option (list item))
             (e : string * attrs * list string * list citem) : option (list item) :=
    let '(raw, a, key, its) := e in
    match acc with
    | None => None
    | Some out =>
      match run_logic rreverse (a_pat a) key (a_logic a) its with
      | None => None
      | Some ys => fold_left (pl_inner raw a ordering) ys (Some out)
      end
    end.

  Definition pl_flat (groups : list (string * attrs * list (list string * list citem))) :=
    flat_map (fun g : string * attrs * list (list string * list citem) =>
                let '(raw, a, ks) := g in map (fun k => (raw, a, fst k, snd k)) ks) groups.

  Lemma patch_level_eq groups ordering :
    patch_level groups ordering =
    match fold_left (pl_step ordering) (pl_flat groups) (Some []) with
    | None => PErr
    | Some out => POk (PT (sort_items out))
    end.
  Proof. reflexivity. Qed.

  (* a citem stands for an entry of D *)
  Definition cit_of (D : list dnode) (raw : string) (key : list string) (c : citem) : Prop :=
    exists n, In n D /\ mi_raw (d_mi n) = raw /\ mi_key (d_mi n) = key /\
              c_op c = d_op n /\ c_row c = d_row n /\ c_ck c = make_patch (make_pre (d_kids n)).

  Definition KIDS (D : list dnode) : Prop :=
    forall n, In n D -> forall ord t, make_patch (make_pre (d_kids n)) ord = POk t -> pt_rel t (d_kids n).

  Lemma pl_inner_rel D raw a key ordering y :
    KIDS D ->
    (exists n0, In n0 D /\ mi_raw (d_mi n0) = raw /\ mi_attrs (d_mi n0) = a) ->
    ((exists c, cit_of D raw key c /\ c_op c <> Unchanged /\ y = (true, c_row c, Some (c_ck c, c_ne c))) \/
     (y = (false, rreverse (a_pat a) key, None) /\
      exists n, In n D /\ mi_raw (d_mi n) = raw /\ mi_key (d_mi n) = key /\
                (d_op n = Removed \/ (d_op n = Moved /\ a_logic a = LOrdered)))) ->
    forall out out', Forall (item_rel D) out -> pl_inner raw a ordering (Some out) y = Some out' ->
                     Forall (item_rel D) out'.
  Proof.
    intros HK (n0 & Hn0 & Er0 & Ea0) Hy out out' Hout E.
    assert (Hcommit : forall sk, Forall (item_rel D) (if a_force_commit a then [("commit", None, sk)] else [])).
    { intro sk. destruct (a_force_commit a) eqn:Ef; constructor; [|constructor].
      right. right. split; [reflexivity|]. split; [reflexivity|]. exists n0. split; [exact Hn0|]. rewrite Ea0. exact Ef. }
    destruct y as [[direct row] sub]. cbn [pl_inner] in E.
    destruct (get_order rmatch rsrc rrev block_exit ordering row direct (Some "patch")) as [[order odirect] ord'].
    destruct Hy as [(c & (n & Hn & Er & Ek & Eo & Erow & Eck) & Hnu & Ey)|(Ey & n & Hn & Er & Ek & Hop)].
    - injection Ey as E1 E2 E3. subst direct row sub. rewrite Eo in Hnu.
      assert (Hdir : forall ct sk, pt_rel ct (d_kids n) -> item_rel D (c_row c, Some ct, sk)).
      { intros ct sk Hct. left. exists n. split; [exact Hn|]. split; [symmetry; exact Erow|]. split; [exact Hnu | exact Hct]. }
      assert (Hleaf : forall sk, item_rel D (c_row c, None, sk)).
      { intros sk. left. exists n. split; [exact Hn|]. split; [symmetry; exact Erow|]. split; [exact Hnu | exact I]. }
      destruct (c_ne c).
      + destruct (c_ck c ord') as [ct|] eqn:Ec; [|discriminate].
        injection E as E. subst out'. apply Forall_app. split; [exact Hout|].
        constructor; [|apply Hcommit].
        rewrite Eck in Ec. specialize (HK n Hn ord' ct Ec).
        destruct (_ || _); [apply Hleaf | apply Hdir; exact HK].
      + injection E as E. subst out'. apply Forall_app. split; [exact Hout|].
        constructor; [|apply Hcommit].
        destruct (_ || _); [apply Hleaf | apply Hdir; cbn; exact I].
    - injection Ey as E1 E2 E3. subst direct row sub.
      injection E as E. subst out'. apply Forall_app. split; [exact Hout|].
      constructor; [|apply Hcommit].
      rewrite orb_true_r. right. left. split; [reflexivity|]. exists n, n0.
      split; [exact Hn|]. split; [exact Hn0|]. split; [congruence|]. split; [congruence|].
      destruct Hop as [Hop|[Hop1 Hop2]]; [left; exact Hop | right; split; [exact Hop1 | congruence]].
  Qed.

  Lemma pl_inner_none raw a ordering y : pl_inner raw a ordering None y = None.
  Proof. destruct y as [[d r] s]. reflexivity. Qed.

  Lemma pl_step_none ordering e : pl_step ordering None e = None.
  Proof. destruct e as [[[r a] k] i]. reflexivity. Qed.

  Lemma pl_step_rel D ordering raw a key cits :
    KIDS D ->
    (exists n0, In n0 D /\ mi_raw (d_mi n0) = raw /\ mi_attrs (d_mi n0) = a) ->
    (forall c, In c cits -> cit_of D raw key c) ->
    forall out out', Forall (item_rel D) out -> pl_step ordering (Some out) (raw, a, key, cits) = Some out' ->
                     Forall (item_rel D) out'.
  Proof.
    intros HK Hn0 Hc out out' Hout E. cbn [pl_step] in E.
    destruct (run_logic rreverse (a_pat a) key (a_logic a) cits) as [ys|] eqn:El; [|discriminate].
    eapply (fold_opt_inv (pl_inner raw a ordering) (item_rel D) (pl_inner_none raw a ordering) ys); [|exact Hout|exact E].
    intros y o o' Hy Ho Eo. eapply pl_inner_rel; [exact HK | exact Hn0 | | exact Ho | exact Eo].
    rewrite run_logic_filter in El.
    destruct (run_logic_spec _ _ _ _ _ _ El y Hy) as [(c & Hcin & Ey)|[Ey Hex]].
    - apply filter_In in Hcin as [Hcin Hnu]. left. exists c. split; [apply Hc; exact Hcin|]. split; [|exact Ey].
      unfold not_unchanged in Hnu. apply negb_true_iff in Hnu. intro Eu. rewrite Eu in Hnu. discriminate.
    - right. split; [exact Ey|].
      destruct Hex as [(c & Hcin & Eo')|(EL & c & Hcin & Eo')]; apply filter_In in Hcin as [Hcin _];
        destruct (Hc c Hcin) as (n & Hn & Er & Ek & Eop & _);
        exists n; (split; [exact Hn|]); (split; [exact Er|]); (split; [exact Ek|]).
      + left. congruence.
      + right. split; congruence.
  Qed.

  (* the groups handed to patch_level by make_patch *)
  Definition cit_map (it : pitem) : citem :=
    let '(o, row, ch) := it in (o, row, make_patch ch, match pgroups ch with [] => false | _ => true end).
  Definition grp_map (g : pgroup) : string * attrs * list (list string * list citem) :=
    let '(raw, a, ks) := g in (raw, a, map (fun k : list string * list pitem => (fst k, map cit_map (snd k))) ks).

  Lemma make_patch_eq groups : make_patch (Pre groups) = patch_level (map grp_map groups).
  Proof. reflexivity. Qed.

  Theorem make_patch_level_rel D : KIDS D -> forall ord t, make_patch (make_pre D) ord = POk t -> pt_rel t D.
  Proof.
    intros HK ord t E. pose proof (GI_make_pre D) as HG.
    destruct (make_pre D) as [groups]. cbn [pgroups] in HG.
    rewrite make_patch_eq, patch_level_eq in E.
    destruct (fold_left (pl_step ord) (pl_flat (map grp_map groups)) (Some [])) as [out|] eqn:Ef; [|discriminate].
    injection E as E. subst t. apply pt_rel_items.
    apply sort_Forall.
    eapply (fold_opt_inv (pl_step ord) (item_rel D) (pl_step_none ord)); [| constructor | exact Ef].
    intros e o o' He Ho Eo. destruct e as [[[raw a] key] cits].
    unfold pl_flat in He. apply in_flat_map in He as (g & Hg & He).
    apply in_map_iff in Hg as (g0 & Eg & Hg0). subst g. destruct g0 as [[raw0 a0] ks0]. cbn [grp_map] in He.
    apply in_map_iff in He as (k & Ek & Hk). injection Ek as E1 E2 E3 E4. subst raw0 a0.
    apply in_map_iff in Hk as (k0 & Ek0 & Hk0). subst k. cbn [fst snd] in E3, E4. subst key cits.
    destruct k0 as [key its]. cbn [fst snd] in *.
    destruct (HG _ _ _ Hg0) as [G1 G2].
    eapply pl_step_rel; [exact HK | exact G1 | | exact Ho | exact Eo].
    intros c Hc. apply in_map_iff in Hc as (x & Ex & Hx). subst c.
    destruct (G2 _ _ Hk0 x Hx) as (n & Hn & Er & Ekey & Ex). subst x.
    exists n. repeat split; assumption.
  Qed.

  Theorem make_patch_rel : forall D ord t, make_patch (make_pre D) ord = POk t -> pt_rel t D.
  Proof.
    assert (H : forall n, (fun n => forall ord t, make_patch (make_pre (d_kids n)) ord = POk t -> pt_rel t (d_kids n)) n).
    { induction n as [o row m kids IH] using dnode_ind2. cbn [d_kids].
      apply make_patch_level_rel. intros n Hn. rewrite Forall_forall in IH. apply IH. exact Hn. }
    intros D. apply make_patch_level_rel. intros n _. apply H.
  Qed.
End PatchRel.

(* ------------------------------------------------------------------------------------ *)
(* 4. command paths                                                                       *)

Lemma path_stack_incl : forall s path acc p,
  In p (path_stack s path acc) -> In p acc \/ In p (raw_paths s path).
Proof.
  induction s as [|e s IH]; intros path acc p H; cbn [path_stack raw_paths] in *; [left; exact H|].
  destruct e as [x| |].
  - destruct (existsb (list_str_eqb (removelast path ++ [x])) acc).
    + destruct (IH _ _ _ H) as [G|G]; [left; exact G | right; right; exact G].
    + destruct (IH _ _ _ H) as [G|G]; [|right; right; exact G].
      apply in_app_iff in G as [G|[G|[]]]; [left; exact G | right; left; exact G].
  - apply IH. exact H.
  - apply IH. exact H.
Qed.

Lemma cmd_paths_rpaths f t p : is_block_family f = true -> In p (cmd_paths f t) -> In p (rpaths f "" t).
Proof.
  intros Hf H. rewrite <- raw_paths_top.
  assert (E : cmd_paths f t = path_stack (blocks f "" t) [] []) by (destruct f; try reflexivity; discriminate).
  rewrite E in H. destruct (path_stack_incl _ _ _ _ H) as [[]|G]. exact G.
Qed.

Lemma exit_words f parent row next e : In (Row e) (exit_stmt f parent row next) -> In e (family_exits f).
Proof.
  assert (W : forall x l, In (Row e) (wrap x) -> In x l \/ x = e -> In e (x :: l) \/ In e l).
  { intros x l [H|[H|[H|[]]]] _; try discriminate. injection H as H. left. left. exact H. }
  destruct f; cbn [exit_stmt family_exits]; unfold wrap;
    repeat (match goal with |- context [if ?b then _ else _] => destruct b end);
    cbn [In]; intros H; repeat (destruct H as [H|H]; try discriminate; try (injection H as H; subst; auto 10)); try contradiction.
Qed.

Section Paths.
  Variable amatch_ : string -> string -> option (list string).
  Variable asrc : string -> string.
  Variable arev : string -> string.
  Variable anorm : string -> string.
  Variable rmatch : string -> string -> option (list string).
  Variable rreverse : string -> list string -> string.
  Variable is_exit : string -> bool.
  Variable f : family.
  Hypothesis Hexit : forall e, In e (family_exits f) -> is_exit e = true.

  Notation amatch := (amatch amatch_ asrc arev anorm).
  Notation dgood := (dgood amatch_ asrc arev anorm rmatch).
  Notation path_covered := (path_covered amatch_ asrc arev anorm rmatch rreverse is_exit).
  Notation cmd_covered := (cmd_covered amatch_ asrc arev anorm rmatch rreverse is_exit).
  Notation negation_of_entry := (negation_of_entry amatch_ asrc arev anorm rmatch rreverse).

  Lemma existsb_incl {A} (p : A -> bool) l l' : incl l l' -> existsb p l = true -> existsb p l' = true.
  Proof.
    intros Hi H. apply existsb_exists in H as (x & Hx & Hp). apply existsb_exists. exists x. split; [apply Hi; exact Hx | exact Hp].
  Qed.

  Lemma dsub_incl c D D' : incl D D' -> incl (dsub c D) (dsub c D').
  Proof.
    intros Hi x Hx. unfold dsub in *. apply in_flat_map in Hx as (n & Hn & Hx). apply in_flat_map.
    exists n. split; [|exact Hx]. apply filter_In in Hn as [Hn1 Hn2]. apply filter_In. split; [apply Hi; exact Hn1 | exact Hn2].
  Qed.

  Lemma negation_incl ars rs D D' c : incl D D' -> negation_of_entry ars rs D c = true -> negation_of_entry ars rs D' c = true.
  Proof.
    intros Hi H. unfold P_C02.negation_of_entry in *. apply existsb_exists in H as (n & Hn & H).
    apply existsb_exists. exists n. split; [apply Hi; exact Hn|].
    destruct (P_C02.amatch amatch_ asrc arev anorm (d_row n) ars) as [|g|m crs]; try discriminate.
    destruct (node_slot rmatch rs n) as [s|]; [|discriminate].
    eapply existsb_incl; [exact Hi | exact H].
  Qed.

  Lemma cmd_covered_incl ars rs D D' c : incl D D' -> cmd_covered ars rs D c = true -> cmd_covered ars rs D' c = true.
  Proof.
    intros Hi H. unfold P_C02.cmd_covered in *.
    apply orb_true_iff in H as [H|H]; [apply orb_true_iff in H as [H|H]|].
    - rewrite H. reflexivity.
    - rewrite (negation_incl _ _ _ _ _ Hi H). rewrite orb_true_r. reflexivity.
    - unfold commit_ok in *. apply andb_true_iff in H as [H1 H2]. rewrite H1, (existsb_incl _ _ _ Hi H2).
      rewrite !orb_true_r. reflexivity.
  Qed.

  Lemma path_covered_cons2 ars rs D c c2 rest :
    path_covered ars rs D (c :: c2 :: rest) =
    match acl_passes amatch_ asrc arev anorm ars c, match_row rmatch c rs with
    | Some acrs, Some (_, prs) => path_covered acrs prs (dsub c D) (c2 :: rest)
    | _, _ => false
    end.
  Proof. reflexivity. Qed.

  Lemma path_covered_incl : forall p ars rs D D', incl D D' -> path_covered ars rs D p = true -> path_covered ars rs D' p = true.
  Proof.
    induction p as [|c rest IH]; intros ars rs D D' Hi H; [reflexivity|].
    cbn [P_C02.path_covered] in *. destruct rest as [|c2 rest'].
    - eapply cmd_covered_incl; [exact Hi | exact H].
    - destruct (acl_passes amatch_ asrc arev anorm ars c) as [acrs|]; [|discriminate].
      destruct (match_row rmatch c rs) as [[mi prs]|]; [|discriminate].
      eapply IH; [apply dsub_incl; exact Hi | exact H].
  Qed.

  Lemma dgood_facts ars rs n : dgood ars rs n ->
    exists m acrs prs, amatch (d_row n) ars = MSome m acrs /\ match_row rmatch (d_row n) rs = Some (d_mi n, prs) /\
                       (d_op n = Removed -> all_cd m = false) /\ Forall (dgood acrs prs) (d_kids n) /\ drops m = false.
  Proof.
    intros H. inversion H as [ars' rs' o row mi kids m acrs prs Ea Ed E Hr Hk]; subst. cbn [d_row d_mi d_op d_kids].
    exists m, acrs, prs. repeat split; assumption.
  Qed.

  Lemma rpaths_nonempty : forall t parent p, In p (rpaths f parent t) -> p <> [].
  Proof.
    induction t as [items IH] using ptree_ind2. intros parent p H. rewrite rpaths_unfold in H.
    revert H. induction IH as [|[[row child] sk] l Hit Hl IHl]; cbn [rpaths_items]; intros H; [destruct H|].
    destruct H as [H|H]; [subst p; discriminate|].
    apply in_app_iff in H as [H|H]; [|apply IHl; exact H].
    destruct child as [ct|]; [|destruct H].
    apply in_app_iff in H as [H|H].
    - apply in_map_iff in H as (q & Eq & _). subst p. discriminate.
    - apply in_map_iff in H as (q & Eq & _). subst p. discriminate.
  Qed.

  Lemma exit_wrapped_in es e : In e (exit_wrapped es) -> In (Row e) es.
  Proof.
    unfold exit_wrapped. destruct es as [|[x| |] es]; try (intros []).
    destruct es as [|[x| |] es]; try (intros []). destruct es as [|[y| |] es]; try (intros []).
    destruct es; [|intros []]. intros [H|[]]. subst. right. now left.
  Qed.
  Lemma exit_inline_in es e : In e (exit_inline es) -> In (Row e) es.
  Proof.
    unfold exit_inline. destruct es as [|[x| |] es]; try (intros []). destruct es; [|intros []].
    intros [H|[]]. subst. now left.
  Qed.

  Lemma exit_covered ars rs D parent row next e :
    In (Row e) (exit_stmt f parent row next) -> cmd_covered ars rs D e = true.
  Proof.
    intros H. unfold P_C02.cmd_covered. rewrite (Hexit e (exit_words _ _ _ _ _ H)). reflexivity.
  Qed.

  Lemma item_covered ars rs D row child sk :
    Forall (dgood ars rs) D -> item_rel rreverse D (row, child, sk) -> cmd_covered ars rs D row = true.
  Proof.
    intros HD H. rewrite Forall_forall in HD. unfold P_C02.cmd_covered.
    destruct H as [(n & Hn & Er & _)|[(_ & n & n0 & Hn & Hn0 & Eraw & Erow & Hop)|(_ & Erow & n0 & Hn0 & Efc)]].
    - destruct (dgood_facts _ _ _ (HD n Hn)) as (m & acrs & prs & Ea & _ & _ & _ & Ed). subst row.
      unfold acl_passes. change (P_C02.amatch amatch_ asrc arev anorm (d_row n) ars) with (amatch (d_row n) ars).
      rewrite Ea, Ed. cbn. rewrite orb_true_r. reflexivity.
    - destruct (dgood_facts _ _ _ (HD n Hn)) as (m & acrs & prs & Ea & Em & Hcd & _).
      destruct (dgood_facts _ _ _ (HD n0 Hn0)) as (m0 & acrs0 & prs0 & _ & Em0 & _).
      assert (G : negation_of_entry ars rs D row = true).
      { unfold P_C02.negation_of_entry. apply existsb_exists. exists n. split; [exact Hn|].
        change (P_C02.amatch amatch_ asrc arev anorm (d_row n) ars) with (amatch (d_row n) ars). rewrite Ea.
        unfold node_slot, slot_of. rewrite Em. cbn [option_map fst].
        apply existsb_exists. exists n0. split; [exact Hn0|]. rewrite Em0. cbn [option_map fst].
        rewrite Eraw, String.eqb_refl, <- Erow, String.eqb_refl. cbn [andb].
        destruct Hop as [Hop|[Hop1 Hop2]].
        - rewrite Hop, (Hcd Hop). reflexivity.
        - rewrite Hop1, Hop2. cbn. reflexivity. }
      rewrite G. rewrite !orb_true_r. reflexivity.
    - assert (G : commit_ok rmatch rs D row = true).
      { unfold commit_ok. subst row. cbn [String.eqb Ascii.eqb]. apply existsb_exists. exists n0. split; [exact Hn0|].
        destruct (dgood_facts _ _ _ (HD n0 Hn0)) as (m0 & acrs0 & prs0 & _ & Em0 & _).
        unfold node_slot, slot_of. rewrite Em0. cbn [option_map fst]. exact Efc. }
      rewrite G. rewrite !orb_true_r. reflexivity.
  Qed.

  Theorem rpaths_covered : forall t D ars rs parent,
    pt_rel rreverse t D -> Forall (dgood ars rs) D ->
    forall p, In p (rpaths f parent t) -> path_covered ars rs D p = true.
  Proof.
    induction t as [items IH] using ptree_ind2. intros D ars rs parent Hrel HD p Hp.
    rewrite rpaths_unfold in Hp. apply pt_rel_items in Hrel.
    revert Hrel Hp. induction IH as [|[[row child] sk] l Hit Hl IHl]; cbn [rpaths_items]; intros Hrel Hp; [destruct Hp|].
    inversion Hrel as [|x y Hrel1 Hrel2]; subst.
    destruct Hp as [Hp|Hp].
    { subst p. cbn [P_C02.path_covered]. eapply item_covered; [exact HD | exact Hrel1]. }
    apply in_app_iff in Hp as [Hp|Hp]; [|apply IHl; assumption].
    destruct child as [ct|]; [|destruct Hp].
    unfold kidP in Hit. cbn [fst snd] in Hit.
    assert (Hn : exists n, In n D /\ d_row n = row /\ pt_rel rreverse ct (d_kids n)).
    { destruct Hrel1 as [(n & G1 & G2 & _ & G3)|[(G & _)|(G & _)]]; [exists n; repeat split; assumption | discriminate | discriminate]. }
    destruct Hn as (n & Hn & Er & Hct).
    pose proof HD as HD'. rewrite Forall_forall in HD'.
    destruct (dgood_facts _ _ _ (HD' n Hn)) as (m & acrs & prs & Ea & Em & _ & Hk & Ed). rewrite Er in Ea, Em.
    assert (Hsub : incl (d_kids n) (dsub row D)).
    { intros x Hx. unfold dsub. apply in_flat_map. exists n. split; [|exact Hx].
      apply filter_In. split; [exact Hn | rewrite Er; apply String.eqb_refl]. }
    assert (Hdesc : forall q, q <> [] -> path_covered acrs prs (d_kids n) q = true -> path_covered ars rs D (row :: q) = true).
    { intros q Hq Hcov. destruct q as [|c2 q']; [congruence|]. rewrite path_covered_cons2.
      unfold acl_passes. change (P_C02.amatch amatch_ asrc arev anorm row ars) with (amatch row ars). rewrite Ea, Ed, Em.
      eapply path_covered_incl; [exact Hsub | exact Hcov]. }
    apply in_app_iff in Hp as [Hp|Hp].
    - apply in_map_iff in Hp as (q & Eq & Hq). subst p. apply in_app_iff in Hq as [Hq|Hq].
      + apply Hdesc; [eapply rpaths_nonempty; exact Hq|]. eapply Hit; [exact Hct | exact Hk | exact Hq].
      + apply in_map_iff in Hq as (e & Eq & He). subst q. apply Hdesc; [discriminate|].
        cbn [P_C02.path_covered]. eapply exit_covered. apply exit_wrapped_in. exact He.
    - apply in_map_iff in Hp as (e & Eq & He). subst p. cbn [P_C02.path_covered].
      eapply exit_covered. apply exit_inline_in. exact He.
  Qed.
End Paths.

(* ------------------------------------------------------------------------------------ *)
(* 5. from the diff the patch is made from to the diff that is shown (strip_unchanged)    *)

Lemma attrs_eqb_eq a b : attrs_eqb a b = true -> a = b.
Proof.
  destruct a as [p1 l1 d1 pa1 f1], b as [p2 l2 d2 pa2 f2]. unfold attrs_eqb. cbn.
  rewrite !andb_true_iff. intros [[[[H1 H2] H3] H4] H5].
  apply String.eqb_eq in H1. apply Bool.eqb_prop in H4, H5. apply dlogic_eqb_eq in H3.
  assert (l1 = l2) by (destruct l1, l2; try discriminate; reflexivity). subst. reflexivity.
Qed.

Lemma diff_regular_spec D : diff_regular D = true ->
  (forall n, In n D -> diff_regular (d_kids n) = true /\ a_force_commit (mi_attrs (d_mi n)) = false /\
                       forall n0, In n0 D -> mi_raw (d_mi n) = mi_raw (d_mi n0) -> mi_attrs (d_mi n) = mi_attrs (d_mi n0)).
Proof.
  unfold diff_regular. cbn [diff_regular_n]. intros H n Hn. apply andb_true_iff in H as [H1 H2].
  rewrite forallb_forall in H1, H2. specialize (H1 n Hn). specialize (H2 n Hn).
  apply andb_true_iff in H2 as [H2 H3]. split; [|split].
  - destruct n as [o r m ks]. cbn [d_kids]. cbn [diff_regular_n] in H1. unfold diff_regular. cbn [diff_regular_n]. exact H1.
  - apply negb_true_iff in H2. exact H2.
  - intros n0 Hn0 E. rewrite forallb_forall in H3. specialize (H3 n0 Hn0). rewrite E, String.eqb_refl in H3.
    cbn [negb orb] in H3. apply attrs_eqb_eq. exact H3.
Qed.

Definition strip_node (n : dnode) : dnode := DN (d_op n) (d_row n) (d_mi n) (strip_unchanged (d_kids n)).

Lemma strip_In D n : In n D -> d_op n <> Unchanged -> In (strip_node n) (strip_unchanged D).
Proof.
  intros Hn Ho. unfold strip_unchanged. apply in_flat_map. exists n. split; [exact Hn|].
  destruct n as [o r m ks]. cbn [d_op] in Ho. cbn [strip_unchanged_n].
  destruct (op_eqb o Unchanged) eqn:E; [apply op_eqb_eq in E; contradiction | left; reflexivity].
Qed.

Section Strip.
  Variable rreverse : string -> list string -> string.

  Theorem pt_rel_strip : forall t D, diff_regular D = true -> pt_rel rreverse t D -> pt_rel rreverse t (strip_unchanged D).
  Proof.
    induction t as [items IH] using ptree_ind2. intros D Hreg H.
    apply pt_rel_items in H. apply pt_rel_items.
    pose proof (diff_regular_spec D Hreg) as Hs.
    induction IH as [|[[row child] sk] l Hit Hl IHl]; [constructor|].
    inversion H as [|x y H1 H2]; subst. constructor; [|apply IHl; exact H2].
    destruct H1 as [(n & Hn & Er & Ho & Hc)|[(Ec & n & n0 & Hn & Hn0 & Eraw & Erow & Hop)|(_ & _ & n0 & Hn0 & Efc)]].
    - left. exists (strip_node n). split; [apply strip_In; assumption|]. split; [exact Er|]. split; [exact Ho|].
      destruct child as [ct|]; [|exact I]. unfold kidP in Hit. cbn [fst snd] in Hit. cbn [strip_node d_kids].
      apply Hit; [apply (Hs n Hn) | exact Hc].
    - right. left. split; [exact Ec|].
      assert (Hnu : d_op n <> Unchanged) by (destruct Hop as [Hop|[Hop _]]; rewrite Hop; discriminate).
      destruct (Hs n Hn) as (_ & _ & Hdet). specialize (Hdet n0 Hn0 (eq_sym Eraw)).
      exists (strip_node n), (strip_node n). cbn [strip_node d_mi d_op].
      split; [apply strip_In; assumption|]. split; [apply strip_In; assumption|]. split; [reflexivity|].
      rewrite Hdet. split; [exact Erow | exact Hop].
    - exfalso. destruct (Hs n0 Hn0) as (_ & G & _). congruence.
  Qed.
End Strip.

(* ------------------------------------------------------------------------------------ *)
(* 6. the theorems about the ACL-aware pipeline                                           *)

Section Top.
  Variable amatch_ : string -> string -> option (list string).
  Variable asrc : string -> string.
  Variable arev : string -> string.
  Variable anorm : string -> string.
  Variable rmatch : string -> string -> option (list string).
  Variable rsrc : string -> string.
  Variable rrev : string -> string.
  Variable block_exit : string.
  Variable rreverse : string -> list string -> string.
  Variable is_exit : string -> bool.

  Notation pipeline := (acl_diff_and_patch amatch_ asrc arev anorm rmatch rsrc rrev block_exit rreverse).
  Notation full_diff ars rs old new :=
    (acl_make_diff amatch_ asrc arev anorm rmatch ars rs
                   (acl_filter amatch_ asrc arev anorm ars old) (acl_filter amatch_ asrc arev anorm ars new)).

  (* the diff shown never mentions a row the ACL does not match, at any depth *)
  Theorem acl_pipeline_diff_covered ars rs ordering old new :
    diff_covered amatch_ asrc arev anorm ars (fst (pipeline ars rs ordering old new)) = true.
  Proof.
    unfold acl_diff_and_patch. cbn [fst]. eapply dgood_diff_covered_all.
    apply strip_good_all. apply acl_make_diff_good.
  Qed.

  (* every command path of the patch is covered by the ACL level by level *)
  Theorem acl_pipeline_cmds_covered f ars rs ordering old new p :
    is_block_family f = true ->
    (forall e, In e (family_exits f) -> is_exit e = true) ->
    diff_regular (full_diff ars rs old new) = true ->
    snd (pipeline ars rs ordering old new) = POk p ->
    paths_covered amatch_ asrc arev anorm rmatch rreverse is_exit ars rs
                  (fst (pipeline ars rs ordering old new)) (cmd_paths f p) = true.
  Proof.
    intros Hf Hexit Hreg Hp. unfold acl_diff_and_patch in *. cbn [fst snd] in *.
    unfold paths_covered. apply forallb_forall. intros q Hq.
    apply (cmd_paths_rpaths f p q Hf) in Hq.
    eapply rpaths_covered; [exact Hexit | | | exact Hq].
    - apply pt_rel_strip; [exact Hreg|]. eapply make_patch_rel. exact Hp.
    - apply strip_good_all. apply acl_make_diff_good.
  Qed.

  (* an entry governed by a cant_delete rule is never REMOVED, at any depth of the diff *)
  Lemma dgood_cd_not_removed : forall n ars rs, dgood amatch_ asrc arev anorm rmatch ars rs n ->
    cd_not_removed_n amatch_ asrc arev anorm ars n = true.
  Proof.
    induction n as [o row mi kids IH] using dnode_ind2. intros ars rs H.
    inversion H as [ars' rs' o' row' mi' kids' m acrs prs Ea Ed E Hr Hk]; subst. cbn [cd_not_removed_n].
    rewrite Ea. apply andb_true_iff. split.
    - apply negb_true_iff. destruct (op_eqb o Removed) eqn:Eo; [|reflexivity].
      apply op_eqb_eq in Eo. rewrite (Hr Eo). reflexivity.
    - apply forallb_forall. intros x Hx. rewrite Forall_forall in IH, Hk. eapply IH; [exact Hx | apply Hk; exact Hx].
  Qed.

  Theorem acl_pipeline_cant_delete_not_removed ars rs ordering old new :
    cd_not_removed amatch_ asrc arev anorm ars (fst (pipeline ars rs ordering old new)) = true /\
    cd_not_removed amatch_ asrc arev anorm ars (full_diff ars rs old new) = true.
  Proof.
    split; apply forallb_forall; intros n Hn; eapply dgood_cd_not_removed.
    - pose proof (strip_good_all amatch_ asrc arev anorm rmatch ars rs _ (acl_make_diff_good amatch_ asrc arev anorm rmatch ars rs old new)) as G.
      rewrite Forall_forall in G. apply G. exact Hn.
    - pose proof (acl_make_diff_good amatch_ asrc arev anorm rmatch ars rs old new) as G.
      rewrite Forall_forall in G. apply G. exact Hn.
  Qed.
End Top.

(* ------------------------------------------------------------------------------------ *)
(* 7. instantiation with the shared pattern compiler; the shared report of the harness      *)

Lemma v_is_exit_family v e : In e (family_exits (v_family v)) -> v_is_exit v e = true.
Proof.
  intros H. unfold v_is_exit, v_exits. apply existsb_exists. exists e.
  split; [apply in_or_app; right; exact H | apply String.eqb_refl].
Qed.

(* the diff the patch is made from *)
Definition p_full_diff (x : c02in) : list dnode :=
  p_acl_make_diff (i_av x) (i_ars x) (i_rules x) (p_acl_filter (i_av x) (i_ars x) (i_old x))
                  (p_acl_filter (i_av x) (i_ars x) (i_new x)).

Theorem C02_a_model x ordering : diff_regular (p_full_diff x) = true -> C02_a x (model_out x ordering) = true.
Proof.
  intros Hreg. unfold C02_a, model_out. cbn [o_cmds o_diff].
  destruct (snd (p_acl_diff_and_patch (i_vendor x) (i_av x) (i_ars x) (i_rules x) ordering (i_old x) (i_new x))) as [p|] eqn:Ep;
    [|reflexivity].
  unfold a_core. destruct (is_block_family (v_family (i_vendor x))) eqn:Ef; [|reflexivity]. cbn [negb orb].
  unfold p_paths_covered, p_acl_diff_and_patch in *.
  eapply acl_pipeline_cmds_covered; [exact Ef | apply v_is_exit_family | exact Hreg | exact Ep].
Qed.

Theorem C02_a_diff_model x ordering : C02_a_diff x (model_out x ordering) = true.
Proof.
  unfold C02_a_diff, model_out. cbn [o_diff]. apply andb_true_iff. split.
  - apply acl_pipeline_diff_covered.
  - apply (acl_pipeline_cant_delete_not_removed acl_pm acl_psrc (acl_prev (i_av x)) (acl_norm (i_av x)) pm psrc
             (prev (i_vendor x)) (v_exit (i_vendor x)) (prreverse (i_vendor x))).
Qed.

Lemma c2_report_spec c :
  c2_report c = [c2_agree_compile c; c2_agree_filter c; c2_agree_diff_full c; c2_agree_diff c; c2_agree_patch c;
                 c2_agree_paths c; c2_agree_lines c; c2_gen_same c; c2_holds c; c2_cl_a c; c2_cl_a_diff c; c2_cl_b c;
                 c2_cl_c c; c2_cl_c_deep c; c2_st_domain c; c2_st_closed c; c2_st_b_unguarded c; c2_st_c_text c;
                 c2_st_a_textual c].
Proof.
  unfold c2_report, c2_holds, c2_cl_a, c2_cl_a_diff, c2_cl_b, c2_cl_c, c2_cl_c_deep, c2_st_domain, c2_st_closed,
    c2_st_b_unguarded, c2_st_c_text, c2_agree_filter, c2_agree_diff, c2_agree_patch, ok_or_err,
    P_C02, C02_a, C02_b, C02_c, C02_c_deep, C02_c_with, C02_b_unguarded, C02_c_text, c02_dev_domain, c02_closed.
  cbv zeta.
  destruct (o_cmds (c2_out c)); reflexivity.
Qed.
