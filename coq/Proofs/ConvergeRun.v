(* C01, layer 2: executing a patch tree on the device.
   [run_pt]: the semantics of a PatchTree on the device, item by item (a block item
   executes its header, then its children inside the block).  Per slot, the result of
   running a list of items is the fold of the slot's own items over the slot's entry:
   items of other slots do not interfere (exec_commute). *)
From Coq Require Import List String Bool Arith Lia Permutation.
From Annet Require Import Base.Str Base.Tree Model.Rulebook Model.Order Model.Patch Model.Device Spec.P_C01
     Proofs.ConvergeDevice.
Import ListNotations.
Open Scope string_scope.
Open Scope list_scope.

(* descend into the first entry whose row text is c *)
Definition nav (c : string) (g : forest -> forest) : forest -> forest :=
  fix go (l : forest) : forest :=
    match l with
    | [] => []
    | (r, t) :: l' => if String.eqb r c then (r, T (g (kids t))) :: l' else (r, t) :: go l'
    end.

Lemma nav_comp c g1 g2 f : nav c g2 (nav c g1 f) = nav c (fun x => g2 (g1 x)) f.
Proof.
  induction f as [|[r t] f IH]; cbn; [reflexivity|].
  destruct (String.eqb r c) eqn:E; cbn; rewrite E; [reflexivity | rewrite IH; reflexivity].
Qed.

Lemma nav_ext c g1 g2 f : (forall x, g1 x = g2 x) -> nav c g1 f = nav c g2 f.
Proof.
  intro H. induction f as [|[r t] f IH]; cbn; [reflexivity|].
  destruct (String.eqb r c); [rewrite H | rewrite IH]; reflexivity.
Qed.

Lemma nav_id c f : nav c (fun x => x) f = f.
Proof.
  induction f as [|[r t] f IH]; cbn; [reflexivity|].
  destruct (String.eqb r c); [rewrite tree_eta | rewrite IH]; reflexivity.
Qed.

Lemma nav_absent c g f : ~ In c (keys f) -> nav c g f = f.
Proof.
  induction f as [|[r t] f IH]; cbn; intro H; [reflexivity|].
  destruct (String.eqb_spec r c) as [->|Hne]; [exfalso; apply H; now left|].
  f_equal. apply IH. intro Hin. apply H. now right.
Qed.

Lemma nav_mid c g l1 t l2 : ~ In c (keys l1) -> nav c g (l1 ++ (c, t) :: l2) = l1 ++ (c, T (g (kids t))) :: l2.
Proof.
  induction l1 as [|[r t0] l1 IH]; cbn; intro H.
  - rewrite String.eqb_refl. reflexivity.
  - destruct (String.eqb_spec r c) as [->|Hne]; [exfalso; apply H; now left|].
    f_equal. apply IH. intro Hin. apply H. now right.
Qed.

Lemma nav_keys c g f : keys (nav c g f) = keys f.
Proof.
  unfold keys. induction f as [|[r t] f IH]; cbn; [reflexivity|].
  destruct (String.eqb r c); cbn; [reflexivity | rewrite IH; reflexivity].
Qed.

Section Run.
  Variable rmatch : string -> string -> option (list string).
  Variable rreverse : string -> list string -> string.
  Variable is_exit : string -> bool.

  Notation xcmd := (exec_cmd rmatch rreverse is_exit).
  Notation xpath := (exec_path rmatch rreverse is_exit).
  Notation xexec := (exec rmatch rreverse is_exit).

  Lemma exec_path_cons2 rs c r rest f :
    xpath rs (c :: r :: rest) f =
    match match_row rmatch c rs with
    | Some (_, crs) => nav c (xpath crs (r :: rest)) f
    | None => f
    end.
  Proof. reflexivity. Qed.

  Lemma exec_app rs p q f : xexec rs (p ++ q) f = xexec rs q (xexec rs p f).
  Proof. unfold exec. apply fold_left_app. Qed.
  Lemma exec_cons rs p q f : xexec rs (p :: q) f = xexec rs q (xpath rs p f).
  Proof. reflexivity. Qed.
  Lemma exec_nil rs f : xexec rs [] f = f.
  Proof. reflexivity. Qed.

  (* paths below a block header: executed inside the block *)
  Lemma exec_prefixed rs c s crs ps f : match_row rmatch c rs = Some (s, crs) ->
    Forall (fun p => p <> []) ps ->
    xexec rs (map (cons c) ps) f = nav c (xexec crs ps) f.
  Proof.
    intros Hm Hne. revert f. induction ps as [|p ps IH]; intro f.
    - cbn. rewrite nav_id. reflexivity.
    - inversion Hne as [|p' ps' Hp Hps]; subst. cbn [map]. rewrite exec_cons, IH by exact Hps.
      destruct p as [|r rest]; [congruence|]. rewrite exec_path_cons2, Hm. rewrite nav_comp.
      apply nav_ext. intro x. reflexivity.
  Qed.

  (* ---------- the semantics of a patch tree ---------- *)
  Definition item := (string * option ptree * skey)%type.
  Definition irow (i : item) : string := fst (fst i).
  Definition ichild (i : item) : option ptree := snd (fst i).

  Fixpoint run_pt (p : ptree) : rset -> forest -> forest :=
    match p with
    | PT items =>
      fun rs f =>
        (fix go (l : list item) (f : forest) : forest :=
           match l with
           | [] => f
           | (row, child, _) :: l' =>
             go l' (match child with
                    | None => xcmd rs row f
                    | Some ct =>
                      match match_row rmatch row rs with
                      | Some (_, crs) => nav row (run_pt ct crs) (xcmd rs row f)
                      | None => xcmd rs row f
                      end
                    end)
           end) items f
    end.

  Definition run_item (rs : rset) (i : item) (f : forest) : forest :=
    match ichild i with
    | None => xcmd rs (irow i) f
    | Some ct =>
      match match_row rmatch (irow i) rs with
      | Some (_, crs) => nav (irow i) (run_pt ct crs) (xcmd rs (irow i) f)
      | None => xcmd rs (irow i) f
      end
    end.

  Lemma run_pt_fold items rs f : run_pt (PT items) rs f = fold_left (fun a i => run_item rs i a) items f.
  Proof.
    cbn [run_pt]. revert f. induction items as [|[[row child] sk] l IH]; intro f; [reflexivity|].
    cbn [fold_left]. rewrite <- IH. reflexivity.
  Qed.

  (* ---------- one level: what an item does to the slots ---------- *)
  Section OneLevel.
    Variable rs : rset.
    Variable U : forest.
    Hypothesis HU : lvl_ok rmatch rreverse is_exit rs U.

    Notation slot := (slot_of rmatch rs).
    Notation rev_of := (reverse_of rreverse).
    Notation ekey := (ekey rmatch rs).
    Notation lkeys := (lkeys rmatch rs).
    Notation unk := (unk rmatch rs).
    Notation lvl_uniq := (lvl_uniq rmatch rs).
    Notation sfind := (sfind rmatch rs).

    (* a level in good shape: one entry per slot, rows among the universe's *)
    Definition lgood (f : forest) : Prop := lvl_uniq f /\ rows_in U f.

    (* the items a Tier-A patch contains: a known row of the universe (direct), or the
       removal command of a slot of the universe *)
    Inductive uitem : item -> Prop :=
    | ui_direct i s : In (irow i) (keys U) -> slot (irow i) = Some s -> uitem i
    | ui_reverse i r s : In r (keys U) -> slot r = Some s -> irow i = rev_of s -> ichild i = None -> uitem i.

    (* does the item act on slot s? *)
    Definition belongs (s : minfo) (i : item) : bool :=
      match slot (irow i) with
      | Some s' => same_slot s' s
      | None => String.eqb (irow i) (rev_of s)
      end.

    (* what it does to the entry of its slot *)
    Definition step (i : item) (o : option (string * tree)) : option (string * tree) :=
      match match_row rmatch (irow i) rs with
      | Some (_, crs) =>
        let sub := direct_sub rmatch (irow i) crs o in
        Some (irow i, T (match ichild i with Some ct => run_pt ct crs sub | None => sub end))
      | None => None
      end.

    Lemma nav_entry row g f s t : lvl_uniq f -> sfind s f = Some (row, t) ->
      exists l1 l2, f = l1 ++ (row, t) :: l2 /\ nav row g f = l1 ++ (row, T (g (kids t))) :: l2 /\
                    ~ In (key_of s) (lkeys l1) /\ ~ In (key_of s) (lkeys l2).
    Proof.
      intros Hu Hs. destruct (sfind_split _ _ _ _ _ Hu Hs) as (l1 & l2 & -> & He & H1 & H2).
      exists l1, l2. repeat split; auto. apply nav_mid.
      intro Hin. apply in_map_iff in Hin as ([r' t'] & Er & Hin'). cbn in Er. subst r'.
      apply H1. apply lkeys_in. exists (row, t'). split; [exact Hin' | exact He].
    Qed.

    Lemma run_item_direct i s crs f : lgood f -> In (irow i) (keys U) ->
      match_row rmatch (irow i) rs = Some (s, crs) ->
      lgood (run_item rs i f) /\ unk (run_item rs i f) = unk f /\
      sfind s (run_item rs i f) = step i (sfind s f) /\
      (forall s', key_of s' <> key_of s -> sfind s' (run_item rs i f) = sfind s' f) /\
      Permutation (lkeys (run_item rs i f)) (match sfind s f with Some _ => lkeys f | None => key_of s :: lkeys f end).
    Proof.
      intros [Hu Hin] HiU Hm.
      assert (Hs : slot (irow i) = Some s) by (unfold slot_of; rewrite Hm; reflexivity).
      assert (Hne : is_exit (irow i) = false) by (eapply (lo_row_not_exit _ _ _ _ _ HU); eauto).
      assert (Hk : ekey (irow i, T []) = Some (key_of s)) by (eapply match_ekey; eauto).
      pose proof (exec_cmd_direct rmatch rreverse is_exit rs (irow i) s crs f Hne Hm) as Hx.
      pose proof (exec_direct_uniq rmatch rs (irow i) s crs f Hu Hk) as Hu'.
      pose proof (exec_direct_unk rmatch rs (irow i) s crs f Hu Hk) as Hunk.
      pose proof (exec_direct_same rmatch rs (irow i) s crs f Hu Hk) as Hsame.
      pose proof (exec_direct_other rmatch rs (irow i) s crs f) as Hoth.
      pose proof (exec_direct_lkeys rmatch rs (irow i) s crs f Hu Hk) as Hperm.
      pose proof (rows_in_direct rmatch rs U (irow i) s crs f Hin HiU Hu Hk) as Hin'.
      unfold run_item, step. rewrite Hm. destruct (ichild i) as [ct|].
      - rewrite Hx. set (D := exec_direct rmatch rs (irow i) s crs f) in *.
        destruct (nav_entry (irow i) (run_pt ct crs) D s _ Hu' Hsame) as (l1 & l2 & ED & EN & H1 & H2).
        rewrite EN.
        assert (Hke : forall t, ekey (irow i, t) = Some (key_of s)) by (intro t; exact Hk).
        assert (Hlk : lkeys (l1 ++ (irow i, T (run_pt ct crs (kids (T (direct_sub rmatch (irow i) crs (sfind s f)))))) :: l2) = lkeys D).
        { rewrite ED. rewrite !lkeys_mid. rewrite !(lkeys_known _ _ _ _ (Hke _)). reflexivity. }
        repeat split.
        + unfold lvl_uniq, ConvergeDevice.lvl_uniq. rewrite Hlk. exact Hu'.
        + intros e He. apply in_app_or in He as [He|[<-|He]].
          * apply Hin'. rewrite ED. apply in_or_app. now left.
          * exact HiU.
          * apply Hin'. rewrite ED. apply in_or_app. right. now right.
        + rewrite <- Hunk. rewrite ED. rewrite !unk_app. f_equal.
          change (?a :: l2) with ([a] ++ l2). rewrite !unk_app. f_equal.
          unfold ConvergeDevice.unk. cbn. rewrite !Hke. reflexivity.
        + apply sfind_mid; auto.
        + intros s' Hs'. rewrite <- (Hoth s' Hu Hk Hs'). fold D. rewrite ED.
          rewrite !sfind_skip; auto; rewrite Hke; congruence.
        + rewrite Hlk. exact Hperm.
      - rewrite Hx. repeat split; auto.
    Qed.

    Lemma run_item_reverse i r s f : lgood f -> In r (keys U) -> slot r = Some s ->
      irow i = rev_of s -> ichild i = None ->
      lgood (run_item rs i f) /\ unk (run_item rs i f) = unk f /\
      (forall s', sfind s' (run_item rs i f) = if key_eq_dec (key_of s') (key_of s) then None else sfind s' f) /\
      (forall k, In k (lkeys (run_item rs i f)) -> In k (lkeys f)).
    Proof.
      intros [Hu Hin] Hr Hs Hrow Hch.
      assert (Hm : match_row rmatch (irow i) rs = None) by (rewrite Hrow; eapply (lo_rev_unmatched _ _ _ _ _ HU); eauto).
      assert (Hne : is_exit (irow i) = false) by (rewrite Hrow; eapply (lo_rev_not_exit _ _ _ _ _ HU); eauto).
      unfold run_item. rewrite Hch.
      rewrite (exec_cmd_reverse rmatch rreverse is_exit rs (irow i) f Hne Hm). rewrite Hrow.
      repeat split.
      - apply filter_uniq. exact Hu.
      - apply rows_in_filter. exact Hin.
      - apply exec_reverse_unk.
      - intro s'. eapply exec_reverse_sfind; eauto.
      - intros k Hk. eapply filter_lkeys_incl. exact Hk.
    Qed.

    (* ---------- exec_commute: per slot, a run is the fold of the slot's own items ---------- *)
    Lemma belongs_direct i s s' : slot (irow i) = Some s -> belongs s' i = same_slot s s'.
    Proof. intro H. unfold belongs. rewrite H. reflexivity. Qed.

    Lemma step_none i o : match_row rmatch (irow i) rs = None -> step i o = None.
    Proof. intro H. unfold step. rewrite H. reflexivity. Qed.

    Lemma step_key_ext i s s' f : key_of s = key_of s' -> step i (sfind s f) = step i (sfind s' f).
    Proof. intro H. rewrite (sfind_key rmatch rreverse is_exit rs s s' f H). reflexivity. Qed.

    Theorem run_items_slot r s : In r (keys U) -> slot r = Some s ->
      forall items f, Forall uitem items -> lgood f ->
        lgood (fold_left (fun a i => run_item rs i a) items f) /\
        unk (fold_left (fun a i => run_item rs i a) items f) = unk f /\
        sfind s (fold_left (fun a i => run_item rs i a) items f) =
        fold_left (fun o i => step i o) (filter (belongs s) items) (sfind s f).
    Proof.
      intros Hr Hs items. induction items as [|i items IH]; intros f Hall Hg.
      - cbn. auto.
      - inversion Hall as [|i' l' Hi Hl]; subst. cbn [fold_left filter].
        inversion Hi as [i0 s0 HiU Hs0|i0 r0 s0 Hr0 Hs0 Hrow Hch]; subst i0.
        + (* direct *)
          unfold slot_of in Hs0. destruct (match_row rmatch (irow i) rs) as [[s0' crs]|] eqn:Hm; [|discriminate].
          cbn in Hs0. injection Hs0 as ->.
          destruct (run_item_direct i s0 crs f Hg HiU Hm) as (Hg' & Hunk & Hsame & Hoth & _).
          destruct (IH _ Hl Hg') as (Hg'' & Hunk'' & Hfold). split; [exact Hg''|]. split; [congruence|].
          rewrite Hfold. rewrite (belongs_direct i s0 s) by (unfold slot_of; rewrite Hm; reflexivity).
          destruct (same_slot s0 s) eqn:Ess.
          * apply same_slot_iff in Ess. cbn [fold_left]. f_equal.
            rewrite <- (sfind_key rmatch rreverse is_exit rs s0 s _ Ess), Hsame. apply step_key_ext. exact Ess.
          * apply same_slot_false_iff in Ess. rewrite Hoth by congruence. reflexivity.
        + (* removal *)
          destruct (run_item_reverse i r0 s0 f Hg Hr0 Hs0 Hrow Hch) as (Hg' & Hunk & Hsf & _).
          destruct (IH _ Hl Hg') as (Hg'' & Hunk'' & Hfold). split; [exact Hg''|]. split; [congruence|].
          rewrite Hfold, Hsf.
          assert (Hm : match_row rmatch (irow i) rs = None) by (rewrite Hrow; eapply (lo_rev_unmatched _ _ _ _ _ HU); eauto).
          unfold belongs. unfold slot_of. rewrite Hm. cbn [option_map]. rewrite Hrow.
          destruct (key_eq_dec (key_of s) (key_of s0)) as [Heq|Hne].
          * rewrite (rev_of_key rmatch rreverse is_exit rs U r0 s0 r s HU Hr0 Hs0 Hr Hs Heq), String.eqb_refl.
            cbn [fold_left]. rewrite step_none by (rewrite Hrow; rewrite Hrow in Hm; exact Hm). reflexivity.
          * destruct (String.eqb_spec (rev_of s0) (rev_of s)) as [Hrv|Hrv]; [|reflexivity].
            exfalso. apply Hne. symmetry. exact (lo_rev_inj _ _ _ _ _ HU r s r0 s0 Hr Hs Hr0 Hs0 Hrv).
    Qed.

    Theorem run_items_good : forall items f, Forall uitem items -> lgood f ->
      lgood (fold_left (fun a i => run_item rs i a) items f) /\
      unk (fold_left (fun a i => run_item rs i a) items f) = unk f.
    Proof.
      induction items as [|i items IH]; intros f Hall Hg; [cbn; auto|].
      inversion Hall as [|i' l' Hi Hl]; subst. cbn [fold_left].
      inversion Hi as [i0 s0 HiU Hs0|i0 r0 s0 Hr0 Hs0 Hrow Hch]; subst i0.
      - unfold slot_of in Hs0. destruct (match_row rmatch (irow i) rs) as [[s0' crs]|] eqn:Hm; [|discriminate].
        cbn in Hs0. injection Hs0 as ->.
        destruct (run_item_direct i s0 crs f Hg HiU Hm) as (Hg' & Hunk & _).
        destruct (IH _ Hl Hg') as (Hg'' & Hunk''). split; [exact Hg'' | congruence].
      - destruct (run_item_reverse i r0 s0 f Hg Hr0 Hs0 Hrow Hch) as (Hg' & Hunk & _).
        destruct (IH _ Hl Hg') as (Hg'' & Hunk''). split; [exact Hg'' | congruence].
    Qed.
  End OneLevel.
End Run.
