(* C07, second extension of the rule language (Model/PatternY.v): the text-level
   patching._make_reverse(print_ypat p, prefix).format( *key ) is the token-level reading
   yref_reverse of Spec/P_C07Y.v, for glued placeholders and the special last words.
   Same five steps as Proofs/PatternXProofs.v (reverse_row, trailing tilde, sub_star,
   strip_tilde, str.format), on a uniform list of "words" (tokens, then the last word). *)
From Coq Require Import List String Ascii Bool Arith NArith Lia.
From Annet Require Import Base.Str Model.Pattern Model.PatternX Model.PatternY.
From Annet Require Import Spec.P_C07 Spec.P_C07X Spec.P_C07Y.
From Annet Require Import Proofs.RegexProofs Proofs.PatternProofs Proofs.PatternXProofs Proofs.PatternYProofs.
Import ListNotations.
Open Scope string_scope.
Open Scope list_scope.

Arguments Ascii.eqb : simpl never.
Arguments String.eqb : simpl never.
Arguments is_graph : simpl never.
Arguments py_ws : simpl never.
Arguments lit_char : simpl never.
Arguments is_ws : simpl never.

(* ------------------------------------------------------------------------------ *)
(* words of a printed pattern                                                      *)

Inductive yword := WT (t : ytok) | WE (e : yend).

Definition end_words (e : yend) : list yword := match e with EPlain => [] | _ => [WE e] end.
Definition ywords (ts : list ytok) (e : yend) : list yword := map WT ts ++ end_words e.

Definition is_wt (w : yword) : bool := match w with WT _ => true | WE _ => false end.
Definition is_eplain (e : yend) : bool := match e with EPlain => true | _ => false end.

Definition wfw (w : yword) : bool :=
  match w with WT t => wf_ytok t | WE e => wf_yend e && negb (is_eplain e) end.

(* a special last word only as the last word *)
Fixpoint welast (q : list yword) : bool :=
  match q with
  | [] => true
  | [_] => true
  | w :: q' => is_wt w && welast q'
  end.

(* printed text of a word *)
Definition wp (w : yword) : list ascii :=
  match w with
  | WT t => l_of (print_ytok t)
  | WE e => ljoin (map l_of (print_yend e))
  end.

Lemma wp_glue r suf :
  wp (WT (YGlue r suf)) = "*"%char :: "/"%char :: print_sre_l r ++ "/"%char :: l_of suf.
Proof. unfold wp, print_ytok, print_sre. rewrite !l_of_app, l_of_s_of. reflexivity. Qed.

Lemma wp_dots w : wp (WE (EDots w)) = l_of w ++ l_of "...".
Proof. unfold wp. cbn [print_yend map ljoin]. apply l_of_app. Qed.

Lemma wp_littilde w : wp (WE (ELitTilde w)) = l_of w ++ ["~"%char].
Proof. unfold wp. cbn [print_yend map ljoin]. apply l_of_app. Qed.

Lemma wp_endlit w : wp (WE (EEndLit w)) = l_of w ++ ["$"%char].
Proof. unfold wp. cbn [print_yend map ljoin]. apply l_of_app. Qed.

Lemma wp_rest a plus :
  wp (WE (ERest a plus)) =
  "*"%char :: "/"%char :: (print_sre_l a ++ ["."%char; if plus then "+"%char else "*"%char]) ++ ["/"%char].
Proof.
  unfold wp. cbn [print_yend map ljoin]. unfold print_sre. rewrite !l_of_app, l_of_s_of.
  cbn [l_of app]. rewrite <- app_assoc. destruct plus; reflexivity.
Qed.

Lemma wp_endre r :
  wp (WE (EEndRe r)) = "*"%char :: "/"%char :: (print_sre_l r ++ ["$"%char]) ++ ["/"%char].
Proof.
  unfold wp. cbn [print_yend map ljoin]. unfold print_sre. rewrite !l_of_app, l_of_s_of.
  cbn [l_of app]. rewrite <- app_assoc. reflexivity.
Qed.

Lemma text_of_ypat p : l_of (print_ypat p) = ljoin (map wp (ywords (y_toks p) (y_end p))).
Proof.
  unfold print_ypat, ypat_words, ywords. rewrite l_of_join, !map_app, !map_map. f_equal. f_equal.
  destruct (y_end p); reflexivity.
Qed.

(* ------------------------------------------------------------------------------ *)
(* character facts                                                                 *)

Lemma plain_chars w : plain_word w = true -> forallb lit_char (l_of w) = true.
Proof. unfold plain_word. intro H. apply andb_true_iff in H. tauto. Qed.

Lemma plain_nostar w : plain_word w = true -> forallb (neqc "*") (l_of w) = true.
Proof.
  intro H. apply plain_chars in H. eapply forallb_impl; [|exact H].
  intros c Hc. apply lit_char_facts in Hc. tauto.
Qed.

Lemma plain_notilde w : plain_word w = true -> forallb (neqc "~") (l_of w) = true.
Proof.
  intro H. apply plain_chars in H. eapply forallb_impl; [|exact H].
  intros c Hc. apply lit_char_facts in Hc. tauto.
Qed.

Lemma sre_ok_b_text a : sre_ok_b a = true ->
  print_sre_l a <> [] /\ forallb is_graph (print_sre_l a) = true.
Proof.
  unfold sre_ok_b. intro H. apply andb_true_iff in H as [H _]. apply andb_true_iff in H as [H1 H2].
  split; [|exact H2]. destruct (print_sre_l a); [discriminate | congruence].
Qed.

Lemma wf_ytok_x t : wf_ytok (YX t) = true ->
  wf_xtok t = true /\ is_xtildere t = false /\ is_xtilde t = false.
Proof.
  cbn [wf_ytok]. intro H. apply andb_true_iff in H as [H H3]. apply andb_true_iff in H as [H1 H2].
  apply negb_true_iff in H2, H3. auto.
Qed.

Lemma wf_ytok_glue r suf : wf_ytok (YGlue r suf) = true ->
  sre_ok r = true /\ plain_word suf = true /\ no_slash (l_of suf) = true.
Proof.
  cbn [wf_ytok]. intro H. apply andb_true_iff in H as [H H3]. apply andb_true_iff in H as [H1 H2]. auto.
Qed.

Lemma wfw_end e : wfw (WE e) = true -> wf_yend e = true.
Proof. cbn. intro H. apply andb_true_iff in H. tauto. Qed.

Lemma wf_rest a plus : wf_yend (ERest a plus) = true -> sre_ok_b a = true.
Proof. cbn. intro H. apply andb_true_iff in H. tauto. Qed.

Lemma wf_endre r : wf_yend (EEndRe r) = true -> sre_ok r = true.
Proof. cbn. intro H. apply andb_true_iff in H. tauto. Qed.

Lemma wp_graph w : wfw w = true -> forallb is_graph (wp w) = true /\ wp w <> [].
Proof.
  destruct w as [[t|r suf]|e]; intro H.
  - apply wf_ytok_x in H as (H & _). apply (xptok_graph t H).
  - apply wf_ytok_glue in H as (H1 & H2 & _). apply sre_ok_text in H1 as [_ H1].
    apply plain_word_graph in H2 as [H2 _]. rewrite wp_glue. split; [|discriminate].
    cbn [forallb]. rewrite forallb_app. cbn [forallb]. rewrite H1, H2. reflexivity.
  - pose proof (wfw_end _ H) as W. destruct e as [| |w|w|a plus|w|r].
    + discriminate.
    + split; [reflexivity | discriminate].
    + cbn [wf_yend] in W. apply plain_word_graph in W as [W N]. rewrite wp_dots. split.
      * rewrite forallb_app, W. reflexivity.
      * destruct (l_of w); [congruence | discriminate].
    + cbn [wf_yend] in W. apply plain_word_graph in W as [W N]. rewrite wp_littilde. split.
      * rewrite forallb_app, W. reflexivity.
      * destruct (l_of w); [congruence | discriminate].
    + apply wf_rest, sre_ok_b_text in W as [_ W]. rewrite wp_rest. split; [|discriminate].
      cbn [forallb]. rewrite !forallb_app, W. destruct plus; reflexivity.
    + cbn [wf_yend] in W. apply plain_word_graph in W as [W N]. rewrite wp_endlit. split.
      * rewrite forallb_app, W. reflexivity.
      * destruct (l_of w); [congruence | discriminate].
    + apply wf_endre, sre_ok_text in W as [_ W]. rewrite wp_endre. split; [|discriminate].
      cbn [forallb]. rewrite !forallb_app, W. reflexivity.
Qed.

(* ------------------------------------------------------------------------------ *)
(* step 1: reverse_row                                                              *)

Definition wreverse (q : list yword) (prefix : string) : list yword :=
  match q with
  | WT (YX (XLit w)) :: ((_ :: _) as q') =>
    if String.eqb w prefix then q' else WT (YX (XLit prefix)) :: q
  | _ => WT (YX (XLit prefix)) :: q
  end.

Lemma wp_eq_prefix t prefix :
  plain_word prefix = true -> wf_ytok t = true -> wp (WT t) = l_of prefix -> t = YX (XLit prefix).
Proof.
  intros Hp Ht E. destruct t as [t|r suf].
  - apply wf_ytok_x in Ht as (Ht & _). f_equal. apply xptok_eq_prefix; assumption.
  - exfalso. apply plain_word_first in Hp as (c & r' & Ec & Hc).
    rewrite wp_glue, Ec in E. injection E as <- _. discriminate.
Qed.

Lemma welast_head t1 t2 q : welast (t1 :: t2 :: q) = true -> is_wt t1 = true /\ welast (t2 :: q) = true.
Proof. cbn [welast]. intro H. apply andb_true_iff in H. exact H. Qed.

Lemma reverse_row_words q prefix :
  q <> [] -> forallb wfw q = true -> welast q = true -> plain_word prefix = true ->
  reverse_row_l (ljoin (map wp q)) (l_of prefix) = ljoin (map wp (wreverse q prefix)).
Proof.
  intros Hne Hwf Hl Hp. unfold reverse_row_l.
  destruct (plain_word_graph _ Hp) as [Hpg _]. apply graph_nosp in Hpg.
  destruct q as [|t1 q]; [congruence|]. cbn [forallb] in Hwf. apply andb_true_iff in Hwf as [Ht1 Hwf].
  destruct (wp_graph _ Ht1) as [Hg1 _]. apply graph_nosp in Hg1.
  destruct q as [|t2 q].
  - cbn [map ljoin]. rewrite lprefix_sp_nosp by exact Hg1.
    replace (wreverse [t1] prefix) with [WT (YX (XLit prefix)); t1]
      by (destruct t1 as [[[]|]|]; reflexivity).
    cbn [map ljoin]. change (wp (WT (YX (XLit prefix)))) with (l_of prefix).
    rewrite <- app_assoc. reflexivity.
  - apply welast_head in Hl as [Hw1 Hl]. destruct t1 as [t1|e1]; [|discriminate]. cbn [wfw] in Ht1.
    rewrite map_cons, (map_cons wp t2 q), ljoin_cons2.
    destruct (lprefix (l_of prefix ++ [sp]) (wp (WT t1) ++ sp :: ljoin (wp t2 :: map wp q))) eqn:E.
    + assert (Et : wp (WT t1) = l_of prefix) by (symmetry; eapply lprefix_sp_eq; eauto).
      apply wp_eq_prefix in Et; [|exact Hp|exact Ht1]. subst t1.
      cbn [wreverse]. rewrite String.eqb_refl.
      change (wp (WT (YX (XLit prefix)))) with (l_of prefix).
      replace (l_of prefix ++ sp :: ljoin (wp t2 :: map wp q))
        with ((l_of prefix ++ [sp]) ++ ljoin (wp t2 :: map wp q))
        by (rewrite <- app_assoc; reflexivity).
      rewrite skipn_app_exact. reflexivity.
    + assert (R : wreverse (WT t1 :: t2 :: q) prefix = WT (YX (XLit prefix)) :: WT t1 :: t2 :: q).
      { destruct t1 as [[w| |r| |r|r]|r suf]; try reflexivity. cbn [wreverse].
        destruct (String.eqb w prefix) eqn:Ew; [|reflexivity].
        apply String.eqb_eq in Ew. subst w. exfalso.
        change (wp (WT (YX (XLit prefix)))) with (l_of prefix) in E.
        replace (l_of prefix ++ sp :: ljoin (wp t2 :: map wp q))
          with ((l_of prefix ++ [sp]) ++ ljoin (wp t2 :: map wp q)) in E
          by (rewrite <- app_assoc; reflexivity).
        rewrite lprefix_app in E. discriminate. }
      rewrite R. rewrite !map_cons, ljoin_cons2. change (wp (WT (YX (XLit prefix)))) with (l_of prefix).
      rewrite <- app_assoc. reflexivity.
Qed.

Lemma welast_wt t q : welast (WT t :: q) = welast q.
Proof. destruct q; reflexivity. Qed.

Lemma wreverse_wf q prefix :
  forallb wfw q = true -> welast q = true -> plain_word prefix = true ->
  forallb wfw (wreverse q prefix) = true /\ welast (wreverse q prefix) = true.
Proof.
  intros Hwf Hl Hp.
  assert (G : forallb wfw (WT (YX (XLit prefix)) :: q) = true /\ welast (WT (YX (XLit prefix)) :: q) = true).
  { split; [|rewrite welast_wt; exact Hl].
    cbn [forallb wfw wf_ytok wf_xtok is_xtildere is_xtilde negb]. rewrite Hp, Hwf. reflexivity. }
  destruct q as [|t1 [|t2 q]]; try exact G.
  { destruct t1 as [[[]|]|]; exact G. }
  destruct t1 as [[[w| |r| |r|r]|r suf]|e]; try exact G. cbn [wreverse].
  destruct (String.eqb w prefix); [|exact G]. split.
  - cbn [forallb] in Hwf. apply andb_true_iff in Hwf. tauto.
  - apply welast_head in Hl. tauto.
Qed.

Lemma wreverse_nonempty q prefix : wreverse q prefix <> [].
Proof.
  destruct q as [|t1 [|t2 q]]; try discriminate; try (destruct t1 as [[[]|]|]; discriminate).
  destruct t1 as [[[w| |r| |r|r]|r suf]|e]; try discriminate. cbn. destruct (String.eqb w prefix); discriminate.
Qed.

Lemma ywords_reverse p prefix :
  ywords (y_toks (reverse_ypat p prefix)) (y_end (reverse_ypat p prefix))
  = wreverse (ywords (y_toks p) (y_end p)) prefix.
Proof.
  destruct p as [ts e]. unfold reverse_ypat. cbn [y_toks y_end].
  destruct ts as [|t ts].
  - destruct e; reflexivity.
  - destruct t as [[w| |r| |r|r]|r suf]; try reflexivity.
    unfold ywords. cbn [map app wreverse].
    destruct (String.eqb w prefix).
    + destruct ts as [|t2 ts]; [destruct e; reflexivity | reflexivity].
    + destruct ts as [|t2 ts]; [destruct e; reflexivity | reflexivity].
Qed.

(* ------------------------------------------------------------------------------ *)
(* step 2: the trailing `~` becomes a placeholder                                   *)

Definition wh (w : yword) : list ascii :=
  match w with
  | WE ETilde => hole
  | WE (ELitTilde s) => l_of s ++ hole
  | _ => wp w
  end.

Lemma tth_word w : wfw w = true -> tilde_to_hole (wp w) = wh w.
Proof.
  destruct w as [[t|r suf]|e]; intro H.
  - apply wf_ytok_x in H as (H & _ & N). cbn [wh].
    change (wp (WT (YX t))) with (xptok t). rewrite tilde_to_hole_xtok by exact H.
    apply xhtok_not_tilde. exact N.
  - cbn [wh]. apply wf_ytok_glue in H as (_ & H & _).
    pose proof (plain_chars _ H) as Hc. apply plain_word_graph in H as [_ Hne].
    rewrite wp_glue. destruct (exists_last Hne) as (i & c & E). rewrite E in *.
    apply forallb_last in Hc. apply lit_char_facts in Hc as (_ & _ & Hc & _).
    replace ("*"%char :: "/"%char :: print_sre_l r ++ "/"%char :: i ++ [c])
      with (("*"%char :: "/"%char :: print_sre_l r ++ "/"%char :: i) ++ [c])
      by (cbn [app]; rewrite <- app_assoc; reflexivity).
    apply tilde_to_hole_snoc. unfold neqc in Hc. apply negb_true_iff. exact Hc.
  - destruct e as [| |w|w|a plus|w|r]; cbn [wh].
    + discriminate.
    + reflexivity.
    + rewrite wp_dots. change (l_of "...") with (["."; "."]%char ++ ["."%char]).
      rewrite app_assoc. apply tilde_to_hole_snoc. reflexivity.
    + rewrite wp_littilde. unfold tilde_to_hole. rewrite unsnoc_snoc. reflexivity.
    + rewrite wp_rest. rewrite !app_comm_cons. apply tilde_to_hole_snoc. reflexivity.
    + rewrite wp_endlit. apply tilde_to_hole_snoc. reflexivity.
    + rewrite wp_endre. rewrite !app_comm_cons. apply tilde_to_hole_snoc. reflexivity.
Qed.

Lemma tth_words q :
  forallb wfw q = true -> welast q = true ->
  tilde_to_hole (ljoin (map wp q)) = ljoin (map wh q).
Proof.
  induction q as [|t q IH]; intros Hwf Hl; [reflexivity|].
  cbn [forallb] in Hwf. apply andb_true_iff in Hwf as [Ht Hwf].
  destruct q as [|t2 q].
  - cbn [map ljoin]. apply tth_word. exact Ht.
  - apply welast_head in Hl as [Hw Hl].
    rewrite !map_cons, !ljoin_cons2, <- !map_cons.
    rewrite tilde_to_hole_app by discriminate.
    change (sp :: ljoin (map wp (t2 :: q))) with ([sp] ++ ljoin (map wp (t2 :: q))).
    rewrite tilde_to_hole_app.
    + rewrite IH by assumption. destruct t as [t|e]; [reflexivity | discriminate].
    + apply ljoin_nonempty; [discriminate|].
      intros x Hx. apply in_map_iff in Hx as (t' & <- & Hin).
      eapply forallb_forall in Hwf; [|exact Hin]. apply wp_graph in Hwf. tauto.
Qed.

(* ------------------------------------------------------------------------------ *)
(* step 3: re.sub(r"\*(/\S+/)?", "{}", ...)                                          *)

Definition ws (w : yword) : list ascii :=
  match w with
  | WT (YX t) => xstok t
  | WT (YGlue _ suf) => hole ++ l_of suf
  | WE EPlain => []
  | WE ETilde | WE (ERest _ _) | WE (EEndRe _) => hole
  | WE (EDots s) => l_of s ++ l_of "..."
  | WE (ELitTilde s) => l_of s ++ hole
  | WE (EEndLit s) => l_of s ++ ["$"%char]
  end.

Definition noslash_c (c : ascii) : bool := negb (Ascii.eqb c "/").

Lemma no_slash_forall s : no_slash s = true -> forallb noslash_c s = true.
Proof.
  unfold no_slash, mem_ascii. induction s as [|c s IH]; [reflexivity|].
  cbn [existsb forallb]. intro H. apply negb_true_iff in H. apply orb_false_iff in H as [H1 H2].
  unfold noslash_c at 1. rewrite IH by (apply negb_true_iff; exact H2). rewrite andb_true_r.
  apply negb_true_iff. destruct (Ascii.eqb c "/") eqn:E; [|reflexivity].
  apply Ascii.eqb_eq in E. subst c. rewrite Ascii.eqb_refl in H1. discriminate.
Qed.

Lemma last_slash_noslash S : forall rest i,
  forallb is_graph S = true -> forallb noslash_c S = true -> brk rest = true ->
  last_slash (S ++ rest) i = None.
Proof.
  induction S as [|c S IH]; intros rest i Hg Hs Hb.
  - apply last_slash_brk. exact Hb.
  - cbn [forallb] in Hg, Hs. apply andb_true_iff in Hg as [Hc Hg]. apply andb_true_iff in Hs as [Hn Hs].
    cbn [app last_slash]. apply graph_facts in Hc as (Hc & _). rewrite Hc.
    rewrite IH by assumption. unfold noslash_c in Hn. apply negb_true_iff in Hn. rewrite Hn. reflexivity.
Qed.

Lemma last_slash_run2 X : forall S rest i,
  forallb is_graph X = true -> forallb is_graph S = true -> forallb noslash_c S = true ->
  brk rest = true -> 1 <= i + List.length X ->
  last_slash (X ++ "/"%char :: S ++ rest) i = Some (i + List.length X).
Proof.
  induction X as [|c X IH]; intros S rest i HX Hg Hs Hb Hi.
  - cbn [app last_slash List.length]. change (py_ws "/") with false. cbn iota.
    rewrite last_slash_noslash by assumption. rewrite Ascii.eqb_refl. cbn [andb].
    rewrite Nat.add_0_r in *. destruct (Nat.leb 1 i) eqn:E; [reflexivity|].
    apply Nat.leb_gt in E. lia.
  - cbn [forallb] in HX. apply andb_true_iff in HX as [Hc HX].
    cbn [app last_slash List.length]. apply graph_facts in Hc as (Hc & _). rewrite Hc.
    rewrite IH; [f_equal; lia | assumption..| lia].
Qed.

Lemma sub_star_glue X S rest :
  X <> [] -> forallb is_graph X = true -> forallb is_graph S = true -> forallb noslash_c S = true ->
  forallb (neqc "*") S = true -> brk rest = true ->
  sub_star 0 ("*"%char :: "/"%char :: X ++ "/"%char :: S ++ rest) = hole ++ S ++ sub_star 0 rest.
Proof.
  intros Hne Hg HS Hn Hst Hb.
  assert (L : opt_re_len ("/"%char :: X ++ "/"%char :: S ++ rest)
              = List.length ("/"%char :: X ++ ["/"%char])).
  { unfold opt_re_len. change (Ascii.eqb "/" "/") with true. cbn iota.
    rewrite last_slash_run2; [|assumption..|].
    - cbn [List.length plus]. rewrite app_length. cbn [List.length]. lia.
    - destruct X; [congruence | cbn; lia]. }
  remember ("/"%char :: X ++ "/"%char :: S ++ rest) as tl eqn:Et.
  cbn [sub_star]. change (Ascii.eqb "*" "*") with true. cbn iota.
  rewrite L. subst tl.
  replace ("/"%char :: X ++ "/"%char :: S ++ rest) with (("/"%char :: X ++ ["/"%char]) ++ S ++ rest)
    by (cbn [app]; rewrite <- app_assoc; reflexivity).
  rewrite sub_star_skip. rewrite sub_star_plain by exact Hst. reflexivity.
Qed.

Lemma sub_star_word w rest : wfw w = true -> brk rest = true ->
  sub_star 0 (wh w ++ rest) = ws w ++ sub_star 0 rest.
Proof.
  intros H Hb. destruct w as [[t|r suf]|e].
  - apply wf_ytok_x in H as (H & _ & N). cbn [wh ws].
    change (wp (WT (YX t))) with (xptok t). rewrite <- (xhtok_not_tilde t N).
    apply sub_star_xtok; assumption.
  - cbn [wh ws]. apply wf_ytok_glue in H as (H1 & H2 & H3). rewrite wp_glue.
    apply sre_ok_text in H1 as [Hne Hg]. pose proof (plain_nostar _ H2) as Hst.
    apply plain_word_graph in H2 as [H2 _]. apply no_slash_forall in H3.
    cbn [app]. rewrite <- !app_assoc. cbn [app].
    rewrite sub_star_glue by assumption. reflexivity.
  - pose proof (wfw_end _ H) as W. destruct e as [| |w|w|a plus|w|r]; cbn [wh ws].
    + discriminate.
    + apply (sub_star_plain hole). reflexivity.
    + rewrite wp_dots. apply sub_star_plain. cbn [wf_yend] in W.
      rewrite forallb_app, (plain_nostar _ W). reflexivity.
    + apply sub_star_plain. cbn [wf_yend] in W.
      rewrite forallb_app, (plain_nostar _ W). reflexivity.
    + rewrite wp_rest. apply wf_rest, sre_ok_b_text in W as [Hne Hg].
      cbn [app]. rewrite <- app_assoc. cbn [app]. apply sub_star_re; [| |exact Hb].
      * destruct (print_sre_l a); [congruence | discriminate].
      * rewrite forallb_app, Hg. destruct plus; reflexivity.
    + rewrite wp_endlit. apply sub_star_plain. cbn [wf_yend] in W.
      rewrite forallb_app, (plain_nostar _ W). reflexivity.
    + rewrite wp_endre. apply wf_endre, sre_ok_text in W as [Hne Hg].
      cbn [app]. rewrite <- app_assoc. cbn [app]. apply sub_star_re; [| |exact Hb].
      * destruct (print_sre_l r); [congruence | discriminate].
      * rewrite forallb_app, Hg. reflexivity.
Qed.

Lemma sub_star_words q : forallb wfw q = true ->
  sub_star 0 (ljoin (map wh q)) = ljoin (map ws q).
Proof.
  induction q as [|t q IH]; intro Hwf; [reflexivity|].
  cbn [forallb] in Hwf. apply andb_true_iff in Hwf as [Ht Hwf].
  destruct q as [|t2 q].
  - cbn [map ljoin]. rewrite <- (app_nil_r (wh t)), sub_star_word by auto.
    cbn. apply app_nil_r.
  - rewrite !map_cons, !ljoin_cons2, <- !map_cons.
    rewrite sub_star_word by auto. f_equal.
    cbn [sub_star]. change (Ascii.eqb sp "*") with false. cbn iota. f_equal. apply IH. exact Hwf.
Qed.

(* ------------------------------------------------------------------------------ *)
(* step 4: re.sub(r"\s*~(/\S+/)?", "", ...) finds nothing to remove                 *)

Lemma ws_notilde w : wfw w = true -> forallb (neqc "~") (ws w) = true.
Proof.
  destruct w as [[t|r suf]|e]; intro H.
  - apply wf_ytok_x in H as (H & N & _). cbn [ws].
    destruct (xstok_word t H N) as [_ Hw]. eapply forallb_impl; [|exact Hw].
    intros c Hc. unfold wordc in Hc. apply andb_true_iff in Hc. tauto.
  - apply wf_ytok_glue in H as (_ & H & _). cbn [ws]. rewrite forallb_app, (plain_notilde _ H). reflexivity.
  - pose proof (wfw_end _ H) as W. destruct e as [| |w|w|a plus|w|r]; cbn [ws]; try reflexivity;
      cbn [wf_yend] in W; rewrite forallb_app, (plain_notilde _ W); reflexivity.
Qed.

Lemma strip_tilde_words q : forallb wfw q = true ->
  strip_tilde [] 0 (ljoin (map ws q)) = ljoin (map ws q).
Proof.
  intro Hwf. rewrite strip_tilde_none; [reflexivity|].
  apply forallb_ljoin; [reflexivity|].
  intros x Hx. apply in_map_iff in Hx as (t & <- & Hin).
  apply ws_notilde. eapply forallb_forall in Hwf; eauto.
Qed.

(* ------------------------------------------------------------------------------ *)
(* step 5: str.format                                                              *)

(* the word that replaces w, and the key entries left *)
Definition wsub1 (w : yword) (key : list string) : option (string * list string) :=
  match w with
  | WT (YX (XLit s)) => Some (s, key)
  | WT (YX (XLitRe r)) => Some (print_sre r, key)
  | WT (YGlue _ suf) => match key with k :: ks => Some ((k ++ suf)%string, ks) | [] => None end
  | WT (YX _) => match key with k :: ks => Some (k, ks) | [] => None end
  | WE EPlain => None
  | WE (EDots s) => Some ((s ++ "...")%string, key)
  | WE (EEndLit s) => Some ((s ++ "$")%string, key)
  | WE (ELitTilde s) => match key with k :: ks => Some ((s ++ k)%string, ks) | [] => None end
  | WE _ => match key with k :: ks => Some (k, ks) | [] => None end
  end.

Fixpoint wsubst (q : list yword) (key : list string) : option (list string) :=
  match q with
  | [] => Some []
  | w :: q' =>
    match wsub1 w key with
    | Some (x, ks) => option_map (cons x) (wsubst q' ks)
    | None => None
    end
  end.

Lemma plain_nobrace w : plain_word w = true -> forallb nobrace (l_of w) = true.
Proof. apply nobrace_lit. Qed.

Lemma format_word w rest key : wfw w = true ->
  format_l (ws w ++ rest) key =
  match wsub1 w key with
  | Some (x, ks) => option_map (app (l_of x)) (format_l rest ks)
  | None => None
  end.
Proof.
  intro H. destruct w as [[t|r suf]|e].
  - apply wf_ytok_x in H as (H & N & _). cbn [ws].
    destruct t as [w| |r| |r|r]; try discriminate; cbn [xstok wsub1].
    + apply format_plain. apply plain_nobrace. exact H.
    + rewrite format_hole. destruct key; reflexivity.
    + rewrite format_hole. destruct key; reflexivity.
    + rewrite format_hole. destruct key; reflexivity.
    + apply wf_litre in H as [H _]. rewrite format_plain by (apply nobrace_lre; exact H).
      unfold print_sre. rewrite l_of_s_of. reflexivity.
  - apply wf_ytok_glue in H as (_ & H & _). cbn [ws wsub1]. rewrite <- app_assoc, format_hole.
    destruct key as [|k ks]; [reflexivity|]. rewrite format_plain by (apply plain_nobrace; exact H).
    rewrite l_of_app. destruct (format_l rest ks); [|reflexivity]. cbn. rewrite <- app_assoc. reflexivity.
  - pose proof (wfw_end _ H) as W. destruct e as [| |w|w|a plus|w|r]; cbn [ws wsub1].
    + discriminate.
    + rewrite format_hole. destruct key; reflexivity.
    + cbn [wf_yend] in W. rewrite <- l_of_app. apply format_plain.
      rewrite l_of_app, forallb_app, (plain_nobrace _ W). reflexivity.
    + cbn [wf_yend] in W. rewrite <- app_assoc, format_plain by (apply plain_nobrace; exact W).
      rewrite format_hole. destruct key as [|k ks]; [reflexivity|]. rewrite l_of_app.
      destruct (format_l rest ks); [|reflexivity]. cbn. rewrite <- app_assoc. reflexivity.
    + rewrite format_hole. destruct key; reflexivity.
    + cbn [wf_yend] in W. change ["$"%char] with (l_of "$"). rewrite <- l_of_app. apply format_plain.
      rewrite l_of_app, forallb_app, (plain_nobrace _ W). reflexivity.
    + rewrite format_hole. destruct key; reflexivity.
Qed.

Definition ltail (l : list (list ascii)) : list ascii := flat_map (fun x => sp :: x) l.

Lemma ljoin_tail x l : ljoin (x :: l) = x ++ ltail l.
Proof.
  revert x. induction l as [|y l IH]; intro x.
  - cbn. symmetry. apply app_nil_r.
  - rewrite ljoin_cons2, IH. reflexivity.
Qed.

Lemma format_tailw q : forall key, forallb wfw q = true ->
  format_l (ltail (map ws q)) key = option_map tailwords (wsubst q key).
Proof.
  induction q as [|w q IH]; intros key Hwf; [reflexivity|].
  cbn [forallb] in Hwf. apply andb_true_iff in Hwf as [Hw Hwf].
  cbn [map ltail flat_map wsubst]. fold (ltail (map ws q)).
  assert (Hsp : forall a k, format_l (sp :: a) k = option_map (cons sp) (format_l a k)) by reflexivity.
  cbn [app]. rewrite Hsp, format_word by exact Hw.
  destruct (wsub1 w key) as [[x ks]|]; [|reflexivity].
  rewrite IH by exact Hwf. destruct (wsubst q ks); reflexivity.
Qed.

Lemma format_words q key : q <> [] -> forallb wfw q = true ->
  format_l (ljoin (map ws q)) key = option_map ljoin_words (wsubst q key).
Proof.
  intros Hne Hwf. destruct q as [|w q]; [congruence|].
  cbn [forallb] in Hwf. apply andb_true_iff in Hwf as [Hw Hwf].
  rewrite map_cons, ljoin_tail, format_word by exact Hw. cbn [wsubst].
  destruct (wsub1 w key) as [[x ks]|]; [|reflexivity].
  rewrite format_tailw by exact Hwf. destruct (wsubst q ks) as [l|]; [|reflexivity].
  cbn [option_map]. rewrite ljoin_words_cons. reflexivity.
Qed.

(* the substitution on words is the substitution of Spec/P_C07Y.v *)
Lemma wsubst_ysubst ts : forall e key, forallb wf_ytok ts = true ->
  wsubst (ywords ts e) key = ysubst_key e ts key.
Proof.
  induction ts as [|t ts IH]; intros e key Hwf.
  - unfold ywords. cbn [map app ysubst_key].
    destruct e as [| |w|w|a plus|w|r]; cbn; try reflexivity; destruct key; reflexivity.
  - cbn [forallb] in Hwf. apply andb_true_iff in Hwf as [Ht Hwf].
    unfold ywords. cbn [map app wsubst]. fold (ywords ts e).
    destruct t as [[w| |r| |r|r]|r suf]; cbn [wsub1 ysubst_key];
      try (rewrite IH by exact Hwf; reflexivity);
      try (destruct key as [|k ks]; [reflexivity|]; rewrite IH by exact Hwf; reflexivity).
    apply wf_ytok_x in Ht as (_ & N & _). discriminate.
Qed.

(* ------------------------------------------------------------------------------ *)
(* the removal command                                                             *)

Lemma wf_ynew_parts p : wf_ynew p = true ->
  forallb wf_ytok (y_toks p) = true /\ wf_yend (y_end p) = true /\ ywords (y_toks p) (y_end p) <> [].
Proof.
  unfold wf_ynew. intro H. apply andb_true_iff in H as [H _]. apply andb_true_iff in H as [H H3].
  apply andb_true_iff in H as [H1 H2]. repeat split; try assumption.
  unfold ywords. destruct (y_toks p); [|discriminate]. destruct (y_end p); [discriminate|..]; discriminate.
Qed.

Lemma ywords_wf ts e : forallb wf_ytok ts = true -> wf_yend e = true ->
  forallb wfw (ywords ts e) = true /\ welast (ywords ts e) = true.
Proof.
  intros Hts He. unfold ywords. split.
  - rewrite forallb_app. replace (forallb wfw (map WT ts)) with true.
    + destruct e; cbn; try reflexivity; cbn in He; rewrite He; reflexivity.
    + symmetry. rewrite forallb_forall in *. intros x Hx. apply in_map_iff in Hx as (t & <- & Hin).
      cbn. apply Hts. exact Hin.
  - clear Hts. induction ts as [|t ts IH].
    + destruct e; reflexivity.
    + cbn [map app]. rewrite welast_wt. exact IH.
Qed.

Lemma make_reverse_l_ypat p prefix :
  wf_ynew p = true -> plain_word prefix = true ->
  let q := reverse_ypat p prefix in
  make_reverse_l (l_of (print_ypat p)) (l_of prefix) = ljoin (map ws (ywords (y_toks q) (y_end q))).
Proof.
  intros Hwf Hp q. apply wf_ynew_parts in Hwf as (Hts & He & Hne).
  destruct (ywords_wf _ _ Hts He) as [Hw Hl].
  destruct (wreverse_wf _ prefix Hw Hl Hp) as [Hw' Hl'].
  unfold make_reverse_l. rewrite text_of_ypat, reverse_row_words by assumption.
  rewrite tth_words, sub_star_words, strip_tilde_words by assumption.
  subst q. rewrite ywords_reverse. reflexivity.
Qed.

Theorem make_reverse_yformat p prefix key :
  wf_ypat p = true -> plain_word prefix = true -> yproj p = None ->
  format_template_opt (make_reverse (print_ypat p) prefix) key = yref_reverse p prefix key.
Proof.
  intros Hwf Hp N. unfold wf_ypat in Hwf. rewrite N in Hwf.
  unfold format_template_opt, make_reverse, yref_reverse. rewrite N.
  rewrite l_of_s_of, make_reverse_l_ypat by assumption. cbv zeta.
  pose proof (wf_ynew_parts _ Hwf) as (Hts & He & Hne).
  destruct (ywords_wf _ _ Hts He) as [Hw Hl].
  destruct (wreverse_wf _ prefix Hw Hl Hp) as [Hw' Hl'].
  rewrite ywords_reverse.
  rewrite format_words by (try apply wreverse_nonempty; assumption).
  rewrite <- ywords_reverse. rewrite wsubst_ysubst.
  - destruct (ysubst_key _ _ key) as [l|]; [|reflexivity]. cbn [option_map].
    rewrite s_of_ljoin_words. reflexivity.
  - (* the tokens of the reversed pattern are well formed *)
    clear -Hts Hp. destruct p as [ts e]. unfold reverse_ypat. cbn [y_toks y_end] in *.
    assert (G : forallb wf_ytok (YX (XLit prefix) :: ts) = true).
    { cbn [forallb wf_ytok wf_xtok is_xtildere is_xtilde negb]. rewrite Hp, Hts. reflexivity. }
    destruct ts as [|[[w| |r| |r|r]|r suf] ts]; try exact G.
    destruct (String.eqb w prefix && _); [|exact G]. cbn [y_toks].
    cbn [forallb] in Hts. apply andb_true_iff in Hts. tauto.
Qed.

Lemma yproj_some p xp : yproj p = Some xp -> p = yembed xp.
Proof.
  destruct p as [ts e]. unfold yproj, yembed. cbn [y_toks y_end]. destruct e; try discriminate.
  revert xp. induction ts as [|t ts IH]; intros xp H.
  - injection H as <-. reflexivity.
  - destruct t as [t|r suf]; [|discriminate]. cbn [yproj_toks] in H.
    destruct (yproj_toks ts) as [q|]; [|discriminate]. injection H as <-.
    specialize (IH q eq_refl). injection IH as ->. reflexivity.
Qed.

(* ------------------------------------------------------------------------------ *)
(* the model satisfies the whole predicate of Spec/P_C07Y.v                         *)

Theorem P_C07Y_model x :
  wf_C07Y x = true -> rule_has_ic (ci_rule x) = false -> qf_C07Y x = true ->
  P_C07Y x (model_C07Y x) = true.
Proof.
  intros Hwf Hic Hq. unfold wf_C07Y in Hwf. apply andb_true_iff in Hwf as [Hwf Hp].
  apply andb_true_iff in Hwf as [Hr _].
  unfold P_C07Y, model_C07Y, qf_C07Y in *.
  destruct (yrule_pat (ci_rule x)) as [p|] eqn:E; [|discriminate].
  unfold yrule_pat in E. rewrite rule_strip_ic_noop in E by exact Hic.
  apply parse_ypat_sound in E as [Wp Ep]. cbn [co_ffmt co_rows].
  assert (F : forall key, format_template_opt (make_reverse (ci_rule x) (ci_prefix x)) key
                          = yref_reverse p (ci_prefix x) key).
  { intro key. rewrite <- Ep. destruct (yproj p) as [xp|] eqn:Pj.
    - apply yproj_some in Pj. subst p. unfold wf_ypat in Wp. rewrite yproj_embed in Wp.
      unfold yref_reverse. rewrite yproj_embed, print_ypat_embed.
      apply make_reverse_xformat; assumption.
    - apply make_reverse_yformat; assumption. }
  rewrite F, opt_str_eqb_refl. cbn [andb].
  match goal with |- list_eqb _ ?a ?b = true => replace a with b; [apply list_eqb_refl, row_out_eqb_refl|] end.
  apply map_ext. intro row. unfold yspec_row.
  assert (M : ypmatch p (rule_ic (ci_rule x) (ci_ic x)) row = yref_match p (rule_ic (ci_rule x) (ci_ic x)) row).
  { unfold ypmatch, yref_match, yquirk_free in *. destruct (yproj p) as [xp|]; [|reflexivity].
    destruct xp; [reflexivity|]. unfold xpmatch, xref_match. apply xmatch_quirk_free. exact Hq. }
  rewrite M. destruct (yref_match p _ row) as [key|]; [|reflexivity]. rewrite F. reflexivity.
Qed.

(* the template itself *)
Definition wtmpl (w : yword) : string :=
  match w with
  | WT (YX (XLit s)) => s
  | WT (YX (XLitRe r)) => print_sre r
  | WT (YGlue _ suf) => ("{}" ++ suf)%string
  | WT (YX _) => "{}"
  | WE EPlain => ""
  | WE (EDots s) => (s ++ "...")%string
  | WE (EEndLit s) => (s ++ "$")%string
  | WE (ELitTilde s) => (s ++ "{}")%string
  | WE _ => "{}"
  end.

Lemma ws_wtmpl w : wfw w = true -> ws w = l_of (wtmpl w).
Proof.
  destruct w as [[t|r suf]|e]; intro H.
  - apply wf_ytok_x in H as (_ & N & _).
    destruct t as [w| |r| |r|r]; try discriminate; try reflexivity.
    cbn [ws xstok wtmpl]. unfold print_sre. rewrite l_of_s_of. reflexivity.
  - cbn [ws wtmpl]. rewrite l_of_app. reflexivity.
  - destruct e as [| |w|w|a plus|w|r]; cbn [ws wtmpl]; rewrite ?l_of_app; reflexivity.
Qed.

(* _make_reverse(row, prefix): the negation word and the rule's words, placeholders as "{}"
   (a glued one keeps its suffix, `w~` keeps w), `w...` and `w$` as their source text *)
Theorem make_reverse_ytemplate p prefix :
  wf_ypat p = true -> plain_word prefix = true -> yproj p = None ->
  let q := reverse_ypat p prefix in
  make_reverse (print_ypat p) prefix = join_with " " (map wtmpl (ywords (y_toks q) (y_end q))).
Proof.
  intros Hwf Hp N q. unfold wf_ypat in Hwf. rewrite N in Hwf.
  unfold make_reverse. rewrite make_reverse_l_ypat by assumption. cbv zeta. fold q.
  apply wf_ynew_parts in Hwf as (Hts & He & Hne).
  destruct (ywords_wf _ _ Hts He) as [Hw Hl].
  destruct (wreverse_wf _ prefix Hw Hl Hp) as [Hw' _].
  subst q. rewrite ywords_reverse.
  apply l_of_inj. rewrite l_of_s_of, l_of_join, map_map. f_equal.
  apply map_ext_in. intros w Hin. apply ws_wtmpl. eapply forallb_forall in Hw'; eauto.
Qed.
