(* C18 — lemma library for Model/HwDb.v and Spec/P_C18.v *)
From Coq Require Import List String Bool Arith Lia Permutation.
From Annet Require Import Base.Str Model.HwDb Spec.P_C18.
Import ListNotations.
Open Scope string_scope.
Open Scope list_scope.
Arguments Nat.ltb : simpl never.
Arguments Nat.leb : simpl never.

(* ---------------------------------------------------------------------------------- *)
(* booleans <-> propositions *)

Lemma seq_eqb_eq a b : seq_eqb a b = true <-> a = b.
Proof. unfold seq_eqb. apply list_str_eqb_eq. Qed.

Lemma seq_eqb_refl a : seq_eqb a a = true.
Proof. apply seq_eqb_eq. reflexivity. Qed.

Lemma mem_In s l : mem s l = true <-> In s l.
Proof.
  unfold mem. rewrite existsb_exists. split.
  - intros [x [Hx He]]. apply seq_eqb_eq in He. subst. exact Hx.
  - intros H. exists s. split; [exact H | apply seq_eqb_refl].
Qed.

Lemma dedup_In x l : In x (dedup l) <-> In x l.
Proof.
  induction l as [|a r IH]; cbn; [tauto|].
  destruct (mem a r) eqn:E.
  - rewrite IH. split; [tauto|]. intros [H|H]; [subst; apply mem_In; exact E | exact H].
  - cbn. rewrite IH. tauto.
Qed.

Lemma lookup_In {B} s (l : list (seq * B)) v : lookup s l = Some v -> In (s, v) l.
Proof.
  induction l as [|[k w] r IH]; cbn; [discriminate|].
  destruct (seq_eqb s k) eqn:E.
  - intros H. injection H as H. subst. apply seq_eqb_eq in E. subst. left. reflexivity.
  - intros H. right. apply IH. exact H.
Qed.

Lemma lookup_key {B} s (l : list (seq * B)) v : lookup s l = Some v -> In s (map fst l).
Proof. intros H. apply lookup_In in H. apply (in_map fst) in H. exact H. Qed.

Lemma lookup_some_of_key {B} s (l : list (seq * B)) : In s (map fst l) -> exists v, lookup s l = Some v.
Proof.
  induction l as [|[k w] r IH]; cbn; [tauto|].
  intros [H|H].
  - subst. rewrite seq_eqb_refl. eauto.
  - destruct (seq_eqb s k); eauto.
Qed.

(* ---------------------------------------------------------------------------------- *)
(* prefixes *)

Lemma prefixes_head {A} (l : list A) : prefixes l = [] :: tl (prefixes l).
Proof. destruct l; reflexivity. Qed.

Lemma seq_subs_cons x r : seq_subs (x :: r) = [x] :: map (cons x) (seq_subs r).
Proof. unfold seq_subs. cbn. rewrite (prefixes_head r). reflexivity. Qed.

Lemma seq_subs_nil : seq_subs [] = [].
Proof. reflexivity. Qed.

(* a step of the chain of s is a prefix whose own chain is the part of the chain up to it *)
Lemma seq_subs_split s : forall l1 q l2, seq_subs s = l1 ++ q :: l2 -> seq_subs q = l1 ++ [q].
Proof.
  induction s as [|x r IH]; intros l1 q l2 H.
  - rewrite seq_subs_nil in H. destruct l1; discriminate.
  - rewrite seq_subs_cons in H. destruct l1 as [|a l1'].
    + cbn in H. injection H as H1 H2. subst q. rewrite seq_subs_cons, seq_subs_nil. reflexivity.
    + cbn in H. injection H as H1 H2. subst a.
      apply map_eq_app in H2. destruct H2 as [m1 [m2 [E [E1 E2]]]].
      apply map_eq_cons in E2. destruct E2 as [q' [m2' [E3 [E4 E5]]]]. subst.
      rewrite seq_subs_cons. rewrite (IH m1 q' m2' E). rewrite map_app. reflexivity.
Qed.

Lemma seq_subs_last s : s <> [] -> exists l1, seq_subs s = l1 ++ [s].
Proof.
  induction s as [|x r IH]; intros H; [congruence|].
  rewrite seq_subs_cons. destruct r as [|y r'].
  - exists []. reflexivity.
  - destruct IH as [l1 E]; [discriminate|]. rewrite E. exists ([x] :: map (cons x) l1).
    rewrite map_app. reflexivity.
Qed.

Lemma seq_subs_nonempty s p : In p (seq_subs s) -> p <> [].
Proof.
  destruct s as [|x r]; [intros []|]. rewrite seq_subs_cons. intros [H|H].
  - subst. discriminate.
  - apply in_map_iff in H. destruct H as [y [E _]]. subst. discriminate.
Qed.

(* ---------------------------------------------------------------------------------- *)
(* sequence *)

Lemma sequence_Forall2 {A B} (f : A -> option B) l p :
  sequence (map f l) = Some p -> Forall2 (fun a b => f a = Some b) l p.
Proof.
  revert p. induction l as [|a r IH]; cbn; intros p H.
  - injection H as H. subst. constructor.
  - destruct (f a) eqn:E; [|discriminate]. destruct (sequence (map f r)) eqn:E2; [|discriminate].
    injection H as H. subst. constructor; [exact E | apply IH; reflexivity].
Qed.

Lemma Forall2_sequence {A B} (f : A -> option B) l p :
  Forall2 (fun a b => f a = Some b) l p -> sequence (map f l) = Some p.
Proof.
  induction 1 as [|a b l p H _ IH]; cbn; [reflexivity|]. rewrite H, IH. reflexivity.
Qed.

(* ---------------------------------------------------------------------------------- *)
(* the tree as a finite map  regex-id path -> sequences *)

Fixpoint flat_node (n : node) : list (list rid * list seq) :=
  match n with
  | Node r ss kids => ([r], ss) :: map (fun e => (r :: fst e, snd e)) (flat_map flat_node kids)
  end.
Definition flat (t : list node) : list (list rid * list seq) := flat_map flat_node t.

Fixpoint node_ind' (P : node -> Prop)
  (H : forall r ss kids, Forall P kids -> P (Node r ss kids)) (n : node) : P n :=
  match n with
  | Node r ss kids =>
    H r ss kids ((fix go (l : list node) : Forall P l :=
                    match l with
                    | [] => Forall_nil P
                    | x :: r => Forall_cons x (node_ind' P H x) (go r)
                    end) kids)
  end.

Section HitLemmas.
  Variable M : Type.
  Variable hit : rid -> M -> bool.

  Lemma node_true_flat m n s :
    In s (node_true M hit m n) <->
    exists rho ss, In (rho, ss) (flat_node n) /\ forallb (fun r => hit r m) rho = true /\ In s ss.
  Proof.
    induction n as [r ss kids IH] using node_ind'. cbn [node_true flat_node].
    destruct (hit r m) eqn:Hr.
    - rewrite in_app_iff. split.
      + intros [H|H].
        * exists [r], ss. cbn. rewrite Hr. auto.
        * apply in_flat_map in H. destruct H as [k [Hk Hs]].
          rewrite Forall_forall in IH. apply (IH k Hk) in Hs.
          destruct Hs as [rho [ss' [H1 [H2 H3]]]].
          exists (r :: rho), ss'. split; [|split].
          -- right. apply in_map_iff. exists (rho, ss'). split; [reflexivity|].
             apply in_flat_map. exists k. auto.
          -- cbn. rewrite Hr. exact H2.
          -- exact H3.
      + intros [rho [ss' [[H1|H1] [H2 H3]]]].
        * injection H1 as E1 E2. subst. left. exact H3.
        * right. apply in_map_iff in H1. destruct H1 as [[rho' ss''] [E H1]]. cbn in E.
          injection E as E1 E2. subst. apply in_flat_map in H1. destruct H1 as [k [Hk Hin]].
          apply in_flat_map. exists k. split; [exact Hk|].
          rewrite Forall_forall in IH. apply (IH k Hk). exists rho', ss'.
          cbn in H2. rewrite Hr in H2. auto.
    - split; [intros []|]. intros [rho [ss' [[H1|H1] [H2 H3]]]].
      + injection H1 as E1 E2. subst. cbn in H2. rewrite Hr in H2. discriminate.
      + apply in_map_iff in H1. destruct H1 as [[rho' ss''] [E H1]]. cbn in E.
        injection E as E1 E2. subst. cbn in H2. rewrite Hr in H2. discriminate.
  Qed.

  Lemma tree_true_flat m t s :
    In s (tree_true M hit m t) <->
    exists rho ss, In (rho, ss) (flat t) /\ forallb (fun r => hit r m) rho = true /\ In s ss.
  Proof.
    unfold tree_true, flat. rewrite in_flat_map. split.
    - intros [n [Hn Hs]]. apply node_true_flat in Hs. destruct Hs as [rho [ss [H1 H2]]].
      exists rho, ss. split; [|exact H2]. apply in_flat_map. exists n. auto.
    - intros [rho [ss [H1 H2]]]. apply in_flat_map in H1. destruct H1 as [n [Hn H1]].
      exists n. split; [exact Hn|]. apply node_true_flat. exists rho, ss. auto.
  Qed.
End HitLemmas.

(* ---------------------------------------------------------------------------------- *)
(* ins: creates exactly the missing nodes of the path *)

Lemma ins_cons r ss rest t :
  ins ((r, ss) :: rest) t =
  match t with
  | [] => [Node r ss (ins rest [])]
  | Node r' ss' k :: t' =>
    if Nat.eqb r r' then Node r' ss' (ins rest k) :: t'
    else Node r' ss' k :: ins ((r, ss) :: rest) t'
  end.
Proof. destruct t as [|[r' ss' k] t']; reflexivity. Qed.

Lemma flat_cons n t : flat (n :: t) = flat_node n ++ flat t.
Proof. reflexivity. Qed.

Lemma flat_node_eq r ss k : flat_node (Node r ss k) = ([r], ss) :: map (fun e => (r :: fst e, snd e)) (flat k).
Proof. reflexivity. Qed.

Lemma ins_mono path : forall t e, In e (flat t) -> In e (flat (ins path t)).
Proof.
  induction path as [|[r ss] rest IH]; intros t e H; [exact H|].
  induction t as [|[r' ss' k] t' IHt]; [destruct H|].
  rewrite ins_cons. destruct (Nat.eqb r r') eqn:E.
  - rewrite flat_cons, flat_node_eq in *. rewrite in_app_iff in *. destruct H as [H|H]; [|auto].
    left. destruct H as [H|H]; [left; exact H|]. right.
    apply in_map_iff in H. destruct H as [x [E1 H]]. apply in_map_iff. exists x. auto.
  - rewrite flat_cons in *. rewrite in_app_iff in *. destruct H as [H|H]; auto.
Qed.

Lemma ins_sound path : forall t rho ss,
  In (rho, ss) (flat (ins path t)) ->
  In (rho, ss) (flat t) \/
  exists p1 x p2, path = p1 ++ x :: p2 /\ rho = map fst (p1 ++ [x]) /\ ss = snd x.
Proof.
  induction path as [|[r ss0] rest IH]; intros t rho ss H; [left; exact H|].
  assert (Hnew : forall k, In (rho, ss) (flat_node (Node r ss0 (ins rest k))) ->
                 In (rho, ss) (flat_node (Node r ss0 k)) \/
                 exists p1 x p2, (r, ss0) :: rest = p1 ++ x :: p2 /\ rho = map fst (p1 ++ [x]) /\ ss = snd x).
  { intros k Hk. rewrite flat_node_eq in Hk. destruct Hk as [Hk|Hk].
    - left. rewrite flat_node_eq. left. exact Hk.
    - apply in_map_iff in Hk. destruct Hk as [[rho' ss'] [E Hk]]. cbn in E. injection E as E1 E2. subst.
      apply IH in Hk. destruct Hk as [Hk|[p1 [x [p2 [E1 [E2 E3]]]]]].
      + left. rewrite flat_node_eq. right. apply in_map_iff. exists (rho', ss). auto.
      + right. exists ((r, ss0) :: p1), x, p2. subst. auto. }
  induction t as [|[r' ss' k] t' IHt].
  - rewrite ins_cons in H. rewrite flat_cons in H. cbn [flat flat_map] in H. rewrite app_nil_r in H.
    apply Hnew in H. destruct H as [H|H]; [|right; exact H].
    rewrite flat_node_eq in H. destruct H as [H|H].
    + injection H as E1 E2. right. exists [], (r, ss0), rest. cbn. subst. auto.
    + cbn in H. destruct H.
  - rewrite ins_cons in H. destruct (Nat.eqb r r') eqn:E.
    + apply Nat.eqb_eq in E. subst r'. rewrite flat_cons in *. rewrite in_app_iff in H.
      destruct H as [H|H].
      * rewrite flat_node_eq in H. destruct H as [H|H].
        -- left. apply in_or_app. left. rewrite flat_node_eq. left. exact H.
        -- apply in_map_iff in H. destruct H as [[rho' ss''] [E Hk]]. cbn in E. injection E as E1 E2. subst.
           apply IH in Hk. destruct Hk as [Hk|[p1 [x [p2 [E1 [E2 E3]]]]]].
           ++ left. apply in_or_app. left. rewrite flat_node_eq. right. apply in_map_iff. exists (rho', ss). auto.
           ++ right. exists ((r, ss0) :: p1), x, p2. subst. auto.
      * left. apply in_or_app. right. exact H.
    + rewrite flat_cons in *. rewrite in_app_iff in H. destruct H as [H|H].
      * left. apply in_or_app. left. exact H.
      * apply IHt in H. destruct H as [H|H]; [left; apply in_or_app; right; exact H | right; exact H].
Qed.

Lemma ins_present path : forall t p1 x p2, path = p1 ++ x :: p2 ->
  exists ss', In (map fst (p1 ++ [x]), ss') (flat (ins path t)).
Proof.
  induction path as [|[r ss0] rest IH]; intros t p1 x p2 E; [destruct p1; discriminate|].
  destruct p1 as [|y p1'].
  - cbn in E. injection E as E1 E2. subst x rest. cbn [map fst app].
    induction t as [|[r' ss' k] t' IHt].
    + rewrite ins_cons. eexists. rewrite flat_cons, flat_node_eq. left. reflexivity.
    + rewrite ins_cons. destruct (Nat.eqb r r') eqn:E.
      * apply Nat.eqb_eq in E. subst. eexists. rewrite flat_cons, flat_node_eq. left. reflexivity.
      * destruct IHt as [ss'' H]. exists ss''. rewrite flat_cons. apply in_or_app. right. exact H.
  - cbn in E. injection E as E1 E2. subst y.
    assert (Hk : forall k, exists ss', In (map fst (((r, ss0) :: p1') ++ [x]), ss') (flat_node (Node r ss0 (ins rest k)))).
    { intros k. destruct (IH k p1' x p2 E2) as [ss' H]. exists ss'. rewrite flat_node_eq. right.
      apply in_map_iff. exists (map fst (p1' ++ [x]), ss'). split; [reflexivity | exact H]. }
    induction t as [|[r' ss' k] t' IHt].
    + rewrite ins_cons. destruct (Hk []) as [ss' H]. exists ss'. rewrite flat_cons. apply in_or_app. left. exact H.
    + rewrite ins_cons. destruct (Nat.eqb r r') eqn:E.
      * apply Nat.eqb_eq in E. subst r'. destruct (Hk k) as [ss'' H]. exists ss''.
        rewrite flat_cons. apply in_or_app. left. rewrite flat_node_eq in *. destruct H as [H|H].
        -- injection H as H1 H2. destruct p1'; discriminate.
        -- right. exact H.
      * destruct IHt as [ss'' H]. exists ss''. rewrite flat_cons. apply in_or_app. right. exact H.
Qed.

(* ---------------------------------------------------------------------------------- *)
(* the tree built from a database *)

Lemma lookup_map_key {B} (g : seq -> B) (l : db) q a :
  lookup q (map (fun e => (fst e, g (fst e))) l) = Some a -> a = g q.
Proof.
  induction l as [|[k r] l IH]; cbn; [discriminate|].
  destruct (seq_eqb q k) eqn:E.
  - apply seq_eqb_eq in E. subst. intros H. injection H as H. auto.
  - exact IH.
Qed.

Lemma lookup_make_allowed d q a :
  lookup q (make_allowed d) = Some a -> a = allowed_of (all_variants d) q.
Proof. unfold make_allowed. cbv zeta. apply lookup_map_key. Qed.

Definition step_ok (d : db) (al : list (seq * list seq)) (q : seq) (x : rid * list seq) : Prop :=
  lookup q d = Some (fst x) /\ lookup q al = Some (snd x).

Lemma path_of_Forall2 d al s p : path_of d al s = Some p -> Forall2 (step_ok d al) (seq_subs s) p.
Proof.
  unfold path_of. intros H. apply sequence_Forall2 in H.
  induction H as [|q x l p H _ IH]; constructor; [|exact IH].
  unfold step_ok. destruct (lookup q d); [|discriminate]. destruct (lookup q al); [|discriminate].
  injection H as H. subst. auto.
Qed.

Lemma rpath_of_Forall2 d al l p :
  Forall2 (step_ok d al) l p -> sequence (map (fun q => lookup q d) l) = Some (map fst p).
Proof.
  induction 1 as [|q x l p [H1 H2] _ IH]; cbn; [reflexivity|]. rewrite H1, IH. reflexivity.
Qed.

Lemma path_entry d al s p p1 x p2 :
  path_of d al s = Some p -> p = p1 ++ x :: p2 ->
  exists q, In q (seq_subs s) /\ In q (keys d) /\ rpath d q = Some (map fst (p1 ++ [x])) /\ lookup q al = Some (snd x).
Proof.
  intros H E. apply path_of_Forall2 in H. subst p.
  apply Forall2_app_inv_r in H. destruct H as [l1 [l2' [F1 [F2 E]]]].
  inversion F2 as [|q x' l2 p2' Fq F3]; subst.
  exists q. split; [rewrite E; apply in_or_app; right; left; reflexivity|].
  split; [destruct Fq as [Fq _]; apply lookup_key in Fq; exact Fq|].
  split; [|destruct Fq as [_ Fq]; exact Fq].
  unfold rpath. rewrite (seq_subs_split s l1 q l2 E).
  apply (rpath_of_Forall2 d al). apply Forall2_app; [exact F1|]. constructor; [exact Fq | constructor].
Qed.

Definition entry_ok (d : db) (e : list rid * list seq) : Prop :=
  exists q, In q (keys d) /\ rpath d q = Some (fst e) /\ snd e = allowed_of (all_variants d) q.

Lemma build_inv d : forall todo t t',
  build d (make_allowed d) todo t = Some t' ->
  (forall e, In e (flat t) -> entry_ok d e) ->
  (forall e, In e (flat t') -> entry_ok d e) /\
  (forall e, In e (flat t) -> In e (flat t')) /\
  (forall s, In s (keys todo) -> s <> [] -> exists rho ss', rpath d s = Some rho /\ In (rho, ss') (flat t')).
Proof.
  induction todo as [|[s r] todo IH]; intros t t' H Hok.
  - cbn in H. injection H as H. subst. split; [exact Hok|]. split; [auto|]. intros s [].
  - cbn [build] in H. destruct (path_of d (make_allowed d) s) as [p|] eqn:Ep; [|discriminate].
    assert (Hok' : forall e, In e (flat (ins p t)) -> entry_ok d e).
    { intros [rho ss] He. apply ins_sound in He. destruct He as [He|[p1 [x [p2 [E1 [E2 E3]]]]]]; [auto|].
      destruct (path_entry _ _ _ _ _ _ _ Ep E1) as [q [_ [Hq [Hr Hl]]]].
      exists q. cbn [fst snd]. subst rho ss. split; [exact Hq|]. split; [exact Hr|].
      apply lookup_make_allowed. exact Hl. }
    destruct (IH _ _ H Hok') as [I1 [I2 I3]]. split; [exact I1|]. split.
    + intros e He. apply I2. apply ins_mono. exact He.
    + intros s' [Hs|Hs] Hne.
      * cbn in Hs. subst s'.
        assert (Hp : p <> []).
        { apply path_of_Forall2 in Ep. destruct (seq_subs_last s Hne) as [l1 El]. rewrite El in Ep.
          intros ->. inversion Ep as [E0|]. destruct l1; discriminate. }
        destruct (exists_last Hp) as [p1 [x Epx]].
        destruct (ins_present p t p1 x [] Epx) as [ss' Hin].
        assert (Hr : rpath d s = Some (map fst (p1 ++ [x]))).
        { unfold rpath. rewrite <- Epx. apply (rpath_of_Forall2 d (make_allowed d)).
          apply path_of_Forall2. exact Ep. }
        exists (map fst (p1 ++ [x])), ss'. split; [exact Hr|]. apply I2. exact Hin.
      * apply I3; assumption.
Qed.

(* ---------------------------------------------------------------------------------- *)
(* a usable variant has exactly one owner *)

Lemma count_app v l1 l2 : count v (l1 ++ l2) = count v l1 + count v l2.
Proof. unfold count. rewrite filter_app, app_length. reflexivity. Qed.

Lemma count_pos v l : In v l -> 1 <= count v l.
Proof.
  unfold count. induction l as [|a r IH]; cbn; [tauto|]. intros [H|H].
  - subst. rewrite seq_eqb_refl. cbn. lia.
  - destruct (seq_eqb v a); cbn; [lia | auto].
Qed.

Lemma variant_owner (d : db) v p q :
  count v (all_variants d) <= 1 -> In p (keys d) -> In q (keys d) ->
  In v (variants p) -> In v (variants q) -> p = q.
Proof.
  unfold all_variants, keys. induction d as [|e r IH]; [cbn; intros _ []|]. cbn [flat_map map].
  rewrite count_app. intros Hc Hp Hq Vp Vq.
  assert (Hr : forall k, In k (map fst r) -> In v (variants k) ->
                1 <= count v (flat_map (fun e => variants (fst e)) r)).
  { intros k Hk Hv. apply count_pos. apply in_flat_map. apply in_map_iff in Hk.
    destruct Hk as [e' [E He']]. exists e'. subst. auto. }
  destruct Hp as [Hp|Hp], Hq as [Hq|Hq].
  - congruence.
  - subst p. pose proof (count_pos _ _ Vp). pose proof (Hr _ Hq Vq). lia.
  - subst q. pose proof (count_pos _ _ Vq). pose proof (Hr _ Hp Vp). lia.
  - apply IH; auto. lia.
Qed.

(* ---------------------------------------------------------------------------------- *)
(* what db_ok says *)

Lemma rids_eqb_refl a : rids_eqb a a = true.
Proof.
  unfold rids_eqb. rewrite Nat.eqb_refl. cbn. induction a as [|x r IH]; cbn; [reflexivity|].
  rewrite Nat.eqb_refl. exact IH.
Qed.

Lemma db_ok_prefix d : db_ok d = true ->
  forall s, In s (keys d) -> s <> [] /\ forall p, In p (seq_subs s) -> In p (keys d).
Proof.
  unfold db_ok. cbv zeta. intros H s Hs.
  apply andb_prop in H. destruct H as [H _]. apply andb_prop in H. destruct H as [H _].
  rewrite forallb_forall in H. specialize (H s Hs). apply andb_prop in H. destruct H as [H1 H2].
  split.
  - intros ->. cbn in H1. discriminate.
  - intros p Hp. rewrite forallb_forall in H2. apply mem_In. auto.
Qed.

Lemma db_ok_full d : db_ok d = true ->
  forall s, In s (keys d) -> In s (allowed_of (all_variants d) s).
Proof.
  unfold db_ok. cbv zeta. intros H s Hs.
  apply andb_prop in H. destruct H as [H _]. apply andb_prop in H. destruct H as [_ H].
  rewrite forallb_forall in H. apply mem_In. auto.
Qed.

Lemma db_ok_inj d : db_ok d = true ->
  forall s s' rho, In s (keys d) -> In s' (keys d) -> rpath d s = Some rho -> rpath d s' = Some rho -> s = s'.
Proof.
  unfold db_ok. cbv zeta. intros H s s' rho Hs Hs' R R'.
  apply andb_prop in H. destruct H as [_ H].
  rewrite forallb_forall in H.
  specialize (H (s, rpath d s) (in_map (fun s => (s, rpath d s)) _ _ Hs)). rewrite forallb_forall in H.
  specialize (H (s', rpath d s') (in_map (fun s => (s, rpath d s)) _ _ Hs')). cbn [fst snd] in H.
  rewrite R, R', rids_eqb_refl in H. cbn in H. rewrite orb_false_r in H. apply seq_eqb_eq. exact H.
Qed.

(* ---------------------------------------------------------------------------------- *)
(* model = chain reference, and the hierarchy *)

Lemma chain_of_rpath M (hit : rid -> M -> bool) d m : forall l rho,
  sequence (map (fun q => lookup q d) l) = Some rho ->
  forallb (fun p => match lookup p d with Some r => hit r m | None => false end) l =
  forallb (fun r => hit r m) rho.
Proof.
  induction l as [|q l IH]; cbn; intros rho H.
  - injection H as H. subst. reflexivity.
  - destruct (lookup q d) eqn:E; [|discriminate].
    destruct (sequence (map (fun q0 => lookup q0 d) l)) eqn:E2; [|discriminate].
    injection H as H. subst. cbn. rewrite (IH l0 eq_refl). reflexivity.
Qed.

Lemma build_tree_facts d t : build_tree d = Some t ->
  (forall e, In e (flat t) -> entry_ok d e) /\
  (forall s, In s (keys d) -> s <> [] -> exists rho ss', rpath d s = Some rho /\ In (rho, ss') (flat t)).
Proof.
  unfold build_tree. intros H. apply build_inv in H; [|intros e []].
  destruct H as [H1 [_ H3]]. auto.
Qed.

Theorem true_iff_chain d t :
  build_tree d = Some t -> db_ok d = true ->
  forall M (hit : rid -> M -> bool) m s, In s (keys d) ->
    (In s (tree_true M hit m t) <-> chain_hits M hit d m s = true).
Proof.
  intros Hb Hok M hit m s Hs. destruct (build_tree_facts d t Hb) as [F1 F2].
  destruct (db_ok_prefix d Hok s Hs) as [Hne _].
  destruct (F2 s Hs Hne) as [rho [ss' [Hr Hin]]].
  unfold chain_hits. rewrite (chain_of_rpath M hit d m _ _ Hr).
  rewrite tree_true_flat. split.
  - intros [rho' [ss'' [Hin' [Hh Hm]]]].
    destruct (F1 _ Hin') as [q [Hq [Hrq Ea]]]. cbn [fst snd] in *. subst ss''.
    unfold allowed_of in Hm. apply filter_In in Hm. destruct Hm as [Hv Hc]. apply Nat.leb_le in Hc.
    pose proof (db_ok_full d Hok s Hs) as Hfull. unfold allowed_of in Hfull. apply filter_In in Hfull.
    destruct Hfull as [Hvs _].
    assert (q = s) by (eapply variant_owner; eauto). subst q.
    rewrite Hr in Hrq. injection Hrq as Hrq. subst. exact Hh.
  - intros Hh. exists rho, ss'. split; [exact Hin|]. split; [exact Hh|].
    destruct (F1 _ Hin) as [q [Hq [Hrq Ea]]]. cbn [fst snd] in *.
    assert (q = s) by (eapply db_ok_inj; eauto). subst q ss'. apply db_ok_full; assumption.
Qed.

Lemma chain_hits_prefix M (hit : rid -> M -> bool) d m s p :
  chain_hits M hit d m s = true -> In p (seq_subs s) -> chain_hits M hit d m p = true.
Proof.
  unfold chain_hits. intros H Hp. apply in_split in Hp. destruct Hp as [l1 [l2 E]].
  rewrite (seq_subs_split s l1 p l2 E). rewrite E in H.
  rewrite forallb_app in *. apply andb_prop in H. destruct H as [H1 H2]. rewrite H1. cbn in *.
  apply andb_prop in H2. destruct H2 as [H2 _]. rewrite H2. reflexivity.
Qed.

Theorem prefix_closed d t :
  build_tree d = Some t -> db_ok d = true ->
  forall M (hit : rid -> M -> bool) m s p,
    In s (keys d) -> In s (tree_true M hit m t) -> In p (seq_subs s) -> In p (tree_true M hit m t).
Proof.
  intros Hb Hok M hit m s p Hs Ht Hp.
  destruct (db_ok_prefix d Hok s Hs) as [_ Hk].
  apply (true_iff_chain d t Hb Hok M hit m p (Hk p Hp)).
  apply (chain_hits_prefix M hit d m s p); [|exact Hp].
  apply (true_iff_chain d t Hb Hok M hit m s Hs). exact Ht.
Qed.

Theorem hier_ok_model d t :
  build_tree d = Some t -> db_ok d = true ->
  forall M (hit : rid -> M -> bool) m, hier_ok (keys d) (tree_true M hit m t) = true.
Proof.
  intros Hb Hok M hit m. unfold hier_ok. apply forallb_forall. intros s Hs.
  destruct (mem s (keys d)) eqn:E; [|reflexivity]. cbn. apply forallb_forall. intros p Hp.
  apply mem_In. apply mem_In in E. eapply prefix_closed; eauto.
Qed.

(* a database with a missing parent cannot be loaded at all: _build_tree raises KeyError *)
Lemma sequence_none {A B} (f : A -> option B) l x : In x l -> f x = None -> sequence (map f l) = None.
Proof.
  induction l as [|a r IH]; cbn; [tauto|]. intros [H|H] E.
  - subst. rewrite E. reflexivity.
  - destruct (f a); [|reflexivity]. rewrite (IH H E). reflexivity.
Qed.

Lemma build_none d al : forall todo t s p,
  In s (keys todo) -> In p (seq_subs s) -> lookup p d = None -> build d al todo t = None.
Proof.
  induction todo as [|[s0 r] todo IH]; intros t s p Hs Hp Hl; [destruct Hs|].
  cbn [build]. destruct Hs as [Hs|Hs].
  - cbn in Hs. subst s0. unfold path_of. rewrite (sequence_none _ _ p Hp); [reflexivity|].
    rewrite Hl. reflexivity.
  - destruct (path_of d al s0); [|reflexivity]. eapply IH; eauto.
Qed.

Theorem missing_parent_fails d s p :
  In s (keys d) -> In p (seq_subs s) -> lookup p d = None -> build_tree d = None.
Proof. intros. unfold build_tree. eapply build_none; eauto. Qed.

(* ---------------------------------------------------------------------------------- *)
(* Registry.match: head of the stable descending sort = first match with maximal dots *)

Lemma insert_desc_not_nil x l : insert_desc x l <> [].
Proof. destruct l as [|y r]; cbn [insert_desc]; [discriminate|]. destruct (Nat.ltb (snd x) (snd y)); discriminate. Qed.

Lemma sort_desc_nil l : sort_desc l = [] -> l = [].
Proof. destruct l as [|a r]; [reflexivity|]. cbn. intros H. apply insert_desc_not_nil in H. destruct H. Qed.

Lemma sort_head_is_max l :
  hd_error (sort_desc l) = find (fun x => Nat.eqb (snd x) (maxdots l)) l.
Proof.
  induction l as [|a r IH]; [reflexivity|].
  cbn [sort_desc fold_right]. fold (sort_desc r). cbn [maxdots fold_right]. fold (maxdots r).
  cbn [find]. destruct (sort_desc r) as [|y L] eqn:E.
  - apply sort_desc_nil in E. subst r. cbn. rewrite Nat.max_0_r, Nat.eqb_refl. reflexivity.
  - cbn [hd_error] in IH. symmetry in IH. pose proof (find_some _ _ IH) as [_ Hy].
    apply Nat.eqb_eq in Hy. cbn [insert_desc]. destruct (Nat.ltb (snd a) (snd y)) eqn:Hlt.
    + apply Nat.ltb_lt in Hlt. cbn [hd_error].
      replace (Nat.max (snd a) (maxdots r)) with (maxdots r) by lia.
      destruct (Nat.eqb (snd a) (maxdots r)) eqn:Ea; [apply Nat.eqb_eq in Ea; lia|].
      symmetry. exact IH.
    + apply Nat.ltb_ge in Hlt. cbn [hd_error].
      replace (Nat.max (snd a) (maxdots r)) with (snd a) by lia. rewrite Nat.eqb_refl. reflexivity.
Qed.

Theorem registry_match_spec tr all vs :
  registry_match tr all vs =
  if match_err tr all vs then VErr
  else match spec_vendor (matched tr all vs) with Some n => VName n | None => VNone end.
Proof.
  unfold registry_match, spec_vendor. destruct (match_err tr all vs); [reflexivity|].
  rewrite <- sort_head_is_max. destruct (sort_desc (matched tr all vs)) as [|[n k] L]; reflexivity.
Qed.

Lemma maxdots_perm l l' : Permutation l l' -> maxdots l = maxdots l'.
Proof.
  induction 1 as [|x l l' _ IH|x y l|l l' l'' _ IH1 _ IH2]; cbn [maxdots fold_right]; fold maxdots.
  - reflexivity.
  - fold (maxdots l) (maxdots l'). lia.
  - fold (maxdots l). lia.
  - congruence.
Qed.

Lemma maxdots_attained l : l <> [] -> exists x, In x l /\ snd x = maxdots l.
Proof.
  induction l as [|a r IH]; [congruence|]. intros _. cbn [maxdots fold_right]. fold (maxdots r).
  destruct r as [|b r'].
  - exists a. cbn. split; [auto | lia].
  - destruct IH as [x [Hx Ex]]; [discriminate|].
    destruct (Nat.le_gt_cases (maxdots (b :: r')) (snd a)).
    + exists a. split; [left; reflexivity | lia].
    + exists x. split; [right; exact Hx | lia].
Qed.

Lemma spec_vendor_perm l l' :
  Permutation l l' -> no_tie l = true -> spec_vendor l = spec_vendor l'.
Proof.
  intros HP HT. unfold spec_vendor. rewrite <- (maxdots_perm l l' HP).
  destruct (find (fun x => Nat.eqb (snd x) (maxdots l)) l) as [x|] eqn:E;
  destruct (find (fun x => Nat.eqb (snd x) (maxdots l)) l') as [x'|] eqn:E'; cbn.
  - apply find_some in E. apply find_some in E'. destruct E as [Hx Ex], E' as [Hx' Ex'].
    apply (Permutation_in _ (Permutation_sym HP)) in Hx'.
    unfold no_tie in HT. cbv zeta in HT. rewrite forallb_forall in HT. specialize (HT x Hx).
    rewrite forallb_forall in HT. specialize (HT x' Hx'). rewrite Ex, Ex' in HT. cbn in HT.
    apply String.eqb_eq in HT. rewrite HT. reflexivity.
  - exfalso. apply find_some in E. destruct E as [Hx Ex].
    pose proof (find_none _ _ E' x (Permutation_in _ HP Hx)) as Hn. cbn in Hn. congruence.
  - exfalso. apply find_some in E'. destruct E' as [Hx Ex].
    pose proof (find_none _ _ E x' (Permutation_in _ (Permutation_sym HP) Hx)) as Hn. cbn in Hn. congruence.
  - reflexivity.
Qed.

Lemma existsb_perm {A} (f : A -> bool) l l' : Permutation l l' -> existsb f l = existsb f l'.
Proof.
  intros HP. destruct (existsb f l) eqn:E; symmetry.
  - apply existsb_exists in E. destruct E as [x [Hx Fx]]. apply existsb_exists. exists x.
    split; [apply (Permutation_in _ HP Hx) | exact Fx].
  - destruct (existsb f l') eqn:E'; [|reflexivity]. apply existsb_exists in E'. destruct E' as [x [Hx Fx]].
    assert (existsb f l = true) as C; [|congruence].
    apply existsb_exists. exists x. split; [apply (Permutation_in _ (Permutation_sym HP) Hx) | exact Fx].
Qed.

Theorem registry_match_perm tr all vs vs' :
  Permutation vs vs' -> no_tie (matched tr all vs) = true ->
  registry_match tr all vs = registry_match tr all vs'.
Proof.
  intros HP HT. rewrite !registry_match_spec.
  unfold match_err. rewrite (existsb_perm _ vs vs' HP).
  destruct (existsb _ vs'); [reflexivity|].
  rewrite (spec_vendor_perm (matched tr all vs) (matched tr all vs')); [reflexivity| |exact HT].
  unfold matched. apply Permutation_flat_map. exact HP.
Qed.

(* with no raising item, no tie and at least one match, the model's choice satisfies the
   vendor part of the property predicate *)
Theorem vendor_ok_model tr all vs :
  match_err tr all vs = false -> no_tie (matched tr all vs) = true -> matched tr all vs <> [] ->
  vendor_ok tr all vs (registry_match tr all vs) = true.
Proof.
  intros HE HT HN. unfold vendor_ok. rewrite registry_match_spec, HE. cbn. rewrite HT. cbn.
  unfold spec_vendor. destruct (maxdots_attained _ HN) as [x [Hx Ex]].
  destruct (find (fun x0 => Nat.eqb (snd x0) (maxdots (matched tr all vs))) (matched tr all vs)) eqn:E.
  - cbn. apply String.eqb_refl.
  - pose proof (find_none _ _ E x Hx) as Hn. cbn in Hn. rewrite Ex, Nat.eqb_refl in Hn. discriminate.
Qed.

(* the chosen vendor holds a match with the maximal number of dots, and no match has more *)
Theorem registry_match_argmax tr all vs n :
  registry_match tr all vs = VName n ->
  exists k, In (n, k) (matched tr all vs) /\ forall x, In x (matched tr all vs) -> snd x <= k.
Proof.
  rewrite registry_match_spec. destruct (match_err tr all vs); [discriminate|].
  unfold spec_vendor. destruct (find _ _) as [[n' k]|] eqn:E; cbn; [|discriminate].
  intros H. injection H as H. subst n'. apply find_some in E. destruct E as [Hin Hk].
  cbn in Hk. apply Nat.eqb_eq in Hk. exists k. split; [exact Hin|]. intros x Hx. subst k.
  clear - Hx. induction (matched tr all vs) as [|a r IH]; [destruct Hx|].
  cbn [maxdots fold_right]. fold (maxdots r). destruct Hx as [Hx|Hx]; [subst; lia|]. specialize (IH Hx). lia.
Qed.

(* HardwareView(model).vendor does not depend on the registration order when the matches
   with the maximal number of dots belong to one vendor *)
Definition tie_free (M : Type) (hit : rid -> M -> bool) (d : db) (vs : vendors) (m : M) : bool :=
  match build_tree d with
  | Some t => no_tie (matched (tree_true M hit m t) (all_sequences d) vs)
  | None => true
  end.

Theorem vendor_of_perm M (hit : rid -> M -> bool) d vs vs' m :
  Permutation vs vs' -> tie_free M hit d vs m = true ->
  vendor_of M hit d vs m = vendor_of M hit d vs' m.
Proof.
  unfold vendor_of, tie_free. destruct (build_tree d); [|reflexivity].
  intros HP HT. apply registry_match_perm; assumption.
Qed.

(* ---------------------------------------------------------------------------------- *)
(* frozen example tables (literal copies of a fragment of devdb.json and of the vendor
   match lists as shipped at review time) for non-vacuity and for the tie witness *)

Definition ex_db : db :=
  [ (["Cisco"], 0); (["Cisco"; "ASR"], 1); (["Cisco"; "Nexus"], 2); (["Cisco"; "Nexus"; "N9x"], 3);
    (["Huawei"], 4); (["Huawei"; "CE"], 5); (["Huawei"; "OptiXtrans"], 6);
    (["Huawei"; "OptiXtrans"; "DC"], 7); (["Huawei"; "OptiXtrans"; "DC"; "DC908"], 8) ].

Definition ex_vendors : vendors :=
  [ ("cisco", [(["Cisco"], 0)]); ("huawei", [(["Huawei"], 0)]);
    ("iosxr", [(["Cisco"; "ASR"], 1)]); ("nexus", [(["Cisco"; "Nexus"], 1)]);
    ("optixtrans", [(["OptiXtrans"], 0)]) ].

(* the same registry with optixtrans registered first *)
Definition ex_vendors' : vendors :=
  [ ("optixtrans", [(["OptiXtrans"], 0)]);
    ("cisco", [(["Cisco"], 0)]); ("huawei", [(["Huawei"], 0)]);
    ("iosxr", [(["Cisco"; "ASR"], 1)]); ("nexus", [(["Cisco"; "Nexus"], 1)]) ].

Lemma ex_vendors_perm : Permutation ex_vendors ex_vendors'.
Proof.
  unfold ex_vendors, ex_vendors'.
  apply Permutation_sym.
  apply (Permutation_middle
           [("cisco", [(["Cisco"], 0)]); ("huawei", [(["Huawei"], 0)]);
            ("iosxr", [(["Cisco"; "ASR"], 1)]); ("nexus", [(["Cisco"; "Nexus"], 1)])] []).
Qed.

(* "Huawei OptiXtrans DC908": regexes 4,6,7,8 of ex_db are found in it *)
Theorem tie_refuted :
  db_ok ex_db = true /\
  exists (m : list nat) (vs' : vendors),
    Permutation ex_vendors vs' /\
    tie_free _ hit_tbl ex_db ex_vendors m = false /\
    vendor_of _ hit_tbl ex_db ex_vendors m = VName "huawei" /\
    vendor_of _ hit_tbl ex_db vs' m = VName "optixtrans".
Proof.
  split; [vm_compute; reflexivity|].
  exists [4; 6; 7; 8], ex_vendors'. split; [exact ex_vendors_perm|].
  repeat split; vm_compute; reflexivity.
Qed.
