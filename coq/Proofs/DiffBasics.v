(* Small algebraic facts about mark_unchanged / strip_unchanged used by several properties. *)
From Coq Require Import List String Bool Arith Lia.
From Annet Require Import Base.Str Base.Tree Model.Rulebook Model.Diff.
Import ListNotations.
Open Scope list_scope.

(* induction principle for the nested type dnode *)
Section DnodeInd.
  Variable P : dnode -> Prop.
  Hypothesis H : forall o row m kids, Forall P kids -> P (DN o row m kids).
  Fixpoint dnode_ind2 (d : dnode) : P d :=
    match d with
    | DN o row m kids =>
      H o row m kids ((fix go (l : list dnode) : Forall P l :=
                         match l with
                         | [] => Forall_nil P
                         | x :: t => Forall_cons x (dnode_ind2 x) (go t)
                         end) kids)
    end.
End DnodeInd.

Lemma flat_map_ext_Forall {A B} (f g : A -> list B) l :
  Forall (fun x => f x = g x) l -> flat_map f l = flat_map g l.
Proof. induction 1 as [|x l Hx _ IH]; cbn; [reflexivity|]. rewrite Hx, IH. reflexivity. Qed.

Lemma op_eqb_eq a b : op_eqb a b = true <-> a = b.
Proof. destruct a, b; cbn; split; intro H; try reflexivity; try discriminate. Qed.

(* stripping twice is stripping once *)
Lemma strip_unchanged_n_idem : forall d, flat_map strip_unchanged_n (strip_unchanged_n d) = strip_unchanged_n d.
Proof.
  induction d as [o row m kids IH] using dnode_ind2. cbn.
  destruct (op_eqb o Unchanged) eqn:E; cbn; [reflexivity|]. rewrite E. cbn.
  f_equal. f_equal. clear E.
  induction IH as [|x l Hx _ IHl]; cbn; [reflexivity|].
  rewrite flat_map_app, IHl, Hx. reflexivity.
Qed.

Lemma strip_unchanged_idem d : strip_unchanged (strip_unchanged d) = strip_unchanged d.
Proof.
  unfold strip_unchanged. induction d as [|x d IH]; cbn; [reflexivity|].
  rewrite flat_map_app, IH, strip_unchanged_n_idem. reflexivity.
Qed.

(* a stripped diff contains no UNCHANGED entry, at any depth *)
Fixpoint no_unchanged_n (d : dnode) : bool :=
  match d with DN o _ _ k => negb (op_eqb o Unchanged) && forallb no_unchanged_n k end.

Lemma strip_no_unchanged : forall d, forallb no_unchanged_n (strip_unchanged_n d) = true.
Proof.
  induction d as [o row m kids IH] using dnode_ind2. cbn.
  destruct (op_eqb o Unchanged) eqn:E; cbn; [reflexivity|]. rewrite E. cbn. rewrite andb_true_r.
  induction IH as [|x l Hx _ IHl]; cbn; [reflexivity|].
  rewrite forallb_app, Hx, IHl. reflexivity.
Qed.
