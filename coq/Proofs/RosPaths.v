(* RouterOS round trip, part 1 (trees only): the sequence of paths parse_to_tree inserts for a RouterOS text - every
   section header re-inserts the whole section path, a header is repeated before leaf rows that follow a
   sub-section - rebuilds the same tree as the plain preorder sequence. *)
From Coq Require Import List String Bool Arith Lia.
From Annet Require Import Base.Str Base.Tree Model.Join.
Import ListNotations.
Open Scope string_scope.
Open Scope list_scope.

Fixpoint lookup (k : string) (f : forest) : option tree :=
  match f with
  | [] => None
  | (k', v) :: r => if String.eqb k k' then Some v else lookup k r
  end.

(* the path names a node of the forest *)
Fixpoint present (p : list string) (f : forest) : Prop :=
  match p with
  | [] => True
  | k :: p' => match lookup k f with Some v => present p' (kids v) | None => False end
  end.

Lemma ins_nil p' k : ins (k :: p') [] = [(k, T (ins p' []))].
Proof. reflexivity. Qed.

Lemma ins_cons k p' k' v r :
  ins (k :: p') ((k', v) :: r) =
  if String.eqb k k' then (k', T (ins p' (kids v))) :: r else (k', v) :: ins (k :: p') r.
Proof. reflexivity. Qed.

Lemma lookup_ins_same k p' : forall f,
  lookup k (ins (k :: p') f) = Some (T (ins p' (match lookup k f with Some v => kids v | None => [] end))).
Proof.
  induction f as [|[k' v] r IH].
  - rewrite ins_nil. cbn. rewrite String.eqb_refl. reflexivity.
  - rewrite ins_cons. cbn [lookup]. destruct (String.eqb k k') eqn:E.
    + cbn [lookup]. rewrite E. reflexivity.
    + cbn [lookup]. rewrite E. exact IH.
Qed.

Lemma lookup_ins_other k k2 p' : k <> k2 -> forall f, lookup k2 (ins (k :: p') f) = lookup k2 f.
Proof.
  intros Hne. induction f as [|[k' v] r IH].
  - rewrite ins_nil. cbn. destruct (String.eqb_spec k2 k); [congruence|reflexivity].
  - rewrite ins_cons. destruct (String.eqb_spec k k') as [->|Hn].
    + cbn [lookup]. destruct (String.eqb_spec k2 k'); [congruence|reflexivity].
    + cbn [lookup]. rewrite IH. reflexivity.
Qed.

Lemma present_ins : forall p f, present p (ins p f).
Proof.
  induction p as [|k p IH]; intros f; [exact I|]. cbn [present]. rewrite lookup_ins_same. apply IH.
Qed.

Lemma present_ins_other : forall p q f, present p f -> present p (ins q f).
Proof.
  induction p as [|k p IH]; intros q f H; [exact I|]. destruct q as [|k2 q]; [exact H|].
  cbn [present] in *. destruct (String.eqb_spec k2 k) as [->|Hne].
  - rewrite lookup_ins_same. destruct (lookup k f) as [v|]; [|contradiction]. apply IH. exact H.
  - rewrite lookup_ins_other by exact Hne. exact H.
Qed.

Lemma ins_present : forall p f, present p f -> ins p f = f.
Proof.
  induction p as [|k p IH]; intros f H; [reflexivity|].
  induction f as [|[k' v] r IHf]; [contradiction|].
  rewrite ins_cons. cbn [present lookup] in H. destruct (String.eqb k k') eqn:E.
  - rewrite (IH _ H). destruct v. reflexivity.
  - f_equal. apply IHf. exact H.
Qed.

Lemma present_prefix : forall P Q f, present (P ++ Q) f -> present P f.
Proof.
  induction P as [|k P IH]; intros Q f H; [exact I|]. cbn [app present] in *.
  destruct (lookup k f); [|contradiction]. eapply IH. exact H.
Qed.

Lemma present_insall p : forall qs f, present p f -> present p (insall qs f).
Proof.
  induction qs as [|q qs IH]; intros f H; [exact H|]. rewrite insall_cons. apply IH. apply present_ins_other. exact H.
Qed.

(* the non-empty prefixes of a section path, shortest first: what the lines "a", "  b", "    c" of a header insert *)
Fixpoint hdr_from (pre q : list string) : list (list string) :=
  match q with
  | [] => []
  | w :: q' => (pre ++ [w]) :: hdr_from (pre ++ [w]) q'
  end.
Definition hdr (q : list string) : list (list string) := hdr_from [] q.

Lemma hdr_from_noop : forall q pre f, present (pre ++ q) f -> insall (hdr_from pre q) f = f.
Proof.
  induction q as [|w q IH]; intros pre f H; [reflexivity|]. cbn [hdr_from]. rewrite insall_cons.
  assert (E : pre ++ w :: q = (pre ++ [w]) ++ q) by (rewrite <- app_assoc; reflexivity).
  rewrite E in H. rewrite ins_present by (eapply present_prefix; exact H). apply IH. exact H.
Qed.

Lemma hdr_from_snoc : forall q pre r, hdr_from pre (q ++ [r]) = hdr_from pre q ++ [pre ++ q ++ [r]].
Proof.
  induction q as [|w q IH]; intros pre r; [reflexivity|]. cbn [app hdr_from]. rewrite IH.
  rewrite <- !app_assoc. reflexivity.
Qed.

Lemma hdr_noop q f : present q f -> insall (hdr q) f = f.
Proof. intros H. apply hdr_from_noop. exact H. Qed.

Lemma hdr_snoc P r f : present P f -> insall (hdr (P ++ [r])) f = ins (P ++ [r]) f.
Proof.
  intros H. unfold hdr. rewrite hdr_from_snoc, insall_app. fold (hdr P). rewrite hdr_noop by exact H. reflexivity.
Qed.

(* the insertion sequence of the body of section P; after = the previous entry was a sub-section, so leaf rows need
   the header of P again *)
Fixpoint ros_seq_t (P : list string) (t : tree) {struct t} : bool -> list (list string) :=
  match t with
  | T k => (fix go (l : forest) (after : bool) {struct l} : list (list string) :=
              match l with
              | [] => []
              | (r, c) :: l' =>
                if is_leaf c then (if after then hdr P else []) ++ (P ++ [r]) :: go l' false
                else hdr (P ++ [r]) ++ ros_seq_t (P ++ [r]) c false ++ go l' true
              end) k
  end.
Definition ros_seq (P : list string) (k : forest) (after : bool) : list (list string) := ros_seq_t P (T k) after.

Lemma ros_seq_cons P r c l after :
  ros_seq P ((r, c) :: l) after =
  if is_leaf c then (if after then hdr P else []) ++ (P ++ [r]) :: ros_seq P l false
  else hdr (P ++ [r]) ++ ros_seq (P ++ [r]) (kids c) false ++ ros_seq P l true.
Proof. unfold ros_seq. destruct c. reflexivity. Qed.

Lemma is_leaf_kids' c : is_leaf c = true -> kids c = [].
Proof. destruct c as [[|? ?]]; [reflexivity|discriminate]. Qed.

Theorem ros_seq_paths : forall k P after acc, present P acc ->
  insall (ros_seq P k after) acc = insall (paths P k) acc.
Proof.
  apply (forest_ind2
    (fun t => forall P after acc, present P acc ->
       insall (ros_seq P (kids t) after) acc = insall (paths P (kids t)) acc)
    (fun k => forall P after acc, present P acc ->
       insall (ros_seq P k after) acc = insall (paths P k) acc)).
  - intros k IH. exact IH.
  - reflexivity.
  - intros r t k IHt IHk P after acc H. rewrite ros_seq_cons, paths_cons. destruct (is_leaf t) eqn:L.
    + rewrite (is_leaf_kids' t L). rewrite paths_nil. cbn [app]. rewrite insall_app.
      assert (E : insall (if after then hdr P else []) acc = acc).
      { destruct after; [apply hdr_noop; exact H|reflexivity]. }
      rewrite E, !insall_cons. apply IHk. apply present_ins_other. exact H.
    + rewrite insall_app, hdr_snoc by exact H. rewrite insall_app. rewrite insall_cons, insall_app.
      rewrite (IHt (P ++ [r]) false (ins (P ++ [r]) acc) (present_ins _ _)).
      apply IHk. apply present_insall. apply present_ins_other. exact H.
Qed.

(* top level: every entry is a section *)
Fixpoint ros_seq_top (f : forest) : list (list string) :=
  match f with
  | [] => []
  | (r, c) :: l => hdr [r] ++ ros_seq [r] (kids c) false ++ ros_seq_top l
  end.

Theorem ros_seq_top_paths : forall f acc, insall (ros_seq_top f) acc = insall (paths [] f) acc.
Proof.
  induction f as [|[r c] l IH]; intros acc; [reflexivity|].
  cbn [ros_seq_top]. rewrite paths_cons. cbn [app hdr hdr_from]. rewrite insall_cons, insall_app, insall_cons, insall_app.
  rewrite (ros_seq_paths (kids c) [r] false (ins [r] acc) (present_ins _ _)). apply IH.
Qed.

Corollary ros_seq_rebuild f : wf f -> insall (ros_seq_top f) [] = f.
Proof. intros W. rewrite ros_seq_top_paths. apply rebuild. exact W. Qed.
