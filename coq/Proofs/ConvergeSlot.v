(* C01, layer 4c: what the patch contains for one (rule, key) slot, as a function of the
   diff entries of the slot (at most one ADDED, one REMOVED, one AFFECTED, no MOVED) and of
   the rule's logic (default, undo_redo, permanent, ignore_changes). *)
From Coq Require Import List String Bool Arith ZArith Lia Permutation.
From Annet Require Import Base.Str Base.Tree Model.Rulebook Model.Diff Model.Order Model.Patch
     Proofs.DiffProofsLib Proofs.ConvergePre.
Import ListNotations.
Open Scope string_scope.
Open Scope list_scope.

Definition optl {A} (o : option A) : list A := match o with Some x => [x] | None => [] end.
Definition pick (o : op) (ns : list dnode) : list dnode := filter (fun n => op_eqb (d_op n) o) ns.

Lemma group_all_nil es : group_all es = [] -> es = [].
Proof.
  destruct es as [|e es]; [reflexivity|]. intro H. exfalso.
  destruct (flat_group_all_complete (e :: es) e (or_introl eq_refl)) as (a & its & Hin).
  rewrite H in Hin. destruct Hin.
Qed.

Lemma make_pre_nil d : pgroups (make_pre d) = [] -> d = [].
Proof.
  rewrite make_pre_groups. cbn [pgroups]. intro H. apply group_all_nil in H.
  destruct d; [reflexivity | discriminate].
Qed.

Section Slot.
  Variable rmatch : string -> string -> option (list string).
  Variable rsrc : string -> string.
  Variable rrev : string -> string.
  Variable block_exit : string.
  Variable rreverse : string -> list string -> string.

  Notation mkpatch := (make_patch rmatch rsrc rrev block_exit rreverse).
  Notation conv_item := (conv_item rmatch rsrc rrev block_exit rreverse).
  Notation slot_items := (slot_items rmatch rsrc rrev block_exit rreverse).
  Notation yield_item := (yield_item rmatch rsrc rrev block_exit).
  Notation gorder := (get_order rmatch rsrc rrev block_exit).

  Lemma make_patch_nil ord : mkpatch (make_pre []) ord = POk (PT []).
  Proof. reflexivity. Qed.

  (* the citem of a diff entry *)
  Definition cn (n : dnode) : citem := conv_item (pe_item (make_pre_n n)).
  Definition ne (n : dnode) : bool := match pgroups (make_pre (d_kids n)) with [] => false | _ => true end.

  Lemma cn_eq n : cn n = (d_op n, d_row n, mkpatch (make_pre (d_kids n)), ne n).
  Proof. destruct n as [o row m kids]. reflexivity. Qed.

  Lemma bucket_cn o ns : bucket o (map cn ns) = map cn (pick o ns).
  Proof.
    unfold bucket, pick. induction ns as [|n ns IH]; [reflexivity|]. cbn [map filter].
    rewrite cn_eq at 1. cbn [fst]. destruct (op_eqb (d_op n) o); cbn [map]; rewrite IH; reflexivity.
  Qed.

  (* children patch of an entry, whatever the non-emptiness flag says *)
  Lemma children_patch n ord' :
    (if ne n then mkpatch (make_pre (d_kids n)) ord' else POk (PT [])) = mkpatch (make_pre (d_kids n)) ord'.
  Proof.
    unfold ne. destruct (pgroups (make_pre (d_kids n))) eqn:E; [|reflexivity].
    apply make_pre_nil in E. rewrite E. reflexivity.
  Qed.

  (* ---------- what the logic yields ---------- *)
  Inductive outcome := ONone | ODirect (n : dnode) | ORev | ORevDirect (n : dnode).

  Definition default_plan (A R F : option dnode) : outcome :=
    match F with
    | Some f => ODirect f
    | None => match A with
              | Some a => ODirect a
              | None => match R with Some _ => ORev | None => ONone end
              end
    end.

  Definition plan (L : logic) (A R F : option dnode) : outcome :=
    match L with
    | LUndoRedo => match A, R, F with Some a, Some _, None => ORevDirect a | _, _, _ => default_plan A R F end
    | LPermanent => match R with
                    | None => default_plan A R F
                    | Some r => if ne r then ODirect r else ONone
                    end
    | LIgnoreChanges => match A, R with Some _, Some _ => ONone | _, _ => default_plan A R F end
    | _ => default_plan A R F
    end.

  Definition ydir (n : dnode) : bool * string * option (ckpre * bool) :=
    (true, d_row n, Some (mkpatch (make_pre (d_kids n)), ne n)).
  Definition yrev (pat : string) (key : list string) : bool * string * option (ckpre * bool) :=
    (false, rreverse pat key, None).
  Definition yields_of (pat : string) (key : list string) (o : outcome) : yielded :=
    match o with
    | ONone => []
    | ODirect n => [ydir n]
    | ORev => [yrev pat key]
    | ORevDirect n => [yrev pat key; ydir n]
    end.

  Lemma ydir_eq n : (true, d_row n, Some (snd (fst (cn n)), snd (cn n))) = ydir n.
  Proof. rewrite cn_eq. reflexivity. Qed.

  Lemma default_b_plan pat key A R F : (F <> None -> R = None) ->
    default_b rreverse pat key (map cn (optl A)) (map cn (optl R)) (map cn (optl F)) [] =
    Some (yields_of pat key (default_plan A R F)).
  Proof.
    intro HFR. unfold default_b.
    assert (Hlen : forall (o : option dnode), Nat.ltb 1 (List.length (map cn (optl o))) = false)
      by (intros [x|]; reflexivity).
    rewrite !Hlen. cbn [orb List.length Nat.ltb Nat.leb].
    destruct F as [f|]; cbn [optl map default_plan].
    - rewrite cn_eq. reflexivity.
    - destruct A as [a|]; cbn [optl map].
      + rewrite cn_eq. reflexivity.
      + destruct R as [r|]; reflexivity.
  Qed.

  (* the entries of the slot, by op: at most one of each, no MOVED; an AFFECTED entry (row on
     both sides) excludes the others *)
  Theorem run_logic_plan pat key L ns A R F :
    pick Added ns = optl A -> pick Removed ns = optl R -> pick Affected ns = optl F -> pick Moved ns = [] ->
    (F <> None -> R = None /\ A = None) ->
    (L = LDefault \/ L = LUndoRedo \/ L = LPermanent \/ L = LIgnoreChanges) ->
    run_logic rreverse pat key L (map cn ns) = Some (yields_of pat key (plan L A R F)).
  Proof.
    intros HA HR HF HM HFx HL. unfold run_logic. rewrite !bucket_cn, HA, HR, HF, HM. cbn [map].
    assert (HFR : F <> None -> R = None) by (intro H; apply HFx; exact H).
    destruct HL as [ -> | [ -> | [ -> | -> ] ] ]; cbn [plan].
    - apply default_b_plan. exact HFR.
    - destruct A as [a|], R as [r|], F as [f|];
        try (exact (default_b_plan pat key _ _ _ HFR));
        try (destruct (HFx ltac:(discriminate)); discriminate).
      cbn [optl map]. unfold default_b. cbn. rewrite !cn_eq. reflexivity.
    - destruct R as [r|]; cbn [optl map].
      + rewrite cn_eq. cbn [snd]. destruct (ne r) eqn:En; [|reflexivity].
        destruct F as [f|]; [destruct (HFx ltac:(discriminate)); discriminate|].
        cbn [optl map app].
        assert (E := default_b_plan pat key A None (Some r) ltac:(reflexivity)).
        cbn [optl map] in E. rewrite cn_eq, En in E. exact E.
      + apply (default_b_plan pat key A None F). auto.
    - destruct A as [a|], R as [r|];
        try (exact (default_b_plan pat key _ _ _ HFR)).
      reflexivity.
  Qed.

  (* ---------- the items ---------- *)
  Definition sk_of (order : znum) (odirect : bool) (raw : string) : skey :=
    (match order with ZFin z => ZFin (if odirect then z else Z.opp z) | ZInf => ZInf end, raw, odirect).

  Lemma yield_rev ord raw a pat key : a_force_commit a = false ->
    exists sk, yield_item ord raw a (yrev pat key) = Some [(rreverse pat key, None, sk)].
  Proof.
    intro Hfc. unfold yield_item, yrev.
    destruct (gorder ord (rreverse pat key) false (Some "patch")) as [[order odirect] ord'].
    cbn [pitems]. rewrite Hfc. cbn [negb orb]. rewrite orb_true_r. eexists. reflexivity.
  Qed.

  Lemma yield_dir ord raw a n : a_force_commit a = false ->
    yield_item ord raw a (ydir n) =
    let '(order, odirect, ord') := gorder ord (d_row n) true (Some "patch") in
    match mkpatch (make_pre (d_kids n)) ord' with
    | PErr => None
    | POk ct =>
      Some [(d_row n,
             (if match pitems ct with [] => negb (a_parent a) | _ => false end then None else Some ct),
             sk_of order odirect raw)]
    end.
  Proof.
    intro Hfc. unfold yield_item, ydir.
    destruct (gorder ord (d_row n) true (Some "patch")) as [[order odirect] ord'].
    rewrite children_patch. destruct (mkpatch (make_pre (d_kids n)) ord') as [ct|]; [|reflexivity].
    rewrite Hfc. cbn [negb]. rewrite orb_false_r.
    destruct (match pitems ct with [] => negb (a_parent a) | _ => false end); reflexivity.
  Qed.

  (* a direct item for entry n: its child (if shown) is the patch of n's children, and a
     hidden child is an empty patch *)
  Definition dir_item (ord : list orule) (n : dnode) (it : item) : Prop :=
    fst (fst it) = d_row n /\
    exists ct, mkpatch (make_pre (d_kids n)) (snd (gorder ord (d_row n) true (Some "patch"))) = POk ct /\
               (snd (fst it) = Some ct \/ (snd (fst it) = None /\ pitems ct = [])).
  Definition rev_item (pat : string) (key : list string) (it : item) : Prop :=
    fst (fst it) = rreverse pat key /\ snd (fst it) = None.

  Definition items_match (ord : list orule) (pat : string) (key : list string) (o : outcome) (its : list item) : Prop :=
    match o with
    | ONone => its = []
    | ODirect n => exists i, its = [i] /\ dir_item ord n i
    | ORev => exists i, its = [i] /\ rev_item pat key i
    | ORevDirect n => exists i j, its = [i; j] /\ rev_item pat key i /\ dir_item ord n j
    end.

  Lemma yield_dir_item ord raw a n its : a_force_commit a = false ->
    yield_item ord raw a (ydir n) = Some its -> exists i, its = [i] /\ dir_item ord n i.
  Proof.
    intros Hfc H. rewrite yield_dir in H by exact Hfc. unfold dir_item.
    destruct (gorder ord (d_row n) true (Some "patch")) as [[order odirect] ord']. cbn [snd].
    destruct (mkpatch (make_pre (d_kids n)) ord') as [ct|] eqn:E; [|discriminate].
    injection H as <-. eexists. split; [reflexivity|]. cbn [fst snd]. split; [reflexivity|].
    exists ct. split; [reflexivity|].
    destruct (pitems ct) eqn:Ep.
    - destruct (negb (a_parent a)); [right; auto | left; reflexivity].
    - left. reflexivity.
  Qed.

  Theorem slot_items_plan ord raw a key L ns A R F its :
    a_logic a = L -> a_force_commit a = false ->
    pick Added ns = optl A -> pick Removed ns = optl R -> pick Affected ns = optl F -> pick Moved ns = [] ->
    (F <> None -> R = None /\ A = None) ->
    (L = LDefault \/ L = LUndoRedo \/ L = LPermanent \/ L = LIgnoreChanges) ->
    slot_items ord (raw, a, key, map cn ns) = Some its ->
    items_match ord (a_pat a) key (plan L A R F) its.
  Proof.
    intros HL Hfc HA HR HF HM HFx HLs H. cbn [ConvergePre.slot_items] in H.
    rewrite HL, (run_logic_plan (a_pat a) key L ns A R F HA HR HF HM HFx HLs) in H.
    destruct (plan L A R F) as [|n| |n]; cbn [yields_of map all_some] in H; cbn [items_match].
    - injection H as <-. reflexivity.
    - destruct (yield_item ord raw a (ydir n)) as [l|] eqn:E; [|discriminate].
      cbn in H. injection H as <-. rewrite app_nil_r. eapply yield_dir_item; eauto.
    - destruct (yield_rev ord raw a (a_pat a) key Hfc) as (sk & E). rewrite E in H. cbn in H.
      injection H as <-. eexists. split; [reflexivity|]. split; reflexivity.
    - destruct (yield_rev ord raw a (a_pat a) key Hfc) as (sk & E). rewrite E in H.
      destruct (yield_item ord raw a (ydir n)) as [l|] eqn:E2; [|discriminate].
      cbn in H. injection H as <-. rewrite app_nil_r.
      destruct (yield_dir_item ord raw a n l Hfc E2) as (j & -> & Hj).
      eexists _, j. split; [reflexivity|]. split; [split; reflexivity | exact Hj].
  Qed.

  (* the sort keys of the removal and of the re-creation of an undo_redo slot *)
  Definition key_of_cmd (ord : list orule) (raw row : string) (direct : bool) : skey :=
    let '(o, d, _) := gorder ord row direct (Some "patch") in sk_of o d raw.

  Theorem slot_items_keys ord raw a key L ns A R F its x :
    a_logic a = L -> a_force_commit a = false ->
    pick Added ns = optl A -> pick Removed ns = optl R -> pick Affected ns = optl F -> pick Moved ns = [] ->
    (F <> None -> R = None /\ A = None) ->
    (L = LDefault \/ L = LUndoRedo \/ L = LPermanent \/ L = LIgnoreChanges) ->
    slot_items ord (raw, a, key, map cn ns) = Some its ->
    plan L A R F = ORevDirect x ->
    exists i j, its = [i; j] /\ snd i = key_of_cmd ord raw (rreverse (a_pat a) key) false /\
                snd j = key_of_cmd ord raw (d_row x) true.
  Proof.
    intros HL Hfc HA HR HF HM HFx HLs H Hpl. cbn [ConvergePre.slot_items] in H.
    rewrite HL, (run_logic_plan (a_pat a) key L ns A R F HA HR HF HM HFx HLs), Hpl in H.
    cbn [yields_of map all_some] in H.
    unfold key_of_cmd.
    assert (E1 : yield_item ord raw a (yrev (a_pat a) key) =
                 let '(o, d, _) := gorder ord (rreverse (a_pat a) key) false (Some "patch") in
                 Some [(rreverse (a_pat a) key, None, sk_of o d raw)]).
    { unfold ConvergePre.yield_item, yrev.
      destruct (gorder ord (rreverse (a_pat a) key) false (Some "patch")) as [[order odirect] ord'].
      cbn [pitems]. rewrite Hfc. cbn [negb orb]. rewrite orb_true_r. reflexivity. }
    rewrite E1, (yield_dir ord raw a x Hfc) in H.
    destruct (gorder ord (rreverse (a_pat a) key) false (Some "patch")) as [[o1 d1] ord1].
    destruct (gorder ord (d_row x) true (Some "patch")) as [[o2 d2] ord2].
    destruct (mkpatch (make_pre (d_kids x)) ord2) as [ct|]; [|discriminate].
    cbn in H. injection H as <-. eexists _, _. split; [reflexivity|]. split; reflexivity.
  Qed.
End Slot.
