(* C14 — refs_defined, second half: every name the program uses (Spec/P_C14r.prog_uses) is defined
   by a row of a list generator of the vendor, when none of them raised *)
From Coq Require Import List String Ascii Bool Arith Lia.
From Annet Require Import Base.Str Model.Rpl Spec.P_C14 Spec.P_C14r Proofs.RplProofs Proofs.RplStream Proofs.RplRefs.
Import ListNotations.
Open Scope string_scope.
Open Scope list_scope.

Arguments nat_to_str : simpl never.
Arguments pfx_name : simpl never.
Arguments mangle : simpl never.
Arguments join_with : simpl never.
Arguments String.append : simpl never.
Arguments many : simpl never.
Arguments String.eqb : simpl nomatch.

(* ------------------------------------------------------------------ generic *)

Lemma insert_sorted_in x y l : In y (insert_sorted x l) <-> y = x \/ In y l.
Proof.
  induction l as [|a l IH]; cbn; [intuition|].
  destruct (String.eqb_spec x a) as [E|E].
  - subst. cbn. intuition.
  - destruct (String.leb x a); cbn; [intuition|]. rewrite IH. intuition.
Qed.

Lemma sort_uniq_in y l : In y (sort_uniq l) <-> In y l.
Proof.
  unfold sort_uniq. induction l as [|a l IH]; cbn; [tauto|].
  rewrite insert_sorted_in, IH. intuition.
Qed.

Lemma out_seq_ok l : snd (out_seq l) = None ->
  (forall o, In o l -> snd o = None) /\ fst (out_seq l) = flat_map fst l.
Proof.
  induction l as [|o l IH]; cbn [out_seq]; intros H.
  - split; [intros o []|reflexivity].
  - unfold oseq in H |- *. destruct (snd o) eqn:E; [congruence|]. cbn in H |- *.
    destruct (IH H) as [H1 H2]. split.
    + intros o' [<-|Hin]; auto.
    + rewrite H2. reflexivity.
Qed.

Lemma oseq_ok a b : snd (a ;; b) = None -> snd a = None /\ snd b = None /\ fst (a ;; b) = fst a ++ fst b.
Proof. unfold oseq. destruct (snd a) eqn:E; cbn; [congruence|]. auto. Qed.

Lemma plain_ok o : gout_ok (plain o) = true -> snd o = None.
Proof. unfold gout_ok, plain. cbn. destruct (snd o); [discriminate|reflexivity]. Qed.

Lemma rows_of_plain o : rows_of (plain o) = fst o.
Proof. unfold rows_of, plain. cbn. rewrite map_map. cbn. apply map_id. Qed.

Lemma find_cl_name e n c : find_cl e n = Some c -> cl_name c = n.
Proof. unfold find_cl. intros H. apply find_rev_in in H as [_ H]. apply String.eqb_eq in H. exact H. Qed.
Lemma find_af_name e n c : find_af e n = Some c -> af_name c = n.
Proof. unfold find_af. intros H. apply find_rev_in in H as [_ H]. apply String.eqb_eq in H. exact H. Qed.

Lemma nonempty_ex {A} (l : list A) : nonempty l = true -> exists x r, l = x :: r.
Proof. destruct l; [discriminate|eauto]. Qed.

Definition defined_by (v : vendor) (rows : list row) (x : ns * string) : Prop :=
  exists row, In row rows /\ In x (defs1 v row).

(* ------------------------------------------------------------------ as-path filters *)

Lemma aspath_defined v e ps st n :
  snd (aspath_gen v e ps) = None ->
  In st (all_stmts ps) -> In (CAsFilter n) (s_match st) ->
  defined_by v (fst (aspath_gen v e ps)) (NsAsPath, n).
Proof.
  intros Hok Hst Hc.
  assert (Hu : In n (used_aspath_names ps)).
  { unfold used_aspath_names. apply sort_uniq_in. apply in_flat_map. exists st. split; [exact Hst|].
    apply in_flat_map. exists (CAsFilter n). split; [exact Hc|]. cbn. auto. }
  unfold aspath_gen in *. apply out_seq_ok in Hok as [H1 H2]. rewrite H2.
  set (F := fun n0 : string => match find_af e n0 with Some a => _ | None => _ end) in *.
  assert (HF : snd (F n) = None) by (apply H1; apply in_map; exact Hu).
  unfold F in HF. destruct (find_af e n) as [a|] eqn:Ea; [|discriminate HF].
  apply find_af_name in Ea as Hname.
  destruct v; (eexists; split;
    [ apply in_flat_map; exists (F n); split; [apply in_map; exact Hu|]; unfold F; rewrite Ea; cbn; left; reflexivity
    | unfold defs1; cbn; rewrite Hname; left; reflexivity ]).
Qed.

(* ------------------------------------------------------------------ RD filters (Huawei) *)

Lemma rd_defined e ps st o n r :
  snd (rd_gen e ps) = None ->
  In st (all_stmts ps) -> In (CRd o [n]) (s_match st) ->
  find_rd e n = Some r -> nonempty (rd_members r) = true ->
  defined_by Huawei (fst (rd_gen e ps)) (NsRd, nat_to_str (rd_number r)).
Proof.
  intros Hok Hst Hc Er Hne.
  assert (Hu : In n (used_rd_names ps)).
  { unfold used_rd_names. apply sort_uniq_in. apply in_flat_map. exists st. split; [exact Hst|].
    apply in_flat_map. exists (CRd o [n]). split; [exact Hc|]. cbn. auto. }
  unfold rd_gen in *. apply out_seq_ok in Hok as [H1 H2]. rewrite H2.
  set (F := fun n0 : string => match find_rd e n0 with Some a => _ | None => _ end) in *.
  apply nonempty_ex in Hne as (m & ms & Em).
  eexists. split.
  - apply in_flat_map. exists (F n). split; [apply in_map; exact Hu|]. unfold F. rewrite Er, Em.
    cbn. left. reflexivity.
  - unfold defs1. cbn. left. reflexivity.
Qed.

(* ------------------------------------------------------------------ community lists, Huawei *)

Definition hw_ns (t : ctype) : ns :=
  match t with BASIC => NsComm | RT => NsExtRt | SOO => NsExtSoo | LARGE => NsLarge end.

Lemma hw_comm_list_defines c :
  snd (hw_comm_list c) = None -> nonempty (cl_members c) = true ->
  defined_by Huawei (fst (hw_comm_list c)) (hw_ns (cl_type c), cl_name c).
Proof.
  destruct c as [cn ms t lg rx]. unfold hw_comm_list. cbn [cl_name cl_members cl_type cl_logic cl_regex].
  intros Hok Hne. apply nonempty_ex in Hne as (m & r & ->).
  destruct (rx && many (m :: r)); [discriminate Hok|].
  destruct t, lg, rx; (eexists; split; [cbn; left; reflexivity | unfold defs1; cbn; left; reflexivity]).
Qed.

Lemma hw_comm_defined e ps n c :
  gout_ok (hw_comm_gen e ps) = true -> In n (used_comm_names ps) ->
  find_cl e n = Some c -> nonempty (cl_members c) = true ->
  defined_by Huawei (rows_of (hw_comm_gen e ps)) (hw_ns (cl_type c), n).
Proof.
  intros Hok Hu Ec Hne. unfold hw_comm_gen in *. rewrite rows_of_plain. apply plain_ok in Hok.
  apply out_seq_ok in Hok as [H1 H2]. rewrite H2.
  set (F := fun n0 : string => match find_cl e n0 with Some a => _ | None => _ end) in *.
  assert (HF : snd (F n) = None) by (apply H1; apply in_map; exact Hu).
  unfold F in HF. rewrite Ec in HF.
  destruct (hw_comm_list_defines c HF Hne) as (row & Hrow & Hd).
  rewrite (find_cl_name _ _ _ Ec) in Hd.
  exists row. split; [|exact Hd].
  apply in_flat_map. exists (F n). split; [apply in_map; exact Hu|]. unfold F. rewrite Ec. exact Hrow.
Qed.

(* ------------------------------------------------------------------ prefix lists *)

Definition pu_name (u : puse) : string := match u with (_, dn, _, _, _) => dn end.

Lemma mem_in x l : mem x l = true <-> In x l.
Proof.
  unfold mem. rewrite existsb_exists. split.
  - intros (y & Hy & E). apply String.eqb_eq in E. subst. exact Hy.
  - intros H. exists x. split; [exact H|apply String.eqb_refl].
Qed.

Lemma first_by_name_sub : forall l seen u, In u (first_by_name seen l) -> In u l.
Proof.
  induction l as [|[[[[v6 dn] n] ge] le] l IH]; intros seen u; cbn [first_by_name]; [tauto|].
  destruct (mem dn seen).
  - intros H. right. eapply IH; eauto.
  - intros [H|H]; [left; exact H | right; eapply IH; eauto].
Qed.

Lemma first_by_name_keeps : forall l seen u,
  In u l -> mem (pu_name u) seen = false ->
  exists w, In w (first_by_name seen l) /\ pu_name w = pu_name u.
Proof.
  induction l as [|[[[[v6 dn] n] ge] le] l IH]; intros seen u; cbn [first_by_name]; [intros []|].
  intros [H|H] Hs.
  - subst u. cbn in Hs. rewrite Hs. eexists. split; [left; reflexivity|reflexivity].
  - destruct (mem dn seen) eqn:Ed.
    + apply IH; assumption.
    + destruct (String.eqb_spec (pu_name u) dn) as [E|E].
      * eexists. split; [left; reflexivity|]. cbn. auto.
      * destruct (IH (dn :: seen) u H) as (w & Hw & Hn).
        { cbn. apply orb_false_iff. split; [|exact Hs]. apply String.eqb_neq. exact E. }
        exists w. split; [right; exact Hw|exact Hn].
Qed.

(* what wf_prog says about every use *)
Definition puse_ok (e : env) (u : puse) : Prop :=
  match u with (v6, dn, n, ge, le) =>
    dn = pfx_name n ge le /\
    exists pl, find_pl e n = Some pl /\ pl_v6 pl = v6 /\ nonempty (pl_members pl) = true
  end.

Lemma stmt_prefix_uses_ok e st u :
  forallb (wf_cond e) (s_match st) = true -> In u (stmt_prefix_uses st) -> puse_ok e u.
Proof.
  intros Hwf Hu. rewrite forallb_forall in Hwf. unfold stmt_prefix_uses in Hu.
  apply in_app_iff in Hu as [Hu|Hu]; apply in_flat_map in Hu as (c & Hc & Hu); specialize (Hwf c Hc);
    destruct c as [f o names|o names|v6 names ge le|o v1 v2|n|f o w]; try destruct Hu;
    destruct v6; try destruct Hu; apply in_map_iff in Hu as (n & <- & Hn);
    cbn in Hwf; apply andb_true_iff in Hwf as [_ Hwf]; rewrite forallb_forall in Hwf; specialize (Hwf n Hn);
    (split; [reflexivity|]); destruct (find_pl e n) as [pl|]; try discriminate;
    apply andb_true_iff in Hwf as [H1 H2]; exists pl; (split; [reflexivity|]); split; auto;
    apply Bool.eqb_prop in H1; exact H1.
Qed.

Lemma prefix_defined v e ps st v6 names ge le n :
  forallb (fun st => forallb (wf_cond e) (s_match st)) (all_stmts ps) = true ->
  families_ok ps = true ->
  In st (all_stmts ps) -> In (CPrefix v6 names ge le) (s_match st) -> In n names ->
  defined_by v (rows_of (prefix_gen v e ps)) (pfx_ns v6, pfx_name n ge le).
Proof.
  intros Hwf Hfam Hst Hc Hn.
  set (U := flat_map stmt_prefix_uses (all_stmts ps)).
  assert (Hu : In (v6, pfx_name n ge le, n, ge, le) U).
  { unfold U. apply in_flat_map. exists st. split; [exact Hst|]. unfold stmt_prefix_uses.
    apply in_app_iff. destruct v6; [right|left]; apply in_flat_map; eexists;
      (split; [exact Hc|]); apply in_map_iff; exists n; auto. }
  destruct (first_by_name_keeps U [] _ Hu eq_refl) as ([[[[v6' dn'] n'] ge'] le'] & Hw & Hname).
  cbn in Hname. subst dn'.
  assert (HwU : In (v6', pfx_name n ge le, n', ge', le') U) by (eapply first_by_name_sub; eauto).
  (* same family *)
  assert (v6' = v6).
  { unfold families_ok in Hfam. fold U in Hfam. rewrite forallb_forall in Hfam. specialize (Hfam _ Hu). cbn in Hfam.
    rewrite forallb_forall in Hfam. specialize (Hfam _ HwU). cbn in Hfam. rewrite String.eqb_refl in Hfam.
    cbn in Hfam. apply Bool.eqb_prop in Hfam. auto. }
  subst v6'.
  (* the list exists and has members *)
  assert (Hok : puse_ok e (v6, pfx_name n ge le, n', ge', le')).
  { unfold U in HwU. apply in_flat_map in HwU as (st' & Hst' & Hu').
    rewrite forallb_forall in Hwf. eapply stmt_prefix_uses_ok; eauto. }
  destruct Hok as (_ & pl & Epl & _ & Hne).
  apply nonempty_ex in Hne as (m & ms & Em).
  assert (Hdm : exists m' ms', derived_members e n' ge' le' = m' :: ms').
  { unfold derived_members. rewrite Epl, Em. destruct (truthy ge' || truthy le'); cbn; eauto. }
  destruct Hdm as (m' & ms' & Hdm).
  unfold prefix_gen, rows_of. cbn [fst]. fold U. unfold used_prefixes. fold U.
  destruct v; (eexists; split;
    [ apply in_map_iff; eexists; split; [reflexivity|]; apply in_flat_map;
      exists (v6, pfx_name n ge le, n', ge', le'); split; [exact Hw|]; cbv beta iota; rewrite Hdm; cbn; left; reflexivity
    | destruct v6; unfold defs1; cbn; left; reflexivity ]).
Qed.

(* ------------------------------------------------------------------ united community lists *)

Lemma lookup_all_cons e n nm cs :
  lookup_all e (n :: nm) = Some cs ->
  exists c cs', cs = c :: cs' /\ find_cl e n = Some c /\ lookup_all e nm = Some cs'.
Proof.
  unfold lookup_all. cbn [fold_right]. fold (lookup_all e nm).
  destruct (find_cl e n) as [c|]; [|discriminate]. destruct (lookup_all e nm) as [l|]; [|discriminate].
  intros H. injection H as <-. eauto.
Qed.

Lemma lookup_all_names e : forall nm cs, lookup_all e nm = Some cs -> map cl_name cs = nm.
Proof.
  induction nm as [|n nm IH]; intros cs H.
  - cbn in H. injection H as <-. reflexivity.
  - apply lookup_all_cons in H as (c & cs' & -> & Ec & H). cbn. rewrite (IH _ H), (find_cl_name _ _ _ Ec). reflexivity.
Qed.

Lemma union_of_functional us k nm :
  forallb (fun u => forallb (fun w => negb (String.eqb (fst u) (fst w)) || list_str_eqb (snd u) (snd w)) us) us = true ->
  In (k, nm) us -> union_of us k = nm.
Proof.
  intros Hf Hin. unfold union_of.
  destruct (find (fun u => String.eqb (fst u) k) (rev us)) as [u|] eqn:E.
  - apply find_rev_in in E as [Hu Ek]. apply String.eqb_eq in Ek.
    rewrite forallb_forall in Hf. specialize (Hf u Hu). rewrite forallb_forall in Hf. specialize (Hf _ Hin).
    cbn in Hf. rewrite Ek, String.eqb_refl in Hf. cbn in Hf. apply list_str_eqb_eq in Hf. exact Hf.
  - exfalso. assert (Hn := find_none _ _ E (k, nm)). cbn in Hn. rewrite String.eqb_refl in Hn.
    assert (true = false) by (apply Hn; apply -> in_rev; exact Hin). discriminate.
Qed.

Definition ar_ns (t : ctype) : ns := match t with BASIC => NsComm | LARGE => NsLarge | _ => NsExt end.

Lemma word_free_regexp k : word_free k = true -> String.eqb "regexp" k = false.
Proof.
  unfold word_free, reserved, mem. cbn [existsb]. intros H. apply negb_true_iff in H.
  apply orb_false_iff in H as [H _]. rewrite String.eqb_sym. exact H.
Qed.

Lemma ar_comm_list_defines k c :
  snd (ar_comm_list k c) = None -> nonempty (cl_members c) = true -> word_free k = true ->
  defined_by Arista (fst (ar_comm_list k c)) (ar_ns (cl_type c), k).
Proof.
  destruct c as [cn ms t lg rx]. unfold ar_comm_list. cbn [cl_name cl_members cl_type cl_logic cl_regex].
  intros Hok Hne Hg. apply nonempty_ex in Hne as (m & r & ->). apply word_free_regexp in Hg.
  destruct (rx && many (m :: r)); [discriminate Hok|].
  destruct t, lg, rx; (eexists; split; [cbn; left; reflexivity | unfold defs1, alpha; cbn; try rewrite Hg; cbn; left; reflexivity]).
Qed.

(* the united list under key k, whose first member list has type t, is defined *)
Lemma ar_union_defined e ps k n nm c :
  gout_ok (ar_comm_gen e ps) = true -> unions_functional ps = true ->
  In (k, n :: nm) (all_unions ps) -> k = mangle (n :: nm) ->
  find_cl e n = Some c -> nonempty (cl_members c) = true -> word_free k = true ->
  defined_by Arista (rows_of (ar_comm_gen e ps)) (ar_ns (cl_type c), k).
Proof.
  intros Hok Hf Hin Hk Ec Hne Hg. unfold ar_comm_gen in *.
  destruct (negb (unions_ok e ps)); [discriminate Hok|].
  rewrite rows_of_plain. apply plain_ok in Hok. apply out_seq_ok in Hok as [H1 H2]. rewrite H2.
  set (G := fun u : string * list string => match lookup_all e (snd u) with Some cs => _ | None => _ end) in *.
  assert (Hu : In (k, n :: nm) (used_unions ps)).
  { unfold used_unions. apply in_map_iff. exists k. split.
    - rewrite (union_of_functional _ _ _ Hf Hin). reflexivity.
    - apply sort_uniq_in. apply in_map_iff. exists (k, n :: nm). auto. }
  assert (HG : snd (G (k, n :: nm)) = None) by (apply H1; apply in_map; exact Hu).
  unfold G in HG. cbn [snd] in HG.
  destruct (lookup_all e (n :: nm)) as [cs|] eqn:El; [|discriminate HG].
  assert (Hnames := lookup_all_names _ _ _ El).
  apply lookup_all_cons in El as (c' & cs' & -> & Ec' & El'). rewrite Ec in Ec'. injection Ec' as <-.
  rewrite Hnames, <- Hk in HG. cbn [map out_seq] in HG. apply oseq_ok in HG as (HG1 & _ & _).
  destruct (ar_comm_list_defines k c HG1 Hne Hg) as (row & Hrow & Hd).
  exists row. split; [|exact Hd].
  apply in_flat_map. exists (G (k, n :: nm)). split; [apply in_map; exact Hu|].
  unfold G. cbn [snd].
  assert (El : lookup_all e (n :: nm) = Some (c :: cs')).
  { unfold lookup_all. cbn [fold_right]. fold (lookup_all e nm). rewrite Ec, El'. reflexivity. }
  rewrite El, Hnames, <- Hk. cbn [map out_seq].
  unfold oseq. rewrite HG1. cbn [fst]. apply in_app_iff. left. exact Hrow.
Qed.

Lemma cu_comm_list_defines name k c :
  snd (fst (cu_comm_list name k c)) = None -> nonempty (cl_members c) = true ->
  defined_by Cumulus (fst (fst (cu_comm_list name k c))) (ar_ns (cl_type c), name).
Proof.
  destruct c as [cn ms t lg rx]. unfold cu_comm_list. cbn [cl_name cl_members cl_type cl_logic cl_regex].
  intros Hok Hne. apply nonempty_ex in Hne as (m & r & ->).
  destruct t, lg, rx; cbn in Hok |- *;
    try (destruct (many (m :: r)); [discriminate Hok|]);
    (eexists; split; [cbn; left; reflexivity | unfold defs1; cbn; left; reflexivity]).
Qed.

Lemma cu_union_defined e ps k n nm c :
  snd (cu_comm_gen e ps) = None -> unions_functional ps = true ->
  In (k, n :: nm) (all_unions ps) -> k = mangle (n :: nm) ->
  find_cl e n = Some c -> nonempty (cl_members c) = true ->
  defined_by Cumulus (fst (cu_comm_gen e ps)) (ar_ns (cl_type c), k).
Proof.
  intros Hok Hf Hin Hk Ec Hne. unfold cu_comm_gen in *.
  destruct (negb (unions_ok e ps)); [discriminate Hok|]. cbv zeta in *.
  assert (Hu : In (k, n :: nm) (used_unions ps)).
  { unfold used_unions. apply in_map_iff. exists k. split.
    - rewrite (union_of_functional _ _ _ Hf Hin). reflexivity.
    - apply sort_uniq_in. apply in_map_iff. exists (k, n :: nm). auto. }
  destruct (negb (nonempty (used_unions ps))) eqn:Ene.
  { destruct (used_unions ps); [destruct Hu|discriminate Ene]. }
  apply oseq_ok in Hok as (Hok & _ & Hrows). rewrite Hrows.
  apply out_seq_ok in Hok as [H1 H2]. rewrite H2.
  set (G := fun u : string * list string => match lookup_all e (snd u) with Some cs => _ | None => _ end) in *.
  assert (HG : snd (G (k, n :: nm)) = None) by (apply H1; apply in_map; exact Hu).
  unfold G in HG. cbn [snd] in HG.
  destruct (lookup_all e (n :: nm)) as [cs|] eqn:El; [|discriminate HG].
  assert (Hnames := lookup_all_names _ _ _ El).
  assert (El0 := El).
  apply lookup_all_cons in El as (c' & cs' & -> & Ec' & El'). rewrite Ec in Ec'. injection Ec' as <-.
  rewrite Hnames, <- Hk in HG. cbn [cu_comm_union] in HG.
  destruct (cu_comm_list k 0 c) as [o k'] eqn:Eo.
  apply oseq_ok in HG as (HG1 & _ & _).
  assert (HG1' : snd (fst (cu_comm_list k 0 c)) = None) by (rewrite Eo; exact HG1).
  destruct (cu_comm_list_defines k 0 c HG1' Hne) as (row & Hrow & Hd).
  exists row. split; [|exact Hd].
  apply in_app_iff. left.
  apply in_flat_map. exists (G (k, n :: nm)). split; [apply in_map; exact Hu|].
  unfold G. cbn [snd]. rewrite El0, Hnames, <- Hk. cbn [cu_comm_union]. rewrite Eo.
  rewrite Eo in Hrow. cbn [fst] in Hrow.
  unfold oseq. rewrite HG1. cbn [fst]. apply in_app_iff. left. exact Hrow.
Qed.

(* ------------------------------------------------------------------ assembly *)

Lemma in_used_comm_cond ps st c n :
  In st (all_stmts ps) -> In c (s_match st) -> In n (cond_comm_names c) -> In n (used_comm_names ps).
Proof.
  intros H1 H2 H3. unfold used_comm_names. apply sort_uniq_in. apply in_flat_map. exists st. split; [exact H1|].
  apply in_app_iff. left. apply in_flat_map. eauto.
Qed.
Lemma in_used_comm_act ps st a n :
  In st (all_stmts ps) -> In a (s_then st) -> In n (act_comm_names a) -> In n (used_comm_names ps).
Proof.
  intros H1 H2 H3. unfold used_comm_names. apply sort_uniq_in. apply in_flat_map. exists st. split; [exact H1|].
  apply in_app_iff. right. apply in_flat_map. eauto.
Qed.
Lemma in_unions_cond ps st c u :
  In st (all_stmts ps) -> In c (s_match st) -> In u (cond_unions c) -> In u (all_unions ps).
Proof.
  intros H1 H2 H3. unfold all_unions. apply in_flat_map. exists st. split; [exact H1|].
  unfold stmt_unions. apply in_app_iff. left. apply in_flat_map. eauto.
Qed.
Lemma in_unions_act ps st a n :
  In st (all_stmts ps) -> In a (s_then st) -> In n (act_comm_names a) -> In (n, [n]) (all_unions ps).
Proof.
  intros H1 H2 H3. unfold all_unions. apply in_flat_map. exists st. split; [exact H1|].
  unfold stmt_unions. apply in_app_iff. right. apply in_map_iff. exists n. split; [reflexivity|].
  apply in_flat_map. eauto.
Qed.
Lemma cl_ok_inv e ok n :
  cl_ok e ok n = true ->
  exists c, find_cl e n = Some c /\ ok (cl_type c) = true /\ nonempty (cl_members c) = true.
Proof.
  unfold cl_ok. destruct (find_cl e n) as [c|]; [|discriminate]. intros H. apply andb_true_iff in H as [H1 H2]. eauto.
Qed.

Lemma ctype_eqb_eq a b : ctype_eqb a b = true -> a = b.
Proof. destruct a, b; cbn; congruence. Qed.

Lemma mangle_single n : mangle [n] = n.
Proof. reflexivity. Qed.

Record wfp (g : prog) : Prop := {
  wf_conds : forall st c, In st (all_stmts (g_policies g)) -> In c (s_match st) -> wf_cond (g_env g) c = true;
  wf_acts : forall st a, In st (all_stmts (g_policies g)) -> In a (s_then st) -> wf_action (g_env g) a = true;
  wf_conds_b : forallb (fun st => forallb (wf_cond (g_env g)) (s_match st)) (all_stmts (g_policies g)) = true;
  wf_fam : families_ok (g_policies g) = true }.

Lemma wf_refs_wfp g : wf_refs g = true -> wfp g.
Proof.
  unfold wf_refs. cbv zeta. rewrite !andb_true_iff. intros [H Hf].
  assert (H' := H). rewrite forallb_forall in H.
  constructor; auto.
  - intros st c Hst Hc. specialize (H st Hst). apply andb_true_iff in H as [H _]. rewrite forallb_forall in H. auto.
  - intros st a Hst Ha. specialize (H st Hst). apply andb_true_iff in H as [_ H]. rewrite forallb_forall in H. auto.
  - apply forallb_forall. intros st Hst. specialize (H st Hst). apply andb_true_iff in H as [H _]. exact H.
Qed.

Lemma wf_prog_wf_refs g : wf_prog g = true -> wf_refs g = true.
Proof.
  unfold wf_prog, wf_refs. cbv zeta. rewrite !andb_true_iff. intros [[_ H] Hf]. auto.
Qed.

Lemma defined_in_lists v g o x :
  In o (list_gens v g) -> defined_by v (rows_of o) x -> In x (defs v (lists_rows v g)).
Proof.
  intros Ho (row & Hrow & Hx). unfold defs, lists_rows.
  apply in_flat_map. exists row. split; [apply in_flat_map; eauto|]. exact Hx.
Qed.

Lemma lists_ok_in v g o : lists_ok v g = true -> In o (list_gens v g) -> gout_ok o = true.
Proof. unfold lists_ok. rewrite forallb_forall. auto. Qed.

Lemma uses_defined_huawei g x :
  wf_refs g = true -> lists_ok Huawei g = true ->
  In x (prog_uses Huawei g) -> In x (defs Huawei (lists_rows Huawei g)).
Proof.
  intros Hwf Hok Hx. apply wf_refs_wfp in Hwf. destruct Hwf as [Wc Wa Wb Wf].
  destruct g as [e ps]. cbn [g_env g_policies] in *.
  unfold prog_uses in Hx. cbn [g_env g_policies] in Hx.
  apply in_flat_map in Hx as (st & Hst & Hx). apply in_app_iff in Hx as [Hx|Hx];
    [apply in_flat_map in Hx as (c & Hc & Hx); specialize (Wc st c Hst Hc)
    |apply in_flat_map in Hx as (a & Ha & Hx); specialize (Wa st a Hst Ha)].
  - destruct c as [f o names|o names|v6 names ge le|o v1 v2|n|f o w]; cbn [cond_uses] in Hx; try (destruct Hx; fail).
    + (* community lists *)
      apply in_map_iff in Hx as (n & <- & Hn).
      cbn in Wc. apply andb_true_iff in Wc as [_ Wc]. rewrite forallb_forall in Wc.
      destruct (cl_ok_inv _ _ _ (Wc n Hn)) as (c & Ec & Ht & Hne). apply ctype_eqb_eq in Ht.
      eapply (defined_in_lists Huawei (Prog e ps) (hw_comm_gen e ps)); [cbn; auto|].
      replace (comm_ns Huawei f) with (hw_ns (cl_type c)) by (rewrite <- Ht; destruct f; reflexivity).
      apply hw_comm_defined; auto.
      * apply (lists_ok_in _ _ _ Hok). cbn. auto.
      * eapply in_used_comm_cond; eauto.
    + (* rd *)
      destruct names as [|n [|n2 l]]; try destruct Hx.
      destruct (find_rd e n) as [r|] eqn:Er; [|destruct Hx]. apply in_single in Hx. subst x.
      cbn in Wc. rewrite Er in Wc. rewrite !andb_true_r in Wc.
      eapply (defined_in_lists Huawei (Prog e ps) (plain (rd_gen e ps))); [cbn; auto 6|].
      rewrite rows_of_plain. eapply rd_defined; eauto.
      apply plain_ok. apply (lists_ok_in _ _ _ Hok). cbn. auto 6.
    + (* prefix lists *)
      apply in_map_iff in Hx as (n & <- & Hn).
      eapply (defined_in_lists Huawei (Prog e ps) (prefix_gen Huawei e ps)); [cbn; auto|].
      eapply prefix_defined; eauto.
    + (* as-path filter *)
      apply in_single in Hx. subst x.
      eapply (defined_in_lists Huawei (Prog e ps) (plain (aspath_gen Huawei e ps))); [cbn; auto|].
      rewrite rows_of_plain. eapply aspath_defined; eauto.
      apply plain_ok. apply (lists_ok_in _ _ _ Hok). cbn. auto.
  - destruct a as [f rep add rem|t w|set pre exp del las|t addr|f t w]; try (destruct Hx; fail).
    destruct f; cbn [act_uses] in Hx; try (destruct Hx; fail); apply in_map_iff in Hx as (n & <- & Hn).
    + cbn in Wa. rewrite forallb_forall in Wa.
      assert (Hin : In n (oflat rep ++ add ++ rem)) by (rewrite !in_app_iff; auto).
      destruct rep; destruct (cl_ok_inv _ _ _ (Wa n Hin)) as (c & Ec & Ht & Hne);
      (eapply (defined_in_lists Huawei (Prog e ps) (hw_comm_gen e ps)); [cbn; auto|];
       replace NsComm with (hw_ns (cl_type c)) by (destruct (cl_type c); try discriminate Ht; reflexivity);
       apply hw_comm_defined; auto;
       [ apply (lists_ok_in _ _ _ Hok); cbn; auto
       | eapply in_used_comm_act; eauto ]).
    + cbn in Wa. rewrite forallb_forall in Wa.
      assert (Hin : In n (oflat rep ++ add ++ rem)) by (rewrite !in_app_iff; auto).
      destruct rep; destruct (cl_ok_inv _ _ _ (Wa n Hin)) as (c & Ec & Ht & Hne);
      (eapply (defined_in_lists Huawei (Prog e ps) (hw_comm_gen e ps)); [cbn; auto|];
       replace NsExtRt with (hw_ns (cl_type c)) by (destruct (cl_type c); try discriminate Ht; reflexivity);
       apply hw_comm_defined; auto;
       [ apply (lists_ok_in _ _ _ Hok); cbn; auto
       | eapply in_used_comm_act; eauto ]).
Qed.

Lemma many_single (n : string) : many [n] = false.
Proof. reflexivity. Qed.
Lemma many_two (a b : string) l : many (a :: b :: l) = true.
Proof. reflexivity. Qed.

Lemma ar_ns_field v f : v <> Huawei -> ar_ns (cfield_type f) = comm_ns v f.
Proof. destruct v, f; try reflexivity; intros H; congruence. Qed.

Lemma uses_defined_arista g x :
  wf_refs g = true -> refs_guard Arista g = true -> lists_ok Arista g = true ->
  In x (prog_uses Arista g) -> In x (defs Arista (lists_rows Arista g)).
Proof.
  intros Hwf Hg Hok Hx. apply wf_refs_wfp in Hwf. destruct Hwf as [Wc Wa Wb Wf].
  destruct g as [e ps]. cbn [g_env g_policies] in *.
  unfold refs_guard in Hg. apply andb_true_iff in Hg as [Hres Hfun].
  cbn in Hres. apply andb_true_iff in Hres as [Hres _]. rewrite forallb_forall in Hres.
  assert (Hcg : gout_ok (ar_comm_gen e ps) = true) by (apply (lists_ok_in _ _ _ Hok); cbn; auto).
  assert (Hcomm : forall k n nm c, In (k, n :: nm) (all_unions ps) -> k = mangle (n :: nm) ->
            find_cl e n = Some c -> nonempty (cl_members c) = true ->
            In (ar_ns (cl_type c), k) (defs Arista (lists_rows Arista (Prog e ps)))).
  { intros k n nm c Hin Hk Ec Hne.
    eapply (defined_in_lists Arista (Prog e ps) (ar_comm_gen e ps)); [cbn; auto|].
    eapply ar_union_defined; eauto. apply (Hres _ Hin). }
  unfold prog_uses in Hx. cbn [g_env g_policies] in Hx.
  apply in_flat_map in Hx as (st & Hst & Hx). apply in_app_iff in Hx as [Hx|Hx];
    [apply in_flat_map in Hx as (c & Hc & Hx); specialize (Wc st c Hst Hc)
    |apply in_flat_map in Hx as (a & Ha & Hx); specialize (Wa st a Hst Ha)].
  - destruct c as [f o names|o names|v6 names ge le|o v1 v2|n|f o w]; cbn [cond_uses] in Hx; try (destruct Hx; fail).
    + (* community lists *)
      cbn in Wc. apply andb_true_iff in Wc as [Wne Wc]. rewrite forallb_forall in Wc.
      rewrite <- (ar_ns_field Arista f) in Hx by discriminate.
      assert (Hsingle : forall n', In n' names -> In (n', [n']) (cond_unions (CComm f o names)) ->
                In (ar_ns (cfield_type f), n') (defs Arista (lists_rows Arista (Prog e ps)))).
      { intros n' Hn' Hu. destruct (cl_ok_inv _ _ _ (Wc n' Hn')) as (c & Ec & Ht & Hne). apply ctype_eqb_eq in Ht.
        rewrite Ht. apply (Hcomm n' n' [] c); auto. eapply in_unions_cond; eauto. }
      destruct o; try (apply in_map_iff in Hx as (n' & <- & Hn'); apply Hsingle; [exact Hn'|];
                       cbn; apply in_map_iff; eauto).
      (* HAS_ANY *)
      apply in_single in Hx. subst x.
      destruct names as [|n nm]; [discriminate Wne|].
      destruct (cl_ok_inv _ _ _ (Wc n (or_introl eq_refl))) as (c & Ec & Ht & Hne). apply ctype_eqb_eq in Ht.
      rewrite Ht. apply (Hcomm (mangle (n :: nm)) n nm c); auto. eapply in_unions_cond; eauto.
      cbn [cond_unions]. destruct nm as [|n2 nm]; [rewrite many_single|rewrite many_two]; left; reflexivity.
    + (* prefix lists *)
      apply in_map_iff in Hx as (n & <- & Hn).
      eapply (defined_in_lists Arista (Prog e ps) (prefix_gen Arista e ps)); [cbn; auto|].
      eapply prefix_defined; eauto.
    + (* as-path filter *)
      apply in_single in Hx. subst x.
      eapply (defined_in_lists Arista (Prog e ps) (plain (aspath_gen Arista e ps))); [cbn; auto|].
      rewrite rows_of_plain. eapply aspath_defined; eauto.
      apply plain_ok. apply (lists_ok_in _ _ _ Hok). cbn. auto.
  - destruct a as [f rep add rem|t w|set pre exp del las|t addr|f t w]; try (destruct Hx; fail).
    destruct f; cbn [act_uses] in Hx; try (destruct Hx; fail); apply in_map_iff in Hx as (n & <- & Hn).
    + cbn in Wa. rewrite forallb_forall in Wa.
      assert (Hin : In n (oflat rep ++ add ++ rem)) by (rewrite !in_app_iff in *; tauto).
      destruct (cl_ok_inv _ _ _ (Wa n Hin)) as (c & Ec & Ht & Hne).
      replace NsComm with (ar_ns (cl_type c)) by (destruct (cl_type c); try discriminate Ht; reflexivity).
      apply (Hcomm n n [] c); auto. eapply in_unions_act; eauto.
    + cbn in Wa. rewrite forallb_forall in Wa.
      assert (Hin : In n (oflat rep ++ add ++ rem)) by (rewrite !in_app_iff in *; tauto).
      destruct (cl_ok_inv _ _ _ (Wa n Hin)) as (c & Ec & Ht & Hne).
      replace NsLarge with (ar_ns (cl_type c)) by (destruct (cl_type c); try discriminate Ht; reflexivity).
      apply (Hcomm n n [] c); auto. eapply in_unions_act; eauto.
Qed.

Lemma uses_defined_cumulus g x :
  wf_refs g = true -> refs_guard Cumulus g = true -> lists_ok Cumulus g = true ->
  In x (prog_uses Cumulus g) -> In x (defs Cumulus (lists_rows Cumulus g)).
Proof.
  intros Hwf Hg Hok Hx. apply wf_refs_wfp in Hwf. destruct Hwf as [Wc Wa Wb Wf].
  destruct g as [e ps]. cbn [g_env g_policies] in *.
  unfold refs_guard in Hg. apply andb_true_iff in Hg as [_ Hfun].
  assert (Hcg : snd (cu_comm_gen e ps) = None) by (apply plain_ok; apply (lists_ok_in _ _ _ Hok); cbn; auto).
  assert (Hcomm : forall k n nm c, In (k, n :: nm) (all_unions ps) -> k = mangle (n :: nm) ->
            find_cl e n = Some c -> nonempty (cl_members c) = true ->
            In (ar_ns (cl_type c), k) (defs Cumulus (lists_rows Cumulus (Prog e ps)))).
  { intros k n nm c Hin Hk Ec Hne.
    eapply (defined_in_lists Cumulus (Prog e ps) (plain (cu_comm_gen e ps))); [cbn; auto|].
    rewrite rows_of_plain. eapply cu_union_defined; eauto. }
  unfold prog_uses in Hx. cbn [g_env g_policies] in Hx.
  apply in_flat_map in Hx as (st & Hst & Hx). apply in_app_iff in Hx as [Hx|Hx];
    [apply in_flat_map in Hx as (c & Hc & Hx); specialize (Wc st c Hst Hc)
    |apply in_flat_map in Hx as (a & Ha & Hx); specialize (Wa st a Hst Ha)].
  - destruct c as [f o names|o names|v6 names ge le|o v1 v2|n|f o w]; cbn [cond_uses] in Hx; try (destruct Hx; fail).
    + (* community lists *)
      cbn in Wc. apply andb_true_iff in Wc as [Wne Wc]. rewrite forallb_forall in Wc.
      rewrite <- (ar_ns_field Cumulus f) in Hx by discriminate.
      assert (Hsingle : forall n', In n' names -> In (n', [n']) (cond_unions (CComm f o names)) ->
                In (ar_ns (cfield_type f), n') (defs Cumulus (lists_rows Cumulus (Prog e ps)))).
      { intros n' Hn' Hu. destruct (cl_ok_inv _ _ _ (Wc n' Hn')) as (c & Ec & Ht & Hne). apply ctype_eqb_eq in Ht.
        rewrite Ht. apply (Hcomm n' n' [] c); auto. eapply in_unions_cond; eauto. }
      destruct o; try (apply in_map_iff in Hx as (n' & <- & Hn'); apply Hsingle; [exact Hn'|];
                       cbn; apply in_map_iff; eauto).
      (* HAS_ANY *)
      apply in_single in Hx. subst x.
      destruct names as [|n nm]; [discriminate Wne|].
      destruct (cl_ok_inv _ _ _ (Wc n (or_introl eq_refl))) as (c & Ec & Ht & Hne). apply ctype_eqb_eq in Ht.
      rewrite Ht. apply (Hcomm (mangle (n :: nm)) n nm c); auto. eapply in_unions_cond; eauto.
      cbn [cond_unions]. destruct nm as [|n2 nm]; [rewrite many_single|rewrite many_two]; left; reflexivity.
    + (* prefix lists *)
      apply in_map_iff in Hx as (n & <- & Hn).
      eapply (defined_in_lists Cumulus (Prog e ps) (prefix_gen Cumulus e ps)); [cbn; auto|].
      eapply prefix_defined; eauto.
    + (* as-path filter *)
      apply in_single in Hx. subst x.
      eapply (defined_in_lists Cumulus (Prog e ps) (plain (aspath_gen Cumulus e ps))); [cbn; auto|].
      rewrite rows_of_plain. eapply aspath_defined; eauto.
      apply plain_ok. apply (lists_ok_in _ _ _ Hok). cbn. auto.
  - destruct a as [f rep add rem|t w|set pre exp del las|t addr|f t w]; try (destruct Hx; fail).
    destruct f; cbn [act_uses] in Hx; try (destruct Hx; fail); apply in_map_iff in Hx as (n & <- & Hn).
    + cbn in Wa. rewrite forallb_forall in Wa.
      assert (Hin : In n (oflat rep ++ add ++ rem)) by (rewrite !in_app_iff in *; tauto).
      destruct (cl_ok_inv _ _ _ (Wa n Hin)) as (c & Ec & Ht & Hne).
      replace NsComm with (ar_ns (cl_type c)) by (destruct (cl_type c); try discriminate Ht; reflexivity).
      apply (Hcomm n n [] c); auto. eapply in_unions_act; eauto.
Qed.

(* ------------------------------------------------------------------ the theorem *)

Lemma ns_eqb_refl n : ns_eqb n n = true.
Proof. destruct n; reflexivity. Qed.

Lemma nsname_mem_in x l : In x l -> nsname_mem x l = true.
Proof.
  intros H. unfold nsname_mem. apply existsb_exists. exists x. split; [exact H|].
  rewrite ns_eqb_refl, String.eqb_refl. reflexivity.
Qed.

Theorem refs_defined_holds fx v g :
  wf_refs g = true -> refs_guard v g = true -> lists_ok v g = true -> refs_defined fx v g = true.
Proof.
  intros Hwf Hg Hok. unfold refs_defined, subset_refs. apply forallb_forall. intros x Hx.
  apply nsname_mem_in.
  assert (Hu : In x (prog_uses v g)).
  { unfold refs in Hx. apply in_flat_map in Hx as (row & Hrow & Hx).
    eapply policy_row_uses; eauto. unfold refs_guard in Hg. apply andb_true_iff in Hg as [Hg _]. exact Hg. }
  destruct v.
  - apply uses_defined_huawei; auto.
  - apply uses_defined_arista; auto.
  - apply uses_defined_cumulus; auto.
Qed.

Corollary refs_defined_holds_wf_prog fx v g :
  wf_prog g = true -> refs_guard v g = true -> lists_ok v g = true -> refs_defined fx v g = true.
Proof. intros H. apply refs_defined_holds. apply wf_prog_wf_refs. exact H. Qed.

(* the two halves, for the record *)
Definition rows_refer_only_to_uses := policy_row_uses.
