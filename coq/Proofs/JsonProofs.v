(* C13 — lemma library, part 1: patches (jsonpatch as a Section variable), refutation
   witnesses.  The fragment/filter lemmas live in JsonFragProofs.v. *)
From Coq Require Import List String Ascii Bool Arith ZArith.
From Annet Require Import Base.Str Model.Json Spec.P_C13 Proofs.JsonFragProofs.
Import ListNotations.
Open Scope string_scope.
Open Scope list_scope.

(* ---------------------------------------------------------------- make_patch / apply_patch *)

Section Patch.
  (* the third-party diff jsonpatch.make_patch(a, b).patch, not modelled *)
  Variable D : json -> json -> list op.
  Hypothesis D_ok : forall a b, apply_ops (D a b) a = Some b.

  (* annet keeps the library's order (tree with fixes/C13-make-patch-order.patch) *)
  Lemma patch_roundtrip_keep_order :
    forall V a b, v_sorted V = false -> apply_ops (make_patch_of V (D a b)) a = Some b.
  Proof. intros V a b HV. unfold make_patch_of. rewrite HV. apply D_ok. Qed.
End Patch.

Definition w_old : json := JObj [("d", JArr [JStr "x"; JStr "y"; JStr "z"])].
Definition w_new : json := JObj [("d", JArr [JStr "z"; JStr "x"])].
Definition w_ops : list op := [OpRemove "/d/1"; OpMove "/d/1" "/d/0"].

(* sorting by "path" (the current make_patch) breaks a correct operation list *)
Lemma sorted_refuted :
  exists a b ops,
    apply_ops ops a = Some b /\
    apply_ops (make_patch_of V_current ops) a <> Some b.
Proof.
  exists w_old, w_new, w_ops. split.
  - vm_compute. reflexivity.
  - vm_compute. intro H. discriminate H.
Qed.

(* ... and can make it fail to apply at all *)
Definition w2_old : json := JObj [("a", JArr [JNum 1]); ("b", JArr [])].
Definition w2_ops : list op := [OpAdd "/b/0" (JNum 7); OpMove "/a/0" "/b/1"; OpRemove "/b/0"; OpAdd "/a/0" (JNum 2)].

Lemma sorted_refuted_raises :
  exists a ops, apply_ops ops a <> None /\ apply_ops (make_patch_of V_current ops) a = None.
Proof.
  exists w2_old, w2_ops. split.
  - vm_compute. intro H. discriminate H.
  - vm_compute. reflexivity.
Qed.

(* ---------------------------------------------------------------- fragments: witnesses *)

(* current tree: the pointer is rebuilt without RFC 6901 escaping; a key "a/b" is then read
   and written as member b of member a *)
Definition w3 : frag_in :=
  (JObj [("a", JObj [("b", JNum 1)]); ("a/b", JNum 2)],
   JObj [("a", JObj [("b", JNum 9)]); ("a/b", JNum 5)],
   ["/a~1b"]).

Lemma unescaped_refuted :
  exists x, dom_frag x = true /\ P_C13_frag x (frag_outcome V_current x) = false /\
            P_C13_frag x (frag_outcome V_fixed x) = true.
Proof. exists w3. vm_compute. repeat split. Qed.

Definition w4 : frag_in :=
  (JObj [("a~b", JNum 1)], JObj [("a~b", JNum 5)], ["/*"]).
Lemma unescaped_refuted_raises :
  exists x, dom_frag x = true /\ fst (frag_outcome V_current x) = None /\
            fst (frag_outcome V_fixed x) = Some (JObj [("a~b", JNum 5)]).
Proof. exists w4. vm_compute. repeat split. Qed.

(* current tree: a str is treated as a Sequence by _resolve_json_pointers *)
Definition w5 : frag_in := (JObj [("a", JStr "xy")], JObj [("a", JStr "zz")], ["/a/*"]).
Lemma strseq_refuted :
  exists x, dom_frag x = true /\ fst (frag_outcome V_current x) = None /\
            P_C13_frag x (frag_outcome V_fixed x) = true.
Proof. exists w5. vm_compute. repeat split. Qed.

Lemma strseq_filter_refuted :
  exists d F, P_C13_filter (d, F) (apply_acl_filters V_current d F) = false /\
              P_C13_filter (d, F) (apply_acl_filters V_fixed d F) = true.
Proof. exists (JObj [("a", JStr "xy")]), ["/a/*"]. vm_compute. split; reflexivity. Qed.

(* both trees: a pattern that steps into an array — outside the guard [wf_frag] of the
   fragment theorems; elements the fragment lacks are not removed *)
Definition w6 : frag_in :=
  (JObj [("a", JArr [JNum 1; JNum 2; JNum 3])], JObj [("a", JArr [JNum 4])], ["/a/*"]).
Lemma array_step_refuted :
  exists x, dom_frag x = true /\ P_inside x (frag_outcome V_fixed x) = false.
Proof. exists w6. vm_compute. split; reflexivity. Qed.

(* both trees: the root pointer as an acl item raises *)
Lemma root_pointer_refuted :
  exists x, dom_frag x = true /\ fst (frag_outcome V_fixed x) = None.
Proof. exists (JObj [], JObj [("a", JNum 1)], [""]). vm_compute. split; reflexivity. Qed.
