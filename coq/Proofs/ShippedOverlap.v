(* C08 for the shipped ordering rulebooks: the list [overlaps] (Spec/P_Shipped.v) examines every sibling pair. *)
From Coq Require Import List String Bool Arith Lia.
From Annet Require Import Base.Str Model.Rulebook Model.Order Model.ShippedText Spec.P_Shipped Gen.Src_rules.
Import ListNotations.
Open Scope string_scope.

(* ------------------------------------------------------------------ C08: the sibling pairs the overlap test lists *)
(* every pair of siblings (in rulebook order) is examined *)
Lemma pairs_of_complete {A} : forall (l : list A) i j x y, i < j -> nth_error l i = Some x -> nth_error l j = Some y ->
  In (x, y) (pairs_of l).
Proof.
  induction l as [|a l IH]; intros i j x y Hij Hi Hj; [destruct i; discriminate|]. cbn [pairs_of]. apply in_or_app.
  destruct i as [|i]; destruct j as [|j]; try (exfalso; inversion Hij; fail).
  - cbn in Hi. injection Hi as ->. left. apply in_map. apply (nth_error_In l j Hj).
  - right. apply (IH i j x y); [lia | exact Hi | exact Hj].
Qed.

Definition pair_hit (p : (orule * list (list lv)) * (orule * list (list lv))) : bool :=
  scopes_meet (fst (fst p)) (fst (snd p)) && vecs_overlap (snd (fst p)) (snd (snd p)).

Lemma overlaps_r_eq prefix raw pat a b c kids :
  overlaps_r prefix (ORule raw pat a b c kids) =
  (map (fun p : (orule * list (list lv)) * (orule * list (list lv)) => (o_raw (fst (fst p)), o_raw (fst (snd p))))
       (filter pair_hit (pairs_of (map (fun k => (k, form_vecs prefix k)) kids)))
   ++ flat_map (overlaps_r prefix) kids)%list.
Proof. reflexivity. Qed.

(* a top-level sibling pair that is not listed is separated by the literal test (or by %scope) *)
Lemma overlaps_top_complete prefix ord i j x y :
  i < j -> nth_error ord i = Some x -> nth_error ord j = Some y ->
  ~ In (o_raw x, o_raw y) (overlaps prefix ord) ->
  scopes_meet x y && vecs_overlap (form_vecs prefix x) (form_vecs prefix y) = false.
Proof.
  intros Hij Hi Hj Hn.
  destruct (scopes_meet x y && vecs_overlap (form_vecs prefix x) (form_vecs prefix y)) eqn:E; [|reflexivity].
  exfalso. apply Hn. unfold overlaps. rewrite overlaps_r_eq. apply in_or_app. left.
  apply in_map_iff. exists ((x, form_vecs prefix x), (y, form_vecs prefix y)). split; [reflexivity|].
  apply filter_In. split; [|exact E].
  apply (pairs_of_complete _ i j); [exact Hij | |]; rewrite nth_error_map; [rewrite Hi | rewrite Hj]; reflexivity.
Qed.

Lemma shipped_orderings_compile :
  forallb (fun h => match shipped_ordering h with Some _ => true | None => false end) Src_shipped = true.
Proof. vm_compute. reflexivity. Qed.
