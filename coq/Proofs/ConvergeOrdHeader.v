(* C01 for %ordered rules, layer 4: a level BELOW A BLOCK HEADER.
   A. the header step, for ANY body: old = [(h, T bo)], new = [(h, T bn)], h governed by a rule with the default
      diff logic and the default logic.  make_diff yields one AFFECTED (or UNCHANGED) entry whose children are
      make_diff of the bodies under the child rules; make_pre / make_patch yield one block item whose child
      patch is the body's patch computed with the ordering rules get_order hands down; the device enters the
      block (Device.exec_direct: same slot, same text) and runs the child patch inside.  So if the body's
      patch - for the handed-down ordering rules - turns bo into bn, the block's patch turns old into new:
      EQUALITY OF FORESTS.  The step can be iterated (a chain of headers).
   B. instantiated with the flat %ordered level of Proofs/ConvergeOrdFlat.v. *)
From Coq Require Import List String Bool Arith ZArith Lia Permutation.
From Annet Require Import Base.Str Base.Tree Model.Pattern Model.Rulebook Model.Diff Model.Order Model.Patch
     Model.Blocks Model.Pipeline Model.Device Spec.P_C03 Spec.P_C01 Spec.P_C01o Spec.P_C01ord
     Proofs.DiffBasics Proofs.DiffProofsLib Proofs.DiffProofsAnnot Proofs.SortProofs Proofs.OrderProofs Proofs.ConvergeDevice
     Proofs.ConvergeRun Proofs.ConvergeBlocks Proofs.ConvergePre Proofs.ConvergeDiff Proofs.ConvergeSlot Proofs.ConvergeMain
     Proofs.ConvergeOrdSeq Proofs.ConvergeOrdFlat Proofs.ConvergeWf Proofs.ConvergeTop.
Import ListNotations.
Open Scope string_scope.
Open Scope list_scope.

Section Header.
  Variable rmatch : string -> string -> option (list string).
  Variable rsrc : string -> string.
  Variable rrev : string -> string.
  Variable block_exit : string.
  Variable rreverse : string -> list string -> string.
  Variable is_exit : string -> bool.
  Variable fam : family.
  Hypothesis Hfam : block_family fam = true.
  Hypothesis Hex : forall ex, In ex (family_exits fam) -> is_exit ex = true.

  Notation mkpatch := (make_patch rmatch rsrc rrev block_exit rreverse).
  Notation xexec := (exec rmatch rreverse is_exit).
  Notation run_pt := (run_pt rmatch rreverse is_exit).

  Variable rs : rset.
  Variable h : string.
  Variable mh : minfo.
  Variable crs : rset.
  Hypothesis Hm : match_row rmatch h rs = Some (mh, crs).
  Hypothesis Hdl : mi_dlogic mh = DDefault.
  Hypothesis Hlg : a_logic (mi_attrs mh) = LDefault.
  Hypothesis Hfc : a_force_commit (mi_attrs mh) = false.
  Hypothesis Hne : is_exit h = false.

  Variables bo bn : forest.
  (* no child of the old body is governed by a %rewrite rule: entering the block keeps the body *)
  Hypothesis Henter : enter rmatch crs bo = bo.

  Variable ord : list orule.
  (* the ordering rules handed down to the children of the header *)
  Definition ord_below : list orule := snd (get_order rmatch rsrc rrev block_exit ord h true (Some "patch")).

  (* the body converges under the handed-down ordering rules *)
  Variable ct : ptree.
  Hypothesis Hb_patch : mkpatch (make_pre (make_diff rmatch crs bo bn)) ord_below = POk ct.
  Hypothesis Hb_ok : prows_ok is_exit ct.
  Hypothesis Hb_run : xexec crs (cmd_paths fam ct) bo = bn.

  Let old : forest := [(h, T bo)].
  Let new : forest := [(h, T bn)].

  Lemma header_raw_diff : raw_diff rmatch rs old new = [DN Affected h mh (raw_diff rmatch crs bo bn)].
  Proof.
    unfold raw_diff, old, new.
    change (annot rmatch rs (T [(h, T bn)])) with (AT (annot_f rmatch rs [(h, T bn)])).
    rewrite diff_t_unfold, !annot_f_cons, Hm, !annot_f_nil.
    rewrite diff_level_default.
    - unfold base_diff. cbn [cks map arow ami asub fst snd scan_new afind removed_rows existsb].
      rewrite String.eqb_refl. cbn [orb negb Nat.eqb interleave]. rewrite annot_akids. reflexivity.
    - intros k [<-|[]]. exact Hdl.
    - intros k [<-|[]]. exact Hdl.
  Qed.

  Definition body_unchanged : bool :=
    forallb (fun x => op_eqb (d_op x) Unchanged) (make_diff rmatch crs bo bn).

  Lemma header_diff : make_diff rmatch rs old new =
    [DN (if body_unchanged then Unchanged else Affected) h mh (make_diff rmatch crs bo bn)].
  Proof. unfold make_diff at 1. rewrite header_raw_diff. reflexivity. Qed.

  Lemma run_nil f rs0 : run_pt (PT []) rs0 f = f.
  Proof. reflexivity. Qed.

  Lemma body_run : run_pt ct crs bo = bn.
  Proof. rewrite <- (exec_cmd_paths rmatch rreverse is_exit fam crs ct bo Hfam Hex Hb_ok). exact Hb_run. Qed.

  Lemma header_cmd : exec_cmd rmatch rreverse is_exit rs h old = old.
  Proof.
    unfold exec_cmd. rewrite Hne, Hm. unfold exec_direct, old. cbn [find].
    assert (E : in_slot rmatch rs mh (h, T bo) = true).
    { unfold in_slot, slot_of. cbn [fst]. rewrite Hm. cbn [option_map fst]. apply same_slot_refl. }
    rewrite E. cbn [fst]. rewrite String.eqb_refl. cbn [replace_slot]. rewrite E. cbn [snd kids]. rewrite Henter. reflexivity.
  Qed.

  (* the header step with NO assumption on what the body's patch does: the block ends with the body the child patch builds *)
  Theorem header_runs :
    exists pt, mkpatch (make_pre (make_diff rmatch rs old new)) ord = POk pt /\ prows_ok is_exit pt /\
               xexec rs (cmd_paths fam pt) old = [(h, T (run_pt ct crs bo))].
  Proof.
    clear Hb_run. rewrite header_diff. destruct body_unchanged eqn:Eu.
    - exists (PT []). unfold body_unchanged in Eu. rewrite forallb_forall in Eu.
      assert (Hall : forall x, In x (make_diff rmatch crs bo bn) -> d_op x = Unchanged)
        by (intros x Hx; apply op_eqb_eq; apply Eu; exact Hx).
      assert (Hct : ct = PT []).
      { rewrite (patch_unchanged rmatch rsrc rrev block_exit rreverse _ ord_below Hall) in Hb_patch. congruence. }
      split; [|split].
      + apply patch_unchanged. intros x [<-|[]]. reflexivity.
      + cbn. split; [constructor | exact I].
      + rewrite exec_cmd_paths; [|exact Hfam|exact Hex|cbn; split; [constructor | exact I]].
        rewrite Hct. reflexivity.
    - set (K := make_diff rmatch crs bo bn) in *.
      assert (HK : match pgroups (make_pre K) with [] => false | _ => true end = true).
      { destruct (pgroups (make_pre K)) eqn:E; [|reflexivity]. apply make_pre_nil in E.
        unfold body_unchanged in Eu. fold K in Eu. rewrite E in Eu. discriminate. }
      rewrite make_pre_groups.
      assert (Efl : flat_groups (group_all (map make_pre_n [DN Affected h mh K])) =
                    [(mi_raw mh, mi_attrs mh, mi_key mh, [(Affected, h, make_pre K)])]) by reflexivity.
      rewrite make_patch_unfold, Efl. clear Efl.
      set (ne := match pgroups (make_pre K) with [] => false | _ => true end) in *.
      assert (Ecf : map (conv_flat rmatch rsrc rrev block_exit rreverse)
                        [(mi_raw mh, mi_attrs mh, mi_key mh, [(Affected, h, make_pre K)])] =
                    [(mi_raw mh, mi_attrs mh, mi_key mh, [(Affected, h, mkpatch (make_pre K), ne)])]) by reflexivity.
      rewrite Ecf. clear Ecf. cbn [map].
      assert (Esl : slot_items rmatch rsrc rrev block_exit rreverse ord
                      (mi_raw mh, mi_attrs mh, mi_key mh, [(Affected, h, mkpatch (make_pre K), ne)]) =
                    option_map (@List.concat _)
                      (all_some [yield_item rmatch rsrc rrev block_exit ord (mi_raw mh) (mi_attrs mh)
                                            (true, h, Some (mkpatch (make_pre K), ne))])).
      { unfold slot_items. rewrite Hlg. reflexivity. }
      rewrite Esl. clear Esl. unfold yield_item.
      destruct (get_order rmatch rsrc rrev block_exit ord h true (Some "patch")) as [[order odirect] ord'] eqn:Eg.
      assert (Eo : ord_below = ord') by (unfold ord_below; rewrite Eg; reflexivity).
      rewrite HK. rewrite <- Eo, Hb_patch. rewrite Hfc.
      cbn [all_some option_map List.concat app negb orb].
      set (sk := (match order with ZFin z => ZFin (if odirect then z else (- z)%Z) | ZInf => ZInf end, mi_raw mh, odirect)).
      destruct (match pitems ct with [] => negb (a_parent (mi_attrs mh)) | _ :: _ => false end || false) eqn:El.
      + assert (Hct : ct = PT []).
        { destruct ct as [[|x l]]; [reflexivity|]. cbn in El. discriminate. }
        exists (PT [(h, None, sk)]). split; [reflexivity|].
        assert (Hok : prows_ok is_exit (PT [(h, None, sk)])).
        { apply prows_ok_cons. split; [intros []|]. split; [exact Hne|]. split; [exact I|]. cbn. split; [constructor | exact I]. }
        split; [exact Hok|]. rewrite exec_cmd_paths by assumption. rewrite run_pt_fold. cbn [fold_left].
        unfold run_item. cbn [ichild irow fst snd]. rewrite header_cmd. unfold old. rewrite Hct. reflexivity.
      + exists (PT [(h, Some ct, sk)]). split; [reflexivity|].
        assert (Hok : prows_ok is_exit (PT [(h, Some ct, sk)])).
        { apply prows_ok_cons. split; [intros []|]. split; [exact Hne|]. split; [exact Hb_ok|]. cbn. split; [constructor | exact I]. }
        split; [exact Hok|]. rewrite exec_cmd_paths by assumption. rewrite run_pt_fold. cbn [fold_left].
        unfold run_item. cbn [ichild irow fst snd]. rewrite Hm, header_cmd. unfold old. cbn [nav].
        rewrite String.eqb_refl. cbn [kids]. reflexivity.
  Qed.

  Theorem header_converges :
    exists pt, mkpatch (make_pre (make_diff rmatch rs old new)) ord = POk pt /\ prows_ok is_exit pt /\
               xexec rs (cmd_paths fam pt) old = new.
  Proof.
    rewrite header_diff. destruct body_unchanged eqn:Eu.
    - (* nothing changes below the header *)
      exists (PT []). unfold body_unchanged in Eu. rewrite forallb_forall in Eu.
      assert (Hall : forall x, In x (make_diff rmatch crs bo bn) -> d_op x = Unchanged)
        by (intros x Hx; apply op_eqb_eq; apply Eu; exact Hx).
      assert (Hct : ct = PT []).
      { rewrite (patch_unchanged rmatch rsrc rrev block_exit rreverse _ ord_below Hall) in Hb_patch. congruence. }
      assert (Hbb : bo = bn) by (rewrite <- body_run, Hct; reflexivity).
      split; [|split].
      + apply patch_unchanged. intros x [<-|[]]. reflexivity.
      + cbn. split; [constructor | exact I].
      + rewrite exec_cmd_paths; [|exact Hfam|exact Hex|cbn; split; [constructor | exact I]].
        unfold old, new. rewrite Hbb. reflexivity.
    - (* the block is entered and patched inside *)
      set (K := make_diff rmatch crs bo bn) in *.
      assert (HK : match pgroups (make_pre K) with [] => false | _ => true end = true).
      { destruct (pgroups (make_pre K)) eqn:E; [|reflexivity]. apply make_pre_nil in E.
        unfold body_unchanged in Eu. fold K in Eu. rewrite E in Eu. discriminate. }
      rewrite make_pre_groups.
      assert (Efl : flat_groups (group_all (map make_pre_n [DN Affected h mh K])) =
                    [(mi_raw mh, mi_attrs mh, mi_key mh, [(Affected, h, make_pre K)])]) by reflexivity.
      rewrite make_patch_unfold, Efl. clear Efl.
      set (ne := match pgroups (make_pre K) with [] => false | _ => true end) in *.
      assert (Ecf : map (conv_flat rmatch rsrc rrev block_exit rreverse)
                        [(mi_raw mh, mi_attrs mh, mi_key mh, [(Affected, h, make_pre K)])] =
                    [(mi_raw mh, mi_attrs mh, mi_key mh, [(Affected, h, mkpatch (make_pre K), ne)])]) by reflexivity.
      rewrite Ecf. clear Ecf. cbn [map].
      assert (Esl : slot_items rmatch rsrc rrev block_exit rreverse ord
                      (mi_raw mh, mi_attrs mh, mi_key mh, [(Affected, h, mkpatch (make_pre K), ne)]) =
                    option_map (@List.concat _)
                      (all_some [yield_item rmatch rsrc rrev block_exit ord (mi_raw mh) (mi_attrs mh)
                                            (true, h, Some (mkpatch (make_pre K), ne))])).
      { unfold slot_items. rewrite Hlg. reflexivity. }
      rewrite Esl. clear Esl. unfold yield_item.
      destruct (get_order rmatch rsrc rrev block_exit ord h true (Some "patch")) as [[order odirect] ord'] eqn:Eg.
      assert (Eo : ord_below = ord') by (unfold ord_below; rewrite Eg; reflexivity).
      rewrite HK. rewrite <- Eo, Hb_patch. rewrite Hfc.
      cbn [all_some option_map List.concat app negb orb].
      set (sk := (match order with ZFin z => ZFin (if odirect then z else (- z)%Z) | ZInf => ZInf end, mi_raw mh, odirect)).
      destruct (match pitems ct with [] => negb (a_parent (mi_attrs mh)) | _ :: _ => false end || false) eqn:El.
      + (* a leaf item: the child patch is empty *)
        assert (Hct : ct = PT []).
        { destruct ct as [[|x l]]; [reflexivity|]. cbn in El. discriminate. }
        assert (Hbb : bo = bn) by (rewrite <- body_run, Hct; reflexivity).
        exists (PT [(h, None, sk)]). split; [reflexivity|].
        assert (Hok : prows_ok is_exit (PT [(h, None, sk)])).
        { apply prows_ok_cons. split; [intros []|]. split; [exact Hne|]. split; [exact I|]. cbn. split; [constructor | exact I]. }
        split; [exact Hok|]. rewrite exec_cmd_paths by assumption. rewrite run_pt_fold. cbn [fold_left].
        unfold run_item. cbn [ichild irow fst snd]. rewrite header_cmd. unfold old, new. rewrite Hbb. reflexivity.
      + exists (PT [(h, Some ct, sk)]). split; [reflexivity|].
        assert (Hok : prows_ok is_exit (PT [(h, Some ct, sk)])).
        { apply prows_ok_cons. split; [intros []|]. split; [exact Hne|]. split; [exact Hb_ok|]. cbn. split; [constructor | exact I]. }
        split; [exact Hok|]. rewrite exec_cmd_paths by assumption. rewrite run_pt_fold. cbn [fold_left].
        unfold run_item. cbn [ichild irow fst snd]. rewrite Hm, header_cmd. unfold old, new. cbn [nav].
        rewrite String.eqb_refl. cbn [kids]. rewrite body_run. reflexivity.
  Qed.
End Header.

(* ------------------------------------------------------------------ the flat %ordered level: its patch has distinct rows *)
Section FlatRows.
  Variable rmatch : string -> string -> option (list string).
  Variable rsrc : string -> string.
  Variable rrev : string -> string.
  Variable block_exit : string.
  Variable rreverse : string -> list string -> string.
  Variable is_exit : string -> bool.
  Variable rs : rset.
  Variable U : list string.
  Hypothesis HD : fdom rmatch rreverse is_exit rs U.

  Lemma flat_prows_ok ord o n : incl o U -> incl n U -> NoDup o -> NoDup n ->
    prows_ok is_exit (PT (sort_items (flat_map (items rmatch rsrc rrev block_exit rreverse rs ord) (D0 rmatch rs o n)))).
  Proof.
    intros Ho Hn Hndo Hndn. rewrite <- (tsorted_fst rmatch rsrc rrev block_exit rreverse rs ord o n).
    set (ts := tsorted rmatch rsrc rrev block_exit rreverse rs ord o n).
    pose proof (tsorted_tagged rmatch rsrc rrev block_exit rreverse rs U ord o n Ho Hn) as Htag. fold ts in Htag.
    apply prows_ok_intro'.
    - unfold ts. rewrite tsorted_fst. eapply Permutation_NoDup; [apply Permutation_sym, Permutation_map, sort_perm|].
      apply (items_rows_nodup rmatch rsrc rrev block_exit rreverse is_exit rs U HD); [apply D0_isnd | apply D0_rows_nodup]; assumption.
    - intros it Hit. apply in_map_iff in Hit as (x & E & Hx). subst it. rewrite Forall_forall in Htag.
      destruct (Htag x Hx) as [Hxu Hxt]. destruct (fst (snd x)).
      + destruct Hxt as [Er Hc]. rewrite Er. split; [apply (fd_noexit _ _ _ _ _ HD); exact Hxu | exact Hc].
      + destruct Hxt as [Er Hc]. rewrite Er. split; [apply (fd_rev _ _ _ _ _ HD); exact Hxu | left; exact Hc].
  Qed.
End FlatRows.

(* ------------------------------------------------------------------ instantiated: a flat %ordered level below one header *)

(* the computable domain: one header row h in old and new, known to a rule with default diff logic and default logic,
   no %force_commit, h no exit word; the bodies are a flat %ordered level in the domain [wf_ord_flat] for the child
   rule set of h and the ordering rules get_order hands down for h *)
Definition hdr_ok (v : vendor) (rs : rset) (h : string) : bool :=
  match match_row pm h rs with
  | Some (mh, _) =>
    dlogic_eqb (a_dlogic (mi_attrs mh)) DDefault && logic_eqb (a_logic (mi_attrs mh)) LDefault &&
    negb (a_force_commit (mi_attrs mh)) && negb (v_is_exit v h)
  | None => false
  end.
Definition hdr_crs (rs : rset) (h : string) : rset :=
  match match_row pm h rs with Some (_, crs) => crs | None => ([], []) end.
Definition hdr_ord (v : vendor) (ordering : list orule) (h : string) : list orule :=
  snd (p_get_order v ordering h true (Some "patch")).

Definition wf_ord_below (v : vendor) (rs : rset) (ordering : list orule) (old new : forest) : bool :=
  match old, new with
  | [(h, T bo)], [(h', T bn)] =>
    String.eqb h h' && hdr_ok v rs h && wf_ord_flat v (hdr_crs rs h) (hdr_ord v ordering h) bo bn
  | _, _ => false
  end.

Lemma enter_ordered_id v crs bo : ord_flat_dom v crs (keys bo) = true -> enter pm crs bo = bo.
Proof.
  intro H. apply enter_id. intros e m He Hs.
  unfold ord_flat_dom in H. rewrite forallb_forall in H. specialize (H (fst e) (in_map fst _ _ He)).
  unfold slot_of in Hs. destruct (match_row pm (fst e) crs) as [[s c]|]; [|discriminate]. cbn in Hs. injection Hs as ->.
  repeat (apply andb_true_iff in H as [H _]). unfold is_ordered in H. unfold is_rewrite.
  destruct (a_dlogic (mi_attrs m)); try discriminate. reflexivity.
Qed.

Lemma ord_flat_dom_incl v rs U U' : incl U' U -> ord_flat_dom v rs U = true -> ord_flat_dom v rs U' = true.
Proof.
  intros Hi H. unfold ord_flat_dom in *. rewrite forallb_forall in *. intros r Hr. specialize (H r (Hi r Hr)).
  destruct (match_row pm r rs) as [[s c]|]; [|exact H].
  repeat (apply andb_true_iff in H as [H ?]). repeat (apply andb_true_iff; split); try assumption.
  rewrite forallb_forall in *. intros r' Hr'. apply H0. apply Hi. exact Hr'.
Qed.

(* the flat %ordered level with the run_pt-free conclusion AND the shape of its patch *)
Lemma ordered_flat_full v rs ordering old new : wf_ord_flat v rs ordering old new = true ->
  exists pt, p_make_patch v ordering (make_pre (p_make_diff rs old new)) = POk pt /\ prows_ok (v_is_exit v) pt /\
             p_exec v rs (cmd_paths (v_family v) pt) old = new.
Proof.
  intro Hw. destruct (ordered_flat_model v rs ordering old new Hw) as (pt & Hp & He).
  exists pt. split; [exact Hp|]. split; [|exact He].
  unfold wf_ord_flat in Hw. repeat (apply andb_true_iff in Hw as [Hw ?]).
  rename Hw into Hfam, H into Hord, H0 into Hdom, H1 into Hnn, H2 into Hno, H3 into Hln, H4 into Hlo.
  pose proof (leaf_level_leaves old Hlo) as Eo. pose proof (leaf_level_leaves new Hln) as En.
  pose proof (ord_flat_dom_fdom v rs _ Hdom) as HD.
  assert (Ho : incl (keys old) (keys old ++ keys new)) by (intros x Hx; apply in_or_app; now left).
  assert (Hn : incl (keys new) (keys old ++ keys new)) by (intros x Hx; apply in_or_app; now right).
  pose proof (patch_flat pm psrc (prev v) (v_exit v) (prreverse v) (v_is_exit v) rs _ HD ordering (keys old) (keys new)
                Ho Hn (nodupb_NoDup _ Hno) (nodupb_NoDup _ Hnn)) as Hpf.
  rewrite <- Eo, <- En in Hpf. unfold diff_and_patch in Hp. cbn [snd] in Hp. unfold p_make_patch, p_make_diff in Hp.
  rewrite Hpf in Hp. injection Hp as <-.
  apply (flat_prows_ok pm psrc (prev v) (v_exit v) (prreverse v) (v_is_exit v) rs _ HD); auto using nodupb_NoDup.
Qed.

(* A flat %ordered level below one block header: executing the model's command paths on old yields new - the same
   rows in the same sequence inside the block; bodies of any length. *)
Theorem ordered_below_header_model v rs ordering old new : wf_ord_below v rs ordering old new = true ->
  exists pt, snd (diff_and_patch v rs ordering old new) = POk pt /\
             p_exec v rs (cmd_paths (v_family v) pt) old = new.
Proof.
  unfold wf_ord_below. intro H.
  destruct old as [|[h [bo]] [|? ?]]; try discriminate. destruct new as [|[h' [bn]] [|? ?]]; try discriminate.
  apply andb_true_iff in H as [H Hw]. apply andb_true_iff in H as [Eh Hh]. apply String.eqb_eq in Eh. subst h'.
  unfold hdr_ok in Hh. unfold hdr_crs in Hw. destruct (match_row pm h rs) as [[mh crs]|] eqn:Hm; [|discriminate].
  repeat (apply andb_true_iff in Hh as [Hh ?]).
  apply dlogic_eqb_eq in Hh. apply logic_eqb_eq in H1. apply negb_true_iff in H0. apply negb_true_iff in H.
  destruct (ordered_flat_full v crs (hdr_ord v ordering h) bo bn Hw) as (ct & Hcp & Hcok & Hcrun).
  assert (Hfam : block_family (v_family v) = true).
  { unfold wf_ord_flat in Hw. repeat (apply andb_true_iff in Hw as [Hw _]). exact Hw. }
  assert (Hent : enter pm crs bo = bo).
  { apply (enter_ordered_id v). unfold wf_ord_flat in Hw. repeat (apply andb_true_iff in Hw as [Hw ?]).
    eapply ord_flat_dom_incl; [|eassumption]. intros x Hx. apply in_or_app. now left. }
  destruct (header_converges pm psrc (prev v) (v_exit v) (prreverse v) (v_is_exit v) (v_family v) Hfam (v_exits_family v)
              rs h mh crs Hm Hh H1 H0 H bo bn Hent ordering ct Hcp Hcok Hcrun) as (pt & Hp & _ & Hrun).
  exists pt. split; [exact Hp | exact Hrun].
Qed.

(* ------------------------------------------------------------------ ... below a CHAIN of headers, any depth *)
Definition wrap (hs : list string) (f : forest) : forest := fold_right (fun h b => [(h, T b)]) f hs.

Fixpoint wf_ord_chain (v : vendor) (rs : rset) (ordering : list orule) (hs : list string) (bo bn : forest) : bool :=
  match hs with
  | [] => wf_ord_flat v rs ordering bo bn
  | h :: hs' => hdr_ok v rs h && wf_ord_chain v (hdr_crs rs h) (hdr_ord v ordering h) hs' bo bn
  end.

Lemma wf_ord_chain_family v : forall hs rs ordering bo bn, wf_ord_chain v rs ordering hs bo bn = true ->
  block_family (v_family v) = true.
Proof.
  induction hs as [|h hs IH]; intros rs ordering bo bn H; cbn [wf_ord_chain] in H.
  - unfold wf_ord_flat in H. repeat (apply andb_true_iff in H as [H _]). exact H.
  - apply andb_true_iff in H as [_ H]. eapply IH; eauto.
Qed.

Theorem ordered_chain_full v : forall hs rs ordering bo bn, wf_ord_chain v rs ordering hs bo bn = true ->
  exists pt, p_make_patch v ordering (make_pre (p_make_diff rs (wrap hs bo) (wrap hs bn))) = POk pt /\
             prows_ok (v_is_exit v) pt /\
             p_exec v rs (cmd_paths (v_family v) pt) (wrap hs bo) = wrap hs bn.
Proof.
  induction hs as [|h hs IH]; intros rs ordering bo bn H.
  - apply ordered_flat_full. exact H.
  - pose proof (wf_ord_chain_family v _ _ _ _ _ H) as Hfam.
    cbn [wf_ord_chain] in H. apply andb_true_iff in H as [Hh Hw].
    unfold hdr_ok in Hh. unfold hdr_crs in Hw. destruct (match_row pm h rs) as [[mh crs]|] eqn:Hm; [|discriminate].
    repeat (apply andb_true_iff in Hh as [Hh ?]).
    apply dlogic_eqb_eq in Hh. apply logic_eqb_eq in H1. apply negb_true_iff in H0. apply negb_true_iff in H.
    destruct (IH crs (hdr_ord v ordering h) bo bn Hw) as (ct & Hcp & Hcok & Hcrun).
    assert (Hent : enter pm crs (wrap hs bo) = wrap hs bo).
    { destruct hs as [|h2 hs2].
      - cbn [wrap fold_right]. apply (enter_ordered_id v). cbn [wf_ord_chain] in Hw. unfold wf_ord_flat in Hw.
        repeat (apply andb_true_iff in Hw as [Hw ?]).
        eapply ord_flat_dom_incl; [|eassumption]. intros x Hx. apply in_or_app. now left.
      - cbn [wrap fold_right]. apply enter_id. intros e m [<-|[]] Hs. cbn [fst] in Hs.
        cbn [wf_ord_chain] in Hw. apply andb_true_iff in Hw as [Hw _]. unfold hdr_ok in Hw.
        unfold slot_of in Hs. destruct (match_row pm h2 crs) as [[s c]|]; [|discriminate]. cbn in Hs. injection Hs as ->.
        repeat (apply andb_true_iff in Hw as [Hw _]). unfold is_rewrite.
        destruct (a_dlogic (mi_attrs m)); try discriminate. reflexivity. }
    cbn [wrap fold_right]. fold (wrap hs bo). fold (wrap hs bn).
    exact (header_converges pm psrc (prev v) (v_exit v) (prreverse v) (v_is_exit v) (v_family v) Hfam (v_exits_family v)
             rs h mh crs Hm Hh H1 H0 H (wrap hs bo) (wrap hs bn) Hent ordering ct Hcp Hcok Hcrun).
Qed.

Theorem ordered_chain_model v hs rs ordering bo bn : wf_ord_chain v rs ordering hs bo bn = true ->
  exists pt, snd (diff_and_patch v rs ordering (wrap hs bo) (wrap hs bn)) = POk pt /\
             p_exec v rs (cmd_paths (v_family v) pt) (wrap hs bo) = wrap hs bn.
Proof.
  intro H. destruct (ordered_chain_full v hs rs ordering bo bn H) as (pt & Hp & _ & Hr). exists pt. split; assumption.
Qed.

(* ------------------------------------------------------------------ a chain of headers above ANY level *)
Fixpoint chain_rs (rs : rset) (hs : list string) : rset :=
  match hs with [] => rs | h :: hs' => chain_rs (hdr_crs rs h) hs' end.
Fixpoint chain_ord (v : vendor) (ordering : list orule) (hs : list string) : list orule :=
  match hs with [] => ordering | h :: hs' => chain_ord v (hdr_ord v ordering h) hs' end.
Fixpoint wf_hdrs (v : vendor) (rs : rset) (hs : list string) : bool :=
  match hs with [] => true | h :: hs' => hdr_ok v rs h && wf_hdrs v (hdr_crs rs h) hs' end.

(* whatever the patch of the innermost bodies does, the patch of the wrapped configurations does it inside the chain *)
Theorem chain_runs v : block_family (v_family v) = true ->
  forall hs rs ordering bo bn ct, wf_hdrs v rs hs = true ->
  enter pm (chain_rs rs hs) bo = bo ->
  p_make_patch v (chain_ord v ordering hs) (make_pre (p_make_diff (chain_rs rs hs) bo bn)) = POk ct ->
  prows_ok (v_is_exit v) ct ->
  exists pt, p_make_patch v ordering (make_pre (p_make_diff rs (wrap hs bo) (wrap hs bn))) = POk pt /\
             prows_ok (v_is_exit v) pt /\
             p_exec v rs (cmd_paths (v_family v) pt) (wrap hs bo) =
             wrap hs (run_pt pm (prreverse v) (v_is_exit v) ct (chain_rs rs hs) bo).
Proof.
  intro Hfam. induction hs as [|h hs IH]; intros rs ordering bo bn ct Hw Hent Hp Hok.
  - cbn [wrap fold_right chain_rs chain_ord] in *. exists ct. split; [exact Hp|]. split; [exact Hok|].
    unfold p_exec. apply exec_cmd_paths; [exact Hfam | apply v_exits_family | exact Hok].
  - cbn [wf_hdrs chain_rs chain_ord] in *. apply andb_true_iff in Hw as [Hh Hw].
    unfold hdr_ok in Hh. unfold hdr_crs in *. destruct (match_row pm h rs) as [[mh crs]|] eqn:Hm; [|discriminate].
    repeat (apply andb_true_iff in Hh as [Hh ?]).
    apply dlogic_eqb_eq in Hh. apply logic_eqb_eq in H1. apply negb_true_iff in H0. apply negb_true_iff in H.
    destruct (IH crs (hdr_ord v ordering h) bo bn ct Hw Hent Hp Hok) as (ct' & Hcp & Hcok & Hcrun).
    assert (Hent' : enter pm crs (wrap hs bo) = wrap hs bo).
    { destruct hs as [|h2 hs2]; [exact Hent|].
      cbn [wrap fold_right]. apply enter_id. intros e m [<-|[]] Hs. cbn [fst] in Hs.
      cbn [wf_hdrs] in Hw. apply andb_true_iff in Hw as [Hw _]. unfold hdr_ok in Hw.
      unfold slot_of in Hs. destruct (match_row pm h2 crs) as [[s c]|]; [|discriminate]. cbn in Hs. injection Hs as ->.
      repeat (apply andb_true_iff in Hw as [Hw _]). unfold is_rewrite.
      destruct (a_dlogic (mi_attrs m)); try discriminate. reflexivity. }
    cbn [wrap fold_right]. fold (wrap hs bo). fold (wrap hs bn).
    destruct (header_runs pm psrc (prev v) (v_exit v) (prreverse v) (v_is_exit v) (v_family v) Hfam (v_exits_family v)
                rs h mh crs Hm Hh H1 H0 H (wrap hs bo) (wrap hs bn) Hent' ordering ct' Hcp Hcok) as (pt & Hpp & Hpok & Hrun).
    exists pt. split; [exact Hpp|]. split; [exact Hpok|]. unfold p_exec. rewrite Hrun.
    unfold p_exec in Hcrun. rewrite exec_cmd_paths in Hcrun by (auto using v_exits_family). rewrite Hcrun. reflexivity.
Qed.
