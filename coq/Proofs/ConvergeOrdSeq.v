(* C01 for %ordered rules, layer 1: the list machine.
   On a level whose rows are all leaves of one %ordered rule and whose row text is determined by
   the key, the device of Model/Device.v is a machine on row LISTS: a removal command deletes its
   row, a direct command appends its row at the tail unless the row is there.  This file proves,
   for command sequences of arbitrary length, that a sequence which
     - issues the direct commands of the rows of new after the common prefix, in new's order,
     - issues a removal exactly for the rows of old after the common prefix,
     - never issues the removal of a row after its direct command,
   turns old into new AS A SEQUENCE.  No annet model is involved here. *)
From Coq Require Import List String Bool Arith Lia.
Import ListNotations.
Open Scope list_scope.


(* ---------- list facts ---------- *)
Lemma NoDup_app_disj {A} (a b : list A) x : NoDup (a ++ b) -> In x a -> In x b -> False.
Proof.
  induction a as [|y a IH]; intros H Ha Hb; [destruct Ha|].
  cbn in H. inversion H as [|y' l Hy Hl]; subst. destruct Ha as [E|Ha].
  - subst. apply Hy. apply in_or_app. now right.
  - apply IH; assumption.
Qed.
Lemma NoDup_app_r {A} (a b : list A) : NoDup (a ++ b) -> NoDup b.
Proof. induction a as [|y a IH]; intro H; [exact H|]. inversion H; subst. apply IH. assumption. Qed.
Lemma NoDup_app_l {A} (a b : list A) : NoDup (a ++ b) -> NoDup a.
Proof.
  induction a as [|y a IH]; intro H; [constructor|]. inversion H as [|y' l Hy Hl]; subst. constructor.
  - intro Hin. apply Hy. apply in_or_app. now left.
  - apply IH. assumption.
Qed.
Lemma filter_filter_and {A} (p q : A -> bool) l : filter p (filter q l) = filter (fun x => q x && p x) l.
Proof. induction l as [|x l IH]; [reflexivity|]. cbn. destruct (q x); cbn; [destruct (p x)|]; rewrite IH; reflexivity. Qed.
Lemma filter_true_id {A} (l : list A) : filter (fun _ => true) l = l.
Proof. induction l as [|x l IH]; [reflexivity|]. cbn. rewrite IH. reflexivity. Qed.
Lemma filter_all_false {A} (p : A -> bool) l : (forall x, In x l -> p x = false) -> filter p l = [].
Proof.
  induction l as [|x l IH]; intro H; [reflexivity|]. cbn. rewrite (H x) by now left. apply IH.
  intros y Hy. apply H. now right.
Qed.

Definition cmd := (bool * string)%type.     (* (true, r): the direct command r; (false, r): the removal of row r *)

Definition memb (r : string) (l : list string) : bool := existsb (String.eqb r) l.
Definition drop (r : string) (l : list string) : list string := filter (fun x => negb (String.eqb x r)) l.

Definition lstep (l : list string) (c : cmd) : list string :=
  if fst c then (if memb (snd c) l then l else l ++ [snd c]) else drop (snd c) l.

Definition dirs (cs : list cmd) : list string := map snd (filter (fun c : cmd => fst c) cs).
Definition undone (cs : list cmd) (r : string) : bool := existsb (fun c : cmd => negb (fst c) && String.eqb (snd c) r) cs.

Lemma memb_In r l : memb r l = true <-> In r l.
Proof.
  unfold memb. rewrite existsb_exists. split.
  - intros (x & Hx & E). apply String.eqb_eq in E. subst. exact Hx.
  - intro H. exists r. split; [exact H | apply String.eqb_refl].
Qed.
Lemma memb_false r l : memb r l = false <-> ~ In r l.
Proof. rewrite <- memb_In. destruct (memb r l); split; intro H; congruence. Qed.

Lemma drop_notin r l : ~ In r l -> drop r l = l.
Proof.
  induction l as [|x l IH]; intro H; [reflexivity|]. cbn [drop filter].
  destruct (String.eqb_spec x r) as [E|E].
  - subst. exfalso. apply H. now left.
  - cbn [negb]. f_equal. apply IH. intro Hin. apply H. now right.
Qed.
Lemma drop_app r a b : drop r (a ++ b) = drop r a ++ drop r b.
Proof. unfold drop. apply filter_app. Qed.

Lemma undone_In cs r : undone cs r = true <-> In (false, r) cs.
Proof.
  unfold undone. rewrite existsb_exists. split.
  - intros ([b x] & Hx & E). cbn [fst snd] in E. apply andb_true_iff in E as [E1 E2].
    destruct b; [discriminate|]. apply String.eqb_eq in E2. subst. exact Hx.
  - intro H. exists (false, r). split; [exact H|]. cbn. apply String.eqb_refl.
Qed.
Lemma undone_app a b r : undone (a ++ b) r = undone a r || undone b r.
Proof. unfold undone. apply existsb_app. Qed.
Lemma dirs_app a b : dirs (a ++ b) = dirs a ++ dirs b.
Proof. unfold dirs. rewrite filter_app, map_app. reflexivity. Qed.
Lemma dirs_In cs r : In r (dirs cs) <-> In (true, r) cs.
Proof.
  unfold dirs. rewrite in_map_iff. split.
  - intros ([b x] & E & H). apply filter_In in H as [H Hb]. cbn in *. subst. exact H.
  - intro H. exists (true, r). split; [reflexivity|]. apply filter_In. split; [exact H | reflexivity].
Qed.

Section Machine.
  Variables P M D : list string.
  Variable cs : list cmd.
  Hypothesis Hold : NoDup (P ++ M).
  Hypothesis Hnew : NoDup (P ++ D).
  Hypothesis Hdirs : dirs cs = D.
  Hypothesis Hundo_in : forall r, In (false, r) cs -> In r M.
  Hypothesis Hundo_all : forall r, In r M -> In (false, r) cs.
  Hypothesis Hfirst : forall l1 r l2, cs = l1 ++ (true, r) :: l2 -> ~ In (false, r) l2.

  (* the state after the commands [done] *)
  Definition st (done : list cmd) : list string :=
    P ++ filter (fun r => negb (undone done r)) M ++ dirs done.

  Lemma st_step done c todo : cs = done ++ c :: todo -> lstep (st done) c = st (done ++ [c]).
  Proof.
    intro E. destruct c as [[|] r]; unfold lstep; cbn [fst snd].
    - (* direct *)
      assert (HrD : In r D).
      { rewrite <- Hdirs. apply dirs_In. rewrite E. apply in_or_app. right. now left. }
      assert (Hnot : ~ In r (st done)).
      { unfold st. intro Hin. apply in_app_or in Hin as [Hin|Hin].
        - (* in P: new has no duplicates *)
          apply NoDup_app_disj with (x := r) in Hnew; auto.
        - apply in_app_or in Hin as [Hin|Hin].
          + apply filter_In in Hin as [HM Hu]. apply negb_true_iff in Hu.
            apply Hundo_all in HM. rewrite E in HM. apply in_app_or in HM as [HM|HM].
            * apply undone_In in HM. congruence.
            * destruct HM as [HM|HM]; [discriminate|]. apply (Hfirst done r todo E). exact HM.
          + (* a second direct command of r: D has no duplicates *)
            apply dirs_In in Hin. apply in_split in Hin as (a & b & Ea).
            assert (Hd : dirs cs = dirs a ++ r :: dirs b ++ r :: dirs todo).
            { rewrite E, Ea. rewrite !dirs_app. cbn [dirs filter map fst snd]. rewrite <- !app_assoc.
              reflexivity. }
            rewrite Hdirs in Hd. apply NoDup_app_r in Hnew. rewrite Hd in Hnew.
            apply NoDup_remove_2 in Hnew. apply Hnew. apply in_or_app. right. apply in_or_app. right. now left. }
      apply memb_false in Hnot. rewrite Hnot. unfold st. rewrite dirs_app. cbn [dirs filter map fst snd].
      rewrite <- !app_assoc. f_equal. f_equal.
      + apply filter_ext. intro x. rewrite undone_app. cbn. rewrite orb_false_r. reflexivity.
    - (* removal *)
      assert (HrM : In r M). { apply Hundo_in. rewrite E. apply in_or_app. right. now left. }
      unfold st. rewrite !drop_app. rewrite dirs_app. cbn [dirs filter map fst snd]. rewrite app_nil_r.
      f_equal; [|f_equal].
      + apply drop_notin. intro Hin. apply NoDup_app_disj with (x := r) in Hold; auto.
      + unfold drop. rewrite filter_filter_and. apply filter_ext. intro x. rewrite undone_app. cbn.
        rewrite orb_false_r, negb_orb. rewrite (String.eqb_sym x r). reflexivity.
      + apply drop_notin. intro Hin. apply dirs_In in Hin. apply in_split in Hin as (a & b & Ea).
        apply (Hfirst a r (b ++ (false, r) :: todo)).
        * rewrite E, Ea. rewrite <- app_assoc. reflexivity.
        * apply in_or_app. right. now left.
  Qed.

  Lemma run_from : forall todo done, cs = done ++ todo -> fold_left lstep todo (st done) = st cs.
  Proof.
    induction todo as [|c todo IH]; intros done E.
    - rewrite app_nil_r in E. subst. reflexivity.
    - cbn [fold_left]. rewrite (st_step done c todo E). apply IH. rewrite <- app_assoc. exact E.
  Qed.

  Theorem machine_converges : fold_left lstep cs (P ++ M) = P ++ D.
  Proof.
    assert (E0 : st [] = P ++ M).
    { unfold st. cbn. rewrite app_nil_r. f_equal. apply filter_true_id. }
    rewrite <- E0. rewrite (run_from cs [] eq_refl). unfold st. rewrite Hdirs. f_equal.
    rewrite filter_all_false; [reflexivity|].
    intros r Hr. apply negb_false_iff. apply undone_In. apply Hundo_all. exact Hr.
  Qed.
End Machine.
