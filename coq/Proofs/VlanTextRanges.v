(* C11 text level, part 2: range lists.  Printing a range list (huawei "a to b" words, cisco
   "a-b,c" word) and reading it back, both with the device reader of the command syntax
   (hw_parse_ranges / cisco_parse_ranges: Leibniz round trip) and with annet's own expanders
   (lib.huawei_expand_vlandb / lib.cisco_expand_vlandb: the set the ranges denote). *)
From Coq Require Import List String Ascii Bool Arith NArith Lia.
From Coq Require Import MSets.
From Annet Require Import Base.Str Model.Vlan Spec.P_C11 Proofs.VlanProofs Proofs.VlanTextLib.
Import ListNotations.
Open Scope string_scope.
Open Scope list_scope.

Arguments Ascii.eqb : simpl never.
Arguments String.eqb : simpl never.
Arguments is_ws : simpl never.
Arguments is_digit : simpl never.
Arguments isdigit : simpl never.
Arguments str_of_N : simpl never.
Arguments N_of_str : simpl never.

(* ------------------------------------------------------------------------------------ *)
(* huawei: the words of a printed range list *)

Definition hw_range_words (r : range) : list string :=
  if N.eqb (fst r) (snd r) then [str_of_N (fst r)] else [str_of_N (fst r); "to"; str_of_N (snd r)].

Lemma words_num n : words (str_of_N n) = [str_of_N n].
Proof. apply words_word; [apply str_of_N_no_ws | apply str_of_N_nonempty]. Qed.

Lemma words_hw_range_str r : words (hw_range_str r) = hw_range_words r.
Proof.
  unfold hw_range_str, range_str, hw_range_words. destruct (N.eqb (fst r) (snd r)).
  - apply words_num.
  - change (str_of_N (fst r) ++ " to " ++ str_of_N (snd r))%string
      with (str_of_N (fst r) ++ " " ++ ("to" ++ " " ++ str_of_N (snd r)))%string.
    rewrite !words_app_sp, !words_num. reflexivity.
Qed.

Lemma words_hw_ranges rs : words (join_with " " (map hw_range_str rs)) = flat_map hw_range_words rs.
Proof.
  rewrite words_join, map_map, flat_map_concat_map. f_equal. apply map_ext. exact words_hw_range_str.
Qed.

Definition head_not_to (ws : list string) : Prop :=
  match ws with [] => True | x :: _ => String.eqb x "to" = false end.

Lemma hw_range_words_head rs : head_not_to (flat_map hw_range_words rs).
Proof.
  destruct rs as [|r rs]; [exact I|]. cbn [flat_map]. unfold hw_range_words.
  destruct (N.eqb (fst r) (snd r)); cbn; apply str_of_N_not_to.
Qed.

Lemma hw_parse_ranges_cons a r :
  hw_parse_ranges (a :: r) =
  if isdigit a then
    match r with
    | t :: b :: r' =>
      if String.eqb t "to" then
        (if isdigit b then option_map (cons (N_of_str a, N_of_str b)) (hw_parse_ranges r') else None)
      else option_map (cons (N_of_str a, N_of_str a)) (hw_parse_ranges r)
    | _ => option_map (cons (N_of_str a, N_of_str a)) (hw_parse_ranges r)
    end
  else None.
Proof. reflexivity. Qed.

(* reading the printed words back gives the very range list (no condition on the ranges) *)
Lemma hw_parse_ranges_words rs : hw_parse_ranges (flat_map hw_range_words rs) = Some rs.
Proof.
  induction rs as [|[a b] rs IH]; [reflexivity|].
  cbn [flat_map]. pose proof (hw_range_words_head rs) as Hh.
  unfold hw_range_words at 1. cbn [fst snd]. destruct (N.eqb a b) eqn:E.
  - apply N.eqb_eq in E. subst b. cbn [app]. rewrite hw_parse_ranges_cons, isdigit_str_of_N.
    rewrite IH, N_of_str_of_N.
    destruct (flat_map hw_range_words rs) as [|t [|b' r']]; try reflexivity.
    cbn in Hh. rewrite Hh. reflexivity.
  - cbn [app]. rewrite hw_parse_ranges_cons, isdigit_str_of_N.
    change (String.eqb "to" "to") with true. cbn iota.
    rewrite isdigit_str_of_N, IH, !N_of_str_of_N. reflexivity.
Qed.

Theorem hw_print_parse_ranges rs :
  hw_parse_ranges (words (join_with " " (map hw_range_str rs))) = Some rs.
Proof. rewrite words_hw_ranges. apply hw_parse_ranges_words. Qed.

Lemma hw_range_words_vl r : forallb hw_vl_word (hw_range_words r) = true.
Proof.
  unfold hw_range_words, hw_vl_word. destruct (N.eqb (fst r) (snd r)); cbn;
    rewrite !isdigit_str_of_N; reflexivity.
Qed.

Lemma hw_ranges_words_vl rs : forallb hw_vl_word (flat_map hw_range_words rs) = true.
Proof.
  induction rs as [|r rs IH]; [reflexivity|]. cbn [flat_map]. rewrite forallb_app, hw_range_words_vl, IH.
  reflexivity.
Qed.

Lemma hw_ranges_words_nonempty rs : rs <> [] -> flat_map hw_range_words rs <> [].
Proof.
  destruct rs as [|r rs]; [contradiction|]. intros _. cbn [flat_map]. unfold hw_range_words.
  destruct (N.eqb (fst r) (snd r)); discriminate.
Qed.

(* lib.huawei_expand_vlandb on the printed words: the set the ranges denote *)
Definition ranges_ok (rs : list range) : Prop := Forall (fun r => (fst r <= snd r)%N) rs.

Lemma ranges_ok_forallb rs : forallb range_ok rs = true <-> ranges_ok rs.
Proof.
  unfold ranges_ok. rewrite forallb_forall, Forall_forall. unfold range_ok.
  split; intros H r Hr; specialize (H r Hr); now apply N.leb_le.
Qed.

Lemma hw_expand_go_cons prev w r acc :
  hw_expand_go prev (w :: r) acc =
  if String.eqb w "to" then
    match prev, r with
    | Some l, h :: _ =>
      if isdigit l && isdigit h
      then hw_expand_go (Some w) r (add_pyrange (N.succ (N_of_str l)) (N_of_str h) acc)
      else None
    | _, _ => None
    end
  else if isdigit w then hw_expand_go (Some w) r (NS.add (N_of_str w) acc)
  else None.
Proof. reflexivity. Qed.

Lemma hw_expand_go_words rs : forall prev acc, ranges_ok rs ->
  exists s, hw_expand_go prev (flat_map hw_range_words rs) acc = Some s /\
            forall v, NS.In v s <-> NS.In v acc \/ in_ranges v rs.
Proof.
  induction rs as [|[a b] rs IH]; intros prev acc Hok.
  - exists acc. split; [reflexivity|]. intro v. split; [now left|].
    intros [H|(r & [] & _)]. exact H.
  - inversion Hok as [|x l Hab Hok']; subst x l. cbn [fst snd] in Hab.
    cbn [flat_map]. unfold hw_range_words at 1. cbn [fst snd]. destruct (N.eqb a b) eqn:E.
    + apply N.eqb_eq in E. subst b. cbn [app].
      rewrite hw_expand_go_cons, str_of_N_not_to, isdigit_str_of_N, N_of_str_of_N.
      destruct (IH (Some (str_of_N a)) (NS.add a acc) Hok') as (s & Es & Hs).
      exists s. split; [exact Es|]. intro v. rewrite Hs, NS.add_spec. split.
      * intros [[H|H]|(r & Hr & Hv)].
        -- right. exists (a, a). split; [now left|]. unfold in_range. cbn. lia.
        -- now left.
        -- right. exists r. split; [now right|exact Hv].
      * intros [H|(r & [Hr|Hr] & Hv)].
        -- left. now right.
        -- subst r. unfold in_range in Hv. cbn in Hv. left. left. lia.
        -- right. exists r. now split.
    + apply N.eqb_neq in E. cbn [app].
      rewrite hw_expand_go_cons, str_of_N_not_to, isdigit_str_of_N, N_of_str_of_N.
      rewrite hw_expand_go_cons. change (String.eqb "to" "to") with true. cbn iota.
      rewrite !isdigit_str_of_N. cbn [andb]. rewrite !N_of_str_of_N.
      rewrite hw_expand_go_cons, str_of_N_not_to, isdigit_str_of_N, N_of_str_of_N.
      destruct (IH (Some (str_of_N b)) (NS.add b (add_pyrange (N.succ a) b (NS.add a acc))) Hok')
        as (s & Es & Hs).
      exists s. split; [exact Es|]. intro v. rewrite Hs, NS.add_spec, add_pyrange_spec, NS.add_spec. split.
      * intros [[H|[H|[H|H]]]|(r & Hr & Hv)].
        -- right. exists (a, b). split; [now left|]. unfold in_range. cbn. lia.
        -- right. exists (a, b). split; [now left|]. unfold in_range. cbn. lia.
        -- right. exists (a, b). split; [now left|]. unfold in_range. cbn. lia.
        -- now left.
        -- right. exists r. split; [now right|exact Hv].
      * intros [H|(r & [Hr|Hr] & Hv)].
        -- left. right. right. now right.
        -- subst r. unfold in_range in Hv. cbn in Hv. left.
           destruct (N.eq_dec v b) as [Eb|Nb]; [now left|right].
           destruct (N.eq_dec v a) as [Ea|Na]; [right; now left|left; lia].
        -- right. exists r. now split.
Qed.

Theorem hw_expand_print rs : ranges_ok rs ->
  exists s, hw_expand (join_with " " (map hw_range_str rs)) = Some s /\ NS.Equal s (set_of_ranges rs).
Proof.
  intro Hok. unfold hw_expand, hw_expand_words. rewrite words_hw_ranges.
  destruct (hw_expand_go_words rs None NS.empty Hok) as (s & Es & Hs).
  exists s. split; [exact Es|]. intro v. rewrite Hs, set_of_ranges_spec. split.
  - intros [H|H]; [exfalso; revert H; apply NSF.empty_iff|exact H].
  - intro H. now right.
Qed.

(* ------------------------------------------------------------------------------------ *)
(* cisco: one word "a-b,c,..." *)

Lemma num_no_comma n : no_char comma (str_of_N n) = true.
Proof. apply (allc_impl is_digit); [exact digit_not_comma | apply str_of_N_digits]. Qed.

Lemma num_no_dash n : no_char dash (str_of_N n) = true.
Proof. apply (allc_impl is_digit); [exact digit_not_dash | apply str_of_N_digits]. Qed.

Lemma dash_not_comma : Ascii.eqb dash comma = false.
Proof. reflexivity. Qed.

Lemma cisco_range_no_comma r : no_char comma (cisco_range_str r) = true.
Proof.
  unfold cisco_range_str, range_str. destruct (N.eqb (fst r) (snd r)); [apply num_no_comma|].
  unfold no_char. rewrite !allc_app. fold (no_char comma (str_of_N (fst r))).
  fold (no_char comma (str_of_N (snd r))). rewrite !num_no_comma. reflexivity.
Qed.

Lemma cisco_range_no_ws r : no_ws (cisco_range_str r) = true.
Proof.
  unfold cisco_range_str, range_str. destruct (N.eqb (fst r) (snd r)); [apply str_of_N_no_ws|].
  unfold no_ws. rewrite !allc_app. fold (no_ws (str_of_N (fst r))). fold (no_ws (str_of_N (snd r))).
  rewrite !str_of_N_no_ws. reflexivity.
Qed.

Lemma split_cisco_ranges rs : rs <> [] ->
  split_char comma (join_with "," (map cisco_range_str rs)) = map cisco_range_str rs.
Proof.
  intro H. apply split_join_comma.
  - destruct rs; [contradiction|discriminate].
  - rewrite forallb_forall. intros x Hx. apply in_map_iff in Hx as (r & <- & _). apply cisco_range_no_comma.
Qed.

Lemma split_dash_range r :
  split_char dash (cisco_range_str r) =
  if N.eqb (fst r) (snd r) then [str_of_N (fst r)] else [str_of_N (fst r); str_of_N (snd r)].
Proof.
  unfold cisco_range_str, range_str. destruct (N.eqb (fst r) (snd r)).
  - apply split_char_none, num_no_dash.
  - change (str_of_N (fst r) ++ "-" ++ str_of_N (snd r))%string
      with (str_of_N (fst r) ++ String dash (str_of_N (snd r)))%string.
    rewrite split_char_app by apply num_no_dash. f_equal. apply split_char_none, num_no_dash.
Qed.

Lemma cisco_parse_parts_print rs : cisco_parse_parts (map cisco_range_str rs) = Some rs.
Proof.
  induction rs as [|[a b] rs IH]; [reflexivity|]. cbn [map cisco_parse_parts].
  rewrite split_dash_range. cbn [fst snd]. destruct (N.eqb a b) eqn:E.
  - apply N.eqb_eq in E. subst b. rewrite isdigit_str_of_N, IH, N_of_str_of_N. reflexivity.
  - rewrite !isdigit_str_of_N, IH, !N_of_str_of_N. reflexivity.
Qed.

Theorem cisco_print_parse_ranges rs : rs <> [] ->
  cisco_parse_ranges (join_with "," (map cisco_range_str rs)) = Some rs.
Proof.
  intro H. unfold cisco_parse_ranges. rewrite split_cisco_ranges by exact H.
  apply cisco_parse_parts_print.
Qed.

Lemma cisco_expand_parts_print rs : forall acc, ranges_ok rs ->
  exists s, cisco_expand_parts (map cisco_range_str rs) acc = Some s /\
            forall v, NS.In v s <-> NS.In v acc \/ in_ranges v rs.
Proof.
  induction rs as [|[a b] rs IH]; intros acc Hok.
  - exists acc. split; [reflexivity|]. intro v. split; [now left|].
    intros [H|(r & [] & _)]. exact H.
  - inversion Hok as [|x l Hab Hok']; subst x l. cbn [fst snd] in Hab.
    cbn [map cisco_expand_parts]. rewrite (strip_no_ws _ (cisco_range_no_ws (a, b))).
    rewrite split_dash_range. cbn [fst snd]. destruct (N.eqb a b) eqn:E.
    + apply N.eqb_eq in E. subst b. cbn [map].
      rewrite (strip_no_ws _ (str_of_N_no_ws a)), isdigit_str_of_N, N_of_str_of_N.
      destruct (IH (NS.add a acc) Hok') as (s & Es & Hs).
      exists s. split; [exact Es|]. intro v. rewrite Hs, NS.add_spec. split.
      * intros [[H|H]|(r & Hr & Hv)].
        -- right. exists (a, a). split; [now left|]. unfold in_range. cbn. lia.
        -- now left.
        -- right. exists r. split; [now right|exact Hv].
      * intros [H|(r & [Hr|Hr] & Hv)].
        -- left. now right.
        -- subst r. unfold in_range in Hv. cbn in Hv. left. left. lia.
        -- right. exists r. now split.
    + cbn [map].
      rewrite (strip_no_ws _ (str_of_N_no_ws a)), (strip_no_ws _ (str_of_N_no_ws b)).
      rewrite !isdigit_str_of_N, !N_of_str_of_N. cbn [andb].
      destruct (IH (add_pyrange a (N.succ b) acc) Hok') as (s & Es & Hs).
      exists s. split; [exact Es|]. intro v. rewrite Hs, add_pyrange_spec. split.
      * intros [[H|H]|(r & Hr & Hv)].
        -- right. exists (a, b). split; [now left|]. unfold in_range. cbn. lia.
        -- now left.
        -- right. exists r. split; [now right|exact Hv].
      * intros [H|(r & [Hr|Hr] & Hv)].
        -- left. now right.
        -- subst r. unfold in_range in Hv. cbn in Hv. left. left. lia.
        -- right. exists r. now split.
Qed.

Theorem cisco_expand_print rs : rs <> [] -> ranges_ok rs ->
  exists s, cisco_expand (join_with "," (map cisco_range_str rs)) = Some s /\ NS.Equal s (set_of_ranges rs).
Proof.
  intros Hne Hok. unfold cisco_expand. rewrite split_cisco_ranges by exact Hne.
  destruct (cisco_expand_parts_print rs NS.empty Hok) as (s & Es & Hs).
  exists s. split; [exact Es|]. intro v. rewrite Hs, set_of_ranges_spec. split.
  - intros [H|H]; [exfalso; revert H; apply NSF.empty_iff|exact H].
  - intro H. now right.
Qed.

(* the printed cisco range word: no whitespace, only [0-9,-], not empty, starts with a digit *)
Lemma cisco_word_no_ws rs : no_ws (join_with "," (map cisco_range_str rs)) = true.
Proof.
  induction rs as [|r rs IH]; [reflexivity|]. destruct rs as [|r2 rs].
  - cbn [map join_with]. apply cisco_range_no_ws.
  - change (join_with "," (map cisco_range_str (r :: r2 :: rs)))
      with (cisco_range_str r ++ "," ++ join_with "," (map cisco_range_str (r2 :: rs)))%string.
    unfold no_ws. rewrite !allc_app. fold (no_ws (cisco_range_str r)).
    fold (no_ws (join_with "," (map cisco_range_str (r2 :: rs)))). rewrite cisco_range_no_ws, IH. reflexivity.
Qed.

Definition vl_char (c : ascii) : bool := is_digit c || Ascii.eqb c comma || Ascii.eqb c dash.

Lemma vl_chars_allc s : vl_chars s = allc vl_char s.
Proof. induction s as [|c s IH]; cbn; [reflexivity|]. now rewrite IH. Qed.

Lemma num_vl n : allc vl_char (str_of_N n) = true.
Proof.
  apply (allc_impl is_digit); [|apply str_of_N_digits]. intros c H. unfold vl_char. now rewrite H.
Qed.

Lemma cisco_range_vl r : allc vl_char (cisco_range_str r) = true.
Proof.
  unfold cisco_range_str, range_str. destruct (N.eqb (fst r) (snd r)); [apply num_vl|].
  rewrite !allc_app, !num_vl. reflexivity.
Qed.

Lemma cisco_word_vl rs : vl_chars (join_with "," (map cisco_range_str rs)) = true.
Proof.
  rewrite vl_chars_allc. induction rs as [|r rs IH]; [reflexivity|]. destruct rs as [|r2 rs].
  - cbn [map join_with]. apply cisco_range_vl.
  - change (join_with "," (map cisco_range_str (r :: r2 :: rs)))
      with (cisco_range_str r ++ "," ++ join_with "," (map cisco_range_str (r2 :: rs)))%string.
    rewrite !allc_app, cisco_range_vl, IH. reflexivity.
Qed.

Lemma cisco_range_head r : exists c t, cisco_range_str r = String c t /\ is_digit c = true.
Proof.
  unfold cisco_range_str, range_str. destruct (str_of_N_head (fst r)) as (c & t & E & Hc).
  destruct (N.eqb (fst r) (snd r)).
  - exists c, t. now split.
  - rewrite E. exists c. eexists. split; [reflexivity|exact Hc].
Qed.

Lemma cisco_word_head rs : rs <> [] ->
  exists c t, join_with "," (map cisco_range_str rs) = String c t /\ is_digit c = true.
Proof.
  destruct rs as [|r rs]; [contradiction|]. intros _.
  destruct (cisco_range_head r) as (c & t & E & Hc). destruct rs as [|r2 rs].
  - cbn [map join_with]. exists c, t. now split.
  - change (join_with "," (map cisco_range_str (r :: r2 :: rs)))
      with (cisco_range_str r ++ "," ++ join_with "," (map cisco_range_str (r2 :: rs)))%string.
    rewrite E. exists c. eexists. split; [reflexivity|exact Hc].
Qed.

Lemma hw_word_head rs : rs <> [] ->
  exists c t, join_with " " (map hw_range_str rs) = String c t /\ is_digit c = true.
Proof.
  destruct rs as [|r rs]; [contradiction|]. intros _.
  assert (Hr : exists c t, hw_range_str r = String c t /\ is_digit c = true).
  { unfold hw_range_str, range_str. destruct (str_of_N_head (fst r)) as (c & t & E & Hc).
    destruct (N.eqb (fst r) (snd r)).
    - exists c, t. now split.
    - rewrite E. exists c. eexists. split; [reflexivity|exact Hc]. }
  destruct Hr as (c & t & E & Hc). destruct rs as [|r2 rs].
  - cbn [map join_with]. exists c, t. now split.
  - change (join_with " " (map hw_range_str (r :: r2 :: rs)))
      with (hw_range_str r ++ " " ++ join_with " " (map hw_range_str (r2 :: rs)))%string.
    rewrite E. exists c. eexists. split; [reflexivity|exact Hc].
Qed.

(* ------------------------------------------------------------------------------------ *)
(* any chunking: the chunks of a collapsed set, printed and expanded one by one, give the set *)

Lemma chunked_fuel_in {A} (n : nat) : forall fuel (l c : list A),
  In c (chunked_fuel fuel (S n) l) -> c <> [] /\ exists a b, l = (a ++ c ++ b)%list.
Proof.
  induction fuel as [|f IH]; intros l c H; [destruct H|].
  cbn [chunked_fuel] in H. destruct l as [|x l]; [destruct H|].
  destruct H as [H|H].
  - subst c. split; [cbn; discriminate|]. exists [], (skipn (S n) (x :: l)). cbn [app].
    now rewrite firstn_skipn.
  - apply IH in H as (Hc & a & b & E). split; [exact Hc|].
    exists (firstn (S n) (x :: l) ++ a)%list, b. rewrite <- app_assoc, <- E. now rewrite firstn_skipn.
Qed.

Lemma chunks_of_in lg rs c : In c (chunks_of lg rs) -> rs <> [] -> c <> [] /\ exists a b, rs = (a ++ c ++ b)%list.
Proof.
  unfold chunks_of. destruct (chunk_size lg) as [n|] eqn:E.
  - destruct n as [|n]; [destruct lg; discriminate E|]. intros H _. exact (chunked_fuel_in n _ rs c H).
  - intros [H|[]] Hne. subst c. split; [exact Hne|]. exists [], []. cbn. now rewrite app_nil_r.
Qed.

Lemma collapse_nonempty tiny s : NS.is_empty s = false -> collapse tiny s <> [].
Proof.
  intro H. unfold collapse. destruct (NS.elements s) as [|x l] eqn:E.
  - exfalso. assert (He : NS.Empty s).
    { intros v Hv. apply In_elements in Hv. rewrite E in Hv. destruct Hv. }
    apply NS.is_empty_spec in He. rewrite He in H. discriminate H.
  - clear E H. assert (G : forall l lo hi, collapse_go tiny lo hi l <> []); [|apply G].
    clear. induction l as [|v l IH]; intros lo hi; cbn; [discriminate|].
    destruct (N.eqb (N.succ hi) v); [apply IH|]. destruct (negb tiny && N.eqb (hi - lo) 1); discriminate.
Qed.

Lemma ranges_ok_sub a c b : ranges_ok (a ++ c ++ b) -> ranges_ok c.
Proof.
  unfold ranges_ok. rewrite !Forall_app. now intros (_ & H & _).
Qed.

Lemma chunk_of_collapse lg tiny s c :
  In c (chunks_of lg (collapse tiny s)) -> NS.is_empty s = false -> c <> [] /\ ranges_ok c.
Proof.
  intros H Hs. apply chunks_of_in in H as (Hc & a & b & E); [|now apply collapse_nonempty].
  split; [exact Hc|]. apply (ranges_ok_sub a c b). rewrite <- E. apply collapse_ok.
Qed.
