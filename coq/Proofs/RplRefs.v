(* C14 — refs_defined: every name a policy row refers to is defined by a list generator row *)
From Coq Require Import List String Ascii Bool Arith Lia.
From Annet Require Import Base.Str Model.Rpl Spec.P_C14 Spec.P_C14r Proofs.RplProofs Proofs.RplStream.
Import ListNotations.
Open Scope string_scope.
Open Scope list_scope.

Arguments nat_to_str : simpl never.
Arguments pfx_name : simpl never.
Arguments members_of : simpl never.
Arguments mangle : simpl never.
Arguments join_with : simpl never.
Arguments String.append : simpl never.
Arguments many : simpl never.
Arguments group_members : simpl never.
Arguments ar_ext_line : simpl never.
Arguments well_known : simpl never.

(* ------------------------------------------------------------------ stage 1: rows -> uses *)

Ltac inmap H := let n := fresh "n" in let Hn := fresh "Hn" in apply in_map_iff in H as (n & <- & Hn).

Lemma in_single {A} (x y : A) : In x [y] -> x = y.
Proof. intros [H|[]]. auto. Qed.

Lemma in_firstn1_filter (f : string -> bool) (n x : string) : In x (firstn 1 (filter f [n])) -> x = n.
Proof. cbn. destruct (f n); cbn; intros H; [destruct H as [H|[]]; auto | destruct H]. Qed.

Lemma in_firstn1_filter2 (f : string -> bool) (n s x : string) :
  f s = false -> In x (firstn 1 (filter f [n; s])) -> x = n.
Proof.
  intros Hs. unfold filter. rewrite Hs. destruct (f n); cbn; intros H; [destruct H as [H|[]]; auto | destruct H].
Qed.

Lemma in_filter_in (f : string -> bool) l (x : string) : In x (filter f l) -> In x l.
Proof. intros H. apply filter_In in H. tauto. Qed.

Arguments filter : simpl never.
Arguments String.eqb : simpl nomatch.
Arguments firstn : simpl never.

Ltac fin Hx :=
  try contradiction;
  let y := fresh "y" in let Hy := fresh "Hy" in
  apply in_map_iff in Hx as (y & <- & Hy);
  first [ apply in_firstn1_filter in Hy; subst y;
          first [ left; reflexivity | apply in_map_iff; eexists; split; [reflexivity|assumption] ]
        | apply in_firstn1_filter2 in Hy; [|reflexivity]; subst y;
          first [ left; reflexivity | apply in_map_iff; eexists; split; [reflexivity|assumption] ]
        | apply in_filter_in in Hy;
          first [ apply in_single in Hy; subst y; left; reflexivity
                | apply in_map_iff; eexists; split; [reflexivity|exact Hy] ] ].

Ltac row_case :=
  let H := fresh "H" in let Hx := fresh "Hx" in
  intros H;
  first [ inmap H | (repeat (destruct H as [H|H]); try contradiction; subst) ];
  unfold refs1; cbn; intros Hx; try contradiction; fin Hx.

Lemma cond_refs_rd v e o names toks x :
  In toks (fst (emit_cond v e (CRd o names))) -> In x (refs1 v toks) -> In x (cond_uses v e (CRd o names)).
Proof.
  destruct v; cbn; try contradiction.
  destruct names as [|n [|n2 l]]; unfold many; cbn; try contradiction.
  destruct (find_rd e n) as [r|]; cbn; try contradiction.
  row_case.
Qed.

Lemma cond_refs v e c toks x :
  In toks (fst (emit_cond v e c)) -> In x (refs1 v toks) -> In x (cond_uses v e c).
Proof.
  destruct c as [f o names|o names|v6 names ge le|o v1 v2|n|f o w]; [|apply cond_refs_rd| | | |].
  all: destruct v; cbn.
  all: try (destruct f); try (destruct o); try (destruct v6); cbn; try contradiction.
  all: repeat (cond_step; cbn; try contradiction).
  all: try solve [row_case].
  - intros H. inmap H. destruct (find_cl e n) as [[? ? ? [] ?]|]; unfold refs1; cbn; intros Hx; fin Hx.
  - intros H. inmap H. destruct (find_cl e n) as [[? ? ? [] ?]|]; unfold refs1; cbn; intros Hx; fin Hx.
  - intros [H|[]]. subst toks. unfold refs1, alpha. cbn. destruct (String.eqb "length" n); cbn; intros Hx; fin Hx.
Qed.

(* ---- actions *)

Lemma oseq_rows a b (t : row) : In t (fst (a ;; b)) -> In t (fst a) \/ In t (fst b).
Proof.
  unfold oseq. destruct (snd a); cbn; [auto|]. apply in_app_iff.
Qed.

Lemma when_rows c o (t : row) : In t (fst (when c o)) -> In t (fst o).
Proof. destruct c; cbn; [auto|contradiction]. Qed.

Ltac dec H :=
  lazymatch type of H with
  | In _ (fst (_ ;; _)) => apply oseq_rows in H as [H|H]; dec H
  | In _ (fst (when _ _)) => apply when_rows in H; dec H
  | In _ (fst (yield _)) => apply in_single in H; subst
  | In _ (fst (yields (map _ _))) => cbn [fst yields] in H; inmap H
  | In _ (fst (yields (_ :: map _ _))) => cbn [fst yields] in H; destruct H as [H|H]; [subst | inmap H]
  | In _ (fst nothing) => destruct H
  | In _ (fst (raise _)) => destruct H
  | In _ (fst (if ?c then _ else _)) => destruct c; dec H
  | In _ (fst (match ?o with Some _ => _ | None => _ end)) => destruct o; dec H
  | In _ (fst (match ?o with [] => _ | _ :: _ => _ end)) => destruct o; dec H
  | _ => idtac
  end.

Definition norefs (v : vendor) (o : out) : Prop := forall t x, In t (fst o) -> In x (refs1 v t) -> False.

Lemma hw_ext_groups_norefs b g : norefs Huawei (hw_ext_groups b g).
Proof.
  induction g as [|[t ms] g IH]; intros r x H Hx; cbn in H; [destruct H|].
  apply oseq_rows in H as [H|H]; [|eapply IH; eauto].
  destruct (b && ctype_eqb t SOO); [destruct H|].
  destruct (hw_render t ms); [|destruct H].
  apply in_single in H. subst r. unfold refs1 in Hx. cbn in Hx. exact Hx.
Qed.

Lemma cu_ext_groups_norefs g : norefs Cumulus (cu_ext_groups g).
Proof.
  induction g as [|[t ms] g IH]; intros r x H Hx; cbn in H; [destruct H|].
  apply oseq_rows in H as [H|H]; [|eapply IH; eauto].
  destruct (cu_type_str t); [|destruct H].
  apply in_single in H. subst r. unfold refs1 in Hx. cbn in Hx. exact Hx.
Qed.

Lemma ar_ext_line_norefs e names suffix : norefs Arista (ar_ext_line e names suffix).
Proof.
  intros r x H Hx. unfold ar_ext_line in H. destruct (ar_render e names); [|destruct H].
  apply in_single in H. subst r. unfold refs1 in Hx. cbn in Hx. exact Hx.
Qed.

Lemma fin_multi (n : ns) (f : string -> bool) L U x :
  In x (map (fun y => (n, y)) (filter f L)) ->
  (forall y, In y L -> f y = true -> In (n, y) U) -> In x U.
Proof.
  intros H HU. apply in_map_iff in H as (y & <- & Hy). apply filter_In in Hy as [H1 H2]. auto.
Qed.

Lemma in_firstn {A} k (l : list A) x : In x (firstn k l) -> In x l.
Proof.
  revert k. induction l as [|a l IH]; intros [|k]; cbn [firstn]; try contradiction.
  intros [H|H]; [left; exact H | right; eapply IH; eauto].
Qed.

Lemma fin_first (n : ns) (f : string -> bool) L U x :
  In x (map (fun y => (n, y)) (firstn 1 (filter f L))) ->
  (forall y, In y L -> f y = true -> In (n, y) U) -> In x U.
Proof.
  intros H HU. apply in_map_iff in H as (y & <- & Hy). apply in_firstn in Hy.
  apply filter_In in Hy as [H1 H2]. auto.
Qed.

Ltac side :=
  let y := fresh "y" in let Hy := fresh "Hy" in let Hf := fresh "Hf" in
  intros y Hy Hf;
  repeat first [ apply in_app_iff in Hy as [Hy|Hy] | destruct Hy as [Hy|Hy]; [subst y|] | destruct Hy ];
  try (cbn in Hf; discriminate Hf);
  try (left; reflexivity);
  try (apply in_map_iff; eexists; split; [reflexivity|]; rewrite ?in_app_iff; cbn; auto).

Ltac fin2 Hx :=
  first [ eapply fin_first; [exact Hx|side] | eapply fin_multi; [exact Hx|side] ].

Definition act_guard (v : vendor) (e : env) (a : action) : Prop :=
  match v, a with
  | Arista, AComm AFCommunity _ _ removed => forallb word_free (members_of e removed) = true
  | _, _ => True
  end.

Lemma stop_sym (a b : string) : String.eqb a b = String.eqb b a.
Proof. apply String.eqb_sym. Qed.

Lemma word_free_cl m : word_free m = true -> String.eqb "community-list" (well_known m) = false.
Proof.
  unfold word_free, reserved, mem, well_known. cbn [existsb]. intros H.
  destruct (String.eqb m "65535:0"); [reflexivity|].
  rewrite String.eqb_sym. apply negb_true_iff in H. apply orb_false_iff in H as [_ H].
  apply orb_false_iff in H as [H _]. exact H.
Qed.

Lemma act_refs fx v e a toks x :
  act_guard v e a ->
  In toks (fst (emit_action fx v e a)) -> In x (refs1 v toks) -> In x (act_uses v a).
Proof.
  intros G H Hx.
  destruct v; destruct a as [f rep add rem|t w|set pre exp del las|t addr|f t w];
    try destruct f; try destruct t; cbn [emit_action hw_action ar_action cu_action act_uses] in *.
  all: dec H.
  all: try solve [exfalso; first [exact (hw_ext_groups_norefs _ _ _ _ H Hx) | exact (cu_ext_groups_norefs _ _ _ H Hx)
                                  | exact (ar_ext_line_norefs _ _ _ _ _ H Hx)]].
  all: try (unfold refs1 in Hx; cbn in Hx; try contradiction).
  all: repeat match type of Hx with context [if nonempty ?c then _ else _] => destruct (nonempty c); cbn in Hx end; try contradiction.
  all: try solve [fin2 Hx].
  cbn in G. unfold alpha in Hx. destruct (members_of e rem) as [|m ms]; cbn in Hx; [contradiction|].
  cbn in G. apply andb_true_iff in G as [G _]. rewrite (word_free_cl m G) in Hx. cbn in Hx. contradiction.
Qed.

(* ---- whole policy stream *)

Lemma items_rows_in {A} (emit : A -> out) path mk : forall l i r,
  In r (fst (emit_items emit path mk i l)) -> exists x, In x l /\ In (r_toks r) (fst (emit x)).
Proof.
  induction l as [|a l IH]; intros i r; cbn; [intros []|].
  destruct (snd (emit a)) as [er|] eqn:E; cbn.
  - intros H. apply in_map_iff in H as (t & <- & Ht). exists a. cbn. auto.
  - intros H. apply in_app_iff in H as [H|H].
    + apply in_map_iff in H as (t & <- & Ht). exists a. cbn. auto.
    + destruct (IH _ _ H) as (y & Hy & Hr). exists y. auto.
Qed.

Lemma header_norefs v pname st hdr x : stmt_header v pname st = inl hdr -> In x (refs1 v hdr) -> False.
Proof.
  unfold stmt_header. destruct v, (s_number st), (result_word (s_result st)); intros E; inversion E; subst hdr;
    unfold refs1; cbn; auto.
Qed.

Lemma stmt_row_refs fx v e p s pname st r x :
  In r (fst (emit_stmt fx v e p s pname st)) -> In x (refs1 v (r_toks r)) ->
  (exists c, In c (s_match st) /\ In (r_toks r) (fst (emit_cond v e c))) \/
  (exists a, In a (s_then st) /\ In (r_toks r) (fst (emit_action fx v e a))).
Proof.
  unfold emit_stmt. destruct (stmt_header v pname st) as [hdr|er] eqn:Eh; [|intros []].
  intros H Hx.
  apply gseq_rows in H as [H|H].
  { destruct H as [<-|[]]. cbn in Hx. exfalso. eapply header_norefs; eauto. }
  apply gseq_rows in H as [H|H].
  { left. eapply items_rows_in; eauto. }
  apply gseq_rows in H as [H|H].
  { right. eapply items_rows_in; eauto. }
  apply gseq_rows in H as [H|H]; exfalso.
  - cbn [fst] in H. destruct (is_next (s_result st)); [|destruct H]. destruct H as [<-|[]].
    destruct v; unfold refs1 in Hx; cbn in Hx; exact Hx.
  - cbn [fst] in H. destruct v; try destruct H as [<-|[]]; try destruct H.
    unfold refs1 in Hx; cbn in Hx; exact Hx.
Qed.

Lemma stmts_rows_in fx v e p pname : forall l s seen r,
  In r (fst (emit_stmts fx v e p s pname seen l)) ->
  exists st s', In st l /\ In r (fst (emit_stmt fx v e p s' pname st)).
Proof.
  induction l as [|st l IH]; intros s seen r; cbn [emit_stmts]; [intros []|].
  match goal with |- context [if ?c then _ else _] => destruct c end; [intros []|].
  intros H. apply gseq_rows in H as [H|H].
  - exists st, s. cbn. auto.
  - destruct (IH _ _ _ H) as (st' & s' & Hin & Hr). exists st', s'. cbn. auto.
Qed.

Lemma policies_rows_in fx v e : forall ps p r,
  In r (fst (emit_policies fx v e p ps)) ->
  exists pol st p' s', In pol ps /\ In st (p_stmts pol) /\ In r (fst (emit_stmt fx v e p' s' (p_name pol) st)).
Proof.
  induction ps as [|pol ps IH]; intros p r; cbn [emit_policies]; [intros []|].
  intros H. apply gseq_rows in H as [H|H].
  - destruct (stmts_rows_in _ _ _ _ _ _ _ _ _ H) as (st & s' & Hst & Hr).
    exists pol, st, p, s'. cbn. auto.
  - destruct (IH _ _ H) as (pol' & st & p' & s' & H1 & H2 & H3). exists pol', st, p', s'. cbn. auto.
Qed.

Lemma in_all_stmts ps pol st : In pol ps -> In st (p_stmts pol) -> In st (all_stmts ps).
Proof. intros H1 H2. unfold all_stmts. apply in_flat_map. eauto. Qed.

(* members of lists come from the entity set *)
Lemma find_rev_in {A} (f : A -> bool) l x : find f (rev l) = Some x -> In x l /\ f x = true.
Proof. intros H. apply find_some in H as [H1 H2]. apply in_rev in H1. auto. Qed.

Lemma members_of_in e names m : In m (members_of e names) -> exists c, In c (e_cl e) /\ In m (cl_members c).
Proof.
  unfold members_of. intros H. apply in_flat_map in H as (n & _ & H).
  unfold find_cl in H. destruct (find _ _) as [c|] eqn:E; [|destruct H].
  apply find_rev_in in E as [E _]. eauto.
Qed.

Lemma reserved_act_guard v g a : reserved_ok v g = true -> act_guard v (g_env g) a.
Proof.
  intros H. destruct v, a as [f rep add rem|t w|set pre exp del las|t addr|f t w]; cbn; auto.
  destruct f; cbn; auto.
  cbn in H. apply andb_true_iff in H as [_ H]. apply forallb_forall. intros m Hm.
  apply members_of_in in Hm as (c & Hc & Hm). rewrite forallb_forall in H. specialize (H c Hc).
  rewrite forallb_forall in H. auto.
Qed.

Lemma policy_row_uses fx v g toks x :
  reserved_ok v g = true ->
  In toks (policy_rows fx v g) -> In x (refs1 v toks) -> In x (prog_uses v g).
Proof.
  intros G H Hx. unfold policy_rows, rows_of in H. apply in_map_iff in H as (r & <- & Hr).
  apply policies_rows_in in Hr as (pol & st & p' & s' & H1 & H2 & H3).
  unfold prog_uses. apply in_flat_map. exists st. split; [eapply in_all_stmts; eauto|].
  apply in_app_iff.
  destruct (stmt_row_refs _ _ _ _ _ _ _ _ _ H3 Hx) as [(c & Hc & Hrow)|(a & Ha & Hrow)].
  - left. apply in_flat_map. exists c. split; [exact Hc|]. eapply cond_refs; eauto.
  - right. apply in_flat_map. exists a. split; [exact Ha|]. eapply act_refs; eauto.
    apply reserved_act_guard. exact G.
Qed.
