(* C10 end to end: _old_new_per_device over a list of generators, in the words of the property's
   quantifier. *)
From Coq Require Import List String Ascii Bool Arith Lia.
From Annet Require Import Base.Str Base.Tree Model.Pattern Model.Acl Model.Offside Model.GenProg Model.GenAcl.
From Annet Require Import Spec.P_C10 Proofs.GenProgProofs Proofs.GenAclProofs.
Import ListNotations.
Open Scope string_scope.
Open Scope list_scope.

(* a generator in the domain of the theorems: plain rows, an ACL that compiles *)
Definition gen_ok (g : gen) : Prop :=
  wf_prog (g_prog g) = true /\ exists rs, compile_acl (g_acl g) = Some rs.

Section Top.
  Variable rmatch : string -> string -> option (list string).
  Variable rsrc : string -> string.
  Variable rrev : string -> string.
  Variable norm : string -> string.

  Local Notation A := (fun (rs : aset) (fatal excl : bool) (f : forest) =>
                         apply_acl rmatch rsrc rrev norm rs fatal excl [] f).
  Local Notation status := (path_status rmatch rsrc rrev norm).
  Local Notation conflict := (conflict_at rmatch rsrc rrev norm).

  (* some yielded path of the generator is refused by its own ACL *)
  Definition refuses (g : gen) : Prop :=
    exists rs q, compile_acl (g_acl g) = Some rs /\ In q (prog_paths (g_prog g)) /\ status rs q = Refused.

  Lemma gen_ok_result g : gen_ok g ->
    (exists f, run_gen_with A g = GOk f) \/ (exists msg, run_gen_with A g = GAcl msg).
  Proof.
    intros [W (rs & C)]. rewrite (run_gen_wf rmatch rsrc rrev norm g rs W C). unfold acl_step.
    destruct (apply_acl rmatch rsrc rrev norm rs true false [] (tree_of (g_prog g))) as [f|[p|p gg]]; eauto.
  Qed.

  Lemma gen_ok_err_iff g : gen_ok g -> ((exists msg, run_gen_with A g = GAcl msg) <-> refuses g).
  Proof.
    intros [W (rs & C)]. rewrite (error_iff rmatch rsrc rrev norm g rs W C). unfold refuses. split.
    - intros (q & Hq & S). exists rs, q. auto.
    - intros (rs' & q & C' & Hq & S). rewrite C in C'. injection C' as <-. exists q. auto.
  Qed.

  Lemma run_all_inl gs : Forall gen_ok gs ->
    ((exists e, run_all_with A gs = inl e) <-> Exists refuses gs) /\
    (forall e, run_all_with A gs = inl e -> exists msg, e = GAcl msg).
  Proof.
    induction 1 as [|g gs Hg _ IH]; cbn [run_all_with].
    - split; [|discriminate]. split; [intros (e & E); discriminate|]. intros H. inversion H.
    - destruct IH as [IH1 IH2].
      destruct (gen_ok_result g Hg) as [(f & E)|(msg & E)]; rewrite E.
      + assert (NR : ~ refuses g).
        { intros R. apply (gen_ok_err_iff g Hg) in R as (msg & E'). congruence. }
        destruct (run_all_with A gs) as [e|fs] eqn:R.
        * split; [|intros e' E'; injection E' as <-; apply IH2; reflexivity].
          split; [intros _; apply Exists_cons_tl, IH1; eauto|intros _; eauto].
        * split; [|discriminate]. split; [intros (e & E'); discriminate|].
          intros Ex. inversion Ex as [? ? R'|? ? R']; subst; [contradiction|].
          apply IH1 in R' as (e & E'). discriminate.
      + split; [|intros e' E'; injection E' as <-; eauto].
        split; [intros _|intros _; eauto]. apply Exists_cons_hd. apply (gen_ok_err_iff g Hg). eauto.
  Qed.

  (* GeneratorError iff some yielded path is uncovered by that generator's own ACL *)
  Theorem old_new_error_iff gs : Forall gen_ok gs ->
    ((exists e, old_new_with A gs = OGenErr e) <-> Exists refuses gs).
  Proof.
    intros F. destruct (run_all_inl gs F) as [H1 H2]. unfold old_new_with.
    destruct (run_all_with A gs) as [e|fs] eqn:R.
    - split; [intros _; apply H1; eauto|intros _; eauto].
    - split.
      + intros (e & E). exfalso. destruct (compile_acl (combined_acl gs)); [|discriminate].
        unfold exclusive_step in E.
        pose proof (exclusive_char rmatch rsrc rrev norm (union_all fs) a []) as X.
        destruct (apply_acl rmatch rsrc rrev norm a false true [] (union_all fs)) as [r|[p|p gg]]; try discriminate.
        destruct X as (q & g0 & Ee & _). discriminate.
      + intros Ex. apply H1 in Ex as (e & E). discriminate.
  Qed.

  (* when every generator's own ACL passes all it yields, the generators' configs are their trees *)
  Lemma run_all_passed gs :
    Forall (fun g => wf_prog (g_prog g) = true /\
                     exists rs, compile_acl (g_acl g) = Some rs /\
                                forall q, In q (prog_paths (g_prog g)) -> status rs q = Passed) gs ->
    run_all_with A gs = inr (map (fun g => tree_of (g_prog g)) gs).
  Proof.
    induction 1 as [|g gs (W & rs & C & P) _ IH]; [reflexivity|]. cbn [run_all_with map].
    rewrite (all_passed_ok rmatch rsrc rrev norm g rs W C P), IH. reflexivity.
  Qed.

  (* the union of the yielded paths of all generators, first-seen order *)
  Definition all_paths (gs : list gen) : list (list string) := flat_map (fun g => prog_paths (g_prog g)) gs.
  Definition union_of (gs : list gen) : forest := insall (all_paths gs) [].

  (* no refusal, no conflict, and the merged ACL passes every line: new is the union *)
  Theorem old_new_union gs rs :
    Forall (fun g => wf_prog (g_prog g) = true /\
                     exists rs, compile_acl (g_acl g) = Some rs /\
                                forall q, In q (prog_paths (g_prog g)) -> status rs q = Passed) gs ->
    compile_acl (combined_acl gs) = Some rs ->
    let u := union_all (map (fun g => tree_of (g_prog g)) gs) in
    (forall q, In q (paths [] u) -> conflict rs q = None) ->
    (forall q, In q (paths [] u) -> status rs q = Passed) ->
    old_new_with A gs = OOk u /\
    (forall q, q <> [] -> (mem_path q u = true <-> In q (all_paths gs))) /\ wf u.
  Proof.
    intros F C u NC AP. unfold old_new_with. rewrite (run_all_passed gs F), C. fold u.
    split; [apply (no_conflict_union rmatch rsrc rrev norm rs u NC AP)|].
    assert (FW : Forall wf (map (fun g => tree_of (g_prog g)) gs)).
    { apply Forall_forall. intros f Hf. apply in_map_iff in Hf as (g & <- & _). apply tree_of_wf. }
    split; [|apply union_all_wf; exact FW].
    intros q Hq. unfold u. rewrite (union_all_mem _ q FW Hq). rewrite existsb_exists. unfold all_paths. split.
    - intros (f & Hf & M). apply in_map_iff in Hf as (g & <- & Hg).
      apply in_flat_map. exists g. split; [exact Hg|]. apply tree_of_paths; assumption.
    - intros H. apply in_flat_map in H as (g & Hg & Hin). exists (tree_of (g_prog g)).
      split; [apply (in_map (fun g => tree_of (g_prog g))); exact Hg|]. apply tree_of_paths; assumption.
  Qed.

  (* exclusivity: raised iff some line of the union is deletable by two generators *)
  Theorem old_new_exclusive_iff gs rs :
    Forall (fun g => wf_prog (g_prog g) = true /\
                     exists rs, compile_acl (g_acl g) = Some rs /\
                                forall q, In q (prog_paths (g_prog g)) -> status rs q = Passed) gs ->
    compile_acl (combined_acl gs) = Some rs ->
    let u := union_all (map (fun g => tree_of (g_prog g)) gs) in
    ((exists msg g, old_new_with A gs = OExclusive msg g) <->
     (exists q g, In q (paths [] u) /\ conflict rs q = Some g)).
  Proof.
    intros F C u. unfold old_new_with. rewrite (run_all_passed gs F), C. fold u.
    apply (exclusive_iff rmatch rsrc rrev norm rs u).
  Qed.
End Top.

(* ---------- tree_of, compositionally ---------- *)

Lemma ypaths_text_prefix pre bp t : ypaths_text (pre ++ bp) t = map (app pre) (ypaths_text bp t).
Proof.
  unfold ypaths_text. rewrite map_map. apply map_ext. intros r. rewrite app_assoc. reflexivity.
Qed.

Lemma sp_block_prefix pre bp toks (k : list string -> list (list string)) :
  (forall bp', k (pre ++ bp') = map (app pre) (k bp')) ->
  sp_block (pre ++ bp) toks k = map (app pre) (sp_block bp toks k).
Proof.
  intros H. unfold sp_block. destruct (join_toks toks) as [e|b]; [reflexivity|].
  rewrite map_app, ypaths_text_prefix. f_equal. rewrite <- app_assoc. apply H.
Qed.

Lemma sp_multiblock_prefix pre blocks : forall bp (k : list string -> list (list string)),
  (forall bp', k (pre ++ bp') = map (app pre) (k bp')) ->
  sp_multiblock (pre ++ bp) blocks k = map (app pre) (sp_multiblock bp blocks k).
Proof.
  induction blocks as [|b blocks IH]; intros bp k H; cbn [sp_multiblock]; [apply H|].
  apply sp_block_prefix. intros bp'. apply IH. exact H.
Qed.

Lemma flat_map_map_out {A B C} (f : A -> list B) (g : B -> C) (h : A -> list C) l :
  (forall x, In x l -> h x = map g (f x)) -> flat_map h l = map g (flat_map f l).
Proof.
  induction l as [|x l IH]; intros H; [reflexivity|]. cbn [flat_map]. rewrite map_app.
  rewrite (H x) by now left. rewrite IH; [reflexivity|]. intros y Hy. apply H. now right.
Qed.

Theorem ypaths_prefix pre : forall s bp, ypaths (pre ++ bp) s = map (app pre) (ypaths bp s).
Proof.
  apply (stmt_ind2 (fun s => forall bp, ypaths (pre ++ bp) s = map (app pre) (ypaths bp s))
                   (fun ss => forall bp, flat_map (ypaths (pre ++ bp)) ss = map (app pre) (flat_map (ypaths bp) ss))).
  - intros v bp. cbn [ypaths]. unfold ypaths_yield. destruct (ytext v); [reflexivity|apply ypaths_text_prefix].
  - intros toks ind body IH bp. cbn [ypaths]. apply sp_block_prefix. exact IH.
  - intros toks cond body IH bp. cbn [ypaths].
    destruct (block_if_cond toks cond); [apply sp_block_prefix; exact IH|apply IH].
  - intros blocks body IH bp. cbn [ypaths]. apply sp_multiblock_prefix. exact IH.
  - intros blocks cond body IH bp. cbn [ypaths].
    destruct (multiblock_if_cond blocks cond); [apply sp_multiblock_prefix; exact IH|apply IH].
  - reflexivity.
  - intros s ss IHs IHss bp. cbn [flat_map]. rewrite map_app, IHs, IHss. reflexivity.
Qed.

(* a sequence: the later statements' paths are inserted into the tree of the earlier ones *)
Theorem tree_of_app p1 p2 : tree_of (p1 ++ p2) = insall (prog_paths p2) (tree_of p1).
Proof. unfold tree_of, prog_paths. rewrite flat_map_app, insall_app. reflexivity. Qed.

(* a block with a one-line header: the header line over the tree of the body *)
Theorem tree_of_block toks ind body r :
  join_toks toks = inr r -> has_nl r = false ->
  tree_of [Block toks ind body] = [(key_of r, T (tree_of body))].
Proof.
  intros J N. unfold tree_of, prog_paths. cbn [flat_map ypaths]. rewrite app_nil_r.
  unfold sp_block. rewrite J. unfold ypaths_text, split_and_strip. rewrite N. cbn [map last app].
  rewrite insall_cons. cbn [ins app].
  assert (E : flat_map (ypaths [key_of r]) body = map (cons (key_of r)) (flat_map (ypaths []) body)).
  { apply flat_map_map_out. intros s _. apply (ypaths_prefix [key_of r] s []). }
  rewrite E. apply (insall_under (key_of r) _ [] [] []). intros [].
Qed.

(* a one-line yield: one leaf *)
Theorem tree_of_yield v r : ytext v = inr r -> has_nl r = false -> tree_of [Yield v] = [(key_of r, T [])].
Proof.
  intros Y N. unfold tree_of, prog_paths. cbn [flat_map ypaths]. rewrite app_nil_r.
  unfold ypaths_yield. rewrite Y. unfold ypaths_text, split_and_strip. rewrite N. reflexivity.
Qed.
