(* C07 lemma library, part 3: the extended rule language (Model/PatternX.v). *)
From Coq Require Import List String Ascii Bool Arith NArith Lia.
From Annet Require Import Base.Str Model.Pattern Model.PatternX Spec.P_C07 Spec.P_C07X
     Proofs.RegexProofs Proofs.PatternProofs.
Import ListNotations.
Open Scope string_scope.
Open Scope list_scope.

Arguments Ascii.eqb : simpl never.
Arguments String.eqb : simpl never.
Arguments is_graph : simpl never.
Arguments py_ws : simpl never.
Arguments lit_char : simpl never.
Arguments is_ws : simpl never.

(* ------------------------------------------------------------------------------ *)
(* the strict matcher decides the declarative relation                             *)

Lemma xmatch_strict_sound ic p : forall ws key,
  xmatch_words false false p ic ws = Some key -> xmatches_spec ic p ws key.
Proof.
  induction p as [|t p IH]; intros ws key H.
  - cbn in H. injection H as <-. constructor.
  - destruct t as [w| |r| |r|r]; cbn [xmatch_words andb xtok_ok xtok_bind] in H.
    + destruct ws as [|x ws]; [discriminate|].
      destruct (word_eq ic w x) eqn:E; [|discriminate].
      destruct (xmatch_words false false p ic ws) as [k|] eqn:Ek; [|discriminate].
      cbn in H. injection H as <-. change k with ([] ++ k).
      constructor; [constructor; exact E | apply IH; exact Ek].
    + destruct ws as [|x ws]; [discriminate|].
      destruct (xmatch_words false false p ic ws) as [k|] eqn:Ek; [|discriminate].
      cbn in H. injection H as <-. change (x :: k) with ([x] ++ k).
      constructor; [constructor | apply IH; exact Ek].
    + destruct ws as [|x ws]; [discriminate|].
      destruct (sre_imatch ic r x) eqn:M; [|discriminate].
      destruct (xmatch_words false false p ic ws) as [k|] eqn:Ek; [|discriminate].
      cbn in H. injection H as <-. change (x :: k) with ([x] ++ k).
      constructor; [constructor; apply sre_imatch_lang; exact M | apply IH; exact Ek].
    + destruct p; [|discriminate]. destruct ws as [|x ws]; [discriminate|].
      injection H as <-. constructor. discriminate.
    + destruct ws as [|x ws]; [discriminate|].
      destruct (sre_imatch ic r x) eqn:M; [|discriminate].
      destruct (xmatch_words false false p ic ws) as [k|] eqn:Ek; [|discriminate].
      cbn in H. injection H as <-. change k with ([] ++ k).
      constructor; [constructor; apply sre_imatch_lang; exact M | apply IH; exact Ek].
    + destruct ws as [|x ws]; [discriminate|].
      destruct (sre_imatch ic r x) eqn:M; [|discriminate].
      destruct (xmatch_words false false p ic ws) as [k|] eqn:Ek; [|discriminate].
      cbn in H. injection H as <-. change k with ([] ++ k).
      constructor; [constructor; apply sre_imatch_lang; exact M | apply IH; exact Ek].
Qed.

Lemma xmatch_strict_complete ic p ws key :
  xmatches_spec ic p ws key -> xmatch_words false false p ic ws = Some key.
Proof.
  induction 1 as [rest | rest Hne | t p x ws b key Hb Hm IH].
  - reflexivity.
  - cbn. destruct rest; [congruence | reflexivity].
  - inversion Hb; subst; cbn [xmatch_words andb xtok_ok xtok_bind].
    + rewrite H, IH. reflexivity.
    + rewrite IH. reflexivity.
    + apply sre_imatch_lang in H. rewrite H, IH. reflexivity.
    + apply sre_imatch_lang in H. rewrite H, IH. reflexivity.
    + apply sre_imatch_lang in H. rewrite H, IH. reflexivity.
Qed.

Theorem xmatch_strict_iff ic p ws key :
  xmatch_words false false p ic ws = Some key <-> xmatches_spec ic p ws key.
Proof. split; [apply xmatch_strict_sound | apply xmatch_strict_complete]. Qed.

Lemma xmatches_spec_functional ic p ws k1 k2 :
  xmatches_spec ic p ws k1 -> xmatches_spec ic p ws k2 -> k1 = k2.
Proof. intros H1 H2. apply xmatch_strict_complete in H1, H2. congruence. Qed.

(* ------------------------------------------------------------------------------ *)
(* the model is the strict matcher on rows where the two peculiarities do not show  *)

Lemma xlast_cons t p : p <> [] -> xlast (t :: p) = xlast p.
Proof.
  intro H. unfold xlast. cbn [rev].
  destruct (rev p) as [|z q] eqn:E.
  - exfalso. apply H. rewrite <- (rev_involutive p), E. reflexivity.
  - reflexivity.
Qed.

Lemma xmatch_cap_irrelevant nb ic p : forall ws,
  existsb xtok_capgrp p = false ->
  xmatch_words true nb p ic ws = xmatch_words false nb p ic ws.
Proof.
  induction p as [|t p IH]; intros ws H; [reflexivity|].
  cbn [existsb] in H. apply orb_false_iff in H as [Ht H].
  destruct t as [w| |r| |r|r]; cbn [xmatch_words]; try reflexivity;
    destruct ws as [|x ws]; try reflexivity;
    rewrite IH by exact H; try reflexivity;
    cbn [xtok_capgrp] in Ht; cbn [xtok_bind]; rewrite Ht; reflexivity.
Qed.

Lemma xmatch_cons cap nb t p ic ws : is_xtilde t = false ->
  xmatch_words cap nb (t :: p) ic ws =
  match ws with
  | x :: ws' =>
    if xtok_ok ic (nb && match p with [] => true | _ => false end) t x
    then option_map (app (xtok_bind cap t x)) (xmatch_words cap nb p ic ws')
    else None
  | [] => None
  end.
Proof. destruct t; try reflexivity. discriminate. Qed.

Lemma xmatch_nb_irrelevant cap ic p : forall ws,
  xlast p = Some XStar ->
  xmatch_words cap true p ic ws = xmatch_words cap false p ic ws.
Proof.
  induction p as [|t p IH]; intros ws H; [reflexivity|].
  destruct p as [|t2 p].
  - unfold xlast in H. cbn in H. injection H as ->. reflexivity.
  - rewrite xlast_cons in H by discriminate.
    destruct (is_xtilde t) eqn:Et.
    + destruct t; try discriminate. destruct ws; reflexivity.
    + rewrite !xmatch_cons by exact Et. destruct ws as [|x ws]; [reflexivity|].
      rewrite IH by exact H. reflexivity.
Qed.

Theorem xmatch_quirk_free p ic ws :
  quirk_free p = true ->
  xmatch_words (negb (has_star p)) (has_tildere p) p ic ws = xmatch_words false false p ic ws.
Proof.
  unfold quirk_free. intro H. apply andb_true_iff in H as [H1 H2].
  assert (E1 : forall nb, xmatch_words (negb (has_star p)) nb p ic ws = xmatch_words false nb p ic ws).
  { intro nb. destruct (has_star p); [reflexivity|]. cbn [negb orb] in *.
    apply xmatch_cap_irrelevant. apply negb_true_iff. exact H1. }
  rewrite E1. destruct (has_tildere p); [|reflexivity]. cbn [negb orb] in H2.
  apply xmatch_nb_irrelevant. destruct (xlast p) as [[w| |r| |r|r]|]; try discriminate. reflexivity.
Qed.

Theorem xpmatch_iff p ic row key :
  quirk_free p = true ->
  (xpmatch p ic row = Some key <-> p <> [] /\ xmatches_spec ic p (words row) key).
Proof.
  intro Q. destruct p as [|t p].
  - split; [discriminate | intros [H _]; congruence].
  - unfold xpmatch. rewrite xmatch_quirk_free by exact Q. rewrite xmatch_strict_iff.
    split; [intro H; split; [discriminate | exact H] | tauto].
Qed.

Theorem xref_match_iff p ic row key :
  xref_match p ic row = Some key <-> p <> [] /\ xmatches_spec ic p (words row) key.
Proof.
  destruct p as [|t p].
  - split; [discriminate | intros [H _]; congruence].
  - unfold xref_match. rewrite xmatch_strict_iff.
    split; [intro H; split; [discriminate | exact H] | tauto].
Qed.

(* ------------------------------------------------------------------------------ *)
(* key length: one entry per placeholder, plus (rows without `*`) one per word that is
   a plain capturing group                                                          *)

Lemma xmatch_key_length cap nb ic p : forall ws key,
  xmatch_words cap nb p ic ws = Some key ->
  List.length key = xnholes p + (if cap then xncaps p else 0).
Proof.
  unfold xnholes, xncaps.
  induction p as [|t p IH]; intros ws key H.
  - cbn in H. injection H as <-. destruct cap; reflexivity.
  - destruct t as [w| |r| |r|r]; cbn [xmatch_words] in H.
    + destruct ws as [|x ws]; [discriminate|].
      destruct (xtok_ok ic _ (XLit w) x); [|discriminate].
      destruct (xmatch_words cap nb p ic ws) as [k|] eqn:E; [|discriminate].
      cbn in H. injection H as <-. apply IH in E. rewrite E. reflexivity.
    + destruct ws as [|x ws]; [discriminate|].
      destruct (xtok_ok ic _ XStar x); [|discriminate].
      destruct (xmatch_words cap nb p ic ws) as [k|] eqn:E; [|discriminate].
      cbn in H. injection H as <-. apply IH in E. cbn. rewrite E. reflexivity.
    + destruct ws as [|x ws]; [discriminate|].
      destruct (xtok_ok ic _ (XStarRe r) x); [|discriminate].
      destruct (xmatch_words cap nb p ic ws) as [k|] eqn:E; [|discriminate].
      cbn in H. injection H as <-. apply IH in E. cbn. rewrite E. reflexivity.
    + destruct p; [|discriminate]. destruct ws; [discriminate|].
      injection H as <-. destruct cap; reflexivity.
    + destruct ws as [|x ws]; [discriminate|].
      destruct (xtok_ok ic _ (XLitRe r) x); [|discriminate].
      destruct (xmatch_words cap nb p ic ws) as [k|] eqn:E; [|discriminate].
      cbn in H. injection H as <-. apply IH in E. cbn [filter is_xhole xtok_capgrp xtok_bind].
      destruct cap; cbn [andb]; [|exact E].
      destruct (is_capgrp r); cbn [app List.length]; rewrite E; lia.
    + destruct ws as [|x ws]; [discriminate|].
      destruct (xtok_ok ic _ (XTildeRe r) x); [|discriminate].
      destruct (xmatch_words cap nb p ic ws) as [k|] eqn:E; [|discriminate].
      cbn in H. injection H as <-. apply IH in E. cbn [filter is_xhole xtok_capgrp xtok_bind].
      destruct cap; cbn [andb]; [|exact E].
      destruct (is_capgrp r); cbn [app List.length]; rewrite E; lia.
Qed.

Theorem xpmatch_key_length p ic row key :
  xpmatch p ic row = Some key ->
  List.length key = xnholes p + (if has_star p then 0 else xncaps p).
Proof.
  destruct p as [|t p]; [discriminate|]. unfold xpmatch. intro H.
  apply xmatch_key_length in H. rewrite H. destruct (has_star (t :: p)); reflexivity.
Qed.

(* ------------------------------------------------------------------------------ *)
(* matching a prefix of a word (the last token of a row with `~/re/`)               *)

Lemma sre_run_pre_lang ic : forall w r,
  sre_run_pre ic r w = true <-> exists u v, w = u ++ v /\ sre_lang ic r u.
Proof.
  induction w as [|c w IH]; intro r; cbn [sre_run_pre].
  - rewrite orb_false_r. rewrite (nullable_lang ic). split.
    + intro H. exists [], []. auto.
    + intros (u & v & E & H). symmetry in E. apply app_nil_both in E as [-> _]. exact H.
  - split.
    + intro H. apply orb_true_iff in H as [H|H].
      * exists [], (c :: w). split; [reflexivity|]. apply (nullable_lang ic). exact H.
      * apply IH in H as (u & v & -> & H). exists (c :: u), v. split; [reflexivity|].
        apply deriv_lang. exact H.
    + intros (u & v & E & H). destruct u as [|d u].
      * apply (nullable_lang ic) in H. rewrite H. reflexivity.
      * cbn in E. injection E as <- ->. apply orb_true_iff. right.
        apply IH. exists u, v. split; [reflexivity|]. apply deriv_lang. exact H.
Qed.

Theorem sre_iprefix_lang ic r x :
  sre_iprefix ic r x = true <-> exists u v, l_of x = u ++ v /\ sre_lang ic r u.
Proof. apply sre_run_pre_lang. Qed.

Lemma lprefix_ic_spec ic : forall a s,
  lprefix_ic ic a s = true <->
  exists u v, s = u ++ v /\ List.length u = List.length a /\ forallb2 (chr_eq ic) a u = true.
Proof.
  induction a as [|c a IH]; intro s.
  - cbn. split; [intros _; exists [], s; auto|reflexivity].
  - destruct s as [|d s]; cbn [lprefix_ic].
    + split; [discriminate|]. intros (u & v & E & L & _). destruct u; discriminate.
    + split.
      * intro H. apply andb_true_iff in H as [H1 H2]. apply IH in H2 as (u & v & -> & L & F).
        exists (d :: u), v. cbn. rewrite H1, F, L. auto.
      * intros (u & v & E & L & F). destruct u as [|e u]; [discriminate|].
        cbn in E, L, F. injection E as <- ->. apply andb_true_iff in F as [F1 F2].
        rewrite F1. apply IH. exists u, v. auto.
Qed.

(* ------------------------------------------------------------------------------ *)
(* the plain language is the sub-language without regex words                      *)

Lemma xmatch_embed cap ic p : forall ws,
  xmatch_words cap false (embed p) ic ws = pmatch_words p ic ws.
Proof.
  induction p as [|t p IH]; intro ws; [reflexivity|].
  destruct t as [w| |r|]; cbn [embed map embed_tok xmatch_words pmatch_words andb xtok_ok xtok_bind].
  - destruct ws as [|x ws]; [reflexivity|]. fold (embed p). rewrite IH.
    destruct (word_eq ic w x); [|reflexivity]. destruct (pmatch_words p ic ws); reflexivity.
  - destruct ws as [|x ws]; [reflexivity|]. fold (embed p). rewrite IH. reflexivity.
  - destruct ws as [|x ws]; [reflexivity|]. fold (embed p). rewrite IH. reflexivity.
  - destruct p; reflexivity.
Qed.

Lemma has_tildere_embed p : has_tildere (embed p) = false.
Proof. induction p as [|t p IH]; [reflexivity|]. destruct t; cbn; exact IH. Qed.

Theorem xpmatch_embed p ic row : xpmatch (embed p) ic row = pmatch p ic row.
Proof.
  destruct p as [|t p]; [reflexivity|].
  unfold xpmatch, pmatch. change (embed_tok t :: embed p) with (embed (t :: p)).
  cbn [embed map]. fold (embed p). change (embed_tok t :: embed p) with (embed (t :: p)).
  rewrite has_tildere_embed. apply xmatch_embed.
Qed.

Lemma wf_xtok_embed t : wf_xtok (embed_tok t) = wf_tok t.
Proof. destruct t; reflexivity. Qed.

Lemma forallb_wf_embed p : forallb wf_xtok (embed p) = forallb wf_tok p.
Proof. induction p as [|t p IH]; [reflexivity|]. cbn. rewrite wf_xtok_embed. fold (embed p). rewrite IH. reflexivity. Qed.

Lemma xtilde_last_embed p : xtilde_last (embed p) = tilde_last p.
Proof.
  induction p as [|t p IH]; [reflexivity|]. destruct p as [|t2 p]; [reflexivity|].
  cbn [embed map xtilde_last tilde_last] in *. rewrite IH. destruct t; reflexivity.
Qed.

Lemma caps_ok_embed p : forallb xtok_caps_ok (embed p) = true.
Proof. induction p as [|t p IH]; [reflexivity|]. destruct t; cbn; exact IH. Qed.

Lemma wf_xpat_embed p : wf_xpat (embed p) = wf_pat p.
Proof.
  unfold wf_xpat, wf_pat. rewrite forallb_wf_embed, xtilde_last_embed, caps_ok_embed.
  unfold wf_tildere. rewrite has_tildere_embed. cbn [negb orb]. rewrite orb_true_r, !andb_true_r.
  destruct p; reflexivity.
Qed.

Lemma print_xpat_embed p : print_xpat (embed p) = print_pat p.
Proof.
  unfold print_xpat, print_pat, embed. rewrite map_map. f_equal. apply map_ext. intros []; reflexivity.
Qed.

Lemma parse_xtoks_embed ws : forall p, parse_toks ws = Some p -> parse_xtoks ws = Some (embed p).
Proof.
  induction ws as [|w ws IH]; intros p H; cbn in H.
  - injection H as <-. reflexivity.
  - destruct (parse_tok w) as [t|] eqn:Et; [|discriminate].
    destruct (parse_toks ws) as [q|] eqn:Eq; [|discriminate]. injection H as <-.
    cbn [parse_xtoks]. unfold parse_xtok. rewrite Et, (IH q eq_refl). reflexivity.
Qed.

Theorem parse_xpat_embed s p : parse_pat s = Some p -> parse_xpat s = Some (embed p).
Proof.
  unfold parse_pat, parse_xpat. destruct (wf_row s); [|discriminate].
  destruct (parse_toks (words s)) as [q|] eqn:E; [|discriminate].
  rewrite (parse_xtoks_embed _ _ E), wf_xpat_embed, print_xpat_embed.
  destruct (wf_pat q && String.eqb (print_pat q) s); [|discriminate].
  intro H. injection H as <-. reflexivity.
Qed.

Theorem xrule_match_conservative rule ic row p :
  rule_pat rule = Some p -> xrule_match rule ic row = rule_match rule ic row.
Proof.
  intro H. unfold xrule_match, rule_match, xrule_pat. rewrite H.
  unfold rule_pat in H. rewrite (parse_xpat_embed _ _ H). apply xpmatch_embed.
Qed.

Theorem parse_xpat_sound s p : parse_xpat s = Some p -> wf_xpat p = true /\ print_xpat p = s.
Proof.
  unfold parse_xpat. destruct (wf_row s); [|discriminate].
  destruct (parse_xtoks (words s)) as [q|]; [|discriminate].
  destruct (wf_xpat q && String.eqb (print_xpat q) s) eqn:E; [|discriminate].
  intro H. injection H as <-. apply andb_true_iff in E as [E1 E2].
  apply String.eqb_eq in E2. auto.
Qed.

(* ------------------------------------------------------------------------------ *)
(* token texts of the extended language                                            *)

Ltac all_ascii c := destruct c as [[] [] [] [] [] [] [] []]; vm_compute; try reflexivity; try discriminate.

Definition xptok (t : xtok) : list ascii := l_of (print_xtok t).

Lemma text_of_xpat p : l_of (print_xpat p) = ljoin (map xptok p).
Proof. unfold print_xpat. rewrite l_of_join, map_map. reflexivity. Qed.

Lemma xptok_re r : xptok (XStarRe r) = "*"%char :: "/"%char :: print_sre_l r ++ ["/"%char].
Proof. unfold xptok, print_xtok, print_sre. rewrite !l_of_app, l_of_s_of. reflexivity. Qed.

Lemma xptok_tre r : xptok (XTildeRe r) = "~"%char :: "/"%char :: print_sre_l r ++ ["/"%char].
Proof. unfold xptok, print_xtok, print_sre. rewrite !l_of_app, l_of_s_of. reflexivity. Qed.

Lemma xptok_lre r : xptok (XLitRe r) = print_sre_l r.
Proof. unfold xptok, print_xtok, print_sre. apply l_of_s_of. Qed.

Lemma lre_char_facts c : lre_char c = true ->
  neqc "*" c = true /\ neqc "~" c = true /\ neqc "{" c = true /\ neqc "}" c = true.
Proof. all_ascii c; auto. Qed.

Lemma lre_ok_text r : lre_ok r = true ->
  print_sre_l r <> [] /\ forallb is_graph (print_sre_l r) = true /\ forallb lre_char (print_sre_l r) = true.
Proof.
  unfold lre_ok. intro H. apply andb_true_iff in H as [H H3]. apply andb_true_iff in H as [H1 _].
  apply sre_ok_text in H1 as [H1 H2]. auto.
Qed.

Lemma wf_litre r : wf_xtok (XLitRe r) = true -> lre_ok r = true /\ plain_word (print_sre r) = false.
Proof. cbn. intro H. apply andb_true_iff in H as [H1 H2]. apply negb_true_iff in H2. auto. Qed.

Lemma xptok_graph t : wf_xtok t = true -> forallb is_graph (xptok t) = true /\ xptok t <> [].
Proof.
  destruct t as [w| |r| |r|r]; intro H.
  - apply (ptok_graph (Lit w)). exact H.
  - split; [reflexivity | discriminate].
  - apply (ptok_graph (StarRe r)). exact H.
  - split; [reflexivity | discriminate].
  - apply wf_litre in H as [H _]. apply lre_ok_text in H as (H1 & H2 & _). rewrite xptok_lre. auto.
  - cbn [wf_xtok] in H. apply lre_ok_text in H as (_ & H2 & _). rewrite xptok_tre. split; [|discriminate].
    cbn. rewrite forallb_app, H2. reflexivity.
Qed.

(* ------------------------------------------------------------------------------ *)
(* reverse_row on texts of the extended language                                   *)

Lemma xptok_eq_prefix t prefix :
  plain_word prefix = true -> wf_xtok t = true -> xptok t = l_of prefix -> t = XLit prefix.
Proof.
  intros Hp Ht E. pose proof Hp as Hp0. apply plain_word_first in Hp as (c & r & Ec & Hc).
  destruct t as [w| |r'| |r'|r'].
  - unfold xptok in E. cbn in E. apply l_of_inj in E. subst. reflexivity.
  - unfold xptok in E. cbn in E. rewrite Ec in E. injection E as <- _. discriminate.
  - rewrite xptok_re, Ec in E. injection E as <- _. discriminate.
  - unfold xptok in E. cbn in E. rewrite Ec in E. injection E as <- _. discriminate.
  - exfalso. apply wf_litre in Ht as [_ Ht]. rewrite xptok_lre in E.
    unfold print_sre in Ht. rewrite E, s_of_l_of in Ht. congruence.
  - rewrite xptok_tre, Ec in E. injection E as <- _. discriminate.
Qed.

Lemma reverse_row_xpat p prefix :
  p <> [] -> forallb wf_xtok p = true -> plain_word prefix = true ->
  reverse_row_l (ljoin (map xptok p)) (l_of prefix) = ljoin (map xptok (reverse_xpat p prefix)).
Proof.
  intros Hne Hwf Hp. unfold reverse_row_l.
  destruct (plain_word_graph _ Hp) as [Hpg _]. apply graph_nosp in Hpg.
  destruct p as [|t1 p]; [congruence|]. cbn in Hwf. apply andb_true_iff in Hwf as [Ht1 Hwf].
  destruct (xptok_graph _ Ht1) as [Hg1 _]. apply graph_nosp in Hg1.
  destruct p as [|t2 p].
  - cbn [map ljoin]. rewrite lprefix_sp_nosp by exact Hg1.
    replace (reverse_xpat [t1] prefix) with [XLit prefix; t1] by (destruct t1; reflexivity).
    cbn [map ljoin]. rewrite <- app_assoc. reflexivity.
  - rewrite map_cons, (map_cons xptok t2 p), ljoin_cons2.
    destruct (lprefix ((l_of prefix ++ [sp]) ) (xptok t1 ++ sp :: ljoin (xptok t2 :: map xptok p))) eqn:E.
    + assert (Et : xptok t1 = l_of prefix) by (symmetry; eapply lprefix_sp_eq; eauto).
      apply xptok_eq_prefix in Et; [|exact Hp|exact Ht1]. subst t1.
      cbn [reverse_xpat]. rewrite String.eqb_refl.
      change (xptok (XLit prefix)) with (l_of prefix).
      replace (l_of prefix ++ sp :: ljoin (xptok t2 :: map xptok p))
        with ((l_of prefix ++ [sp]) ++ ljoin (xptok t2 :: map xptok p))
        by (rewrite <- app_assoc; reflexivity).
      rewrite skipn_app_exact. reflexivity.
    + assert (R : reverse_xpat (t1 :: t2 :: p) prefix = XLit prefix :: t1 :: t2 :: p).
      { destruct t1 as [w| |r| |r|r]; try reflexivity. cbn.
        destruct (String.eqb w prefix) eqn:Ew; [|reflexivity].
        apply String.eqb_eq in Ew. subst w. exfalso.
        change (xptok (XLit prefix)) with (l_of prefix) in E.
        replace (l_of prefix ++ sp :: ljoin (xptok t2 :: map xptok p))
          with ((l_of prefix ++ [sp]) ++ ljoin (xptok t2 :: map xptok p)) in E
          by (rewrite <- app_assoc; reflexivity).
        rewrite lprefix_app in E. discriminate. }
      rewrite R. rewrite !map_cons, ljoin_cons2. rewrite <- app_assoc. reflexivity.
Qed.

(* ------------------------------------------------------------------------------ *)
(* the trailing `~` becomes a placeholder                                           *)

Definition xhtok (t : xtok) : list ascii := match t with XTilde => hole | _ => xptok t end.

Lemma tilde_to_hole_xtok t : wf_xtok t = true -> tilde_to_hole (xptok t) = xhtok t.
Proof.
  destruct t as [w| |r| |r|r]; intro H; try reflexivity.
  - apply (tilde_to_hole_tok (Lit w)). exact H.
  - apply (tilde_to_hole_tok (StarRe r)). exact H.
  - unfold xhtok. rewrite xptok_lre. apply wf_litre in H as [H _].
    apply lre_ok_text in H as (Hne & _ & H2).
    destruct (exists_last Hne) as (i & c & E). rewrite E in *.
    apply forallb_last in H2. apply lre_char_facts in H2 as (_ & H2 & _).
    apply tilde_to_hole_snoc. unfold neqc in H2. apply negb_true_iff. exact H2.
  - unfold xhtok. rewrite xptok_tre.
    change ("~"%char :: "/"%char :: print_sre_l r ++ ["/"%char])
      with (("~"%char :: "/"%char :: print_sre_l r) ++ ["/"%char]).
    apply tilde_to_hole_snoc. reflexivity.
Qed.

Lemma xhtok_not_tilde t : is_xtilde t = false -> xhtok t = xptok t.
Proof. destruct t; try reflexivity. discriminate. Qed.

Lemma tilde_to_hole_xpat q :
  forallb wf_xtok q = true -> xtilde_last q = true ->
  tilde_to_hole (ljoin (map xptok q)) = ljoin (map xhtok q).
Proof.
  induction q as [|t q IH]; intros Hwf Htl; [reflexivity|].
  cbn [forallb] in Hwf. apply andb_true_iff in Hwf as [Ht Hwf].
  destruct q as [|t2 q].
  - cbn [map ljoin]. apply tilde_to_hole_xtok. exact Ht.
  - cbn [xtilde_last] in Htl. apply andb_true_iff in Htl as [Hnt Htl]. apply negb_true_iff in Hnt.
    rewrite !map_cons, !ljoin_cons2, <- !map_cons.
    rewrite tilde_to_hole_app by discriminate.
    change (sp :: ljoin (map xptok (t2 :: q))) with ([sp] ++ ljoin (map xptok (t2 :: q))).
    rewrite tilde_to_hole_app.
    + rewrite IH by assumption. rewrite xhtok_not_tilde by exact Hnt. reflexivity.
    + apply ljoin_nonempty; [discriminate|].
      intros x Hx. apply in_map_iff in Hx as (t' & <- & Hin).
      eapply forallb_forall in Hwf; [|exact Hin]. apply xptok_graph in Hwf. tauto.
Qed.

(* ------------------------------------------------------------------------------ *)
(* re.sub(r"\*(/\S+/)?", "{}", ...)                                                  *)

Definition xstok (t : xtok) : list ascii :=
  match t with
  | XLit w => l_of w
  | XLitRe r => print_sre_l r
  | XTildeRe r => xptok (XTildeRe r)
  | _ => hole
  end.

Lemma sub_star_xtok t rest : wf_xtok t = true -> brk rest = true ->
  sub_star 0 (xhtok t ++ rest) = xstok t ++ sub_star 0 rest.
Proof.
  intros Ht Hb. destruct t as [w| |r| |r|r].
  - apply (sub_star_tok (Lit w)); assumption.
  - apply (sub_star_tok Star); assumption.
  - apply (sub_star_tok (StarRe r)); assumption.
  - apply (sub_star_tok Tilde); assumption.
  - cbn [xhtok xstok]. rewrite xptok_lre. apply sub_star_plain.
    apply wf_litre in Ht as [Ht _]. apply lre_ok_text in Ht as (_ & _ & Ht).
    eapply forallb_impl; [|exact Ht]. intros c Hc. apply lre_char_facts in Hc. tauto.
  - cbn [xhtok xstok]. apply sub_star_plain. rewrite xptok_tre.
    cbn [wf_xtok] in Ht. apply lre_ok_text in Ht as (_ & _ & Ht).
    cbn [forallb]. rewrite forallb_app. cbn [forallb].
    replace (forallb (neqc "*") (print_sre_l r)) with true; [reflexivity|].
    symmetry. eapply forallb_impl; [|exact Ht]. intros c Hc. apply lre_char_facts in Hc. tauto.
Qed.

Lemma sub_star_xpat q : forallb wf_xtok q = true ->
  sub_star 0 (ljoin (map xhtok q)) = ljoin (map xstok q).
Proof.
  induction q as [|t q IH]; intro Hwf; [reflexivity|].
  cbn [forallb] in Hwf. apply andb_true_iff in Hwf as [Ht Hwf].
  destruct q as [|t2 q].
  - cbn [map ljoin]. rewrite <- (app_nil_r (xhtok t)), sub_star_xtok by auto.
    cbn. apply app_nil_r.
  - rewrite !map_cons, !ljoin_cons2, <- !map_cons.
    rewrite sub_star_xtok by auto. f_equal.
    cbn [sub_star]. change (Ascii.eqb sp "*") with false. cbn iota. f_equal. apply IH. exact Hwf.
Qed.

(* ------------------------------------------------------------------------------ *)
(* re.sub(r"\s*~(/\S+/)?", "", ...) removes every `~/re/` word with the blank before it *)

Lemma opt_re_len_re X rest :
  X <> [] -> forallb is_graph X = true -> brk rest = true ->
  opt_re_len ("/"%char :: X ++ "/"%char :: rest) = List.length ("/"%char :: X ++ ["/"%char]).
Proof.
  intros Hne Hg Hb. unfold opt_re_len. change (Ascii.eqb "/" "/") with true. cbn iota.
  rewrite last_slash_run; [|exact Hg|exact Hb|].
  - cbn [List.length plus]. rewrite app_length. cbn [List.length]. lia.
  - destruct X; [congruence | cbn; lia].
Qed.

Lemma strip_tilde_skip a : forall pend rest,
  strip_tilde pend (List.length a) (a ++ rest) = strip_tilde pend 0 rest.
Proof. induction a as [|c a IH]; intros pend rest; [reflexivity|]. cbn. apply IH. Qed.

Lemma strip_tilde_tre pend X rest :
  X <> [] -> forallb is_graph X = true -> brk rest = true ->
  strip_tilde pend 0 ("~"%char :: "/"%char :: X ++ "/"%char :: rest) = strip_tilde [] 0 rest.
Proof.
  intros Hne Hg Hb.
  pose proof (opt_re_len_re X rest Hne Hg Hb) as L.
  remember ("/"%char :: X ++ "/"%char :: rest) as tl eqn:Et.
  cbn [strip_tilde]. change (py_ws "~") with false. change (Ascii.eqb "~" "~") with true. cbn iota.
  rewrite L. subst tl.
  replace ("/"%char :: X ++ "/"%char :: rest) with (("/"%char :: X ++ ["/"%char]) ++ rest)
    by (cbn [app]; rewrite <- app_assoc; reflexivity).
  apply strip_tilde_skip.
Qed.

Definition wordc (c : ascii) : bool := negb (py_ws c) && neqc "~" c.

Lemma strip_tilde_word0 a : forall rest, forallb wordc a = true ->
  strip_tilde [] 0 (a ++ rest) = a ++ strip_tilde [] 0 rest.
Proof.
  induction a as [|c a IH]; intros rest H; [reflexivity|].
  cbn [forallb] in H. apply andb_true_iff in H as [Hc H].
  unfold wordc, neqc in Hc. apply andb_true_iff in Hc as [H1 H2]. apply negb_true_iff in H1, H2.
  cbn [app strip_tilde]. rewrite H1, H2. cbn [app]. f_equal. apply IH. exact H.
Qed.

Lemma strip_tilde_word pend a rest : a <> [] -> forallb wordc a = true ->
  strip_tilde pend 0 (a ++ rest) = pend ++ a ++ strip_tilde [] 0 rest.
Proof.
  intros Hne H. destruct a as [|c a]; [congruence|].
  cbn [forallb] in H. apply andb_true_iff in H as [Hc H].
  unfold wordc, neqc in Hc. apply andb_true_iff in Hc as [H1 H2]. apply negb_true_iff in H1, H2.
  cbn [app strip_tilde]. rewrite H1, H2. rewrite strip_tilde_word0 by exact H. reflexivity.
Qed.

Lemma graph_wordc c : is_graph c = true -> neqc "~" c = true -> wordc c = true.
Proof. intros H1 H2. unfold wordc. apply graph_facts in H1 as (H1 & _). rewrite H1, H2. reflexivity. Qed.

Lemma xstok_word t : wf_xtok t = true -> is_xtildere t = false ->
  xstok t <> [] /\ forallb wordc (xstok t) = true.
Proof.
  destruct t as [w| |r| |r|r]; intros H N; try discriminate;
    try (split; [discriminate | reflexivity]).
  - cbn [xstok wf_xtok] in *. destruct (plain_word_graph _ H) as [_ Hne]. split; [exact Hne|].
    unfold plain_word in H. apply andb_true_iff in H as [_ H].
    eapply forallb_impl; [|exact H]. intros c Hc. apply lit_char_facts in Hc as (G & _ & T & _).
    apply graph_wordc; assumption.
  - cbn [xstok]. apply wf_litre in H as [H _]. apply lre_ok_text in H as (Hne & Hg & Hl).
    split; [exact Hne|].
    apply forallb_forall. intros c Hin.
    apply graph_wordc; [eapply forallb_forall in Hg; eauto|].
    eapply forallb_forall in Hl; [|exact Hin]. apply lre_char_facts in Hl. tauto.
Qed.

(* the words that remain, each with the blank before it *)
Definition tailjoin (q : xpat) : list ascii :=
  flat_map (fun t => if is_xtildere t then [] else sp :: xstok t) q.

Lemma strip_tilde_tail q : q <> [] -> forallb wf_xtok q = true ->
  strip_tilde [] 0 (sp :: ljoin (map xstok q)) = tailjoin q.
Proof.
  induction q as [|t q IH]; intros Hne Hwf; [congruence|].
  cbn [forallb] in Hwf. apply andb_true_iff in Hwf as [Ht Hwf].
  assert (S0 : forall Y, strip_tilde [] 0 (sp :: Y) = strip_tilde [sp] 0 Y) by reflexivity.
  rewrite S0.
  assert (R : exists rest, ljoin (map xstok (t :: q)) = xstok t ++ rest /\ brk rest = true /\
                           strip_tilde [] 0 rest = tailjoin q).
  { destruct q as [|t2 q].
    - exists []. cbn [map ljoin]. rewrite app_nil_r. auto.
    - exists (sp :: ljoin (map xstok (t2 :: q))). rewrite !map_cons, ljoin_cons2.
      split; [reflexivity|]. split; [reflexivity|]. apply IH; [discriminate | exact Hwf]. }
  destruct R as (rest & -> & Hb & Hr).
  destruct (is_xtildere t) eqn:N.
  - destruct t as [w| |r| |r|r]; try discriminate.
    cbn [xstok]. rewrite xptok_tre. cbn [wf_xtok] in Ht. apply lre_ok_text in Ht as (Hne' & Hg & _).
    cbn [app]. rewrite <- app_assoc. cbn [app].
    rewrite strip_tilde_tre by assumption. rewrite Hr. reflexivity.
  - destruct (xstok_word t Ht N) as [Hne' Hw].
    rewrite strip_tilde_word by assumption. rewrite Hr.
    unfold tailjoin. cbn [flat_map]. rewrite N. reflexivity.
Qed.

Lemma strip_tilde_xpat t q : forallb wf_xtok (t :: q) = true -> is_xtildere t = false ->
  strip_tilde [] 0 (ljoin (map xstok (t :: q))) = xstok t ++ tailjoin q.
Proof.
  intros Hwf N. cbn [forallb] in Hwf. apply andb_true_iff in Hwf as [Ht Hwf].
  destruct (xstok_word t Ht N) as [Hne Hw].
  destruct q as [|t2 q].
  - cbn [map ljoin]. rewrite <- (app_nil_r (xstok t)) at 1.
    rewrite strip_tilde_word by assumption. reflexivity.
  - rewrite !map_cons, ljoin_cons2, <- map_cons.
    rewrite strip_tilde_word by assumption. cbn [app]. f_equal.
    apply strip_tilde_tail; [discriminate | exact Hwf].
Qed.

(* ------------------------------------------------------------------------------ *)
(* str.format on the remaining words                                               *)

Definition tailwords (ws : list string) : list ascii := flat_map (fun w => sp :: l_of w) ws.

Lemma ljoin_words_cons w ws : ljoin_words (w :: ws) = l_of w ++ tailwords ws.
Proof.
  unfold ljoin_words, tailwords. revert w. induction ws as [|y ws IH]; intro w.
  - cbn. symmetry. apply app_nil_r.
  - rewrite !map_cons, ljoin_cons2, <- map_cons, IH. reflexivity.
Qed.

Lemma nobrace_lit w : plain_word w = true -> forallb nobrace (l_of w) = true.
Proof. intro H. apply (stok_nobrace (Lit w)); [exact H | reflexivity]. Qed.

Lemma nobrace_lre r : lre_ok r = true -> forallb nobrace (print_sre_l r) = true.
Proof.
  intro H. apply lre_ok_text in H as (_ & _ & H). eapply forallb_impl; [|exact H].
  intros c Hc. apply lre_char_facts in Hc as (_ & _ & H1 & H2). unfold nobrace. rewrite H1, H2. reflexivity.
Qed.

Lemma format_tail q : forall key, forallb wf_xtok q = true ->
  format_l (tailjoin q) key = option_map tailwords (xsubst_key q key).
Proof.
  induction q as [|t q IH]; intros key Hwf; [reflexivity|].
  cbn [forallb] in Hwf. apply andb_true_iff in Hwf as [Ht Hwf].
  assert (Hsp : forall a rest k, format_l (sp :: a ++ rest) k = option_map (cons sp) (format_l (a ++ rest) k))
    by reflexivity.
  unfold tailjoin. cbn [flat_map]. fold (tailjoin q).
  destruct t as [w| |r| |r|r]; cbn [is_xtildere xstok xsubst_key].
  - cbn [app]. rewrite Hsp, format_plain by (apply nobrace_lit; exact Ht). rewrite IH by exact Hwf.
    destruct (xsubst_key q key); reflexivity.
  - cbn [app]. rewrite Hsp, format_hole. destruct key as [|k ks]; [reflexivity|]. rewrite IH by exact Hwf.
    destruct (xsubst_key q ks); reflexivity.
  - cbn [app]. rewrite Hsp, format_hole. destruct key as [|k ks]; [reflexivity|]. rewrite IH by exact Hwf.
    destruct (xsubst_key q ks); reflexivity.
  - cbn [app]. rewrite Hsp, format_hole. destruct key as [|k ks]; [reflexivity|]. rewrite IH by exact Hwf.
    destruct (xsubst_key q ks); reflexivity.
  - apply wf_litre in Ht as [Ht _].
    cbn [app]. rewrite Hsp, format_plain by (apply nobrace_lre; exact Ht). rewrite IH by exact Hwf.
    destruct (xsubst_key q key); [|reflexivity]. cbn. unfold print_sre. rewrite l_of_s_of. reflexivity.
  - cbn [app]. apply IH. exact Hwf.
Qed.

Lemma format_xpat t q key : forallb wf_xtok (t :: q) = true -> is_xtildere t = false ->
  format_l (xstok t ++ tailjoin q) key = option_map ljoin_words (xsubst_key (t :: q) key).
Proof.
  intros Hwf N. cbn [forallb] in Hwf. apply andb_true_iff in Hwf as [Ht Hwf].
  destruct t as [w| |r| |r|r]; try discriminate; cbn [xstok xsubst_key].
  - rewrite format_plain by (apply nobrace_lit; exact Ht). rewrite format_tail by exact Hwf.
    destruct (xsubst_key q key); [|reflexivity]. cbn [option_map]. rewrite ljoin_words_cons. reflexivity.
  - rewrite format_hole. destruct key as [|k ks]; [reflexivity|]. rewrite format_tail by exact Hwf.
    destruct (xsubst_key q ks); [|reflexivity]. cbn [option_map]. rewrite ljoin_words_cons. reflexivity.
  - rewrite format_hole. destruct key as [|k ks]; [reflexivity|]. rewrite format_tail by exact Hwf.
    destruct (xsubst_key q ks); [|reflexivity]. cbn [option_map]. rewrite ljoin_words_cons. reflexivity.
  - rewrite format_hole. destruct key as [|k ks]; [reflexivity|]. rewrite format_tail by exact Hwf.
    destruct (xsubst_key q ks); [|reflexivity]. cbn [option_map]. rewrite ljoin_words_cons. reflexivity.
  - apply wf_litre in Ht as [Ht _].
    rewrite format_plain by (apply nobrace_lre; exact Ht). rewrite format_tail by exact Hwf.
    destruct (xsubst_key q key); [|reflexivity]. cbn [option_map]. rewrite ljoin_words_cons.
    unfold print_sre. rewrite l_of_s_of. reflexivity.
Qed.

(* ------------------------------------------------------------------------------ *)
(* the removal command                                                             *)

Lemma wf_xpat_parts p : wf_xpat p = true ->
  p <> [] /\ forallb wf_xtok p = true /\ xtilde_last p = true.
Proof.
  unfold wf_xpat. intro H. apply andb_true_iff in H as [H _]. apply andb_true_iff in H as [H _].
  apply andb_true_iff in H as [H H3]. apply andb_true_iff in H as [H1 H2].
  repeat split; try assumption. destruct p; [discriminate | congruence].
Qed.

Lemma xtilde_last_tail t p : xtilde_last (t :: p) = true -> xtilde_last p = true.
Proof. destruct p as [|t2 p]; [reflexivity|]. cbn. intro H. apply andb_true_iff in H. tauto. Qed.

Lemma reverse_xpat_wf p prefix :
  forallb wf_xtok p = true -> xtilde_last p = true -> plain_word prefix = true ->
  forallb wf_xtok (reverse_xpat p prefix) = true /\ xtilde_last (reverse_xpat p prefix) = true.
Proof.
  intros Hwf Htl Hp.
  assert (G : forallb wf_xtok (XLit prefix :: p) = true /\ xtilde_last (XLit prefix :: p) = true).
  { split; [cbn; rewrite Hp, Hwf; reflexivity|]. destruct p; [reflexivity|].
    cbn [xtilde_last is_xtilde negb andb]. exact Htl. }
  destruct p as [|t1 [|t2 p]]; try exact G.
  { destruct t1; exact G. }
  destruct t1 as [w| |r| |r|r]; try exact G. cbn [reverse_xpat].
  destruct (String.eqb w prefix); [|exact G]. split.
  - cbn [forallb] in Hwf. apply andb_true_iff in Hwf. tauto.
  - eapply xtilde_last_tail; eauto.
Qed.

Lemma make_reverse_l_xpat p prefix t q :
  wf_xpat p = true -> plain_word prefix = true ->
  reverse_xpat p prefix = t :: q -> is_xtildere t = false ->
  make_reverse_l (l_of (print_xpat p)) (l_of prefix) = xstok t ++ tailjoin q.
Proof.
  intros Hwf Hp E N. apply wf_xpat_parts in Hwf as (Hne & Hwf & Htl).
  destruct (reverse_xpat_wf p prefix Hwf Htl Hp) as [Hwf' Htl'].
  unfold make_reverse_l. rewrite text_of_xpat, reverse_row_xpat by assumption.
  rewrite tilde_to_hole_xpat, sub_star_xpat by assumption. rewrite E in *.
  apply strip_tilde_xpat; assumption.
Qed.

Lemma lead_ok_cons q : lead_ok q = true -> q <> [] -> exists t q', q = t :: q' /\ is_xtildere t = false.
Proof.
  destruct q as [|t q']; intros H N; [congruence|]. exists t, q'. split; [reflexivity|].
  destruct t; try reflexivity. discriminate.
Qed.

Lemma reverse_xpat_nonempty p prefix : reverse_xpat p prefix <> [].
Proof.
  destruct p as [|t1 [|t2 p]]; try discriminate; try (destruct t1; discriminate).
  destruct t1 as [w| |r| |r|r]; try discriminate. cbn. destruct (String.eqb w prefix); discriminate.
Qed.

Theorem make_reverse_xformat p prefix key :
  wf_xpat p = true -> plain_word prefix = true -> lead_ok (reverse_xpat p prefix) = true ->
  format_template_opt (make_reverse (print_xpat p) prefix) key = xref_reverse p prefix key.
Proof.
  intros Hwf Hp Hl.
  destruct (lead_ok_cons _ Hl (reverse_xpat_nonempty p prefix)) as (t & q & E & N).
  unfold format_template_opt, make_reverse, xref_reverse.
  rewrite l_of_s_of, (make_reverse_l_xpat p prefix t q) by assumption.
  apply wf_xpat_parts in Hwf as (Hne & Hwf & Htl).
  destruct (reverse_xpat_wf p prefix Hwf Htl Hp) as [Hwf' _]. rewrite E in *.
  rewrite format_xpat by assumption.
  destruct (xsubst_key (t :: q) key) as [ws|]; [|reflexivity].
  cbn [option_map]. rewrite s_of_ljoin_words. reflexivity.
Qed.

(* the template itself: the negation word and the rule's words, placeholders as "{}",
   regex words as their source text, `~/re/` words dropped *)
Definition xtmpl_word (t : xtok) : option string :=
  match t with
  | XLit w => Some w
  | XLitRe r => Some (print_sre r)
  | XTildeRe _ => None
  | _ => Some "{}"
  end.

Fixpoint somes {A} (l : list (option A)) : list A :=
  match l with [] => [] | Some x :: r => x :: somes r | None :: r => somes r end.

Lemma tailjoin_words q : tailjoin q = tailwords (somes (map xtmpl_word q)).
Proof.
  induction q as [|t q IH]; [reflexivity|]. unfold tailjoin. cbn [flat_map]. fold (tailjoin q).
  rewrite IH. destruct t as [w| |r| |r|r]; cbn [is_xtildere xstok map xtmpl_word somes tailwords flat_map];
    try reflexivity.
  unfold print_sre. rewrite l_of_s_of. reflexivity.
Qed.

Theorem make_reverse_xtemplate p prefix :
  wf_xpat p = true -> plain_word prefix = true -> lead_ok (reverse_xpat p prefix) = true ->
  make_reverse (print_xpat p) prefix = join_with " " (somes (map xtmpl_word (reverse_xpat p prefix))).
Proof.
  intros Hwf Hp Hl.
  destruct (lead_ok_cons _ Hl (reverse_xpat_nonempty p prefix)) as (t & q & E & N).
  unfold make_reverse. rewrite (make_reverse_l_xpat p prefix t q) by assumption.
  rewrite E. apply l_of_inj. rewrite l_of_s_of, tailjoin_words.
  destruct t as [w| |r| |r|r]; try discriminate; cbn [map xtmpl_word somes xstok];
    rewrite <- s_of_ljoin_words, l_of_s_of, ljoin_words_cons; try reflexivity.
  unfold print_sre. rewrite l_of_s_of. reflexivity.
Qed.

(* ACL / ordering reverse form on the extended language *)
Theorem reverse_row_xprint p prefix :
  wf_xpat p = true -> plain_word prefix = true ->
  reverse_row (print_xpat p) prefix = print_xpat (reverse_xpat p prefix).
Proof.
  intros Hwf Hp. apply wf_xpat_parts in Hwf as (Hne & Hw & Htl).
  unfold reverse_row. rewrite text_of_xpat, reverse_row_xpat by assumption.
  rewrite <- text_of_xpat. apply s_of_l_of.
Qed.

Theorem reverse_xpat_involutive p prefix :
  p <> [] ->
  (forall p', p <> XLit prefix :: XLit prefix :: p' \/ p' = []) ->
  reverse_xpat (reverse_xpat p prefix) prefix = p.
Proof.
  intros Hne G.
  assert (A : forall q, reverse_xpat (XLit prefix :: q) prefix = match q with [] => [XLit prefix; XLit prefix] | _ => q end).
  { intros [|t q]; cbn; [reflexivity|]. rewrite String.eqb_refl. reflexivity. }
  destruct p as [|t1 p].
  - congruence.
  - destruct p as [|t2 p].
    + replace (reverse_xpat [t1] prefix) with [XLit prefix; t1] by (destruct t1; reflexivity).
      rewrite A. reflexivity.
    + destruct t1 as [w| |r| |r|r];
        try (match goal with |- reverse_xpat (reverse_xpat ?q prefix) prefix = _ =>
               replace (reverse_xpat q prefix) with (XLit prefix :: q) by reflexivity end;
             rewrite A; reflexivity).
      cbn [reverse_xpat]. destruct (String.eqb w prefix) eqn:E.
      * apply String.eqb_eq in E. subst w.
        destruct t2 as [w2| |r2| |r2|r2]; try (destruct p; reflexivity).
        destruct p as [|t3 p]; [reflexivity|]. cbn [reverse_xpat].
        destruct (String.eqb w2 prefix) eqn:E2; [|reflexivity].
        apply String.eqb_eq in E2. subst w2.
        destruct (G (t3 :: p)) as [N|N]; [congruence | discriminate].
      * rewrite A. reflexivity.
Qed.

(* ------------------------------------------------------------------------------ *)
(* the model satisfies the predicate                                               *)

Theorem P_C07X_model x :
  wf_C07X x = true -> rule_has_ic (ci_rule x) = false -> qf_C07X x = true ->
  P_C07X x (model_C07X x) = true.
Proof.
  intros Hwf Hic Hq. unfold wf_C07X in Hwf. apply andb_true_iff in Hwf as [Hwf Hp].
  apply andb_true_iff in Hwf as [Hr _].
  unfold P_C07X, model_C07X, qf_C07X in *.
  destruct (xrule_pat (ci_rule x)) as [p|] eqn:E; [|discriminate].
  unfold xrule_pat in E. rewrite rule_strip_ic_noop in E by exact Hic.
  apply parse_xpat_sound in E as [Wp Ep]. cbn [co_ffmt co_rows].
  rewrite <- Ep. rewrite make_reverse_xformat by assumption. rewrite opt_str_eqb_refl. cbn [andb].
  rewrite Ep.
  match goal with |- list_eqb _ ?a ?b = true => replace a with b; [apply list_eqb_refl, row_out_eqb_refl|] end.
  apply map_ext. intro row. unfold xspec_row.
  assert (M : xpmatch p (rule_ic (ci_rule x) (ci_ic x)) row = xref_match p (rule_ic (ci_rule x) (ci_ic x)) row).
  { destruct p; [reflexivity|]. unfold xpmatch, xref_match. apply xmatch_quirk_free. exact Hq. }
  rewrite M.
  destruct (xref_match p (rule_ic (ci_rule x) (ci_ic x)) row) as [key|]; [|reflexivity].
  rewrite <- Ep, make_reverse_xformat by assumption. reflexivity.
Qed.

(* ------------------------------------------------------------------------------ *)
(* the sample words handed to the generator of the correspondence run are words of
   the language                                                                    *)

Lemma in_firstn {A} n : forall (l : list A) x, In x (firstn n l) -> In x l.
Proof.
  induction n as [|n IH]; intros l x H; [destruct H|].
  destruct l as [|y l]; [destruct H|]. cbn in H. destruct H as [->|H]; [left; reflexivity|].
  right. apply IH. exact H.
Qed.

Lemma pick_chars_in f n c : In c (pick_chars f n) -> f c = true.
Proof.
  unfold pick_chars. intro H. apply in_firstn in H. apply nodup_In in H.
  apply filter_In in H. tauto.
Qed.

Theorem sre_enum_sound r : forall w, In w (sre_enum r) -> sre_lang false r w.
Proof.
  induction r as [|c|c| |k|neg items|cap a IH|a IHa b IHb|a IHa b IHb|a IH|a IH|a IH];
    intros w H; cbn [sre_enum] in H.
  - destruct H as [<-|[]]. constructor.
  - destruct H as [<-|[]]. constructor. unfold chr_eq. rewrite Ascii.eqb_refl. reflexivity.
  - destruct H as [<-|[]]. constructor. unfold chr_eq. rewrite Ascii.eqb_refl. reflexivity.
  - destruct H as [<-|[]]. constructor. reflexivity.
  - apply in_map_iff in H as (c & <- & H). constructor. eapply pick_chars_in; eauto.
  - apply in_map_iff in H as (c & <- & H). constructor. eapply pick_chars_in; eauto.
  - constructor. apply IH. exact H.
  - apply in_firstn in H. unfold cross2 in H. apply in_flat_map in H as (x & Hx & H).
    apply in_map_iff in H as (y & <- & Hy). apply in_firstn in Hy. constructor; auto.
  - apply in_app_or in H as [H|H]; [apply L_alt_l | apply L_alt_r]; auto.
  - destruct H as [<-|H]; [constructor|]. apply in_firstn in H.
    rewrite <- (app_nil_r w). apply L_star_app; [auto | constructor].
  - apply in_app_or in H as [H|H].
    + apply in_firstn in H. rewrite <- (app_nil_r w). apply L_plus; [auto | constructor].
    + apply in_map_iff in H as (x & <- & H). apply in_firstn in H.
      apply L_plus; [auto|]. rewrite <- (app_nil_r x). apply L_star_app; [auto | constructor].
  - destruct H as [<-|H]; [constructor|]. apply in_firstn in H. apply L_opt_one. auto.
Qed.

Theorem sre_samples_sound r s : In s (sre_samples r) -> sre_imatch false r s = true.
Proof.
  unfold sre_samples. intro H. apply in_map_iff in H as (w & <- & H).
  apply filter_In in H as [H _]. apply in_firstn in H.
  apply sre_imatch_lang. rewrite l_of_s_of. apply sre_enum_sound. exact H.
Qed.

Theorem matches_spec_embed ic p ws key :
  matches_spec ic p ws key <-> xmatches_spec ic (embed p) ws key.
Proof. rewrite <- pmatch_words_iff, <- xmatch_strict_iff, xmatch_embed. reflexivity. Qed.

Theorem xrule_pat_conservative rule p : rule_pat rule = Some p -> xrule_pat rule = Some (embed p).
Proof. unfold rule_pat, xrule_pat. apply parse_xpat_embed. Qed.

(* ------------------------------------------------------------------------------ *)
(* parser and printer are inverse on the extended language                         *)

Lemma print_xtok_word t : wf_xtok t = true -> word_ok (print_xtok t) = true.
Proof.
  intro H. apply xptok_graph in H as [H1 H2]. unfold word_ok. unfold xptok in *.
  rewrite H1, andb_true_r. apply negb_true_iff. apply is_empty_l_of. exact H2.
Qed.

Lemma wf_row_xprint p : p <> [] -> forallb wf_xtok p = true ->
  words (print_xpat p) = map print_xtok p /\ wf_row (print_xpat p) = true.
Proof.
  intros Hne Hwf.
  assert (W : words (print_xpat p) = map print_xtok p).
  { unfold print_xpat. apply words_join. intros w Hin. apply in_map_iff in Hin as (t & <- & Hin).
    eapply forallb_forall in Hwf; [|exact Hin]. apply print_xtok_word in Hwf.
    unfold word_ok in Hwf. apply andb_true_iff in Hwf as [H1 H2]. split.
    - apply graph_no_ws. exact H2.
    - apply negb_true_iff. exact H1. }
  split; [exact W|]. unfold wf_row. rewrite W.
  destruct (map print_xtok p) as [|x l] eqn:E; [destruct p; [congruence | discriminate]|].
  rewrite <- E. fold (print_xpat p). rewrite String.eqb_refl, andb_true_r.
  apply forallb_forall. intros w Hin. apply in_map_iff in Hin as (t & <- & Hin).
  apply print_xtok_word. eapply forallb_forall in Hwf; eauto.
Qed.

Lemma sre_ok_parse r : sre_ok r = true -> parse_sre_l (print_sre_l r) = Some r.
Proof.
  unfold sre_ok. intro H. apply andb_true_iff in H as [_ H].
  destruct (parse_sre_l (print_sre_l r)) as [r'|]; [|discriminate].
  apply sre_eqb_eq in H. subst. reflexivity.
Qed.

Lemma lre_ok_sre_ok r : lre_ok r = true -> sre_ok r = true.
Proof. unfold lre_ok. intro H. apply andb_true_iff in H as [H _]. apply andb_true_iff in H as [H _]. exact H. Qed.

(* a word without `*` that is neither plain nor "~" is not a word of the plain language *)
Lemma parse_tok_none w c rest :
  l_of w = c :: rest -> Ascii.eqb c "*" = false -> plain_word w = false ->
  String.eqb w "~" = false -> parse_tok w = None.
Proof.
  intros E Hc Hp Ht. unfold parse_tok.
  assert (E1 : String.eqb w "*" = false).
  { apply String.eqb_neq. intro N. subst w. cbn in E. injection E as <- _. discriminate. }
  rewrite E1, Ht, E. destruct rest as [|b body]; rewrite ?Hp; [reflexivity|].
  rewrite Hc. reflexivity.
Qed.

Lemma parse_xtok_print t : wf_xtok t = true -> parse_xtok (print_xtok t) = Some t.
Proof.
  intro H. destruct t as [w| |r| |r|r].
  - unfold parse_xtok. change (print_xtok (XLit w)) with (print_tok (Lit w)).
    rewrite (parse_tok_print (Lit w)) by exact H. reflexivity.
  - reflexivity.
  - unfold parse_xtok. change (print_xtok (XStarRe r)) with (print_tok (StarRe r)).
    rewrite (parse_tok_print (StarRe r)) by exact H. reflexivity.
  - reflexivity.
  - pose proof H as H0. apply wf_litre in H as [Hl Hp]. pose proof (lre_ok_text r Hl) as (Hne & Hg & Hc).
    assert (L : l_of (print_xtok (XLitRe r)) = print_sre_l r) by apply xptok_lre.
    pose proof (sre_ok_parse r (lre_ok_sre_ok r Hl)) as P.
    destruct (print_sre_l r) as [|c rest] eqn:E; [congruence|].
    cbn [forallb] in Hc. apply andb_true_iff in Hc as [Hc1 _]. apply lre_char_facts in Hc1 as (S1 & S2 & _).
    unfold neqc in S1, S2. apply negb_true_iff in S1, S2.
    unfold parse_xtok. rewrite (parse_tok_none _ c rest L S1 Hp).
    + rewrite L, P. destruct rest as [|b body]; [reflexivity|]. rewrite S2. reflexivity.
    + apply String.eqb_neq. intro N. apply (f_equal l_of) in N. rewrite L in N. cbn in N.
      injection N as -> _. discriminate.
  - cbn [wf_xtok] in H. pose proof (lre_ok_text r H) as (Hne & Hg & Hc).
    assert (L : l_of (print_xtok (XTildeRe r)) = "~"%char :: "/"%char :: print_sre_l r ++ ["/"%char]) by apply xptok_tre.
    unfold parse_xtok. rewrite (parse_tok_none _ _ _ L); [| reflexivity | |].
    + rewrite L. change (Ascii.eqb "~" "~" && Ascii.eqb "/" "/") with true. cbn iota.
      rewrite unsnoc_snoc. change (Ascii.eqb "/" "/") with true. cbn iota.
      rewrite (sre_ok_parse r (lre_ok_sre_ok r H)). reflexivity.
    + unfold plain_word. rewrite L. cbn [forallb]. change (lit_char "~") with false.
      cbn [andb]. apply andb_false_r.
    + apply String.eqb_neq. intro N. apply (f_equal l_of) in N. rewrite L in N. cbn in N.
      destruct (print_sre_l r); discriminate.
Qed.

Lemma parse_xtoks_print p : forallb wf_xtok p = true -> parse_xtoks (map print_xtok p) = Some p.
Proof.
  induction p as [|t p IH]; intro H; [reflexivity|].
  cbn [forallb] in H. apply andb_true_iff in H as [Ht H].
  cbn [map parse_xtoks]. rewrite parse_xtok_print, IH by assumption. reflexivity.
Qed.

Theorem parse_xpat_print p : wf_xpat p = true -> parse_xpat (print_xpat p) = Some p.
Proof.
  intro Hwf. pose proof Hwf as Hwf0. apply wf_xpat_parts in Hwf as (Hne & Hw & Htl).
  destruct (wf_row_xprint p Hne Hw) as [W R].
  unfold parse_xpat. rewrite R, W, parse_xtoks_print by exact Hw.
  rewrite Hwf0, String.eqb_refl. reflexivity.
Qed.
