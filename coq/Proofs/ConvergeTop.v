(* C01, layer 7: from the patch tree to the command paths, and the instantiation with the
   shared row-pattern compiler. *)
From Coq Require Import List String Bool Arith ZArith Lia Permutation.
From Annet Require Import Base.Str Base.Tree Model.Pattern Model.Rulebook Model.Diff Model.Order Model.Patch
     Model.Blocks Model.Pipeline Model.Device Spec.P_C03 Spec.P_C01
     Proofs.DiffProofsLib Proofs.ConvergeDevice Proofs.ConvergeRun Proofs.ConvergeBlocks Proofs.ConvergePre
     Proofs.ConvergeDiff Proofs.ConvergeSlot Proofs.ConvergeExpected Proofs.ConvergeSim Proofs.ConvergeNodes
     Proofs.ConvergeMain.
Import ListNotations.
Open Scope string_scope.
Open Scope list_scope.

Section Top.
  Variable rmatch : string -> string -> option (list string).
  Variable rsrc : string -> string.
  Variable rrev : string -> string.
  Variable block_exit : string.
  Variable rreverse : string -> list string -> string.
  Variable is_exit : string -> bool.
  Hypothesis Hbx : is_empty block_exit = true \/ is_exit block_exit = true.

  Lemma make_diff_ldiff rs fo fn : make_diff rmatch rs fo fn = ldiff rmatch rs fo fn Affected.
  Proof.
    unfold make_diff, raw_diff, ldiff, lvl_diff. f_equal.
    change (annot rmatch rs (T fn)) with (AT (annot_f rmatch rs fn)). apply diff_t_unfold.
  Qed.

  (* executing the command paths of the patch computed for (fo, fn) on fo reaches expected *)
  Theorem converge_exec fam rs U fo fn ord pt :
    block_family fam = true -> (forall ex, In ex (family_exits fam) -> is_exit ex = true) ->
    uok rmatch rreverse is_exit rs U -> good rmatch rs U fo -> good rmatch rs U fn ->
    make_patch rmatch rsrc rrev block_exit rreverse (make_pre (make_diff rmatch rs fo fn)) ord = POk pt ->
    (undo_first_b rmatch rreverse pt rs = true \/ no_orev ord = true) ->
    let dev := exec rmatch rreverse is_exit rs (cmd_paths fam pt) fo in
    sim dev (expected rmatch rs fo fn) /\ good rmatch rs U dev.
  Proof.
    intros Hf Hex HU Hgo Hgn Hp Hu dev. rewrite make_diff_ldiff in Hp.
    destruct (converge_run rmatch rsrc rrev block_exit rreverse is_exit Hbx rs U fo fn ord pt HU Hgo Hgn Hp Hu)
      as (Hsim & Hgood & Hrows).
    unfold dev. rewrite (exec_cmd_paths rmatch rreverse is_exit fam rs pt fo Hf Hex Hrows).
    split; [exact Hsim | exact Hgood].
  Qed.
End Top.

(* ---------- instantiated with the shared row-pattern compiler ---------- *)
From Annet Require Import Proofs.ConvergeWf Proofs.ConvergeExpWf.

Lemma v_exits_family v ex : In ex (family_exits (v_family v)) -> v_is_exit v ex = true.
Proof.
  intro H. unfold v_is_exit, v_exits. apply existsb_exists. exists ex. split; [|apply String.eqb_refl].
  apply in_or_app. now right.
Qed.

Lemma v_exit_is_exit v : is_empty (v_exit v) = true \/ v_is_exit v (v_exit v) = true.
Proof.
  destruct (is_empty (v_exit v)) eqn:E; [now left|]. right.
  unfold v_is_exit, v_exits. rewrite E. cbn. rewrite String.eqb_refl. reflexivity.
Qed.

Definition p_uok (v : vendor) := uok pm (prreverse v) (v_is_exit v).
Definition p_good := good pm.

Lemma wf_A_props v rs old new : wf_A v rs old new = true ->
  p_uok v rs (merge old new) /\ p_good rs (merge old new) old /\ p_good rs (merge old new) new.
Proof.
  unfold wf_A, wf_step_with. intro H. repeat (apply andb_true_iff in H as [H ?]).
  apply wf_step_props; assumption.
Qed.

(* The patch the model computes for (old, new), executed path by path on old, reaches
   expected(R, old, new); the state reached is again a configuration of the domain. *)
Theorem converge_model v rs ordering old new :
  wf_C01 v rs ordering old new = true ->
  exists pt, snd (diff_and_patch v rs ordering old new) = POk pt /\
    let dev := p_exec v rs (cmd_paths (v_family v) pt) old in
    sim dev (p_expected rs old new) /\ sim_b dev (p_expected rs old new) = true /\
    p_good rs (merge old new) dev.
Proof.
  unfold wf_C01. intro H. apply andb_true_iff in H as [H Ho]. apply andb_true_iff in H as [Hf Hw].
  unfold order_ok in Ho. destruct (snd (diff_and_patch v rs ordering old new)) as [pt|] eqn:Ep; [|discriminate].
  exists pt. split; [reflexivity|]. cbv zeta. set (dev := p_exec v rs (cmd_paths (v_family v) pt) old).
  destruct (wf_A_props v rs old new Hw) as (HU & Hgo & Hgn).
  assert (Ho' : undo_first_b pm (prreverse v) pt rs = true \/ no_orev ordering = true) by (apply orb_true_iff; exact Ho).
  destruct (converge_exec pm psrc (prev v) (v_exit v) (prreverse v) (v_is_exit v) (v_exit_is_exit v) (v_family v) rs (merge old new)
              old new ordering pt Hf (v_exits_family v) HU Hgo Hgn Ep Ho') as (Hsim & Hgood).
  split; [exact Hsim|]. split; [|exact Hgood].
  apply sim_sim_b; [apply (good_wf pm rs _ _ Hgood) | | exact Hsim].
  apply (expected_wf pm old rs (merge old new) new Hgo Hgn).
Qed.
