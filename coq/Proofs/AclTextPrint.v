(* C06, ACL text front end, part 5: the line printer of harness/aclgen.py (raw_rule; Model/AclText.v
   print_raw) always prints a line inside the guard of the round-trip theorem: the line is its own key
   (line_ok) and the model of _parse_raw_rule reads back exactly the fields that were printed
   (the %params scanner on row ++ " %key[=value]" groups, split_list of a comma-joined list,
   nat_of_digits of str(n)). *)
From Coq Require Import List String Ascii Bool Arith Lia.
From Annet Require Import Base.Str Base.Tree Model.Offside.
From Annet Require Import Model.GenProg Proofs.GenProgProofs.
From Annet Require Import Model.Pattern Model.PatternT Model.Acl Model.AclText.
From Annet Require Import Proofs.AclTextParse Proofs.AclTextProofs.
From Annet Require Model.Json Proofs.JsonArrProofs.
Import ListNotations.
Open Scope string_scope.
Open Scope list_scope.
Arguments Nat.ltb : simpl never.
Arguments Nat.leb : simpl never.
Local Notation is_wordc := GenProg.is_wordc.

(* ---------- strings: all characters satisfy P ---------- *)

Fixpoint sall (P : ascii -> bool) (s : string) : bool :=
  match s with EmptyString => true | String c r => P c && sall P r end.

Lemma sall_l_of P s : forallb P (list_ascii_of_string s) = sall P s.
Proof. induction s as [|c r IH]; [reflexivity|]. cbn. rewrite IH. reflexivity. Qed.

Lemma sall_app P a b : sall P (a ++ b) = sall P a && sall P b.
Proof. induction a as [|c a IH]; [reflexivity|]. cbn. rewrite IH, andb_assoc. reflexivity. Qed.

Lemma sall_impl (P Q : ascii -> bool) s : (forall c, P c = true -> Q c = true) -> sall P s = true -> sall Q s = true.
Proof.
  intros H. induction s as [|c r IH]; [reflexivity|]. cbn. rewrite !andb_true_iff. intros [H1 H2]. auto.
Qed.

Definition nows (c : ascii) : bool := negb (is_ws c).
Definition nopct (c : ascii) : bool := negb (Ascii.eqb c "%").

(* ---------- the %params scanner ---------- *)

(* a parameter group as printed: " %key" or " %key=value" *)
Definition pgroup := (string * option string)%type.
Definition gtext (g : pgroup) : string :=
  (" %" ++ fst g ++ match snd g with None => "" | Some v => "=" ++ v end)%string.
Fixpoint gsfx (gs : list pgroup) : string :=
  match gs with [] => EmptyString | g :: r => (gtext g ++ gsfx r)%string end.
Definition kv (g : pgroup) : string * string := (fst g, match snd g with None => EmptyString | Some v => v end).

Definition gok (g : pgroup) : bool :=
  match fst g with
  | EmptyString => false
  | String c k => ident_start c && sall is_wordc k
  end && match snd g with None => true | Some v => sall nows v end.

Lemma pscan_sp st r : pscan st (String " " r) = pflush st ++ pscan (PIdle true) r.
Proof. destruct st as [w| |k|k v]; cbn [pscan pstep pflush]; [destruct w| | |]; reflexivity. Qed.

Lemma pscan_key k : forall k0 r, sall is_wordc k = true ->
  pscan (PKey k0) (k ++ r) = pscan (PKey (k0 ++ k)) r.
Proof.
  induction k as [|c k IH]; intros k0 r H.
  - rewrite append_nil_r. reflexivity.
  - cbn in H. apply andb_true_iff in H as [Hc Hk].
    change (String c k ++ r)%string with (String c (k ++ r)%string). cbn [pscan pstep]. rewrite Hc. cbn [app].
    rewrite (IH _ _ Hk). rewrite append_assoc. reflexivity.
Qed.

Lemma pscan_val v : forall k v0 r, sall nows v = true ->
  pscan (PVal k v0) (v ++ r) = pscan (PVal k (v0 ++ v)) r.
Proof.
  induction v as [|c v IH]; intros k v0 r H.
  - rewrite append_nil_r. reflexivity.
  - cbn in H. apply andb_true_iff in H as [Hc Hv]. unfold nows in Hc. apply negb_true_iff in Hc.
    change (String c v ++ r)%string with (String c (v ++ r)%string). cbn [pscan pstep]. rewrite Hc. cbn [app].
    rewrite (IH _ _ _ Hv). rewrite append_assoc. reflexivity.
Qed.

Lemma wordc_not_eq c : is_wordc c = true -> Ascii.eqb c "=" = false.
Proof. destruct (Ascii.eqb_spec c "=") as [->|]; [discriminate|reflexivity]. Qed.

Theorem pscan_groups gs : forallb gok gs = true -> forall st, pscan st (gsfx gs) = pflush st ++ map kv gs.
Proof.
  induction gs as [|[k ov] gs IH]; intros H st.
  - cbn. rewrite app_nil_r. reflexivity.
  - cbn [forallb] in H. apply andb_true_iff in H as [Hg H]. unfold gok in Hg. cbn [fst snd] in Hg.
    destruct k as [|c k]; [discriminate|]. apply andb_true_iff in Hg as [Hk Hv]. apply andb_true_iff in Hk as [Hc Hk].
    cbn [gsfx]. unfold gtext. cbn [fst snd].
    change ((" %" ++ String c k ++ match ov with None => "" | Some v => "=" ++ v end) ++ gsfx gs)%string
      with (String " " (String "%" (String c ((k ++ match ov with None => "" | Some v => "=" ++ v end) ++ gsfx gs))))%string.
    rewrite pscan_sp. f_equal. cbn [pscan pstep andb]. rewrite Ascii.eqb_refl. cbn [app]. unfold pstep at 1. rewrite Hc. cbn [app].
    rewrite append_assoc, (pscan_key k _ _ Hk). cbn [map]. unfold kv at 1. cbn [fst snd].
    change (String c "" ++ k)%string with (String c k).
    destruct ov as [v|].
    + change (("=" ++ v) ++ gsfx gs)%string with (String "=" (v ++ gsfx gs)%string). cbn [pscan pstep].
      assert (Hw : is_wordc "=" = false) by reflexivity. rewrite Hw. cbn [app Ascii.eqb Bool.eqb].
      rewrite (pscan_val v _ _ _ Hv). rewrite (IH H). reflexivity.
    + change ("" ++ gsfx gs)%string with (gsfx gs). rewrite (IH H). reflexivity.
Qed.

(* the row in front of the groups: no percent sign, so the scanner stays idle *)
Lemma pscan_idle s : forall w r, sall nopct s = true -> exists w', pscan (PIdle w) (s ++ r) = pscan (PIdle w') r.
Proof.
  induction s as [|c s IH]; intros w r H; [exists w; reflexivity|].
  cbn in H. apply andb_true_iff in H as [Hc Hs]. unfold nopct in Hc. apply negb_true_iff in Hc.
  change (String c s ++ r)%string with (String c (s ++ r)%string). cbn [pscan pstep]. rewrite Hc, andb_false_r. cbn [app].
  apply IH. exact Hs.
Qed.

Theorem find_params_printed pat gs : sall nopct pat = true -> forallb gok gs = true ->
  find_params (pat ++ gsfx gs) = map kv gs.
Proof.
  intros Hp Hg. unfold find_params. destruct (pscan_idle pat false (gsfx gs) Hp) as (w & ->).
  rewrite (pscan_groups gs Hg). reflexivity.
Qed.

(* ---------- cutting the %params off: raw_row ---------- *)

Lemma has_param_cons x s : has_param s = true -> has_param (String x s) = true.
Proof.
  destruct s as [|b [|c r]]; try discriminate. intros H. cbn [has_param] in *. rewrite H. apply orb_true_r.
Qed.

Lemma has_param_app p s : has_param s = true -> has_param (p ++ s) = true.
Proof. induction p as [|x p IH]; intros H; [exact H|]. apply has_param_cons. apply IH. exact H. Qed.

Lemma has_param_nopct s : sall nopct s = true -> has_param s = false.
Proof.
  induction s as [|a s IH]; intros H; [reflexivity|]. cbn in H. apply andb_true_iff in H as [_ H].
  specialize (IH H). destruct s as [|b [|c r]]; try reflexivity.
  cbn [has_param] in *. rewrite IH, orb_false_r.
  cbn in H. apply andb_true_iff in H as [Hb _]. unfold nopct in Hb. apply negb_true_iff in Hb. rewrite Hb, andb_false_r. reflexivity.
Qed.

Lemma before_pct_app p r : sall nopct p = true -> before_pct (p ++ String "%" r) = p.
Proof.
  induction p as [|c p IH]; intros H; [reflexivity|].
  cbn in H. apply andb_true_iff in H as [Hc Hp]. unfold nopct in Hc. apply negb_true_iff in Hc.
  change (String c p ++ String "%" r)%string with (String c (p ++ String "%" r)%string). cbn [before_pct]. rewrite Hc, (IH Hp). reflexivity.
Qed.

Lemma rstrip_app_sp s : rstrip (s ++ " ") = rstrip s.
Proof.
  induction s as [|c s IH]; [reflexivity|].
  change (String c s ++ " ")%string with (String c (s ++ " ")%string). cbn [rstrip]. rewrite IH. reflexivity.
Qed.

Lemma line_ok_head pat : line_ok pat = true ->
  exists c p, pat = String c p /\ is_ws c = false /\ lstrip pat = pat /\ rstrip pat = pat.
Proof.
  intros H. destruct (line_ok_parts _ H) as (Hs & Hh & _). destruct pat as [|c p]; [discriminate|].
  cbn in Hh. apply negb_true_iff in Hh. exists c, p. split; [reflexivity|]. split; [exact Hh|].
  assert (L : lstrip (String c p) = String c p) by (cbn; rewrite Hh; reflexivity).
  split; [exact L|]. unfold strip in Hs. rewrite L in Hs. exact Hs.
Qed.

Theorem raw_row_printed pat gs :
  line_ok pat = true -> sall nopct pat = true -> raw_row pat = pat -> forallb gok gs = true ->
  raw_row (pat ++ gsfx gs) = pat.
Proof.
  intros Hl Hp Hr Hg. destruct gs as [|[k ov] gs].
  - cbn [gsfx]. rewrite append_nil_r. exact Hr.
  - cbn [forallb] in Hg. apply andb_true_iff in Hg as [Hg _]. unfold gok in Hg. cbn [fst snd] in Hg.
    destruct k as [|c k]; [discriminate|]. apply andb_true_iff in Hg as [Hk _]. apply andb_true_iff in Hk as [Hc _].
    cbn [gsfx]. unfold gtext. cbn [fst snd].
    set (rest := ((k ++ match ov with None => "" | Some v => "=" ++ v end) ++ gsfx gs)%string).
    change ((" %" ++ String c k ++ match ov with None => "" | Some v => "=" ++ v end) ++ gsfx gs)%string
      with (String " " (String "%" (String c rest))).
    assert (HP : has_param (pat ++ String " " (String "%" (String c rest))) = true).
    { apply has_param_app. cbn [has_param]. rewrite Hc. reflexivity. }
    assert (E : (pat ++ String " " (String "%" (String c rest)) = (pat ++ " ") ++ String "%" (String c rest))%string).
    { rewrite append_assoc. reflexivity. }
    unfold raw_row at 1, cut_params. rewrite HP, E, before_pct_app.
    + destruct (line_ok_head pat Hl) as (c0 & p0 & -> & Hw & L & R).
      unfold strip. change (String c0 p0 ++ " ")%string with (String c0 (p0 ++ " ")%string).
      cbn [lstrip]. rewrite Hw. change (String c0 (p0 ++ " ")%string) with (String c0 p0 ++ " ")%string.
      rewrite rstrip_app_sp, R, L, R.
      unfold raw_row, cut_params in Hr. rewrite (has_param_nopct _ Hp) in Hr. unfold strip in Hr. rewrite L, R in Hr. exact Hr.
    + rewrite sall_app, Hp. reflexivity.
Qed.

(* ---------- the printed line is its own key ---------- *)

Lemma rstrip_nows s : sall nows s = true -> rstrip s = s.
Proof.
  induction s as [|c s IH]; intros H; [reflexivity|]. cbn in H. apply andb_true_iff in H as [Hc Hs].
  unfold nows in Hc. apply negb_true_iff in Hc. cbn [rstrip]. rewrite (IH Hs), Hc. destruct s; reflexivity.
Qed.

Lemma rstrip_app_fixed a b : rstrip b = b -> b <> "" -> rstrip (a ++ b) = (a ++ b)%string.
Proof.
  intros Hb Hn. induction a as [|c a IH]; [exact Hb|].
  change (String c a ++ b)%string with (String c (a ++ b)%string). cbn [rstrip]. rewrite IH.
  destruct (a ++ b)%string eqn:E; [|reflexivity]. destruct a; [cbn in E; congruence|discriminate].
Qed.

Lemma wordc_nows c : is_wordc c = true -> nows c = true.
Proof. destruct c as [[] [] [] [] [] [] [] []]; vm_compute; intros H; try reflexivity; discriminate H. Qed.

Lemma ident_start_nows c : ident_start c = true -> nows c = true.
Proof. destruct c as [[] [] [] [] [] [] [] []]; vm_compute; intros H; try reflexivity; discriminate H. Qed.

Lemma digit_nows c : is_digit c = true -> nows c = true.
Proof. destruct c as [[] [] [] [] [] [] [] []]; vm_compute; intros H; try reflexivity; discriminate H. Qed.

(* a non-empty run of groups ends in a non-blank *)
Lemma gsfx_tail gs : gs <> [] -> forallb gok gs = true ->
  exists front t, gsfx gs = (front ++ t)%string /\ t <> "" /\ sall nows t = true.
Proof.
  induction gs as [|[k ov] gs IH]; intros Hn Hg; [congruence|].
  cbn [forallb] in Hg. apply andb_true_iff in Hg as [Hg Hgs]. destruct gs as [|g' gs'].
  - unfold gok in Hg. cbn [fst snd] in Hg. destruct k as [|c k]; [discriminate|].
    apply andb_true_iff in Hg as [Hk Hv]. apply andb_true_iff in Hk as [Hc Hk].
    cbn [gsfx]. rewrite append_nil_r. unfold gtext. cbn [fst snd]. destruct ov as [v|].
    + destruct v as [|cv v].
      * exists " %", (String c k ++ "=")%string. split; [reflexivity|]. split; [discriminate|].
        rewrite sall_app. cbn. rewrite andb_true_r. apply andb_true_iff. split.
        -- apply ident_start_nows. exact Hc.
        -- apply (sall_impl is_wordc); [apply wordc_nows|exact Hk].
      * exists (" %" ++ String c k ++ "=")%string, (String cv v). split; [rewrite !append_assoc; reflexivity|].
        split; [discriminate|exact Hv].
    + exists " %", (String c k). split; [rewrite append_nil_r; reflexivity|]. split; [discriminate|].
      cbn. apply andb_true_iff. split.
      * apply ident_start_nows. exact Hc.
      * apply (sall_impl is_wordc); [apply wordc_nows|exact Hk].
  - destruct (IH ltac:(discriminate) Hgs) as (front & t & E & Ht & Hw).
    exists (gtext (k, ov) ++ front)%string, t. split; [|auto].
    change (gsfx ((k, ov) :: g' :: gs')) with (gtext (k, ov) ++ gsfx (g' :: gs'))%string. rewrite E, append_assoc. reflexivity.
Qed.

Lemma has_nl_app a b : has_nl (a ++ b) = has_nl a || has_nl b.
Proof. induction a as [|c a IH]; [reflexivity|]. cbn. rewrite IH, orb_assoc. reflexivity. Qed.

Lemma has_nl_nows s : sall nows s = true -> has_nl s = false.
Proof.
  induction s as [|c s IH]; intros H; [reflexivity|]. cbn in H. apply andb_true_iff in H as [Hc Hs].
  cbn [has_nl]. rewrite (IH Hs), orb_false_r. unfold nows in Hc. apply negb_true_iff in Hc.
  destruct (Ascii.eqb_spec c nl) as [->|]; [discriminate|reflexivity].
Qed.

Lemma has_nl_gsfx gs : forallb gok gs = true -> has_nl (gsfx gs) = false.
Proof.
  induction gs as [|[k ov] gs IH]; intros Hg; [reflexivity|].
  cbn [forallb] in Hg. apply andb_true_iff in Hg as [Hg Hgs]. unfold gok in Hg. cbn [fst snd] in Hg.
  destruct k as [|c k]; [discriminate|]. apply andb_true_iff in Hg as [Hk Hv]. apply andb_true_iff in Hk as [Hc Hk].
  cbn [gsfx]. rewrite has_nl_app, (IH Hgs), orb_false_r. unfold gtext. cbn [fst snd].
  rewrite !has_nl_app. change (has_nl " %") with false. cbn [orb].
  assert (K : has_nl (String c k) = false).
  { apply has_nl_nows. cbn. rewrite (ident_start_nows _ Hc). apply (sall_impl is_wordc); [apply wordc_nows|exact Hk]. }
  rewrite K. cbn [orb]. destruct ov as [v|]; [|reflexivity].
  rewrite has_nl_app. change (has_nl "=") with false. cbn [orb]. apply has_nl_nows. exact Hv.
Qed.

Theorem line_ok_printed pat gs :
  line_ok pat = true -> sall nopct pat = true -> forallb gok gs = true -> line_ok (pat ++ gsfx gs) = true.
Proof.
  intros Hl Hp Hg. destruct (line_ok_parts _ Hl) as (Hs & Hh & Hc & Hn & _).
  destruct (line_ok_head pat Hl) as (c0 & p0 & E0 & Hw & L & R).
  assert (P0 : Ascii.eqb c0 "%" = false).
  { subst pat. cbn in Hp. apply andb_true_iff in Hp as [Hp _]. unfold nopct in Hp. apply negb_true_iff in Hp. exact Hp. }
  unfold line_ok. rewrite !andb_true_iff, !negb_true_iff, String.eqb_eq. repeat split.
  - (* strip *)
    unfold strip.
    assert (LL : lstrip (pat ++ gsfx gs) = (pat ++ gsfx gs)%string).
    { subst pat. change (String c0 p0 ++ gsfx gs)%string with (String c0 (p0 ++ gsfx gs)%string). cbn [lstrip]. rewrite Hw. reflexivity. }
    rewrite LL. destruct gs as [|g gs]; [cbn [gsfx]; rewrite append_nil_r; exact R|].
    destruct (gsfx_tail (g :: gs) ltac:(discriminate) Hg) as (front & t & E & Ht & Hwt).
    rewrite E, <- append_assoc. apply rstrip_app_fixed; [apply rstrip_nows; exact Hwt|exact Ht].
  - subst pat. cbn. rewrite Hw. reflexivity.
  - subst pat. unfold startswith in *. change (String c0 p0 ++ gsfx gs)%string with (String c0 (p0 ++ gsfx gs)%string).
    rewrite prefix1 in *. exact Hc.
  - rewrite has_nl_app, Hn, (has_nl_gsfx gs Hg). reflexivity.
  - subst pat. unfold cont_line. change (String c0 p0 ++ gsfx gs)%string with (String c0 (p0 ++ gsfx gs)%string).
    cbn [lstrip]. rewrite Hw. unfold startswith at 1. rewrite prefix1.
    destruct (ascii_dec "%" c0) as [<-|]; [discriminate|reflexivity].
Qed.

(* ---------- the values: comma-joined lists, str(n) ---------- *)

Definition nodelim (c : ascii) : bool := negb (is_delim c).

Lemma split_list_aux_name n : forall cur r, sall nodelim n = true ->
  split_list_aux (n ++ r) cur = split_list_aux r (cur ++ n).
Proof.
  induction n as [|c n IH]; intros cur r H; [rewrite append_nil_r; reflexivity|].
  cbn in H. apply andb_true_iff in H as [Hc Hn]. unfold nodelim in Hc. apply negb_true_iff in Hc.
  change (String c n ++ r)%string with (String c (n ++ r)%string). cbn [split_list_aux]. rewrite Hc.
  rewrite (IH _ _ Hn), append_assoc. reflexivity.
Qed.

Definition name_ok (g : string) : bool := negb (is_empty g) && sall nodelim g.

Theorem split_list_join names : forallb name_ok names = true -> split_list (join_with "," names) = names.
Proof.
  unfold split_list. induction names as [|x r IH]; intros H; [reflexivity|].
  cbn [forallb] in H. apply andb_true_iff in H as [Hx Hr]. unfold name_ok in Hx. apply andb_true_iff in Hx as [Hne Hx].
  apply negb_true_iff in Hne. destruct r as [|y r].
  - cbn [join_with]. rewrite <- (append_nil_r x) at 1. rewrite (split_list_aux_name x _ _ Hx). cbn [split_list_aux append].
    rewrite Hne. reflexivity.
  - change (join_with "," (x :: y :: r)) with (x ++ "," ++ join_with "," (y :: r))%string.
    rewrite (split_list_aux_name x _ _ Hx). cbn [append].
    change ("," ++ join_with "," (y :: r))%string with (String "," (join_with "," (y :: r))). cbn [split_list_aux].
    change (is_delim ",") with true. cbn iota. rewrite Hne. f_equal. apply IH. exact Hr.
Qed.

Lemma join_nonempty x r : is_empty x = false -> is_empty (join_with "," (x :: r)) = false.
Proof. destruct x as [|c x]; [discriminate|]. intros _. destruct r; reflexivity. Qed.

Lemma nows_join names : forallb (sall nows) names = true -> sall nows (join_with "," names) = true.
Proof.
  induction names as [|x r IH]; intros H; [reflexivity|]. cbn [forallb] in H. apply andb_true_iff in H as [Hx Hr].
  destruct r as [|y r]; [exact Hx|].
  change (join_with "," (x :: y :: r)) with (x ++ "," ++ join_with "," (y :: r))%string.
  rewrite !sall_app, Hx, (IH Hr). reflexivity.
Qed.

Lemma bits_name_ok l : forallb name_ok (map bit_str l) = true.
Proof. induction l as [|b l IH]; [reflexivity|]. cbn [map forallb]. rewrite IH. destruct b; reflexivity. Qed.

Lemma bits_nows l : forallb (sall nows) (map bit_str l) = true.
Proof. induction l as [|b l IH]; [reflexivity|]. cbn [map forallb]. rewrite IH. destruct b; reflexivity. Qed.

Theorem valid_bool_list_bits l : valid_bool_list (join_with "," (map bit_str l)) = Some l.
Proof.
  unfold valid_bool_list. rewrite (split_list_join _ (bits_name_ok l)).
  induction l as [|b l IH]; [reflexivity|]. cbn [map all_some].
  assert (E : valid_bool (bit_str b) = Some b) by (destruct b; reflexivity). rewrite E, IH. reflexivity.
Qed.

(* str(n) *)
Lemma nat_of_digits_lv s : forall a, sall is_digit s = true ->
  nat_of_digits a s = Some (a * snd (JsonArrProofs.lv s) + fst (JsonArrProofs.lv s)).
Proof.
  induction s as [|c s IH]; intros a H.
  - cbn. f_equal. lia.
  - cbn in H. apply andb_true_iff in H as [Hc Hs]. cbn [nat_of_digits]. rewrite Hc, (IH _ Hs).
    cbn [JsonArrProofs.lv]. destruct (JsonArrProofs.lv s) as [v p]. cbn [fst snd]. unfold digit_val. f_equal. nia.
Qed.

Lemma is_digit_digit d : d < 10 -> is_digit (Json.digit d) = true.
Proof. intros H. do 10 (destruct d as [|d]; [reflexivity|]). lia. Qed.

Lemma digits_dec_aux f : forall n acc, sall is_digit acc = true -> sall is_digit (Json.dec_aux f n acc) = true.
Proof.
  induction f as [|f IH]; intros n acc H; [exact H|].
  cbn [Json.dec_aux].
  assert (D : sall is_digit (String (Json.digit (Nat.modulo n 10)) acc) = true).
  { cbn [sall]. rewrite H, is_digit_digit; [reflexivity|]. apply Nat.mod_upper_bound. lia. }
  destruct (Nat.ltb n 10); [exact D|]. apply IH. exact D.
Qed.

Lemma nonempty_dec_aux f : forall n acc, is_empty acc = false -> is_empty (Json.dec_aux f n acc) = false.
Proof.
  induction f as [|f IH]; intros n acc H; [exact H|]. cbn [Json.dec_aux].
  destruct (Nat.ltb n 10); [reflexivity|]. apply IH. reflexivity.
Qed.

Lemma dec_nonempty n : is_empty (Json.dec n) = false.
Proof. unfold Json.dec. cbn [Json.dec_aux]. destruct (Nat.ltb n 10); [reflexivity|]. apply nonempty_dec_aux. reflexivity. Qed.

Lemma dec_digits n : sall is_digit (Json.dec n) = true.
Proof. unfold Json.dec. apply digits_dec_aux. reflexivity. Qed.

Theorem valid_prio_dec n : valid_prio (Json.dec n) = Some n.
Proof.
  unfold valid_prio. pose proof (dec_nonempty n) as Hn. destruct (Json.dec n) eqn:E; [discriminate|]. rewrite <- E.
  rewrite (nat_of_digits_lv _ 0 (dec_digits n)), JsonArrProofs.lv_dec. reflexivity.
Qed.

(* ---------- the printer ---------- *)

(* the groups raw_rule prints, given the printed values *)
Definition groups (glob : bool) (ocd : option (option string)) (oprio ogens : option string) : list pgroup :=
  (if glob then [("global", None)] else []) ++
  (match ocd with None => [] | Some v => [("cant_delete", v)] end) ++
  (match oprio with None => [] | Some v => [("prio", Some v)] end) ++
  (match ogens with None => [] | Some v => [("generator_names", Some v)] end).

Definition pv (v : string) : string := if is_empty v then "1" else v.

Lemma plookup_groups glob ocd oprio ogens :
  let ps := map kv (groups glob ocd oprio ogens) in
  plookup "global" ps = (if glob then Some "1" else None) /\
  plookup "cant_delete" ps = match ocd with None => None | Some None => Some "1" | Some (Some v) => Some (pv v) end /\
  plookup "prio" ps = option_map pv oprio /\
  plookup "generator_names" ps = option_map pv ogens.
Proof.
  destruct glob, ocd as [[v|]|], oprio as [p|], ogens as [g|]; repeat split; reflexivity.
Qed.

Definition ocd_of (cd : option (list bool)) (cd_bare : bool) : option (option string) :=
  match cd with
  | None => None
  | Some l => Some (if cd_bare && blist_eqb l [true] then None else Some (join_with "," (map bit_str l)))
  end.
Definition oprio_of (prio : nat) (prio_explicit : bool) (dec : nat -> string) : option string :=
  if negb (Nat.eqb prio 0) || prio_explicit then Some (dec prio) else None.
Definition ogens_of (gens : list string) : option string :=
  match gens with [] => None | _ => Some (join_with "," gens) end.

Lemma print_raw_groups pat glob cd cd_bare prio pe gens dec :
  print_raw pat false glob cd cd_bare prio pe gens dec =
  (pat ++ gsfx (groups glob (ocd_of cd cd_bare) (oprio_of prio pe dec) (ogens_of gens)))%string.
Proof.
  unfold print_raw, groups, ocd_of, oprio_of, ogens_of. cbn iota. change ("" ++ pat ++ ?x)%string with (pat ++ x)%string. f_equal.
  destruct glob; (destruct cd as [l|]; [destruct (cd_bare && blist_eqb l [true])|]);
    destruct (negb (Nat.eqb prio 0) || pe); destruct gens as [|g0 gens];
    cbn [app gsfx gtext fst snd append]; rewrite ?append_assoc, ?append_nil_r; cbn [append]; reflexivity.
Qed.

Definition gen_name_okb (g : string) : bool :=
  negb (is_empty g) && forallb (fun c => negb (is_ws c) && negb (is_delim c)) (list_ascii_of_string g).
Definition pat_okb (pat : string) : bool :=
  line_ok pat && String.eqb (raw_row pat) pat && negb (existsb (Ascii.eqb "%"%char) (list_ascii_of_string pat))
  && negb (startswith "!" pat).

Lemma nopct_of_existsb pat : existsb (Ascii.eqb "%"%char) (list_ascii_of_string pat) = false -> sall nopct pat = true.
Proof.
  induction pat as [|c p IH]; [reflexivity|]. cbn [list_ascii_of_string existsb sall]. intros H. apply orb_false_iff in H as [H1 H2].
  rewrite (IH H2), andb_true_r. unfold nopct. rewrite Ascii.eqb_sym, H1. reflexivity.
Qed.

Lemma gen_names gens : forallb gen_name_okb gens = true ->
  forallb name_ok gens = true /\ forallb (sall nows) gens = true.
Proof.
  induction gens as [|g gens IH]; intros H; [split; reflexivity|].
  cbn [forallb] in H. apply andb_true_iff in H as [Hg H]. destruct (IH H) as [I1 I2].
  unfold gen_name_okb in Hg. apply andb_true_iff in Hg as [Hne Hc]. rewrite sall_l_of in Hc.
  cbn [forallb]. rewrite I1, I2, !andb_true_r. unfold name_ok. rewrite Hne. cbn [andb]. split.
  - apply (sall_impl (fun c => negb (is_ws c) && negb (is_delim c))); [|exact Hc].
    intros c E. apply andb_true_iff in E as [_ E]. exact E.
  - apply (sall_impl (fun c => negb (is_ws c) && negb (is_delim c))); [|exact Hc].
    intros c E. apply andb_true_iff in E as [E _]. exact E.
Qed.

Theorem print_raw_ok pat glob cd cd_bare prio prio_explicit gens :
  pat_okb pat = true -> forallb gen_name_okb gens = true -> cd <> Some [] ->
  let raw := print_raw pat false glob cd cd_bare prio prio_explicit gens Json.dec in
  line_ok raw = true /\ parse_line raw = LItem pat false glob cd prio gens.
Proof.
  intros Hpat Hgens Hcd raw. unfold pat_okb in Hpat. rewrite !andb_true_iff, !negb_true_iff, String.eqb_eq in Hpat.
  destruct Hpat as [[[Hl Hr] Hp] Hb]. apply nopct_of_existsb in Hp.
  destruct (gen_names gens Hgens) as [Gn Gw].
  subst raw. rewrite print_raw_groups.
  set (ocd := ocd_of cd cd_bare). set (oprio := oprio_of prio prio_explicit Json.dec). set (ogens := ogens_of gens).
  assert (Hg : forallb gok (groups glob ocd oprio ogens) = true).
  { unfold groups. rewrite !forallb_app. repeat (apply andb_true_iff; split).
    - destruct glob; reflexivity.
    - unfold ocd, ocd_of. destruct cd as [l|]; [|reflexivity]. destruct (cd_bare && blist_eqb l [true]); [reflexivity|].
      cbn [forallb]. unfold gok. cbn [fst snd]. rewrite andb_true_r. cbn [andb ident_start sall]. apply nows_join. apply bits_nows.
    - unfold oprio, oprio_of. destruct (negb (Nat.eqb prio 0) || prio_explicit); [|reflexivity].
      cbn [forallb]. unfold gok. cbn [fst snd]. rewrite andb_true_r.
      apply (sall_impl is_digit); [apply digit_nows|apply dec_digits].
    - unfold ogens, ogens_of. destruct gens as [|g0 gens']; [reflexivity|].
      cbn [forallb]. unfold gok. cbn [fst snd]. rewrite andb_true_r. apply nows_join. exact Gw. }
  split; [apply line_ok_printed; assumption|].
  unfold parse_line, line_params. rewrite (find_params_printed _ _ Hp Hg).
  destruct (plookup_groups glob ocd oprio ogens) as (P1 & P2 & P3 & P4). cbn zeta in P1, P2, P3, P4.
  rewrite P1, P2, P3, P4. rewrite (raw_row_printed _ _ Hl Hp Hr Hg), Hb.
  assert (Hctx : startswith context_kw pat = false).
  { destruct (line_ok_head pat Hl) as (c0 & p0 & -> & _). cbn in Hp. apply andb_true_iff in Hp as [Hc0 _].
    unfold nopct in Hc0. apply negb_true_iff in Hc0. unfold startswith, context_kw. cbn [String.prefix].
    destruct (ascii_dec "%" c0) as [<-|]; [discriminate|reflexivity]. }
  rewrite Hctx.
  assert (E1 : match (if glob then Some "1" else None) with None => Some false | Some v => valid_bool v end = Some glob)
    by (destruct glob; reflexivity).
  rewrite E1.
  assert (E2 : match match ocd with None => None | Some None => Some "1" | Some (Some v) => Some (pv v) end with
               | None => Some None
               | Some v => match valid_bool_list v with Some l => Some (Some l) | None => None end
               end = Some cd).
  { unfold ocd, ocd_of. destruct cd as [l|]; [|reflexivity]. destruct (cd_bare && blist_eqb l [true]) eqn:B.
    - apply andb_true_iff in B as [_ B]. apply AclTextProofs.blist_eqb_true in B. subst l. reflexivity.
    - unfold pv. destruct l as [|b l]; [congruence|].
      change (map bit_str (b :: l)) with (bit_str b :: map bit_str l).
      rewrite (join_nonempty (bit_str b) (map bit_str l)) by (destruct b; reflexivity).
      change (bit_str b :: map bit_str l) with (map bit_str (b :: l)). rewrite valid_bool_list_bits. reflexivity. }
  rewrite E2.
  assert (E3 : match option_map pv oprio with None => Some 0 | Some v => valid_prio v end = Some prio).
  { unfold oprio, oprio_of. destruct (negb (Nat.eqb prio 0) || prio_explicit) eqn:B.
    - cbn [option_map]. unfold pv. rewrite dec_nonempty. apply valid_prio_dec.
    - apply orb_false_iff in B as [B _]. apply negb_false_iff, Nat.eqb_eq in B. subst prio. reflexivity. }
  rewrite E3.
  assert (E4 : match option_map pv ogens with None => [] | Some v => split_list v end = gens).
  { unfold ogens, ogens_of. destruct gens as [|g0 gens']; [reflexivity|]. cbn [option_map]. unfold pv.
    cbn [forallb] in Gn. apply andb_true_iff in Gn as [G0 G1]. unfold name_ok in G0. apply andb_true_iff in G0 as [G0 G0'].
    apply negb_true_iff in G0. rewrite (join_nonempty g0 gens' G0). apply split_list_join.
    cbn [forallb]. apply andb_true_iff. split; [unfold name_ok; rewrite G0, G0'; reflexivity | exact G1]. }
  rewrite E4. reflexivity.
Qed.

(* ---------- generated ACLs: the dicts of harness/aclgen.py (without "!" lines) ---------- *)

Inductive gitem :=
  GItem (pat : string) (glob : bool) (cd : option (list bool)) (cd_bare : bool) (prio : nat) (prio_explicit : bool)
        (gens : list string) (kids : list gitem).

(* aclgen.coq_aitem: the structured item of a dict, its line printed by raw_rule *)
Fixpoint aitem_of (g : gitem) : aitem :=
  match g with
  | GItem pat glob cd cd_bare prio pe gens kids =>
    AItem (print_raw pat false glob cd cd_bare prio pe gens Json.dec) pat false glob cd prio gens (map aitem_of kids)
  end.

Definition cd_nonempty (cd : option (list bool)) : bool := match cd with Some [] => false | _ => true end.

Fixpoint gitem_okb (g : gitem) : bool :=
  match g with
  | GItem pat glob cd cd_bare prio pe gens kids =>
    pat_okb pat && forallb gen_name_okb gens && cd_nonempty cd && forallb gitem_okb kids
  end.

Lemma gitem_ok : forall g, gitem_okb g = true -> item_ok (aitem_of g).
Proof.
  fix IH 1. intros [pat glob cd cd_bare prio pe gens kids] H.
  cbn [gitem_okb] in H. rewrite !andb_true_iff in H. destruct H as [[[Hp Hg] Hc] Hk].
  apply item_ok_unfold. cbn [aitem_of ai_raw ai_row ai_ign ai_glob ai_cdo ai_prio ai_gens ai_kids].
  assert (Hcd : cd <> Some []) by (destruct cd as [[|b l]|]; [discriminate Hc|discriminate|discriminate]).
  destruct (print_raw_ok pat glob cd cd_bare prio pe gens Hp Hg Hcd) as [H1 H2].
  split; [exact H1|]. split; [exact H2|].
  clear - IH Hk. induction kids as [|k kids IHk]; [intros x []|].
  cbn [forallb] in Hk. apply andb_true_iff in Hk as [Hk1 Hk2]. cbn [map]. apply acl_ok_cons.
  split; [apply IH; exact Hk1 | apply IHk; exact Hk2].
Qed.

Theorem generated_acl_ok gs : forallb gitem_okb gs = true -> acl_ok (map aitem_of gs).
Proof.
  rewrite forallb_forall. intros H x Hx. apply in_map_iff in Hx as (g & <- & Hg). apply gitem_ok. apply H. exact Hg.
Qed.

Theorem generated_roundtrip gs v : forallb gitem_okb gs = true ->
  compile_acl_text (acl_text (map aitem_of gs)) v = P_C06_text.structured_outcome (map aitem_of gs).
Proof. intros H. apply text_roundtrip. apply generated_acl_ok. exact H. Qed.
