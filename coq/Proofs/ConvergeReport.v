(* C01: the verdict the harness reads off [c01_report] implies the property predicate
   [c01_holds] = P_C01 on the observed chain. *)
From Coq Require Import List String Bool Arith ZArith.
From Annet Require Import Base.Str Base.Tree Model.Pattern Model.Rulebook Model.Diff Model.Order Model.Patch
     Model.Blocks Model.Pipeline Model.Device Spec.PipelineCase Spec.P_C01.
Import ListNotations.
Open Scope string_scope.
Open Scope list_scope.

Lemma chain_report_sound c : forall steps dev,
  report_ok (chain_report c dev steps) = true ->
  P_C01_chain wf_step (cc_vendor c) (cc_rules c) dev (map (fun st => (s_new st, step_obs st)) steps) = true.
Proof.
  induction steps as [|st rest IH]; intros dev H; [reflexivity|].
  cbn [chain_report] in H. cbn [map]. unfold P_C01_chain in *. cbn [chain_eval].
  destruct (step_eval (cc_vendor c) (cc_rules c) dev (s_new st) (step_obs st)) as [cl dev'] eqn:Es.
  cbn [report_ok forallb] in H. apply andb_true_iff in H as [H1 H2].
  cbn [step_report_ok] in H1. apply andb_true_iff in H1 as [Hsame Hg].
  cbn [forallb fst snd]. apply andb_true_iff. split.
  - destruct (wf_step (cc_vendor c) (cc_rules c) dev (s_new st) && obs_order_ok (cc_vendor c) (cc_rules c) (step_obs st));
      [|reflexivity]. cbn [negb orb] in *. unfold clauses_ok. exact Hg.
  - destruct (wf_step (cc_vendor c) (cc_rules c) dev (s_new st) && obs_order_ok (cc_vendor c) (cc_rules c) (step_obs st)) eqn:Eg;
      [|reflexivity]. cbn [andb].
    destruct (cl_no_error cl) eqn:Ene; [|reflexivity].
    apply IH. cbn [negb orb andb] in H2, Hsame. rewrite Hsame in H2. exact H2.
Qed.

Theorem report_ok_sound c : report_ok (c01_report c) = true -> c01_holds c = true.
Proof. unfold c01_report, c01_holds, P_C01, c01_obs. apply chain_report_sound. Qed.
