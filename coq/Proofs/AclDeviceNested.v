(* C02 proof library, device side, below the top level.

   1. The cursor invariant of Device.exec_path: executing the command path h1 .. hk c changes
      only the block reached by entering h1 .. hk (the first entry with that text on every
      level); the siblings of every hi and their subtrees are untouched, the rows of every level
      above stay, and a path that leaves the chain h1 .. hk does not touch the block at all
      ([exec_path_sibling], [exec_path_block], [exec_path_cursor], [exec_path_elsewhere]).
   2. Chains: a block of the device reached through entries that occupy their (rule, key) slot
      ([chain]); which command paths leave a chain and a property of the block at its end alone
      ([pspares]); a command stream all of whose paths do so keeps both ([exec_chain]).  Entering
      an existing block keeps its children, except those governed by a %rewrite rule (the
      documented reset), so the links of a chain are rows of rules that are not %rewrite.
   3. The ACL-aware pipeline: along a chain of passed ancestor blocks which the diff neither
      removes nor replaces ([dchain]) every command path of the patch leaves the chain alone
      ([rpaths_pspares]); hence (c) and (b) of C02 for rows at every depth
      ([cant_delete_kept_deep], [uncovered_untouched_deep]). *)
From Coq Require Import List String Ascii Bool Arith ZArith Lia.
From Annet Require Import Base.Str Base.Tree Model.Pattern Model.Rulebook Model.Diff Model.Order
     Model.Patch Model.Blocks Model.Pipeline Model.Device Model.Acl Model.AclPipeline
     Spec.PipelineCase Spec.P_C01 Spec.C09Blocks Spec.P_C02
     Proofs.DiffBasics Proofs.BlocksProofs Proofs.AclProofs Proofs.AclPipelineProofs Proofs.AclDeviceProofs Proofs.AclPatchRel2.
Import ListNotations.
Open Scope string_scope.
Open Scope list_scope.

(* ------------------------------------------------------------------------------------ *)
(* 0. entering the first entry with a given text                                          *)

(* descend into the first entry whose row text is c (what Device.exec_path does) *)
Definition navb (c : string) (g : forest -> forest) : forest -> forest :=
  fix go (l : forest) : forest :=
    match l with
    | [] => []
    | (r, t) :: l' => if String.eqb r c then (r, T (g (kids t))) :: l' else (r, t) :: go l'
    end.

Lemma navb_keys c g f : keys (navb c g f) = keys f.
Proof.
  unfold keys. induction f as [|[r t] f IH]; [reflexivity|]. cbn [navb map fst].
  destruct (String.eqb r c); cbn [map fst]; [reflexivity | rewrite IH; reflexivity].
Qed.

Lemma navb_tfind_other c g r f : r <> c -> tfind r (navb c g f) = tfind r f.
Proof.
  intros Hne. induction f as [|[r0 t0] f IH]; [reflexivity|]. cbn [navb].
  destruct (String.eqb_spec r0 c) as [E|E]; cbn [tfind].
  - subst r0. destruct (String.eqb_spec c r) as [E2|E2]; [congruence | reflexivity].
  - destruct (String.eqb r0 r); [reflexivity | exact IH].
Qed.

Lemma navb_tfind_same c g f : tfind c (navb c g f) = option_map (fun t => T (g (kids t))) (tfind c f).
Proof.
  induction f as [|[r0 t0] f IH]; [reflexivity|]. cbn [navb].
  destruct (String.eqb r0 c) eqn:E; cbn [tfind]; rewrite E; [reflexivity | exact IH].
Qed.

(* the block reached by entering the first entries with texts hs *)
Fixpoint descend (hs : list string) (f : forest) : option forest :=
  match hs with
  | [] => Some f
  | h :: hs' => match tfind h f with Some t => descend hs' (kids t) | None => None end
  end.

Section Cursor.
  Variable rmatch : string -> string -> option (list string).
  Variable rreverse : string -> list string -> string.
  Variable is_exit : string -> bool.

  Notation xcmd := (exec_cmd rmatch rreverse is_exit).
  Notation xpath := (exec_path rmatch rreverse is_exit).
  Notation xexec := (exec rmatch rreverse is_exit).

  (* the rule set that governs the block reached by hs *)
  Fixpoint rwalk (rs : rset) (hs : list string) : option rset :=
    match hs with
    | [] => Some rs
    | h :: hs' => match match_row rmatch h rs with Some (_, crs) => rwalk crs hs' | None => None end
    end.

  Lemma exec_path_cons2 rs c r rest f :
    xpath rs (c :: r :: rest) f =
    match match_row rmatch c rs with
    | Some (_, crs) => navb c (xpath crs (r :: rest)) f
    | None => f
    end.
  Proof. reflexivity. Qed.

  (* ---------------------------------------------------------------- 1. the cursor invariant *)

  (* a path that works inside a block keeps the rows of the level ... *)
  Theorem exec_path_level_rows rs c c2 rest f : keys (xpath rs (c :: c2 :: rest) f) = keys f.
  Proof. rewrite exec_path_cons2. destruct (match_row rmatch c rs) as [[m crs]|]; [apply navb_keys | reflexivity]. Qed.

  (* ... leaves every sibling of the block, with its subtree, as it was ... *)
  Theorem exec_path_sibling rs c c2 rest r f : r <> c -> tfind r (xpath rs (c :: c2 :: rest) f) = tfind r f.
  Proof.
    intros Hne. rewrite exec_path_cons2. destruct (match_row rmatch c rs) as [[m crs]|]; [apply navb_tfind_other; exact Hne | reflexivity].
  Qed.

  (* ... and executes the rest of the path inside the block, under the rules below its row *)
  Theorem exec_path_block rs c c2 rest f :
    tfind c (xpath rs (c :: c2 :: rest) f) =
    match match_row rmatch c rs with
    | Some (_, crs) => option_map (fun t => T (xpath crs (c2 :: rest) (kids t))) (tfind c f)
    | None => tfind c f
    end.
  Proof.
    rewrite exec_path_cons2. destruct (match_row rmatch c rs) as [[m crs]|]; [apply navb_tfind_same | reflexivity].
  Qed.

  (* the path hs ++ q executes q in the block reached by hs and nowhere else *)
  Theorem exec_path_cursor : forall hs rs q f, q <> [] ->
    descend hs (xpath rs (hs ++ q) f) =
    match rwalk rs hs with
    | Some rs' => option_map (xpath rs' q) (descend hs f)
    | None => descend hs f
    end.
  Proof.
    induction hs as [|h hs IH]; intros rs q f Hq; [reflexivity|].
    cbn [descend rwalk app].
    assert (Hne : exists c2 rest, hs ++ q = c2 :: rest).
    { destruct hs as [|x hs']; [destruct q as [|c2 rest]; [congruence | exists c2, rest; reflexivity] | exists x, (hs' ++ q); reflexivity]. }
    destruct Hne as (c2 & rest & E). rewrite E, exec_path_block, <- E.
    destruct (match_row rmatch h rs) as [[m crs]|]; [|reflexivity].
    destruct (tfind h f) as [t|]; cbn [option_map kids].
    - apply IH. exact Hq.
    - destruct (rwalk crs hs); reflexivity.
  Qed.

  (* a path that leaves the chain hs does not touch the block reached by hs *)
  Theorem exec_path_elsewhere : forall hs rs p f,
    List.length hs < List.length p -> firstn (List.length hs) p <> hs ->
    descend hs (xpath rs p f) = descend hs f.
  Proof.
    induction hs as [|h hs IH]; intros rs p f Hlen Hpre; [cbn in Hpre; congruence|].
    destruct p as [|c p']; [cbn in Hlen; lia|]. cbn [List.length firstn] in Hlen, Hpre.
    destruct p' as [|c2 rest]; [cbn in Hlen; lia|]. cbn [descend].
    destruct (String.eqb_spec h c) as [E|E].
    - subst c. rewrite exec_path_block. destruct (match_row rmatch h rs) as [[m crs]|]; [|reflexivity].
      destruct (tfind h f) as [t|]; cbn [option_map kids]; [|reflexivity].
      apply IH; [cbn [List.length] in *; lia | intro E2; apply Hpre; rewrite E2; reflexivity].
    - rewrite exec_path_sibling by exact E. reflexivity.
  Qed.

  (* a shorter path acts on a level above: the rows of the levels above the block stay
     (whether the block itself stays is the matter of section 2) *)

  (* ---------------------------------------------------------------- 2. chains *)

  Lemma in_slot_text rs s r t t' : in_slot rmatch rs s (r, t) = in_slot rmatch rs s (r, t').
  Proof. reflexivity. Qed.

  Lemma in_slot_own rs h s crs t : match_row rmatch h rs = Some (s, crs) -> in_slot rmatch rs s (h, t) = true.
  Proof. intro H. unfold in_slot, slot_of. cbn [fst]. rewrite H. cbn [option_map fst]. apply same_slot_refl. Qed.

  Lemma in_slot_both rs s s' e : in_slot rmatch rs s e = true -> in_slot rmatch rs s' e = true -> same_slot s' s = true.
  Proof.
    unfold in_slot. destruct (slot_of rmatch rs (fst e)) as [m|]; [|discriminate]. intros H1 H2.
    rewrite same_slot_sym in H2. eapply same_slot_trans; eassumption.
  Qed.

  (* the entry that occupies slot s is (h, t) *)
  Lemma find_tfind rs h s crs t f :
    match_row rmatch h rs = Some (s, crs) -> find (in_slot rmatch rs s) f = Some (h, t) -> tfind h f = Some t.
  Proof.
    intros Hm. induction f as [|[r0 t0] f IH]; [discriminate|]. cbn [find tfind].
    destruct (in_slot rmatch rs s (r0, t0)) eqn:E.
    - intro H. injection H as E1 E2. subst. rewrite String.eqb_refl. reflexivity.
    - intro H. destruct (String.eqb_spec r0 h) as [E2|E2]; [|exact (IH H)].
      subst r0. rewrite (in_slot_own rs h s crs t0 Hm) in E. discriminate.
  Qed.

  Lemma find_filter {A} (p q : A -> bool) e : forall f, find p f = Some e -> q e = true -> find p (filter q f) = Some e.
  Proof.
    induction f as [|x f IH]; [discriminate|]. cbn [find filter]. destruct (p x) eqn:Ep.
    - intros H Hq. injection H as H. subst x. rewrite Hq. cbn [find]. rewrite Ep. reflexivity.
    - intros H Hq. destruct (q x); [cbn [find]; rewrite Ep|]; apply IH; assumption.
  Qed.

  Lemma find_app_l {A} (p : A -> bool) e f g : find p f = Some e -> find p (f ++ g) = Some e.
  Proof. induction f as [|x f IH]; [discriminate|]. cbn [find app]. destruct (p x); [trivial | exact IH]. Qed.

  Lemma find_replace_same rs s e e' : in_slot rmatch rs s e' = true ->
    forall f, find (in_slot rmatch rs s) f = Some e -> find (in_slot rmatch rs s) (replace_slot rmatch rs s e' f) = Some e'.
  Proof.
    intros He'. induction f as [|x f IH]; [discriminate|]. cbn [find replace_slot].
    destruct (in_slot rmatch rs s x) eqn:E; cbn [find]; [rewrite He'; reflexivity | rewrite E; exact IH].
  Qed.

  Lemma find_replace_other rs s s' e' : in_slot rmatch rs s' e' = true -> same_slot s' s = false ->
    forall f, find (in_slot rmatch rs s) (replace_slot rmatch rs s' e' f) = find (in_slot rmatch rs s) f.
  Proof.
    intros He' Hd.
    assert (Hx : forall x, in_slot rmatch rs s' x = true -> in_slot rmatch rs s x = false).
    { intros x H1. destruct (in_slot rmatch rs s x) eqn:H2; [|reflexivity]. rewrite (in_slot_both rs s s' x H2 H1) in Hd. discriminate. }
    induction f as [|x f IH]; [reflexivity|]. cbn [replace_slot].
    destruct (in_slot rmatch rs s' x) eqn:E; cbn [find].
    - rewrite (Hx _ He'), (Hx _ E). reflexivity.
    - destruct (in_slot rmatch rs s x); [reflexivity | exact IH].
  Qed.

  Lemma find_remove_other rs s s' : same_slot s' s = false ->
    forall f, find (in_slot rmatch rs s) (remove_slot rmatch rs s' f) = find (in_slot rmatch rs s) f.
  Proof.
    intros Hd.
    assert (Hx : forall x, in_slot rmatch rs s' x = true -> in_slot rmatch rs s x = false).
    { intros x H1. destruct (in_slot rmatch rs s x) eqn:H2; [|reflexivity]. rewrite (in_slot_both rs s s' x H2 H1) in Hd. discriminate. }
    induction f as [|x f IH]; [reflexivity|]. cbn [remove_slot].
    destruct (in_slot rmatch rs s' x) eqn:E; cbn [find].
    - rewrite (Hx _ E). reflexivity.
    - destruct (in_slot rmatch rs s x); [reflexivity | exact IH].
  Qed.

  (* entering the first entry with text c: the occupant of slot s is entered iff its text is c *)
  Lemma navb_find rs s c g : forall f,
    find (in_slot rmatch rs s) (navb c g f) =
    option_map (fun e : string * tree => if String.eqb (fst e) c then (fst e, T (g (kids (snd e)))) else e)
               (find (in_slot rmatch rs s) f).
  Proof.
    induction f as [|[r0 t0] f IH]; [reflexivity|]. cbn [navb].
    destruct (String.eqb r0 c) eqn:E; cbn [find].
    - rewrite (in_slot_text rs s r0 _ t0). destruct (in_slot rmatch rs s (r0, t0)) eqn:Es; cbn [option_map fst snd].
      + rewrite E. reflexivity.
      + apply String.eqb_eq in E. subst r0.
        destruct (find (in_slot rmatch rs s) f) as [[r1 t1]|] eqn:Ef; cbn [option_map fst snd]; [|reflexivity].
        destruct (String.eqb_spec r1 c) as [E2|E2]; [|reflexivity].
        exfalso. subst r1. apply find_some in Ef as [_ Ef]. rewrite (in_slot_text rs s c t1 t0) in Ef. congruence.
    - destruct (in_slot rmatch rs s (r0, t0)) eqn:Es; cbn [option_map fst snd]; [rewrite E; reflexivity | exact IH].
  Qed.

  (* ---- the first entry with text u stays what it is ---- *)
  Lemma in_slot_fst rs s e e' : fst e = fst e' -> in_slot rmatch rs s e = in_slot rmatch rs s e'.
  Proof. unfold in_slot. intros E. rewrite E. reflexivity. Qed.

  Lemma tfind_app_l u t f g : tfind u f = Some t -> tfind u (f ++ g) = Some t.
  Proof. induction f as [|[r0 t0] f IH]; [discriminate|]. cbn [tfind app]. destruct (String.eqb r0 u); [trivial | exact IH]. Qed.

  Lemma tfind_replace rs s' e' u t : in_slot rmatch rs s' (u, t) = false -> in_slot rmatch rs s' e' = true ->
    forall f, tfind u (replace_slot rmatch rs s' e' f) = tfind u f.
  Proof.
    intros Hu He'.
    assert (Hx : forall x, in_slot rmatch rs s' x = true -> String.eqb (fst x) u = false).
    { intros x Hx. apply String.eqb_neq. intro E. rewrite (in_slot_fst rs s' x (u, t) E) in Hx. congruence. }
    induction f as [|[r0 t0] f IH]; [reflexivity|]. cbn [replace_slot].
    destruct (in_slot rmatch rs s' (r0, t0)) eqn:E.
    - destruct e' as [r1 t1]. pose proof (Hx _ He') as H1. pose proof (Hx _ E) as H2. cbn [fst] in H1, H2.
      cbn [tfind]. rewrite H1, H2. reflexivity.
    - cbn [tfind]. destruct (String.eqb r0 u); [reflexivity | exact IH].
  Qed.

  Lemma tfind_remove rs s' u t : in_slot rmatch rs s' (u, t) = false ->
    forall f, tfind u (remove_slot rmatch rs s' f) = tfind u f.
  Proof.
    intros Hu.
    assert (Hx : forall x, in_slot rmatch rs s' x = true -> String.eqb (fst x) u = false).
    { intros x Hx. apply String.eqb_neq. intro E. rewrite (in_slot_fst rs s' x (u, t) E) in Hx. congruence. }
    induction f as [|[r0 t0] f IH]; [reflexivity|]. cbn [remove_slot].
    destruct (in_slot rmatch rs s' (r0, t0)) eqn:E.
    - pose proof (Hx _ E) as H2. cbn [fst] in H2. cbn [tfind]. rewrite H2. reflexivity.
    - cbn [tfind]. destruct (String.eqb r0 u); [reflexivity | exact IH].
  Qed.

  Lemma tfind_filter (q : string * tree -> bool) u : (forall t', q (u, t') = true) ->
    forall f, tfind u (filter q f) = tfind u f.
  Proof.
    intros Hq. induction f as [|[r0 t0] f IH]; [reflexivity|]. cbn [filter tfind].
    destruct (String.eqb_spec r0 u) as [E|E].
    - subst r0. rewrite Hq. cbn [tfind]. rewrite String.eqb_refl. reflexivity.
    - destruct (q (r0, t0)); [cbn [tfind]; destruct (String.eqb_spec r0 u); [congruence | exact IH] | exact IH].
  Qed.

  (* a command path that spares the entry (u, t) of the level leaves it the first entry with text u *)
  Lemma exec_path_keeps_tfind rs u t p f :
    spares rmatch rreverse is_exit rs (u, t) p -> tfind u f = Some t -> tfind u (xpath rs p f) = Some t.
  Proof.
    intros Hp H. destruct p as [|c [|c2 rest]]; [exact H| |].
    - cbn [exec_path]. unfold exec_cmd. cbn [spares] in Hp.
      destruct (is_exit c) eqn:Ee; [exact H|].
      destruct Hp as [Hp|[(s' & crs & Em & Hs)|(Em & Hh)]]; [discriminate| |].
      + rewrite Em. assert (Hnew : forall t0, in_slot rmatch rs s' (c, t0) = true) by (intro t0; apply (in_slot_own rs c s' crs t0 Em)).
        unfold exec_direct. destruct (find (in_slot rmatch rs s') f) as [x|].
        * destruct (String.eqb (fst x) c); [rewrite (tfind_replace rs s' _ u t Hs (Hnew _)); exact H|].
          destruct (is_ordered s'); [apply tfind_app_l; rewrite (tfind_remove rs s' u t Hs); exact H|].
          rewrite (tfind_replace rs s' _ u t Hs (Hnew _)). exact H.
        * apply tfind_app_l. exact H.
      + rewrite Em. rewrite tfind_filter; [exact H|]. intro t'.
        unfold reverse_hits in *. cbn [fst] in *. rewrite Hh. reflexivity.
    - cbn [spares fst] in Hp. rewrite exec_path_sibling; [exact H | congruence].
  Qed.

  (* [chain rs hs P f]: from level f (governed by rs) the block reached through the entries
     h1 .. hk exists, every hi occupying its slot on its level and being the row of a rule that is
     not %rewrite, and P holds of the block (with the rule set that governs it) *)
  Fixpoint chain (rs : rset) (hs : list string) (P : rset -> forest -> Prop) (f : forest) : Prop :=
    match hs with
    | [] => P rs f
    | h :: hs' =>
      exists s crs t, match_row rmatch h rs = Some (s, crs) /\ is_rewrite s = false /\
                      find (in_slot rmatch rs s) f = Some (h, t) /\ chain crs hs' P (kids t)
    end.

  (* a chain is a path of first entries: what Spec/P_C02 walks with tfind *)
  Lemma chain_descend P : forall hs rs f, chain rs hs P f ->
    exists rs' g, rwalk rs hs = Some rs' /\ descend hs f = Some g /\ P rs' g.
  Proof.
    induction hs as [|h hs IH]; intros rs f H; [exists rs, f; repeat split; exact H|].
    destruct H as (s & crs & t & Hm & _ & Hf & Hc). cbn [rwalk descend]. rewrite Hm, (find_tfind rs h s crs t f Hm Hf).
    apply IH. exact Hc.
  Qed.

  (* the command path p leaves the chain hs alone, and what it does in the block at its end
     satisfies Q *)
  Fixpoint pspares (rs : rset) (hs : list string) (Q : rset -> list string -> Prop) (p : list string) : Prop :=
    match hs with
    | [] => Q rs p
    | h :: hs' =>
      match p with
      | [] => True
      | [c] =>
        c = h \/ is_exit c = true \/
        (exists s' crs', match_row rmatch c rs = Some (s', crs') /\
                         forall s crs, match_row rmatch h rs = Some (s, crs) -> same_slot s' s = false) \/
        (match_row rmatch c rs = None /\
         forall s crs, match_row rmatch h rs = Some (s, crs) -> reverse_of rreverse s <> c)
      | c :: q => c = h -> forall s crs, match_row rmatch h rs = Some (s, crs) -> pspares crs hs' Q q
      end
    end.

  Section Keep.
    Variable P : rset -> forest -> Prop.
    (* entering the block keeps P (children of %rewrite rules are dropped on entry) *)
    Hypothesis Penter : forall rs g, P rs g -> P rs (enter rmatch rs g).

    Lemma chain_enter : forall hs rs g, chain rs hs P g -> chain rs hs P (enter rmatch rs g).
    Proof.
      intros [|h hs] rs g H; [apply Penter; exact H|].
      destruct H as (s & crs & t & Hm & Hrw & Hf & Hc). exists s, crs, t. repeat split; try assumption.
      unfold enter. apply find_filter; [exact Hf|]. unfold slot_of. cbn [fst]. rewrite Hm. cbn [option_map fst].
      rewrite Hrw. reflexivity.
    Qed.

    Theorem exec_path_chain : forall hs rs p f,
      chain rs hs P f ->
      pspares rs hs (fun rs' q => forall g, P rs' g -> P rs' (xpath rs' q g)) p ->
      chain rs hs P (xpath rs p f).
    Proof.
      induction hs as [|h hs IH]; intros rs p f Hc Hp; [cbn [chain pspares] in *; apply Hp; exact Hc|].
      destruct Hc as (s & crs & t & Hm & Hrw & Hf & Hsub). cbn [pspares] in Hp.
      destruct p as [|c [|c2 rest]].
      - exists s, crs, t. repeat split; assumption.
      - cbn [exec_path]. unfold exec_cmd. destruct (is_exit c) eqn:Ee; [exists s, crs, t; repeat split; assumption|].
        destruct Hp as [Hp|[Hp|[(s' & crs' & Hm' & Hd)|(Hm' & Hr)]]].
        + (* the header of the block itself: the block is entered *)
          subst c. rewrite Hm. unfold exec_direct. rewrite Hf. cbn [fst snd]. rewrite String.eqb_refl.
          exists s, crs, (T (enter rmatch crs (kids t))). repeat split; try assumption.
          * apply (find_replace_same rs s (h, t)); [apply (in_slot_own rs h s crs _ Hm) | exact Hf].
          * cbn [kids]. apply chain_enter. exact Hsub.
        + congruence.
        + (* a direct command of another slot *)
          rewrite Hm'. specialize (Hd s crs Hm). exists s, crs, t. repeat split; try assumption.
          assert (Hnew : forall t0, in_slot rmatch rs s' (c, t0) = true) by (intro t0; apply (in_slot_own rs c s' crs' t0 Hm')).
          unfold exec_direct. destruct (find (in_slot rmatch rs s') f) as [x|].
          * destruct (String.eqb (fst x) c).
            -- rewrite find_replace_other; [exact Hf | apply Hnew | exact Hd].
            -- destruct (is_ordered s').
               ++ apply find_app_l. rewrite find_remove_other; [exact Hf | exact Hd].
               ++ rewrite find_replace_other; [exact Hf | apply Hnew | exact Hd].
          * apply find_app_l. exact Hf.
        + (* a removal command that is not the removal command of the block *)
          rewrite Hm'. specialize (Hr s crs Hm). exists s, crs, t. repeat split; try assumption.
          apply find_filter; [exact Hf|]. unfold reverse_hits, slot_of. cbn [fst]. rewrite Hm. cbn [option_map fst].
          apply negb_true_iff. apply String.eqb_neq. exact Hr.
      - rewrite exec_path_cons2. destruct (match_row rmatch c rs) as [[m0 crs0]|] eqn:Em0; [|exists s, crs, t; repeat split; assumption].
        destruct (String.eqb_spec h c) as [E|E].
        + subst c. rewrite Hm in Em0. injection Em0 as E1 E2. subst m0 crs0.
          exists s, crs, (T (xpath crs (c2 :: rest) (kids t))). repeat split; try assumption.
          * rewrite navb_find, Hf. cbn [option_map fst snd]. rewrite String.eqb_refl. reflexivity.
          * cbn [kids]. apply IH; [exact Hsub | apply (Hp eq_refl s crs Hm)].
        + exists s, crs, t. repeat split; try assumption.
          rewrite navb_find, Hf. cbn [option_map fst snd].
          destruct (String.eqb_spec h c) as [E2|_]; [congruence | reflexivity].
    Qed.

    (* a command stream all of whose paths leave the chain alone keeps the chain and P *)
    Theorem exec_chain hs rs : forall ps f,
      chain rs hs P f ->
      (forall p, In p ps -> pspares rs hs (fun rs' q => forall g, P rs' g -> P rs' (xpath rs' q g)) p) ->
      chain rs hs P (xexec rs ps f).
    Proof.
      unfold exec. induction ps as [|p ps IH]; intros f Hc Hps; [exact Hc|]. cbn [fold_left]. apply IH.
      - apply exec_path_chain; [exact Hc | apply Hps; now left].
      - intros q Hq. apply Hps. now right.
    Qed.
  End Keep.
End Cursor.

(* ------------------------------------------------------------------------------------ *)
(* 2b. a block that is removed is not re-created: the level either still holds the entry     *)
(*     (h, t) as the only occupant of its slot, or holds no entry with text h               *)

Section BlockGone.
  Variable rmatch : string -> string -> option (list string).
  Variable rreverse : string -> list string -> string.
  Variable is_exit : string -> bool.

  Lemma tfind_In r f t : tfind r f = Some t -> In (r, t) f.
  Proof.
    induction f as [|[k v] f IH]; cbn [tfind]; [discriminate|].
    destruct (String.eqb_spec k r) as [E|E]; [intro H; injection H as H; subst; now left | intro H; right; exact (IH H)].
  Qed.

  Lemma tfind_None r f : tfind r f = None <-> forall t, ~ In (r, t) f.
  Proof.
    induction f as [|[k v] f IH]; cbn [tfind]; [split; [intros _ t [] | reflexivity]|].
    destruct (String.eqb_spec k r) as [E|E].
    - subst k. split; [discriminate | intro H; exfalso; apply (H v); now left].
    - rewrite IH. split.
      + intros H t [Hin|Hin]; [injection Hin as E1 E2; congruence | exact (H t Hin)].
      + intros H t Hin. apply (H t). now right.
  Qed.

  Lemma replace_slot_In rs s e' x : forall f, In x (replace_slot rmatch rs s e' f) -> x = e' \/ In x f.
  Proof.
    induction f as [|y f IH]; [intros []|]. cbn [replace_slot]. destruct (in_slot rmatch rs s y).
    - intros [H|H]; [left; symmetry; exact H | right; now right].
    - intros [H|H]; [right; now left|]. destruct (IH H) as [G|G]; [left; exact G | right; now right].
  Qed.

  Lemma remove_slot_In rs s x : forall f, In x (remove_slot rmatch rs s f) -> In x f.
  Proof.
    induction f as [|y f IH]; [intros []|]. cbn [remove_slot]. destruct (in_slot rmatch rs s y).
    - intro H. now right.
    - intros [H|H]; [now left | right; exact (IH H)].
  Qed.

  Lemma exec_direct_In rs c s crs x f : In x (exec_direct rmatch rs c s crs f) -> fst x = c \/ In x f.
  Proof.
    unfold exec_direct. destruct (find (in_slot rmatch rs s) f) as [e|].
    - destruct (String.eqb (fst e) c).
      + intro H. apply replace_slot_In in H as [H|H]; [left; subst x; reflexivity | right; exact H].
      + destruct (is_ordered s).
        * intro H. apply in_app_iff in H as [H|[H|[]]]; [right; eapply remove_slot_In; exact H | left; subst x; reflexivity].
        * intro H. apply replace_slot_In in H as [H|H]; [left; subst x; reflexivity | right; exact H].
    - intro H. apply in_app_iff in H as [H|[H|[]]]; [right; exact H | left; subst x; reflexivity].
  Qed.

  Lemma tfind_none_direct rs c s crs h f : c <> h -> tfind h f = None -> tfind h (exec_direct rmatch rs c s crs f) = None.
  Proof.
    intros Hne H. apply tfind_None. intros t Hin. apply exec_direct_In in Hin as [E|Hin]; [cbn in E; congruence|].
    rewrite tfind_None in H. exact (H t Hin).
  Qed.

  Lemma tfind_none_filter (q : string * tree -> bool) h f : tfind h f = None -> tfind h (filter q f) = None.
  Proof.
    intro H. apply tfind_None. intros t Hin. apply filter_In in Hin as [Hin _]. rewrite tfind_None in H. exact (H t Hin).
  Qed.

  Lemma in_slot_same rs s s' x : same_slot s' s = true -> in_slot rmatch rs s' x = in_slot rmatch rs s x.
  Proof.
    intro H. unfold in_slot. destruct (slot_of rmatch rs (fst x)) as [m|]; [|reflexivity].
    destruct (same_slot m s') eqn:E1, (same_slot m s) eqn:E2; try reflexivity.
    - rewrite (same_slot_trans _ _ _ E1 H) in E2. discriminate.
    - rewrite same_slot_sym in H. rewrite (same_slot_trans _ _ _ E2 H) in E1. discriminate.
  Qed.

  Lemma filter_comm {A} (p q : A -> bool) l : filter p (filter q l) = filter q (filter p l).
  Proof.
    induction l as [|x l IH]; [reflexivity|]. cbn [filter].
    destruct (q x) eqn:Eq, (p x) eqn:Ep; cbn [filter]; rewrite ?Eq, ?Ep, IH; reflexivity.
  Qed.

  Lemma filter_head_find {A} (p : A -> bool) e tl : forall l, filter p l = e :: tl -> find p l = Some e.
  Proof.
    induction l as [|x l IH]; [discriminate|]. cbn [filter find]. destruct (p x); [intro H; injection H as H _; subst; reflexivity | exact IH].
  Qed.

  Lemma find_ext' {A} (p q : A -> bool) l : (forall x, p x = q x) -> find p l = find q l.
  Proof. intro H. induction l as [|x l IH]; [reflexivity|]. cbn [find]. rewrite H, IH. reflexivity. Qed.

  (* replacing / removing the occupant of the slot, seen through the entries of the slot *)
  Lemma filter_replace_same rs s s' e' : (forall x, in_slot rmatch rs s' x = in_slot rmatch rs s x) -> in_slot rmatch rs s e' = true ->
    forall f, filter (in_slot rmatch rs s) (replace_slot rmatch rs s' e' f) =
              match filter (in_slot rmatch rs s) f with [] => [] | _ :: tl => e' :: tl end.
  Proof.
    intros Hx He'. induction f as [|y f IH]; [reflexivity|]. cbn [replace_slot filter]. rewrite Hx.
    destruct (in_slot rmatch rs s y) eqn:E; cbn [filter]; [rewrite He'; reflexivity | rewrite E; exact IH].
  Qed.

  Lemma filter_remove_same rs s s' : (forall x, in_slot rmatch rs s' x = in_slot rmatch rs s x) ->
    forall f, filter (in_slot rmatch rs s) (remove_slot rmatch rs s' f) = tl (filter (in_slot rmatch rs s) f).
  Proof.
    intros Hx. induction f as [|y f IH]; [reflexivity|]. cbn [remove_slot filter]. rewrite Hx.
    destruct (in_slot rmatch rs s y) eqn:E; cbn [filter tl]; [reflexivity | rewrite E; exact IH].
  Qed.

  Lemma filter_replace_other rs s s' e' : in_slot rmatch rs s' e' = true -> same_slot s' s = false ->
    forall f, filter (in_slot rmatch rs s) (replace_slot rmatch rs s' e' f) = filter (in_slot rmatch rs s) f.
  Proof.
    intros He' Hd.
    assert (Hx : forall x, in_slot rmatch rs s' x = true -> in_slot rmatch rs s x = false).
    { intros x H1. destruct (in_slot rmatch rs s x) eqn:H2; [|reflexivity]. rewrite (in_slot_both rmatch rs s s' x H2 H1) in Hd. discriminate. }
    induction f as [|y f IH]; [reflexivity|]. cbn [replace_slot].
    destruct (in_slot rmatch rs s' y) eqn:E; cbn [filter].
    - rewrite (Hx _ He'), (Hx _ E). reflexivity.
    - destruct (in_slot rmatch rs s y); [rewrite IH|]; [reflexivity | exact IH].
  Qed.

  Lemma filter_remove_other rs s s' : same_slot s' s = false ->
    forall f, filter (in_slot rmatch rs s) (remove_slot rmatch rs s' f) = filter (in_slot rmatch rs s) f.
  Proof.
    intros Hd.
    assert (Hx : forall x, in_slot rmatch rs s' x = true -> in_slot rmatch rs s x = false).
    { intros x H1. destruct (in_slot rmatch rs s x) eqn:H2; [|reflexivity]. rewrite (in_slot_both rmatch rs s s' x H2 H1) in Hd. discriminate. }
    induction f as [|y f IH]; [reflexivity|]. cbn [remove_slot].
    destruct (in_slot rmatch rs s' y) eqn:E; cbn [filter].
    - rewrite (Hx _ E). reflexivity.
    - destruct (in_slot rmatch rs s y); [rewrite IH|]; [reflexivity | exact IH].
  Qed.

  (* a direct command of another slot leaves the entries of slot s as they are *)
  Lemma direct_other rs c s' crs' s f : match_row rmatch c rs = Some (s', crs') -> same_slot s' s = false ->
    filter (in_slot rmatch rs s) (exec_direct rmatch rs c s' crs' f) = filter (in_slot rmatch rs s) f.
  Proof.
    intros Hm Hd.
    assert (Hnew : forall t0, in_slot rmatch rs s' (c, t0) = true) by (intro t0; apply (in_slot_own rmatch rs c s' crs' t0 Hm)).
    assert (Hnew2 : forall t0, in_slot rmatch rs s (c, t0) = false).
    { intro t0. destruct (in_slot rmatch rs s (c, t0)) eqn:H2; [|reflexivity]. rewrite (in_slot_both rmatch rs s s' _ H2 (Hnew t0)) in Hd. discriminate. }
    unfold exec_direct. destruct (find (in_slot rmatch rs s') f) as [x|].
    - destruct (String.eqb (fst x) c).
      + apply filter_replace_other; [apply Hnew | exact Hd].
      + destruct (is_ordered s').
        * rewrite filter_app. cbn [filter]. rewrite Hnew2, app_nil_r. apply filter_remove_other. exact Hd.
        * apply filter_replace_other; [apply Hnew | exact Hd].
    - rewrite filter_app. cbn [filter]. rewrite Hnew2, app_nil_r. reflexivity.
  Qed.

  (* a direct command of slot s with another text takes the place of (h, t) *)
  Lemma direct_same_gone rs c s' crs' s h t f :
    match_row rmatch c rs = Some (s', crs') -> same_slot s' s = true -> slot_of rmatch rs h = Some s -> c <> h ->
    filter (in_slot rmatch rs s) f = [(h, t)] ->
    tfind h (exec_direct rmatch rs c s' crs' f) = None.
  Proof.
    intros Hm Hss Hs Hne Hfil.
    assert (Hx : forall x, in_slot rmatch rs s' x = in_slot rmatch rs s x) by (intro x; apply in_slot_same; exact Hss).
    assert (Hnew : forall t0, in_slot rmatch rs s (c, t0) = true).
    { intro t0. rewrite <- Hx. apply (in_slot_own rmatch rs c s' crs' t0 Hm). }
    assert (Hh : forall t0, in_slot rmatch rs s (h, t0) = true).
    { intro t0. unfold in_slot. cbn [fst]. rewrite Hs. apply same_slot_refl. }
    apply tfind_None. intros t0 Hin.
    assert (Hin2 : In (h, t0) (filter (in_slot rmatch rs s) (exec_direct rmatch rs c s' crs' f))) by (apply filter_In; split; [exact Hin | apply Hh]).
    unfold exec_direct in Hin2. rewrite (find_ext' _ _ f Hx), (filter_head_find _ _ _ f Hfil) in Hin2. cbn [fst] in Hin2.
    assert (Ehc : String.eqb h c = false) by (apply String.eqb_neq; congruence). rewrite Ehc in Hin2.
    destruct (is_ordered s').
    - rewrite filter_app, (filter_remove_same rs s s' Hx), Hfil in Hin2. cbn [tl app filter] in Hin2. rewrite Hnew in Hin2.
      destruct Hin2 as [E|[]]. injection E as E1 E2. congruence.
    - rewrite (filter_replace_same rs s s' _ Hx (Hnew _)), Hfil in Hin2. destruct Hin2 as [E|[]]. injection E as E1 E2. congruence.
  Qed.

  Lemma navb_filter (p : string * tree -> bool) c G : (forall r t t', p (r, t) = p (r, t')) ->
    forall f, (forall t0, In (c, t0) f -> p (c, t0) = false) -> filter p (navb c G f) = filter p f.
  Proof.
    intros Htext. induction f as [|[r0 t0] f IH]; intros H; [reflexivity|]. cbn [navb].
    destruct (String.eqb_spec r0 c) as [E|E]; cbn [filter].
    - subst r0. rewrite (Htext c _ t0), (H t0 (or_introl eq_refl)). reflexivity.
    - destruct (p (r0, t0)); [f_equal|]; apply IH; intros t1 H1; apply H; now right.
  Qed.

  Lemma only_tfind rs s h t f : slot_of rmatch rs h = Some s -> filter (in_slot rmatch rs s) f = [(h, t)] -> tfind h f = Some t.
  Proof.
    intros Hs. induction f as [|[r0 t0] f IH]; [discriminate|]. cbn [filter tfind].
    destruct (in_slot rmatch rs s (r0, t0)) eqn:E.
    - intro H. injection H as E1 E2 E3. subst. rewrite String.eqb_refl. reflexivity.
    - intro H. destruct (String.eqb_spec r0 h) as [E2|E2]; [|exact (IH H)].
      subst r0. unfold in_slot in E. cbn [fst] in E. rewrite Hs, same_slot_refl in E. discriminate.
  Qed.
End BlockGone.

(* ------------------------------------------------------------------------------------ *)
(* 3. the command paths of the ACL-aware pipeline along a chain of ancestor blocks        *)

(* the shape of a command path of a patch tree, with what follows the header of a block *)
Lemma rpaths_shape2 f : forall t parent p, In p (rpaths f parent t) ->
  (exists c, p = [c] /\ ((exists child sk, In (c, child, sk) (pitems t)) \/ In c (family_exits f))) \/
  (exists c q ct sk, p = c :: q /\ q <> [] /\ In (c, Some ct, sk) (pitems t) /\
                     (In q (rpaths f c ct) \/ exists e, q = [e] /\ In e (family_exits f))).
Proof.
  intros [items] parent p H. rewrite rpaths_unfold in H. cbn [pitems].
  induction items as [|[[row child] sk] l IH]; [destruct H|]. cbn [rpaths_items] in H.
  destruct H as [H|H].
  - subst p. left. exists row. split; [reflexivity|]. left. exists child, sk. now left.
  - apply in_app_iff in H as [H|H].
    + destruct child as [ct|]; [|destruct H]. apply in_app_iff in H as [H|H].
      * right. apply in_map_iff in H as (q & Eq & Hq). subst p. exists row, q, ct, sk.
        apply in_app_iff in Hq as [Hq|Hq].
        -- split; [reflexivity|]. split; [eapply rpaths_nonempty; exact Hq|]. split; [now left | left; exact Hq].
        -- apply in_map_iff in Hq as (e & Ee & He). subst q. split; [reflexivity|]. split; [discriminate|].
           split; [now left|]. right. exists e. split; [reflexivity|]. eapply exit_words. apply exit_wrapped_in. exact He.
      * left. apply in_map_iff in H as (e & Ee & He). subst p. exists e. split; [reflexivity|]. right.
        eapply exit_words. apply exit_inline_in. exact He.
    + destruct (IH H) as [(c & E & [(ch & sk' & G)|G])|(c & q & ct & sk' & E & Hq & G & G2)].
      * left. exists c. split; [exact E|]. left. exists ch, sk'. now right.
      * left. exists c. split; [exact E|]. right. exact G.
      * right. exists c, q, ct, sk'. split; [exact E|]. split; [exact Hq|]. split; [now right | exact G2].
Qed.

Section DeepPaths.
  Variable amatch_ : string -> string -> option (list string).
  Variable asrc : string -> string.
  Variable arev : string -> string.
  Variable anorm : string -> string.
  Variable rmatch : string -> string -> option (list string).
  Variable rreverse : string -> list string -> string.
  Variable is_exit : string -> bool.
  Variable f : family.
  Hypothesis Hexit : forall e, In e (family_exits f) -> is_exit e = true.

  Notation dgood := (dgood amatch_ asrc arev anorm rmatch).
  Notation passes ars r := (acl_passes amatch_ asrc arev anorm ars r).
  Notation rev_of := (reverse_of rreverse).

  (* [dchain ars rs hs D R]: walking the ACL, the rulebook and the diff along the rows h1 .. hk:
     every hi is passed by the ACL and known to the rulebook; the diff level at its place neither
     removes nor replaces it (every entry of its slot is the row itself and is not REMOVED / MOVED);
     removal commands of that level are matched by no rule and are unambiguous with respect to its
     slot; R holds of the ACL rules, the rules and the diff level reached *)
  Fixpoint dchain (ars : aset) (rs : rset) (hs : list string) (D : list dnode)
           (R : aset -> rset -> list dnode -> Prop) : Prop :=
    match hs with
    | [] => R ars rs D
    | h :: hs' =>
      exists acrs s crs,
        passes ars h = Some acrs /\ match_row rmatch h rs = Some (s, crs) /\
        (forall n, In n D -> same_slot (d_mi n) s = true -> d_row n = h /\ is_rm (d_op n) = false) /\
        (forall n, In n D -> is_rm (d_op n) = true ->
                   match_row rmatch (rev_of (d_mi n)) rs = None /\
                   (rev_of (d_mi n) = rev_of s -> same_slot (d_mi n) s = true)) /\
        dchain acrs crs hs' (dsub h D) R
    end.

  Section Walk.
    Variable Q : rset -> list string -> Prop.
    Variable R : aset -> rset -> list dnode -> Prop.
    Hypothesis HQ : forall t D DW ars rs parent,
      R ars rs DW -> pt_rel2 rreverse t D -> Forall (dgood ars rs) D -> diff_regular D = true -> incl D DW ->
      forall p, In p (rpaths f parent t) -> Q rs p.
    Hypothesis HQexit : forall rs e, In e (family_exits f) -> Q rs [e].

    Theorem rpaths_pspares : forall t hs D DW ars rs parent,
      pt_rel2 rreverse t D -> Forall (dgood ars rs) D -> diff_regular D = true -> incl D DW ->
      dchain ars rs hs DW R ->
      forall p, In p (rpaths f parent t) -> pspares rmatch rreverse is_exit rs hs Q p.
    Proof.
      induction t as [items IH] using ptree_ind2. intros hs D DW ars rs parent Hrel HD Hreg Hinc Hch p Hp.
      destruct hs as [|h hs'].
      { cbn [pspares]. eapply HQ; eassumption. }
      destruct Hch as (acrs & s & crs & Hpass & Hm & Hstab & Hrev & Hsub).
      pose proof Hrel as Hrel'. apply pt_rel2_items in Hrel'. rewrite Forall_forall in Hrel'.
      pose proof HD as HD'. rewrite Forall_forall in HD'.
      pose proof (diff_regular_spec D Hreg) as Hspec.
      destruct (rpaths_shape2 f _ _ _ Hp) as [(c & E & [(child & sk & Hit)|Hx])|(c & q & ct & sk & E & Hq & Hit & Hqq)]; subst p.
      - cbn [pitems] in Hit. specialize (Hrel' _ Hit). cbn [pspares].
        destruct Hrel' as [(n & Hn & Er & _)|[(_ & n & n0 & Hn & Hn0 & Eraw & Erow & Hop)|(_ & _ & n0 & Hn0 & Efc)]].
        + destruct (dgood_facts _ _ _ _ _ _ _ _ (HD' n Hn)) as (m & acrs' & prs & _ & Em & _). rewrite Er in Em.
          destruct (same_slot (d_mi n) s) eqn:Ess.
          * left. destruct (Hstab n (Hinc n Hn) Ess) as [G _]. congruence.
          * right. right. left. exists (d_mi n), prs. split; [exact Em|]. intros s0 crs0 Hm0. rewrite Hm in Hm0.
            injection Hm0 as E1 E2. subst s0. exact Ess.
        + right. right. right.
          destruct (Hspec n Hn) as (_ & _ & Hattr). specialize (Hattr n0 Hn0 (eq_sym Eraw)).
          assert (Ec : c = rev_of (d_mi n)) by (unfold reverse_of; rewrite Hattr; exact Erow).
          assert (Hrm : is_rm (d_op n) = true) by (destruct Hop as [Hop|[Hop _]]; rewrite Hop; reflexivity).
          destruct (Hrev n (Hinc n Hn) Hrm) as [G1 G2]. rewrite Ec. split; [exact G1|].
          intros s0 crs0 Hm0. rewrite Hm in Hm0. injection Hm0 as E1 E2. subst s0. intro Eq.
          destruct (Hstab n (Hinc n Hn) (G2 (eq_sym Eq))) as [_ G]. congruence.
        + exfalso. destruct (Hspec n0 Hn0) as (_ & G & _). congruence.
      - cbn [pspares]. right. left. apply Hexit. exact Hx.
      - destruct q as [|c2 rest]; [congruence|]. cbn [pspares]. intros Ech s0 crs0 Hm0. subst c.
        rewrite Hm in Hm0. injection Hm0 as E1 E2. subst s0 crs0.
        cbn [pitems] in Hit. pose proof (Hrel' _ Hit) as Hir.
        assert (Hn : exists n, In n D /\ d_row n = h /\ pt_rel2 rreverse ct (d_kids n)).
        { destruct Hir as [(n & G1 & G2 & _ & _ & G3)|[(G & _)|(G & _)]]; [exists n; repeat split; assumption | discriminate | discriminate]. }
        destruct Hn as (n & Hn & Er & Hct).
        destruct (dgood_facts _ _ _ _ _ _ _ _ (HD' n Hn)) as (m & acrs' & prs & Ea & Em & _ & Hk & Ed). rewrite Er in Ea, Em.
        assert (Eacrs : acrs' = acrs).
        { unfold acl_passes in Hpass. change (P_C02.amatch amatch_ asrc arev anorm h ars) with (amatch amatch_ asrc arev anorm h ars) in Hpass.
          rewrite Ea, Ed in Hpass. injection Hpass as G. exact G. }
        rewrite Hm in Em. injection Em as E1 E2. subst acrs' prs.
        destruct Hqq as [Hqq|(e & Eq & He)].
        + rewrite Forall_forall in IH. specialize (IH _ Hit). unfold kidP in IH. cbn [fst snd] in IH.
          eapply (IH hs' (d_kids n) (dsub h DW)); [exact Hct | exact Hk | apply (Hspec n Hn) | | exact Hsub | exact Hqq].
          intros x Hx. unfold dsub. apply in_flat_map. exists n. split; [|exact Hx].
          apply filter_In. split; [apply Hinc; exact Hn | rewrite Er; apply String.eqb_refl].
        + injection Eq as E5 E6. subst c2 rest. destruct hs' as [|h' hs''].
          * cbn [pspares]. apply HQexit. exact He.
          * cbn [pspares]. right. left. apply Hexit. exact He.
    Qed.
  End Walk.
End DeepPaths.

(* ------------------------------------------------------------------------------------ *)
(* 4. (c) and (b) on the device for rows at every depth                                   *)

Section Deep.
  Variable amatch_ : string -> string -> option (list string).
  Variable asrc : string -> string.
  Variable arev : string -> string.
  Variable anorm : string -> string.
  Variable rmatch : string -> string -> option (list string).
  Variable rsrc : string -> string.
  Variable rrev : string -> string.
  Variable block_exit : string.
  Variable rreverse : string -> list string -> string.
  Variable is_exit : string -> bool.

  Notation pipeline := (acl_diff_and_patch amatch_ asrc arev anorm rmatch rsrc rrev block_exit rreverse).
  Notation filt ars f := (acl_filter amatch_ asrc arev anorm ars f).
  Notation full_diff ars rs old new := (acl_make_diff amatch_ asrc arev anorm rmatch ars rs (filt ars old) (filt ars new)).
  Notation passes ars r := (acl_passes amatch_ asrc arev anorm ars r).
  Notation dgood := (dgood amatch_ asrc arev anorm rmatch).
  Notation rev_of := (reverse_of rreverse).
  Notation xpath := (exec_path rmatch rreverse is_exit).
  Notation xexec := (exec rmatch rreverse is_exit).

  (* ---------------------------------------------------------------- (c) *)

  (* what (c) says of the block that holds the row: its slot s is occupied; with the two facts
     about the rules of the block that make "occupied" stable (entries of the slot share the removal
     command; none of them is the row of a %rewrite rule) *)
  Definition Pc (s : minfo) (rs : rset) (g : forest) : Prop :=
    occupied rmatch rs s g = true /\ slot_det rmatch rreverse rs s /\
    (forall row m, slot_of rmatch rs row = Some m -> same_slot m s = true -> is_rewrite m = false).

  (* the level of the diff at the place of the row r: r is governed by a cant_delete ACL rule, its
     patching rule is not %ordered, and its removal command is that of no other REMOVED / MOVED entry of
     the level *)
  Definition Rc (r : string) (s : minfo) (ars : aset) (rs : rset) (D : list dnode) : Prop :=
    slot_of rmatch rs r = Some s /\ acl_cant_delete amatch_ asrc arev anorm ars r = true /\
    a_logic (mi_attrs s) <> LOrdered /\
    (forall n, In n D -> is_rm (d_op n) = true -> rev_of (d_mi n) = rev_of s -> d_row n = r).

  Lemma Pc_enter s rs g : Pc s rs g -> Pc s rs (enter rmatch rs g).
  Proof.
    intros (Ho & Hd & Hn). split; [|split; assumption].
    unfold occupied in *. apply existsb_exists in Ho as (e & He & Hs). apply existsb_exists. exists e. split; [|exact Hs].
    unfold enter. apply filter_In. split; [exact He|].
    unfold in_slot in Hs. destruct (slot_of rmatch rs (fst e)) as [m|] eqn:Em; [|discriminate].
    rewrite (Hn _ _ Em Hs). reflexivity.
  Qed.

  Lemma Pc_paths f r s : (forall e, In e (family_exits f) -> is_exit e = true) ->
    forall t D DW ars rs parent,
      Rc r s ars rs DW -> pt_rel rreverse t D -> Forall (dgood ars rs) D -> diff_regular D = true -> incl D DW ->
      forall p, In p (rpaths f parent t) -> forall g, Pc s rs g -> Pc s rs (xpath rs p g).
  Proof.
    intros Hexit t D DW ars rs parent (Hs & Hcd & Hlog & Hone) Hrel HD Hreg Hinc p Hp g (Ho & Hd & Hn).
    split; [|split; assumption]. apply exec_path_occupied; [exact Hd | exact Ho|].
    intros c E Hne Hnm Heq. subst p.
    destruct (rpaths_single f t parent c Hp) as [(child & sk & Hit)|Hx]; [|rewrite (Hexit c Hx) in Hne; discriminate].
    destruct t as [items]. apply pt_rel_items in Hrel. cbn [pitems] in Hit.
    rewrite Forall_forall in Hrel. specialize (Hrel _ Hit). rewrite Forall_forall in HD.
    pose proof (diff_regular_spec D Hreg) as Hspec.
    destruct Hrel as [(n & Hn0 & Er & _)|[(_ & n & n0 & Hn0 & Hn1 & Eraw & Erow & Hop)|(_ & _ & n0 & Hn0 & Efc)]].
    - destruct (dgood_facts _ _ _ _ _ _ _ _ (HD n Hn0)) as (m & acrs & prs & _ & Em & _). rewrite Er in Em. congruence.
    - destruct (dgood_facts _ _ _ _ _ _ _ _ (HD n Hn0)) as (m & acrs & prs & Ea & Em & Hrm & _).
      destruct (Hspec n Hn0) as (_ & _ & Hattr). specialize (Hattr n0 Hn1 (eq_sym Eraw)).
      assert (Hslot : slot_of rmatch rs (d_row n) = Some (d_mi n)) by (unfold slot_of; rewrite Em; reflexivity).
      assert (Hrev : rev_of (d_mi n) = rev_of s).
      { unfold reverse_of at 1. rewrite Hattr. rewrite <- Erow. exact Heq. }
      assert (Hrm' : is_rm (d_op n) = true) by (destruct Hop as [Hop|[Hop _]]; rewrite Hop; reflexivity).
      pose proof (Hone n (Hinc n Hn0) Hrm' Hrev) as Err.
      rewrite Err in Hslot, Ea. rewrite Hs in Hslot. injection Hslot as Es.
      unfold acl_cant_delete in Hcd. change (P_C02.amatch amatch_ asrc arev anorm r ars) with (amatch amatch_ asrc arev anorm r ars) in Hcd.
      rewrite Ea in Hcd. apply andb_true_iff in Hcd as [_ Hcd].
      destruct Hop as [Hop|[_ Hop]].
      + rewrite (Hrm Hop) in Hcd. discriminate.
      + apply Hlog. rewrite Es, Hattr. exact Hop.
    - destruct (Hspec n0 Hn0) as (_ & G & _). congruence.
  Qed.

  Lemma Pc_exit s rs e : is_exit e = true -> forall g, Pc s rs g -> Pc s rs (xpath rs [e] g).
  Proof. intros He g H. cbn [exec_path]. unfold exec_cmd. rewrite He. exact H. Qed.

  (* (c) at every depth.  The device holds old.  Along a chain h1 .. hk of blocks of old - each
     occupying its slot, each passed by the ACL, none of them removed or replaced by the diff - the slot
     s of a row governed by a cant_delete ACL rule, inside the block reached, is still occupied after
     the whole command stream of the patch, and the chain of blocks is still there. *)
  Theorem cant_delete_kept_deep f ars rs ordering old new p hs r s :
    is_block_family f = true ->
    (forall e, In e (family_exits f) -> is_exit e = true) ->
    diff_regular (full_diff ars rs old new) = true ->
    snd (pipeline ars rs ordering old new) = POk p ->
    chain rmatch rs hs (Pc s) old ->
    dchain amatch_ asrc arev anorm rmatch rreverse ars rs hs (full_diff ars rs old new) (Rc r s) ->
    chain rmatch rs hs (Pc s) (xexec rs (cmd_paths f p) old).
  Proof.
    intros Hf Hexit Hreg Hp Hch Hd.
    apply exec_chain; [apply Pc_enter | exact Hch|]. intros q Hq.
    apply (cmd_paths_rpaths f p q Hf) in Hq.
    unfold acl_diff_and_patch in Hp. cbn [snd] in Hp.
    set (D := full_diff ars rs old new) in *.
    pose proof (make_patch_rel2 rmatch rsrc rrev block_exit rreverse D ordering p Hp) as Hrel.
    pose proof (acl_make_diff_good amatch_ asrc arev anorm rmatch ars rs old new) as HD. fold D in HD.
    eapply (rpaths_pspares amatch_ asrc arev anorm rmatch rreverse is_exit f Hexit
              (fun rs' q' => forall g, Pc s rs' g -> Pc s rs' (xpath rs' q' g)) (Rc r s));
      [ | | exact Hrel | exact HD | exact Hreg | apply incl_refl | exact Hd | exact Hq].
    - intros t0 D0 DW0 ars0 rs0 parent0 HR Hrel0 HD0 Hreg0 Hinc0 p0 Hp0. apply pt_rel2_rel in Hrel0. eapply Pc_paths; eassumption.
    - intros rs0 e He. apply Pc_exit. apply Hexit. exact He.
  Qed.

  (* ---------------------------------------------------------------- (b) *)

  (* (u, t) is the first entry with text u (what tfind of Spec/P_C02 sees), and u is not the row of a
     %rewrite rule *)
  Definition Pb (u : string) (t : tree) (rs : rset) (g : forest) : Prop :=
    tfind u g = Some t /\ match slot_of rmatch rs u with Some m => is_rewrite m = false | None => True end.

  (* the level of the diff at the place of the entry (u, t): the ACL does not pass u (or no rule knows u), no entry of the
     level is in the slot of u (the ACL does not split the slot), and the removal command of an entry
     does not hit u (nor, should a rule match it, overwrite the slot of u) *)
  Definition Rb (u : string) (t : tree) (ars : aset) (rs : rset) (D : list dnode) : Prop :=
    (passes ars u = None \/ match_row rmatch u rs = None) /\
    (forall n, In n D -> in_slot rmatch rs (d_mi n) (u, t) = false) /\
    (forall n, In n D -> is_rm (d_op n) = true ->
               match match_row rmatch (rev_of (d_mi n)) rs with
               | Some (s', _) => in_slot rmatch rs s' (u, t) = false
               | None => reverse_hits rmatch rreverse rs (rev_of (d_mi n)) (u, t) = false
               end).

  Lemma Pb_enter u t rs g : Pb u t rs g -> Pb u t rs (enter rmatch rs g).
  Proof.
    intros (Hin & Hn). split; [|exact Hn]. unfold enter. rewrite tfind_filter; [exact Hin|]. intro t'. cbn [fst].
    destruct (slot_of rmatch rs u) as [m|]; [rewrite Hn|]; reflexivity.
  Qed.

  Lemma Pb_paths f u t : (forall e, In e (family_exits f) -> is_exit e = true) ->
    forall pt D DW ars rs parent,
      Rb u t ars rs DW -> pt_rel rreverse pt D -> Forall (dgood ars rs) D -> diff_regular D = true -> incl D DW ->
      forall p, In p (rpaths f parent pt) -> forall g, Pb u t rs g -> Pb u t rs (xpath rs p g).
  Proof.
    intros Hexit pt D DW ars rs parent (Hnp & Hslot & Hrev) Hrel HD Hreg Hinc q Hq g (Hin & Hn).
    split; [|exact Hn]. apply exec_path_keeps_tfind; [|exact Hin].
    destruct pt as [items]. apply pt_rel_items in Hrel. rewrite Forall_forall in Hrel. rewrite Forall_forall in HD.
    pose proof (diff_regular_spec D Hreg) as Hspec.
    destruct (rpaths_shape f _ _ _ Hq) as [(c & E & [(child & sk & Hit)|Hx])|(c & c2 & rest & ct & sk & E & Hit)]; subst q.
    - cbn [pitems] in Hit. specialize (Hrel _ Hit). cbn [spares].
      destruct Hrel as [(n & Hn0 & Er & _)|[(_ & n & n0 & Hn0 & Hn1 & Eraw & Erow & Hop)|(_ & _ & n0 & Hn0 & Efc)]].
      + right. left. destruct (dgood_facts _ _ _ _ _ _ _ _ (HD n Hn0)) as (m & acrs & prs & _ & Em & _).
        rewrite Er in Em. exists (d_mi n), prs. split; [exact Em|]. apply Hslot. apply Hinc. exact Hn0.
      + right.
        destruct (Hspec n Hn0) as (_ & _ & Hattr). specialize (Hattr n0 Hn1 (eq_sym Eraw)).
        assert (Ec : c = rev_of (d_mi n)) by (unfold reverse_of; rewrite Hattr; exact Erow).
        assert (Hrm : is_rm (d_op n) = true) by (destruct Hop as [Hop|[Hop _]]; rewrite Hop; reflexivity).
        rewrite Ec. pose proof (Hrev n (Hinc n Hn0) Hrm) as G.
        destruct (match_row rmatch (rev_of (d_mi n)) rs) as [[s' crs']|] eqn:Emr.
        * left. exists s', crs'. split; [reflexivity | exact G].
        * right. split; [reflexivity | exact G].
      + exfalso. destruct (Hspec n0 Hn0) as (_ & G & _). congruence.
    - cbn [spares]. left. apply Hexit. exact Hx.
    - cbn [pitems] in Hit. specialize (Hrel _ Hit). cbn [spares fst].
      destruct Hrel as [(n & Hn0 & Er & _)|[(G & _)|(G & _)]]; try discriminate.
      destruct (dgood_facts _ _ _ _ _ _ _ _ (HD n Hn0)) as (m & acrs & prs & Ea & Em & _ & _ & Ed).
      intro E. rewrite E in Er. rewrite Er in Ea, Em. destruct Hnp as [Hnp|Hnp]; [|congruence]. unfold acl_passes in Hnp.
      change (P_C02.amatch amatch_ asrc arev anorm u ars) with (amatch amatch_ asrc arev anorm u ars) in Hnp.
      rewrite Ea, Ed in Hnp. discriminate.
  Qed.

  Lemma Pb_exit u t rs e : is_exit e = true -> forall g, Pb u t rs g -> Pb u t rs (xpath rs [e] g).
  Proof. intros He g H. cbn [exec_path]. unfold exec_cmd. rewrite He. exact H. Qed.

  (* (b) at every depth.  Along a chain h1 .. hk of blocks of old - each occupying its slot, each
     passed by the ACL, none of them removed or replaced by the diff - an entry (u, t) of the block
     reached that the ACL does not pass is still there, with exactly the same subtree, after the whole
     command stream of the patch (and so is the chain of blocks). *)
  Theorem uncovered_untouched_deep f ars rs ordering old new p hs u t :
    is_block_family f = true ->
    (forall e, In e (family_exits f) -> is_exit e = true) ->
    diff_regular (full_diff ars rs old new) = true ->
    snd (pipeline ars rs ordering old new) = POk p ->
    chain rmatch rs hs (Pb u t) old ->
    dchain amatch_ asrc arev anorm rmatch rreverse ars rs hs (full_diff ars rs old new) (Rb u t) ->
    chain rmatch rs hs (Pb u t) (xexec rs (cmd_paths f p) old).
  Proof.
    intros Hf Hexit Hreg Hp Hch Hd.
    apply exec_chain; [apply Pb_enter | exact Hch|]. intros q Hq.
    apply (cmd_paths_rpaths f p q Hf) in Hq.
    unfold acl_diff_and_patch in Hp. cbn [snd] in Hp.
    set (D := full_diff ars rs old new) in *.
    pose proof (make_patch_rel2 rmatch rsrc rrev block_exit rreverse D ordering p Hp) as Hrel.
    pose proof (acl_make_diff_good amatch_ asrc arev anorm rmatch ars rs old new) as HD. fold D in HD.
    eapply (rpaths_pspares amatch_ asrc arev anorm rmatch rreverse is_exit f Hexit
              (fun rs' q' => forall g, Pb u t rs' g -> Pb u t rs' (xpath rs' q' g)) (Rb u t));
      [ | | exact Hrel | exact HD | exact Hreg | apply incl_refl | exact Hd | exact Hq].
    - intros t0 D0 DW0 ars0 rs0 parent0 HR Hrel0 HD0 Hreg0 Hinc0 p0 Hp0. apply pt_rel2_rel in Hrel0. eapply Pb_paths; eassumption.
    - intros rs0 e He. apply Pb_exit. apply Hexit. exact He.
  Qed.
  (* ---------------------------------------------------------------- a block the diff removes *)

  (* the block (h, t) of slot s is either still there, untouched and alone in its slot, or there is no
     entry with text h at all: a removed block is not re-created *)
  Definition PR (h : string) (t : tree) (s : minfo) (rs : rset) (g : forest) : Prop :=
    (slot_of rmatch rs h = Some s /\ is_rewrite s = false) /\
    (filter (in_slot rmatch rs s) g = [(h, t)] \/ tfind h g = None).

  (* the level of the diff at the place of the block: every entry with row h is REMOVED, the rule of h
     is not `permanent`, and removal commands of the level are matched by no rule *)
  Definition RR (h : string) (s : minfo) (ars : aset) (rs : rset) (D : list dnode) : Prop :=
    a_logic (mi_attrs s) <> LPermanent /\
    (forall n, In n D -> d_row n = h -> d_op n = Removed) /\
    (forall n, In n D -> is_rm (d_op n) = true -> match_row rmatch (rev_of (d_mi n)) rs = None).

  Lemma PR_enter h t s rs g : PR h t s rs g -> PR h t s rs (enter rmatch rs g).
  Proof.
    intros ((Hs & Hrw) & Hd). split; [split; assumption|]. unfold enter. destruct Hd as [Hd|Hd].
    - left. rewrite filter_comm, Hd. cbn [filter fst]. rewrite Hs, Hrw. reflexivity.
    - right. apply tfind_none_filter. exact Hd.
  Qed.

  Lemma PR_paths f h t s : (forall e, In e (family_exits f) -> is_exit e = true) ->
    forall pt D DW ars rs parent,
      RR h s ars rs DW -> pt_rel2 rreverse pt D -> Forall (dgood ars rs) D -> diff_regular D = true -> incl D DW ->
      forall p, In p (rpaths f parent pt) -> forall g, PR h t s rs g -> PR h t s rs (xpath rs p g).
  Proof.
    intros Hexit pt D DW ars rs parent (Hlog & Hrem & Hunm) Hrel HD Hreg Hinc q Hq g ((Hs & Hrw) & Hd).
    split; [split; assumption|].
    destruct pt as [items]. apply pt_rel2_items in Hrel. rewrite Forall_forall in Hrel. rewrite Forall_forall in HD.
    pose proof (diff_regular_spec D Hreg) as Hspec.
    (* a direct item never has the text h *)
    assert (Hdir : forall n, In n D -> d_op n <> Unchanged -> (d_op n = Removed -> perm_group D n) -> d_row n <> h).
    { intros n Hn Hnu Hpg E.
      destruct (dgood_facts _ _ _ _ _ _ _ _ (HD n Hn)) as (m & acrs & prs & _ & Em & _).
      destruct (Hpg (Hrem n (Hinc n Hn) E)) as (n0 & Hn0 & Eraw & Elog).
      destruct (Hspec n Hn) as (_ & _ & Hattr). pose proof (Hattr n0 Hn0 (eq_sym Eraw)) as Ea.
      rewrite E in Em. pose proof Hs as Hs'. unfold slot_of in Hs'. rewrite Em in Hs'. cbn in Hs'. injection Hs' as Hs'.
      apply Hlog. rewrite <- Hs', Ea. exact Elog. }
    assert (Hh : forall t0, in_slot rmatch rs s (h, t0) = true).
    { intro t0. unfold in_slot. cbn [fst]. rewrite Hs. apply same_slot_refl. }
    destruct (rpaths_shape f _ _ _ Hq) as [(c & E & [(child & sk & Hit)|Hx])|(c & c2 & rest & ct & sk & E & Hit)]; subst q.
    - cbn [pitems] in Hit. specialize (Hrel _ Hit). cbn [exec_path]. unfold exec_cmd.
      destruct (is_exit c) eqn:Ee; [exact Hd|].
      destruct Hrel as [(n & Hn0 & Er & Hnu & Hpg & _)|[(_ & n & n0 & Hn0 & Hn1 & Eraw & Erow & Hop)|(_ & _ & n0 & Hn0 & Efc)]].
      + destruct (dgood_facts _ _ _ _ _ _ _ _ (HD n Hn0)) as (m & acrs & prs & _ & Em & _). rewrite Er in Em. rewrite Em.
        assert (Hne : c <> h) by (rewrite <- Er; apply Hdir; assumption).
        destruct Hd as [Hd|Hd].
        * destruct (same_slot (d_mi n) s) eqn:Ess.
          -- right. eapply direct_same_gone; eassumption.
          -- left. rewrite (direct_other rmatch rs c (d_mi n) prs s g Em Ess). exact Hd.
        * right. apply tfind_none_direct; assumption.
      + destruct (Hspec n Hn0) as (_ & _ & Hattr). specialize (Hattr n0 Hn1 (eq_sym Eraw)).
        assert (Ec : c = rev_of (d_mi n)) by (unfold reverse_of; rewrite Hattr; exact Erow).
        assert (Hrm : is_rm (d_op n) = true) by (destruct Hop as [Hop|[Hop _]]; rewrite Hop; reflexivity).
        rewrite Ec, (Hunm n (Hinc n Hn0) Hrm). destruct Hd as [Hd|Hd].
        * rewrite filter_comm, Hd. cbn [filter].
          destruct (negb (reverse_hits rmatch rreverse rs (rev_of (d_mi n)) (h, t))) eqn:Eq; [left; reflexivity|].
          right. apply tfind_None. intros t0 Hin.
          assert (Hin2 : In (h, t0) (filter (in_slot rmatch rs s)
                                       (filter (fun e => negb (reverse_hits rmatch rreverse rs (rev_of (d_mi n)) e)) g)))
            by (apply filter_In; split; [exact Hin | apply Hh]).
          rewrite filter_comm, Hd in Hin2. cbn [filter] in Hin2. rewrite Eq in Hin2. destruct Hin2.
        * right. apply tfind_none_filter. exact Hd.
      + exfalso. destruct (Hspec n0 Hn0) as (_ & G & _). congruence.
    - cbn [exec_path]. unfold exec_cmd. rewrite (Hexit c Hx). exact Hd.
    - cbn [pitems] in Hit. specialize (Hrel _ Hit).
      destruct Hrel as [(n & Hn0 & Er & Hnu & Hpg & _)|[(G & _)|(G & _)]]; try discriminate.
      assert (Hne : c <> h) by (rewrite <- Er; apply Hdir; assumption).
      rewrite exec_path_cons2. destruct (match_row rmatch c rs) as [[m0 crs0]|]; [|exact Hd].
      destruct Hd as [Hd|Hd].
      + left. rewrite navb_filter; [exact Hd | intros r0 t1 t2; reflexivity|].
        intros t0 Hin. destruct (in_slot rmatch rs s (c, t0)) eqn:Es; [|reflexivity].
        assert (Hin2 : In (c, t0) (filter (in_slot rmatch rs s) g)) by (apply filter_In; split; assumption).
        rewrite Hd in Hin2. destruct Hin2 as [E|[]]. injection E as E1 E2. congruence.
      + right. rewrite navb_tfind_other; [exact Hd | congruence].
  Qed.

  Lemma PR_exit h t s rs e : is_exit e = true -> forall g, PR h t s rs g -> PR h t s rs (xpath rs [e] g).
  Proof. intros He g H. cbn [exec_path]. unfold exec_cmd. rewrite He. exact H. Qed.

  (* Along a chain of blocks that the diff neither removes nor replaces, a block (h, t) of old all of
     whose entries in the diff are REMOVED (and whose rule is not `permanent`) is, after the whole command
     stream, either untouched or gone: it is never re-created, never entered. *)
  Theorem removed_block_deep f ars rs ordering old new p hs h t s :
    is_block_family f = true ->
    (forall e, In e (family_exits f) -> is_exit e = true) ->
    diff_regular (full_diff ars rs old new) = true ->
    snd (pipeline ars rs ordering old new) = POk p ->
    chain rmatch rs hs (PR h t s) old ->
    dchain amatch_ asrc arev anorm rmatch rreverse ars rs hs (full_diff ars rs old new) (RR h s) ->
    chain rmatch rs hs (PR h t s) (xexec rs (cmd_paths f p) old).
  Proof.
    intros Hf Hexit Hreg Hp Hch Hd.
    apply exec_chain; [apply PR_enter | exact Hch|]. intros q Hq.
    apply (cmd_paths_rpaths f p q Hf) in Hq.
    unfold acl_diff_and_patch in Hp. cbn [snd] in Hp.
    set (D := full_diff ars rs old new) in *.
    pose proof (make_patch_rel2 rmatch rsrc rrev block_exit rreverse D ordering p Hp) as Hrel.
    pose proof (acl_make_diff_good amatch_ asrc arev anorm rmatch ars rs old new) as HD. fold D in HD.
    eapply (rpaths_pspares amatch_ asrc arev anorm rmatch rreverse is_exit f Hexit
              (fun rs' q' => forall g, PR h t s rs' g -> PR h t s rs' (xpath rs' q' g)) (RR h s));
      [ | | exact Hrel | exact HD | exact Hreg | apply incl_refl | exact Hd | exact Hq].
    - intros t0 D0 DW0 ars0 rs0 parent0 HR Hrel0 HD0 Hreg0 Hinc0 p0 Hp0. eapply PR_paths; eassumption.
    - intros rs0 e He. apply PR_exit. apply Hexit. exact He.
  Qed.
  (* ---------------------------------------------------------------- the chain itself *)
  (* a chain of blocks that the diff neither removes nor replaces is still there after the patch *)
  Theorem chain_survives f ars rs ordering old new p hs :
    is_block_family f = true ->
    (forall e, In e (family_exits f) -> is_exit e = true) ->
    diff_regular (full_diff ars rs old new) = true ->
    snd (pipeline ars rs ordering old new) = POk p ->
    chain rmatch rs hs (fun _ _ => True) old ->
    dchain amatch_ asrc arev anorm rmatch rreverse ars rs hs (full_diff ars rs old new) (fun _ _ _ => True) ->
    chain rmatch rs hs (fun _ _ => True) (xexec rs (cmd_paths f p) old).
  Proof.
    intros Hf Hexit Hreg Hp Hch Hd.
    apply exec_chain; [intros; exact I | exact Hch|]. intros q Hq.
    apply (cmd_paths_rpaths f p q Hf) in Hq.
    unfold acl_diff_and_patch in Hp. cbn [snd] in Hp.
    set (D := full_diff ars rs old new) in *.
    pose proof (make_patch_rel2 rmatch rsrc rrev block_exit rreverse D ordering p Hp) as Hrel.
    pose proof (acl_make_diff_good amatch_ asrc arev anorm rmatch ars rs old new) as HD. fold D in HD.
    eapply (rpaths_pspares amatch_ asrc arev anorm rmatch rreverse is_exit f Hexit
              (fun rs' q' => forall g : forest, True -> True) (fun _ _ _ => True));
      [ | | exact Hrel | exact HD | exact Hreg | apply incl_refl | exact Hd | exact Hq].
    - intros; exact I.
    - intros; exact I.
  Qed.
End Deep.

(* ------------------------------------------------------------------------------------ *)
(* 5. from rows to the clauses of Spec/P_C02.v                                            *)

Lemma forest_eqb_refl f : forest_eqb f f = true.
Proof. unfold forest_eqb. apply tree_eqb_eq. reflexivity. Qed.

Lemma descend_snoc : forall hs f g r t, descend hs f = Some g -> tfind r g = Some t -> descend (hs ++ [r]) f = Some (kids t).
Proof.
  induction hs as [|h hs IH]; intros f g r t H Ht; cbn [descend app] in *.
  - injection H as H. subst g. rewrite Ht. reflexivity.
  - destruct (tfind h f) as [t0|]; [|discriminate]. eapply IH; eassumption.
Qed.

Lemma descend_snoc_inv : forall hs f g fL r, descend (hs ++ [r]) f = Some g -> descend hs f = Some fL -> tfind r fL <> None.
Proof.
  induction hs as [|h hs IH]; intros f g fL r H HL; cbn [descend app] in *.
  - injection HL as HL. subst fL. destruct (tfind r f); discriminate.
  - destruct (tfind h f) as [t0|]; [|discriminate]. eapply IH; eassumption.
Qed.

Section ChainTools.
  Variable rmatch : string -> string -> option (list string).

  Lemma chain_mono (P P' : rset -> forest -> Prop) : (forall rs g, P rs g -> P' rs g) ->
    forall hs rs f, chain rmatch rs hs P f -> chain rmatch rs hs P' f.
  Proof.
    intros HP. induction hs as [|h hs IH]; intros rs f H; [apply HP; exact H|].
    destruct H as (s & crs & t & H1 & H2 & H3 & H4). exists s, crs, t. repeat split; try assumption. apply IH. exact H4.
  Qed.

  Lemma chain_snoc rs lvl r s crs t : match_row rmatch r rs = Some (s, crs) -> is_rewrite s = false ->
    find (in_slot rmatch rs s) lvl = Some (r, t) ->
    forall hs rs0 f, chain rmatch rs0 hs (fun rs' g => rs' = rs /\ g = lvl) f ->
                     chain rmatch rs0 (hs ++ [r]) (fun rs' g => rs' = crs /\ g = kids t) f.
  Proof.
    intros Hm Hrw Hf. induction hs as [|h hs IH]; intros rs0 f H.
    - destruct H as [E1 E2]. subst rs0 f. cbn [app chain]. exists s, crs, t. repeat split; assumption.
    - destruct H as (s1 & crs1 & t1 & H1 & H2 & H3 & H4). cbn [app chain]. exists s1, crs1, t1. repeat split; try assumption.
      apply IH. exact H4.
  Qed.

  Lemma chain_end rs lvl : forall hs rs0 f, chain rmatch rs0 hs (fun rs' g => rs' = rs /\ g = lvl) f ->
    rwalk rmatch rs0 hs = Some rs /\ descend hs f = Some lvl.
  Proof.
    intros hs rs0 f H. destruct (chain_descend rmatch _ hs rs0 f H) as (rs' & g & H1 & H2 & E1 & E2). subst. split; assumption.
  Qed.
End ChainTools.

Section DchainTools.
  Variable amatch_ : string -> string -> option (list string).
  Variable asrc : string -> string.
  Variable arev : string -> string.
  Variable anorm : string -> string.
  Variable rmatch : string -> string -> option (list string).
  Variable rreverse : string -> list string -> string.
  Notation dchain := (dchain amatch_ asrc arev anorm rmatch rreverse).
  Notation rev_of := (reverse_of rreverse).

  Lemma dchain_mono (R R' : aset -> rset -> list dnode -> Prop) : (forall a r d, R a r d -> R' a r d) ->
    forall hs ars rs D, dchain ars rs hs D R -> dchain ars rs hs D R'.
  Proof.
    intros HR. induction hs as [|h hs IH]; intros ars rs D H; [apply HR; exact H|].
    destruct H as (acrs & s & crs & H1 & H2 & H3 & H4 & H5). exists acrs, s, crs. repeat split; try assumption.
    - apply H3; assumption.
    - apply H3; assumption.
    - apply H4; assumption.
    - apply H4; assumption.
    - apply IH. exact H5.
  Qed.

  Lemma dchain_snoc ars rs D r acrs s crs :
    acl_passes amatch_ asrc arev anorm ars r = Some acrs -> match_row rmatch r rs = Some (s, crs) ->
    (forall n, In n D -> same_slot (d_mi n) s = true -> d_row n = r /\ is_rm (d_op n) = false) ->
    (forall n, In n D -> is_rm (d_op n) = true ->
               match_row rmatch (rev_of (d_mi n)) rs = None /\ (rev_of (d_mi n) = rev_of s -> same_slot (d_mi n) s = true)) ->
    forall hs ars0 rs0 D0, dchain ars0 rs0 hs D0 (fun a r' d => a = ars /\ r' = rs /\ d = D) ->
                           dchain ars0 rs0 (hs ++ [r]) D0 (fun a r' d => a = acrs /\ r' = crs /\ d = dsub r D).
  Proof.
    intros Hp Hm Hst Hrv. induction hs as [|h hs IH]; intros ars0 rs0 D0 H.
    - destruct H as (E1 & E2 & E3). subst ars0 rs0 D0. cbn [app]. exists acrs, s, crs. repeat split; try assumption.
      + apply Hst; assumption.
      + apply Hst; assumption.
      + apply Hrv; assumption.
      + apply Hrv; assumption.
    - destruct H as (acrs1 & s1 & crs1 & H1 & H2 & H3 & H4 & H5). cbn [app]. exists acrs1, s1, crs1. repeat split; try assumption.
      + apply H3; assumption.
      + apply H3; assumption.
      + apply H4; assumption.
      + apply H4; assumption.
      + apply IH. exact H5.
  Qed.
End DchainTools.

(* the rules of a level carry one set of attributes per rule text: entries of one slot share the
   rule attributes *)
Lemma slot_attrs_of_rules_det rmatch rs r s : rules_det rs = true -> slot_of rmatch rs r = Some s ->
  forall row m, slot_of rmatch rs row = Some m -> same_slot m s = true -> mi_attrs m = mi_attrs s.
Proof.
  intros Hd Hs row m Hm Hss. unfold slot_of in Hs, Hm.
  destruct (match_row rmatch r rs) as [[s0 crs]|] eqn:E1; [|discriminate]. cbn in Hs. injection Hs as Hs. subst s0.
  destruct (match_row rmatch row rs) as [[m0 crs']|] eqn:E2; [|discriminate]. cbn in Hm. injection Hm as Hm. subst m0.
  destruct (match_row_rule _ _ _ _ _ E1) as (f & Hf & Rf & Af). destruct (match_row_rule _ _ _ _ _ E2) as (g & Hg & Rg & Ag).
  apply same_slot_eq in Hss as [Hraw Hkey].
  unfold rules_det in Hd. cbv zeta in Hd. rewrite forallb_forall in Hd. specialize (Hd g Hg).
  rewrite forallb_forall in Hd. specialize (Hd f Hf).
  assert (Eraw : r_raw g = r_raw f) by congruence. rewrite Eraw, String.eqb_refl in Hd. cbn [negb orb] in Hd.
  apply attrs_eqb_eq in Hd. congruence.
Qed.

(* ------------------------------------------------------------------------------------ *)
(* 6. the hypotheses in computable form, for every row of old at once                     *)

Section Guards.
  Variable amatch_ : string -> string -> option (list string).
  Variable asrc : string -> string.
  Variable arev : string -> string.
  Variable anorm : string -> string.
  Variable rmatch : string -> string -> option (list string).
  Variable rreverse : string -> list string -> string.

  Notation passes ars r := (acl_passes amatch_ asrc arev anorm ars r).
  Notation cant_delete ars r := (acl_cant_delete amatch_ asrc arev anorm ars r).
  Notation rev_of := (reverse_of rreverse).

  (* the diff level neither removes nor replaces the row h of slot s *)
  Definition stable_b (s : minfo) (h : string) (D : list dnode) : bool :=
    forallb (fun n => negb (same_slot (d_mi n) s) || (String.eqb (d_row n) h && negb (is_rm (d_op n)))) D.
  (* removal commands of the level are matched by no rule and unambiguous with respect to slot s *)
  Definition rev_ok_b (rs : rset) (s : minfo) (D : list dnode) : bool :=
    forallb (fun n => negb (is_rm (d_op n)) ||
                      (is_none (match_row rmatch (rev_of (d_mi n)) rs) &&
                       (negb (String.eqb (rev_of (d_mi n)) (rev_of s)) || same_slot (d_mi n) s))) D.
  (* (h, t) is the entry of the level that occupies slot s *)
  Definition first_b (rs : rset) (s : minfo) (h : string) (t : tree) (lvl : forest) : bool :=
    match find (in_slot rmatch rs s) lvl with
    | Some e => String.eqb (fst e) h && tree_eqb (snd e) t
    | None => false
    end.
  (* the removal command of slot s is that of no other REMOVED / MOVED entry of the level *)
  Definition rev_only_b (s : minfo) (r : string) (D : list dnode) : bool :=
    forallb (fun n => negb (is_rm (d_op n)) || negb (String.eqb (rev_of (d_mi n)) (rev_of s)) || String.eqb (d_row n) r) D.
  (* a block of old whose children matter can be followed: it occupies its slot, is not the row of a
     %rewrite rule, and the diff neither removes nor replaces it *)
  Definition follow_b (rs : rset) (lvl : forest) (r : string) (t : tree) (s : minfo) (D : list dnode) : bool :=
    first_b rs s r t lvl && negb (is_rewrite s) && stable_b s r D && rev_ok_b rs s D.

  (* (h, t) is the only entry of the level in slot s *)
  Definition only_b (rs : rset) (s : minfo) (h : string) (t : tree) (lvl : forest) : bool :=
    match filter (in_slot rmatch rs s) lvl with
    | [e] => String.eqb (fst e) h && tree_eqb (snd e) t
    | _ => false
    end.
  (* a block of old that the diff removes: every entry of the diff level with its row is REMOVED, its rule
     is neither %rewrite nor `permanent`, removal commands of the level are matched by no rule *)
  Definition removed_b (rs : rset) (lvl : forest) (h : string) (t : tree) (s : minfo) (D : list dnode) : bool :=
    only_b rs s h t lvl && negb (is_rewrite s) && negb (logic_eqb (a_logic (mi_attrs s)) LPermanent) &&
    forallb (fun n => negb (String.eqb (d_row n) h) || op_eqb (d_op n) Removed) D &&
    forallb (fun n => negb (is_rm (d_op n)) || is_none (match_row rmatch (rev_of (d_mi n)) rs)) D.

  Lemma removed_b_spec (ars : aset) rs lvl h t s D : slot_of rmatch rs h = Some s -> removed_b rs lvl h t s D = true ->
    PR rmatch h t s rs lvl /\ RR rmatch rreverse h s ars rs D.
  Proof.
    intros Hs. unfold removed_b. rewrite !andb_true_iff. intros [[[[H1 H2] H3] H4] H5].
    apply negb_true_iff in H2. rewrite forallb_forall in H4, H5. split.
    - split; [split; assumption|]. left. unfold only_b in H1.
      destruct (filter (in_slot rmatch rs s) lvl) as [|[r0 t0] [|e2 l]]; try discriminate. cbn [fst snd] in H1.
      apply andb_true_iff in H1 as [G1 G2]. apply String.eqb_eq in G1. apply tree_eqb_eq in G2. subst. reflexivity.
    - split; [|split].
      + intro E. rewrite E in H3. discriminate.
      + intros n Hn E. specialize (H4 n Hn). rewrite E, String.eqb_refl in H4. cbn [negb orb] in H4. apply op_eqb_eq. exact H4.
      + intros n Hn Hr. specialize (H5 n Hn). rewrite Hr in H5. cbn [negb orb] in H5.
        destruct (match_row rmatch (rev_of (d_mi n)) rs); [discriminate | reflexivity].
  Qed.

  Lemma stable_b_spec s h D : stable_b s h D = true ->
    forall n, In n D -> same_slot (d_mi n) s = true -> d_row n = h /\ is_rm (d_op n) = false.
  Proof.
    unfold stable_b. rewrite forallb_forall. intros H n Hn Hs. specialize (H n Hn). rewrite Hs in H. cbn [negb orb] in H.
    apply andb_true_iff in H as [H1 H2]. split; [apply String.eqb_eq; exact H1 | apply negb_true_iff; exact H2].
  Qed.
  Lemma rev_ok_b_spec rs s D : rev_ok_b rs s D = true ->
    forall n, In n D -> is_rm (d_op n) = true ->
              match_row rmatch (rev_of (d_mi n)) rs = None /\ (rev_of (d_mi n) = rev_of s -> same_slot (d_mi n) s = true).
  Proof.
    unfold rev_ok_b. rewrite forallb_forall. intros H n Hn Hr. specialize (H n Hn). rewrite Hr in H. cbn [negb orb] in H.
    apply andb_true_iff in H as [H1 H2]. split.
    - destruct (match_row rmatch (rev_of (d_mi n)) rs); [discriminate | reflexivity].
    - intro E. rewrite E, String.eqb_refl in H2. exact H2.
  Qed.
  Lemma first_b_spec rs s h t lvl : first_b rs s h t lvl = true -> find (in_slot rmatch rs s) lvl = Some (h, t).
  Proof.
    unfold first_b. destruct (find (in_slot rmatch rs s) lvl) as [[r0 t0]|]; [|discriminate]. cbn [fst snd].
    intro H. apply andb_true_iff in H as [H1 H2]. apply String.eqb_eq in H1. apply tree_eqb_eq in H2. subst. reflexivity.
  Qed.
  Lemma rev_only_b_spec s r D : rev_only_b s r D = true ->
    forall n, In n D -> is_rm (d_op n) = true -> rev_of (d_mi n) = rev_of s -> d_row n = r.
  Proof.
    unfold rev_only_b. rewrite forallb_forall. intros H n Hn Hr E. specialize (H n Hn). rewrite Hr, E, String.eqb_refl in H.
    apply String.eqb_eq. exact H.
  Qed.

  (* ---------------------------------------------------------------- the guard of (c) *)
  (* for every passed row of old the rulebook knows, at every depth:
     - if it is governed by a cant_delete ACL rule: the rules of its level carry one set of attributes per
       rule text, its rule is neither %ordered nor %rewrite, its removal command is that of no other entry of
       the diff level;
     - if it has children: it can be followed ([follow_b]) and the same holds below *)
  (* [deep]: for the full form of (c), without the ancestor exception, a block that the diff removes must
     not contain a passed row governed by a cant_delete rule ([cd_free_t]) - the class of the open finding *)
  Fixpoint cguard_t (deep : bool) (ars : aset) (rs : rset) (lvl : forest) (o : tree) (D : list dnode) {struct o} : bool :=
    match o with
    | T ka =>
      (fix go (l : forest) : bool :=
         match l with
         | [] => true
         | (r, t) :: l' =>
           match passes ars r, match_row rmatch r rs with
           | Some acrs, Some (s, crs) =>
             (negb (cant_delete ars r) ||
              (rules_det rs && negb (logic_eqb (a_logic (mi_attrs s)) LOrdered) && negb (is_rewrite s) && rev_only_b s r D)) &&
             (is_nil (kids t) || (follow_b rs lvl r t s D && cguard_t deep acrs crs (kids t) t (dsub r D)) ||
              (removed_b rs lvl r t s D && wfb (kids t) && (negb deep || cd_free_t amatch_ asrc arev anorm acrs t)))
           | _, _ => true
           end && go l'
         end) ka
    end.

  Lemma cguard_cons deep ars rs lvl r t l D :
    cguard_t deep ars rs lvl (T ((r, t) :: l)) D =
    match passes ars r, match_row rmatch r rs with
    | Some acrs, Some (s, crs) =>
      (negb (cant_delete ars r) ||
       (rules_det rs && negb (logic_eqb (a_logic (mi_attrs s)) LOrdered) && negb (is_rewrite s) && rev_only_b s r D)) &&
      (is_nil (kids t) || (follow_b rs lvl r t s D && cguard_t deep acrs crs (kids t) t (dsub r D)) ||
       (removed_b rs lvl r t s D && wfb (kids t) && (negb deep || cd_free_t amatch_ asrc arev anorm acrs t)))
    | _, _ => true
    end && cguard_t deep ars rs lvl (T l) D.
  Proof. reflexivity. Qed.

  Lemma cd_kept_cons deep ars rs r t l b :
    cd_kept_t amatch_ asrc arev anorm rmatch deep ars rs (T ((r, t) :: l)) b =
    match passes ars r with
    | Some crs =>
      (negb (cant_delete ars r) || slot_occupied rmatch rs r b) &&
      match tfind r b, match_row rmatch r rs with
      | Some t', Some (_, prs) => cd_kept_t amatch_ asrc arev anorm rmatch deep crs prs t (kids t')
      | Some _, None => true
      | None, _ => negb deep || cd_free_t amatch_ asrc arev anorm crs t
      end
    | None => true
    end && cd_kept_t amatch_ asrc arev anorm rmatch deep ars rs (T l) b.
  Proof. reflexivity. Qed.

  (* ---------------------------------------------------------------- the guard of (b) *)
  (* for every row of old, at every depth:
     - not passed by the ACL: it is the first entry with its text, not the row of a %rewrite rule, no entry
       of the diff level is in its slot (the ACL does not split the slot: slot_closed), and the removal
       command of an entry of the level is matched by no rule and does not hit it;
     - passed, known to the rulebook, with children: it can be followed and the same holds below;
     - passed, unknown to the rulebook, with children: it is the first entry with its text, its subtree has
       distinct sibling rows, removal commands of the level are matched by no rule *)
  Definition uncov_b (rs : rset) (lvl : forest) (u : string) (t : tree) (D : list dnode) : bool :=
    match tfind u lvl with Some t0 => tree_eqb t0 t | None => false end &&
    match slot_of rmatch rs u with Some m => negb (is_rewrite m) | None => true end &&
    forallb (fun n => negb (in_slot rmatch rs (d_mi n) (u, t))) D &&
    forallb (fun n => negb (is_rm (d_op n)) ||
                      match match_row rmatch (rev_of (d_mi n)) rs with
                      | Some (s', _) => negb (in_slot rmatch rs s' (u, t))
                      | None => negb (reverse_hits rmatch rreverse rs (rev_of (d_mi n)) (u, t))
                      end) D.

  Lemma uncov_b_spec rs lvl u t D : uncov_b rs lvl u t D = true ->
    tfind u lvl = Some t /\ match slot_of rmatch rs u with Some m => is_rewrite m = false | None => True end /\
    (forall n, In n D -> in_slot rmatch rs (d_mi n) (u, t) = false) /\
    (forall n, In n D -> is_rm (d_op n) = true ->
               match match_row rmatch (rev_of (d_mi n)) rs with
               | Some (s', _) => in_slot rmatch rs s' (u, t) = false
               | None => reverse_hits rmatch rreverse rs (rev_of (d_mi n)) (u, t) = false
               end).
  Proof.
    unfold uncov_b. rewrite !andb_true_iff. intros [[[H1 H2] H3] H4]. rewrite forallb_forall in H3, H4.
    split; [|split; [|split]].
    - destruct (tfind u lvl) as [t0|]; [|discriminate]. apply tree_eqb_eq in H1. subst. reflexivity.
    - destruct (slot_of rmatch rs u) as [m|]; [apply negb_true_iff; exact H2 | exact I].
    - intros n Hn. apply negb_true_iff. apply H3. exact Hn.
    - intros n Hn Hr. specialize (H4 n Hn). rewrite Hr in H4. cbn [negb orb] in H4.
      destruct (match_row rmatch (rev_of (d_mi n)) rs) as [[s' crs']|]; apply negb_true_iff; exact H4.
  Qed.

  Lemma Rb_intro rs lvl u t ars D :
    passes ars u = None \/ match_row rmatch u rs = None -> uncov_b rs lvl u t D = true ->
    Rb amatch_ asrc arev anorm rmatch rreverse u t ars rs D.
  Proof. intros H G. destruct (uncov_b_spec rs lvl u t D G) as (_ & _ & U3 & U4). split; [exact H|]. split; assumption. Qed.

  Fixpoint bguard_t (ars : aset) (rs : rset) (lvl : forest) (o : tree) (D : list dnode) {struct o} : bool :=
    match o with
    | T ka =>
      (fix go (l : forest) : bool :=
         match l with
         | [] => true
         | (r, t) :: l' =>
           match passes ars r with
           | Some acrs =>
             is_nil (kids t) ||
             match match_row rmatch r rs with
             | Some (s, crs) => (follow_b rs lvl r t s D && bguard_t acrs crs (kids t) t (dsub r D)) ||
                                (removed_b rs lvl r t s D && wfb (kids t))
             | None => uncov_b rs lvl r t D && wfb (kids t)
             end
           | None => uncov_b rs lvl r t D
           end && go l'
         end) ka
    end.

  Lemma bguard_cons ars rs lvl r t l D :
    bguard_t ars rs lvl (T ((r, t) :: l)) D =
    match passes ars r with
    | Some acrs =>
      is_nil (kids t) ||
      match match_row rmatch r rs with
      | Some (s, crs) => (follow_b rs lvl r t s D && bguard_t acrs crs (kids t) t (dsub r D)) ||
                         (removed_b rs lvl r t s D && wfb (kids t))
      | None => uncov_b rs lvl r t D && wfb (kids t)
      end
    | None => uncov_b rs lvl r t D
    end && bguard_t ars rs lvl (T l) D.
  Proof. reflexivity. Qed.

  Lemma untouched_cons ars r t l b :
    untouched_t amatch_ asrc arev anorm ars (T ((r, t) :: l)) b =
    match passes ars r with
    | Some crs => match tfind r b with
                  | Some t' => untouched_t amatch_ asrc arev anorm crs t (kids t')
                  | None => true
                  end
    | None => match tfind r b with
              | Some t' => forest_eqb (kids t) (kids t')
              | None => false
              end
    end && untouched_t amatch_ asrc arev anorm ars (T l) b.
  Proof. reflexivity. Qed.

  (* a configuration with distinct sibling rows is untouched with respect to itself *)
  Lemma untouched_refl : forall o ars, wfb (kids o) = true -> untouched_t amatch_ asrc arev anorm ars o (kids o) = true.
  Proof.
    assert (H : forall o, (fun o => forall ars lvl, wfb (kids o) = true -> (forall r t, In (r, t) (kids o) -> tfind r lvl = Some t) ->
                                    untouched_t amatch_ asrc arev anorm ars o lvl = true) o).
    { apply (tree_ind2 (fun o => forall ars lvl, wfb (kids o) = true -> (forall r t, In (r, t) (kids o) -> tfind r lvl = Some t) ->
                                                 untouched_t amatch_ asrc arev anorm ars o lvl = true)
                       (fun l => forall ars lvl, wfb l = true -> (forall r t, In (r, t) l -> tfind r lvl = Some t) ->
                                                 untouched_t amatch_ asrc arev anorm ars (T l) lvl = true)).
      - intros k IH. exact IH.
      - reflexivity.
      - intros r t k IHt IHk ars lvl Hw Hin. rewrite untouched_cons. rewrite wfb_cons in Hw.
        apply andb_true_iff in Hw as [Hw Hwk]. apply andb_true_iff in Hw as [Hn Hwt].
        rewrite (Hin r t (or_introl eq_refl)). apply andb_true_iff. split.
        + destruct (passes ars r) as [crs|]; [|apply forest_eqb_refl].
          apply IHt; [exact Hwt|]. intros r1 t1 H1. apply wfb_wf in Hwt. clear - Hwt H1.
          induction Hwt as [|r0 c0 f0 Hn0 _ _ Hf0 IH0]; [destruct H1|]. cbn [tfind]. destruct H1 as [H1|H1].
          * injection H1 as E1 E2. subst. rewrite String.eqb_refl. reflexivity.
          * destruct (String.eqb_spec r0 r1) as [E|E]; [|apply IH0; exact H1].
            exfalso. apply Hn0. subst r0. apply in_map_iff. exists (r1, t1). split; [reflexivity | exact H1].
        + apply IHk; [exact Hwk|]. intros r1 t1 H1. apply Hin. now right. }
    intros o ars Hw. apply H; [exact Hw|]. intros r t Hin. apply wfb_wf in Hw. clear - Hw Hin.
    induction Hw as [|r0 c0 f0 Hn0 _ _ Hf0 IH0]; [destruct Hin|]. cbn [tfind]. destruct Hin as [H1|H1].
    - injection H1 as E1 E2. subst. rewrite String.eqb_refl. reflexivity.
    - destruct (String.eqb_spec r0 r) as [E|E]; [|apply IH0; exact H1].
      exfalso. apply Hn0. subst r0. apply in_map_iff. exists (r, t). split; [reflexivity | exact H1].
  Qed.

  Lemma wf_tfind : forall f, wf f -> forall r t, In (r, t) f -> tfind r f = Some t.
  Proof.
    intros f Hw. induction Hw as [|r0 c0 f0 Hn0 _ _ Hf0 IH0]; intros r t Hin; [destruct Hin|]. cbn [tfind]. destruct Hin as [H1|H1].
    - injection H1 as E1 E2. subst. rewrite String.eqb_refl. reflexivity.
    - destruct (String.eqb_spec r0 r) as [E|E]; [|apply IH0; exact H1].
      exfalso. apply Hn0. subst r0. apply in_map_iff. exists (r, t). split; [reflexivity | exact H1].
  Qed.

  (* a configuration with distinct sibling rows keeps all its rows with respect to itself *)
  Lemma cd_kept_refl deep : forall o ars rs, wfb (kids o) = true ->
    cd_kept_t amatch_ asrc arev anorm rmatch deep ars rs o (kids o) = true.
  Proof.
    assert (H : forall o ars rs lvl, wfb (kids o) = true -> (forall r t, In (r, t) (kids o) -> tfind r lvl = Some t) ->
                                     cd_kept_t amatch_ asrc arev anorm rmatch deep ars rs o lvl = true).
    { apply (tree_ind2 (fun o => forall ars rs lvl, wfb (kids o) = true -> (forall r t, In (r, t) (kids o) -> tfind r lvl = Some t) ->
                                                    cd_kept_t amatch_ asrc arev anorm rmatch deep ars rs o lvl = true)
                       (fun l => forall ars rs lvl, wfb l = true -> (forall r t, In (r, t) l -> tfind r lvl = Some t) ->
                                                    cd_kept_t amatch_ asrc arev anorm rmatch deep ars rs (T l) lvl = true)).
      - intros k IH. exact IH.
      - reflexivity.
      - intros r t k IHt IHk ars rs lvl Hw Hin. rewrite cd_kept_cons. rewrite wfb_cons in Hw.
        apply andb_true_iff in Hw as [Hw Hwk]. apply andb_true_iff in Hw as [Hn Hwt].
        pose proof (Hin r t (or_introl eq_refl)) as Ht. rewrite Ht. apply andb_true_iff. split.
        + destruct (passes ars r) as [crs|]; [|reflexivity]. apply andb_true_iff. split.
          * apply orb_true_iff. right. unfold slot_occupied. destruct (slot_of rmatch rs r) as [s|] eqn:Es; [|rewrite Ht; reflexivity].
            apply existsb_exists. exists (r, t). split; [apply (tfind_In r lvl t Ht)|]. unfold in_slot. cbn [fst]. rewrite Es. apply same_slot_refl.
          * destruct (match_row rmatch r rs) as [[m prs]|]; [|reflexivity].
            apply IHt; [exact Hwt|]. apply wf_tfind. apply wfb_wf. exact Hwt.
        + apply IHk; [exact Hwk|]. intros r1 t1 H1. apply Hin. now right. }
    intros o ars rs Hw. apply H; [exact Hw|]. apply wf_tfind. apply wfb_wf. exact Hw.
  Qed.
End Guards.

(* ------------------------------------------------------------------------------------ *)
(* 7. the clauses (c) and (b) of P_C02 for the whole of old                                *)

Section Clauses.
  Variable amatch_ : string -> string -> option (list string).
  Variable asrc : string -> string.
  Variable arev : string -> string.
  Variable anorm : string -> string.
  Variable rmatch : string -> string -> option (list string).
  Variable rsrc : string -> string.
  Variable rrev : string -> string.
  Variable block_exit : string.
  Variable rreverse : string -> list string -> string.
  Variable is_exit : string -> bool.

  Notation pipeline := (acl_diff_and_patch amatch_ asrc arev anorm rmatch rsrc rrev block_exit rreverse).
  Notation filt ars f := (acl_filter amatch_ asrc arev anorm ars f).
  Notation full_diff ars rs old new := (acl_make_diff amatch_ asrc arev anorm rmatch ars rs (filt ars old) (filt ars new)).
  Notation passes ars r := (acl_passes amatch_ asrc arev anorm ars r).
  Notation cant_delete ars r := (acl_cant_delete amatch_ asrc arev anorm ars r).
  Notation xexec := (exec rmatch rreverse is_exit).
  Notation chain := (chain rmatch).
  Notation dchain := (dchain amatch_ asrc arev anorm rmatch rreverse).
  Notation cguard_t := (cguard_t amatch_ asrc arev anorm rmatch rreverse).
  Notation bguard_t := (bguard_t amatch_ asrc arev anorm rmatch rreverse).
  Notation cd_kept_t := (cd_kept_t amatch_ asrc arev anorm rmatch).
  Notation untouched_t := (untouched_t amatch_ asrc arev anorm).

  Variable f : family.
  Variable ars0 : aset.
  Variable rs0 : rset.
  Variable ordering : list orule.
  Variable old0 new0 : forest.
  Variable p : ptree.
  Hypothesis Hf : is_block_family f = true.
  Hypothesis Hexit : forall e, In e (family_exits f) -> is_exit e = true.
  Hypothesis Hreg : diff_regular (full_diff ars0 rs0 old0 new0) = true.
  Hypothesis Hp : snd (pipeline ars0 rs0 ordering old0 new0) = POk p.

  Let D0 := full_diff ars0 rs0 old0 new0.
  Let dev := xexec rs0 (cmd_paths f p) old0.

  Lemma follow_step hs ars rs lvl D r t s acrs crs :
    chain rs0 hs (fun rs' g => rs' = rs /\ g = lvl) old0 ->
    dchain ars0 rs0 hs D0 (fun a r' d => a = ars /\ r' = rs /\ d = D) ->
    passes ars r = Some acrs -> match_row rmatch r rs = Some (s, crs) ->
    follow_b rmatch rreverse rs lvl r t s D = true ->
    chain rs0 (hs ++ [r]) (fun rs' g => rs' = crs /\ g = kids t) old0 /\
    dchain ars0 rs0 (hs ++ [r]) D0 (fun a r' d => a = acrs /\ r' = crs /\ d = dsub r D).
  Proof.
    intros Hc Hd Hpa Hm Hfo. unfold follow_b in Hfo. rewrite !andb_true_iff in Hfo. destruct Hfo as [[[H1 H2] H3] H4].
    apply negb_true_iff in H2. split.
    - eapply chain_snoc; [exact Hm | exact H2 | apply first_b_spec; exact H1 | exact Hc].
    - eapply dchain_snoc; [exact Hpa | exact Hm | apply stable_b_spec; exact H3 | apply (rev_ok_b_spec rmatch rreverse rs s D H4) | exact Hd].
  Qed.

  (* the target of (b) in the block reached: (u, t) is still the first entry with text u *)
  Lemma uncov_kept hs ars rs lvl D devL u t :
    chain rs0 hs (fun rs' g => rs' = rs /\ g = lvl) old0 ->
    dchain ars0 rs0 hs D0 (fun a r' d => a = ars /\ r' = rs /\ d = D) ->
    descend hs dev = Some devL ->
    Pb rmatch u t rs lvl -> Rb amatch_ asrc arev anorm rmatch rreverse u t ars rs D ->
    tfind u devL = Some t.
  Proof.
    intros Hc Hd Hdesc HPb HRb.
    pose proof (uncovered_untouched_deep amatch_ asrc arev anorm rmatch rsrc rrev block_exit rreverse is_exit
                  f ars0 rs0 ordering old0 new0 p hs u t Hf Hexit Hreg Hp) as Hkept.
    assert (Hc' : chain rs0 hs (Pb rmatch u t) old0).
    { eapply chain_mono; [|exact Hc]. intros rs' g [E1 E2]. subst. exact HPb. }
    assert (Hd' : dchain ars0 rs0 hs D0 (Rb amatch_ asrc arev anorm rmatch rreverse u t)).
    { eapply dchain_mono; [|exact Hd]. intros a r' d (E1 & E2 & E3). subst. exact HRb. }
    specialize (Hkept Hc' Hd'). fold dev in Hkept.
    destruct (chain_descend rmatch _ hs rs0 dev Hkept) as (rs' & g & Hw & Hdg & (Hfind & _)).
    rewrite Hdesc in Hdg. injection Hdg as Hdg. subst g. exact Hfind.
  Qed.

  (* a block the diff removes is, in the block reached, untouched or gone *)
  Lemma removed_kept hs ars rs lvl D devL h t s :
    chain rs0 hs (fun rs' g => rs' = rs /\ g = lvl) old0 ->
    dchain ars0 rs0 hs D0 (fun a r' d => a = ars /\ r' = rs /\ d = D) ->
    descend hs dev = Some devL ->
    PR rmatch h t s rs lvl -> RR rmatch rreverse h s ars rs D ->
    tfind h devL = Some t \/ tfind h devL = None.
  Proof.
    intros Hc Hd Hdesc HPR HRR.
    pose proof (removed_block_deep amatch_ asrc arev anorm rmatch rsrc rrev block_exit rreverse is_exit
                  f ars0 rs0 ordering old0 new0 p hs h t s Hf Hexit Hreg Hp) as Hkept.
    assert (Hc' : chain rs0 hs (PR rmatch h t s) old0).
    { eapply chain_mono; [|exact Hc]. intros rs' g [E1 E2]. subst. exact HPR. }
    assert (Hd' : dchain ars0 rs0 hs D0 (RR rmatch rreverse h s)).
    { eapply dchain_mono; [|exact Hd]. intros a r' d (E1 & E2 & E3). subst. exact HRR. }
    specialize (Hkept Hc' Hd'). fold dev in Hkept.
    destruct (chain_descend rmatch _ hs rs0 dev Hkept) as (rs' & g & Hw & Hdg & ((Hs & _) & Hdisj)).
    rewrite Hdesc in Hdg. injection Hdg as Hdg. subst g.
    destruct Hdisj as [G|G]; [left; eapply only_tfind; eassumption | right; exact G].
  Qed.

  (* a row no rule knows is never touched *)
  Lemma unknown_kept hs ars rs lvl D devL r t :
    chain rs0 hs (fun rs' g => rs' = rs /\ g = lvl) old0 ->
    dchain ars0 rs0 hs D0 (fun a r' d => a = ars /\ r' = rs /\ d = D) ->
    descend hs dev = Some devL ->
    match_row rmatch r rs = None -> In (r, t) lvl ->
    is_some (tfind r devL) = true.
  Proof.
    intros Hc Hd Hdesc Hm Hin.
    assert (Hs : slot_of rmatch rs r = None) by (unfold slot_of; rewrite Hm; reflexivity).
    destruct (tfind r lvl) as [t1|] eqn:Ht1.
    - rewrite (uncov_kept hs ars rs lvl D devL r t1 Hc Hd Hdesc); [reflexivity | |].
      + split; [exact Ht1 | rewrite Hs; exact I].
      + split; [right; exact Hm|]. split.
        * intros n Hn. unfold in_slot. cbn [fst]. rewrite Hs. reflexivity.
        * intros n Hn Hr. destruct (match_row rmatch (reverse_of rreverse (d_mi n)) rs) as [[s' crs']|].
          -- unfold in_slot. cbn [fst]. rewrite Hs. reflexivity.
          -- unfold reverse_hits. cbn [fst]. rewrite Hs. reflexivity.
    - exfalso. clear - Hin Ht1. induction lvl as [|[r0 t0] l IH]; [destruct Hin|]. cbn [tfind] in Ht1.
      destruct Hin as [Hin|Hin].
      + injection Hin as E1 E2. subst. rewrite String.eqb_refl in Ht1. discriminate.
      + destruct (String.eqb r0 r); [discriminate | apply IH; assumption].
  Qed.

  (* a block that is followed is still there after the patch *)
  Lemma follow_survives hs ars rs lvl D devL r t s acrs crs :
    chain rs0 hs (fun rs' g => rs' = rs /\ g = lvl) old0 ->
    dchain ars0 rs0 hs D0 (fun a r' d => a = ars /\ r' = rs /\ d = D) ->
    descend hs dev = Some devL ->
    passes ars r = Some acrs -> match_row rmatch r rs = Some (s, crs) ->
    follow_b rmatch rreverse rs lvl r t s D = true ->
    tfind r devL <> None.
  Proof.
    intros Hc Hd Hdesc Hpa Hm Hfo.
    destruct (follow_step hs ars rs lvl D r t s acrs crs Hc Hd Hpa Hm Hfo) as [Hc2 Hd2].
    pose proof (chain_survives amatch_ asrc arev anorm rmatch rsrc rrev block_exit rreverse is_exit
                  f ars0 rs0 ordering old0 new0 p (hs ++ [r]) Hf Hexit Hreg Hp) as Hs.
    assert (Hc' : chain rs0 (hs ++ [r]) (fun _ _ => True) old0) by (eapply chain_mono; [|exact Hc2]; intros; exact I).
    assert (Hd' : dchain ars0 rs0 (hs ++ [r]) D0 (fun _ _ _ => True)) by (eapply dchain_mono; [|exact Hd2]; intros; exact I).
    specialize (Hs Hc' Hd'). fold dev in Hs.
    destruct (chain_descend rmatch _ _ rs0 dev Hs) as (rs' & g & _ & Hdg & _).
    eapply descend_snoc_inv; eassumption.
  Qed.

  (* (c): the guard implies the clause [cd_kept deep] of P_C02 on the device after the patch *)
  Lemma cguard_kept deep : forall o hs ars rs lvl D devL,
    chain rs0 hs (fun rs' g => rs' = rs /\ g = lvl) old0 ->
    dchain ars0 rs0 hs D0 (fun a r' d => a = ars /\ r' = rs /\ d = D) ->
    descend hs dev = Some devL ->
    incl (kids o) lvl ->
    cguard_t deep ars rs lvl o D = true -> cd_kept_t deep ars rs o devL = true.
  Proof.
    apply (tree_ind2
             (fun o => forall hs ars rs lvl D devL,
                  chain rs0 hs (fun rs' g => rs' = rs /\ g = lvl) old0 ->
                  dchain ars0 rs0 hs D0 (fun a r' d => a = ars /\ r' = rs /\ d = D) ->
                  descend hs dev = Some devL -> incl (kids o) lvl ->
                  cguard_t deep ars rs lvl o D = true -> cd_kept_t deep ars rs o devL = true)
             (fun l => forall hs ars rs lvl D devL,
                  chain rs0 hs (fun rs' g => rs' = rs /\ g = lvl) old0 ->
                  dchain ars0 rs0 hs D0 (fun a r' d => a = ars /\ r' = rs /\ d = D) ->
                  descend hs dev = Some devL -> incl l lvl ->
                  cguard_t deep ars rs lvl (T l) D = true -> cd_kept_t deep ars rs (T l) devL = true)).
    - intros k IH. exact IH.
    - reflexivity.
    - intros r t k IHt IHk hs ars rs lvl D devL Hc Hd Hdesc Hinc Hg.
      rewrite cguard_cons in Hg. apply andb_true_iff in Hg as [Hg Hgk].
      rewrite cd_kept_cons. apply andb_true_iff. split; [|apply (IHk hs ars rs lvl D devL); try assumption; intros x Hx; apply Hinc; now right].
      destruct (passes ars r) as [acrs|] eqn:Hpa; [|reflexivity].
      destruct (match_row rmatch r rs) as [[s crs]|] eqn:Hm.
      + apply andb_true_iff in Hg as [Hg1 Hg2]. apply andb_true_iff. split.
        * (* the row itself *)
          destruct (cant_delete ars r) eqn:Hcd; [|reflexivity]. cbn [negb orb] in Hg1 |- *.
          rewrite !andb_true_iff in Hg1. destruct Hg1 as [[[G1 G2] G3] G4].
          apply negb_true_iff in G3.
          assert (Hs : slot_of rmatch rs r = Some s) by (unfold slot_of; rewrite Hm; reflexivity).
          assert (HPc : Pc rmatch rreverse s rs lvl).
          { split; [|split].
            - unfold occupied. apply existsb_exists. exists (r, t). split; [apply Hinc; now left|].
              unfold in_slot. cbn [fst]. rewrite Hs. apply same_slot_refl.
            - eapply slot_det_of_rules_det; [exact G1 | exact Hs].
            - intros row m Hrow Hss. unfold is_rewrite. rewrite (slot_attrs_of_rules_det rmatch rs r s G1 Hs row m Hrow Hss). exact G3. }
          assert (HRc : Rc amatch_ asrc arev anorm rmatch rreverse r s ars rs D).
          { split; [exact Hs|]. split; [exact Hcd|]. split.
            - intro E. rewrite E in G2. discriminate.
            - apply rev_only_b_spec. exact G4. }
          pose proof (cant_delete_kept_deep amatch_ asrc arev anorm rmatch rsrc rrev block_exit rreverse is_exit
                        f ars0 rs0 ordering old0 new0 p hs r s Hf Hexit Hreg Hp) as Hkept.
          assert (Hc' : chain rs0 hs (Pc rmatch rreverse s) old0).
          { eapply chain_mono; [|exact Hc]. intros rs' g [E1 E2]. subst. exact HPc. }
          assert (Hd' : dchain ars0 rs0 hs D0 (Rc amatch_ asrc arev anorm rmatch rreverse r s)).
          { eapply dchain_mono; [|exact Hd]. intros a r' d (E1 & E2 & E3). subst. exact HRc. }
          specialize (Hkept Hc' Hd'). fold dev in Hkept.
          destruct (chain_descend rmatch _ hs rs0 dev Hkept) as (rs' & g & Hw & Hdg & (Hocc & _)).
          destruct (chain_end rmatch rs lvl hs rs0 old0 Hc) as [Hw0 _].
          rewrite Hw0 in Hw. injection Hw as Hw. subst rs'. rewrite Hdesc in Hdg. injection Hdg as Hdg. subst g.
          unfold slot_occupied. rewrite Hs. exact Hocc.
        * (* below the row *)
          destruct (is_nil (kids t)) eqn:Enil.
          { destruct t as [[|e ke]]; [|discriminate]. destruct (tfind r devL); [reflexivity|]. apply orb_true_r. }
          cbn [orb] in Hg2. apply orb_true_iff in Hg2 as [Hg2|Hg2].
          -- apply andb_true_iff in Hg2 as [Hfo Hsub].
             destruct (tfind r devL) as [t'|] eqn:Ht'.
             ++ destruct (follow_step hs ars rs lvl D r t s acrs crs Hc Hd Hpa Hm Hfo) as [Hc2 Hd2].
                eapply (IHt (hs ++ [r]) acrs crs (kids t) (dsub r D) (kids t')); [exact Hc2 | exact Hd2 | | apply incl_refl | exact Hsub].
                eapply descend_snoc; eassumption.
             ++ exfalso. eapply (follow_survives hs ars rs lvl D devL r t s acrs crs); eassumption.
          -- apply andb_true_iff in Hg2 as [Hg2 Hfree]. apply andb_true_iff in Hg2 as [Hrb Hw].
             destruct (tfind r devL) as [t'|] eqn:Ht'; [|exact Hfree].
             assert (Hs : slot_of rmatch rs r = Some s) by (unfold slot_of; rewrite Hm; reflexivity).
             destruct (removed_b_spec rmatch rreverse ars rs lvl r t s D Hs Hrb) as [HPR HRR].
             destruct (removed_kept hs ars rs lvl D devL r t s Hc Hd Hdesc HPR HRR) as [Et|Et]; rewrite Et in Ht'; [|discriminate].
             injection Ht' as Ht'. subst t'. apply cd_kept_refl. exact Hw.
      + (* a row no rule knows: the device never touches it *)
        assert (Hsome : is_some (tfind r devL) = true).
        { eapply unknown_kept; [exact Hc | exact Hd | exact Hdesc | exact Hm | apply Hinc; now left]. }
        apply andb_true_iff. split; [|destruct (tfind r devL); [reflexivity | discriminate]].
        destruct (cant_delete ars r) eqn:Hcd; [|reflexivity]. cbn [negb orb].
        unfold slot_occupied, slot_of. rewrite Hm. cbn [option_map]. exact Hsome.
  Qed.

  (* (b): the guard implies the clause [untouched] of P_C02 on the device after the patch *)
  Lemma bguard_untouched : forall o hs ars rs lvl D devL,
    chain rs0 hs (fun rs' g => rs' = rs /\ g = lvl) old0 ->
    dchain ars0 rs0 hs D0 (fun a r' d => a = ars /\ r' = rs /\ d = D) ->
    descend hs dev = Some devL ->
    incl (kids o) lvl ->
    bguard_t ars rs lvl o D = true -> untouched_t ars o devL = true.
  Proof.
    apply (tree_ind2
             (fun o => forall hs ars rs lvl D devL,
                  chain rs0 hs (fun rs' g => rs' = rs /\ g = lvl) old0 ->
                  dchain ars0 rs0 hs D0 (fun a r' d => a = ars /\ r' = rs /\ d = D) ->
                  descend hs dev = Some devL -> incl (kids o) lvl ->
                  bguard_t ars rs lvl o D = true -> untouched_t ars o devL = true)
             (fun l => forall hs ars rs lvl D devL,
                  chain rs0 hs (fun rs' g => rs' = rs /\ g = lvl) old0 ->
                  dchain ars0 rs0 hs D0 (fun a r' d => a = ars /\ r' = rs /\ d = D) ->
                  descend hs dev = Some devL -> incl l lvl ->
                  bguard_t ars rs lvl (T l) D = true -> untouched_t ars (T l) devL = true)).
    - intros k IH. exact IH.
    - reflexivity.
    - intros r t k IHt IHk hs ars rs lvl D devL Hc Hd Hdesc Hinc Hg.
      rewrite bguard_cons in Hg. apply andb_true_iff in Hg as [Hg Hgk].
      rewrite untouched_cons. apply andb_true_iff. split; [|apply (IHk hs ars rs lvl D devL); try assumption; intros x Hx; apply Hinc; now right].
      destruct (passes ars r) as [acrs|] eqn:Hpa.
      + destruct (tfind r devL) as [t'|] eqn:Ht'; [|reflexivity].
        destruct (is_nil (kids t)) eqn:Enil.
        { destruct t as [[|e ke]]; [reflexivity | discriminate]. }
        cbn [orb] in Hg.
        destruct (match_row rmatch r rs) as [[s crs]|] eqn:Hm.
        * apply orb_true_iff in Hg as [Hg|Hg].
          -- apply andb_true_iff in Hg as [Hfo Hsub].
             destruct (follow_step hs ars rs lvl D r t s acrs crs Hc Hd Hpa Hm Hfo) as [Hc2 Hd2].
             eapply (IHt (hs ++ [r]) acrs crs (kids t) (dsub r D) (kids t')); [exact Hc2 | exact Hd2 | | apply incl_refl | exact Hsub].
             eapply descend_snoc; eassumption.
          -- apply andb_true_iff in Hg as [Hrb Hw].
             assert (Hs : slot_of rmatch rs r = Some s) by (unfold slot_of; rewrite Hm; reflexivity).
             destruct (removed_b_spec rmatch rreverse ars rs lvl r t s D Hs Hrb) as [HPR HRR].
             destruct (removed_kept hs ars rs lvl D devL r t s Hc Hd Hdesc HPR HRR) as [Et|Et]; rewrite Et in Ht'; [|discriminate].
             injection Ht' as Ht'. subst t'. apply untouched_refl. exact Hw.
        * apply andb_true_iff in Hg as [Hu Hw].
          destruct (uncov_b_spec rmatch rreverse rs lvl r t D Hu) as (U1 & U2 & U3 & U4).
          assert (Et : tfind r devL = Some t).
          { apply (uncov_kept hs ars rs lvl D devL r t Hc Hd Hdesc); [split; assumption|].
            split; [right; exact Hm|]. split; assumption. }
          rewrite Et in Ht'. injection Ht' as Ht'. subst t'. apply untouched_refl. exact Hw.
      + destruct (uncov_b_spec rmatch rreverse rs lvl r t D Hg) as (U1 & U2 & U3 & U4).
        rewrite (uncov_kept hs ars rs lvl D devL r t Hc Hd Hdesc); [apply forest_eqb_refl | split; assumption|].
        split; [left; exact Hpa|]. split; assumption.
  Qed.

  (* the two clauses for the whole of old *)
  Theorem cd_kept_of_guard deep :
    cguard_t deep ars0 rs0 old0 (T old0) D0 = true ->
    cd_kept amatch_ asrc arev anorm rmatch deep ars0 rs0 old0 dev = true.
  Proof.
    intro Hg. unfold cd_kept. apply (cguard_kept deep (T old0) [] ars0 rs0 old0 D0 dev); try reflexivity; try exact Hg.
    - cbn [chain]. split; reflexivity.
    - cbn [dchain]. repeat split; reflexivity.
    - apply incl_refl.
  Qed.

  Theorem untouched_of_guard :
    bguard_t ars0 rs0 old0 (T old0) D0 = true ->
    untouched amatch_ asrc arev anorm ars0 old0 dev = true.
  Proof.
    intro Hg. unfold untouched. apply (bguard_untouched (T old0) [] ars0 rs0 old0 D0 dev); try reflexivity; try exact Hg.
    - cbn [chain]. split; reflexivity.
    - cbn [dchain]. repeat split; reflexivity.
    - apply incl_refl.
  Qed.
End Clauses.

(* ------------------------------------------------------------------------------------ *)
(* 8. instantiated with the shared pattern compiler, in the vocabulary of Spec/P_C02.v     *)

Definition p_cguard (deep : bool) (x : c02in) : bool :=
  cguard_t acl_pm acl_psrc (acl_prev (i_av x)) (acl_norm (i_av x)) pm (prreverse (i_vendor x)) deep
           (i_ars x) (i_rules x) (i_old x) (T (i_old x)) (p_full_diff x).
Definition p_bguard (x : c02in) : bool :=
  bguard_t acl_pm acl_psrc (acl_prev (i_av x)) (acl_norm (i_av x)) pm (prreverse (i_vendor x))
           (i_ars x) (i_rules x) (i_old x) (T (i_old x)) (p_full_diff x).

(* the guards of the full-depth theorems: block formatter, regular diff, and for every row of old at
   every depth the conditions of section 6 *)
Definition c_deep_guard (x : c02in) : bool :=
  is_block_family (v_family (i_vendor x)) && diff_regular (p_full_diff x) && p_cguard false x.
(* the same for the full form of (c): moreover no cant_delete row inside a block that the diff removes *)
Definition c_full_guard (x : c02in) : bool :=
  is_block_family (v_family (i_vendor x)) && diff_regular (p_full_diff x) && p_cguard true x.
Definition b_deep_guard (x : c02in) : bool :=
  is_block_family (v_family (i_vendor x)) && diff_regular (p_full_diff x) && p_bguard x.

Lemma C02_c_with_model deep x ordering :
  is_block_family (v_family (i_vendor x)) && diff_regular (p_full_diff x) && p_cguard deep x = true ->
  C02_c_with deep x (model_out x ordering) = true.
Proof.
  rewrite !andb_true_iff. intros [[Hf Hreg] Hg].
  unfold C02_c_with, model_out. cbn [o_cmds].
  destruct (snd (p_acl_diff_and_patch (i_vendor x) (i_av x) (i_ars x) (i_rules x) ordering (i_old x) (i_new x))) as [p|] eqn:Ep;
    [|reflexivity].
  apply orb_true_iff. right. unfold c_core, p_cd_kept, after, p_exec. unfold p_acl_diff_and_patch in Ep.
  exact (cd_kept_of_guard acl_pm acl_psrc (acl_prev (i_av x)) (acl_norm (i_av x)) pm psrc (prev (i_vendor x))
           (v_exit (i_vendor x)) (prreverse (i_vendor x)) (v_is_exit (i_vendor x)) (v_family (i_vendor x))
           (i_ars x) (i_rules x) ordering (i_old x) (i_new x) p Hf (v_is_exit_family (i_vendor x)) Hreg Ep deep Hg).
Qed.

Theorem C02_c_deep_model x ordering : c_deep_guard x = true -> C02_c x (model_out x ordering) = true.
Proof. apply C02_c_with_model. Qed.

(* the full form of (c), without the ancestor exception *)
Theorem C02_c_full_model x ordering : c_full_guard x = true -> C02_c_deep x (model_out x ordering) = true.
Proof. apply C02_c_with_model. Qed.

Theorem C02_b_deep_model x ordering : b_deep_guard x = true -> C02_b x (model_out x ordering) = true.
Proof.
  unfold b_deep_guard. rewrite !andb_true_iff. intros [[Hf Hreg] Hg].
  unfold C02_b, model_out. cbn [o_cmds].
  destruct (snd (p_acl_diff_and_patch (i_vendor x) (i_av x) (i_ars x) (i_rules x) ordering (i_old x) (i_new x))) as [p|] eqn:Ep;
    [|reflexivity].
  apply orb_true_iff. right. unfold b_core, p_untouched, after, p_exec. unfold p_acl_diff_and_patch in Ep.
  exact (untouched_of_guard acl_pm acl_psrc (acl_prev (i_av x)) (acl_norm (i_av x)) pm psrc (prev (i_vendor x))
           (v_exit (i_vendor x)) (prreverse (i_vendor x)) (v_is_exit (i_vendor x)) (v_family (i_vendor x))
           (i_ars x) (i_rules x) ordering (i_old x) (i_new x) p Hf (v_is_exit_family (i_vendor x)) Hreg Ep Hg).
Qed.
