(* C15: handler-order independence of MeshExecutor.execute_for AS A WHOLE, for flat DTO classes (every field
   ForbidChange or Unite, as the shipped peer DTOs are) and under the guard that excludes the known
   counterexample (an indirect session that names a plain interface another session creates).

   Route: Proofs/MeshOrderProofs.v gives (1) the rule loops return the same sessions up to key_eqb / veqb true
   (sessions_same) and (2) the conversion loops are invariant under a permutation of exactly equal pairs
   (conv_all_perm).  This file bridges the two: for flat, well-formed DTOs veqb-equal pairs have value_eqb-equal
   attributes (dto_same); every read the conversion does (to_interface_changes, ifname, ports, svi, addr) is
   EQUAL on dto_same objects, and mk_peer gives peer_eqb-equal peers. *)
From Coq Require Import List String Ascii Bool Arith ZArith Lia Permutation.
From Annet Require Import Model.Merge Model.Mesh Model.MeshExec Spec.P_C15 Spec.P_C15_iface
     Proofs.MergeProofs Proofs.MeshExecProofs Proofs.MeshOrderProofs.
Import ListNotations.
Open Scope string_scope.
Open Scope list_scope.

(* every field of the DTO class is merged by ForbidChange (the default) or Unite: no Concat, no nested model *)
Definition flat_schema (dto : schema) : bool :=
  forallb (fun e => match snd e with MForbidChange | MUnite => true | _ => false end) dto.

(* the same attributes are set, with == values *)
Definition dto_same (a b : entries) : Prop :=
  forall f, match lookup f a, lookup f b with
            | Some x, Some y => value_eqb x y = true
            | None, None => True
            | _, _ => False
            end.

Lemma dto_same_sym : forall a b, dto_same a b -> dto_same b a.
Proof.
  intros a b H f. specialize (H f). destruct (lookup f a); destruct (lookup f b); try contradiction; try exact I.
  apply value_eqb_sym. exact H.
Qed.

Lemma dto_same_nil : dto_same [] [].
Proof. intros f. exact I. Qed.

(* ---- veqb on objects, attribute by attribute --------------------------------------------------------- *)

Lemma sub_entries_In : forall rec mofd fy fx,
  sub_entries rec mofd fy fx = true ->
  forall f v, In (f, v) fx -> exists v', lookup f fy = Some v' /\ rec (mofd f) v v' = true.
Proof.
  intros rec mofd fy. induction fx as [|[g w] r IH]; intros H f v Hin.
  - destruct Hin.
  - cbn [sub_entries] in H. apply andb_true_iff in H. destruct H as [H1 H2]. destruct Hin as [E|Hin].
    + injection E as E1 E2. subst g w. destruct (lookup f fy) as [vy|]; [|discriminate].
      exists vy. split; [reflexivity|exact H1].
    + apply (IH H2 f v Hin).
Qed.

Lemma sub_entries_weak : forall rec mofd fy fx,
  (forall f v, In (f, v) fx -> exists v', lookup f fy = Some v' /\ rec (mofd f) v v' = true) ->
  sub_entries rec mofd fy fx = true.
Proof.
  intros rec mofd fy. induction fx as [|[g w] r IH]; intros H.
  - reflexivity.
  - cbn [sub_entries]. destruct (H g w (or_introl eq_refl)) as [v' [L R]]. rewrite L, R. cbn [andb].
    apply IH. intros f v Hin. apply (H f v). right. exact Hin.
Qed.

Lemma veqb_obj_lookup : forall cm sch x y,
  veqb cm (MMerge sch) (VObj x) (VObj y) = true ->
  forall f, match lookup f x, lookup f y with
            | Some a, Some b => veqb cm (field_merger (MMerge sch) f) a b = true
            | None, None => True
            | _, _ => False
            end.
Proof.
  intros cm sch x y H f. cbn [veqb] in H. apply andb_true_iff in H. destruct H as [H1 H2].
  destruct (lookup f x) as [a|] eqn:Ex.
  - destruct (sub_entries_In _ _ _ _ H1 f a (lookup_In _ _ _ _ Ex)) as [b [L R]]. rewrite L. exact R.
  - destruct (lookup f y) as [b|] eqn:Ey; [|exact I].
    rewrite forallb_forall in H2. specialize (H2 (f, b) (lookup_In _ _ _ _ Ey)). cbn [fst] in H2.
    unfold mem in H2. rewrite Ex in H2. discriminate.
Qed.

Lemma veqb_plain_value_eqb : forall cm m v v',
  plain v = true -> m <> MConcat -> veqb cm m v v' = true -> value_eqb v v' = true.
Proof.
  intros cm m v v' P M H. destruct v; cbn in P; try discriminate; destruct v'; cbn in H |- *;
    try exact H; try discriminate.
  destruct m; try exact H. exfalso. apply M. reflexivity.
Qed.

Lemma flat_field : forall dto f m,
  flat_schema dto = true -> lookup f dto = Some m -> m = MForbidChange \/ m = MUnite.
Proof.
  intros dto f m H L. unfold flat_schema in H. rewrite forallb_forall in H.
  specialize (H (f, m) (lookup_In _ _ _ _ L)). cbn [snd] in H. destruct m; try discriminate; auto.
Qed.

Lemma flat_obj_same : forall dto o o',
  flat_schema dto = true -> wf_val (MMerge dto) (VObj o) = true ->
  veqb true (MMerge dto) (VObj o) (VObj o') = true -> dto_same o o'.
Proof.
  intros dto o o' HF W H f. pose proof (veqb_obj_lookup _ _ _ _ H f) as L.
  destruct (lookup f o) as [a|] eqn:Eo; destruct (lookup f o') as [b|]; try contradiction; try exact I.
  destruct (wf_obj_inv _ _ W) as [_ [_ We]]. cbn [unobj] in We.
  destruct (wf_entries_lookup _ _ _ _ _ We Eo) as [m [Hm Hv]]. cbn [field_merger] in L. rewrite Hm in L.
  destruct (flat_field _ _ _ HF Hm) as [E|E]; subst m.
  - apply (veqb_plain_value_eqb true MForbidChange); [|discriminate|exact L]. apply (wf_plain MForbidChange); [exact I|exact Hv].
  - apply (veqb_plain_value_eqb true MUnite); [|discriminate|exact L]. destruct a; cbn in Hv; try discriminate; reflexivity.
Qed.

(* ---- two sessions the conversion cannot tell apart ------------------------------------------------------ *)

Definition prel (x y : peer_key * entries) : Prop :=
  fst (fst (fst x)) = fst (fst (fst y)) /\
  dto_same (obj_of "local" (snd x)) (obj_of "local" (snd y)) /\
  dto_same (obj_of "connected" (snd x)) (obj_of "connected" (snd y)) /\
  strs_of "ports" (snd x) = strs_of "ports" (snd y).

Lemma prel_sym : forall x y, prel x y -> prel y x.
Proof.
  intros x y [H1 [H2 [H3 H4]]]. split; [symmetry; exact H1|]. split; [apply dto_same_sym; exact H2|].
  split; [apply dto_same_sym; exact H3|symmetry; exact H4].
Qed.

Section PairSame.
  Variable sch_pair sch' dto : schema.
  Hypothesis HF : flat_schema dto = true.
  Hypothesis Hl : lookup "local" sch_pair = Some (MMerge dto).
  Hypothesis Hc : lookup "connected" sch_pair = Some (MMerge dto).
  Hypothesis Hp : lookup "ports" sch_pair = Some MForbidChange.
  Hypothesis Hl' : lookup "local" sch' = Some (MMerge dto).
  Hypothesis Hc' : lookup "connected" sch' = Some (MMerge dto).

  Lemma side_same : forall side p p',
    lookup side sch_pair = Some (MMerge dto) -> lookup side sch' = Some (MMerge dto) ->
    wf_obj sch' p = true ->
    veqb true (MMerge sch_pair) (VObj p) (VObj p') = true ->
    dto_same (obj_of side p) (obj_of side p').
  Proof.
    intros side p p' Hs Hs' W H. pose proof (veqb_obj_lookup _ _ _ _ H side) as L. unfold obj_of.
    destruct (lookup side p) as [v|] eqn:Ep; destruct (lookup side p') as [v'|]; try contradiction;
      [|apply dto_same_nil].
    cbn [field_merger] in L. rewrite Hs in L.
    destruct (wf_obj_wfe _ _ W) as [_ We]. destruct (wf_entries_lookup _ _ _ _ _ We Ep) as [m [Hm Hv]].
    rewrite Hs' in Hm. injection Hm as Hm. subst m. destruct (wf_obj_inv _ _ Hv) as [Ev _].
    destruct v as [| | | |o]; try discriminate. destruct v' as [| | | |o']; cbn in L; try discriminate.
    apply (flat_obj_same dto); assumption.
  Qed.

  Lemma ports_same : forall p p',
    veqb true (MMerge sch_pair) (VObj p) (VObj p') = true -> strs_of "ports" p = strs_of "ports" p'.
  Proof.
    intros p p' H. pose proof (veqb_obj_lookup _ _ _ _ H "ports") as L. unfold strs_of.
    destruct (lookup "ports" p) as [v|]; destruct (lookup "ports" p') as [v'|]; try contradiction; [|reflexivity].
    cbn [field_merger] in L. rewrite Hp in L.
    destruct v; destruct v'; cbn in L; try discriminate; try reflexivity.
    apply atoms_eqb_eq in L. subst. reflexivity.
  Qed.

  Lemma pair_prel : forall k p k' p',
    wf_obj sch' p = true -> key_eqb k k' = true ->
    veqb true (MMerge sch_pair) (VObj p) (VObj p') = true -> prel (k, p) (k', p').
  Proof.
    intros k p k' p' W K V. split; [apply key_eqb_fqdn; exact K|]. cbn [snd].
    split; [apply side_same; assumption|]. split; [apply side_same; assumption|apply ports_same; exact V].
  Qed.
End PairSame.

(* ---- every read of the conversion agrees on dto_same objects ---------------------------------------------- *)

Definition is_atom (v : value) : bool := match v with VAtom _ => true | _ => false end.

Inductive lcase (a b : option value) : Prop :=
| lc_none : a = None -> b = None -> lcase a b
| lc_atom : forall x, a = Some (VAtom x) -> b = Some (VAtom x) -> lcase a b
| lc_other : forall v v', a = Some v -> b = Some v' -> is_atom v = false -> is_atom v' = false ->
                          value_eqb v v' = true -> lcase a b.

Lemma dto_same_case : forall l l', dto_same l l' -> forall f, lcase (lookup f l) (lookup f l').
Proof.
  intros l l' H f. specialize (H f).
  destruct (lookup f l) as [v|]; destruct (lookup f l') as [v'|]; try contradiction.
  - destruct v; destruct v'; cbn in H; try discriminate.
    + apply atom_eqb_eq in H. subst. eapply lc_atom; reflexivity.
    + eapply lc_other; try reflexivity. exact H.
    + eapply lc_other; try reflexivity. exact H.
  - apply lc_none; reflexivity.
Qed.

Lemma opt_int_same : forall l l', dto_same l l' -> forall f, opt_int f l = opt_int f l'.
Proof.
  intros l l' H f. unfold opt_int.
  destruct (dto_same_case _ _ H f) as [E1 E2|x E1 E2|v v' E1 E2 A A' V]; rewrite E1, E2; try reflexivity.
  destruct v; try discriminate; destruct v'; try discriminate; reflexivity.
Qed.

Lemma opt_str_same : forall l l', dto_same l l' -> forall f, opt_str f l = opt_str f l'.
Proof.
  intros l l' H f. unfold opt_str.
  destruct (dto_same_case _ _ H f) as [E1 E2|x E1 E2|v v' E1 E2 A A' V]; rewrite E1, E2; try reflexivity.
  destruct v; try discriminate; destruct v'; try discriminate; reflexivity.
Qed.

Lemma tic_same : forall l l', dto_same l l' -> to_interface_changes l = to_interface_changes l'.
Proof.
  intros l l' H. unfold to_interface_changes.
  rewrite (opt_int_same l l' H "lag"), (opt_int_same l l' H "lag_links_min"), (opt_int_same l l' H "svi"),
          (opt_int_same l l' H "subif"), (opt_str_same l l' H "vrf").
  destruct (dto_same_case _ _ H "addr") as [E1 E2|x E1 E2|v v' E1 E2 A A' V]; rewrite E1, E2; try reflexivity.
  destruct v; try discriminate; destruct v'; try discriminate; reflexivity.
Qed.

Lemma ip_val_same : forall c c', dto_same c c' -> ip_val (lookup "addr" c) = ip_val (lookup "addr" c').
Proof.
  intros c c' H. unfold ip_val.
  destruct (dto_same_case _ _ H "addr") as [E1 E2|x E1 E2|v v' E1 E2 A A' V]; rewrite E1, E2; try reflexivity.
  destruct v; try discriminate; destruct v'; try discriminate; reflexivity.
Qed.

Lemma is_none_val_same : forall v v', value_eqb v v' = true -> is_none_val v = is_none_val v'.
Proof.
  intros v v' H. destruct v; destruct v'; cbn in H |- *; try discriminate; try reflexivity.
  apply atom_eqb_eq in H. subst. reflexivity.
Qed.

Lemma dflt_same : forall c c' f d, dto_same c c' -> value_eqb d d = true -> value_eqb (dflt f c d) (dflt f c' d) = true.
Proof.
  intros c c' f d H D. unfold dflt. specialize (H f).
  destruct (lookup f c); destruct (lookup f c'); try contradiction; assumption.
Qed.

Lemma veqb_peer_field : forall f x y, value_eqb x y = true -> veqb false (field_merger (MMerge []) f) x y = true.
Proof. intros f x y H. cbn [field_merger lookup]. apply veqb_of_value_eqb; [discriminate|exact H]. Qed.

(* -- PeerOptions -- *)
Definition po_val (local : entries) (f : string) : option value :=
  match lookup (opt_src f) local with
  | Some v => if is_none_val v then None else Some v
  | None => None
  end.

Lemma peer_options_cons : forall g rest local,
  peer_options (g :: rest) local =
  (match po_val local g with Some v => [(g, v)] | None => [] end) ++ peer_options rest local.
Proof.
  intros g rest local. unfold peer_options at 1. cbn [flat_map]. unfold po_val, opt_src. f_equal.
  destruct (lookup (if String.eqb g "local_as" then "asnum" else g) local) as [v|]; [|reflexivity].
  destruct (is_none_val v); reflexivity.
Qed.

Lemma po_lookup : forall opt local f,
  lookup f (peer_options opt local) = if sin f opt then po_val local f else None.
Proof.
  induction opt as [|g rest IH]; intros local f; [reflexivity|].
  rewrite peer_options_cons, lookup_app. cbn [sin existsb]. destruct (String.eqb f g) eqn:E.
  - apply String.eqb_eq in E. subst g. cbn [orb]. destruct (po_val local f) as [v|] eqn:P.
    + cbn [lookup]. rewrite String.eqb_refl. reflexivity.
    + cbn [lookup]. rewrite IH. fold (sin f rest). destruct (sin f rest); [exact P|reflexivity].
  - cbn [orb]. assert (L : lookup f (match po_val local g with Some v => [(g, v)] | None => [] end) = None).
    { destruct (po_val local g); [|reflexivity]. cbn [lookup]. rewrite E. reflexivity. }
    rewrite L. apply IH.
Qed.

Lemma po_In : forall opt local f v,
  In (f, v) (peer_options opt local) -> sin f opt = true /\ po_val local f = Some v.
Proof.
  induction opt as [|g rest IH]; intros local f v Hin; [destruct Hin|].
  rewrite peer_options_cons in Hin. apply in_app_or in Hin. cbn [sin existsb]. destruct Hin as [Hin|Hin].
  - destruct (po_val local g) as [w|] eqn:P; [|destruct Hin]. destruct Hin as [E|[]].
    injection E as E1 E2. subst g w. rewrite String.eqb_refl. split; [reflexivity|exact P].
  - destruct (IH local f v Hin) as [S P]. fold (sin f rest). rewrite S, orb_true_r. split; [reflexivity|exact P].
Qed.

Lemma po_val_same : forall l l' f, dto_same l l' ->
  match po_val l f, po_val l' f with
  | Some v, Some v' => value_eqb v v' = true
  | None, None => True
  | _, _ => False
  end.
Proof.
  intros l l' f H. unfold po_val. specialize (H (opt_src f)).
  destruct (lookup (opt_src f) l) as [v|]; destruct (lookup (opt_src f) l') as [v'|]; try contradiction; [|exact I].
  rewrite <- (is_none_val_same _ _ H). destruct (is_none_val v); [exact I|exact H].
Qed.

Lemma options_same : forall opt l l', dto_same l l' ->
  veqb false (field_merger (MMerge []) "options") (VObj (peer_options opt l)) (VObj (peer_options opt l')) = true.
Proof.
  intros opt l l' H. cbn [field_merger lookup veqb]. apply andb_true_iff. split.
  - apply sub_entries_weak. intros f v Hin. destruct (po_In _ _ _ _ Hin) as [S P].
    pose proof (po_val_same l l' f H) as Q. rewrite P in Q.
    destruct (po_val l' f) as [v'|] eqn:P'; [|contradiction]. exists v'. split.
    + rewrite po_lookup, S. exact P'.
    + cbn [field_merger]. apply veqb_of_value_eqb; [discriminate|exact Q].
  - apply forallb_forall. intros [f v'] Hin. cbn [fst]. destruct (po_In _ _ _ _ Hin) as [S P'].
    pose proof (po_val_same l l' f H) as Q. rewrite P' in Q.
    destruct (po_val l f) as [v|] eqn:P; [|contradiction]. unfold mem. rewrite po_lookup, S, P. reflexivity.
Qed.

Definition osame_peer (a b : option entries) : Prop :=
  match a, b with
  | Some p, Some q => peer_eqb p q = true
  | None, None => True
  | _, _ => False
  end.

Lemma mk_peer_same : forall opt l l' c c' host i,
  dto_same l l' -> dto_same c c' -> osame_peer (mk_peer opt l c host i) (mk_peer opt l' c' host i).
Proof.
  intros opt l l' c c' host i L C. unfold mk_peer. rewrite (ip_val_same c c' C).
  destruct (ip_val (lookup "addr" c')) as [a|] eqn:Ea; [|exact I].
  pose proof (C "asnum") as A.
  destruct (lookup "asnum" c) as [asn|]; destruct (lookup "asnum" c') as [asn'|]; try contradiction; [|exact I].
  cbn [osame_peer]. unfold peer_eqb. cbn [veqb]. apply andb_true_iff. split; [|reflexivity].
  assert (Ra : value_eqb a a = true).
  { unfold ip_val in Ea. destruct (lookup "addr" c') as [[[| |s| |]| | | |]|]; try discriminate.
    injection Ea as Ea. subst a. cbn. apply String.eqb_refl. }
  apply sub_entries_weak. intros f v Hin. cbn [In] in Hin.
  repeat (destruct Hin as [E|Hin];
          [injection E as E1 E2; subst f v; eexists; split; [reflexivity|];
           first [ apply options_same; exact L
                 | apply veqb_peer_field;
                   first [ exact A | exact Ra | apply dflt_same; [assumption|reflexivity]
                         | apply value_eqb_refl; destruct i; reflexivity | apply value_eqb_refl; reflexivity ] ]|]).
  destruct Hin.
Qed.

(* ---- the effect of a conversion step on two sessions the conversion cannot tell apart ------------------- *)

Definition peq (p q : entries) : Prop := peer_eqb p q = true.

Definition eff_rel (e e' : eff) : Prop :=
  peq (fst (fst e)) (fst (fst e')) /\ snd (fst e) = snd (fst e') /\ snd e = snd e'.

Definition geff_rel (a b : fail + eff) : Prop :=
  match a, b with
  | inl _, inl _ => True
  | inr e, inr e' => eff_rel e e'
  | _, _ => False
  end.

Lemma g_cd_same : forall connections opt nm device x y,
  prel x y -> geff_rel (g_cd connections opt nm device x) (g_cd connections opt nm device y).
Proof.
  intros connections opt nm device x y [E [L [C P]]]. unfold g_cd. cbv zeta.
  rewrite <- (tic_same _ _ L), <- P, <- E.
  destruct (to_interface_changes (obj_of "local" (snd x))) as [e|ch]; [exact I|].
  destruct (direct_eff nm (connections device (fst (fst (fst x)))) (strs_of "ports" (snd x)) ch) as [e|[t names]];
    [exact I|].
  pose proof (mk_peer_same opt _ _ _ _ (fst (fst (fst x))) (Some t) L C) as M.
  destruct (mk_peer opt (obj_of "local" (snd x)) (obj_of "connected" (snd x)) (fst (fst (fst x))) (Some t));
    destruct (mk_peer opt (obj_of "local" (snd y)) (obj_of "connected" (snd y)) (fst (fst (fst x))) (Some t));
    cbn in M; try contradiction; [|exact I].
  cbn. split; [exact M|split; reflexivity].
Qed.

Lemma g_ci_same : forall opt nm ifs0 x y,
  prel x y -> geff_rel (g_ci opt nm ifs0 x) (g_ci opt nm ifs0 y).
Proof.
  intros opt nm ifs0 x y [E [L [C P]]]. unfold g_ci. cbv zeta.
  rewrite <- (tic_same _ _ L), <- (opt_str_same _ _ L "ifname"), <- E.
  destruct (to_interface_changes (obj_of "local" (snd x))) as [e|ch]; [exact I|].
  destruct (opt_str "ifname" (obj_of "local" (snd x))) as [e|ifn]; [exact I|].
  destruct (indirect_eff nm ifs0 ifn ch) as [e|[[t names]|]]; [exact I| |].
  - pose proof (mk_peer_same opt _ _ _ _ (fst (fst (fst x))) (Some t) L C) as M.
    destruct (mk_peer opt (obj_of "local" (snd x)) (obj_of "connected" (snd x)) (fst (fst (fst x))) (Some t));
      destruct (mk_peer opt (obj_of "local" (snd y)) (obj_of "connected" (snd y)) (fst (fst (fst x))) (Some t));
      cbn in M; try contradiction; [|exact I].
    cbn. split; [exact M|split; reflexivity].
  - pose proof (mk_peer_same opt _ _ _ _ (fst (fst (fst x))) None L C) as M.
    destruct (mk_peer opt (obj_of "local" (snd x)) (obj_of "connected" (snd x)) (fst (fst (fst x))) None);
      destruct (mk_peer opt (obj_of "local" (snd y)) (obj_of "connected" (snd y)) (fst (fst (fst x))) None);
      cbn in M; try contradiction; [|exact I].
    cbn. split; [exact M|split; reflexivity].
Qed.

(* a virtual pair whose attribute values are all plain (== is reflexive on them) *)
Definition vrel (x y : entries * entries) : Prop :=
  x = y /\ dto_same (fst x) (fst x) /\ dto_same (snd x) (snd x).

Lemma g_cv_same : forall opt nm x y, vrel x y -> geff_rel (g_cv opt nm x) (g_cv opt nm y).
Proof.
  intros opt nm x y [E [L C]]. subst y. unfold g_cv.
  destruct (lookup "svi" (fst x)) as [[[z| | | |]| | | |]|]; try exact I.
  pose proof (mk_peer_same opt _ _ _ _ "" (Some (svi_name nm z)) L C) as M.
  destruct (mk_peer opt (fst x) (snd x) "" (Some (svi_name nm z))); cbn in M; [|exact I].
  cbn. split; [exact M|split; reflexivity].
Qed.

Lemma guard_same : forall ifs0 x y, prel x y -> plain_ifname_known ifs0 x -> plain_ifname_known ifs0 y.
Proof.
  intros ifs0 x y [E [L [C P]]] G ch i H1 H2. 
  rewrite <- (tic_same _ _ L) in H1. rewrite <- (opt_str_same _ _ L "ifname") in H2. apply (G ch i H1 H2).
Qed.

Lemma gmap_F2 : forall (X : Type) (g : X -> fail + eff) (R : X -> X -> Prop),
  (forall x y, R x y -> geff_rel (g x) (g y)) ->
  forall xs ys, Forall2 R xs ys ->
  match gmap X g xs, gmap X g ys with
  | inl _, inl _ => True
  | inr es, inr es' => Forall2 eff_rel es es'
  | _, _ => False
  end.
Proof.
  intros X g R H xs ys F. induction F as [|x y xs ys Rxy F IH].
  - cbn. constructor.
  - cbn [gmap]. pose proof (H x y Rxy) as Q.
    destruct (g x) as [e|e]; destruct (g y) as [e'|e']; cbn in Q; try contradiction; [exact I|].
    destruct (gmap X g xs); destruct (gmap X g ys); try contradiction; try exact I.
    constructor; assumption.
Qed.

Lemma eff_rel_lists : forall es es', Forall2 eff_rel es es' ->
  Forall2 peq (map (fun e : eff => fst (fst e)) es) (map (fun e : eff => fst (fst e)) es') /\
  eff_names es = eff_names es' /\ eff_log es = eff_log es'.
Proof.
  intros es es' F. induction F as [|e e' es es' [R1 [R2 R3]] F [IH1 [IH2 IH3]]].
  - repeat split. constructor.
  - split; [cbn [map]; constructor; assumption|]. unfold eff_names, eff_log in *. cbn [flat_map].
    rewrite R2, R3, IH2, IH3. split; reflexivity.
Qed.

Definition conv_rel (a b : fail + (list entries * dev)) : Prop :=
  match a, b with
  | inl _, inl _ => True
  | inr (ps, d), inr (ps', d') => Forall2 peq ps ps' /\ d = d'
  | _, _ => False
  end.

Lemma cloop_F2 : forall (X : Type) step g ifs0 (Good : X -> Prop) (R : X -> X -> Prop),
  (forall x d, Good x -> covers ifs0 d ->
     step x d = match g x with inl e => inl e | inr e => inr (run_eff e d) end) ->
  (forall x y, R x y -> geff_rel (g x) (g y)) ->
  forall xs ys d, Forall Good xs -> Forall Good ys -> Forall2 R xs ys -> covers ifs0 d ->
    conv_rel (cloop X step xs d) (cloop X step ys d) /\
    (forall ps d1, cloop X step xs d = inr (ps, d1) -> covers ifs0 d1).
Proof.
  intros X step g ifs0 Good R Hstep HR xs ys d Gx Gy F C. split.
  - rewrite (cloop_spec X step g ifs0 Good Hstep xs d Gx C), (cloop_spec X step g ifs0 Good Hstep ys d Gy C).
    pose proof (gmap_F2 X g R HR xs ys F) as Q.
    destruct (gmap X g xs) as [e|es]; destruct (gmap X g ys) as [e'|es']; try contradiction; [exact I|].
    destruct (eff_rel_lists _ _ Q) as [Q1 [Q2 Q3]]. cbn. rewrite Q2, Q3. split; [exact Q1|reflexivity].
  - destruct (cloop_perm X step g ifs0 Good Hstep xs xs d d Gx (Permutation_refl _) C C (dev_same_refl d))
      as [_ [K _]]. exact K.
Qed.

Lemma Forall_True : forall (X : Type) (l : list X), Forall (fun _ => True) l.
Proof. intros X l. apply Forall_forall. intros; exact I. Qed.

Lemma conv_all_F2 : forall connections opt nm device dp dp0 vp vp0 ip ip0 d0,
  Forall2 prel dp dp0 -> Forall2 vrel vp vp0 -> Forall2 prel ip ip0 ->
  Forall (plain_ifname_known (d_ifs d0)) ip -> Forall (plain_ifname_known (d_ifs d0)) ip0 ->
  conv_rel (conv_all connections opt nm device dp vp ip d0) (conv_all connections opt nm device dp0 vp0 ip0 d0).
Proof.
  intros connections opt nm device dp dp0 vp vp0 ip ip0 d0 F1 F2 F3 G G0. unfold conv_all.
  assert (C0 : covers (d_ifs d0) d0) by (intros i Hi; exact Hi).
  rewrite !conv_direct_cloop.
  destruct (cloop_F2 _ (step_cd connections opt nm device) (g_cd connections opt nm device) (d_ifs d0)
              (fun _ => True) prel (fun x d _ _ => step_cd_eff connections opt nm device x d)
              (g_cd_same connections opt nm device) dp dp0 d0 (Forall_True _ _) (Forall_True _ _) F1 C0) as [S1 K1].
  destruct (cloop _ (step_cd connections opt nm device) dp d0) as [e|[p1 d1]];
    destruct (cloop _ (step_cd connections opt nm device) dp0 d0) as [e'|[p1' d1']]; cbn in S1;
    try contradiction; [exact I|].
  destruct S1 as [Q1 E1]. subst d1'. specialize (K1 p1 d1 eq_refl).
  rewrite !conv_virtual_cloop.
  destruct (cloop_F2 _ (step_cv opt nm) (g_cv opt nm) (d_ifs d0)
              (fun _ => True) vrel (fun x d _ _ => step_cv_eff opt nm x d)
              (g_cv_same opt nm) vp vp0 d1 (Forall_True _ _) (Forall_True _ _) F2 K1) as [S2 K2].
  destruct (cloop _ (step_cv opt nm) vp d1) as [e|[p2 d2]];
    destruct (cloop _ (step_cv opt nm) vp0 d1) as [e'|[p2' d2']]; cbn in S2;
    try contradiction; [exact I|].
  destruct S2 as [Q2 E2]. subst d2'. specialize (K2 p2 d2 eq_refl).
  rewrite !conv_indirect_cloop.
  destruct (cloop_F2 _ (step_ci opt nm) (g_ci opt nm (d_ifs d0)) (d_ifs d0)
              (plain_ifname_known (d_ifs d0)) prel (fun x d Gx Cx => step_ci_eff opt nm (d_ifs d0) x d Gx Cx)
              (g_ci_same opt nm (d_ifs d0)) ip ip0 d2 G G0 F3 K2) as [S3 _].
  destruct (cloop _ (step_ci opt nm) ip d2) as [e|[p3 d3]];
    destruct (cloop _ (step_ci opt nm) ip0 d2) as [e'|[p3' d3']]; cbn in S3;
    try contradiction; [exact I|].
  destruct S3 as [Q3 E3]. subst d3'. cbn. split; [|reflexivity].
  apply Forall2_app; [exact Q1|]. apply Forall2_app; assumption.
Qed.

(* ---- from "related after a permutation" to peers_same / mset_eqb ------------------------------------------ *)

Lemma F2_In : forall (A B : Type) (R : A -> B -> Prop) l l' x,
  Forall2 R l l' -> In x l -> exists y, In y l' /\ R x y.
Proof.
  intros A B R l l' x F. induction F as [|a b l l' Rab F IH]; intros Hin; [destruct Hin|].
  destruct Hin as [E|Hin].
  - subst a. exists b. split; [left; reflexivity|exact Rab].
  - destruct (IH Hin) as [y [H1 H2]]. exists y. split; [right; exact H1|exact H2].
Qed.

Lemma F2_length : forall (A B : Type) (R : A -> B -> Prop) l l', Forall2 R l l' -> List.length l = List.length l'.
Proof. intros A B R l l' F. induction F; cbn; [reflexivity|rewrite IHF; reflexivity]. Qed.

Lemma F2_flip : forall (A : Type) (R : A -> A -> Prop) l l',
  (forall x y, R x y -> R y x) -> Forall2 R l l' -> Forall2 R l' l.
Proof. intros A R l l' S F. induction F; constructor; auto. Qed.

Lemma F2_Forall : forall (A : Type) (R : A -> A -> Prop) (P : A -> Prop) l l',
  (forall x y, R x y -> P x -> P y) -> Forall2 R l l' -> Forall P l -> Forall P l'.
Proof.
  intros A R P l l' H F. induction F as [|a b l l' Rab F IH]; intros HP; [constructor|].
  inversion HP as [|? ? Pa Pl]. subst. constructor; [apply (H a b Rab Pa)|apply IH; exact Pl].
Qed.

Lemma F2_diag : forall (A : Type) (R : A -> A -> Prop) l, Forall (fun x => R x x) l -> Forall2 R l l.
Proof. intros A R l H. induction H; constructor; assumption. Qed.

Lemma count_perm : forall (A : Type) (eqb : A -> A -> bool) x a b,
  Permutation a b -> count eqb x a = count eqb x b.
Proof.
  intros A eqb x a b HP. unfold count. induction HP as [|y l l' HP IH|y z l|l l' l'' HP1 IH1 HP2 IH2]; cbn [filter].
  - reflexivity.
  - destruct (eqb x y); cbn [List.length]; rewrite IH; reflexivity.
  - destruct (eqb x y); destruct (eqb x z); reflexivity.
  - rewrite IH1. exact IH2.
Qed.

Lemma mset_eqb_perm : forall (A : Type) (eqb : A -> A -> bool) a b, Permutation a b -> mset_eqb eqb a b = true.
Proof.
  intros A eqb a b HP. unfold mset_eqb. rewrite (Permutation_length HP), Nat.eqb_refl. cbn [andb].
  apply forallb_forall. intros x _. apply Nat.eqb_eq. apply count_perm. exact HP.
Qed.

Definition xfor_same (a b : fail + (list entries * dev)) : Prop :=
  match a, b with
  | inl _, inl _ => True
  | inr (ps, d), inr (ps', d') =>
    peers_same ps ps' = true /\ mset_eqb logrec_eqb (d_log d) (d_log d') = true
  | _, _ => False
  end.

Lemma conv_all_sessions : forall connections opt nm device dp dp' dp0 vp vp' ip ip' ip0 d0,
  Permutation dp0 dp' -> Forall2 prel dp dp0 ->
  Permutation ip0 ip' -> Forall2 prel ip ip0 ->
  Permutation vp vp' -> Forall (fun x => vrel x x) vp ->
  Forall (plain_ifname_known (d_ifs d0)) ip ->
  xfor_same (conv_all connections opt nm device dp vp ip d0) (conv_all connections opt nm device dp' vp' ip' d0).
Proof.
  intros connections opt nm device dp dp' dp0 vp vp' ip ip' ip0 d0 P1 F1 P3 F3 Pv Fv G.
  assert (G0 : Forall (plain_ifname_known (d_ifs d0)) ip0).
  { apply (F2_Forall _ prel _ ip ip0); [|exact F3|exact G]. intros x y Rxy Gx. apply (guard_same _ x y Rxy Gx). }
  pose proof (F2_diag _ vrel vp Fv) as F2.
  pose proof (conv_all_F2 connections opt nm device dp dp0 vp vp ip ip0 d0 F1 F2 F3 G G0) as A.
  pose proof (conv_all_F2 connections opt nm device dp0 dp vp vp ip0 ip d0
                (F2_flip _ prel _ _ prel_sym F1) F2 (F2_flip _ prel _ _ prel_sym F3) G0 G) as B.
  pose proof (conv_all_perm connections opt nm device dp0 dp' vp vp' ip0 ip' d0 P1 Pv P3 G0) as C.
  destruct (conv_all connections opt nm device dp vp ip d0) as [e|[ps d]];
    destruct (conv_all connections opt nm device dp0 vp ip0 d0) as [e0|[ps0 dd]];
    destruct (conv_all connections opt nm device dp' vp' ip' d0) as [e'|[ps' d']];
    cbn in A, B, C |- *; try contradiction; try exact I.
  destruct A as [A1 A2]. destruct B as [B1 _]. destruct C as [C1 [_ C2]]. subst dd. split.
  - unfold peers_same. apply andb_true_iff. split; [apply andb_true_iff; split|].
    + apply Nat.eqb_eq. rewrite (F2_length _ _ _ _ _ A1). apply Permutation_length. exact C1.
    + apply forallb_forall. intros p Hp. destruct (F2_In _ _ _ _ _ _ A1 Hp) as [q [Hq R]].
      apply existsb_exists. exists q. split; [apply (Permutation_in _ C1 Hq)|exact R].
    + apply forallb_forall. intros q Hq. pose proof (Permutation_in _ (Permutation_sym C1) Hq) as Hq0.
      destruct (F2_In _ _ _ _ _ _ B1 Hq0) as [p [Hp R]]. apply existsb_exists. exists p. split; assumption.
  - apply mset_eqb_perm. exact C2.
Qed.

(* sessions of one run matched one-to-one with the sessions of the other *)
Lemma match_perm : forall (R : peer_key * entries -> peer_key * entries -> Prop) a b,
  kdist a ->
  (forall x, In x a -> exists y, In y b /\ key_eqb (fst x) (fst y) = true /\ R x y) ->
  List.length a = List.length b ->
  exists b0, Permutation b0 b /\ Forall2 R a b0.
Proof.
  intros R. induction a as [|[k p] a1 IH]; intros b D H L.
  - destruct b; [|discriminate]. exists []. split; constructor.
  - destruct D as [D1 D2]. destruct (H (k, p) (or_introl eq_refl)) as [[k' p'] [Hin [K Rx]]]. cbn [fst] in K.
    apply in_split in Hin. destruct Hin as [l1 [l2 E]]. subst b.
    destruct (IH (l1 ++ l2) D2) as [b1 [Pb Fb]].
    + intros [k1 p1] Hin1. destruct (H (k1, p1) (or_intror Hin1)) as [[k2 p2] [Hin2 [K2 R2]]]. cbn [fst] in K2.
      apply in_app_or in Hin2. destruct Hin2 as [Hin2|[E|Hin2]].
      * exists (k2, p2). split; [apply in_or_app; left; exact Hin2|split; assumption].
      * injection E as E1 E2. subst k2 p2. exfalso.
        pose proof (key_eqb_trans _ _ _ K (key_eqb_sym _ _ K2)) as T. rewrite (D1 k1 p1 Hin1) in T. discriminate.
      * exists (k2, p2). split; [apply in_or_app; right; exact Hin2|split; assumption].
    + rewrite app_length in *. cbn [List.length] in L. lia.
    + exists ((k', p') :: b1). split; [apply Permutation_cons_app; exact Pb|constructor; assumption].
Qed.

(* ---- what the keyed loops return: distinct keys, well-formed pairs ------------------------------------------ *)

Lemma upsert_wf : forall sch k p acc acc',
  upsert sch k p acc = Ok acc' -> wf_obj sch p = true ->
  Forall (fun kp => wf_obj sch (snd kp) = true) acc -> Forall (fun kp => wf_obj sch (snd kp) = true) acc'.
Proof.
  intros sch k p. induction acc as [|[k' p'] rest IH]; intros acc' H Wp F.
  - cbn in H. injection H as H. subst acc'. constructor; [exact Wp|constructor].
  - cbn [upsert] in H. inversion F as [|? ? Wk Wr]. subst. cbn [snd] in Wk. destruct (key_eqb k k').
    + destruct (merge sch p' p) as [pp|e] eqn:M; [|discriminate]. injection H as H. subst acc'.
      constructor; [apply (merge_wf _ _ _ _ Wk Wp M)|exact Wr].
    + destruct (upsert sch k p rest) as [rest'|e] eqn:U; [|discriminate]. injection H as H. subst acc'.
      constructor; [exact Wk|apply (IH rest' eq_refl Wp Wr)].
Qed.

Lemma gfold_inv : forall (W : Type) (item : W -> xerr + option (peer_key * entries)) sch work acc r,
  (forall w k p, In w work -> item w = inr (Some (k, p)) -> wf_obj sch p = true) ->
  kdist acc -> Forall (fun kp => wf_obj sch (snd kp) = true) acc ->
  gfold W item sch work acc = inr r ->
  kdist r /\ Forall (fun kp => wf_obj sch (snd kp) = true) r.
Proof.
  intros W item sch. induction work as [|w rest IH]; intros acc r HI D F H.
  - cbn in H. injection H as H. subst r. split; assumption.
  - assert (HI' : forall w0 k p, In w0 rest -> item w0 = inr (Some (k, p)) -> wf_obj sch p = true)
      by (intros w0 k p Hin; apply (HI w0 k p); right; exact Hin).
    cbn [gfold] in H. destruct (item w) as [e|[[k p]|]] eqn:Ew; [discriminate| |].
    + destruct (upsert sch k p acc) as [acc1|e] eqn:U; [|discriminate].
      apply (IH acc1 r HI' (upsert_kdist _ _ _ _ _ U D)
                (upsert_wf _ _ _ _ _ U (HI w k p (or_introl eq_refl) Ew) F) H).
    + apply (IH acc r HI' D F H).
Qed.

Lemma lookup_drop_keep : forall f g sch m, lookup g (drop_field f sch) = Some m -> lookup g sch = Some m.
Proof. intros f g sch m H. rewrite lookup_drop_field in H. destruct (String.eqb g f); [discriminate|exact H]. Qed.

Section LoopFacts.
  Variable f : string.
  Variable dto sch_pair : schema.
  Hypothesis N : nodupb (keys (drop_field f sch_pair)) = true.
  Hypothesis Hl : lookup "local" (drop_field f sch_pair) = Some (MMerge dto).
  Hypothesis Hc : lookup "connected" (drop_field f sch_pair) = Some (MMerge dto).

  Lemma item_indirect_facts : forall ihandler device m k p,
    handler_wf dto ihandler -> item_indirect ihandler dto device m = inr (Some (k, p)) ->
    wf_obj (drop_field f sch_pair) p = true /\ lookup f p = None.
  Proof.
    intros ihandler device m k p HW Hi. unfold item_indirect in Hi.
    destruct (execute_direct_pair ihandler dto device (other_end m) m []) as [[[loc con]|e]|] eqn:E; try discriminate.
    destruct (lookup "addr" con); [|discriminate]. injection Hi as Hk Hp. subst p.
    destruct (edp_wf _ _ _ _ _ _ _ _ HW E) as [Wl Wc]. split.
    - apply (mk_pair_ind_wf _ dto); assumption.
    - unfold mk_pair_ind. cbn [lookup].
      rewrite (String.eqb_sym f "local"), (lookup_drop_some _ _ _ _ Hl).
      rewrite (String.eqb_sym f "connected"), (lookup_drop_some _ _ _ _ Hc). reflexivity.
  Qed.

  Lemma execute_indirect_facts : forall imatches ihandler rules device all r,
    handler_wf dto ihandler ->
    execute_indirect imatches ihandler dto sch_pair rules device all = inr r ->
    kdist r /\ Forall (fun kp => wf_obj (drop_field f sch_pair) (snd kp) = true) r.
  Proof.
    intros imatches ihandler rules device all r HW H. unfold execute_indirect in H.
    rewrite fold_indirect_gfold in H.
    destruct (gfold_drop _ (item_indirect ihandler dto device) f sch_pair
                (lookup_direct imatches rules device all) []) as [E _].
    - intros m k p _ Hi. apply (item_indirect_facts _ _ _ _ _ HW Hi).
    - intros ? ? [].
    - rewrite E in H. apply (gfold_inv _ _ _ _ [] _ (fun m k p _ Hi => proj1 (item_indirect_facts _ _ _ _ _ HW Hi))
                               I (Forall_nil _) H).
  Qed.

  Hypothesis Hp : lookup "ports" (drop_field f sch_pair) = Some MForbidChange.

  Lemma item_direct_facts : forall handler device w k p,
    handler_wf dto handler -> item_direct handler dto device w = inr (Some (k, p)) ->
    wf_obj (drop_field f sch_pair) p = true /\ lookup f p = None.
  Proof.
    intros handler device [m ports] k p HW Hi. unfold item_direct in Hi. cbn [fst snd] in Hi.
    destruct (execute_direct_pair handler dto device (other_end m) m ports) as [[[loc con]|e]|] eqn:E; try discriminate.
    destruct (lookup "addr" con); [|discriminate]. injection Hi as Hk Hpp. subst p.
    destruct (edp_wf _ _ _ _ _ _ _ _ HW E) as [Wl Wc]. split.
    - apply (mk_pair_wf _ dto); assumption.
    - unfold mk_pair. cbn [lookup].
      rewrite (String.eqb_sym f "local"), (lookup_drop_some _ _ _ _ Hl).
      rewrite (String.eqb_sym f "connected"), (lookup_drop_some _ _ _ _ Hc).
      rewrite (String.eqb_sym f "ports"), (lookup_drop_some _ _ _ _ Hp). reflexivity.
  Qed.

  Lemma execute_direct_facts : forall matches handler connections rules device nbs r,
    handler_wf dto handler ->
    execute_direct matches handler connections dto sch_pair rules device nbs = inr r ->
    kdist r /\ Forall (fun kp => wf_obj (drop_field f sch_pair) (snd kp) = true) r.
  Proof.
    intros matches handler connections rules device nbs r HW H. unfold execute_direct in H.
    fold (direct_work connections device (lookup_direct matches rules device nbs)) in H.
    rewrite fold_steps_gfold in H.
    destruct (gfold_drop _ (item_direct handler dto device) f sch_pair
                (direct_work connections device (lookup_direct matches rules device nbs)) []) as [E _].
    - intros w k p _ Hi. apply (item_direct_facts _ _ _ _ _ HW Hi).
    - intros ? ? [].
    - rewrite E in H. apply (gfold_inv _ _ _ _ [] _ (fun w k p _ Hi => proj1 (item_direct_facts _ _ _ _ _ HW Hi))
                               I (Forall_nil _) H).
  Qed.
End LoopFacts.

(* ---- virtual pairs of well-formed flat DTOs hold plain values only ------------------------------------------ *)

Lemma flat_wf_refl : forall dto o, flat_schema dto = true -> wf_obj dto o = true -> dto_same o o.
Proof.
  intros dto o HF W g. destruct (lookup g o) as [v|] eqn:E; [|exact I].
  destruct (wf_obj_wfe _ _ W) as [_ We]. destruct (wf_entries_lookup _ _ _ _ _ We E) as [m [Hm Hv]].
  apply value_eqb_refl. destruct (flat_field _ _ _ HF Hm) as [Em|Em]; subst m.
  - apply (wf_plain MForbidChange); [exact I|exact Hv].
  - destruct v; cbn in Hv; try discriminate; reflexivity.
Qed.

Definition vhandler_wf (sch_vlocal sch_vpeer : schema) (vhandler : nat -> string -> Z -> entries * entries * entries) : Prop :=
  forall id d n,
    wf_obj sch_vlocal (fst (fst (vhandler id d n))) = true /\
    wf_obj sch_vpeer (snd (fst (vhandler id d n))) = true /\
    wf_obj sch_vlocal (snd (vhandler id d n)) = true /\
    wf_obj sch_vpeer (snd (vhandler id d n)) = true.

Lemma execute_virtual_plain : forall vmatches vhandler sch_vlocal sch_vpeer vrules device vp,
  flat_schema sch_vlocal = true -> flat_schema sch_vpeer = true -> vhandler_wf sch_vlocal sch_vpeer vhandler ->
  execute_virtual vmatches vhandler sch_vlocal sch_vpeer vrules device = inr vp ->
  Forall (fun x => vrel x x) vp.
Proof.
  intros vmatches vhandler sch_vlocal sch_vpeer vrules device vp FL FP HW H. unfold execute_virtual in H.
  revert vp H. generalize (flat_map (fun r => if vmatches (v_id r) device then map (fun n => (r, n)) (v_nums r) else []) vrules).
  induction l as [|[r n] rest IH]; intros vp H.
  - cbn in H. injection H as H. subst vp. constructor.
  - cbn [fold_virtual] in H.
    destruct (virtual_pair vhandler sch_vlocal sch_vpeer device r n) as [[e|[dd vd]]|] eqn:V; [discriminate| |].
    + destruct (fold_virtual vhandler sch_vlocal sch_vpeer device rest) as [e|ps]; [discriminate|].
      injection H as H. subst vp. constructor; [|apply (IH ps eq_refl)].
      unfold virtual_pair in V. pose proof (HW (v_id r) device n) as W4.
      destruct (vhandler (v_id r) device n) as [[l v] s]. cbn [fst snd] in W4. destruct W4 as [W1 [W2 [W3 W4]]].
      destruct (is_empty v && is_empty l && is_empty s); [discriminate|].
      destruct (merge_all sch_vpeer [] [v; s]) as [vd0|e] eqn:E1; [|discriminate].
      destruct (merge_all sch_vlocal [] [l; s]) as [dd0|e] eqn:E2; [|discriminate].
      destruct (mem "svi" dd0); [|discriminate]. injection V as V1 V2. subst dd vd.
      split; [reflexivity|]. cbn [fst snd]. split.
      * apply (flat_wf_refl sch_vlocal); [exact FL|].
        apply (merge_all_wf _ _ _ _ (wf_obj_nil _ _ W1) (Forall_cons _ W1 (Forall_cons _ W3 (Forall_nil _))) E2).
      * apply (flat_wf_refl sch_vpeer); [exact FP|].
        apply (merge_all_wf _ _ _ _ (wf_obj_nil _ _ W2) (Forall_cons _ W2 (Forall_cons _ W4 (Forall_nil _))) E1).
    + apply (IH vp H).
Qed.

(* ---- the theorem ---------------------------------------------------------------------------------------------- *)

Lemma flat_scalar : forall dto g, flat_schema dto = true -> forall m, lookup g dto = Some m -> scalar m = true.
Proof. intros dto g HF m Hm. destruct (flat_field _ _ _ HF Hm) as [E|E]; subst m; reflexivity. Qed.

Theorem execute_for_perm_flat :
  forall dmatches dhandler imatches ihandler vmatches vhandler connections dto sch_vlocal sch_vpeer sch_pair
         opt_fields nm drules drules' irules irules' vrules vrules' device nbs all d0,
    order_free (MMerge (drop_field "device" sch_pair)) = true ->
    nodupb (keys (drop_field "device" sch_pair)) = true ->
    lookup "local" (drop_field "device" sch_pair) = Some (MMerge dto) ->
    lookup "connected" (drop_field "device" sch_pair) = Some (MMerge dto) ->
    lookup "ports" (drop_field "device" sch_pair) = Some MForbidChange ->
    flat_schema dto = true ->
    handler_wf dto dhandler -> handler_wf dto ihandler ->
    flat_schema sch_vlocal = true -> flat_schema sch_vpeer = true ->
    vhandler_wf sch_vlocal sch_vpeer vhandler ->
    Permutation drules drules' -> Permutation irules irules' -> Permutation vrules vrules' ->
    (forall ip, execute_indirect imatches ihandler dto sch_pair irules device all = inr ip ->
                Forall (plain_ifname_known (d_ifs d0)) ip) ->
    match execute_for dmatches dhandler imatches ihandler vmatches vhandler connections
                      dto dto sch_vlocal sch_vpeer sch_pair opt_fields nm drules irules vrules device nbs all d0,
          execute_for dmatches dhandler imatches ihandler vmatches vhandler connections
                      dto dto sch_vlocal sch_vpeer sch_pair opt_fields nm drules' irules' vrules' device nbs all d0 with
    | inl _, inl _ => True
    | inr (ps, d), inr (ps', d') =>
      peers_same ps ps' = true /\ mset_eqb logrec_eqb (d_log d) (d_log d') = true
    | _, _ => False
    end.
Proof.
  intros dmatches dhandler imatches ihandler vmatches vhandler connections dto sch_vlocal sch_vpeer sch_pair
         opt_fields nm drules drules' irules irules' vrules vrules' device nbs all d0
         HF N Hl Hc Hp FD Wd Wi FL FP Wv Pd Pi Pv G.
  pose proof (flat_scalar dto "addr" FD) as Sa. pose proof (flat_scalar dto "vrf" FD) as Sv.
  pose proof (execute_direct_perm_unset_field "device" dmatches dhandler connections dto sch_pair drules drules'
                device nbs HF N Hl Hc Hp Wd Sa Sv Pd) as Td.
  pose proof (execute_indirect_perm_unset_field "device" imatches ihandler dto sch_pair irules irules'
                device all HF N Hl Hc Wi Sa Sv Pi) as Ti.
  pose proof (execute_virtual_perm vmatches vhandler sch_vlocal sch_vpeer vrules vrules' device Pv) as Tv.
  change (xfor_same
            (xfor dmatches dhandler imatches ihandler vmatches vhandler connections dto dto sch_vlocal sch_vpeer
                  sch_pair opt_fields nm drules irules vrules device nbs all d0)
            (xfor dmatches dhandler imatches ihandler vmatches vhandler connections dto dto sch_vlocal sch_vpeer
                  sch_pair opt_fields nm drules' irules' vrules' device nbs all d0)).
  assert (Hfail : forall a b : fail + (list entries * dev),
             (exists e, a = inl e) -> (exists e, b = inl e) -> xfor_same a b).
  { intros a b [e Ea] [e' Eb]. subst. exact I. }
  destruct (execute_direct dmatches dhandler connections dto sch_pair drules device nbs) as [e|dp] eqn:E1;
    destruct (execute_direct dmatches dhandler connections dto sch_pair drules' device nbs) as [e'|dp'] eqn:E1';
    try contradiction.
  { apply Hfail; apply execute_for_loop_fails; left; eexists; eassumption. }
  destruct (execute_virtual vmatches vhandler sch_vlocal sch_vpeer vrules device) as [e|vp] eqn:E2;
    destruct (execute_virtual vmatches vhandler sch_vlocal sch_vpeer vrules' device) as [e'|vp'] eqn:E2';
    try contradiction.
  { apply Hfail; apply execute_for_loop_fails; right; left; eexists; eassumption. }
  destruct (execute_indirect imatches ihandler dto sch_pair irules device all) as [e|ip] eqn:E3;
    destruct (execute_indirect imatches ihandler dto sch_pair irules' device all) as [e'|ip'] eqn:E3';
    try contradiction.
  { apply Hfail; apply execute_for_loop_fails; right; right; eexists; eassumption. }
  rewrite (execute_for_as_conv_all _ _ _ _ _ _ _ _ _ _ _ _ opt_fields nm _ _ _ _ _ _ d0 _ _ _ E1 E2 E3),
          (execute_for_as_conv_all _ _ _ _ _ _ _ _ _ _ _ _ opt_fields nm _ _ _ _ _ _ d0 _ _ _ E1' E2' E3').
  destruct (execute_direct_facts "device" dto sch_pair N Hl Hc Hp _ _ _ _ _ _ dp Wd E1) as [Dd Wdp].
  destruct (execute_indirect_facts "device" dto sch_pair N Hl Hc _ _ _ _ _ ip Wi E3) as [Di Wip].
  pose proof (lookup_drop_keep _ _ _ _ Hl) as Hl0. pose proof (lookup_drop_keep _ _ _ _ Hc) as Hc0.
  pose proof (lookup_drop_keep _ _ _ _ Hp) as Hp0.
  destruct Td as [Ld [Ad _]]. destruct Ti as [Li [Ai _]].
  destruct (match_perm prel dp dp' Dd) as [dp0 [Pd0 Fd0]]; [|exact Ld|].
  { intros [k p] Hin. destruct (Ad k p Hin) as [k' [p' [Hin' [K V]]]]. exists (k', p').
    split; [exact Hin'|]. split; [exact K|].
    rewrite Forall_forall in Wdp.
    apply (pair_prel sch_pair (drop_field "device" sch_pair) dto FD Hl0 Hc0 Hp0 Hl Hc k p k' p' (Wdp _ Hin) K V). }
  destruct (match_perm prel ip ip' Di) as [ip0 [Pi0 Fi0]]; [|exact Li|].
  { intros [k p] Hin. destruct (Ai k p Hin) as [k' [p' [Hin' [K V]]]]. exists (k', p').
    split; [exact Hin'|]. split; [exact K|].
    rewrite Forall_forall in Wip.
    apply (pair_prel sch_pair (drop_field "device" sch_pair) dto FD Hl0 Hc0 Hp0 Hl Hc k p k' p' (Wip _ Hin) K V). }
  apply (conv_all_sessions connections opt_fields nm device dp dp' dp0 vp vp' ip ip' ip0 d0 Pd0 Fd0 Pi0 Fi0 Tv).
  - apply (execute_virtual_plain vmatches vhandler sch_vlocal sch_vpeer vrules device vp FL FP Wv E2).
  - apply (G ip eq_refl).
Qed.

(* ---- non-vacuity: a flat DTO, two rules (used as direct and as indirect rules) and two virtual rules, all three
   lists in the other order; every guard holds, both runs succeed, the peers differ (order of the peers and of the
   families set), peers_same and the multiset of add_addr records hold ------------------------------------------- *)

Definition mf_dto : schema :=
  [("addr", MForbidChange); ("asnum", MForbidChange); ("families", MUnite); ("rr_client", MForbidChange);
   ("multipath", MForbidChange); ("ifname", MForbidChange)].
Definition mf_psch : schema :=
  [("local", MMerge mf_dto); ("connected", MMerge mf_dto); ("device", MUseLast); ("ports", MForbidChange)].
Definition mf_handler (id : nat) (l r : string) (_ : list string) : entries * entries * entries :=
  if String.eqb r "b1" then
    ([("addr", VAtom (AStr "172.16.0.1/32")); ("asnum", VAtom (AInt 65001)); ("rr_client", VAtom (ABool true))],
     [("addr", VAtom (AStr "172.16.0.2/32")); ("asnum", VAtom (AInt 65002))],
     (if Nat.eqb id 1 then [("multipath", VAtom (ABool true)); ("families", VSet [AStr "ipv6_unicast"])]
      else [("families", VSet [AStr "ipv4_unicast"])]))
  else
    ([("addr", VAtom (AStr "172.16.1.1/32")); ("asnum", VAtom (AInt 65001))],
     [("addr", VAtom (AStr "172.16.1.2/32")); ("asnum", VAtom (AInt 65003))],
     [("families", VSet [AStr "ipv6_unicast"])]).
Definition mf_vsch : schema := [("svi", MForbidChange); ("addr", MForbidChange); ("asnum", MForbidChange)].
Definition mf_vhandler (id : nat) (_ : string) (n : Z) : entries * entries * entries :=
  ([("svi", VAtom (AInt (Z.of_nat id * 10 + n)))],
   [("addr", VAtom (AStr "10.9.0.1")); ("asnum", VAtom (AInt 65010))], []).
Definition mf_d0 : dev := Dev ["e1"; "e2"] [].
Definition mf_opt : list string := ["local_as"; "rr_client"; "multipath"].

Lemma mf_handler_wf : handler_wf mf_dto mf_handler.
Proof.
  intros id l r ps. unfold mf_handler. destruct (String.eqb r "b1"); [destruct (Nat.eqb id 1)|];
    vm_compute; repeat split.
Qed.

Lemma mf_vhandler_wf : vhandler_wf mf_vsch mf_vsch mf_vhandler.
Proof. intros id d n. unfold mf_vhandler. cbn [fst snd]. repeat split; reflexivity. Qed.

Definition mf_run (dr ir : list rule) (vr : list vrule) : fail + (list entries * dev) :=
  execute_for mo_matches mf_handler mo_matches mf_handler mo_vmatches mf_vhandler mo_conn
              mf_dto mf_dto mf_vsch mf_vsch mf_psch mf_opt stub_naming dr ir vr "a1" ["b1"; "c1"] mo_all mf_d0.

Example execute_for_perm_flat_example :
  order_free (MMerge mf_psch) = false /\
  order_free (MMerge (drop_field "device" mf_psch)) = true /\
  nodupb (keys (drop_field "device" mf_psch)) = true /\
  lookup "local" (drop_field "device" mf_psch) = Some (MMerge mf_dto) /\
  lookup "connected" (drop_field "device" mf_psch) = Some (MMerge mf_dto) /\
  lookup "ports" (drop_field "device" mf_psch) = Some MForbidChange /\
  flat_schema mf_dto = true /\ handler_wf mf_dto mf_handler /\
  flat_schema mf_vsch = true /\ vhandler_wf mf_vsch mf_vsch mf_vhandler /\
  (forall ip, execute_indirect mo_matches mf_handler mf_dto mf_psch mo_rules "a1" mo_all = inr ip ->
              Forall (plain_ifname_known (d_ifs mf_d0)) ip) /\
  exists ps d ps' d',
    mf_run mo_rules mo_rules mo_vrules = inr (ps, d) /\
    mf_run mo_rules' mo_rules' mo_vrules' = inr (ps', d') /\
    List.length ps = 7 /\ List.length (d_log d) = 2 /\
    ps <> ps' /\ ~ Permutation ps ps' /\
    peers_same ps ps' = true /\ mset_eqb logrec_eqb (d_log d) (d_log d') = true.
Proof.
  assert (G : forall ip, execute_indirect mo_matches mf_handler mf_dto mf_psch mo_rules "a1" mo_all = inr ip ->
                         Forall (plain_ifname_known (d_ifs mf_d0)) ip).
  { intros ip H. vm_compute in H. injection H as H. subst ip.
    repeat constructor; intros ch i H1 H2 L S V Ne; vm_compute in H2; discriminate. }
  split; [reflexivity|]. split; [reflexivity|]. split; [reflexivity|]. split; [reflexivity|].
  split; [reflexivity|]. split; [reflexivity|]. split; [reflexivity|]. split; [exact mf_handler_wf|].
  split; [reflexivity|]. split; [exact mf_vhandler_wf|]. split; [exact G|].
  pose proof (execute_for_perm_flat mo_matches mf_handler mo_matches mf_handler mo_vmatches mf_vhandler mo_conn
                mf_dto mf_vsch mf_vsch mf_psch mf_opt stub_naming mo_rules mo_rules' mo_rules mo_rules'
                mo_vrules mo_vrules' "a1" ["b1"; "c1"] mo_all mf_d0
                eq_refl eq_refl eq_refl eq_refl eq_refl eq_refl mf_handler_wf mf_handler_wf eq_refl eq_refl
                mf_vhandler_wf (perm_swap _ _ _) (perm_swap _ _ _) (perm_swap _ _ _) G) as T.
  fold (mf_run mo_rules mo_rules mo_vrules) in T. fold (mf_run mo_rules' mo_rules' mo_vrules') in T.
  destruct (mf_run mo_rules mo_rules mo_vrules) as [e|[ps d]] eqn:Ea; [vm_compute in Ea; discriminate|].
  destruct (mf_run mo_rules' mo_rules' mo_vrules') as [e|[ps' d']] eqn:Eb; [vm_compute in Eb; discriminate|].
  exists ps, d, ps', d'. split; [reflexivity|]. split; [reflexivity|].
  vm_compute in Ea. vm_compute in Eb. injection Ea as Ea1 Ea2. injection Eb as Eb1 Eb2.
  split; [rewrite <- Ea1; reflexivity|]. split; [rewrite <- Ea2; reflexivity|].
  split; [rewrite <- Ea1, <- Eb1; discriminate|]. split; [|exact T].
  intros HP. assert (Hin : In (hd [] ps) ps') by (apply (Permutation_in _ HP); rewrite <- Ea1; left; reflexivity).
  rewrite <- Ea1, <- Eb1 in Hin. cbn [hd] in Hin.
  repeat (destruct Hin as [E|Hin]; [discriminate E|]). destruct Hin.
Qed.

Print Assumptions execute_for_perm_flat.
Print Assumptions conv_all_sessions.
Print Assumptions conv_all_F2.
Print Assumptions mk_peer_same.
Print Assumptions execute_for_perm_flat_example.
