(* C01 for %rewrite rules, the whole block: a block header present in old and in new whose bodies are governed by
   %rewrite rules at every depth (Spec/P_C01rw.v: wf_rw_block).
   A. the domain as a recursive proposition [rd] (from the computable [rw_dom] on the merged universe);
   B. the diff of two such bodies, in order: scan_new yields one entry per row of new, REMOVED rows are interleaved;
      [built] of it is new's body, its entries satisfy [dok] / [lvl] (Proofs/ConvergeRewrite.v);
   C. rewrite_diff clears the diff only if the two bodies are equal;
   D. the header: make_diff / make_pre / make_patch of the one-row level, prows_ok of the patch, Device.enter resets
      the block;
   E. instantiated: the patch is computed and executing the model's command paths on old yields new, equal as a forest. *)
From Coq Require Import List String Bool Arith ZArith Lia Permutation.
From Annet Require Import Base.Str Base.Tree Model.Pattern Model.Rulebook Model.Diff Model.Order Model.Patch
     Model.Blocks Model.Pipeline Model.Device Spec.P_C03 Spec.P_C01 Spec.P_C01o Spec.P_C01ord Spec.P_C01rw
     Proofs.DiffBasics Proofs.DiffProofsLib Proofs.DiffProofsAnnot Proofs.SortProofs Proofs.OrderProofs Proofs.ConvergeDevice
     Proofs.ConvergeRun Proofs.ConvergeBlocks Proofs.ConvergePre Proofs.ConvergeDiff Proofs.ConvergeSim Proofs.ConvergeOrdSeq
     Proofs.ConvergeOrdFlat Proofs.ConvergeMain Proofs.ConvergeWf Proofs.ConvergeRewrite.
Import ListNotations.
Open Scope string_scope.
Open Scope list_scope.

(* ------------------------------------------------------------------ small list facts *)
Lemma merge_nil_l b : merge [] b = b.
Proof.
  rewrite merge_unfold. cbn [map app]. apply filter_all. intros e _. reflexivity.
Qed.

Lemma keys_entry r (U : forest) : In r (keys U) -> exists tu, In (r, tu) U.
Proof. intro H. apply in_map_iff in H as ([r' tu] & E & Hin). cbn in E. subst. exists tu. exact Hin. Qed.

Lemma NoDup_map_inj_on {A B C} (f : A -> B) (g : A -> C) (l : list A) :
  NoDup (map f l) -> (forall x y, In x l -> In y l -> g x = g y -> f x = f y) -> NoDup (map g l).
Proof.
  induction l as [|a l IH]; intros Hn Hi; [constructor|]. cbn [map] in *. inversion Hn as [|x y Hx Hy]; subst.
  constructor.
  - intro Hin. apply in_map_iff in Hin as (b & E & Hb). apply Hx.
    rewrite <- (Hi b a (or_intror Hb) (or_introl eq_refl) E). apply in_map. exact Hb.
  - apply IH; [exact Hy|]. intros x y Hx' Hy' E. apply Hi; auto; now right.
Qed.

Lemma Forall2_map_both {A B C D} (R : C -> D -> Prop) (f : A -> C) (g : B -> D) l l' :
  Forall2 R (map f l) (map g l') <-> Forall2 (fun x y => R (f x) (g y)) l l'.
Proof.
  revert l'. induction l as [|a l IH]; intros [|b l']; cbn [map]; split; intro H; try constructor; try (inversion H; fail).
  - inversion H; subst. assumption.
  - inversion H; subst. apply IH. assumption.
  - inversion H; subst. assumption.
  - inversion H; subst. apply IH. assumption.
Qed.

Section Block.
  Variable rmatch : string -> string -> option (list string).
  Variable rsrc : string -> string.
  Variable rrev : string -> string.
  Variable block_exit : string.
  Variable rreverse : string -> list string -> string.
  Variable is_exit : string -> bool.

  Notation annot_f := (annot_f rmatch).
  Notation annot := (annot rmatch).
  Notation match_row := (match_row rmatch).

  (* ------------------------------------------------------------------ A. the domain *)
  Definition rw_row (rs : rset) (r : string) : Prop :=
    exists s crs, match_row r rs = Some (s, crs) /\ is_rewrite s = true /\ a_logic (mi_attrs s) = LRewrite /\
                  a_force_commit (mi_attrs s) = false /\ is_exit r = false.
  Definition rw_pair (rs : rset) (r r' : string) : Prop :=
    forall s crs s' crs', match_row r rs = Some (s, crs) -> match_row r' rs = Some (s', crs') ->
      mi_raw s = mi_raw s' /\ mi_attrs s = mi_attrs s' /\ (mi_key s = mi_key s' -> r = r').

  Inductive rd : rset -> forest -> forest -> Prop :=
  | rd_intro rs lo ln :
      NoDup (keys lo) -> NoDup (keys ln) ->
      (forall r, In r (keys lo ++ keys ln) -> rw_row rs r) ->
      (forall r r', In r (keys lo ++ keys ln) -> In r' (keys lo ++ keys ln) -> rw_pair rs r r') ->
      (forall r c s crs, In (r, c) ln -> match_row r rs = Some (s, crs) -> rd crs (bk lo r) (kids c)) ->
      rd rs lo ln.

  Lemma rd_inv rs lo ln : rd rs lo ln ->
    NoDup (keys lo) /\ NoDup (keys ln) /\
    (forall r, In r (keys lo ++ keys ln) -> rw_row rs r) /\
    (forall r r', In r (keys lo ++ keys ln) -> In r' (keys lo ++ keys ln) -> rw_pair rs r r') /\
    (forall r c s crs, In (r, c) ln -> match_row r rs = Some (s, crs) -> rd crs (bk lo r) (kids c)).
  Proof. intro H. inversion H; subst. auto 10. Qed.

  Definition dom_entry (rs : rset) (ks : forest) (e : string * tree) : bool :=
    match match_row (fst e) rs with
    | Some (s, crs) => rw_row_ok rmatch is_exit rs ks (fst e) s && rw_dom_t rmatch is_exit (snd e) crs
    | None => false
    end.

  Lemma rw_dom_unfold rs ks : rw_dom_t rmatch is_exit (T ks) rs = forallb (dom_entry rs ks) ks.
  Proof.
    cbn [rw_dom_t].
    match goal with |- ?g ks = _ => assert (H : forall l, g l = forallb (dom_entry rs ks) l) end.
    { induction l as [|[r c] l IH]; [reflexivity|]. cbn [forallb]. unfold dom_entry at 1. cbn [fst snd].
      destruct (match_row r rs) as [[s crs]|]; [|reflexivity]. rewrite IH. reflexivity. }
    apply H.
  Qed.

  Lemma bk_nodup b r t : NoDup (keys b) -> In (r, t) b -> bk b r = kids t.
  Proof. intros Hn Hi. unfold bk. rewrite (tfind_nodup r b t Hn Hi). reflexivity. Qed.
  Lemma bk_absent b r : ~ In r (keys b) -> bk b r = [].
  Proof. intro H. unfold bk. apply tfind_none in H. rewrite H. reflexivity. Qed.

  Lemma rd_of_dom : forall ln lo rs, wf lo -> wf ln -> rw_dom rmatch is_exit rs (merge lo ln) = true -> rd rs lo ln.
  Proof.
    apply (forest_sub_ind (fun ln => forall lo rs, wf lo -> wf ln -> rw_dom rmatch is_exit rs (merge lo ln) = true -> rd rs lo ln)).
    intros ln IH lo rs Hlo Hln Hd. unfold rw_dom in Hd. rewrite rw_dom_unfold in Hd. rewrite forallb_forall in Hd.
    assert (HU : forall r tu, In (r, tu) (merge lo ln) ->
              exists s crs, match_row r rs = Some (s, crs) /\ rw_row_ok rmatch is_exit rs (merge lo ln) r s = true /\
                            rw_dom_t rmatch is_exit tu crs = true).
    { intros r tu Hin. specialize (Hd _ Hin). unfold dom_entry in Hd. cbn [fst snd] in Hd.
      destruct (match_row r rs) as [[s crs]|]; [|discriminate]. apply andb_true_iff in Hd as [H1 H2].
      exists s, crs. auto. }
    assert (HK : forall r, In r (keys lo ++ keys ln) -> exists tu, In (r, tu) (merge lo ln)).
    { intros r Hr. apply keys_entry. apply in_app_or in Hr as [Hr|Hr]; [apply merge_keys_l | apply merge_keys_r]; exact Hr. }
    assert (HR : forall r s crs, In r (keys lo ++ keys ln) -> match_row r rs = Some (s, crs) ->
              is_rewrite s = true /\ a_logic (mi_attrs s) = LRewrite /\ a_force_commit (mi_attrs s) = false /\ is_exit r = false /\
              forall r' s' crs', In r' (keys lo ++ keys ln) -> match_row r' rs = Some (s', crs') ->
                mi_raw s = mi_raw s' /\ mi_attrs s = mi_attrs s' /\ (mi_key s = mi_key s' -> r = r')).
    { intros r s crs Hr Hm. destruct (HK r Hr) as (tu & Hin). destruct (HU r tu Hin) as (s0 & crs0 & Hm0 & Hok & _).
      rewrite Hm in Hm0. injection Hm0 as <- <-. unfold rw_row_ok in Hok.
      repeat (apply andb_true_iff in Hok as [Hok ?]).
      split; [exact Hok|]. split; [apply logic_eqb_eq; assumption|]. split; [apply negb_true_iff; assumption|].
      split; [apply negb_true_iff; assumption|].
      intros r' s' crs' Hr' Hm'. destruct (HK r' Hr') as (tu' & Hin'). rewrite forallb_forall in H.
      specialize (H _ Hin'). cbn [fst] in H. rewrite Hm' in H.
      repeat (apply andb_true_iff in H as [H ?]).
      split; [apply String.eqb_eq; exact H|]. split; [apply attrs_eqb_eq; assumption|].
      intro E. apply orb_true_iff in H3 as [H3|H3]; [|apply String.eqb_eq; exact H3].
      apply negb_true_iff in H3. exfalso. apply list_str_eqb_eq in E. congruence. }
    constructor.
    - apply wf_keys. exact Hlo.
    - apply wf_keys. exact Hln.
    - intros r Hr. destruct (HK r Hr) as (tu & Hin). destruct (HU r tu Hin) as (s & crs & Hm & _).
      destruct (HR r s crs Hr Hm) as (A & B & C & D & _). exists s, crs. auto 10.
    - intros r r' Hr Hr' s crs s' crs' Hm Hm'. destruct (HR r s crs Hr Hm) as (_ & _ & _ & _ & A). apply (A r' s' crs' Hr' Hm').
    - intros r c s crs Hin Hm.
      assert (Hwc : wf (kids c)) by (apply (wf_in ln r c Hln Hin)).
      destruct (in_dec string_dec r (keys lo)) as [Hl|Hl].
      + destruct (keys_entry r lo Hl) as (t & Ht).
        assert (Hm' : In (r, T (merge (kids t) (bk ln r))) (merge lo ln)) by (apply merge_in; left; exists t; auto).
        destruct (HU _ _ Hm') as (s0 & crs0 & Hm0 & _ & Hdom). rewrite Hm in Hm0. injection Hm0 as <- <-.
        rewrite (bk_nodup lo r t (wf_keys _ Hlo) Ht).
        rewrite (bk_nodup ln r c (wf_keys _ Hln) Hin) in Hdom.
        apply (IH r c Hin); [apply (wf_in lo r t Hlo Ht) | exact Hwc | exact Hdom].
      + assert (Hm' : In (r, c) (merge lo ln)) by (apply merge_in; right; auto).
        destruct (HU _ _ Hm') as (s0 & crs0 & Hm0 & _ & Hdom). rewrite Hm in Hm0. injection Hm0 as <- <-.
        rewrite (bk_absent lo r Hl). apply (IH r c Hin); [constructor | exact Hwc|].
        unfold rw_dom. rewrite merge_nil_l. destruct c as [kc]. exact Hdom.
  Qed.

  (* ------------------------------------------------------------------ B. the diff of two %rewrite bodies *)
  Definition ann (rs : rset) (e : string * tree) : string * minfo * atree :=
    (fst e, mi_of rmatch rs (fst e), annot (crs_of rmatch rs (fst e)) (snd e)).

  Lemma mi_crs_of rs r s crs : match_row r rs = Some (s, crs) -> mi_of rmatch rs r = s /\ crs_of rmatch rs r = crs.
  Proof. intro H. unfold mi_of, crs_of. rewrite H. auto. Qed.

  Lemma annot_known rs l : (forall r, In r (keys l) -> exists s crs, match_row r rs = Some (s, crs)) ->
    annot_f rs l = map (ann rs) l.
  Proof.
    induction l as [|[r c] l IH]; intro H; [reflexivity|]. rewrite annot_f_cons.
    destruct (H r (or_introl eq_refl)) as (s & crs & Hm). rewrite Hm. cbn [map]. unfold ann at 1. cbn [fst snd].
    destruct (mi_crs_of rs r s crs Hm) as [-> ->]. f_equal. apply IH. intros r' Hr'. apply H. now right.
  Qed.

  Lemma arows_ann rs l : arows (map (ann rs) l) = keys l.
  Proof. unfold arows, keys. rewrite map_map. reflexivity. Qed.

  Lemma asub_annot rs r s crs : match_row r rs = Some (s, crs) ->
    forall lo, asub_of (annot_f rs lo) r = annot_f crs (bk lo r).
  Proof.
    intros Hm. induction lo as [|[k t] lo IH]; [reflexivity|]. rewrite annot_f_cons. unfold bk. cbn [tfind].
    destruct (String.eqb_spec k r) as [E|E].
    - subst k. rewrite Hm. unfold asub_of. cbn [alookup]. rewrite String.eqb_refl. rewrite annot_akids. reflexivity.
    - destruct (match_row k rs) as [[mk ck]|].
      + unfold asub_of. cbn [alookup]. destruct (String.eqb_spec k r) as [E'|_]; [contradiction|]. exact IH.
      + exact IH.
  Qed.

  Definition all_rw (f : aforest) : Prop := forall k, In k f -> mi_dlogic (ami k) = DRewrite.

  Lemma diff_level_rw ao an pop : all_rw ao -> all_rw an ->
    diff_level ao (cks an) pop true = base_diff ao pop true false (cks an).
  Proof.
    intros Ho Hn. rewrite diff_level_unfold.
    destruct ao as [|ko ao'] eqn:Eo; destruct an as [|kn an'] eqn:En; [reflexivity| | |].
    all: rewrite (uniq_dl_const0 DRewrite);
      [ | intros x Hx; apply in_app_or in Hx as [Hx|Hx]; apply in_map_iff in Hx as (k & <- & Hk); auto
        | cbn; discriminate ].
    all: cbn [flat_map]; rewrite app_nil_r; unfold run_dlogic;
      rewrite !filter_all by (intros k Hk; unfold inL; rewrite ?(Ho k Hk), ?(Hn k Hk); reflexivity);
      reflexivity.
  Qed.

  (* the top of a %rewrite group (inrw = false): cleared if all-AFFECTED, else re-entered as a whole *)
  Lemma diff_level_rw_top ao an pop : all_rw ao -> all_rw an ->
    diff_level ao (cks an) pop false =
    let d := base_diff ao pop true false (cks an) in if all_affected d then [] else aff_to_moved d.
  Proof.
    intros Ho Hn. rewrite diff_level_unfold.
    destruct ao as [|ko ao'] eqn:Eo; destruct an as [|kn an'] eqn:En; [reflexivity| | |].
    all: rewrite (uniq_dl_const0 DRewrite);
      [ | intros x Hx; apply in_app_or in Hx as [Hx|Hx]; apply in_map_iff in Hx as (k & <- & Hk); auto
        | cbn; discriminate ].
    all: cbn [flat_map]; rewrite app_nil_r; unfold run_dlogic;
      rewrite !filter_all by (intros k Hk; unfold inL; rewrite ?(Ho k Hk), ?(Hn k Hk); reflexivity);
      reflexivity.
  Qed.

  (* one entry per row of new, in new's order *)
  Definition scan_node (ao : aforest) (pop : op) (k : string * minfo * atree) (d : dnode) : Prop :=
    exists o, (o = Added \/ o = Moved \/ o = pop) /\
      d = DN o (arow k) (ami k) (diff_t (asub k) (asub_of ao (arow k)) o true).

  Lemma scan_shape ao pop : forall l i dis, Forall2 (scan_node ao pop) l (scan_new ao pop true false (cks l) i dis).
  Proof.
    induction l as [|[[r m] c] l IH]; intros i dis; [constructor|].
    change (cks ((r, m, c) :: l)) with ((r, m, diff_t c) :: cks l). cbn [scan_new].
    unfold asub_of in *.
    destruct (afind r ao 0) as [[j so]|] eqn:Ef.
    - apply afind_Some in Ef as (mo & El).
      destruct (dis || negb (Nat.eqb i j)); (constructor; [|apply IH]).
      + exists Moved. split; [auto|]. unfold arow, ami, asub, asub_of. cbn [fst snd]. rewrite El. reflexivity.
      + exists pop. split; [auto|]. unfold arow, ami, asub, asub_of. cbn [fst snd]. rewrite El. reflexivity.
    - apply afind_None in Ef. constructor; [|apply IH].
      exists Added. split; [auto|]. unfold arow, ami, asub, asub_of. cbn [fst snd]. rewrite Ef. reflexivity.
  Qed.

  Lemma built_aff : forall d, built (aff_to_moved_n d) = built d.
  Proof.
    induction d as [o r m k IH] using dnode_ind2. cbn [aff_to_moved_n built].
    assert (E : op_eqb (if op_eqb o Affected then Moved else o) Removed = op_eqb o Removed) by (destruct o; reflexivity).
    rewrite E. destruct (op_eqb o Removed); [reflexivity|]. f_equal. f_equal. f_equal.
    induction k as [|x k IHk]; [reflexivity|]. cbn [map flat_map]. inversion IH as [|a b Ha Hb]; subst.
    rewrite Ha. f_equal. apply IHk. exact Hb.
  Qed.
  Lemma built_aff_all D : flat_map built (aff_to_moved D) = flat_map built D.
  Proof. unfold aff_to_moved. induction D as [|d D IH]; [reflexivity|]. cbn [map flat_map]. rewrite built_aff, IH. reflexivity. Qed.

  Lemma interleave_built : forall news rem i, (forall d, In d (map snd rem) -> built d = []) ->
    flat_map built (interleave news rem i) = flat_map built news.
  Proof.
    induction news as [|d ns IH]; intros rem i Hr; cbn [interleave].
    - induction rem as [|[j r] rem IHr]; [reflexivity|]. cbn [map snd flat_map]. rewrite (Hr r) by now left.
      apply IHr. intros x Hx. apply Hr. now right.
    - destruct rem as [|[j r] rem'].
      + cbn [flat_map]. f_equal. apply IH. intros x [].
      + destruct (Nat.eqb j i); cbn [flat_map].
        * rewrite (Hr r) by now left. cbn [app]. f_equal. apply IH. intros x Hx. apply Hr. now right.
        * f_equal. apply IH. exact Hr.
  Qed.

  Lemma interleave_in news rem i d : In d (interleave news rem i) <-> In d news \/ In d (map snd rem).
  Proof.
    split.
    - intro H. apply (Permutation_in _ (interleave_perm news rem i)) in H. apply in_app_or. exact H.
    - intro H. apply (Permutation_in _ (Permutation_sym (interleave_perm news rem i))). apply in_or_app. exact H.
  Qed.

  Lemma Forall2_mapl {A B C} (R : B -> C -> Prop) (f : A -> B) l l' :
    Forall2 R (map f l) l' -> Forall2 (fun x y => R (f x) y) l l'.
  Proof.
    revert l'. induction l as [|a l IH]; intros l' H; inversion H; subst; constructor; auto.
  Qed.
  Lemma Forall2_flip {A B} (R : A -> B -> Prop) l l' : Forall2 R l l' -> Forall2 (fun y x => R x y) l' l.
  Proof. induction 1; constructor; auto. Qed.
  Lemma Forall2_in_r {A B} (R : A -> B -> Prop) l l' y : Forall2 R l l' -> In y l' -> exists x, In x l /\ R x y.
  Proof.
    induction 1 as [|a b l l' Hab _ IH]; intro Hy; [destruct Hy|]. destruct Hy as [E|Hy].
    - subst. exists a. split; [now left | exact Hab].
    - destruct (IH Hy) as (x & Hx & Hr). exists x. split; [now right | exact Hr].
  Qed.
  Lemma Forall2_flat {A B} (R : A -> B -> Prop) (g : B -> list A) l l' :
    Forall2 R l l' -> (forall e d, In e l -> R e d -> g d = [e]) -> flat_map g l' = l.
  Proof.
    induction 1 as [|a b l l' Hab _ IH]; intro H; [reflexivity|]. cbn [flat_map].
    rewrite (H a b (or_introl eq_refl) Hab). cbn [app]. f_equal. apply IH. intros e d He. apply H. now right.
  Qed.
  Lemma Forall2_map_eq {A B C} (R : A -> B -> Prop) (f : A -> C) (g : B -> C) l l' :
    Forall2 R l l' -> (forall e d, R e d -> g d = f e) -> map g l' = map f l.
  Proof.
    induction 1 as [|a b l l' Hab _ IH]; intro H; [reflexivity|]. cbn [map]. rewrite (H a b Hab). f_equal. apply IH. exact H.
  Qed.

  Definition pop_live (pop : op) : Prop := pop = Affected \/ pop = Moved \/ pop = Added.

  (* the diff of the two bodies inside a %rewrite group *)
  Definition bd (rs : rset) (lo ln : forest) (pop : op) : list dnode :=
    diff_t (annot rs (T ln)) (annot_f rs lo) pop true.

  Lemma rd_known rs lo ln : rd rs lo ln ->
    (forall r, In r (keys lo) -> exists s crs, match_row r rs = Some (s, crs)) /\
    (forall r, In r (keys ln) -> exists s crs, match_row r rs = Some (s, crs)).
  Proof.
    intro H. apply rd_inv in H as (_ & _ & Hr & _). split; intros r Hin.
    - destruct (Hr r) as (s & crs & Hm & _); [apply in_or_app; now left|]. eauto.
    - destruct (Hr r) as (s & crs & Hm & _); [apply in_or_app; now right|]. eauto.
  Qed.

  Lemma all_rw_ann rs l : (forall r, In r (keys l) -> rw_row rs r) -> all_rw (map (ann rs) l).
  Proof.
    intros H k Hk. apply in_map_iff in Hk as ([r c] & <- & Hin). unfold ann, ami. cbn [fst snd].
    destruct (H r (in_keys r c l Hin)) as (s & crs & Hm & Hrw & _). destruct (mi_crs_of rs r s crs Hm) as [-> _].
    unfold is_rewrite in Hrw. apply dlogic_eqb_eq in Hrw. exact Hrw.
  Qed.

  Lemma bd_unfold rs lo ln pop : rd rs lo ln ->
    bd rs lo ln pop =
    interleave (scan_new (map (ann rs) lo) pop true false (cks (map (ann rs) ln)) 0 false)
               (removed_rows (map (ann rs) lo) (keys ln) 0) 0.
  Proof.
    intro H. destruct (rd_known rs lo ln H) as [Ko Kn]. apply rd_inv in H as (_ & _ & Hr & _).
    unfold bd. change (annot rs (T ln)) with (AT (annot_f rs ln)). rewrite diff_t_unfold.
    rewrite (annot_known rs lo Ko), (annot_known rs ln Kn).
    rewrite diff_level_rw.
    - unfold base_diff. rewrite cks_rows, arows_ann. reflexivity.
    - apply all_rw_ann. intros r Hin. apply Hr. apply in_or_app. now left.
    - apply all_rw_ann. intros r Hin. apply Hr. apply in_or_app. now right.
  Qed.

  Lemma removed_spec rs lo ln :
    map snd (removed_rows (map (ann rs) lo) (keys ln) 0) =
    map mkrem (map (ann rs) (filter (fun e : string * tree => negb (existsb (String.eqb (fst e)) (keys ln))) lo)).
  Proof.
    rewrite removed_rows_spec. f_equal. induction lo as [|e lo IH]; [reflexivity|]. cbn [map filter].
    unfold arow at 1, ann at 1. cbn [fst]. destruct (existsb (String.eqb (fst e)) (keys ln)); cbn [negb map]; rewrite IH; reflexivity.
  Qed.

  (* what an entry of the body diff is *)
  Definition scan_ent (rs : rset) (lo : forest) (pop : op) (e : string * tree) (d : dnode) : Prop :=
    exists o, (o = Added \/ o = Moved \/ o = pop) /\
      d = DN o (fst e) (mi_of rmatch rs (fst e)) (bd (crs_of rmatch rs (fst e)) (bk lo (fst e)) (kids (snd e)) o).

  Lemma Forall2_impl_in {A B} (R R' : A -> B -> Prop) l l' :
    Forall2 R l l' -> (forall x y, In x l -> R x y -> R' x y) -> Forall2 R' l l'.
  Proof.
    induction 1 as [|a b l l' Hab _ IH]; intro H; constructor.
    - apply H; [now left | exact Hab].
    - apply IH. intros x y Hx. apply H. now right.
  Qed.

  Lemma scan_ents rs lo ln pop : rd rs lo ln ->
    Forall2 (scan_ent rs lo pop) ln (scan_new (map (ann rs) lo) pop true false (cks (map (ann rs) ln)) 0 false).
  Proof.
    intro H. destruct (rd_known rs lo ln H) as [Ko Kn].
    apply (Forall2_impl_in (fun e d => scan_node (map (ann rs) lo) pop (ann rs e) d)); [apply Forall2_mapl; apply scan_shape|].
    intros [r c] d Hin (o & Ho & Ed). exists o. split; [exact Ho|]. subst d.
    unfold ann, arow, ami, asub. cbn [fst snd]. fold (ann rs).
    destruct (Kn r (in_keys r c ln Hin)) as (s & crs & Hm). destruct (mi_crs_of rs r s crs Hm) as [E1 E2].
    rewrite <- (annot_known rs lo Ko). rewrite (asub_annot rs r s crs Hm lo). rewrite E1, E2.
    unfold bd. rewrite tree_eta. reflexivity.
  Qed.

  Lemma aff_row d : d_row (aff_to_moved_n d) = d_row d.
  Proof. destruct d; reflexivity. Qed.
  Lemma aff_mi d : d_mi (aff_to_moved_n d) = d_mi d.
  Proof. destruct d; reflexivity. Qed.

  (* every entry of the body diff: a row of new with the diff of its body, or a REMOVED row of old *)
  Lemma bd_entries rs lo ln pop : rd rs lo ln ->
    forall d, In d (bd rs lo ln pop) ->
      (exists r c o s crs, In (r, c) ln /\ match_row r rs = Some (s, crs) /\ (o = Added \/ o = Moved \/ o = pop) /\
                           d = DN o r s (bd crs (bk lo r) (kids c) o)) \/
      (exists r t s crs k, In (r, t) lo /\ ~ In r (keys ln) /\ match_row r rs = Some (s, crs) /\ d = DN Removed r s k).
  Proof.
    intros Hrd d Hd. destruct (rd_known rs lo ln Hrd) as [Ko Kn].
    rewrite (bd_unfold rs lo ln pop Hrd) in Hd. apply interleave_in in Hd as [Hd|Hd].
    - left. destruct (Forall2_in_r _ _ _ d (scan_ents rs lo ln pop Hrd) Hd) as ([r c] & Hin & o & Ho & Ed).
      cbn [fst snd] in Ed. destruct (Kn r (in_keys r c ln Hin)) as (s & crs & Hm).
      destruct (mi_crs_of rs r s crs Hm) as [E1 E2]. rewrite E1, E2 in Ed. exists r, c, o, s, crs. auto.
    - right. rewrite removed_spec in Hd. apply in_map_iff in Hd as (k & <- & Hk). apply in_map_iff in Hk as ([r t] & <- & Hf).
      apply filter_In in Hf as [Hin Hn]. cbn [fst] in Hn. apply negb_true_iff in Hn.
      destruct (Ko r (in_keys r t lo Hin)) as (s & crs & Hm). destruct (mi_crs_of rs r s crs Hm) as [E1 E2].
      exists r, t, s, crs. eexists. split; [exact Hin|]. split; [|split; [exact Hm|]].
      + intro Hi. apply existsb_eqb_In in Hi. congruence.
      + unfold mkrem, ann, arow, ami, asub. cbn [fst snd]. rewrite E1. reflexivity.
  Qed.

  Lemma bd_rows rs lo ln pop : rd rs lo ln -> NoDup (map d_row (bd rs lo ln pop)).
  Proof.
    intro Hrd. pose proof (rd_inv _ _ _ Hrd) as (Nlo & Nln & _).
    rewrite (bd_unfold rs lo ln pop Hrd).
    apply (Permutation_NoDup (Permutation_map d_row (Permutation_sym (interleave_perm _ _ 0)))).
    rewrite map_app. rewrite removed_spec.
    rewrite (Forall2_map_eq _ fst d_row _ _ (scan_ents rs lo ln pop Hrd)) by (intros e d (o & _ & ->); reflexivity).
    rewrite !map_map. cbn [mkrem d_row]. unfold arow, ann. cbn [fst].
    apply NoDup_app_intro.
    - exact Nln.
    - apply (nodup_keys_filter _ lo Nlo).
    - intros x H1 H2. apply in_map_iff in H2 as ([r t] & E & Hf). cbn [fst] in E. subst x.
      apply filter_In in Hf as [_ Hn]. cbn [fst] in Hn. apply negb_true_iff in Hn.
      apply (proj2 (existsb_eqb_In r (keys ln))) in H1. congruence.
  Qed.

  Definition RWD (ln : forest) : Prop := forall lo rs pop, rd rs lo ln -> pop_live pop ->
    let D := aff_to_moved (bd rs lo ln pop) in
    Forall (fun d => dok rmatch is_exit d rs) D /\ lvl D /\ flat_map built D = ln.

  Theorem body_diff : forall ln, RWD ln.
  Proof.
    apply forest_sub_ind. intros ln IH lo rs pop Hrd Hpop. cbv zeta.
    pose proof (rd_inv _ _ _ Hrd) as (Nlo & Nln & Hrow & Hpair & Hsub).
    assert (Hlive : forall o, o = Added \/ o = Moved \/ o = pop -> pop_live o).
    { intros o [E|[E|E]]; subst; [right; right; reflexivity | right; left; reflexivity | exact Hpop]. }
    (* the rule and the row of every entry *)
    assert (HQ : forall d, In d (aff_to_moved (bd rs lo ln pop)) ->
              exists s crs, In (d_row d) (keys lo ++ keys ln) /\ match_row (d_row d) rs = Some (s, crs) /\ d_mi d = s).
    { intros d' Hd'. unfold aff_to_moved in Hd'. apply in_map_iff in Hd' as (d & <- & Hd). rewrite aff_row, aff_mi.
      destruct (bd_entries rs lo ln pop Hrd d Hd) as [(r & c & o & s & crs & Hin & Hm & Ho & ->)|(r & t & s & crs & k & Hin & Hn & Hm & ->)];
        cbn [d_row d_mi]; exists s, crs.
      - split; [apply in_or_app; right; apply (in_keys r c ln Hin)|]. auto.
      - split; [apply in_or_app; left; apply (in_keys r t lo Hin)|]. auto. }
    split; [|split].
    - apply Forall_forall. intros d' Hd'. unfold aff_to_moved in Hd'. apply in_map_iff in Hd' as (d & <- & Hd).
      destruct (bd_entries rs lo ln pop Hrd d Hd) as [(r & c & o & s & crs & Hin & Hm & Ho & ->)|(r & t & s & crs & k & Hin & Hn & Hm & ->)].
      + destruct (Hrow r) as (s0 & crs0 & Hm0 & Hrw & Hlg & Hfc & Hex); [apply in_or_app; right; apply (in_keys r c ln Hin)|].
        rewrite Hm in Hm0. injection Hm0 as <- <-.
        destruct (IH r c Hin (bk lo r) crs o (Hsub r c s crs Hin Hm) (Hlive o Ho)) as (Kd & Kl & _).
        cbn [aff_to_moved_n dok]. split; [exact Hlg|]. split; [exact Hfc|]. right.
        split; [destruct (Hlive o Ho) as [E|[E|E]]; subst o; cbn; auto|].
        split; [exact Hex|]. split; [exact Hrw|]. exists crs. split; [exact Hm|].
        split; [exact Kl|]. apply dok_go. exact Kd.
      + destruct (Hrow r) as (s0 & crs0 & Hm0 & Hrw & Hlg & Hfc & Hex); [apply in_or_app; left; apply (in_keys r t lo Hin)|].
        rewrite Hm in Hm0. injection Hm0 as <- <-.
        cbn [aff_to_moved_n dok op_eqb]. split; [exact Hlg|]. split; [exact Hfc|]. left. reflexivity.
    - split.
      + intros d d' Hd Hd'. destruct (HQ d Hd) as (s & crs & Hi & Hm & E). destruct (HQ d' Hd') as (s' & crs' & Hi' & Hm' & E').
        rewrite E, E'. destruct (Hpair _ _ Hi Hi' s crs s' crs' Hm Hm') as (A & B & _). auto.
      + apply (NoDup_map_inj_on d_row dkey).
        * unfold aff_to_moved. rewrite map_map. rewrite (map_ext _ d_row) by apply aff_row. apply bd_rows. exact Hrd.
        * intros d d' Hd Hd' Ek. destruct (HQ d Hd) as (s & crs & Hi & Hm & E). destruct (HQ d' Hd') as (s' & crs' & Hi' & Hm' & E').
          unfold dkey in Ek. rewrite E, E' in Ek. destruct (Hpair _ _ Hi Hi' s crs s' crs' Hm Hm') as (_ & _ & C). apply C. exact Ek.
    - rewrite built_aff_all. rewrite (bd_unfold rs lo ln pop Hrd). rewrite interleave_built.
      + apply (Forall2_flat _ built _ _ (scan_ents rs lo ln pop Hrd)).
        intros [r c] d Hin (o & Ho & ->). cbn [fst snd].
        destruct (Hrow r) as (s & crs & Hm & _); [apply in_or_app; right; apply (in_keys r c ln Hin)|].
        destruct (mi_crs_of rs r s crs Hm) as [E1 E2]. rewrite E2.
        destruct (IH r c Hin (bk lo r) crs o (Hsub r c s crs Hin Hm) (Hlive o Ho)) as (_ & _ & Kb).
        rewrite built_aff_all in Kb. cbn [built].
        assert (Eo : op_eqb o Removed = false) by (destruct (Hlive o Ho) as [E|[E|E]]; subst o; reflexivity).
        rewrite Eo, Kb, tree_eta. reflexivity.
      + intros d Hd. rewrite removed_spec in Hd. apply in_map_iff in Hd as (k & <- & _). reflexivity.
  Qed.

  (* ------------------------------------------------------------------ C. cleared only if equal *)
  Lemma scan_aff ao : forall l i dis pre post, ao = pre ++ post -> List.length pre = i ->
    forallb all_affected_n (scan_new ao Affected true false (cks l) i dis) = true ->
    exists p1 p2, post = p1 ++ p2 /\
      Forall2 (fun o k => arow o = arow k /\ all_affected (diff_t (asub k) (akids (asub o)) Affected true) = true) p1 l.
  Proof.
    induction l as [|[[r m] c] l IH]; intros i dis pre post Eao Hlen H.
    - exists [], post. split; [reflexivity | constructor].
    - change (cks ((r, m, c) :: l)) with ((r, m, diff_t c) :: cks l) in H. cbn [scan_new] in H.
      destruct (afind r ao 0) as [[j so]|] eqn:Ef.
      + destruct (dis || negb (Nat.eqb i j)) eqn:Ed.
        * cbn [forallb all_affected_n op_eqb andb] in H. discriminate.
        * apply orb_false_iff in Ed as [_ Ed]. apply negb_false_iff in Ed. apply Nat.eqb_eq in Ed. subst j.
          cbn [forallb] in H. apply andb_true_iff in H as [H1 H2].
          cbn [all_affected_n op_eqb andb] in H1.
          apply afind_nth in Ef as (_ & mo & Hn). rewrite Nat.sub_0_r in Hn.
          rewrite Eao in Hn. rewrite nth_error_app2 in Hn by lia. rewrite Hlen, Nat.sub_diag in Hn.
          destruct post as [|k0 post']; [discriminate|]. cbn in Hn. injection Hn as ->.
          destruct (IH (S i) false (pre ++ [(r, mo, so)]) post') as (p1 & p2 & Ep & Hf).
          -- rewrite <- app_assoc. exact Eao.
          -- rewrite app_length. cbn. lia.
          -- exact H2.
          -- exists ((r, mo, so) :: p1), p2. split; [cbn; f_equal; exact Ep|]. constructor; [|exact Hf].
             unfold arow, asub. cbn [fst snd]. split; [reflexivity | exact H1].
      + cbn [forallb all_affected_n op_eqb andb] in H. discriminate.
  Qed.

  Definition RWB (ln : forest) : Prop := forall lo rs, rd rs lo ln ->
    all_affected (bd rs lo ln Affected) = true -> lo = ln.

  Theorem body_cleared : forall ln, RWB ln.
  Proof.
    apply forest_sub_ind. intros ln IH lo rs Hrd Hall.
    pose proof (rd_inv _ _ _ Hrd) as (Nlo & Nln & Hrow & Hpair & Hsub).
    destruct (rd_known rs lo ln Hrd) as [Ko Kn].
    rewrite (bd_unfold rs lo ln Affected Hrd) in Hall. unfold all_affected in Hall. rewrite forallb_forall in Hall.
    (* no REMOVED entry: every row of old is a row of new *)
    assert (Hrem : forall r t, In (r, t) lo -> In r (keys ln)).
    { intros r t Hin. destruct (in_dec string_dec r (keys ln)) as [Hi|Hi]; [exact Hi|]. exfalso.
      assert (Hd : In (mkrem (ann rs (r, t))) (map snd (removed_rows (map (ann rs) lo) (keys ln) 0))).
      { rewrite removed_spec. apply in_map. apply in_map. apply filter_In. split; [exact Hin|]. cbn [fst].
        apply negb_true_iff. destruct (existsb (String.eqb r) (keys ln)) eqn:E; [|reflexivity].
        apply existsb_eqb_In in E. contradiction. }
      specialize (Hall _ (proj2 (interleave_in _ _ 0 _) (or_intror Hd))). discriminate. }
    assert (Hscan : forallb all_affected_n (scan_new (map (ann rs) lo) Affected true false (cks (map (ann rs) ln)) 0 false) = true).
    { apply forallb_forall. intros d Hd. apply Hall. apply interleave_in. now left. }
    destruct (scan_aff (map (ann rs) lo) (map (ann rs) ln) 0 false [] (map (ann rs) lo) eq_refl eq_refl Hscan) as (p1 & p2 & Ep & Hf).
    assert (Er : arows p1 = keys ln).
    { rewrite <- (arows_ann rs ln). unfold arows. symmetry. apply (Forall2_map_eq _ arow arow _ _ Hf). intros e d [E _]. symmetry. exact E. }
    assert (Ep2 : p2 = []).
    { destruct p2 as [|k p2]; [reflexivity|]. exfalso.
      assert (Hk : In k (map (ann rs) lo)) by (rewrite Ep; apply in_or_app; right; now left).
      apply in_map_iff in Hk as ([r t] & Ek & Hin).
      assert (Nd : NoDup (arows p1 ++ arows (k :: p2))).
      { unfold arows. rewrite <- map_app, <- Ep. fold (arows (map (ann rs) lo)). rewrite arows_ann. exact Nlo. }
      apply (NoDup_app_disj _ _ r Nd).
      - rewrite Er. apply (Hrem r t Hin).
      - left. rewrite <- Ek. reflexivity. }
    subst p2. rewrite app_nil_r in Ep. subst p1.
    apply Forall2_mapl in Hf. apply Forall2_flip in Hf. apply Forall2_mapl in Hf. apply Forall2_flip in Hf.
    (* pointwise: same row, equal bodies *)
    assert (G : forall a b, Forall2 (fun x y => arow (ann rs x) = arow (ann rs y) /\
                              all_affected (diff_t (asub (ann rs y)) (akids (asub (ann rs x))) Affected true) = true) a b ->
                (forall x, In x a -> In x lo) -> (forall y, In y b -> In y ln) -> a = b).
    { induction 1 as [|[r t] [r' c] a b [E1 E2] _ IHf]; intros Ha Hb; [reflexivity|].
      unfold arow, asub, ann in E1, E2. cbn [fst snd] in E1, E2. subst r'.
      assert (Hino : In (r, t) lo) by (apply Ha; now left). assert (Hinn : In (r, c) ln) by (apply Hb; now left).
      destruct (Kn r (in_keys r c ln Hinn)) as (s & crs & Hm). destruct (mi_crs_of rs r s crs Hm) as [_ E].
      rewrite E in E2. rewrite annot_akids in E2.
      assert (Ek : kids t = kids c).
      { apply (IH r c Hinn (kids t) crs).
        - rewrite <- (bk_nodup lo r t Nlo Hino). apply (Hsub r c s crs Hinn Hm).
        - unfold bd. rewrite tree_eta. exact E2. }
      f_equal.
      - f_equal. rewrite <- (tree_eta t), <- (tree_eta c). rewrite Ek. reflexivity.
      - apply IHf; [intros x Hx; apply Ha; now right | intros y Hy; apply Hb; now right]. }
    apply G; [exact Hf | auto | auto].
  Qed.

  (* ------------------------------------------------------------------ D. the header *)
  Notation mitems := (mitems rmatch rsrc rrev block_exit).
  Notation mkpatch := (make_patch rmatch rsrc rrev block_exit rreverse).

  (* D1. only exit paths repeat in the command paths of the body patch *)
  Lemma nodup_app_inv {A} (a b : list A) : NoDup (a ++ b) -> NoDup a /\ NoDup b.
  Proof.
    induction a as [|x a IH]; intro H; [split; [constructor | exact H]|]. cbn in H. inversion H as [|y l Hy Hl]; subst.
    destruct (IH Hl) as [Ha Hb]. split; [|exact Hb]. constructor; [|exact Ha]. intro Hin. apply Hy. apply in_or_app. now left.
  Qed.
  Lemma wf_app_inv a b : wf (a ++ b) -> wf a /\ wf b.
  Proof.
    intro H. pose proof (wf_keys _ H) as Hn. unfold keys in Hn. rewrite map_app in Hn. split; apply wf_intro.
    - apply (proj1 (nodup_app_inv _ _ Hn)).
    - intros r t Hin. apply (wf_in (a ++ b) r t H). apply in_or_app. now left.
    - apply (proj2 (nodup_app_inv _ _ Hn)).
    - intros r t Hin. apply (wf_in (a ++ b) r t H). apply in_or_app. now right.
  Qed.
  Lemma wf_flat_in {A} (g : A -> forest) D d : wf (flat_map g D) -> In d D -> wf (g d).
  Proof.
    induction D as [|x D IH]; intros H Hin; [destruct Hin|]. cbn [flat_map] in H. apply wf_app_inv in H as [H1 H2].
    destruct Hin as [E|Hin]; [subst; exact H1 | apply IH; assumption].
  Qed.

  Lemma mitems_rows ord D : map irow (flat_map (mitems ord) D) = keys (flat_map built D).
  Proof.
    induction D as [|[o r m k] D IH]; [reflexivity|]. cbn [flat_map]. unfold keys in *. rewrite !map_app. f_equal; [|exact IH].
    cbn [ConvergeRewrite.mitems built]. destruct (op_eqb o Removed); [reflexivity|].
    match goal with |- context [if ?c then _ else _] => destruct c end; reflexivity.
  Qed.

  Definition item_ok (it : item) : Prop :=
    is_exit (irow it) = false /\ match ichild it with Some c => prows_ok is_exit c | None => True end.

  Lemma level_prows D : (forall d, In d D -> forall rs ord, dok rmatch is_exit d rs -> wf (built d) ->
                                      forall it, In it (mitems ord d) -> item_ok it) ->
    forall rs ord, Forall (fun d => dok rmatch is_exit d rs) D -> wf (flat_map built D) ->
    prows_ok is_exit (PT (sort_items (flat_map (mitems ord) D))).
  Proof.
    intros HN rs ord Hd Hw. apply prows_ok_intro.
    - apply (Permutation_NoDup (Permutation_map irow (Permutation_sym (sort_perm _ _)))).
      rewrite mitems_rows. apply wf_keys. exact Hw.
    - intros it Hit. apply sort_in in Hit. apply in_flat_map in Hit as (d & Hin & Hit). rewrite Forall_forall in Hd.
      apply (HN d Hin rs ord (Hd d Hin) (wf_flat_in built D d Hw Hin) it Hit).
  Qed.

  Lemma node_prows : forall d rs ord, dok rmatch is_exit d rs -> wf (built d) -> forall it, In it (mitems ord d) -> item_ok it.
  Proof.
    induction d as [o r m k IH] using dnode_ind2. intros rs ord Hd Hw it Hit.
    cbn [ConvergeRewrite.mitems built] in *. destruct (op_eqb o Removed) eqn:Eo; [destruct Hit|].
    assert (Hn : d_op (DN o r m k) <> Removed) by (cbn; intro E; subst o; discriminate).
    destruct (dok_live rmatch is_exit _ rs Hd Hn) as (Hex & _ & crs & _ & _ & Hk). cbn [d_row d_kids] in *.
    destruct Hit as [Hit|[]]. subst it.
    assert (Hc : prows_ok is_exit (PT (sort_items (flat_map (mitems (snd (get_order rmatch rsrc rrev block_exit ord r true (Some "patch")))) k)))).
    { apply (level_prows k) with (rs := crs).
      - intros d Hin. rewrite Forall_forall in IH. apply IH. exact Hin.
      - exact Hk.
      - apply (wf_in [(r, T (flat_map built k))] r (T (flat_map built k)) Hw). now left. }
    match goal with |- context [if ?c then _ else _] => destruct c end; split; try exact Hex; try exact I. exact Hc.
  Qed.

  Lemma body_prows D rs ord : Forall (fun d => dok rmatch is_exit d rs) D -> wf (flat_map built D) ->
    prows_ok is_exit (PT (sort_items (flat_map (mitems ord) D))).
  Proof. apply level_prows. intros d _. apply node_prows. Qed.

  (* D2. the diff of the one-row level *)
  Section Header.
    Variables (rs : rset) (h : string) (s : minfo) (crs : rset).
    Hypothesis Hm : match_row h rs = Some (s, crs).
    Hypothesis Hnr : is_rewrite s = false.
    Hypothesis Hfc : a_force_commit (mi_attrs s) = false.
    Hypothesis Hex : is_exit h = false.

    Lemma header_raw_diff bo bn :
      raw_diff rmatch rs [(h, T bo)] [(h, T bn)] =
      [DN Affected h s (diff_t (annot crs (T bn)) (annot_f crs bo) Affected false)].
    Proof.
      unfold raw_diff. change (annot rs (T [(h, T bn)])) with (AT (annot_f rs [(h, T bn)])).
      rewrite !annot_f_cons, Hm, !annot_f_nil. rewrite diff_t_unfold, diff_level_unfold.
      cbn [map app ami fst snd].
      rewrite (uniq_dl_const0 (mi_dlogic s)) by (try discriminate; intros x [E|[E|[]]]; auto).
      cbn [flat_map]. rewrite app_nil_r.
      unfold inL, ami. cbn [filter fst snd]. rewrite dlogic_eqb_refl.
      assert (B : forall mta, base_diff [(h, s, annot crs (T bo))] Affected false mta (cks [(h, s, annot crs (T bn))]) =
                  [DN Affected h s (diff_t (annot crs (T bn)) (annot_f crs bo) Affected false)]).
      { intro mta. unfold base_diff. change (cks [(h, s, annot crs (T bn))]) with [(h, s, diff_t (annot crs (T bn)))].
        cbn [scan_new afind map fst removed_rows existsb]. rewrite String.eqb_refl. cbn [orb negb Nat.eqb interleave].
        rewrite annot_akids. reflexivity. }
      unfold is_rewrite in Hnr. unfold mi_dlogic in *. destruct (a_dlogic (mi_attrs s)); [apply B | apply B | discriminate].
    Qed.

    Lemma body_top bo bn : rd crs bo bn ->
      diff_t (annot crs (T bn)) (annot_f crs bo) Affected false =
      if all_affected (bd crs bo bn Affected) then [] else aff_to_moved (bd crs bo bn Affected).
    Proof.
      intro Hrd. destruct (rd_known crs bo bn Hrd) as [Ko Kn]. pose proof (rd_inv _ _ _ Hrd) as (_ & _ & Hr & _).
      rewrite (bd_unfold crs bo bn Affected Hrd).
      change (annot crs (T bn)) with (AT (annot_f crs bn)). rewrite diff_t_unfold.
      rewrite (annot_known crs bo Ko), (annot_known crs bn Kn).
      rewrite diff_level_rw_top.
      - cbv zeta. unfold base_diff. rewrite cks_rows, arows_ann. reflexivity.
      - apply all_rw_ann. intros r Hin. apply Hr. apply in_or_app. now left.
      - apply all_rw_ann. intros r Hin. apply Hr. apply in_or_app. now right.
    Qed.

    (* D3. the patch of the one-row level *)
    Lemma header_items D ord : forall x, In x [DN Affected h s D] -> Forall (fun d => dok rmatch is_exit d crs) D -> lvl D -> D <> [] ->
      slot_items rmatch rsrc rrev block_exit rreverse ord (centry rmatch rsrc rrev block_exit rreverse x) = Some (mitems ord x).
    Proof.
      intros x [<-|[]] Hd Hlv Hne.
      unfold centry, conv_flat. cbn [d_mi fst snd map]. rewrite make_pre_n_eq. unfold pe_item. cbn [snd d_op d_row d_kids].
      unfold slot_items. cbn [conv_item].
      assert (Hkids : forall ord', mkpatch (make_pre D) ord' = POk (PT (sort_items (flat_map (mitems ord') D)))).
      { intro ord'. apply (patch_of_diff rmatch rsrc rrev block_exit rreverse is_exit D crs Hd Hlv). }
      assert (Hne' : match pgroups (make_pre D) with [] => false | _ => true end = true).
      { destruct D as [|d0 dl]; [congruence|]. rewrite make_pre_groups. cbn [pgroups map].
        destruct Hlv as [Hone Hkeys].
        rewrite (group_all_one (mi_raw (d_mi d0))); [reflexivity| |].
        - intros y Hy. change (make_pre_n d0 :: map make_pre_n dl) with (map make_pre_n (d0 :: dl)) in Hy.
          apply in_map_iff in Hy as (d & E & Hdd). subst y.
          rewrite make_pre_n_eq. unfold pe_raw. cbn [fst]. symmetry. apply (Hone d0 d (or_introl eq_refl) Hdd).
        - change (make_pre_n d0 :: map make_pre_n dl) with (map make_pre_n (d0 :: dl)). rewrite map_map.
          rewrite (map_ext _ dkey); [exact Hkeys|]. intro d. rewrite make_pre_n_eq. reflexivity. }
      assert (Hy : forall (mk : ckpre) (ne : bool),
                   run_logic rreverse (a_pat (mi_attrs s)) (mi_key s) (a_logic (mi_attrs s)) [(Affected, h, mk, ne)] =
                   Some [(true, h, Some (mk, ne))]).
      { intros mk ne. destruct (a_logic (mi_attrs s)); reflexivity. }
      change (dkey (DN Affected h s D)) with (mi_key s). rewrite Hy. cbn [map all_some]. unfold yield_item.
      cbn [ConvergeRewrite.mitems op_eqb].
      destruct (get_order rmatch rsrc rrev block_exit ord h true (Some "patch")) as [[order odirect] ord'] eqn:Eg.
      cbn [fst snd]. rewrite Hne'. rewrite Hfc. rewrite Hkids.
      cbn [pitems option_map List.concat app negb orb]. rewrite orb_false_r.
      unfold mk_sk. rewrite ?app_nil_r. reflexivity.
    Qed.

    Lemma sort_one (it : item) : sort_items [it] = [it].
    Proof. unfold sort_items. rewrite stable_sort_cons, stable_sort_nil. reflexivity. Qed.

    Lemma header_patch D ord : Forall (fun d => dok rmatch is_exit d crs) D -> lvl D -> D <> [] ->
      mkpatch (make_pre [DN Affected h s D]) ord = POk (PT (mitems ord (DN Affected h s D))).
    Proof.
      intros Hd Hlv Hne.
      rewrite (level_patch rmatch rsrc rrev block_exit rreverse [DN Affected h s D]).
      - cbn [flat_map]. rewrite app_nil_r. cbn [ConvergeRewrite.mitems op_eqb]. rewrite sort_one. reflexivity.
      - intros d Hin ord'. apply (header_items D ord' d Hin Hd Hlv Hne).
      - split.
        + intros d d' [<-|[]] [<-|[]]. auto.
        + cbn [map]. constructor; [intros [] | constructor].
    Qed.
  End Header.

  (* D4. the device: the header command enters the block, which resets it; then the body patch rebuilds new's body *)
  Lemma dok_op d rs : dok rmatch is_exit d rs -> d_op d = Removed \/ d_op d = Moved \/ d_op d = Added.
  Proof. destruct d as [o r m k]. cbn [dok d_op]. intros (_ & _ & [H|([H|H] & _)]); auto. Qed.

  Lemma filter_none {A} (p : A -> bool) l : (forall x, In x l -> p x = false) -> filter p l = [].
  Proof.
    induction l as [|x l IH]; intro H; [reflexivity|]. cbn. rewrite (H x (or_introl eq_refl)). apply IH. intros y Hy. apply H. now right.
  Qed.

  Section Run.
    Variable fam : family.
    Hypothesis Hfam : block_family fam = true.
    Hypothesis Hfx : forall ex, In ex (family_exits fam) -> is_exit ex = true.

    Theorem block_converges rs h s crs bo bn ord :
      match_row h rs = Some (s, crs) -> is_rewrite s = false -> a_force_commit (mi_attrs s) = false -> is_exit h = false ->
      wf bn -> rd crs bo bn ->
      (forall pt, mkpatch (make_pre (make_diff rmatch rs [(h, T bo)] [(h, T bn)])) ord = POk pt -> rw_keys_ok_b rmatch pt rs = true) ->
      exists pt, mkpatch (make_pre (make_diff rmatch rs [(h, T bo)] [(h, T bn)])) ord = POk pt /\
                 exec rmatch rreverse is_exit rs (cmd_paths fam pt) [(h, T bo)] = [(h, T bn)].
    Proof.
      intros Hm Hnr Hfc Hex Hwn Hrd Hkeys. unfold make_diff in *.
      rewrite (header_raw_diff rs h s crs Hm Hnr) in *. rewrite (body_top crs bo bn Hrd) in *.
      destruct (all_affected (bd crs bo bn Affected)) eqn:Ea.
      - (* nothing changed *)
        pose proof (body_cleared bn bo crs Hrd Ea) as E. subst bn.
        cbn [mark_unchanged map mark_unchanged_n op_eqb forallb] in *.
        rewrite (patch_unchanged rmatch rsrc rrev block_exit rreverse) in * by (intros x [<-|[]]; reflexivity).
        exists (PT []). split; [reflexivity|].
        rewrite (exec_cmd_paths rmatch rreverse is_exit fam rs (PT []) _ Hfam Hfx) by (cbn; split; [constructor | exact I]).
        reflexivity.
      - destruct (body_diff bn bo crs Affected Hrd (or_introl eq_refl)) as (Hd & Hlv & Hb).
        set (D := aff_to_moved (bd crs bo bn Affected)) in *.
        assert (Hne : D <> []).
        { intro E. unfold D, aff_to_moved in E. apply map_eq_nil in E. rewrite E in Ea. discriminate. }
        assert (Emark : mark_unchanged [DN Affected h s D] = [DN Affected h s D]).
        { cbn [mark_unchanged map mark_unchanged_n op_eqb]. fold (mark_unchanged D). unfold D at 1 2. rewrite mark_aff_to_moved. fold D.
          destruct D as [|d0 D']; [congruence|]. cbn [forallb].
          inversion Hd as [|x y Hd0 _]; subst. destruct (dok_op d0 crs Hd0) as [E|[E|E]]; rewrite E; reflexivity. }
        rewrite Emark in *.
        rewrite (header_patch h s crs Hfc D ord Hd Hlv Hne) in *.
        eexists. split; [reflexivity|]. specialize (Hkeys _ eq_refl).
        pose proof (rd_inv _ _ _ Hrd) as (_ & _ & Hrow & _).
        (* the header command *)
        assert (Ecmd : exec_cmd rmatch rreverse is_exit rs h [(h, T bo)] = [(h, T [])]).
        { rewrite (exec_cmd_direct rmatch rreverse is_exit rs h s crs _ Hex Hm). unfold exec_direct.
          assert (Ein : in_slot rmatch rs s (h, T bo) = true).
          { unfold in_slot, slot_of. cbn [fst]. rewrite Hm. cbn [option_map fst]. apply same_slot_refl. }
          cbn [find]. rewrite Ein. cbn [fst snd kids]. rewrite String.eqb_refl. cbn [replace_slot]. rewrite Ein.
          f_equal. f_equal. f_equal. unfold enter. apply filter_none. intros [r t] Hin. cbn [fst].
          destruct (Hrow r) as (sr & cr & Hmr & Hrw & _); [apply in_or_app; left; apply (in_keys r t bo Hin)|].
          unfold slot_of. rewrite Hmr. cbn [option_map fst]. rewrite Hrw. reflexivity. }
        cbn [ConvergeRewrite.mitems op_eqb] in *.
        set (go := get_order rmatch rsrc rrev block_exit ord h true (Some "patch")) in *.
        set (ct := PT (sort_items (flat_map (mitems (snd go)) D))) in *.
        assert (Hct : prows_ok is_exit ct) by (apply (body_prows D crs (snd go) Hd); rewrite Hb; exact Hwn).
        match goal with |- context [if ?c then _ else _] => destruct c eqn:Ec end.
        + (* a leaf command: the body patch is empty, so new's body is empty *)
          assert (Es : sort_items (flat_map (mitems (snd go)) D) = []).
          { unfold ct in Ec. cbn [pitems] in Ec. destruct (sort_items (flat_map (mitems (snd go)) D)); [reflexivity | discriminate]. }
          pose proof (rewrite_builds rmatch rsrc rrev block_exit rreverse is_exit D crs (snd go) Hd Hlv) as Hrun.
          rewrite Es in Hrun. specialize (Hrun eq_refl). cbn [ConvergeRun.run_pt] in Hrun. rewrite Hb in Hrun. rewrite <- Hrun.
          rewrite (exec_cmd_paths rmatch rreverse is_exit fam rs _ _ Hfam Hfx).
          * rewrite run_pt_fold. cbn [fold_left]. unfold run_item, ichild, irow. cbn [fst snd]. exact Ecmd.
          * apply prows_ok_intro; [cbn; constructor; [intros [] | constructor]|].
            intros it [<-|[]]. unfold irow, ichild. cbn [fst snd]. auto.
        + rewrite (exec_cmd_paths rmatch rreverse is_exit fam rs _ _ Hfam Hfx).
          * rewrite run_pt_fold. cbn [fold_left]. unfold run_item, ichild, irow. cbn [fst snd]. rewrite Hm, Ecmd.
            rewrite (nav_mid h _ [] (T []) [] (fun x => x)). cbn [app kids]. f_equal. f_equal. f_equal.
            rewrite <- Hb. apply (rewrite_builds rmatch rsrc rrev block_exit rreverse is_exit D crs (snd go) Hd Hlv).
            apply rw_keys_inv in Hkeys as [_ Hc]. specialize (Hc _ (or_introl eq_refl)).
            unfold child_ok, ichild, irow in Hc. cbn [fst snd] in Hc. rewrite Hm in Hc. exact Hc.
          * apply prows_ok_intro; [cbn; constructor; [intros [] | constructor]|].
            intros it [<-|[]]. unfold irow, ichild. cbn [fst snd]. auto.
    Qed.
  End Run.
End Block.

(* ------------------------------------------------------------------ E. instantiated *)
From Annet Require Import Proofs.ConvergeTop.

(* A block header present in old and new whose bodies are governed by %rewrite rules at every depth (wf_rw_block): the patch
   is computed and executing the model's command paths on old yields new - equal as a forest. *)
Theorem rewrite_block_model v rs ordering old new : wf_rw_block v rs ordering old new = true ->
  exists pt, snd (diff_and_patch v rs ordering old new) = POk pt /\
             p_exec v rs (cmd_paths (v_family v) pt) old = new.
Proof.
  unfold wf_rw_block. intro H.
  destruct old as [|[h [bo]] [|]]; try discriminate. destruct new as [|[h' [bn]] [|]]; try discriminate.
  repeat (apply andb_true_iff in H as [H ?]).
  apply String.eqb_eq in H. subst h'. rename H0 into Hord, H1 into Hdom, H2 into Hwn, H3 into Hwo, H4 into Hhdr, H5 into Hfam.
  apply wfb_wf in Hwn. apply wfb_wf in Hwo.
  unfold rw_header_ok in Hhdr. unfold rw_crs, p_rw_dom in Hdom.
  destruct (match_row pm h rs) as [[s crs]|] eqn:Hm; [|discriminate].
  repeat (apply andb_true_iff in Hhdr as [Hhdr ?]). apply negb_true_iff in Hhdr, H, H0.
  pose proof (rd_of_dom pm (v_is_exit v) bn bo crs Hwo Hwn Hdom) as Hrd.
  unfold diff_and_patch, p_make_patch, p_make_diff, p_exec in *. cbn [snd] in *.
  apply (block_converges pm psrc (prev v) (v_exit v) (prreverse v) (v_is_exit v) (v_family v) Hfam (v_exits_family v)
           rs h s crs bo bn ordering Hm Hhdr H0 H Hwn Hrd).
  intros pt Hp. unfold rw_order_ok, diff_and_patch, p_make_patch, p_make_diff in Hord. cbn [snd] in Hord. rewrite Hp in Hord. exact Hord.
Qed.

Theorem rewrite_flat_model v rs ordering old new : wf_rw_flat v rs ordering old new = true ->
  exists pt, snd (diff_and_patch v rs ordering old new) = POk pt /\
             p_exec v rs (cmd_paths (v_family v) pt) old = new.
Proof. unfold wf_rw_flat. intro H. apply andb_true_iff in H as [H _]. apply rewrite_block_model. exact H. Qed.
